(* A universe of blocks WITH IDENTITY carrying a real parameter change that satisfies the tagged quorum-intersection premise
   TQI_model_decl: SafetyDynExamples' chains (validator 4's weight 1 -> 2 and thresholds 3 -> 4 announced by block 2 of the common
   prefix, fork at height 7 by the Byzantine validator 1), tagged with ids (common prefix: equal ids; the two blocks at height 7:
   different ids).  Premises of C01_dynamic_safety_ids_fork_params_partial hold; chain A finalizes height 7. *)
From Coq Require Import List NArith Bool Lia ZArith Arith.
From Coq Require Import ZifyBool ZifyN ZifyNat.
From LE Require Import BFT.Contradiction BFT.Votes BFT.VotesProofs BFT.VotesGhost BFT.SafetyInst BFT.VotesGhostDyn BFT.SafetyDyn
                       BFT.SafetyIds BFT.Universe BFT.Refuted BFT.SafetyOracle BFT.SafetyDynExamples.
Import ListNotations.
Local Open Scope N_scope.

Definition tagp (base : N) (K : chain) : tchain := combine (map (fun i => base + N.of_nat i) (seq 1 (length K))) K.
Definition TKa : tchain := tagp 0 Ka.
Definition TKb : tchain := firstn 6 TKa ++ [(207, nth 6 Kb (Build_hdr 0 0 0 0 None, None))].
Definition TUd (T : tchain) : Prop := (prefix T TKa \/ prefix T TKb) /\ T <> [].
Definition tmembers : list tchain := map (fun i => firstn i TKa) (seq 1 12) ++ map (fun i => firstn i TKb) (seq 1 7).

Lemma untag_TKa : untag TKa = Ka. Proof. vm_compute. reflexivity. Qed.
Lemma untag_TKb : untag TKb = Kb. Proof. vm_compute. reflexivity. Qed.

Lemma TUd_universe : tuniverseD_decl 4 0 s0d TUd.
Proof.
  destruct Kb_view as [sb Hb]. split.
  - intros T [HT Hne]. split; [exact Hne|]. apply (validD_spec 4 ltac:(lia) 0 s0d). unfold validD.
    destruct HT as [H|H]; apply untag_prefix in H;
      [rewrite untag_TKa in H; destruct (viewD_prefix 4 ltac:(lia) 0 s0d Ka _ sa Ka_view H) as (s' & ->)
      |rewrite untag_TKb in H; destruct (viewD_prefix 4 ltac:(lia) 0 s0d Kb _ sb Hb H) as (s' & ->)]; discriminate.
  - intros T T' [HT _] HP Hne. split; [|exact Hne]. destruct HT as [H|H]; [left|right]; eapply prefix_trans; eauto.
Qed.
Lemma TUd_members : forall T, TUd T -> In T tmembers.
Proof.
  intros T [[H|H] Hne]; pose proof (prefix_length _ _ H) as Hl; rewrite (prefix_firstn _ _ H); unfold tmembers; apply in_or_app.
  - left. apply in_map_iff. exists (length T). split; [reflexivity|]. apply in_seq.
    assert (E : length TKa = 12%nat) by (vm_compute; reflexivity). rewrite E in Hl. destruct T; [congruence|cbn [length] in *; lia].
  - right. apply in_map_iff. exists (length T). split; [reflexivity|]. apply in_seq.
    assert (E : length TKb = 7%nat) by (vm_compute; reflexivity). rewrite E in Hl. destruct T; [congruence|cbn [length] in *; lia].
Qed.

Definition tpair_ok1 (T1 T2 : tchain) : bool :=
  (if tchain_eq_dec T1 T2 then true else false) || negb (genC (untag T1) =? genC (untag T2)) || (genC (untag T1) =? 1) ||
  negb (contradicting (bh_of_hdr (lastH (untag T1))) (bh_of_hdr (lastH (untag T2)))).
Lemma TUd_pairs : forallb (fun T1 => forallb (tpair_ok1 T1) tmembers) tmembers = true.
Proof. vm_compute. reflexivity. Qed.
Lemma TUd_honest : forall v, In v (map fst vstar) -> ~ In v [1] -> thonest TUd v.
Proof.
  intros v _ Hv T1 T2 H1 H2 Hne G1 G2. pose proof TUd_pairs as Hp. rewrite forallb_forall in Hp.
  specialize (Hp T1 (TUd_members T1 H1)). rewrite forallb_forall in Hp. specialize (Hp T2 (TUd_members T2 H2)).
  unfold tpair_ok1 in Hp. destruct (tchain_eq_dec T1 T2) as [E|_]; [contradiction|]. cbn [orb] in Hp.
  rewrite G1, G2, N.eqb_refl in Hp. cbn [negb orb] in Hp.
  destruct (v =? 1) eqn:E1; [apply N.eqb_eq in E1; exfalso; apply Hv; left; symmetry; exact E1|]. cbn [orb] in Hp.
  apply negb_true_iff in Hp. exact Hp.
Qed.

Definition tfork_check : bool :=
  forallb (fun T1 => match run_blocks 4 s0d (untag T1) with
    | Ok s1 => forallb (fun e => forallb (fun T2 => forallb (fun f =>
          negb (f <=? i_height e) || negb (f <=? N.of_nat (length T1)) || negb (f <=? N.of_nat (length T2)) ||
          (if tchain_eq_dec (firstn (N.to_nat f) T1) (firstn (N.to_nat f) T2) then true else false) ||
          pok (get_params (s_params s1) (i_height e))) fs) tmembers) (v_infos (s_votes s1))
    | Error _ => true end) tmembers.
Lemma tfork_check_ok : tfork_check = true.
Proof. vm_compute. reflexivity. Qed.

Lemma TUd_fork_params : tfork_params 4 0 s0d TUd vstar 4 4.
Proof.
  intros T1 T2 s1 a pa f U1 U2 R1 (e & He & Ea) Hfa (D1 & D2 & D3) P1.
  rewrite N.add_0_l in D1, D2. rewrite N.sub_0_r in D3.
  pose proof tfork_check_ok as Hc. unfold tfork_check in Hc. rewrite forallb_forall in Hc.
  specialize (Hc T1 (TUd_members T1 U1)). rewrite R1 in Hc. rewrite forallb_forall in Hc. specialize (Hc e He).
  rewrite forallb_forall in Hc. specialize (Hc T2 (TUd_members T2 U2)). rewrite forallb_forall in Hc.
  assert (Hf : In f fs).
  { unfold fs. apply in_map_iff. exists (N.to_nat f). split; [lia|]. apply in_seq.
    pose proof (TUd_members T1 U1) as Hm. unfold tmembers in Hm. apply in_app_or in Hm.
    assert (Hl : (length T1 <= 12)%nat).
    { destruct Hm as [Hm|Hm]; apply in_map_iff in Hm; destruct Hm as (i & <- & Hi); apply in_seq in Hi; rewrite firstn_length; lia. }
    lia. }
  specialize (Hc f Hf). rewrite Ea, P1 in Hc.
  assert (f <=? a = true) as E1 by lia. assert (f <=? N.of_nat (length T1) = true) as E2 by lia.
  assert (f <=? N.of_nat (length T2) = true) as E3 by lia. rewrite E1, E2, E3 in Hc. cbn [negb orb] in Hc.
  destruct (tchain_eq_dec (firstn (N.to_nat f) T1) (firstn (N.to_nat f) T2)) as [E|_]; [contradiction|]. cbn [orb pok] in Hc.
  apply andb_prop in Hc. destruct Hc as [Hc H3]. apply andb_prop in Hc. destruct Hc as [H1 H2].
  apply vals_eqb_eq in H1. split; [exact H1|]. split; lia.
Qed.

Example tagged_changed_prefix_universe_satisfies_TQI : TQI_model_decl 4 0 s0d TUd.
Proof.
  apply (tfork_params_QI 4 0 chg_c s0d TUd vstar 4 4 [1]); [lia|exact s0d_init|exact TUd_universe|exact TUd_fork_params|exact TUd_honest|].
  vm_compute. reflexivity.
Qed.

Example C01_dynamic_ids_fork_params_hypotheses_satisfiable :
  tuniverseD_decl 4 0 s0d TUd /\ tfork_params 4 0 s0d TUd vstar 4 4 /\
  (forall v, In v (map fst vstar) -> ~ In v [1] -> thonest TUd v) /\ total_weight vstar + wsum vstar [1] < 4 + 4 /\
  TUd TKa /\ TUd TKb /\ run_blocks 4 s0d (untag TKa) = Ok sa /\ v_mhpc (s_votes sa) = 7 /\
  firstn 6 TKa = firstn 6 TKb /\ nth_error TKa 6 <> nth_error TKb 6 /\
  (exists b, nth_error TKa 1 = Some (2, (b, Some cc))).
Proof.
  split; [exact TUd_universe|]. split; [exact TUd_fork_params|]. split; [exact TUd_honest|]. split; [vm_compute; reflexivity|].
  split; [split; [left; apply prefix_refl|vm_compute; discriminate]|]. split; [split; [right; apply prefix_refl|vm_compute; discriminate]|].
  split; [rewrite untag_TKa; vm_compute; reflexivity|]. split; [vm_compute; reflexivity|]. split; [vm_compute; reflexivity|].
  split; [vm_compute; discriminate|]. eexists. vm_compute. reflexivity.
Qed.
Print Assumptions tagged_changed_prefix_universe_satisfies_TQI.
Print Assumptions C01_dynamic_ids_fork_params_hypotheses_satisfiable.
