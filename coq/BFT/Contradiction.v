(* Model of pkg/consensus/contradiction/contradiction.go : AreDistinctHeadersContradicting.
   Fields are uint32 in Go; only comparisons are performed, so unbounded N is exact. *)
From Coq Require Import List NArith Bool.
Import ListNotations.
Local Open Scope N_scope.

Record bh := { height : N; gen : N; mhg : N; mhp : N }.

(* verbatim: ordering step, then the three conditions *)
Definition contradicting (b1 b2 : bh) : bool :=
  let swap := (mhg b2 <? mhg b1) || ((mhg b1 =? mhg b2) && (mhp b2 <? mhp b1))
              || ((mhg b1 =? mhg b2) && (mhp b1 =? mhp b2) && (height b2 <? height b1)) in
  let e := if swap then b2 else b1 in
  let l := if swap then b1 else b2 in
  if negb (gen e =? gen l) then false else
  if (mhp e =? mhp l) && (height l <=? height e) then true else
  if mhg l <? height e then true else
  if mhp l <? mhp e then true else false.

(* LIP-0014 reading used by the property: [l] is a legitimate successor of [e]. *)
Definition legit_successor (e l : bh) : Prop :=
  height e <= mhg l /\ mhg e <= mhg l /\ mhp e <= mhp l /\ (mhp e < mhp l \/ height e < height l).

Definition legit_successor_b (e l : bh) : bool :=
  (height e <=? mhg l) && (mhg e <=? mhg l) && (mhp e <=? mhp l) &&
  ((mhp e <? mhp l) || (height e <? height l)).

(* declarative oracle (right-hand side of contradicting_iff), used as the property oracle *)
Definition contradicting_spec (b1 b2 : bh) : bool :=
  (gen b1 =? gen b2) && negb (legit_successor_b b1 b2) && negb (legit_successor_b b2 b1).

Fixpoint max_height (hs : list bh) : N :=
  match hs with [] => 0 | b :: t => N.max (height b) (max_height t) end.

(* a generator that follows the protocol, newest first: (mhp,height) lexicographically
   increasing (it only switches chain by fork choice), mhg = largest height generated before *)
Inductive follower : list bh -> Prop :=
| f_nil : follower []
| f_cons : forall b hs, follower hs ->
    mhg b = max_height hs ->
    (forall p, In p hs -> gen p = gen b /\ (mhp p < mhp b \/ (mhp p = mhp b /\ height p < height b))) ->
    follower (b :: hs).
