(* Link between the proved theorem C01_static_safety_one_third (BFT/SafetyInst.v) and the EXECUTABLE safety oracle
   [Universe.examine] used by the C01 correspondence evaluator: on every universe of two valid static chains whose
   hypothesis flag holds (3 * Byzantine weight < W, Byzantine = validators with two contradicting blocks in the universe)
   and whose precommit threshold is at least floor(2W/3)+1, the oracle's verdict [vd_safe] is true.
   (Validator addresses are assumed pairwise distinct, as everywhere in the repo's configurations.) *)
From Coq Require Import List NArith Bool Lia ZArith Arith.
From Coq Require Import ZifyBool ZifyN ZifyNat.
From LE Require Import BFT.Contradiction BFT.Votes BFT.VotesProofs BFT.Safety BFT.VotesGhost BFT.SafetyInst BFT.Universe.
Import ListNotations.
Local Open Scope N_scope.

(* ---- boolean equalities of Universe.v *)
Lemma optN_eqb_eq : forall a b, optN_eqb a b = true -> a = b.
Proof. intros [x|] [y|] H; cbn in H; try discriminate; [apply N.eqb_eq in H; subst|]; reflexivity. Qed.
Lemma optN_eqb_refl : forall a, optN_eqb a a = true.
Proof. intros [x|]; cbn; [apply N.eqb_refl|reflexivity]. Qed.
Lemma hdr_eqb_eq : forall a b, hdr_eqb a b = true -> a = b.
Proof.
  intros [h1 g1 m1 p1 c1] [h2 g2 m2 p2 c2] H. unfold hdr_eqb in H; cbn in H.
  repeat (apply andb_prop in H; destruct H as [H ?]). apply optN_eqb_eq in H0. f_equal; try lia. exact H0.
Qed.
Lemma hdr_eqb_refl : forall a, hdr_eqb a a = true.
Proof. intros a. unfold hdr_eqb. rewrite !N.eqb_refl, optN_eqb_refl. reflexivity. Qed.
Lemma vals_eqb_eq : forall a b, vals_eqb a b = true -> a = b.
Proof.
  induction a as [|[x w] a IH]; intros [|[y v] b] H; cbn in H; try discriminate; [reflexivity|].
  repeat (apply andb_prop in H; destruct H as [H ?]). f_equal; [f_equal; lia|apply IH; assumption].
Qed.
Lemma vals_eqb_refl : forall a, vals_eqb a a = true.
Proof. induction a as [|[x w] a IH]; [reflexivity|]. cbn. rewrite !N.eqb_refl, IH. reflexivity. Qed.
Lemma chg_eqb_eq : forall a b, chg_eqb a b = true -> a = b.
Proof.
  intros [[p1 c1 v1]|] [[p2 c2 v2]|] H; cbn in H; try discriminate; [|reflexivity].
  repeat (apply andb_prop in H; destruct H as [H ?]). apply vals_eqb_eq in H0. f_equal. f_equal; try lia. exact H0.
Qed.
Lemma chg_eqb_refl : forall a, chg_eqb a a = true.
Proof. intros [[p1 c1 v1]|]; cbn; [rewrite !N.eqb_refl, vals_eqb_refl|]; reflexivity. Qed.
Lemma block_eqb_eq : forall a b, block_eqb a b = true -> a = b.
Proof.
  intros [h1 c1] [h2 c2] H. unfold block_eqb in H. cbn [fst snd] in H. apply andb_prop in H. destruct H as [H1 H2].
  apply hdr_eqb_eq in H1. apply chg_eqb_eq in H2. subst. reflexivity.
Qed.
Lemma block_eqb_refl : forall a, block_eqb a a = true.
Proof. intros a. unfold block_eqb. rewrite hdr_eqb_refl, chg_eqb_refl. reflexivity. Qed.
Lemma chain_eqb_eq : forall a b, chain_eqb a b = true -> a = b.
Proof.
  induction a as [|x a IH]; intros [|y b] H; cbn in H; try discriminate; [reflexivity|].
  apply andb_prop in H. destruct H as [H1 H2]. apply block_eqb_eq in H1. apply IH in H2. subst. reflexivity.
Qed.
Lemma is_prefix_complete : forall a b : list block, prefix a b -> is_prefix a b = true.
Proof.
  intros a b [t ->]. induction a as [|x a IH]; [reflexivity|]. cbn. rewrite block_eqb_refl, IH. reflexivity.
Qed.

(* ---- run_valid on a static chain is the view of SafetyInst *)
Lemma run_valid_vrun : forall batch K s tip, static_chain K = true -> run_valid batch s tip K = vrun batch s tip K.
Proof.
  induction K as [|[b chg] K IH]; intros s tip H; [reflexivity|]. cbn [static_chain forallb snd] in H.
  destruct chg; [discriminate|]. cbn [andb] in H. cbn [run_valid vrun]. unfold step. cbn [fst snd apply_block].
  destruct ((h_height b =? tip + 1) && bft_valid s b); [|reflexivity].
  destruct (before_txs batch s b) as [s'|e]; cbn [bind]; [apply IH; exact H|reflexivity].
Qed.

(* ---- prefixes / blocks_of *)
Lemma in_prefixes : forall (K P : list block), P <> [] -> prefix P K -> In P (prefixes K).
Proof.
  induction K as [|x K IH]; intros P Hne [t Ht].
  - destruct P; [congruence|discriminate].
  - destruct P as [|y P]; [congruence|]. cbn [app] in Ht. injection Ht as <- Ht. cbn [prefixes].
    destruct P as [|z P]; [left; reflexivity|]. right. apply in_map. apply IH; [discriminate|exists t; exact Ht].
Qed.
Lemma last_hdr_lastH : forall P : list block, P <> [] -> last_hdr P = Some (lastH P).
Proof.
  intros P Hne. destruct (exists_last Hne) as (P0 & y & ->). unfold last_hdr. rewrite rev_app_distr. cbn.
  rewrite lastH_snoc. reflexivity.
Qed.

Section Oracle.
  Variable batch : nat.
  Hypothesis Hbatch : (0 < batch)%nat.
  Variable gh : N.
  Variable c : pchange.
  Variable K1 K2 : list block.
  Hypothesis Hnodup : NoDup (map fst (c_vals c)).

  Definition Uo (P : chain) : Prop := P <> [] /\ (prefix P K1 \/ prefix P K2).

  Lemma honest_b_honest : forall v, honest_b v [K1; K2] = true -> honest Uo v.
  Proof.
    intros v Hb P1 P2 [N1 H1] [N2 H2] Hne G1 G2. unfold honest_b in Hb. rewrite forallb_forall in Hb.
    assert (Hin : forall P, P <> [] -> (prefix P K1 \/ prefix P K2) -> genC P = v -> In (lastH P, P) (blocks_of v [K1; K2])).
    { intros P Pne HP HG. unfold blocks_of. apply in_flat_map.
      destruct HP as [HP|HP]; [exists K1|exists K2]; (split; [cbn; tauto|]); apply in_flat_map; exists P;
        (split; [apply in_prefixes; assumption|]); rewrite (last_hdr_lastH P Pne); unfold genC in HG; rewrite HG, N.eqb_refl; left; reflexivity. }
    specialize (Hb _ (Hin P1 N1 H1 G1)). rewrite forallb_forall in Hb. specialize (Hb _ (Hin P2 N2 H2 G2)). cbn [fst snd] in Hb.
    destruct (chain_eqb P1 P2) eqn:E; [apply chain_eqb_eq in E; contradiction|]. cbn [orb] in Hb. apply negb_true_iff in Hb. exact Hb.
  Qed.

  (* weights: with distinct addresses the sorted lookup returns the configured weight *)
  Lemma find_weight_nodup : forall l a w, NoDup (map fst l) -> In (a, w) l -> find_weight l a = Some w.
  Proof.
    induction l as [|[x u] l IH]; intros a w Hn Hin; [contradiction|]. cbn [map fst] in Hn. inversion Hn as [|? ? Hx Hn']; subst.
    cbn [find_weight]. destruct Hin as [E|Hin].
    - injection E as -> ->. rewrite N.eqb_refl. reflexivity.
    - destruct (x =? a) eqn:E; [|apply IH; assumption]. apply N.eqb_eq in E. subst. exfalso. apply Hx.
      apply in_map_iff. exists (a, w). split; [reflexivity|exact Hin].
  Qed.
  Lemma nodup_insert_desc : forall x l, NoDup (map fst l) -> ~ In (fst x) (map fst l) -> NoDup (map fst (insert_desc x l)).
  Proof.
    induction l as [|y l IH]; intros Hn Hx; cbn [insert_desc]; [cbn; constructor; [intros []|constructor]|].
    destruct (fst y <? fst x); cbn [map]; [constructor; assumption|].
    cbn [map] in Hn, Hx. inversion Hn as [|? ? Hy Hn']; subst. constructor.
    - intros Hin. apply in_map_iff in Hin. destruct Hin as (z & Hz & Hzin). apply in_insert_desc in Hzin.
      destruct Hzin as [->|Hzin]; [apply Hx; left; symmetry; exact Hz|]. apply Hy. rewrite <- Hz. apply in_map. exact Hzin.
    - apply IH; [exact Hn'|]. intros Hin. apply Hx. right; exact Hin.
  Qed.
  Lemma nodup_sort_desc : forall l, NoDup (map fst l) -> NoDup (map fst (sort_desc l)).
  Proof.
    induction l as [|x l IH]; intros Hn; [constructor|]. cbn [map] in Hn. inversion Hn as [|? ? Hx Hn']; subst.
    unfold sort_desc in *. cbn [fold_right]. apply nodup_insert_desc; [apply IH; exact Hn'|].
    intros Hin. apply Hx. apply in_map_iff in Hin. destruct Hin as (z & Hz & Hzin). apply (proj1 (in_sort_desc _ _)) in Hzin.
    rewrite <- Hz. apply in_map. exact Hzin.
  Qed.

  Definition byz_list : list addr := map fst (filter (fun v => negb (honest_b (fst v) [K1; K2])) (c_vals c)).

  Lemma byz_weight_wsum : wsum (vals c) byz_list = byz_weight (c_vals c) [K1; K2].
  Proof.
    unfold byz_list, byz_weight.
    assert (G : forall l, (forall x, In x l -> In x (c_vals c)) ->
              wsum (vals c) (map fst (filter (fun v => negb (honest_b (fst v) [K1; K2])) l)) =
              fold_right (fun v acc => if honest_b (fst v) [K1; K2] then acc else snd v + acc) 0 l).
    { induction l as [|[a w] l IH]; intros Hsub; [reflexivity|]. cbn [filter fold_right fst snd].
      specialize (IH (fun x Hx => Hsub x (or_intror Hx))).
      destruct (honest_b a [K1; K2]); cbn [negb]; [exact IH|]. cbn [map fst]. rewrite wsum_cons, IH. f_equal.
      unfold weight, vals, p0. cbn [p_vals].
      rewrite (find_weight_nodup (sort_desc (c_vals c)) a w (nodup_sort_desc _ Hnodup)); [reflexivity|].
      apply in_sort_desc. apply Hsub. left; reflexivity. }
    apply G. auto.
  Qed.

  Lemma in_byz_list : forall v, In v (map fst (c_vals c)) -> ~ In v byz_list -> honest_b v [K1; K2] = true.
  Proof.
    intros v Hv Hn. destruct (honest_b v [K1; K2]) eqn:E; [reflexivity|]. exfalso. apply Hn.
    apply in_map_iff in Hv. destruct Hv as ([a w] & <- & Hin). unfold byz_list. apply in_map_iff. exists (a, w).
    split; [reflexivity|]. apply filter_In. split; [exact Hin|]. cbn [fst] in *. rewrite E. reflexivity.
  Qed.

  (* the executable oracle never reports a violation on a static universe satisfying the hypotheses *)
  Theorem examine_safe :
    let v := examine batch gh c K1 K2 in
    vd_valid v = true -> vd_static v = true -> vd_hyp v = true ->
    total_weight (c_vals c) * 2 / 3 + 1 <= c_pc c ->
    vd_safe v = true.
  Proof.
    cbv zeta. unfold examine. destruct (init_store batch gh c) as [s0|e] eqn:Hinit; [|discriminate].
    destruct (run_valid batch s0 gh K1) as [s1|] eqn:R1; [|discriminate].
    destruct (run_valid batch s0 gh K2) as [s2|] eqn:R2; [|discriminate].
    cbn [vd_valid vd_static vd_hyp vd_safe]. intros _ Hst Hhyp Hpc.
    apply andb_prop in Hst. destruct Hst as [St1 St2].
    rewrite (run_valid_vrun batch K1 s0 gh St1) in R1. rewrite (run_valid_vrun batch K2 s0 gh St2) in R2.
    change (view batch gh s0 K1 = Some s1) in R1. change (view batch gh s0 K2 = Some s2) in R2.
    unfold comparable, finalized_prefix, finalized.
    destruct (init_shape batch Hbatch gh c s0 Hinit) as (_ & _ & _ & Hg0 & _).
    (* a view that finalized nothing above genesis contributes the empty prefix *)
    destruct (N.le_gt_cases (v_mhpc (s_votes s1)) gh) as [L1|G1].
    { replace (N.to_nat (v_mhpc (s_votes s1) - gh)) with 0%nat by lia. reflexivity. }
    destruct (N.le_gt_cases (v_mhpc (s_votes s2)) gh) as [L2|G2].
    { replace (N.to_nat (v_mhpc (s_votes s2) - gh)) with 0%nat by lia. cbn [firstn is_prefix]. apply orb_true_r. }
    assert (N1 : K1 <> []) by (intros ->; cbn in R1; injection R1 as <-; lia).
    assert (N2 : K2 <> []) by (intros ->; cbn in R2; injection R2 as <-; lia).
    assert (HU : universe batch gh s0 Uo).
    { split.
      - intros K [Hne HK]. split; [exact Hne|]. unfold valid_chain.
        destruct HK as [H|H];
          [destruct (view_prefix batch Hbatch gh s0 K1 K s1 R1 H) as (s' & ->)|destruct (view_prefix batch Hbatch gh s0 K2 K s2 R2 H) as (s' & ->)];
          discriminate.
      - intros K K' [_ HK] HP Hne. split; [exact Hne|]. destruct HK as [H|H]; [left|right]; eapply prefix_trans; eauto. }
    assert (Hh : forall v, In v (map fst (c_vals c)) -> ~ In v byz_list -> honest Uo v).
    { intros v Hv Hn. apply honest_b_honest. apply in_byz_list; assumption. }
    assert (Hf : 3 * wsum (vals c) byz_list < total_weight (c_vals c)) by (rewrite byz_weight_wsum; lia).
    destruct (C01_static_safety_one_third batch gh c s0 Uo byz_list Hbatch Hinit HU Hh Hf Hpc K1 K2 s1 s2
                (v_mhpc (s_votes s1)) (v_mhpc (s_votes s2))
                (conj N1 (or_introl (prefix_refl K1))) (conj N2 (or_intror (prefix_refl K2))) R1 R2 ltac:(lia) ltac:(lia)) as [H|H].
    - unfold blk in H. rewrite (is_prefix_complete _ _ H). reflexivity.
    - unfold blk in H. rewrite (is_prefix_complete _ _ H). apply orb_true_r.
  Qed.
End Oracle.
Print Assumptions examine_safe.

(* non-vacuity: the forked universe of SafetyInst.Example (validator 1 Byzantine) satisfies every premise *)
Example examine_safe_premises :
  let v := examine 4 0 Example.ex_c Example.Ka Example.Kb in
  vd_valid v = true /\ vd_static v = true /\ vd_hyp v = true /\
  total_weight (c_vals Example.ex_c) * 2 / 3 + 1 <= c_pc Example.ex_c /\
  NoDup (map fst (c_vals Example.ex_c)) /\ vd_fin1 v = 5 /\ byz_weight (c_vals Example.ex_c) [Example.Ka; Example.Kb] = 1.
Proof.
  cbv zeta. split; [vm_compute; reflexivity|]. split; [vm_compute; reflexivity|]. split; [vm_compute; reflexivity|].
  split; [vm_compute; discriminate|]. split; [repeat constructor; cbn; lia|]. split; vm_compute; reflexivity.
Qed.
