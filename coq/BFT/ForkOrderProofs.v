(* Ties the evaluation order of the fork-choice model ([classify]) to the order regenerated from Executer.process. *)
From Coq Require Import List NArith Bool.
From LE Require Import BFT.ForkChoice Gen.ForkOrder.
Import ListNotations.

(* the code's dispatch order (generated) yields exactly the modelled classification *)
Lemma process_dispatch_is_classify : forall c last cur tl tc,
  dispatch (map fst process_branches) c last cur tl tc = classify c last cur tl tc.
Proof. intros. reflexivity. Qed.

(* what each branch does, as the model of C03/C04 assumes: only a directly extending block or a tie break applies a block,
   only a tie break deletes the tip, only a different chain starts sync, and the block is validated before it is applied.
   The receive time read by the tie-break rule (lastBlockReceived) is recorded only in the two branches that make the
   received block the tip, and only AFTER it has been applied: a rejected block must not change how the next block is
   classified (in the tie-break branch the textual order is: apply new block; on failure re-apply the old tip and return;
   else record the time). *)
Definition expected_branches : list (fc_case * list action) :=
  [ (Identical, []); (ValidBlock, [ActValidate; ActApply; ActSetReceived]); (DoubleForging, []);
    (TieBreak, [ActValidate; ActDelete; ActApply; ActApply; ActSetReceived]); (DifferentChain, [ActSync]) ].
Lemma process_branches_expected : process_branches = expected_branches.
Proof. reflexivity. Qed.
