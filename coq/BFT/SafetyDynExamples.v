(* Non-vacuity and sharpness of the dynamic-validator-set theorems of BFT/SafetyDyn.v (evaluation on the faithful model):
   (a) the universe of Refuted.refuted_validator_change (chg_K1 / chg_K2: a fork-dependent validator-set change) does
       NOT satisfy the quorum-intersection premise QI_model_decl;
   (b) a universe with a parameter change INSIDE the common prefix (validator 4's weight 1 -> 2, thresholds 3 -> 4,
       in force from height 3), a fork at height 7 and a Byzantine validator satisfies every premise of
       C01_dynamic_safety_fork_params_partial, hence QI_model_decl, and chain A finalizes height 7. *)
From Coq Require Import List NArith Bool Lia ZArith Arith.
From Coq Require Import ZifyBool ZifyN ZifyNat.
From LE Require Import BFT.Contradiction BFT.Votes BFT.VotesProofs BFT.VotesGhost BFT.SafetyInst BFT.VotesGhostDyn BFT.SafetyDyn
                       BFT.Universe BFT.Refuted BFT.SafetyOracle.
Import ListNotations.
Local Open Scope N_scope.

Definition s0d : store := match init_store 4 0 chg_c with Ok s => s | Error _ => genesis_store 0 end.
Lemma s0d_init : init_store 4 0 chg_c = Ok s0d.
Proof. vm_compute. reflexivity. Qed.

Definition two_chain_universe (A B : chain) (K : chain) : Prop := (prefix K A \/ prefix K B) /\ K <> [].

Lemma two_chain_universe_decl : forall A B sa sb, viewD 4 0 s0d A = Some sa -> viewD 4 0 s0d B = Some sb ->
  universeD_decl 4 0 s0d (two_chain_universe A B).
Proof.
  intros A B sa sb Ha Hb. split.
  - intros K [HK Hne]. split; [exact Hne|]. apply (validD_spec 4 ltac:(lia) 0 s0d). unfold validD.
    destruct HK as [H|H];
      [destruct (viewD_prefix 4 ltac:(lia) 0 s0d A K sa Ha H) as (s' & ->)|destruct (viewD_prefix 4 ltac:(lia) 0 s0d B K sb Hb H) as (s' & ->)];
      discriminate.
  - intros K K' [HK _] HP Hne. split; [|exact Hne]. destruct HK as [H|H]; [left|right]; eapply prefix_trans; eauto.
Qed.

(* ------------------------------------------------------------------ (a) the refutation universe violates QI *)
Definition U_chg := two_chain_universe chg_K1 chg_K2.
Definition s_chg1 : store := match run_blocks 4 s0d chg_K1 with Ok s => s | Error _ => s0d end.
Definition s_chg2 : store := match run_blocks 4 s0d chg_K2 with Ok s => s | Error _ => s0d end.
Definition dpar : params := {| p_pv := 0; p_pc := 0; p_cert := 0; p_vals := [] |}.
Definition pa_chg : params := match get_params (s_params s_chg1) 5 with Ok p => p | Error _ => dpar end.
Definition pd_chg : params := match get_params (s_params s_chg2) 6 with Ok p => p | Error _ => dpar end.
Definition dinfo : info := new_info {| h_height := 0; h_gen := 0; h_mhg := 0; h_mhp := 0; h_cert := None |}.

(* the old validators {1,2,3} reach the precommit threshold in force at height 5 on chain 1, the new validators {5,6,7}
   reach the prevote threshold in force at height 6 on chain 2, the chains differ at height 5, and the lists are disjoint *)
Example refuted_universe_violates_QI : ~ QI_model_decl 4 0 s0d U_chg.
Proof.
  intros HQ.
  destruct (HQ chg_K1 chg_K2 s_chg1 s_chg2 5 6 pa_chg pd_chg [1; 2; 3] [5; 6; 7]) as (v & H1 & H2 & _).
  - split; [left; apply prefix_refl|vm_compute; discriminate].
  - split; [right; apply prefix_refl|vm_compute; discriminate].
  - vm_compute. reflexivity.
  - vm_compute. reflexivity.
  - exists (nth 6 (v_infos (s_votes s_chg1)) dinfo). split; [vm_compute; tauto|vm_compute; reflexivity].
  - exists (nth 6 (v_infos (s_votes s_chg2)) dinfo). split; [vm_compute; tauto|vm_compute; reflexivity].
  - lia.
  - vm_compute. discriminate.
  - vm_compute. reflexivity.
  - vm_compute. reflexivity.
  - repeat constructor; cbn; lia.
  - repeat constructor; cbn; lia.
  - vm_compute. discriminate.
  - vm_compute. discriminate.
  - cbn in H1, H2. lia.
Qed.

(* ------------------------------------------------------------------ (b) a parameter change in the common prefix *)
Definition cc : pchange := {| c_pc := 4; c_cert := 4; c_vals := [(1, 1); (2, 1); (3, 1); (4, 2)] |}.
Definition rr (h : N) : N * N * addr := (h, (if h <=? 4 then 0 else h - 4), (h - 1) mod 4 + 1).
Definition Ka : chain := chain_of 4 0 chg_c ([(rr 1, None); (rr 2, Some cc)] ++ plain (map rr [3; 4; 5; 6; 7; 8; 9; 10; 11; 12])).
Definition Kb : chain := chain_of 4 0 chg_c ([(rr 1, None); (rr 2, Some cc)] ++ plain (map rr [3; 4; 5; 6] ++ [(7, 5, 1)])).
Definition Ud := two_chain_universe Ka Kb.
Definition vstar : list (addr * N) := [(4, 2); (3, 1); (2, 1); (1, 1)].
Definition members : list chain := map (fun i => firstn i Ka) (seq 1 12) ++ map (fun i => firstn i Kb) (seq 1 7).
Definition sa : store := match run_blocks 4 s0d Ka with Ok s => s | Error _ => s0d end.

Lemma Ka_view : viewD 4 0 s0d Ka = Some sa.
Proof. vm_compute. reflexivity. Qed.
Lemma Kb_view : exists sb, viewD 4 0 s0d Kb = Some sb.
Proof. eexists. vm_compute. reflexivity. Qed.
Lemma Ud_universe : universeD_decl 4 0 s0d Ud.
Proof. destruct Kb_view as [sb Hb]. exact (two_chain_universe_decl Ka Kb sa sb Ka_view Hb). Qed.

Lemma Ud_members : forall K, Ud K -> In K members.
Proof.
  intros K [[H|H] Hne]; pose proof (prefix_length _ _ H) as Hl; rewrite (prefix_firstn _ _ H); unfold members; apply in_or_app.
  - left. apply in_map_iff. exists (length K). split; [reflexivity|]. apply in_seq.
    assert (E : length Ka = 12%nat) by (vm_compute; reflexivity). rewrite E in Hl. destruct K; [congruence|cbn [length] in *; lia].
  - right. apply in_map_iff. exists (length K). split; [reflexivity|]. apply in_seq.
    assert (E : length Kb = 7%nat) by (vm_compute; reflexivity). rewrite E in Hl. destruct K; [congruence|cbn [length] in *; lia].
Qed.

(* honesty of validators 2,3,4 *)
Definition pair_ok (K1 K2 : chain) : bool :=
  (if block_eq_dec K1 K2 then true else false) || negb (genC K1 =? genC K2) || (genC K1 =? 1) ||
  negb (contradicting (bh_of_hdr (lastH K1)) (bh_of_hdr (lastH K2))).
Lemma Ud_pairs : forallb (fun K1 => forallb (pair_ok K1) members) members = true.
Proof. vm_compute. reflexivity. Qed.
Lemma Ud_honest : forall v, In v (map fst vstar) -> ~ In v [1] -> honest Ud v.
Proof.
  intros v _ Hv K1 K2 H1 H2 Hne G1 G2. pose proof Ud_pairs as Hp. rewrite forallb_forall in Hp.
  specialize (Hp K1 (Ud_members K1 H1)). rewrite forallb_forall in Hp. specialize (Hp K2 (Ud_members K2 H2)).
  unfold pair_ok in Hp. destruct (block_eq_dec K1 K2) as [E|_]; [contradiction|]. cbn [orb] in Hp.
  rewrite G1, G2, N.eqb_refl in Hp. cbn [negb orb] in Hp.
  destruct (v =? 1) eqn:E1; [apply N.eqb_eq in E1; exfalso; apply Hv; left; symmetry; exact E1|]. cbn [orb] in Hp.
  apply negb_true_iff in Hp. exact Hp.
Qed.

(* every window height at or above a height where two chains of the universe differ is governed by the new parameters *)
Definition pok (r : res params) : bool :=
  match r with Ok p => vals_eqb (p_vals p) vstar && (p_pc p =? 4) && (p_pv p =? 4) | Error _ => true end.
Definition fs : list N := map N.of_nat (seq 0 13).
Definition fork_check : bool :=
  forallb (fun K1 => match run_blocks 4 s0d K1 with
    | Ok s1 => forallb (fun e => forallb (fun K2 => forallb (fun f =>
          negb (f <=? i_height e) || negb (f <=? N.of_nat (length K1)) || negb (f <=? N.of_nat (length K2)) ||
          (if block_eq_dec (firstn (N.to_nat f) K1) (firstn (N.to_nat f) K2) then true else false) ||
          pok (get_params (s_params s1) (i_height e))) fs) members) (v_infos (s_votes s1))
    | Error _ => true end) members.
Lemma fork_check_ok : fork_check = true.
Proof. vm_compute. reflexivity. Qed.

Lemma Ud_fork_params : fork_params 4 0 s0d Ud vstar 4 4.
Proof.
  intros K1 K2 s1 a pa f U1 U2 R1 (e & He & Ea) Hfa (D1 & D2 & D3) P1.
  rewrite N.add_0_l in D1, D2. rewrite N.sub_0_r in D3.
  pose proof fork_check_ok as Hc. unfold fork_check in Hc. rewrite forallb_forall in Hc.
  specialize (Hc K1 (Ud_members K1 U1)). rewrite R1 in Hc. rewrite forallb_forall in Hc. specialize (Hc e He).
  rewrite forallb_forall in Hc. specialize (Hc K2 (Ud_members K2 U2)). rewrite forallb_forall in Hc.
  assert (Hf : In f fs).
  { unfold fs. apply in_map_iff. exists (N.to_nat f). split; [lia|]. apply in_seq.
    pose proof (Ud_members K1 U1) as Hm. unfold members in Hm. apply in_app_or in Hm.
    assert (Hl : (length K1 <= 12)%nat).
    { destruct Hm as [Hm|Hm]; apply in_map_iff in Hm; destruct Hm as (i & <- & Hi); apply in_seq in Hi; rewrite firstn_length; lia. }
    lia. }
  specialize (Hc f Hf). rewrite Ea, P1 in Hc.
  assert (f <=? a = true) as E1 by lia. assert (f <=? N.of_nat (length K1) = true) as E2 by lia.
  assert (f <=? N.of_nat (length K2) = true) as E3 by lia. rewrite E1, E2, E3 in Hc. cbn [negb orb] in Hc.
  destruct (block_eq_dec (firstn (N.to_nat f) K1) (firstn (N.to_nat f) K2)) as [E|_]; [contradiction|]. cbn [orb pok] in Hc.
  apply andb_prop in Hc. destruct Hc as [Hc H3]. apply andb_prop in Hc. destruct Hc as [H1 H2].
  apply vals_eqb_eq in H1. split; [exact H1|]. split; lia.
Qed.

(* the fork is real, validator 1 is Byzantine, and the parameter change really lies in the common prefix *)
Example Ud_fork : Ud Ka /\ Ud Kb /\ ~ prefix Ka Kb /\ ~ prefix Kb Ka /\ ~ honest Ud 1 /\
  firstn 6 Ka = firstn 6 Kb /\ (exists b, nth_error Ka 1 = Some (b, Some cc)) /\
  static_chain Ka = false /\ v_mhpc (s_votes sa) = 7.
Proof.
  assert (Ua : Ud Ka) by (split; [left; apply prefix_refl|vm_compute; discriminate]).
  assert (Ub : Ud Kb) by (split; [right; apply prefix_refl|vm_compute; discriminate]).
  split; [exact Ua|]. split; [exact Ub|]. split; [|split; [|split; [|split; [|split; [|split]]]]].
  - intros H. apply prefix_length in H. vm_compute in H. lia.
  - intros H. apply prefix_firstn in H. vm_compute in H. discriminate.
  - intros H. assert (U9 : Ud (firstn 9 Ka)) by (split; [left; apply firstn_prefix|vm_compute; discriminate]).
    specialize (H (firstn 9 Ka) Kb U9 Ub). assert (Hne : firstn 9 Ka <> Kb) by (vm_compute; discriminate).
    specialize (H Hne). vm_compute in H. specialize (H eq_refl eq_refl). discriminate.
  - vm_compute. reflexivity.
  - eexists. vm_compute. reflexivity.
  - vm_compute. reflexivity.
  - vm_compute. reflexivity.
Qed.

Example C01_dynamic_fork_params_hypotheses_satisfiable :
  (0 < 4)%nat /\ init_store 4 0 chg_c = Ok s0d /\ universeD_decl 4 0 s0d Ud /\ fork_params 4 0 s0d Ud vstar 4 4 /\
  (forall v, In v (map fst vstar) -> ~ In v [1] -> honest Ud v) /\
  total_weight vstar + wsum vstar [1] < 4 + 4 /\
  Ud Ka /\ run_blocks 4 s0d Ka = Ok sa /\ 0 < v_mhpc (s_votes sa).
Proof.
  split; [lia|]. split; [exact s0d_init|]. split; [exact Ud_universe|]. split; [exact Ud_fork_params|].
  split; [exact Ud_honest|]. split; [vm_compute; reflexivity|]. split; [apply Ud_fork|].
  split; [vm_compute; reflexivity|vm_compute; reflexivity].
Qed.

(* ... hence this universe satisfies the quorum-intersection premise of C01_dynamic_safety_partial *)
Example changed_prefix_universe_satisfies_QI : QI_model_decl 4 0 s0d Ud.
Proof.
  apply (fork_params_QI 4 0 chg_c s0d Ud vstar 4 4 [1]); [lia|exact s0d_init|exact Ud_universe|exact Ud_fork_params|exact Ud_honest|].
  vm_compute. reflexivity.
Qed.
Print Assumptions refuted_universe_violates_QI.
Print Assumptions changed_prefix_universe_satisfies_QI.
Print Assumptions C01_dynamic_fork_params_hypotheses_satisfiable.
