(* Abstract Lisk-BFT finality-safety core (protocol level): blocks form a tree; quorum intersection (QI), the witness
   property of maxHeightPrevoted and the shape of a precommitting run are premises. BFT/SafetyInst.v discharges them from
   the faithful vote model. *)
From Coq Require Import List Arith Lia.
Import ListNotations.

Section AbstractSafety.
  Variable block validator : Type.
  Variable height mhg mhp : block -> nat.
  Variable gen : block -> validator.
  Variable anc : block -> block -> Prop.   (* ancestor-or-equal *)
  Variable honest : validator -> Prop.
  Hypothesis block_eq_dec : forall a b : block, {a = b} + {a <> b}.
  Definition In_dec_block := In_dec block_eq_dec.

  Hypothesis anc_refl : forall a, anc a a.
  Hypothesis anc_trans : forall a b c, anc a b -> anc b c -> anc a c.
  Hypothesis anc_tree : forall a b c, anc a c -> anc b c -> anc a b \/ anc b a.
  Hypothesis anc_height : forall a b, anc a b -> height a <= height b.
  Hypothesis anc_same_height : forall a b, anc a b -> height a = height b -> a = b.

  Definition conflict a b := ~ anc a b /\ ~ anc b a.

  (* what non-contradiction of two distinct headers of one honest generator gives us *)
  Definition before (E L : block) := height E <= mhg L /\ mhp E <= mhp L.
  Hypothesis honest_noncontra :
    forall b1 b2, gen b1 = gen b2 -> honest (gen b1) -> b1 <> b2 -> before b1 b2 \/ before b2 b1.

  Variable pv_quorum pc_quorum : block -> block -> Prop.   (* tip, target *)

  Definition prevotes (T D : block) (v : validator) :=
    exists X, gen X = v /\ anc D X /\ anc X T /\ mhg X < height D <= height X.

  (* run of own blocks P0 (newest) .. Pk, linked through maxHeightGenerated *)
  Fixpoint linked (v : validator) (A : block) (run : list block) : Prop :=
    match run with
    | [] => False
    | [P] => gen P = v /\ anc A P /\ mhg P < height A
    | P :: ((Q :: _) as rest) =>
        gen P = v /\ anc A P /\ mhg P < height P /\ height Q = mhg P /\ linked v A rest
    end.

  Definition precommits (A : block) (v : validator) :=
    exists P0 rest, linked v A (P0 :: rest) /\ height A <= mhp P0.

  Hypothesis QI : forall T1 A T D,
      pc_quorum T1 A -> pv_quorum T D -> height A <= height D -> anc D T ->
      exists v, honest v /\ precommits A v /\ prevotes T D v.

  (* maxHeightPrevoted carried by a header is witnessed by an earlier quorum on its chain *)
  Variable genesis_height : nat.
  Hypothesis mhp_witness : forall X, genesis_height < mhp X ->
      exists D T', height D = mhp X /\ anc D T' /\ anc T' X /\ height T' < height X /\ pv_quorum T' D.

  Lemma linked_order : forall v A run X',
      linked v A run ->
      gen X' = v -> honest v ->
      (forall P, In P run -> P <> X') ->
      forall P0, hd_error run = Some P0 ->
      (* X' is not before the oldest and not in between => X' is after P0 *)
      (height A <= height X') -> mhg X' < height X' ->
      before P0 X'.
  Proof.
    intros v A run X' Hl Hg Hh.
    induction run as [|P rest IH]; intros Hne P0 Hhd Ha Hvote; [discriminate|].
    simpl in Hhd. inversion Hhd; subst P0. clear Hhd.
    destruct rest as [|Q rest'].
    - simpl in Hl. destruct Hl as (HgP & HancP & HmP).
      assert (Hnc : before P X' \/ before X' P).
      { apply honest_noncontra; [congruence | rewrite HgP; exact Hh | apply Hne; left; reflexivity]. }
      destruct Hnc as [Hb|Hb]; [exact Hb|].
      destruct Hb as [Hb _]. lia.
    - simpl in Hl. destruct Hl as (HgP & HancP & HmP & HQ & Hrest).
      assert (Hnc : before P X' \/ before X' P).
      { apply honest_noncontra; [congruence | rewrite HgP; exact Hh | apply Hne; left; reflexivity]. }
      destruct Hnc as [Hb|Hb]; [exact Hb|].
      assert (HQX : before Q X').
      { apply IH; auto.
        intros P' Hin. apply Hne. right; exact Hin. }
      destruct Hb as [Hb _]. destruct HQX as [HQX _]. lia.
  Qed.

  Lemma linked_all_anc : forall v A run P, linked v A run -> In P run -> anc A P /\ gen P = v.
  Proof.
    intros v A run. induction run as [|P0 rest IH]; intros P Hl Hin; [contradiction|].
    destruct rest as [|Q rest'].
    - simpl in Hl. destruct Hin as [<-|[]]. tauto.
    - simpl in Hl. destruct Hl as (Hg & Ha & _ & _ & Hr).
      destruct Hin as [<-|Hin]; [tauto|]. apply IH; auto.
  Qed.

  Theorem no_conflicting_quorum :
    forall T1 A, pc_quorum T1 A -> genesis_height < height A ->
    forall n T D, height T <= n -> pv_quorum T D -> anc D T -> height A <= height D ->
                  anc A D.   (* i.e. D is on A's chain; since height D >= height A it cannot conflict *)
  Proof.
    intros T1 A Hpc Hgen n.
    induction n as [n IHn] using lt_wf_ind.
    intros T D HT Hpv HDT Hle.
    destruct (QI T1 A T D Hpc Hpv Hle HDT) as (v & Hh & (P0 & rest & Hlink & HmhpP0) & (X' & HgX & HDX & HXT & Hrange)).
    (* either X' is one of the run (then A and D are both ancestors of X') or it is after P0 *)
    destruct (In_dec_block X' (P0 :: rest)) as [Hin|Hnin].
    - destruct (linked_all_anc _ _ _ _ Hlink Hin) as [HAX _].
      destruct (anc_tree A D X' HAX HDX) as [H|H]; [exact H|].
      (* anc D A with height A <= height D => equal *)
      pose proof (anc_height _ _ H). assert (D = A) by (apply anc_same_height; auto; lia). subst; apply anc_refl.
    - assert (Hb : before P0 X').
      { eapply linked_order with (run := P0 :: rest); eauto.
        - intros P HP Heq. subst. contradiction.
        - lia.
        - lia. }
      destruct Hb as [_ Hmhp].
      assert (Hbig : genesis_height < mhp X') by lia.
      destruct (mhp_witness X' Hbig) as (D2 & T2 & HhD2 & HD2T2 & HT2X & HltT2 & Hpv2).
      assert (HAD2 : anc A D2).
      { apply (IHn (height T2)) with (T := T2); auto.
        - pose proof (anc_height _ _ HXT). lia.
        - lia. }
      (* A anc D2 anc T2 anc X' ; D anc X' *)
      assert (HAX : anc A X') by (eapply anc_trans; [exact HAD2|eapply anc_trans; eauto]).
      destruct (anc_tree A D X' HAX HDX) as [H|H]; [exact H|].
      pose proof (anc_height _ _ H). assert (D = A) by (apply anc_same_height; auto; lia). subst; apply anc_refl.
  Qed.

  (* a precommit quorum can only exist for a block that had a prevote quorum on its chain *)
  Hypothesis pc_needs_pv : forall T A, pc_quorum T A -> exists T', pv_quorum T' A /\ anc A T'.

  Theorem finalized_blocks_on_one_chain :
    forall T1 A T2 A', pc_quorum T1 A -> pc_quorum T2 A' ->
      genesis_height < height A -> genesis_height < height A' ->
      anc A A' \/ anc A' A.
  Proof.
    intros T1 A T2 A' H1 H2 G1 G2.
    destruct (le_ge_dec (height A) (height A')) as [Hle|Hge].
    - left. destruct (pc_needs_pv _ _ H2) as (T' & Hpv & Hanc).
      eapply (no_conflicting_quorum T1 A H1 G1 (height T') T' A'); auto.
    - right. destruct (pc_needs_pv _ _ H1) as (T' & Hpv & Hanc).
      eapply (no_conflicting_quorum T2 A' H2 G2 (height T') T' A); auto.
  Qed.
End AbstractSafety.


