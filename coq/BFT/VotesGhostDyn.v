(* Ghost decomposition of the Lisk-BFT vote weights of the faithful model (BFT/Votes.v) for DYNAMIC validator sets:
   blocks may carry parameter changes (applied by apply_block through set_params).  Every prevote / precommit weight of
   a window entry is the sum, with the weights IN FORCE AT THE HEIGHT OF THAT ENTRY in the current view, of pairwise
   distinct validators each having a block on the chain that witnesses the abstract prevotes / precommits predicates.
   Generalises BFT/VotesGhost.v (static case); nothing here changes the model. *)
From Coq Require Import List NArith Bool Lia ZArith Arith.
From Coq Require Import ZifyBool ZifyN ZifyNat.
From LE Require Import BFT.Contradiction BFT.ContradictionProofs BFT.Votes BFT.VotesProofs BFT.Safety BFT.VotesGhost.
Import ListNotations.
Local Open Scope N_scope.

(* ------------------------------------------------------------------ small facts *)
Lemma lookup_le_in : forall ps h best p, lookup_le ps h best = Some p -> best = Some p \/ exists k, In (k, p) ps.
Proof.
  induction ps as [|[k q] ps IH]; intros h best p H; cbn [lookup_le] in H; [left; exact H|].
  destruct (k <=? h); [|left; exact H]. destruct (IH _ _ _ H) as [E|[k' Hk]].
  - injection E as ->. right. exists k. left; reflexivity.
  - right. exists k'. right; exact Hk.
Qed.
Lemma get_params_in : forall ps h p, get_params ps h = Ok p -> exists k, In (k, p) ps.
Proof.
  intros ps h p H. unfold get_params in H. destruct (lookup_le ps h None) as [q|] eqn:E; [|discriminate].
  injection H as ->. destruct (lookup_le_in _ _ _ _ E) as [E2|H]; [discriminate|exact H].
Qed.
Lemma find_active_addr : forall l g y, find_active l g = Some y -> a_addr y = g.
Proof.
  induction l as [|x l IH]; intros g y H; cbn [find_active] in H; [discriminate|].
  destruct (a_addr x =? g) eqn:E; [injection H as <-; lia|apply IH; exact H].
Qed.

(* [g] cannot precommit height [he] any more: it is below its minActiveHeight or not above its largestHeightPrecommit *)
Definition noprec (act : list active) (g : addr) (he : N) : Prop :=
  forall vi, find_active act g = Some vi -> he < N.max (a_min vi) (a_lhp vi + 1).

Lemma noprec_set_lhp : forall act g he g0 h vi0, noprec act g he ->
  find_active act g0 = Some vi0 -> a_lhp vi0 + 1 <= h -> noprec (set_lhp act g0 h) g he.
Proof.
  intros act g he g0 h vi0 Hn H0 Hh vi Hvi. rewrite find_active_set_lhp in Hvi. destruct (g0 =? g) eqn:E.
  - assert (g = g0) by lia. subst g. rewrite H0 in Hvi. cbn [option_map] in Hvi. injection Hvi as <-. cbn [a_min a_lhp].
    specialize (Hn vi0 H0). lia.
  - apply Hn; exact Hvi.
Qed.

(* the active list rebuilt by SetBFTParameters: old entries are kept, new ones start at the next height *)
Lemma rebuilt_act : forall (old : list active) nexth (vals : list (addr * N)) g y,
  find_active (fold_right (fun x acc =>
     insert_act_desc (match find_active old (fst x) with
                      | Some a => a
                      | None => {| a_addr := fst x; a_min := nexth; a_lhp := nexth - 1 |} end) acc) [] vals) g = Some y ->
  find_active old g = Some y \/ (a_min y = nexth /\ a_lhp y = nexth - 1).
Proof.
  intros old nexth. induction vals as [|x vals IH]; intros g y H; cbn [fold_right] in H; [discriminate|].
  apply find_active_insert_some in H. destruct H as [[-> Hx]|H]; [|apply IH; exact H].
  destruct (find_active old (fst x)) as [a|] eqn:Ea.
  - left. pose proof (find_active_addr _ _ _ Ea) as Haddr. rewrite <- Hx, Haddr. exact Ea.
  - right. cbn. split; reflexivity.
Qed.

(* ------------------------------------------------------------------ one vote update, arbitrary parameters *)
Definition pcondD (ps : list (N * params)) (minpc : N) (a : info) : bool :=
  (minpc <=? i_height a) && match get_params ps (i_height a) with Ok p => p_pv p <=? i_pv a | Error _ => false end.

Definition upd_relD (ps : list (N * params)) (g : addr) (minpc minpv : N) (a e1 : info) : Prop :=
  static e1 = static a /\
  forall p, get_params ps (i_height a) = Ok p ->
    i_pv e1 = i_pv a + (if minpv <=? i_height a then weight (p_vals p) g else 0) /\
    i_pc e1 = i_pc a + (if pcondD ps minpc a then weight (p_vals p) g else 0).

Lemma update_votes_dyn : forall ps nw tl act r act', desc (nw :: tl) ->
  update_votes ps (nw :: tl) act = Ok (r, act') ->
  ((i_height nw <= i_mhg nw \/ find_active act (i_gen nw) = None) /\ r = nw :: tl /\ act' = act) \/
  (exists vi, i_mhg nw < i_height nw /\ find_active act (i_gen nw) = Some vi /\
     let minpc := Nmax3 (a_min vi) (height_not_prevoted (nw :: tl) + 1) (a_lhp vi + 1) in
     let minpv := N.max (i_mhg nw + 1) (a_min vi) in
     Forall2 (upd_relD ps (i_gen nw) minpc minpv) (nw :: tl) r /\
     ((act' = act /\ forall a, In a (nw :: tl) -> pcondD ps minpc a = false) \/
      (exists h, act' = set_lhp act (i_gen nw) h /\ minpc <= h /\
                 forall a, In a (nw :: tl) -> pcondD ps minpc a = true -> i_height a <= h))).
Proof.
  intros ps nw tl act r act' Hd H. unfold update_votes in H.
  destruct (i_height nw <=? i_mhg nw) eqn:Ev.
  { injection H as <- <-. left. split; [left; lia|split; reflexivity]. }
  destruct (find_active act (i_gen nw)) as [vi|] eqn:Ea.
  2:{ injection H as <- <-. left. split; [right; reflexivity|split; reflexivity]. }
  right. exists vi. split; [lia|]. split; [reflexivity|]. cbv zeta.
  set (minpc := Nmax3 (a_min vi) (height_not_prevoted (nw :: tl) + 1) (a_lhp vi + 1)) in *.
  set (minpv := N.max (i_mhg nw + 1) (a_min vi)) in *.
  destruct (precommit_loop ps (i_gen nw) minpc (nw :: tl) None) as [[mid f]|e] eqn:Epc; cbn [bind] in H; [|discriminate].
  cbn [fst snd] in H.
  destruct (prevote_loop ps (i_gen nw) minpv mid) as [r'|e] eqn:Epv; cbn [bind] in H; [|discriminate].
  injection H as <- <-.
  pose proof (precommit_loop_spec _ _ _ _ _ _ _ Hd Epc) as Hpc.
  assert (Hdm : desc mid) by (eapply grows_desc; [|exact Hd]; eapply Forall2_impl; [apply pc_step_same|exact Hpc]).
  pose proof (prevote_loop_spec _ _ _ _ _ Hdm Epv) as Hpv.
  pose proof (precommit_loop_first _ _ _ _ _ _ _ Hd Epc) as Hfirst. cbv beta zeta in Hfirst.
  split.
  - eapply Forall2_impl; [|exact (Forall2_comp _ _ _ _ _ Hpc Hpv)].
    intros a e1 (b & Hab & Hbe). unfold pc_step in Hab. unfold pv_step in Hbe. unfold upd_relD, pcondD.
    assert (Hb : static b = static a /\ forall p, get_params ps (i_height a) = Ok p ->
              i_pv b = i_pv a /\
              i_pc b = i_pc a + (if (minpc <=? i_height a) && (p_pv p <=? i_pv a) then weight (p_vals p) (i_gen nw) else 0)).
    { destruct (minpc <=? i_height a); [|subst b; split; [reflexivity|intros p _; cbn [andb]; lia]].
      destruct Hab as (p & Hp & Hab). cbn [andb].
      destruct (p_pv p <=? i_pv a) eqn:Eq.
      - destruct Hab as (w & Hw & ->). split; [reflexivity|]. intros p' Hp'. rewrite Hp in Hp'. injection Hp' as <-.
        rewrite Eq. unfold weight. rewrite Hw. cbn. lia.
      - subst b. split; [reflexivity|]. intros p' Hp'. rewrite Hp in Hp'. injection Hp' as <-. rewrite Eq. lia. }
    destruct Hb as (Hb1 & Hb2).
    assert (Hbh : i_height b = i_height a) by (unfold static in Hb1; congruence).
    rewrite Hbh in Hbe. destruct (minpv <=? i_height a).
    + destruct Hbe as (p & w & Hp & Hw & ->). split; [exact Hb1|]. intros p' Hp'. rewrite Hp in Hp'. injection Hp' as <-.
      destruct (Hb2 p Hp) as [B1 B2]. rewrite Hp. unfold weight at 1. rewrite Hw. cbn [add_pv i_pv i_pc]. split; [lia|exact B2].
    + subst e1. split; [exact Hb1|]. intros p Hp. destruct (Hb2 p Hp) as [B1 B2]. rewrite Hp. split; [lia|exact B2].
  - destruct f as [h|]; cbn [snd].
    + right. exists h. split; [reflexivity|]. exact Hfirst.
    + left. split; [reflexivity|]. exact Hfirst.
Qed.

(* uniform summary of one vote update: which entries get the generator's prevote (PV) / precommit (PC) *)
Definition vrel (ps : list (N * params)) (g : addr) (PV PC : info -> bool) (a e1 : info) : Prop :=
  static e1 = static a /\
  forall p, get_params ps (i_height a) = Ok p ->
    i_pv e1 = i_pv a + (if PV a then weight (p_vals p) g else 0) /\
    i_pc e1 = i_pc a + (if PC a then weight (p_vals p) g else 0).

Lemma vote_summary : forall ps nw tl act r act', desc (nw :: tl) ->
  update_votes ps (nw :: tl) act = Ok (r, act') ->
  exists PV PC : info -> bool,
    Forall2 (vrel ps (i_gen nw) PV PC) (nw :: tl) r /\
    (forall a, PV a = true -> i_mhg nw < i_height nw /\ i_mhg nw < i_height a) /\
    (forall a, PC a = true ->
       i_mhg nw < i_height nw /\
       exists vi, find_active act (i_gen nw) = Some vi /\ a_min vi <= i_height a /\
                  height_not_prevoted (nw :: tl) + 1 <= i_height a /\ a_lhp vi + 1 <= i_height a /\
                  exists p, get_params ps (i_height a) = Ok p /\ p_pv p <= i_pv a) /\
    (forall g' he, noprec act g' he -> noprec act' g' he) /\
    (forall a, In a (nw :: tl) -> PC a = true -> noprec act' (i_gen nw) (i_height a)).
Proof.
  intros ps nw tl act r act' Hd H. destruct (update_votes_dyn _ _ _ _ _ _ Hd H) as [(_ & -> & ->)|(vi & Hvote & Ea & H2)].
  - exists (fun _ => false), (fun _ => false). split; [|split; [|split; [|split]]]; try (intros; discriminate); auto.
    apply Forall2_refl_on. intros a _. split; [reflexivity|]. intros p _. lia.
  - cbv zeta in H2. set (minpc := Nmax3 (a_min vi) (height_not_prevoted (nw :: tl) + 1) (a_lhp vi + 1)) in *.
    set (minpv := N.max (i_mhg nw + 1) (a_min vi)) in *. destruct H2 as (HF & Hact).
    exists (fun a => minpv <=? i_height a), (pcondD ps minpc). split; [exact HF|]. split; [|split; [|split]].
    + intros a Ha. unfold minpv in Ha. lia.
    + intros a Ha. split; [exact Hvote|]. exists vi. unfold pcondD in Ha. apply andb_prop in Ha. destruct Ha as [Ha1 Ha2].
      unfold minpc, Nmax3 in Ha1. split; [exact Ea|]. split; [lia|]. split; [lia|]. split; [lia|].
      destruct (get_params ps (i_height a)) as [p|e]; [|discriminate]. exists p. split; [reflexivity|lia].
    + intros g' he Hn. destruct Hact as [[-> _]|(h & -> & Hh & _)]; [exact Hn|].
      apply (noprec_set_lhp act g' he (i_gen nw) h vi Hn Ea). unfold minpc, Nmax3 in Hh. lia.
    + intros a Ha Hc. destruct Hact as [[_ Hnone]|(h & -> & Hh & Hall)]; [rewrite (Hnone a Ha) in Hc; discriminate|].
      intros vi' Hvi'. rewrite find_active_set_lhp, N.eqb_refl, Ea in Hvi'. cbn [option_map] in Hvi'. injection Hvi' as <-.
      cbn [a_min a_lhp]. specialize (Hall a Ha Hc). lia.
Qed.

Lemma check_params_range_ok : forall ps l u, check_params_range ps l = Ok u -> forall a, In a l -> exists p, get_params ps (i_height a) = Ok p.
Proof.
  induction l as [|x l IH]; intros u H a Ha; [contradiction|]. cbn [check_params_range] in H.
  destruct (get_params ps (i_height x)) as [p|e] eqn:E; cbn [bind] in H; [|discriminate].
  destruct Ha as [<-|Ha]; [exists p; exact E|eapply IH; eauto].
Qed.
Lemma before_txs_params_ok : forall batch s b s1, before_txs batch s b = Ok s1 ->
  forall a, In a (insert_info (window s) b (3 * batch)) -> exists p, get_params (s_params s) (i_height a) = Ok p.
Proof.
  intros batch s b s1 H. unfold before_txs in H. fold (window s) in H.
  destruct (check_params_range (s_params s) (insert_info (window s) b (3 * batch))) as [u|e] eqn:E; cbn [bind] in H; [|discriminate].
  eapply check_params_range_ok; exact E.
Qed.

Lemma last_of_prefix : forall (X K : list block), prefix X K -> X <> [] ->
  exists y, nth_error K (length X - 1) = Some y /\ lastH X = fst y.
Proof.
  intros X K [t ->] Hne. destruct (exists_last Hne) as (X0 & y & ->). exists y. rewrite lastH_snoc. split; [|reflexivity].
  rewrite app_length. cbn [length]. replace (length X0 + 1 - 1)%nat with (length X0) by lia.
  rewrite <- app_assoc. rewrite nth_error_app2 by lia. rewrite Nat.sub_diag. reflexivity.
Qed.

(* SetBFTParameters: either nothing changes or new parameters (thresholds >= 1) are inserted at the next height and
   the active list is rebuilt *)
Lemma set_params_shape : forall batch s pcT certT vals0 s', set_params batch s pcT certT vals0 = Ok s' ->
  s' = s \/
  exists p, 1 <= p_pv p /\ 1 <= p_pc p /\
    s_params s' = insert_param (s_params s) (current_height (s_votes s) + 1) p /\
    v_act (s_votes s') = fold_right (fun x acc =>
       insert_act_desc (match find_active (v_act (s_votes s)) (fst x) with
                        | Some a => a
                        | None => {| a_addr := fst x; a_min := current_height (s_votes s) + 1;
                                     a_lhp := current_height (s_votes s) + 1 - 1 |} end) acc) [] (sort_desc vals0).
Proof.
  intros batch s pcT certT vals0 s' H. unfold set_params in H.
  destruct (Nat.ltb batch (length vals0)); [discriminate|].
  destruct (existsb _ vals0); [discriminate|].
  destruct ((pcT <? total_weight vals0 / 3 + 1) || (total_weight vals0 <? pcT)) eqn:Epc; [discriminate|].
  destruct ((certT <? total_weight vals0 / 3 + 1) || (total_weight vals0 <? certT)) eqn:Ecert; [discriminate|].
  match type of H with (if ?c then _ else _) = _ => destruct c end.
  - injection H as <-. left. reflexivity.
  - injection H as <-. right. eexists. cbn [s_params s_votes v_act]. split; [|split; [|split; reflexivity]]; cbn [p_pv p_pc]; lia.
Qed.

(* ================================================================== dynamic validator sets *)
Section Dyn.
  Variable batch : nat.
  Hypothesis Hbatch : (0 < batch)%nat.
  Variable gh : N.
  Variable c : pchange.
  Variable s0 : store.
  Hypothesis Hinit : init_store batch gh c = Ok s0.

  Notation tipof := (VotesGhost.tipof gh).
  Notation blk := (VotesGhost.blk gh).

  (* one block of a valid chain: next height, the two BFT rules of verifyBlock hold in the current view, apply_block
     (BeforeTransactionsExecute, then the optional SetBFTParameters) succeeds *)
  Definition stepD (s : store) (tip : N) (x : block) : option store :=
    if (h_height (fst x) =? tip + 1) && bft_valid s (fst x)
    then match apply_block batch s x with Ok s' => Some s' | Error _ => None end
    else None.
  Fixpoint vrunD (s : store) (tip : N) (K : chain) : option store :=
    match K with
    | [] => Some s
    | x :: tl => match stepD s tip x with Some s' => vrunD s' (tip + 1) tl | None => None end
    end.
  Definition viewD (K : chain) : option store := vrunD s0 gh K.
  Definition validD (K : chain) : Prop := viewD K <> None.

  Lemma stepD_some : forall s tip x s1, stepD s tip x = Some s1 ->
    h_height (fst x) = tip + 1 /\ bft_valid s (fst x) = true /\ apply_block batch s x = Ok s1.
  Proof.
    intros s tip x s1 H. unfold stepD in H.
    destruct ((h_height (fst x) =? tip + 1) && bft_valid s (fst x)) eqn:E; [|discriminate].
    destruct (apply_block batch s x) as [s'|e] eqn:Eb; [|discriminate]. injection H as <-.
    apply andb_prop in E. destruct E as [E1 E2]. repeat split; auto. lia.
  Qed.
  Lemma stepD_intro : forall s tip x s1, h_height (fst x) = tip + 1 -> bft_valid s (fst x) = true ->
    apply_block batch s x = Ok s1 -> stepD s tip x = Some s1.
  Proof.
    intros s tip x s1 H1 H2 H3. unfold stepD. rewrite H2, H3.
    assert (h_height (fst x) =? tip + 1 = true) as -> by lia. reflexivity.
  Qed.
  Lemma vrunD_app : forall K1 K2 s tip, vrunD s tip (K1 ++ K2) =
    match vrunD s tip K1 with Some s1 => vrunD s1 (tip + N.of_nat (length K1)) K2 | None => None end.
  Proof.
    induction K1 as [|x K1 IH]; intros K2 s tip; cbn [app vrunD length].
    - rewrite N.add_0_r. reflexivity.
    - destruct (stepD s tip x) as [s'|]; [|reflexivity]. rewrite IH.
      replace (tip + 1 + N.of_nat (length K1)) with (tip + N.of_nat (S (length K1))) by lia. reflexivity.
  Qed.
  Lemma viewD_snoc : forall K x s1, viewD (K ++ [x]) = Some s1 <-> exists s, viewD K = Some s /\ stepD s (tipof K) x = Some s1.
  Proof.
    intros K x s1. unfold viewD. rewrite vrunD_app. fold (tipof K). split.
    - destruct (vrunD s0 gh K) as [s|]; [|discriminate]. cbn [vrunD]. intros H. exists s. split; [reflexivity|].
      destruct (stepD s (tipof K) x); [exact H|discriminate].
    - intros (s & -> & H). cbn [vrunD]. rewrite H. reflexivity.
  Qed.
  Lemma viewD_prefix : forall K K' s, viewD K = Some s -> prefix K' K -> exists s', viewD K' = Some s'.
  Proof.
    intros K K' s H [t ->]. unfold viewD in *. rewrite vrunD_app in H. destruct (vrunD s0 gh K') as [s'|]; [eauto|discriminate].
  Qed.
  Lemma viewD_nil : viewD [] = Some s0.
  Proof. reflexivity. Qed.
  Lemma viewD_ind0 : forall (Q : chain -> store -> Prop), Q [] s0 ->
    (forall K s x s1, viewD K = Some s -> Q K s -> h_height (fst x) = tipof K + 1 -> bft_valid s (fst x) = true ->
                      apply_block batch s x = Ok s1 -> Q (K ++ [x]) s1) ->
    forall K s, viewD K = Some s -> Q K s.
  Proof.
    intros Q Q0 QS K. induction K as [|x K IH] using rev_ind; intros s H.
    - rewrite viewD_nil in H. injection H as <-. exact Q0.
    - apply viewD_snoc in H. destruct H as (s' & Hv & Hs). apply stepD_some in Hs.
      destruct Hs as (Hb & Hval & Hap). eapply QS; eauto.
  Qed.

  (* in the view of chain T the window entry of height h reaches the threshold IN FORCE AT h IN THAT VIEW *)
  Definition qrmD (sel : params -> N) (get : info -> N) (T : chain) (h : N) : Prop :=
    exists s e, viewD T = Some s /\ In e (window s) /\ i_height e = h /\ meets (s_params s) sel get e.

  Definition pc_evD (he : N) (P : chain) : Prop :=
    P <> [] /\ he <= mhpC P /\ qrmD p_pv i_pv (removelast P) he /\
    exists rest, linked chain addr hgt mhgC genC (@prefix block) (genC P) (blk P he) (P :: rest) /\
                 Forall (fun Q => prefix Q P /\ Q <> []) rest.

  Record DInv (K : chain) (s : store) : Prop := {
    di_vgood : vgood (tipof K) s;
    di_hdrs : forall j y, nth_error K j = Some y -> h_height (fst y) = gh + N.of_nat j + 1;
    di_win : WInv gh K (window s);
    di_pok : forall e, In e (window s) -> exists p, get_params (s_params s) (i_height e) = Ok p;
    di_thr : forall k p, In (k, p) (s_params s) -> 1 <= p_pv p /\ 1 <= p_pc p;
    di_maxpv : forall e, In e (window s) -> meets (s_params s) p_pv i_pv e -> i_height e <= v_mhp (s_votes s);
    di_pv : forall e p, In e (window s) -> get_params (s_params s) (i_height e) = Ok p -> exists L,
            i_pv e = wsum (p_vals p) (map genC L) /\ NoDup (map genC L) /\
            forall X, In X L -> prefix X K /\ X <> [] /\ mhgC X < i_height e <= tipof X;
    di_pc : forall e p, In e (window s) -> get_params (s_params s) (i_height e) = Ok p -> exists L,
            i_pc e = wsum (p_vals p) (map genC L) /\ NoDup (map genC L) /\
            forall P, In P L -> prefix P K /\ pc_evD (i_height e) P /\ noprec (v_act (s_votes s)) (genC P) (i_height e);
  }.

  Lemma dinv_nil : DInv [] s0.
  Proof.
    destruct (init_shape batch Hbatch gh c s0 Hinit) as (Hps & Hw & Hmp & Hmpc & HA & Hpv & Hpc).
    constructor.
    - replace (tipof []) with gh by (unfold VotesGhost.tipof; cbn; lia). eapply init_vgood; exact Hinit.
    - intros j y H. destruct j; discriminate.
    - rewrite Hw. intros e [].
    - rewrite Hw. intros e [].
    - rewrite Hps. unfold ps0. intros k p [E|[]]. injection E as <- <-. split; assumption.
    - rewrite Hw. intros e [].
    - rewrite Hw. intros e p [].
    - rewrite Hw. intros e p [].
  Qed.

  (* BeforeTransactionsExecute of the next block *)
  Lemma dinv_bt : forall K s b chg s1, viewD K = Some s -> DInv K s -> h_height b = tipof K + 1 -> bft_valid s b = true ->
    before_txs batch s b = Ok s1 -> DInv (K ++ [(b, chg)]) s1.
  Proof.
    intros K s b chg s1 Hv HC Hb Hval Hbt.
    set (x := (b, chg) : block). set (K' := K ++ [x]).
    assert (Htip' : tipof K' = tipof K + 1) by (unfold VotesGhost.tipof, K'; rewrite app_length; cbn; lia).
    assert (Hgt : gh <= tipof K) by (unfold VotesGhost.tipof; lia).
    destruct HC as [Cvg Chd Cwin Cpok Cthr Cmax Cpv Cpc].
    pose proof Cvg as ((HI & Hmp & Hmpc) & Hlc & Hmb).
    assert (Hap : apply_block batch s (b, None) = Ok s1) by (unfold apply_block; rewrite Hbt; reflexivity).
    pose proof (valid_block_step batch s (b, None) s1 (tipof K) Hbatch Cvg Hb Hval Hap) as Hvg1.
    pose proof (before_txs_params_ok _ _ _ _ Hbt) as Hpok0.
    destruct (before_txs_window _ _ _ _ Hbt) as (r & act' & pv & pcx & Hu & Hw & Hact & _ & _ & _ & _ & _ & Hps).
    set (ps := s_params s) in *. pose proof (inv_sorted _ _ HI) as Hsorted.
    assert (Hr : hts r (tipof K + 1)) by (rewrite <- Hw; apply (inv_hts _ _ (proj1 (proj1 Hvg1)))).
    assert (Hstab : forall e1, In e1 r -> get_params (s_params s1) (i_height e1) = get_params ps (i_height e1)).
    { intros e1 He. rewrite Hps. apply get_params_prune; [exact Hsorted|]. pose proof (oldest_height_le _ _ _ Hr He). lia. }
    unfold insert_info in Hu, Hpok0.
    destruct (3 * batch)%nat as [|n] eqn:En; [lia|]. cbn [firstn] in Hu, Hpok0.
    set (nw := new_info b) in *. set (tl := firstn n (window s)) in *. set (act := v_act (s_votes s)) in *.
    assert (Hnwh : i_height nw = tipof K + 1) by exact Hb.
    assert (Hh0 : hts (nw :: tl) (tipof K + 1)).
    { change (nw :: tl) with (firstn (S n) (nw :: window s)). apply hts_firstn. apply hts_cons; [apply HI|exact Hb]. }
    assert (Htl : forall a, In a tl -> In a (window s)) by (intros a Ha; eapply In_firstn_in; exact Ha).
    assert (Hgh0 : forall a, In a (nw :: tl) -> gh < i_height a).
    { intros a [<-|Ha]; [lia|]. apply (Cwin a (Htl a Ha)). }
    destruct (vote_summary ps nw tl act r act' (hts_desc _ _ Hh0) Hu) as (PV & PC & HF & HPV & HPC & Hmono & Hnew).
    assert (HKK' : forall j y, nth_error K j = Some y -> nth_error K' j = Some y).
    { intros j y Hy. unfold K'. rewrite nth_error_app1; [exact Hy|]. apply nth_error_Some. intros E.
      assert (E2 : Some y = None) by (etransitivity; [symmetry; exact Hy|exact E]). discriminate E2. }
    assert (HW0 : WInv gh K' (nw :: tl)).
    { intros a Ha. split; [apply Hgh0; exact Ha|]. destruct Ha as [<-|Ha].
      - exists x. split; [|reflexivity]. rewrite Hnwh. unfold K', VotesGhost.tipof.
        replace (N.to_nat (gh + N.of_nat (length K) + 1 - gh - 1)) with (length K) by lia.
        rewrite nth_error_app2 by lia. rewrite Nat.sub_diag. reflexivity.
      - destruct (Cwin a (Htl a Ha)) as (_ & y & Hy & Hs). exists y. split; [apply HKK'; exact Hy|exact Hs]. }
    assert (Hsrc : forall e1, In e1 r -> exists a, In a (nw :: tl) /\ vrel ps (i_gen nw) PV PC a e1).
    { intros e1 He. apply (Forall2_in_r _ _ _ _ HF He). }
    assert (Hhgt : forall a, In a (nw :: tl) -> hgt (blk K' (i_height a)) = i_height a).
    { intros a Ha. destruct (HW0 a Ha) as (Hg & y & Hy & Hs). apply static_hdr_eq in Hs. unfold hgt.
      rewrite (blk_last batch Hbatch gh _ _ _ Hg Hy). tauto. }
    assert (Hr2 : exists e_nw r_tl, r = e_nw :: r_tl /\ vrel ps (i_gen nw) PV PC nw e_nw /\
                                   Forall2 (vrel ps (i_gen nw) PV PC) tl r_tl).
    { inversion HF as [|? e_nw ? r_tl H1 H2]; subst. exists e_nw, r_tl. auto. }
    destruct Hr2 as (e_nw & r_tl & Er & Hunw & HFtl).
    assert (HgK' : genC K' = h_gen b) by (unfold genC, K'; rewrite lastH_snoc; reflexivity).
    assert (HpreK' : forall X, prefix X K -> prefix X K').
    { intros X HX. eapply prefix_trans; [exact HX|exists [x]; reflexivity]. }
    change (DInv K' s1). constructor.
    - rewrite Htip'. exact Hvg1.
    - intros j y Hy. unfold K' in Hy. destruct (Nat.lt_ge_cases j (length K)) as [Hlt|Hge].
      + rewrite nth_error_app1 in Hy by exact Hlt. apply Chd; exact Hy.
      + rewrite nth_error_app2 in Hy by exact Hge. destruct (j - length K)%nat as [|m] eqn:Ej.
        * cbn in Hy. injection Hy as <-. cbn [fst x]. rewrite Hb. unfold VotesGhost.tipof. lia.
        * destruct m; discriminate.
    - intros e1 He. rewrite Hw in He. destruct (Hsrc e1 He) as (a & Ha & (Hs & _)).
      destruct (static_eq _ _ Hs) as (E1 & _). destruct (HW0 a Ha) as (Hg & y & Hy & Hsy).
      split; [lia|]. exists y. rewrite E1, Hs. split; assumption.
    - intros e1 He. rewrite Hw in He. rewrite (Hstab e1 He). destruct (Hsrc e1 He) as (a & Ha & (Hs & _)).
      destruct (static_eq _ _ Hs) as (E1 & _). rewrite E1. apply Hpok0. exact Ha.
    - intros k p Hin. rewrite Hps in Hin. apply prune_keys_subset in Hin. apply (Cthr k p Hin).
    - intros e1 He Hq. destruct (heights_are_max_quorum batch s b s1 (tipof K) Hbatch HI Hb Hbt) as [Hmq _].
      assert (Hm : meets ps p_pv i_pv e1).
      { rewrite Hw in He. destruct Hq as (p & Hp & Hle). exists p. split; [|exact Hle]. rewrite <- (Hstab e1 He). exact Hp. }
      destruct Hmq as [[_ Hall]|[_ Hnone]]; [apply Hall; assumption|exfalso; eapply Hnone; eauto].
    - (* prevote decomposition *)
      intros e1 p He Hp. rewrite Hw in He. rewrite (Hstab e1 He) in Hp. destruct (Hsrc e1 He) as (a & Ha & (Hs & Hinc)).
      destruct (static_eq _ _ Hs) as (E1 & _). rewrite E1 in *. destruct (Hinc p Hp) as [Hpv1 _]. rewrite Hpv1. clear Hinc Hpv1.
      assert (Hhe : i_height a <= tipof K + 1) by (apply (hts_in_le _ _ _ Hh0 Ha)).
      assert (Hold : exists L, i_pv a = wsum (p_vals p) (map genC L) /\ NoDup (map genC L) /\
                        forall X, In X L -> prefix X K /\ X <> [] /\ mhgC X < i_height a <= tipof X).
      { destruct Ha as [<-|Ha]; [exists []; split; [reflexivity|split; [constructor|intros X []]]|].
        apply (Cpv a p (Htl a Ha) Hp). }
      destruct Hold as (L & HL1 & HL2 & HL3).
      destruct (PV a) eqn:Epv.
      2:{ exists L. split; [lia|]. split; [exact HL2|]. intros X HX. destruct (HL3 X HX) as (X1 & X2 & X3).
          split; [apply HpreK'; exact X1|]. split; assumption. }
      destruct (HPV a Epv) as [Hvote Hmg]. change (i_mhg nw) with (h_mhg b) in Hmg. change (i_gen nw) with (h_gen b).
      exists (K' :: L). split; [cbn [map]; rewrite wsum_cons, HgK'; lia|]. split.
      + cbn [map]. constructor; [|exact HL2]. rewrite HgK'. intros Hin.
        apply in_map_iff in Hin. destruct Hin as (X & HgX & HX). destruct (HL3 X HX) as (X1 & X2 & X3).
        destruct (last_of_prefix X K X1 X2) as (y & Hy & HlastX).
        assert (Hlen : (0 < length X <= length K)%nat) by (pose proof (prefix_length _ _ X1) as Hpl; destruct X; [congruence|cbn [length] in *; lia]).
        assert (Hrange : i_height a <= tipof X <= tipof K + 1) by (unfold VotesGhost.tipof in *; lia).
        destruct (hts_nth_height (nw :: tl) (tipof K + 1) (tipof X) a Hh0 Ha Hrange) as (xe & Hxe & Hxeh).
        assert (Hxin : In xe (nw :: tl)) by (eapply nth_error_In; exact Hxe).
        destruct (HW0 xe Hxin) as (_ & y' & Hy' & Hsy').
        assert (y' = y).
        { rewrite Hxeh in Hy'. unfold VotesGhost.tipof in Hy'.
          replace (N.to_nat (gh + N.of_nat (length X) - gh - 1)) with (length X - 1)%nat in Hy' by lia.
          rewrite (HKK' _ y Hy) in Hy'. congruence. }
        subst y'. apply static_hdr_eq in Hsy'. destruct Hsy' as (_ & Sg & _).
        destruct Hxin as [Hxnw|Hxtl]; [subst xe; unfold VotesGhost.tipof in *; lia|].
        destruct (Forall2_in_l _ _ _ _ HFtl Hxtl) as (ex & Hex & (Hsx & _)).
        destruct (static_eq _ _ Hsx) as (XA & XB & _).
        destruct Hunw as (Hsn & _). destruct (static_eq _ _ Hsn) as (_ & N2 & N3 & _).
        destruct Hvg1 as (_ & Hlc1 & _). rewrite Hw, Er in Hlc1. destruct Hlc1 as [Hlc1 _].
        assert (Hls : legit_successor (bh_of_info ex) (bh_of_info e_nw)).
        { apply Hlc1; [exact Hex|]. rewrite XB, N2. change (i_gen nw) with (h_gen b). unfold genC in HgX. rewrite HlastX in HgX. congruence. }
        unfold legit_successor, bh_of_info in Hls; cbn in Hls. rewrite N3, XA in Hls. change (i_mhg nw) with (h_mhg b) in Hls. lia.
      + intros X [<-|HX].
        * split; [apply prefix_refl|]. split; [unfold K'; intros E; symmetry in E; apply app_cons_not_nil in E; exact E|].
          unfold mhgC, K'. rewrite lastH_snoc. cbn [fst x]. fold K'. rewrite Htip'. lia.
        * destruct (HL3 X HX) as (X1 & X2 & X3). split; [apply HpreK'; exact X1|]. split; assumption.
    - (* precommit decomposition *)
      intros e1 p He Hp. rewrite Hw in He. rewrite (Hstab e1 He) in Hp. destruct (Hsrc e1 He) as (a & Ha & (Hs & Hinc)).
      destruct (static_eq _ _ Hs) as (E1 & _). rewrite E1 in *. destruct (Hinc p Hp) as [_ Hpc1]. rewrite Hpc1, Hact. clear Hinc Hpc1.
      destruct (get_params_in _ _ _ Hp) as (kp & Hkp). destruct (Cthr kp p Hkp) as [Hthr1 _].
      assert (Hkeep : forall L, (forall P, In P L -> prefix P K /\ pc_evD (i_height a) P /\ noprec act (genC P) (i_height a)) ->
                      forall P, In P L -> prefix P K' /\ pc_evD (i_height a) P /\ noprec act' (genC P) (i_height a)).
      { intros L HL P HP. destruct (HL P HP) as (P1 & P2 & P3). split; [apply HpreK'; exact P1|]. split; [exact P2|apply Hmono; exact P3]. }
      destruct (PC a) eqn:Epc.
      2:{ destruct Ha as [<-|Ha]; [exists []; split; [change (i_pc nw) with 0; cbn; lia|split; [constructor|intros P []]]|].
          destruct (Cpc a p (Htl a Ha) Hp) as (L & HL1 & HL2 & HL3). exists L. split; [lia|]. split; [exact HL2|]. apply Hkeep; exact HL3. }
      destruct (HPC a Epc) as (Hvote & vi & Ea & Hmin & Hhnp & Hlhp & p' & Hp' & Hq).
      rewrite Hp in Hp'. injection Hp' as <-.
      destruct Ha as [<-|Ha]; [change (i_pv nw) with 0 in Hq; lia|].
      destruct (Cpc a p (Htl a Ha) Hp) as (L & HL1 & HL2 & HL3).
      change (i_gen nw) with (h_gen b) in *.
      exists (K' :: L). split; [cbn [map]; rewrite wsum_cons, HgK'; lia|]. split.
      + cbn [map]. constructor; [|exact HL2]. rewrite HgK'. intros Hin. apply in_map_iff in Hin. destruct Hin as (P & HgP & HP).
        destruct (HL3 P HP) as (_ & _ & P3). rewrite HgP in P3. specialize (P3 vi Ea). lia.
      + intros P [<-|HP]; [|apply (Hkeep L HL3 P HP)].
        split; [apply prefix_refl|]. split; [|rewrite HgK'; apply Hnew; [right; exact Ha|exact Epc]].
        unfold pc_evD. split; [unfold K'; intros E; symmetry in E; apply app_cons_not_nil in E; exact E|].
        assert (Hmeet : meets ps p_pv i_pv a) by (exists p; split; assumption).
        split.
        { unfold mhpC, K'. rewrite lastH_snoc. cbn [fst x].
          unfold bft_valid in Hval. apply andb_prop in Hval. destruct Hval as [Hv1 _]. apply N.eqb_eq in Hv1. rewrite Hv1.
          apply Cmax; [apply Htl; exact Ha|exact Hmeet]. }
        split.
        { unfold K'. rewrite removelast_last. exists s, a. repeat split; auto. }
        assert (Hhnp' : hnp_loop (S (length (nw :: tl))) (nw :: tl) (i_gen nw) (i_height nw) (i_mhg nw) < i_height a).
        { unfold height_not_prevoted in Hhnp. lia. }
        assert (Hle : i_height a <= i_height nw) by (pose proof (hts_in_le _ _ _ Hh0 (or_intror Ha)); lia).
        rewrite Hnwh in Hhnp' at 1.
        destruct (hnp_linked _ _ _ _ (i_height a) a Hh0 (or_intror Ha) eq_refl (i_mhg nw) nw
                    (or_introl eq_refl) eq_refl eq_refl Hvote Hle Hhnp') as (run & Hrun & Hrin).
        assert (Hall : forall Q, In Q (nw :: run) -> In Q (nw :: tl)).
        { intros Q [<-|HQ]; [left; reflexivity|apply Hrin; exact HQ]. }
        destruct (ilinked_linked batch Hbatch gh K' (nw :: tl) HW0 (i_gen nw) (i_height a) (nw :: run) (Hhgt a (or_intror Ha)) Hall Hrun)
          as (Hlk & Hfa).
        cbn [map] in Hlk, Hfa. rewrite Hnwh, <- Htip', (blk_full batch Hbatch) in Hlk, Hfa.
        exists (map (fun x0 => blk K' (i_height x0)) run). split.
        { rewrite HgK'. exact Hlk. }
        { inversion Hfa; assumption. }
  Qed.

  (* the optional SetBFTParameters after the block *)
  Lemma dinv_sp : forall K s1 pcT certT vals0 s2, DInv K s1 -> set_params batch s1 pcT certT vals0 = Ok s2 -> DInv K s2.
  Proof.
    intros K s1 pcT certT vals0 s2 HC H. destruct HC as [Cvg Chd Cwin Cpok Cthr Cmax Cpv Cpc].
    pose proof Cvg as ((HI & Hmp & Hmpc) & Hlc & Hmb).
    destruct (set_params_step _ _ _ _ _ _ _ HI H) as (HI2 & Ew & E1 & E2 & E3 & Hget).
    assert (Hle : forall e, In e (window s1) -> i_height e <= tipof K) by (intros e He; apply (hts_in_le _ _ _ (inv_hts _ _ HI) He)).
    assert (Hg : forall e, In e (window s1) -> get_params (s_params s2) (i_height e) = get_params (s_params s1) (i_height e)).
    { intros e He. apply Hget. apply Hle; exact He. }
    constructor.
    - split; [split; [exact HI2|rewrite E1, E2; split; assumption]|rewrite Ew, E1; split; assumption].
    - exact Chd.
    - rewrite Ew. exact Cwin.
    - rewrite Ew. intros e He. rewrite (Hg e He). apply Cpok; exact He.
    - destruct (set_params_shape _ _ _ _ _ _ H) as [->|(p & Hp1 & Hp2 & Hps & _)]; [exact Cthr|].
      intros k q Hin. rewrite Hps in Hin. apply insert_in in Hin. destruct Hin as [E|Hin]; [injection E as -> ->; split; assumption|apply (Cthr k q Hin)].
    - rewrite Ew, E1. intros e He (p & Hp & Hq). apply Cmax; [exact He|]. exists p. split; [rewrite <- (Hg e He); exact Hp|exact Hq].
    - rewrite Ew. intros e p He Hp. rewrite (Hg e He) in Hp. apply (Cpv e p He Hp).
    - rewrite Ew. intros e p He Hp. rewrite (Hg e He) in Hp. destruct (Cpc e p He Hp) as (L & L1 & L2 & L3).
      exists L. split; [exact L1|]. split; [exact L2|]. intros P HP. destruct (L3 P HP) as (P1 & P2 & P3).
      split; [exact P1|]. split; [exact P2|].
      destruct (set_params_shape _ _ _ _ _ _ H) as [->|(q & _ & _ & _ & Hact)]; [exact P3|].
      intros vi Hvi. rewrite Hact in Hvi. apply rebuilt_act in Hvi. destruct Hvi as [Hold|[Hmin _]]; [apply P3; exact Hold|].
      rewrite (inv_cur _ _ HI) in Hmin. specialize (Hle e He). lia.
  Qed.

  Lemma dinv_step : forall K s x s2, viewD K = Some s -> DInv K s -> h_height (fst x) = tipof K + 1 -> bft_valid s (fst x) = true ->
    apply_block batch s x = Ok s2 -> DInv (K ++ [x]) s2.
  Proof.
    intros K s [b chg] s2 Hv HC Hb Hval Hap. cbn [fst] in *. unfold apply_block in Hap.
    destruct (before_txs batch s b) as [s1|e] eqn:Hbt; cbn [bind] in Hap; [|discriminate].
    pose proof (dinv_bt K s b chg s1 Hv HC Hb Hval Hbt) as H1.
    destruct chg as [cc|]; [eapply dinv_sp; eauto|injection Hap as <-; exact H1].
  Qed.

  Theorem dinv_view : forall K s, viewD K = Some s -> DInv K s.
  Proof. apply (viewD_ind0 DInv); [exact dinv_nil|]. intros K s x s1 Hv HC Hb Hval Hap. eapply dinv_step; eauto. Qed.

  Lemma viewD_ind : forall (Q : chain -> store -> Prop), Q [] s0 ->
    (forall K s x s1, viewD K = Some s -> DInv K s -> Q K s -> h_height (fst x) = tipof K + 1 -> bft_valid s (fst x) = true ->
                      apply_block batch s x = Ok s1 -> viewD (K ++ [x]) = Some s1 -> Q (K ++ [x]) s1) ->
    forall K s, viewD K = Some s -> Q K s.
  Proof.
    intros Q Q0 QS. apply (viewD_ind0 Q); [exact Q0|]. intros K s x s1 Hv HQ Hb Hval Hap.
    apply QS with (s := s); auto; [apply dinv_view; exact Hv|].
    apply viewD_snoc. exists s. split; [exact Hv|apply stepD_intro; assumption].
  Qed.

  (* parameters in force at the heights of the window are not changed by a block (VotesProofs.params_stable_in_window) *)
  Lemma meets_stable : forall K s x s1 sel get e, DInv K s -> h_height (fst x) = tipof K + 1 -> apply_block batch s x = Ok s1 ->
    In e (window s1) -> (meets (s_params s1) sel get e <-> meets (s_params s) sel get e).
  Proof.
    intros K s x s1 sel get e HC Hb Hap He. pose proof (di_vgood _ _ HC) as (Hg & _).
    destruct (apply_block_step batch s x s1 (tipof K) Hbatch Hg Hb Hap) as ((HI1 & _) & _).
    assert (E : get_params (s_params s1) (i_height e) = get_params (s_params s) (i_height e)).
    { apply (params_stable_in_window batch s x s1 (tipof K) Hbatch Hg Hb Hap). split.
      - apply (oldest_height_le _ _ _ (inv_hts _ _ HI1) He).
      - apply (hts_in_le _ _ _ (inv_hts _ _ HI1) He). }
    unfold meets. rewrite E. reflexivity.
  Qed.

  (* P3 (and its precommit analogue) *)
  Theorem quorum_witnessD : forall K s, viewD K = Some s ->
    (gh < v_mhp (s_votes s) -> exists T', prefix T' K /\ qrmD p_pv i_pv T' (v_mhp (s_votes s))) /\
    (gh < v_mhpc (s_votes s) -> exists T', prefix T' K /\ qrmD p_pc i_pc T' (v_mhpc (s_votes s))).
  Proof.
    apply (viewD_ind (fun K s =>
      (gh < v_mhp (s_votes s) -> exists T', prefix T' K /\ qrmD p_pv i_pv T' (v_mhp (s_votes s))) /\
      (gh < v_mhpc (s_votes s) -> exists T', prefix T' K /\ qrmD p_pc i_pc T' (v_mhpc (s_votes s))))).
    - destruct (init_shape batch Hbatch gh c s0 Hinit) as (_ & _ & Hmp & Hmpc & _). rewrite Hmp, Hmpc. split; intros H; lia.
    - intros K s [b chg] s2 Hv HC [IH1 IH2] Hb Hval Hap Hv2. cbn [fst] in *.
      pose proof (di_vgood _ _ HC) as ((HI & Hmp & Hmpc) & _).
      pose proof Hap as Hap'. unfold apply_block in Hap'.
      destruct (before_txs batch s b) as [s1|e] eqn:Hbt; cbn [bind] in Hap'; [|discriminate].
      destruct (before_txs_step _ _ _ _ _ Hbatch HI Hb Hmp Hmpc Hbt) as (HI1 & _).
      assert (Heq : window s2 = window s1 /\ v_mhp (s_votes s2) = v_mhp (s_votes s1) /\ v_mhpc (s_votes s2) = v_mhpc (s_votes s1)).
      { destruct chg as [cc|]; [|injection Hap' as <-; auto].
        destruct (set_params_step _ _ _ _ _ _ _ HI1 Hap') as (_ & A & B & C & _). auto. }
      destruct Heq as (Ew & Emp & Empc).
      destruct (heights_are_max_quorum batch s b s1 (tipof K) Hbatch HI Hb Hbt) as [Hq1 Hq2].
      assert (Hpre : forall T', prefix T' K -> prefix T' (K ++ [(b, chg)])).
      { intros T' HT. eapply prefix_trans; [exact HT|]. exists [(b, chg)]. reflexivity. }
      rewrite Emp, Empc. split; intros Hgt.
      + destruct Hq1 as [[(bi & Hbi & Hbh & Hm) _]|[E _]].
        * exists (K ++ [(b, chg)]). split; [apply prefix_refl|]. exists s2, bi. rewrite Ew. repeat split; auto.
          apply (meets_stable K s (b, chg) s2 p_pv i_pv bi HC Hb Hap); [rewrite Ew; exact Hbi|exact Hm].
        * rewrite E in Hgt |- *. destruct (IH1 Hgt) as (T' & HT & Hq). exists T'. split; [apply Hpre; exact HT|exact Hq].
      + destruct Hq2 as [[(bi & Hbi & Hbh & Hm) _]|[E _]].
        * exists (K ++ [(b, chg)]). split; [apply prefix_refl|]. exists s2, bi. rewrite Ew. repeat split; auto.
          apply (meets_stable K s (b, chg) s2 p_pc i_pc bi HC Hb Hap); [rewrite Ew; exact Hbi|exact Hm].
        * rewrite E in Hgt |- *. destruct (IH2 Hgt) as (T' & HT & Hq). exists T'. split; [apply Hpre; exact HT|exact Hq].
  Qed.

  (* ---------------------------------------------------------------- facts about valid chains used by the instantiation *)
  Lemma window_heightsD : forall K s e, viewD K = Some s -> In e (window s) -> gh < i_height e <= tipof K.
  Proof.
    intros K s e Hv He. pose proof (dinv_view _ _ Hv) as HC. split; [apply (di_win _ _ HC e He)|].
    pose proof (di_vgood _ _ HC) as ((HI & _) & _). apply (hts_in_le _ _ _ (inv_hts _ _ HI) He).
  Qed.
  Lemma qrmD_heights : forall sel get T h, qrmD sel get T h -> gh < h <= tipof T /\ T <> [].
  Proof.
    intros sel get T h (s & e & Hv & He & Hh & _). pose proof (window_heightsD _ _ _ Hv He) as Hr. split; [lia|].
    intros ->. unfold VotesGhost.tipof in Hr. cbn in Hr. lia.
  Qed.
  Lemma valid_hgtD : forall K s, viewD K = Some s -> K <> [] -> hgt K = tipof K.
  Proof.
    intros K s Hv Hne. pose proof (dinv_view _ _ Hv) as HC. destruct (exists_last Hne) as (K0 & y & ->).
    unfold hgt. rewrite lastH_snoc.
    assert (Hy : nth_error (K0 ++ [y]) (length K0) = Some y) by (rewrite nth_error_app2, Nat.sub_diag by lia; reflexivity).
    rewrite (di_hdrs _ _ HC _ _ Hy). unfold VotesGhost.tipof. rewrite app_length. cbn. lia.
  Qed.
  Lemma valid_last_mhpD : forall K s, viewD K = Some s -> K <> [] ->
    exists s', viewD (removelast K) = Some s' /\ mhpC K = v_mhp (s_votes s').
  Proof.
    intros K s Hv Hne. destruct (exists_last Hne) as (K0 & y & ->). rewrite removelast_last.
    apply viewD_snoc in Hv. destruct Hv as (s' & Hv' & Hs). apply stepD_some in Hs. destruct Hs as (_ & Hval & _).
    exists s'. split; [exact Hv'|]. unfold mhpC. rewrite lastH_snoc.
    unfold bft_valid in Hval. apply andb_prop in Hval. destruct Hval as [H1 _]. lia.
  Qed.
  Lemma blk_hgtD : forall K s h, viewD K = Some s -> gh < h <= tipof K -> hgt (blk K h) = h /\ blk K h <> [].
  Proof.
    intros K s h Hv Hr. pose proof (dinv_view _ _ Hv) as HC.
    assert (Hlt : (N.to_nat (h - gh - 1) < length K)%nat) by (unfold VotesGhost.tipof in Hr; lia).
    apply nth_error_Some in Hlt. destruct (nth_error K (N.to_nat (h - gh - 1))) as [y|] eqn:Ey; [|congruence].
    split; [|eapply (blk_nonempty batch Hbatch); [|exact Ey]; lia]. unfold hgt. rewrite (blk_last batch Hbatch gh K h y) by (auto; lia).
    rewrite (di_hdrs _ _ HC _ _ Ey). lia.
  Qed.
  Lemma mhpc_le_tipD : forall K s, viewD K = Some s -> v_mhpc (s_votes s) <= tipof K /\ v_mhp (s_votes s) <= tipof K.
  Proof. intros K s Hv. pose proof (di_vgood _ _ (dinv_view _ _ Hv)) as ((_ & H1 & H2) & _). split; assumption. Qed.

  (* ---------------------------------------------------------------- validD, declaratively *)
  Lemma vrunD_run_blocks : forall K s tip s', vrunD s tip K = Some s' -> run_blocks batch s K = Ok s'.
  Proof.
    induction K as [|x K IH]; intros s tip s' H; cbn [vrunD] in H; [injection H as <-; reflexivity|].
    destruct (stepD s tip x) as [s1|] eqn:E; [|discriminate]. apply stepD_some in E. destruct E as (_ & _ & Hap).
    cbn [run_blocks]. rewrite Hap. cbn [bind]. eapply IH; exact H.
  Qed.
  Lemma viewD_run_blocks : forall K s, viewD K = Some s -> run_blocks batch s0 K = Ok s.
  Proof. intros K s H. apply (vrunD_run_blocks K s0 gh s H). Qed.

  (* heights consecutive from gh+1, every header satisfies the two BFT rules of verifyBlock in the view of the blocks
     before it, run_blocks succeeds; blocks may carry parameter changes *)
  Definition validD_decl (K : chain) : Prop :=
    (forall j x, nth_error K j = Some x ->
       h_height (fst x) = gh + N.of_nat j + 1 /\
       exists s, run_blocks batch s0 (firstn j K) = Ok s /\ bft_valid s (fst x) = true) /\
    exists s, run_blocks batch s0 K = Ok s.

  Theorem validD_spec : forall K, validD K <-> validD_decl K.
  Proof.
    intros K. split.
    - intros H. unfold validD in H. destruct (viewD K) as [s|] eqn:Hv; [clear H|congruence].
      revert K s Hv. apply (viewD_ind0 (fun K s => validD_decl K /\ run_blocks batch s0 K = Ok s)).
      { split; [split; [intros j x H; destruct j; discriminate|exists s0; reflexivity]|reflexivity]. }
      intros K s x s1 Hv [[IH _] Hrun] Hb Hval Hap.
      assert (Hrun1 : run_blocks batch s0 (K ++ [x]) = Ok s1).
      { rewrite (run_blocks_app batch), Hrun. cbn [run_blocks]. rewrite Hap. reflexivity. }
      split; [|exact Hrun1]. split; [|exists s1; exact Hrun1].
      intros j y Hy. destruct (Nat.lt_ge_cases j (length K)) as [Hlt|Hge].
      + rewrite nth_error_app1 in Hy by exact Hlt. rewrite firstn_app. replace (j - length K)%nat with 0%nat by lia.
        cbn [firstn]. rewrite app_nil_r. apply IH; exact Hy.
      + rewrite nth_error_app2 in Hy by exact Hge. destruct (j - length K)%nat as [|m] eqn:Ej; [|destruct m; discriminate].
        cbn in Hy. injection Hy as <-. assert (j = length K) by lia. subst j.
        rewrite firstn_app, Nat.sub_diag, firstn_all. cbn [firstn]. rewrite app_nil_r.
        split; [unfold VotesGhost.tipof in Hb; exact Hb|]. exists s. split; assumption.
    - induction K as [|x K IH] using rev_ind; intros [Hall [s1 Hrun]]; [unfold validD; rewrite viewD_nil; discriminate|].
      assert (HK : validD_decl K).
      { rewrite (run_blocks_app batch) in Hrun. destruct (run_blocks batch s0 K) as [s|e] eqn:Er; [|discriminate].
        split; [|exists s; exact Er]. intros j y Hy.
        assert (Hlt : (j < length K)%nat) by (apply nth_error_Some; intros E; assert (E2 : Some y = None) by (etransitivity; [symmetry; exact Hy|exact E]); discriminate E2).
        specialize (Hall j y). rewrite nth_error_app1 in Hall by exact Hlt. specialize (Hall Hy).
        rewrite firstn_app in Hall. replace (j - length K)%nat with 0%nat in Hall by lia. cbn [firstn] in Hall.
        rewrite app_nil_r in Hall. exact Hall. }
      specialize (IH HK). unfold validD in IH. destruct (viewD K) as [s|] eqn:Hv; [clear IH|congruence].
      pose proof (viewD_run_blocks K s Hv) as Hr.
      assert (Hx : nth_error (K ++ [x]) (length K) = Some x) by (rewrite nth_error_app2, Nat.sub_diag by lia; reflexivity).
      destruct (Hall _ _ Hx) as (Hh & s' & Hr' & Hval).
      rewrite firstn_app, Nat.sub_diag, firstn_all in Hr'. cbn [firstn] in Hr'. rewrite app_nil_r in Hr'.
      rewrite Hr in Hr'. injection Hr' as <-.
      rewrite (run_blocks_app batch), Hr in Hrun. cbn [run_blocks] in Hrun.
      destruct (apply_block batch s x) as [s2|e] eqn:Eb; cbn [bind] in Hrun; [|discriminate].
      assert (Hv1 : viewD (K ++ [x]) = Some s2).
      { apply viewD_snoc. exists s. split; [exact Hv|]. apply stepD_intro; auto. }
      unfold validD. intros E. assert (E2 : Some s2 = None) by (etransitivity; [symmetry; exact Hv1|exact E]). discriminate E2.
  Qed.
End Dyn.
