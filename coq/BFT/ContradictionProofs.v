From Coq Require Import List NArith Bool Lia ZArith.
From Coq Require Import ZifyBool ZifyN.
From LE Require Import BFT.Contradiction.
Import ListNotations.
Local Open Scope N_scope.

Ltac kill_swap :=
  repeat match goal with
  | |- context [if ((?a <? ?b) || ?x || ?y) then _ else _] =>
      let E := fresh "S" in destruct ((a <? b) || x || y) eqn:E
  end; cbn [gen mhg mhp height] in *.
Ltac kill_ifs :=
  repeat match goal with |- context [if ?c then _ else _] => let E := fresh "C" in destruct c eqn:E end.

Lemma contradicting_sym : forall b1 b2, contradicting b1 b2 = contradicting b2 b1.
Proof.
  intros [h1 g1 mg1 mp1] [h2 g2 mg2 mp2]. unfold contradicting; cbn [gen mhg mhp height].
  kill_swap; kill_ifs; try reflexivity; exfalso; lia.
Qed.

Lemma different_generators_never : forall b1 b2, gen b1 <> gen b2 -> contradicting b1 b2 = false.
Proof.
  intros [h1 g1 mg1 mp1] [h2 g2 mg2 mp2] Hg. unfold contradicting; cbn [gen mhg mhp height] in *.
  kill_swap; kill_ifs; try reflexivity; exfalso; lia.
Qed.

Lemma contradicting_iff : forall b1 b2,
  contradicting b1 b2 = true <-> gen b1 = gen b2 /\ ~ legit_successor b1 b2 /\ ~ legit_successor b2 b1.
Proof.
  intros [h1 g1 mg1 mp1] [h2 g2 mg2 mp2]. unfold contradicting, legit_successor; cbn [gen mhg mhp height].
  kill_swap; kill_ifs;
    (split; [intros Hc; try discriminate Hc; lia | intros Hc; try reflexivity; exfalso; lia]).
Qed.

Lemma legit_successor_b_spec : forall e l, legit_successor_b e l = true <-> legit_successor e l.
Proof. intros [h1 g1 mg1 mp1] [h2 g2 mg2 mp2]. unfold legit_successor_b, legit_successor; cbn [gen mhg mhp height]. lia. Qed.

Lemma contradicting_is_spec : forall b1 b2, contradicting b1 b2 = contradicting_spec b1 b2.
Proof.
  intros b1 b2. destruct (contradicting b1 b2) eqn:E.
  - apply contradicting_iff in E. destruct E as (Hg & H1 & H2). unfold contradicting_spec.
    rewrite <- legit_successor_b_spec in H1, H2.
    apply N.eqb_eq in Hg. rewrite Hg. destruct (legit_successor_b b1 b2), (legit_successor_b b2 b1); try reflexivity; exfalso; auto.
  - unfold contradicting_spec. destruct (gen b1 =? gen b2) eqn:Hg; [|reflexivity].
    destruct (legit_successor_b b1 b2) eqn:L1; [reflexivity|].
    destruct (legit_successor_b b2 b1) eqn:L2; [reflexivity|].
    exfalso. assert (contradicting b1 b2 = true); [|congruence].
    apply contradicting_iff. apply N.eqb_eq in Hg. repeat split; auto; rewrite <- legit_successor_b_spec; congruence.
Qed.

(* the three named misbehaviours of the property text *)
Lemma double_forging_flagged : forall b1 b2,
  gen b1 = gen b2 -> height b1 = height b2 -> mhp b1 = mhp b2 -> contradicting b1 b2 = true.
Proof. intros b1 b2 Hg Hh Hp. apply contradicting_iff. unfold legit_successor. split; [assumption|lia]. Qed.

Lemma lower_mhp_chain_flagged : forall e l,
  gen e = gen l -> mhg e < mhg l -> mhp l < mhp e -> contradicting e l = true.
Proof. intros e l Hg Hm Hp. apply contradicting_iff. unfold legit_successor. split; [assumption|lia]. Qed.

Lemma violating_own_mhg_flagged : forall e l,
  gen e = gen l -> mhg e <= mhg l -> mhg l < height e -> height e < height l -> contradicting e l = true.
Proof. intros e l Hg Hm0 Hm Hh. apply contradicting_iff. unfold legit_successor. split; [assumption|lia]. Qed.

Lemma max_height_ge : forall hs p, In p hs -> height p <= max_height hs.
Proof. induction hs; simpl; intros p []; subst; try lia. specialize (IHhs _ H). lia. Qed.

Lemma follower_mhg_le : forall hs, follower hs -> forall p, In p hs -> mhg p <= max_height hs.
Proof.
  induction 1 as [|b hs Hf IH Hm Hp]; intros p Hin; simpl in *; [contradiction|].
  destruct Hin as [<-|Hin]; [rewrite Hm; lia|]. specialize (IH _ Hin). lia.
Qed.

Lemma follower_never_flagged : forall hs, follower hs ->
  forall b1 b2, In b1 hs -> In b2 hs -> b1 <> b2 -> contradicting b1 b2 = false.
Proof.
  induction 1 as [|b hs Hf IH Hm Hp]; intros b1 b2 H1 H2 Hne; [contradiction|].
  assert (Hkey : forall p, In p hs -> contradicting p b = false).
  { intros p Hin. destruct (Hp p Hin) as [Hg Hlex].
    pose proof (max_height_ge _ _ Hin) as Hh.
    assert (Hmg : mhg p <= mhg b) by (rewrite Hm; apply follower_mhg_le; auto).
    destruct (contradicting p b) eqn:Ec; [|reflexivity].
    apply contradicting_iff in Ec. destruct Ec as (_ & Hn & _). exfalso. apply Hn.
    unfold legit_successor. lia. }
  destruct H1 as [<-|H1], H2 as [<-|H2].
  - congruence.
  - rewrite contradicting_sym. auto.
  - auto.
  - auto.
Qed.

(* non-vacuity: a three-block follower history with a chain switch to a shorter, better chain *)
Example follower_example :
  follower [ {| height := 8; gen := 1; mhg := 10; mhp := 6 |};
             {| height := 10; gen := 1; mhg := 5; mhp := 3 |};
             {| height := 5; gen := 1; mhg := 0; mhp := 1 |} ].
Proof.
  repeat (constructor; cbn; try reflexivity; try (intros p Hp; repeat destruct Hp as [<-|Hp]; try contradiction; cbn; lia)).
Qed.
