(* Agreement of the wrap-faithful model BFT/Votes32.v with the unbounded model BFT/Votes.v below the uint32/uint64 bounds,
   and what goes wrong AT the bounds. *)
From Coq Require Import List NArith Bool Lia ZArith Arith.
From Coq Require Import ZifyBool ZifyN ZifyNat.
From LE Require Import BFT.Contradiction BFT.Votes BFT.VotesProofs BFT.Votes32.
Import ListNotations.
Local Open Scope N_scope.

Lemma u32_small : forall x, x < M32 -> u32 x = x.
Proof. intros x H. unfold u32. apply N.mod_small. exact H. Qed.
Lemma u64_small : forall x, x < M64 -> u64 x = x.
Proof. intros x H. unfold u64. apply N.mod_small. exact H. Qed.
Lemma sub32_small : forall a b, b <= a -> a < M32 -> sub32 a b = a - b.
Proof.
  intros a b H1 H2. unfold sub32, u32. replace (a + M32 - b) with ((a - b) + 1 * M32) by lia.
  rewrite N.mod_add by (unfold M32; lia). apply N.mod_small. lia.
Qed.
Lemma u64_idemp_add : forall a w, u64 (u64 a + w) = u64 (a + w).
Proof. intros a w. unfold u64. apply N.add_mod_idemp_l. unfold M64. lia. Qed.

(* ------------------------------------------------------------------ NextHeightBFTParameters *)
Lemma next_params_height_first : forall ps h, next_params_height ps h = first_key_from ps (h + 1).
Proof. induction ps as [|[k p] ps IH]; intros h; cbn [next_params_height first_key_from]; [reflexivity|]. rewrite IH. reflexivity. Qed.
Theorem next_params_height32_agrees : forall ps h, h + 1 < M32 -> next_params_height32 ps h = next_params_height ps h.
Proof. intros ps h H. unfold next_params_height32. rewrite u32_small by exact H. symmetry. apply next_params_height_first. Qed.

(* ------------------------------------------------------------------ getHeightNotPrevoted *)
Lemma hnp_loop32_agrees : forall fuel infos g cur prev, infos <> [] -> cur < M32 ->
  (forall a, In a infos -> 1 <= i_height a < M32) -> prev < cur ->
  hnp_loop32 fuel infos g cur prev = Some (hnp_loop fuel infos g cur prev).
Proof.
  intros fuel infos g cur prev Hne Hcur Hh. revert prev. induction fuel as [|f IH]; intros prev Hlt; cbn [hnp_loop32 hnp_loop]; [reflexivity|].
  assert (prev <=? cur = true) as -> by lia. rewrite (sub32_small cur prev) by lia.
  destruct (cur - prev <? N.of_nat (length infos)) eqn:E.
  - assert (Hidx : (N.to_nat (cur - prev) < length infos)%nat) by lia.
    apply nth_error_Some in Hidx. destruct (nth_error infos (N.to_nat (cur - prev))) as [bi|]; [|congruence].
    destruct (negb (i_gen bi =? g) || (prev <=? i_mhg bi)) eqn:E2; [reflexivity|]. apply IH. lia.
  - destruct (rev infos) as [|o r'] eqn:Er.
    + exfalso. apply Hne. rewrite <- (rev_involutive infos), Er. reflexivity.
    + assert (Ho : In o infos) by (apply in_rev; rewrite Er; left; reflexivity). specialize (Hh o Ho).
      rewrite sub32_small by lia. reflexivity.
Qed.

Lemma hnp_loop_lt : forall fuel infos g cur prev, (forall a, In a infos -> i_height a <= cur) -> prev < cur ->
  hnp_loop fuel infos g cur prev < cur.
Proof.
  intros fuel infos g cur prev Hh. revert prev. induction fuel as [|f IH]; intros prev Hlt; cbn [hnp_loop]; [exact Hlt|].
  destruct (cur - prev <? N.of_nat (length infos)).
  - destruct (nth_error infos (N.to_nat (cur - prev))) as [bi|]; [|exact Hlt].
    destruct (negb (i_gen bi =? g) || (prev <=? i_mhg bi)) eqn:E2; [exact Hlt|]. apply IH. lia.
  - destruct (rev infos) as [|o r'] eqn:Er; [exact Hlt|].
    assert (Ho : In o infos) by (apply in_rev; rewrite Er; left; reflexivity). specialize (Hh o Ho). lia.
Qed.

(* ------------------------------------------------------------------ the two loops: only the stored weights are wrapped *)
Definition wrap (e : info) : info :=
  {| i_height := i_height e; i_gen := i_gen e; i_mhg := i_mhg e; i_mhp := i_mhp e; i_pv := u64 (i_pv e); i_pc := u64 (i_pc e) |}.
Definition small (e : info) : Prop := i_pv e < M64 /\ i_pc e < M64.
Lemma wrap_small : forall e, small e -> wrap e = e.
Proof. intros [h g m p pv pc] [H1 H2]. unfold wrap; cbn in *. rewrite !u64_small by assumption. reflexivity. Qed.
Lemma map_wrap_small : forall l, (forall e, In e l -> small e) -> map wrap l = l.
Proof.
  induction l as [|a l IH]; intros H; [reflexivity|]. cbn [map]. rewrite wrap_small by (apply H; left; reflexivity).
  rewrite IH; [reflexivity|]. intros e He. apply H. right; exact He.
Qed.
Lemma u64_u64 : forall x, u64 (u64 x) = u64 x.
Proof. intros x. unfold u64. apply N.mod_mod. unfold M64. lia. Qed.

Definition lift {A B} (f : A -> B) (r : res A) : res B := match r with Ok a => Ok (f a) | Error c => Error c end.

Lemma precommit_loop32_wrap : forall ps g m l f, (forall e, In e l -> small e) ->
  precommit_loop32 ps g m l f = lift (fun rf => (map wrap (fst rf), snd rf)) (precommit_loop ps g m l f).
Proof.
  intros ps g m. induction l as [|a l IH]; intros f Hs; cbn [precommit_loop32 precommit_loop]; [reflexivity|].
  assert (Hsa : small a) by (apply Hs; left; reflexivity).
  assert (Hsl : forall e, In e l -> small e) by (intros e He; apply Hs; right; exact He).
  destruct (i_height a <? m).
  - cbn [lift fst snd]. rewrite map_wrap_small by exact Hs. reflexivity.
  - destruct (get_params ps (i_height a)) as [p|c]; cbn [bind lift]; [|reflexivity].
    destruct (p_pv p <=? i_pv a).
    + destruct (find_weight (p_vals p) g) as [w|]; [|reflexivity]. rewrite IH by exact Hsl.
      destruct (precommit_loop ps g m l _) as [[r f']|c]; cbn [bind lift fst snd map]; [|reflexivity].
      f_equal. f_equal. f_equal. unfold add_pc32, add_pc, wrap. cbn. destruct Hsa as [H1 _]. rewrite (u64_small (i_pv a)) by exact H1. reflexivity.
    + rewrite IH by exact Hsl. destruct (precommit_loop ps g m l f) as [[r f']|c]; cbn [bind lift fst snd map]; [|reflexivity].
      rewrite (wrap_small a Hsa). reflexivity.
Qed.

Lemma prevote_loop32_wrap : forall ps g m l,
  prevote_loop32 ps g m (map wrap l) = lift (map wrap) (prevote_loop ps g m l).
Proof.
  intros ps g m. induction l as [|a l IH]; cbn [prevote_loop32 prevote_loop map]; [reflexivity|].
  change (i_height (wrap a)) with (i_height a). destruct (i_height a <? m); [reflexivity|].
  destruct (get_params ps (i_height a)) as [p|c]; cbn [bind lift]; [|reflexivity].
  destruct (find_weight (p_vals p) g) as [w|]; [|reflexivity]. rewrite IH.
  destruct (prevote_loop ps g m l) as [r|c]; cbn [bind lift map]; [|reflexivity].
  f_equal. f_equal. unfold add_pv32, add_pv, wrap. cbn. rewrite u64_idemp_add. reflexivity.
Qed.

Lemma update_votes32_wrap : forall ps infos act,
  (forall e, In e infos -> small e) ->
  (forall a, In a infos -> 1 <= i_height a < M32 - 1) ->
  (forall vi, In vi act -> a_lhp vi + 1 < M32) ->
  (forall nw tl, infos = nw :: tl -> forall a, In a infos -> i_height a <= i_height nw) ->
  update_votes32 ps infos act = lift (fun r => (map wrap (fst r), snd r)) (update_votes ps infos act).
Proof.
  intros ps infos act Hs Hh Hact Hmax. unfold update_votes32, update_votes. destruct infos as [|nw tl].
  - reflexivity.
  - destruct (i_height nw <=? i_mhg nw) eqn:Ev; [cbn [lift fst snd]; rewrite map_wrap_small by exact Hs; reflexivity|].
    destruct (find_active act (i_gen nw)) as [vi|] eqn:Ea; [|cbn [lift fst snd]; rewrite map_wrap_small by exact Hs; reflexivity].
    assert (Hvi : In vi act).
    { clear -Ea. induction act as [|x act IH]; cbn [find_active] in Ea; [discriminate|].
      destruct (a_addr x =? i_gen nw); [injection Ea as <-; left; reflexivity|right; apply IH; exact Ea]. }
    pose proof (Hh nw (or_introl eq_refl)) as Hnw.
    unfold height_not_prevoted32, height_not_prevoted.
    rewrite hnp_loop32_agrees; [|discriminate|lia|intros a Ha; specialize (Hh a Ha); lia|lia].
    set (hnp := hnp_loop (S (length (nw :: tl))) (nw :: tl) (i_gen nw) (i_height nw) (i_mhg nw)).
    assert (Hhnp : hnp < i_height nw).
    { apply hnp_loop_lt; [|lia]. intros a Ha. apply (Hmax nw tl eq_refl a Ha). }
    rewrite (u32_small (hnp + 1)) by lia. rewrite (u32_small (a_lhp vi + 1)) by (apply Hact; exact Hvi).
    rewrite (u32_small (i_mhg nw + 1)) by lia.
    rewrite precommit_loop32_wrap by exact Hs.
    destruct (precommit_loop ps (i_gen nw) _ (nw :: tl) None) as [[mid f]|c]; cbn [bind lift fst snd]; [|reflexivity].
    rewrite prevote_loop32_wrap. destruct (prevote_loop ps (i_gen nw) _ mid) as [r|c]; cbn [bind lift fst snd]; reflexivity.
Qed.

(* ------------------------------------------------------------------ paramsCache.cache vs the per-entry check *)
Lemma get_params_error : forall ps h c, get_params ps h = Error c -> c = 1.
Proof. intros ps h c H. unfold get_params in H. destruct (lookup_le ps h None); [discriminate|injection H as <-; reflexivity]. Qed.

Definition has_p (ps : list (N * params)) (h : N) : Prop := exists p, get_params ps h = Ok p.

Lemma check_params_range_char : forall ps l,
  ((forall a, In a l -> has_p ps (i_height a)) /\ check_params_range ps l = Ok tt) \/
  ((exists a, In a l /\ ~ has_p ps (i_height a)) /\ check_params_range ps l = Error 1).
Proof.
  induction l as [|a l IH]; cbn [check_params_range]; [left; split; [intros a []|reflexivity]|].
  destruct (get_params ps (i_height a)) as [p|c] eqn:E; cbn [bind].
  - destruct IH as [[H1 H2]|[(x & Hx & Hn) H2]].
    + left. split; [|exact H2]. intros x [<-|Hx]; [exists p; exact E|apply H1; exact Hx].
    + right. split; [|exact H2]. exists x. split; [right; exact Hx|exact Hn].
  - right. rewrite (get_params_error _ _ _ E). split; [|reflexivity]. exists a. split; [left; reflexivity|].
    intros (p & Hp). rewrite E in Hp. discriminate.
Qed.
Lemma check_heights_char : forall ps count from,
  ((forall i, (i < count)%nat -> has_p ps (from + N.of_nat i)) /\ check_heights ps from count = Ok tt) \/
  ((exists i, (i < count)%nat /\ ~ has_p ps (from + N.of_nat i)) /\ check_heights ps from count = Error 1).
Proof.
  induction count as [|c IH]; intros from; cbn [check_heights]; [left; split; [intros i Hi; lia|reflexivity]|].
  destruct (get_params ps from) as [p|e] eqn:E; cbn [bind].
  - destruct (IH (from + 1)) as [[H1 H2]|[(i & Hi & Hn) H2]].
    + left. split; [|exact H2]. intros i Hi. destruct i as [|i]; [rewrite N.add_0_r; exists p; exact E|].
      replace (from + N.of_nat (S i)) with (from + 1 + N.of_nat i) by lia. apply H1. lia.
    + right. split; [|exact H2]. exists (S i). split; [lia|]. replace (from + N.of_nat (S i)) with (from + 1 + N.of_nat i) by lia. exact Hn.
  - right. rewrite (get_params_error _ _ _ E). split; [|reflexivity]. exists 0%nat. split; [lia|]. rewrite N.add_0_r.
    intros (p & Hp). rewrite E in Hp. discriminate.
Qed.

Lemma hts_oldest : forall l tip, hts l tip -> l <> [] -> oldest_height l + N.of_nat (length l) = tip + 1.
Proof.
  intros l tip H Hne. unfold oldest_height. destruct (rev l) as [|o r'] eqn:Er.
  - exfalso. apply Hne. rewrite <- (rev_involutive l), Er. reflexivity.
  - assert (Ho : nth_error l (length l - 1) = Some o).
    { assert (l = rev r' ++ [o]) as -> by (rewrite <- (rev_involutive l), Er; reflexivity).
      rewrite app_length. cbn [length]. rewrite nth_error_app2 by lia.
      replace (length (rev r') + 1 - 1 - length (rev r'))%nat with 0%nat by lia. reflexivity. }
    pose proof (H _ _ Ho). assert (0 < length l)%nat by (destruct l; [congruence|cbn; lia]). lia.
Qed.

Lemma cache32_agrees : forall ps l tip, hts l tip -> l <> [] -> tip < M32 - 1 ->
  cache32 ps (oldest_height l) (newest_height l) = check_params_range ps l.
Proof.
  intros ps l tip H Hne Htip. pose proof (hts_oldest l tip H Hne) as Hold.
  assert (Hnew : newest_height l = tip).
  { destruct l as [|x l]; [congruence|]. cbn [newest_height]. pose proof (H 0%nat x eq_refl). lia. }
  assert (Hin : forall h, has_p ps h -> True) by auto.
  (* heights of the entries = the interval [oldest, tip] *)
  assert (Hrange : forall i, (i < length l)%nat -> exists a, In a l /\ i_height a = oldest_height l + N.of_nat i).
  { intros i Hi. assert (Hlt : (length l - 1 - i < length l)%nat) by lia. apply nth_error_Some in Hlt.
    destruct (nth_error l (length l - 1 - i)) as [a|] eqn:Ea; [|congruence]. exists a. split; [eapply nth_error_In; exact Ea|].
    pose proof (H _ _ Ea). lia. }
  assert (Hentry : forall a, In a l -> exists i, (i < length l)%nat /\ i_height a = oldest_height l + N.of_nat i).
  { intros a Ha. apply In_nth_error in Ha. destruct Ha as [j Hj]. pose proof (H _ _ Hj).
    assert (j < length l)%nat by (apply nth_error_Some; congruence). exists (length l - 1 - j)%nat. split; lia. }
  unfold cache32. rewrite Hnew. assert (tip =? M32 - 1 = false) as -> by lia.
  replace (N.to_nat (tip + 1 - oldest_height l)) with (length l) by lia.
  destruct (check_params_range_char ps l) as [[A1 A2]|[(a & Ha & Hn) A2]]; rewrite A2.
  - assert (Hfirst : has_p ps (oldest_height l)).
    { destruct (Hrange 0%nat) as (a & Ha & Hah); [destruct l; [congruence|cbn; lia]|]. rewrite N.add_0_r in Hah. rewrite <- Hah. apply A1; exact Ha. }
    destruct Hfirst as (p & Hp). rewrite Hp. cbn [bind]. destruct (0 <? oldest_height l); cbn [bind];
      (destruct (check_heights_char ps (length l) (oldest_height l)) as [[B1 B2]|[(i & Hi & Hn) B2]]; [exact B2|];
       exfalso; apply Hn; destruct (Hrange i Hi) as (a & Ha & Hah); rewrite <- Hah; apply A1; exact Ha).
  - destruct (Hentry a Ha) as (i & Hi & Hah).
    destruct (get_params ps (oldest_height l)) as [p|c] eqn:Ep.
    + cbn [bind]. destruct (0 <? oldest_height l); cbn [bind];
        (destruct (check_heights_char ps (length l) (oldest_height l)) as [[B1 B2]|[_ B2]]; [|exact B2];
         exfalso; apply Hn; rewrite Hah; apply B1; exact Hi).
    + rewrite (get_params_error _ _ _ Ep). destruct (0 <? oldest_height l); cbn [bind]; [reflexivity|].
      destruct (check_heights_char ps (length l) (oldest_height l)) as [[B1 B2]|[_ B2]]; [|exact B2].
      exfalso. destruct (B1 0%nat) as (p & Hp); [destruct l; [congruence|cbn; lia]|]. rewrite N.add_0_r, Ep in Hp. discriminate.
Qed.

(* first_with cannot fail once the parameters of every entry exist; weights only matter for successful steps *)
Lemma first_with_total : forall ps sel get l, (forall a, In a l -> has_p ps (i_height a)) -> exists o, first_with ps sel get l = Ok o.
Proof.
  induction l as [|a l IH]; intros H; cbn [first_with]; [eauto|].
  destruct (H a (or_introl eq_refl)) as (p & ->). cbn [bind]. destruct (sel p <=? get a); [eauto|].
  apply IH. intros x Hx. apply H. right; exact Hx.
Qed.

Lemma In_firstn_in' : forall {A} n (x : A) (l : list A) a, In a (firstn n (x :: l)) -> a = x \/ In a l.
Proof.
  intros A n x l a H. destruct n as [|n]; [contradiction|]. cbn [firstn] in H. destruct H as [<-|H]; [left; reflexivity|right].
  revert l H. induction n as [|n IH]; intros l H; [contradiction|]. destruct l as [|y l]; [contradiction|].
  destruct H as [<-|H]; [left; reflexivity|right; apply IH; exact H].
Qed.

(* ------------------------------------------------------------------ BeforeTransactionsExecute *)
Definition cert_ok (b : hdr) : Prop := match h_cert b with Some h => h + 1 < M32 | None => True end.

Lemma before_txs32_agrees : forall batch s b tip, (0 < batch)%nat ->
  hts (window s) tip -> h_height b = tip + 1 -> tip + 1 < M32 - 1 ->
  (forall e, In e (window s) -> small e /\ 1 <= i_height e) ->
  (forall vi, In vi (v_act (s_votes s)) -> a_lhp vi + 1 < M32) ->
  v_mhc (s_votes s) + 1 < M32 -> cert_ok b ->
  (forall s1, before_txs batch s b = Ok s1 -> forall e, In e (window s1) -> small e) ->
  before_txs32 batch s b = before_txs batch s b.
Proof.
  intros batch s b tip Hb Hh Hbh Htip Hwin Hact Hmhc Hcert Hsmall.
  pose proof Hsmall as Hsmall'. unfold before_txs32. unfold before_txs in Hsmall' |- *. fold (window s) in *.
  set (infos := insert_info (window s) b (3 * batch)) in *.
  assert (Hh1 : hts infos (tip + 1)) by (unfold infos, insert_info; apply hts_firstn; apply hts_cons; assumption).
  assert (Hne : infos <> []) by (unfold infos, insert_info; destruct (3 * batch)%nat eqn:E; [lia|cbn [firstn]; discriminate]).
  assert (Hin0 : forall a, In a infos -> a = new_info b \/ In a (window s)).
  { intros a Ha. unfold infos, insert_info in Ha. apply In_firstn_in' in Ha. exact Ha. }
  rewrite (cache32_agrees (s_params s) infos (tip + 1) Hh1 Hne ltac:(lia)).
  destruct (check_params_range_char (s_params s) infos) as [[Hall Ec]|[_ Ec]]; rewrite Ec in *; cbn [bind] in *; [|reflexivity].
  assert (Hs0 : forall e, In e infos -> small e).
  { intros e He. destruct (Hin0 e He) as [->|H]; [split; cbn [new_info i_pv i_pc]; unfold M64; lia|apply Hwin; exact H]. }
  assert (Hh0 : forall a, In a infos -> 1 <= i_height a < M32 - 1).
  { intros a Ha. pose proof (hts_in_le _ _ _ Hh1 Ha) as Hle. destruct (Hin0 a Ha) as [->|Hw]; [cbn [new_info i_height]; lia|]. destruct (Hwin a Hw). lia. }
  rewrite (update_votes32_wrap (s_params s) infos (v_act (s_votes s)) Hs0 Hh0 Hact).
  2:{ intros nw tl E a Ha. pose proof (hts_in_le _ _ _ Hh1 Ha). rewrite E in Hh1. pose proof (Hh1 0%nat nw eq_refl). lia. }
  destruct (update_votes (s_params s) infos (v_act (s_votes s))) as [[r act']|c] eqn:Eu; cbn [bind lift fst snd] in *; [|reflexivity].
  assert (Hd : desc infos) by (eapply hts_desc; exact Hh1).
  pose proof (votes_rule_grows _ _ _ _ (update_votes_rule _ _ _ _ _ Hd Eu)) as G.
  assert (Hpr : forall a, In a r -> has_p (s_params s) (i_height a)).
  { intros a' Ha'. apply In_nth_error in Ha'. destruct Ha' as [j Hj]. destruct (grows_nth _ _ G j a' Hj) as (a & Ha & (E & _)).
    rewrite <- E. apply Hall. eapply nth_error_In; exact Ha. }
  destruct (first_with_total (s_params s) p_pv i_pv r Hpr) as (o1 & E1).
  destruct (first_with_total (s_params s) p_pc i_pc r Hpr) as (o2 & E2).
  rewrite E1, E2 in Hsmall'. cbn [bind] in Hsmall'.
  assert (Hr : forall e, In e r -> small e) by (intros e He; apply (Hsmall' _ eq_refl e He)).
  rewrite (map_wrap_small r Hr). rewrite E1, E2. cbn [bind].
  assert (Hm : u32 (match h_cert b with Some h => h | None => v_mhc (s_votes s) end + 1) =
               match h_cert b with Some h => h | None => v_mhc (s_votes s) end + 1).
  { apply u32_small. unfold cert_ok in Hcert. destruct (h_cert b); assumption. }
  rewrite Hm. reflexivity.
Qed.

(* ------------------------------------------------------------------ SetBFTParameters *)
Lemma agg32_char : forall vals0 acc, acc + total_weight vals0 < M64 ->
  agg32 vals0 acc = if existsb (fun x => snd x =? 0) vals0 then Error 11 else Ok (acc + total_weight vals0).
Proof.
  induction vals0 as [|x tl IH]; intros acc H; unfold total_weight in H; cbn [agg32 existsb total_weight fold_right] in *.
  - rewrite N.add_0_r. reflexivity.
  - fold (total_weight tl) in *. destruct (snd x =? 0) eqn:E; [reflexivity|]. cbn [orb].
    rewrite (u64_small (acc + snd x)) by lia. assert (acc + snd x <? acc = false) as -> by lia.
    rewrite IH by lia. destruct (existsb _ tl); [reflexivity|]. f_equal. lia.
Qed.

Lemma set_params32_agrees : forall batch s pcT certT vals0,
  total_weight vals0 < M64 -> current_height (s_votes s) + 1 < M32 ->
  set_params32 batch s pcT certT vals0 = set_params batch s pcT certT vals0.
Proof.
  intros batch s pcT certT vals0 HW Hcur. unfold set_params32, set_params.
  destruct (Nat.ltb batch (length vals0)); [reflexivity|].
  rewrite agg32_char by lia. rewrite N.add_0_l. destruct (existsb _ vals0); [reflexivity|]. cbn [bind].
  set (W := total_weight vals0) in *.
  assert (Hpv : u64 (W / 3 * 2 + W mod 3 * 2 / 3 + 1) = W * 2 / 3 + 1).
  { rewrite u64_small; unfold M64 in *; lia. }
  rewrite Hpv. rewrite (u32_small (current_height (s_votes s) + 1)) by exact Hcur.
  rewrite (sub32_small (current_height (s_votes s) + 1) 1) by lia. reflexivity.
Qed.

(* ------------------------------------------------------------------ whole blocks and runs *)
Definition chg_ok (x : block) : Prop := match snd x with Some c => total_weight (c_vals c) < M64 | None => True end.

(* the state bounds under which the next block is processed identically *)
Record B32 (tip : N) (s : store) : Prop := {
  b_good : good tip s;
  b_win : forall e, In e (window s) -> small e /\ 1 <= i_height e;
  b_act : forall vi, In vi (v_act (s_votes s)) -> a_lhp vi + 1 < M32;
  b_mhc : v_mhc (s_votes s) + 1 < M32;
}.

(* the stored weights of the UNBOUNDED run stay below 2^64 after every BeforeTransactionsExecute *)
Fixpoint small_run (batch : nat) (s : store) (K : list block) : Prop :=
  match K with
  | [] => True
  | x :: tl =>
    match before_txs batch s (fst x) with
    | Ok s1 => (forall e, In e (window s1) -> small e) /\
               match apply_block batch s x with Ok s' => small_run batch s' tl | Error _ => True end
    | Error _ => True
    end
  end.

Lemma in_set_lhp : forall act g h y, In y (set_lhp act g h) -> In y act \/ a_lhp y = h.
Proof.
  induction act as [|x act IH]; intros g h y H; cbn [set_lhp] in H; [contradiction|].
  destruct (a_addr x =? g); [destruct H as [<-|H]; [right; reflexivity|left; right; exact H]|].
  destruct H as [<-|H]; [left; left; reflexivity|]. destruct (IH _ _ _ H); [left; right; assumption|right; assumption].
Qed.
Lemma in_insert_act : forall x l y, In y (insert_act_desc x l) -> y = x \/ In y l.
Proof.
  induction l as [|z l IH]; intros y H; cbn [insert_act_desc] in H; [destruct H as [<-|[]]; left; reflexivity|].
  destruct (a_addr z <? a_addr x); [destruct H as [<-|H]; [left; reflexivity|right; exact H]|].
  destruct H as [<-|H]; [right; left; reflexivity|]. destruct (IH _ H); [left; assumption|right; right; assumption].
Qed.
Lemma find_active_in : forall l g y, find_active l g = Some y -> In y l.
Proof.
  induction l as [|x l IH]; intros g y H; cbn [find_active] in H; [discriminate|].
  destruct (a_addr x =? g); [injection H as <-; left; reflexivity|right; eapply IH; exact H].
Qed.

Lemma update_votes_act_bound : forall ps infos act r act' B,
  update_votes ps infos act = Ok (r, act') -> (forall a, In a infos -> i_height a <= B) ->
  (forall vi, In vi act -> a_lhp vi <= B) -> forall vi, In vi act' -> a_lhp vi <= B.
Proof.
  intros ps infos act r act' B H Hh Hact. unfold update_votes in H. destruct infos as [|nw tl]; [injection H as _ <-; exact Hact|].
  destruct (i_height nw <=? i_mhg nw); [injection H as _ <-; exact Hact|].
  destruct (find_active act (i_gen nw)) as [vi|]; [|injection H as _ <-; exact Hact].
  destruct (precommit_loop ps (i_gen nw) _ (nw :: tl) None) as [[mid f]|c] eqn:Epc; cbn [bind] in H; [|discriminate].
  cbn [fst snd] in H. destruct (prevote_loop ps (i_gen nw) _ mid) as [r'|c]; cbn [bind] in H; [|discriminate].
  injection H as _ <-. destruct f as [h|]; [|exact Hact].
  intros y Hy. apply in_set_lhp in Hy. destruct Hy as [Hy|Hy]; [apply Hact; exact Hy|]. rewrite Hy.
  (* h is the height of some window entry *)
  assert (G : forall l f0 r0 f1, precommit_loop ps (i_gen nw) (Nmax3 (a_min vi) (height_not_prevoted (nw :: tl) + 1) (a_lhp vi + 1)) l f0 = Ok (r0, f1) ->
              forall h1, f1 = Some h1 -> f0 = Some h1 \/ exists a, In a l /\ i_height a = h1).
  { induction l as [|a l IH]; intros f0 r0 f1 E h1 Hf; cbn [precommit_loop] in E; [injection E as _ <-; left; exact Hf|].
    destruct (i_height a <? _); [injection E as _ <-; left; exact Hf|].
    destruct (get_params ps (i_height a)) as [p|c]; cbn [bind] in E; [|discriminate].
    destruct (p_pv p <=? i_pv a).
    - destruct (find_weight (p_vals p) (i_gen nw)); [|discriminate].
      destruct (precommit_loop ps (i_gen nw) _ l _) as [[r1 f2]|c] eqn:E2; cbn [bind] in E; [|discriminate].
      cbn [fst snd] in E. injection E as _ <-. destruct (IH _ _ _ E2 h1 Hf) as [E3|(x & Hx & Hxh)].
      + destruct f0 as [h0|]; [left; exact E3|]. injection E3 as <-. right. exists a. split; [left; reflexivity|reflexivity].
      + right. exists x. split; [right; exact Hx|exact Hxh].
    - destruct (precommit_loop ps (i_gen nw) _ l f0) as [[r1 f2]|c] eqn:E2; cbn [bind] in E; [|discriminate].
      cbn [fst snd] in E. injection E as _ <-. destruct (IH _ _ _ E2 h1 Hf) as [E3|(x & Hx & Hxh)]; [left; exact E3|].
      right. exists x. split; [right; exact Hx|exact Hxh]. }
  destruct (G _ _ _ _ Epc h eq_refl) as [E|(a & Ha & <-)]; [discriminate|]. apply Hh; exact Ha.
Qed.

Lemma apply_block32_agrees : forall batch s x tip, (0 < batch)%nat -> B32 tip s ->
  h_height (fst x) = tip + 1 -> tip + 1 < M32 - 1 -> cert_ok (fst x) -> chg_ok x ->
  (forall s1, before_txs batch s (fst x) = Ok s1 -> forall e, In e (window s1) -> small e) ->
  apply_block32 batch s x = apply_block batch s x /\
  forall s', apply_block batch s x = Ok s' -> B32 (tip + 1) s'.
Proof.
  intros batch s [b chg] tip Hb [Hg Hwin Hact Hmhc] Hbh Htip Hcert Hchg Hsm. cbn [fst snd] in *.
  pose proof Hg as (HI & Hmp & Hmpc). pose proof (inv_hts _ _ HI) as Hh.
  unfold apply_block32, apply_block.
  rewrite (before_txs32_agrees batch s b tip Hb Hh Hbh Htip Hwin Hact Hmhc Hcert Hsm).
  destruct (before_txs batch s b) as [s1|c] eqn:Ebt; cbn [bind]; [|split; [reflexivity|intros s' H; discriminate]].
  destruct (before_txs_step _ _ _ _ _ Hb HI Hbh Hmp Hmpc Ebt) as (HI1 & Hm1 & Hm2 & Hrule & _).
  destruct (before_txs_window _ _ _ _ Ebt) as (r & act' & pv & pcx & Hu & Hw & Hact1 & _ & _ & _ & _ & Hmhc1 & _).
  assert (Hcur : current_height (s_votes s1) + 1 < M32) by (rewrite (inv_cur _ _ HI1); lia).
  (* bounds of s1 *)
  assert (Hh0 : hts (insert_info (window s) b (3 * batch)) (tip + 1)) by (unfold insert_info; apply hts_firstn; apply hts_cons; assumption).
  assert (B1 : B32 (tip + 1) s1).
  { constructor.
    - split; [exact HI1|lia].
    - intros e He. split; [apply (Hsm s1 eq_refl e He)|].
      pose proof (votes_rule_grows _ _ _ _ Hrule) as G. apply In_nth_error in He. destruct He as [j Hj].
      destruct (grows_nth _ _ G j e Hj) as (a & Ha & (E & _)). rewrite <- E. apply nth_error_In in Ha.
      unfold insert_info in Ha. apply In_firstn_in' in Ha. destruct Ha as [->|Ha]; [cbn [new_info i_height]; lia|apply Hwin; exact Ha].
    - rewrite Hact1. intros vi Hvi.
      assert (a_lhp vi <= M32 - 2); [|lia].
      apply (update_votes_act_bound _ _ _ _ _ (M32 - 2) Hu); [| |exact Hvi].
      + intros a Ha. pose proof (hts_in_le _ _ _ Hh0 Ha). lia.
      + intros v0 Hv0. specialize (Hact v0 Hv0). lia.
    - rewrite Hmhc1. unfold cert_ok in Hcert. destruct (h_cert b); assumption. }
  destruct chg as [cc|]; [|split; [reflexivity|intros s' H; injection H as <-; exact B1]].
  unfold chg_ok in Hchg. cbn [snd] in Hchg. split; [apply set_params32_agrees; assumption|].
  intros s' Hsp. destruct B1 as [Hg1 Hwin1 Hact1' Hmhc1'].
  destruct (set_params_step _ _ _ _ _ _ _ HI1 Hsp) as (HI2 & Ew & E1 & E2 & E3 & _).
  constructor.
  - destruct Hg1 as (_ & A & B). split; [exact HI2|rewrite E1, E2; split; assumption].
  - rewrite Ew. exact Hwin1.
  - unfold set_params in Hsp.
    destruct (Nat.ltb batch (length (c_vals cc))); [discriminate|]. destruct (existsb _ (c_vals cc)); [discriminate|].
    destruct (_ || _); [discriminate|]. destruct (_ || _); [discriminate|].
    match type of Hsp with (if ?c then _ else _) = _ => destruct c end; [injection Hsp as <-; exact Hact1'|].
    injection Hsp as <-. cbn [s_votes v_act]. rewrite (inv_cur _ _ HI1).
    generalize (sort_desc (c_vals cc)). induction l as [|z l IH]; cbn [fold_right]; [intros vi []|].
    intros vi Hvi. apply in_insert_act in Hvi. destruct Hvi as [->|Hvi]; [|apply IH; exact Hvi].
    destruct (find_active (v_act (s_votes s1)) (fst z)) as [a|] eqn:Ea; [apply Hact1'; eapply find_active_in; exact Ea|].
    cbn [a_lhp]. lia.
  - rewrite E3. exact Hmhc1'.
Qed.

(* MAIN: below the bounds the wrap-faithful model and the unbounded model coincide on whole runs *)
Theorem votes32_agrees_from : forall batch K s tip, (0 < batch)%nat -> B32 tip s ->
  consecutive tip K -> tip + N.of_nat (length K) < M32 - 1 ->
  (forall x, In x K -> cert_ok (fst x) /\ chg_ok x) ->
  small_run batch s K ->
  run_blocks32 batch s K = run_blocks batch s K.
Proof.
  intros batch K. induction K as [|x K IH]; intros s tip Hb HB Hc Hlen Hok Hsm; [reflexivity|].
  cbn [run_blocks32 run_blocks]. destruct x as [b chg]. destruct Hc as [Hbh Hc]. cbn [length] in Hlen.
  destruct (Hok (b, chg) (or_introl eq_refl)) as [Hcert Hchg].
  assert (Hsm1 : forall s1, before_txs batch s b = Ok s1 -> forall e, In e (window s1) -> small e).
  { intros s1 E. cbn [small_run fst] in Hsm. rewrite E in Hsm. apply Hsm. }
  destruct (apply_block32_agrees batch s (b, chg) tip Hb HB Hbh ltac:(lia) Hcert Hchg Hsm1) as [Eq Hnext].
  rewrite Eq. destruct (apply_block batch s (b, chg)) as [s'|c] eqn:Ea; cbn [bind]; [|reflexivity].
  apply (IH s' (tip + 1) Hb (Hnext s' eq_refl) Hc); [lia|intros y Hy; apply Hok; right; exact Hy|].
  cbn [small_run fst] in Hsm. destruct (before_txs batch s b) as [s1|c] eqn:Eb.
  - destruct Hsm as [_ Hsm]. rewrite Ea in Hsm. exact Hsm.
  - unfold apply_block in Ea. rewrite Eb in Ea. discriminate.
Qed.

(* ------------------------------------------------------------------ from genesis *)
Lemma init32_agrees : forall batch gh c, total_weight (c_vals c) < M64 -> gh + 1 < M32 ->
  init_store32 batch gh c = init_store batch gh c.
Proof. intros batch gh c HW Hg. unfold init_store32, init_store. apply set_params32_agrees; [exact HW|exact Hg]. Qed.

Lemma init_B32 : forall batch gh c s0, init_store batch gh c = Ok s0 -> gh + 1 < M32 -> B32 gh s0.
Proof.
  intros batch gh c s0 H Hg. pose proof (init_good _ _ _ _ H) as Hgood.
  unfold init_store in H. destruct (set_params_step _ _ _ _ _ _ _ (genesis_inv gh) H) as (_ & Ew & _ & _ & E3 & _).
  constructor.
  - exact Hgood.
  - rewrite Ew. intros e [].
  - unfold set_params in H.
    destruct (Nat.ltb batch (length (c_vals c))); [discriminate|]. destruct (existsb _ (c_vals c)); [discriminate|].
    destruct (_ || _); [discriminate|]. destruct (_ || _); [discriminate|].
    match type of H with (if ?c then _ else _) = _ => destruct c end; [injection H as <-; intros vi []|].
    injection H as <-. cbn [s_votes v_act genesis_store current_height v_infos v_mhp find_active].
    generalize (sort_desc (c_vals c)). induction l as [|z l IH]; cbn [fold_right]; [intros vi []|].
    intros vi Hvi. apply in_insert_act in Hvi. destruct Hvi as [->|Hvi]; [cbn [a_lhp]; lia|apply IH; exact Hvi].
  - rewrite E3. cbn. exact Hg.
Qed.

(* votes32_agrees: on every chain of consecutive heights that stays <= 2^32-2, whose certificate heights stay <= 2^32-2,
   whose validator sets have aggregate weight < 2^64, and along which the stored vote weights (of the unbounded model)
   stay < 2^64, the wrap-faithful model computes exactly what BFT/Votes.v computes -- results AND error codes. *)
Theorem votes32_agrees : forall batch gh c s0 K, (0 < batch)%nat ->
  init_store batch gh c = Ok s0 -> total_weight (c_vals c) < M64 ->
  consecutive gh K -> gh + N.of_nat (length K) < M32 - 1 ->
  (forall x, In x K -> cert_ok (fst x) /\ chg_ok x) ->
  small_run batch s0 K ->
  init_store32 batch gh c = Ok s0 /\ run_blocks32 batch s0 K = run_blocks batch s0 K.
Proof.
  intros batch gh c s0 K Hb Hi HW Hc Hlen Hok Hsm. split.
  - rewrite init32_agrees; [exact Hi|exact HW|lia].
  - apply (votes32_agrees_from batch K s0 gh Hb); auto. apply (init_B32 batch gh c s0 Hi). lia.
Qed.

(* ------------------------------------------------------------------ valid chains: the weight condition is automatic *)
From LE Require Import BFT.Safety BFT.VotesGhost BFT.VotesGhostDyn BFT.SafetyInst.

Definition PW (s : store) : Prop := forall k p, In (k, p) (s_params s) -> total_weight (p_vals p) < M64.

Lemma set_params_vals : forall batch s pcT certT vals0 s', set_params batch s pcT certT vals0 = Ok s' ->
  forall k p, In (k, p) (s_params s') -> In (k, p) (s_params s) \/ p_vals p = sort_desc vals0.
Proof.
  intros batch s pcT certT vals0 s' H k p Hin. unfold set_params in H.
  destruct (Nat.ltb batch (length vals0)); [discriminate|]. destruct (existsb _ vals0); [discriminate|].
  destruct (_ || _); [discriminate|]. destruct (_ || _); [discriminate|].
  match type of H with (if ?c then _ else _) = _ => destruct c end; [injection H as <-; left; exact Hin|].
  injection H as <-. cbn [s_params] in Hin. apply insert_in in Hin. destruct Hin as [E|Hin]; [injection E as _ ->; right; reflexivity|left; exact Hin].
Qed.

Lemma dinv_small : forall batch gh s0 K s, DInv batch gh s0 K s -> PW s -> forall e, In e (window s) -> small e.
Proof.
  intros batch gh s0 K s HC HP e He. destruct (di_pok _ _ _ _ _ HC e He) as (p & Hp).
  destruct (get_params_in _ _ _ Hp) as (k & Hk). specialize (HP k p Hk).
  destruct (di_pv _ _ _ _ _ HC e p He Hp) as (L1 & S1 & N1 & _). destruct (di_pc _ _ _ _ _ HC e p He Hp) as (L2 & S2 & N2 & _).
  pose proof (wsum_le_total (p_vals p) _ N1). pose proof (wsum_le_total (p_vals p) _ N2). split; lia.
Qed.

Lemma valid_small_run : forall batch gh c s0, (0 < batch)%nat -> init_store batch gh c = Ok s0 ->
  forall K P s, viewD batch gh s0 P = Some s -> PW s -> validD batch gh s0 (P ++ K) ->
  (forall x, In x K -> chg_ok x) -> small_run batch s K.
Proof.
  intros batch gh c s0 Hb Hi. induction K as [|x K IH]; intros P s Hv HP Hval Hok; [exact I|].
  assert (Hpre : prefix (P ++ [x]) (P ++ x :: K)) by (exists K; rewrite <- app_assoc; reflexivity).
  unfold validD in Hval. destruct (viewD batch gh s0 (P ++ x :: K)) as [sf|] eqn:Ef; [|congruence].
  destruct (viewD_prefix batch Hb gh s0 _ _ sf Ef Hpre) as (s' & Hv').
  pose proof Hv' as Hsn. apply (viewD_snoc batch Hb) in Hsn. destruct Hsn as (s2 & Hv2 & Hstep). rewrite Hv in Hv2. injection Hv2 as <-.
  apply (stepD_some batch Hb) in Hstep. destruct Hstep as (Hh & Hbv & Hap).
  cbn [small_run]. destruct x as [b chg]. cbn [fst] in *. pose proof Hap as Hap'. unfold apply_block in Hap'.
  destruct (before_txs batch s b) as [s1|e] eqn:Ebt; cbn [bind] in Hap'; [|discriminate].
  pose proof (dinv_view batch Hb gh c s0 Hi P s Hv) as HC.
  pose proof (dinv_bt batch Hb gh s0 P s b chg s1 Hv HC Hh Hbv Ebt) as HC1.
  assert (HP1 : PW s1).
  { destruct (before_txs_window _ _ _ _ Ebt) as (r & act' & pv & pcx & _ & _ & _ & _ & _ & _ & _ & _ & Hps).
    intros k p Hin. rewrite Hps in Hin. apply prune_keys_subset in Hin. apply (HP k p Hin). }
  split; [apply (dinv_small batch gh s0 _ s1 HC1 HP1)|]. rewrite Hap.
  assert (HP' : PW s').
  { destruct chg as [cc|]; [|injection Hap' as <-; exact HP1].
    intros k p Hin. destruct (set_params_vals _ _ _ _ _ _ Hap' k p Hin) as [H|H]; [apply (HP1 k p H)|].
    rewrite H, total_weight_sort. pose proof (Hok (b, Some cc) (or_introl eq_refl)) as Hc. exact Hc. }
  apply (IH (P ++ [(b, chg)]) s' Hv' HP'); [|intros y Hy; apply Hok; right; exact Hy].
  unfold validD. rewrite <- app_assoc. cbn [app]. rewrite Ef. discriminate.
Qed.

Lemma heights_consecutive : forall K gh, (forall j x, nth_error K j = Some x -> h_height (fst x) = gh + N.of_nat j + 1) -> consecutive gh K.
Proof.
  induction K as [|[b ch] K IH]; intros gh H; [exact I|]. split.
  - pose proof (H 0%nat (b, ch) eq_refl) as E. cbn [fst] in E. lia.
  - apply IH. intros j x Hx. pose proof (H (S j) x Hx) as E. lia.
Qed.

(* for valid chains (bft_valid in every prefix view) no hypothesis on the stored weights is needed *)
Theorem votes32_agrees_valid : forall batch gh c s0 K, (0 < batch)%nat ->
  init_store batch gh c = Ok s0 -> total_weight (c_vals c) < M64 ->
  validD_decl batch gh s0 K -> gh + N.of_nat (length K) < M32 - 1 ->
  (forall x, In x K -> cert_ok (fst x) /\ chg_ok x) ->
  init_store32 batch gh c = Ok s0 /\ run_blocks32 batch s0 K = run_blocks batch s0 K.
Proof.
  intros batch gh c s0 K Hb Hi HW Hval Hlen Hok.
  assert (Hc : consecutive gh K).
  { apply heights_consecutive. intros j x Hx. destruct Hval as [Hall _]. apply (Hall j x Hx). }
  apply (votes32_agrees batch gh c s0 K Hb Hi HW Hc Hlen Hok).
  apply (valid_small_run batch gh c s0 Hb Hi K [] s0); [reflexivity| |apply (validD_spec batch Hb gh s0); exact Hval|intros x Hx; apply (Hok x Hx)].
  destruct (init_shape batch Hb gh c s0 Hi) as (Hps & _). intros k p Hin. rewrite Hps in Hin. destruct Hin as [E|[]].
  injection E as _ <-. unfold p0. cbn [p_vals]. rewrite total_weight_sort. exact HW.
Qed.

(* ------------------------------------------------------------------ ImpliesMaximalPrevotes *)
Theorem implies_max_prevotes32_agrees : forall v b, (forall nw tl, v_infos v = nw :: tl -> i_height nw < M32) ->
  implies_max_prevotes32 v b = implies_max_prevotes v b.
Proof.
  intros v b H. unfold implies_max_prevotes32, implies_max_prevotes. destruct (v_infos v) as [|nw tl] eqn:E; [reflexivity|].
  specialize (H nw tl eq_refl). destruct (negb (h_height b =? i_height nw)) eqn:E1; [reflexivity|].
  destruct (h_height b <=? h_mhg b) eqn:E2; [reflexivity|].
  assert (i_height nw <? h_mhg b = false) as -> by lia.
  rewrite (sub32_small (i_height nw) (h_mhg b)) by lia. reflexivity.
Qed.

Print Assumptions votes32_agrees.
Print Assumptions votes32_agrees_valid.

(* ================================================================== what goes wrong AT the bounds *)
Module AtTheBound.
  Definition c4 : pchange := {| c_pc := 3; c_cert := 3; c_vals := [(1, 1); (2, 1); (3, 1); (4, 1)] |}.
  Definition top : N := 4294967295.      (* 2^32 - 1 *)

  (* 1. tip = 2^32-2: the block of height 2^32-1 is processed by the unbounded model, but in the code the loop
        "for height := from; height <= to; height++" of paramsCache.cache never terminates (to = MaxUint32) *)
  Example refuted_block_at_max_height_hangs :
    exists s0, init_store 4 (top - 1) c4 = Ok s0 /\ init_store32 4 (top - 1) c4 = Ok s0 /\
      let b := {| h_height := top; h_gen := 1; h_mhg := 0; h_mhp := top - 1; h_cert := None |} in
      bft_valid s0 b = true /\ (exists s1, before_txs 4 s0 b = Ok s1) /\ before_txs32 4 s0 b = Error 99.
  Proof. eexists. split; [vm_compute; reflexivity|]. split; [vm_compute; reflexivity|]. split; [vm_compute; reflexivity|]. split; [eexists|]; vm_compute; reflexivity. Qed.

  (* 2. genesis height 2^32-1: nextHeight = currentHeight + 1 wraps to 0 -- the parameters are stored under key 0, every
        validator gets minActiveHeight 0 and largestHeightPrecommit 2^32-1 *)
  Example refuted_genesis_at_max_height_wraps :
    (exists s, init_store 4 top c4 = Ok s /\ map fst (s_params s) = [top + 1] /\ map a_min (v_act (s_votes s)) = [top + 1; top + 1; top + 1; top + 1]) /\
    (exists s, init_store32 4 top c4 = Ok s /\ map fst (s_params s) = [0] /\ map a_min (v_act (s_votes s)) = [0; 0; 0; 0] /\
               map a_lhp (v_act (s_votes s)) = [top; top; top; top]).
  Proof. split; eexists; (split; [vm_compute; reflexivity|]); repeat split; vm_compute; reflexivity. Qed.

  (* 3. aggregate weight 2^64: rejected by the code's overflow check, accepted by the unbounded model *)
  Example refuted_aggregate_weight_overflow :
    let c := {| c_pc := 9223372036854775808; c_cert := 9223372036854775808;
                c_vals := [(1, 9223372036854775808); (2, 9223372036854775808)] |} in
    (exists s, init_store 4 0 c = Ok s) /\ init_store32 4 0 c = Error 14.
  Proof. split; [eexists|]; vm_compute; reflexivity. Qed.

  (* 4. NextHeightBFTParameters(2^32-1): the range start height+1 wraps to 0 and the FIRST key is returned *)
  Example refuted_next_params_height_wraps :
    let ps := [(5, p0 c4)] in next_params_height ps top = None /\ next_params_height32 ps top = Some 5.
  Proof. split; vm_compute; reflexivity. Qed.

  (* the bounds of votes32_agrees are satisfiable: SafetyInst.Example's chain A *)
End AtTheBound.

Example votes32_agrees_hypotheses_satisfiable :
  (0 < 4)%nat /\ init_store 4 0 Example.ex_c = Ok Example.ex_s0 /\ total_weight (c_vals Example.ex_c) < M64 /\
  validD_decl 4 0 Example.ex_s0 Example.Ka /\ 0 + N.of_nat (length Example.Ka) < M32 - 1 /\
  (forall x, In x Example.Ka -> cert_ok (fst x) /\ chg_ok x) /\
  run_blocks32 4 Example.ex_s0 Example.Ka = run_blocks 4 Example.ex_s0 Example.Ka.
Proof.
  assert (Hv : validD_decl 4 0 Example.ex_s0 Example.Ka).
  { apply (validD_spec 4 ltac:(lia) 0 Example.ex_s0). unfold validD. vm_compute. discriminate. }
  assert (Hok : forall x, In x Example.Ka -> cert_ok (fst x) /\ chg_ok x).
  { intros x Hx. vm_compute in Hx. repeat (destruct Hx as [<-|Hx]; [split; exact I|]). contradiction. }
  split; [lia|]. split; [exact Example.ex_init|]. split; [vm_compute; reflexivity|]. split; [exact Hv|].
  split; [vm_compute; reflexivity|]. split; [exact Hok|].
  apply (votes32_agrees_valid 4 0 Example.ex_c Example.ex_s0 Example.Ka ltac:(lia) Example.ex_init); [vm_compute; reflexivity|exact Hv|vm_compute; reflexivity|exact Hok].
Qed.
Print Assumptions votes32_agrees_hypotheses_satisfiable.
