(* Proofs about the liskbft vote model (BFT/Votes.v): parameter lookup under pruning, window shape,
   weights only grow, heights are the maximal quorum entries and never decrease. *)
From Coq Require Import List NArith Bool Lia ZArith Arith.
From Coq Require Import ZifyBool ZifyN ZifyNat.
From LE Require Import BFT.Contradiction BFT.Votes.
Import ListNotations.
Local Open Scope N_scope.

(* ------------------------------------------------------------------ parameter store *)
Fixpoint keys_sorted (ps : list (N * params)) : Prop :=
  match ps with
  | [] => True
  | (k, _) :: tl => (forall k' p', In (k', p') tl -> k < k') /\ keys_sorted tl
  end.

Lemma lookup_le_app : forall l1 l2 h best,
  (forall k p, In (k, p) l1 -> k <= h) ->
  lookup_le (l1 ++ l2) h best = lookup_le l2 h (match rev l1 with (_, p) :: _ => Some p | [] => best end).
Proof.
  induction l1 as [|[k p] l1 IH]; intros l2 h best Hle; cbn [app lookup_le rev]; [reflexivity|].
  assert (Hk : k <= h) by (apply (Hle k p); left; reflexivity).
  destruct (k <=? h) eqn:E; [|lia].
  rewrite IH by (intros k' p' Hin; apply (Hle k' p'); right; exact Hin).
  destruct (rev l1) as [|[k2 p2] r] eqn:Er; cbn [app]; reflexivity.
Qed.

Lemma lookup_le_gt : forall l h best, (forall k p, In (k, p) l -> h < k) -> keys_sorted l -> lookup_le l h best = best.
Proof.
  destruct l as [|[k p] l]; intros h best Hgt _; cbn [lookup_le]; [reflexivity|].
  assert (h < k) by (apply (Hgt k p); left; reflexivity). destruct (k <=? h) eqn:E; [lia|reflexivity].
Qed.

Lemma sorted_split : forall ps m, keys_sorted ps ->
  ps = filter (fun kp => fst kp <=? m) ps ++ filter (fun kp => negb (fst kp <=? m)) ps.
Proof.
  induction ps as [|[k p] ps IH]; intros m Hs; cbn [filter app fst]; [reflexivity|].
  destruct Hs as [Hlt Hs]. destruct (k <=? m) eqn:E; cbn [negb app].
  - f_equal. apply IH; exact Hs.
  - assert (Hnone : filter (fun kp => fst kp <=? m) ps = []).
    { clear IH. induction ps as [|[k' p'] ps IH2]; cbn [filter fst]; [reflexivity|].
      assert (k < k') by (apply (Hlt k' p'); left; reflexivity).
      destruct (k' <=? m) eqn:E'; [lia|]. apply IH2.
      - intros k2 p2 Hin. apply (Hlt k2 p2). right; exact Hin.
      - destruct Hs as [_ Hs]; exact Hs. }
    rewrite Hnone. cbn [app]. f_equal.
    rewrite (IH m Hs) at 1. rewrite Hnone. reflexivity.
Qed.

Lemma filter_sorted : forall f ps, keys_sorted ps -> keys_sorted (filter f ps).
Proof.
  induction ps as [|[k p] ps IH]; intros Hs; cbn [filter]; [exact I|].
  destruct Hs as [Hlt Hs]. destruct (f (k, p)); [|apply IH; exact Hs].
  split; [|apply IH; exact Hs]. intros k' p' Hin. apply filter_In in Hin. apply (Hlt k' p'). tauto.
Qed.

Lemma prune_lookup : forall ps m h, keys_sorted ps -> m <= h ->
  lookup_le (prune_params ps m) h None = lookup_le ps h None.
Proof.
  intros ps m h Hs Hmh. unfold prune_params.
  set (le := filter (fun kp => fst kp <=? m) ps). set (gt := filter (fun kp => negb (fst kp <=? m)) ps).
  destruct (rev le) as [|[kl pl] r] eqn:Er; [reflexivity|].
  assert (Hsp := sorted_split ps m Hs). fold le gt in Hsp.
  transitivity (lookup_le (le ++ gt) h None); [|rewrite <- Hsp; reflexivity].
  rewrite lookup_le_app.
  - rewrite Er. cbn [lookup_le].
    assert (Hin : In (kl, pl) le) by (apply in_rev; rewrite Er; left; reflexivity).
    apply filter_In in Hin. cbn [fst] in Hin. destruct (kl <=? h) eqn:E; [reflexivity|lia].
  - intros k p Hin. apply filter_In in Hin. cbn [fst] in Hin. lia.
Qed.

Lemma prune_sorted : forall ps m, keys_sorted ps -> keys_sorted (prune_params ps m).
Proof.
  intros ps m Hs. unfold prune_params.
  destruct (rev (filter (fun kp => fst kp <=? m) ps)) as [|[kl pl] r] eqn:Er; [exact Hs|].
  split; [|apply filter_sorted; exact Hs].
  intros k' p' Hin. apply filter_In in Hin. cbn [fst] in Hin.
  assert (Hl : In (kl, pl) (filter (fun kp => fst kp <=? m) ps)) by (apply in_rev; rewrite Er; left; reflexivity).
  apply filter_In in Hl. cbn [fst] in Hl. lia.
Qed.

Lemma prune_keys_subset : forall ps m k p, In (k, p) (prune_params ps m) -> In (k, p) ps.
Proof.
  intros ps m k p. unfold prune_params.
  destruct (rev (filter (fun kp => fst kp <=? m) ps)) as [|[kl pl] r] eqn:Er; [tauto|].
  intros [Heq|Hin].
  - inversion Heq; subst.
    assert (Hl : In (k, p) (filter (fun kp => fst kp <=? m) ps)) by (apply in_rev; rewrite Er; left; reflexivity).
    apply filter_In in Hl. tauto.
  - apply filter_In in Hin. tauto.
Qed.

Lemma insert_lookup_below : forall ps k p h best, h < k -> keys_sorted ps ->
  lookup_le (insert_param ps k p) h best = lookup_le ps h best.
Proof.
  induction ps as [|[k' p'] ps IH]; intros k p h best Hlt Hs; cbn [insert_param lookup_le].
  - destruct (k <=? h) eqn:E; [lia|reflexivity].
  - destruct Hs as [Hk Hs]. destruct (k <? k') eqn:E1; cbn [lookup_le].
    + destruct (k <=? h) eqn:E; [lia|]. destruct (k' <=? h) eqn:E2; [lia|reflexivity].
    + destruct (k =? k') eqn:E2; cbn [lookup_le].
      * destruct (k <=? h) eqn:E; [lia|]. destruct (k' <=? h) eqn:E3; [lia|reflexivity].
      * destruct (k' <=? h) eqn:E3; [|reflexivity]. apply IH; assumption.
Qed.

Lemma insert_sorted : forall ps k p, keys_sorted ps -> keys_sorted (insert_param ps k p).
Proof.
  induction ps as [|[k' p'] ps IH]; intros k p Hs; cbn [insert_param].
  - split; [intros ? ? []|exact I].
  - destruct Hs as [Hk Hs]. destruct (k <? k') eqn:E1.
    + split; [|split; assumption]. intros k2 p2 [Heq|Hin]; [inversion Heq; subst; lia|]. specialize (Hk k2 p2 Hin). lia.
    + destruct (k =? k') eqn:E2.
      * split; [|exact Hs]. intros k2 p2 Hin. specialize (Hk k2 p2 Hin). lia.
      * split; [|apply IH; exact Hs]. intros k2 p2 Hin.
        assert (Hcases : (k2, p2) = (k, p) \/ In (k2, p2) ps).
        { clear -Hin. induction ps as [|[k3 p3] ps IH2]; cbn [insert_param] in Hin.
          - destruct Hin as [H|[]]; left; symmetry; exact H.
          - destruct (k <? k3); [destruct Hin as [H|H]; [left; symmetry; exact H|right; exact H]|].
            destruct (k =? k3); [destruct Hin as [H|H]; [left; symmetry; exact H|right; right; exact H]|].
            destruct Hin as [H|H]; [right; left; exact H|]. destruct (IH2 H); [left|right; right]; assumption. }
        destruct Hcases as [Heq|Hin2]; [inversion Heq; subst; lia|apply (Hk k2 p2 Hin2)].
Qed.

Lemma insert_lookup_at : forall ps k p h, k <= h -> keys_sorted ps ->
  (forall k' p', In (k', p') ps -> k' <= k) ->
  lookup_le (insert_param ps k p) h None = Some p.
Proof.
  intros ps k p h Hkh Hs Hmax.
  assert (G : forall best, lookup_le (insert_param ps k p) h best = Some p).
  { induction ps as [|[k' p'] ps IH]; intros best; cbn [insert_param lookup_le].
    - destruct (k <=? h) eqn:E; [reflexivity|lia].
    - destruct Hs as [Hk Hs]. assert (k' <= k) by (apply (Hmax k' p'); left; reflexivity).
      destruct (k <? k') eqn:E1; [lia|]. destruct (k =? k') eqn:E2; cbn [lookup_le].
      + destruct (k <=? h) eqn:E; [|lia].
        assert (ps = []) as ->.
        { destruct ps as [|[k3 p3] ps]; [reflexivity|]. exfalso.
          assert (k' < k3) by (apply (Hk k3 p3); left; reflexivity).
          assert (k3 <= k) by (apply (Hmax k3 p3); right; left; reflexivity). lia. }
        reflexivity.
      + destruct (k' <=? h) eqn:E3; [|lia]. apply IH; [exact Hs|].
        intros k2 p2 Hin. apply (Hmax k2 p2). right; exact Hin. }
  apply G.
Qed.

(* ------------------------------------------------------------------ window shape and growth *)
Fixpoint desc (l : list info) : Prop :=
  match l with
  | a :: (b :: _) as tl => i_height b < i_height a /\ desc tl
  | _ => True
  end.

Lemma desc_all_lt : forall l a, desc (a :: l) -> forall b, In b l -> i_height b < i_height a.
Proof.
  induction l as [|x l IH]; intros a Hd b Hin; [contradiction|].
  destruct Hd as [Hlt Hd]. destruct Hin as [<-|Hin]; [exact Hlt|].
  specialize (IH x Hd b Hin). lia.
Qed.
Lemma desc_tl : forall a l, desc (a :: l) -> desc l.
Proof. intros a [|b l] H; [exact I|]. destruct H; assumption. Qed.

Definition same_entry (a b : info) : Prop :=
  i_height a = i_height b /\ i_gen a = i_gen b /\ i_mhg a = i_mhg b /\ i_mhp a = i_mhp b /\
  i_pv a <= i_pv b /\ i_pc a <= i_pc b.
Definition grows (l l' : list info) : Prop := Forall2 same_entry l l'.

Lemma same_entry_refl : forall a, same_entry a a.
Proof. intros a. unfold same_entry. repeat split; lia. Qed.
Lemma grows_refl : forall l, grows l l.
Proof. induction l; constructor; auto using same_entry_refl. Qed.
Lemma same_entry_trans : forall a b c, same_entry a b -> same_entry b c -> same_entry a c.
Proof. unfold same_entry. intros a b c H1 H2. repeat split; try lia; destruct H1 as (?&?&?&?&?&?), H2 as (?&?&?&?&?&?); congruence. Qed.
Lemma grows_trans : forall l1 l2 l3, grows l1 l2 -> grows l2 l3 -> grows l1 l3.
Proof.
  intros l1 l2 l3 H. revert l3. induction H as [|a b l l' Hab H IH]; intros l3 H3; inversion H3; subst; constructor.
  - eapply same_entry_trans; eassumption.
  - apply IH; assumption.
Qed.
Lemma grows_desc : forall l l', grows l l' -> desc l -> desc l'.
Proof.
  intros l l' H. induction H as [|a b l l' Hab H IH]; intros Hd; [exact I|].
  destruct H as [|a2 b2 l2 l2' Hab2 H2]; [exact I|].
  destruct Hd as [Hlt Hd]. split; [|apply IH; exact Hd].
  destruct Hab as (?&_), Hab2 as (?&_). lia.
Qed.
Lemma grows_length : forall l l', grows l l' -> length l = length l'.
Proof. intros l l' H; induction H; cbn; congruence. Qed.

(* pointwise description of the prevote loop on a descending window *)
Definition pv_step (ps : list (N * params)) (g : addr) (m : N) (a b : info) : Prop :=
  if m <=? i_height a
  then exists p w, get_params ps (i_height a) = Ok p /\ find_weight (p_vals p) g = Some w /\ b = add_pv a w
  else b = a.

Lemma prevote_loop_spec : forall ps g m l r, desc l -> prevote_loop ps g m l = Ok r -> Forall2 (pv_step ps g m) l r.
Proof.
  induction l as [|a l IH]; intros r Hd H; cbn [prevote_loop] in H.
  - inversion H; constructor.
  - destruct (i_height a <? m) eqn:E.
    + inversion H; subst r. clear H IH.
      assert (Hall : forall b, In b (a :: l) -> i_height b < m).
      { intros b [<-|Hin]; [lia|]. pose proof (desc_all_lt _ _ Hd b Hin). lia. }
      clear Hd E. induction (a :: l) as [|x xs IHx]; constructor.
      * unfold pv_step. specialize (Hall x (or_introl eq_refl)). destruct (m <=? i_height x) eqn:E; [lia|reflexivity].
      * apply IHx. intros b Hin. apply Hall. right; exact Hin.
    + destruct (get_params ps (i_height a)) as [p|e] eqn:Ep; cbn [bind] in H; [|discriminate].
      destruct (find_weight (p_vals p) g) as [w|] eqn:Ew; [|discriminate].
      destruct (prevote_loop ps g m l) as [r'|e] eqn:Er; cbn [bind] in H; [|discriminate].
      inversion H; subst r. constructor.
      * unfold pv_step. destruct (m <=? i_height a) eqn:E2; [|lia]. exists p, w. auto.
      * apply IH; [eapply desc_tl; exact Hd|reflexivity].
Qed.

Lemma pv_step_same : forall ps g m a b, pv_step ps g m a b -> same_entry a b.
Proof.
  unfold pv_step. intros ps g m a b H. destruct (m <=? i_height a).
  - destruct H as (p & w & _ & _ & ->). unfold same_entry, add_pv; cbn. repeat split; lia.
  - subst; apply same_entry_refl.
Qed.

Lemma Forall2_impl : forall {A B} (P Q : A -> B -> Prop) l l', (forall a b, P a b -> Q a b) -> Forall2 P l l' -> Forall2 Q l l'.
Proof. intros A B P Q l l' Hi H. induction H; constructor; auto. Qed.

(* pointwise description of the precommit loop *)
Definition pc_step (ps : list (N * params)) (g : addr) (m : N) (a b : info) : Prop :=
  if m <=? i_height a
  then exists p, get_params ps (i_height a) = Ok p /\
       if p_pv p <=? i_pv a then exists w, find_weight (p_vals p) g = Some w /\ b = add_pc a w else b = a
  else b = a.

Lemma precommit_loop_spec : forall ps g m l f r f', desc l -> precommit_loop ps g m l f = Ok (r, f') ->
  Forall2 (pc_step ps g m) l r.
Proof.
  induction l as [|a l IH]; intros f r f' Hd H; cbn [precommit_loop] in H.
  - inversion H; constructor.
  - destruct (i_height a <? m) eqn:E.
    + inversion H; subst r f'. clear H IH.
      assert (Hall : forall b, In b (a :: l) -> i_height b < m).
      { intros b [<-|Hin]; [lia|]. pose proof (desc_all_lt _ _ Hd b Hin). lia. }
      clear Hd E. induction (a :: l) as [|x xs IHx]; constructor.
      * unfold pc_step. specialize (Hall x (or_introl eq_refl)). destruct (m <=? i_height x) eqn:E; [lia|reflexivity].
      * apply IHx. intros b Hin. apply Hall. right; exact Hin.
    + destruct (get_params ps (i_height a)) as [p|e] eqn:Ep; cbn [bind] in H; [|discriminate].
      destruct (p_pv p <=? i_pv a) eqn:Eq.
      * destruct (find_weight (p_vals p) g) as [w|] eqn:Ew; [|discriminate].
        destruct (precommit_loop ps g m l _) as [[r' f2]|e] eqn:Er; cbn [bind] in H; [|discriminate].
        cbn [fst snd] in H. inversion H; subst r f'. constructor.
        -- unfold pc_step. destruct (m <=? i_height a) eqn:E2; [|lia]. exists p. split; [exact Ep|]. rewrite Eq. exists w; auto.
        -- eapply IH; [eapply desc_tl; exact Hd|exact Er].
      * destruct (precommit_loop ps g m l f) as [[r' f2]|e] eqn:Er; cbn [bind] in H; [|discriminate].
        cbn [fst snd] in H. inversion H; subst r f'. constructor.
        -- unfold pc_step. destruct (m <=? i_height a) eqn:E2; [|lia]. exists p. split; [exact Ep|]. rewrite Eq. reflexivity.
        -- eapply IH; [eapply desc_tl; exact Hd|exact Er].
Qed.

Lemma pc_step_same : forall ps g m a b, pc_step ps g m a b -> same_entry a b.
Proof.
  unfold pc_step. intros ps g m a b H. destruct (m <=? i_height a).
  - destruct H as (p & _ & H). destruct (p_pv p <=? i_pv a).
    + destruct H as (w & _ & ->). unfold same_entry, add_pc; cbn. repeat split; lia.
    + subst; apply same_entry_refl.
  - subst; apply same_entry_refl.
Qed.

(* the whole vote update, as the property reads it: one block adds its generator's weight as a precommit to every
   window entry at or above minpc that already had a prevote quorum, then as a prevote to every entry at or above minpv *)
Definition votes_rule (ps : list (N * params)) (infos : list info) (act : list active) (r : list info) : Prop :=
  match infos with
  | [] => r = infos
  | nw :: _ =>
    if i_height nw <=? i_mhg nw then r = infos else
    match find_active act (i_gen nw) with
    | None => r = infos
    | Some vi =>
      let minpc := Nmax3 (a_min vi) (height_not_prevoted infos + 1) (a_lhp vi + 1) in
      let minpv := N.max (i_mhg nw + 1) (a_min vi) in
      exists mid, Forall2 (pc_step ps (i_gen nw) minpc) infos mid /\ Forall2 (pv_step ps (i_gen nw) minpv) mid r
    end
  end.

Lemma update_votes_rule : forall ps infos act r act', desc infos ->
  update_votes ps infos act = Ok (r, act') -> votes_rule ps infos act r.
Proof.
  intros ps infos act r act' Hd H. unfold update_votes in H. unfold votes_rule.
  destruct infos as [|nw tl]; [inversion H; reflexivity|].
  destruct (i_height nw <=? i_mhg nw); [inversion H; reflexivity|].
  destruct (find_active act (i_gen nw)) as [vi|]; [|inversion H; reflexivity].
  destruct (precommit_loop ps (i_gen nw) _ (nw :: tl) None) as [[mid f]|e] eqn:Epc; cbn [bind] in H; [|discriminate].
  cbn [fst snd] in H.
  destruct (prevote_loop ps (i_gen nw) _ mid) as [r'|e] eqn:Epv; cbn [bind] in H; [|discriminate].
  inversion H; subst r'. exists mid. split.
  - eapply precommit_loop_spec; eauto.
  - eapply prevote_loop_spec; [|exact Epv].
    eapply grows_desc; [|exact Hd]. eapply Forall2_impl; [apply pc_step_same|]. eapply precommit_loop_spec; eauto.
Qed.

Lemma votes_rule_grows : forall ps infos act r, votes_rule ps infos act r -> grows infos r.
Proof.
  intros ps infos act r H. unfold votes_rule in H. destruct infos as [|nw tl]; [subst; constructor|].
  destruct (i_height nw <=? i_mhg nw); [subst; apply grows_refl|].
  destruct (find_active act (i_gen nw)); [|subst; apply grows_refl].
  destruct H as (mid & H1 & H2). eapply grows_trans.
  - eapply Forall2_impl; [apply pc_step_same|exact H1].
  - eapply Forall2_impl; [apply pv_step_same|exact H2].
Qed.

(* ------------------------------------------------------------------ consecutive heights *)
Definition hts (l : list info) (tip : N) : Prop :=
  forall j bi, nth_error l j = Some bi -> i_height bi + N.of_nat j = tip.

Lemma hts_cons : forall l tip a, hts l tip -> i_height a = tip + 1 -> hts (a :: l) (tip + 1).
Proof.
  intros l tip a H Ha [|j] bi Hn; cbn [nth_error] in Hn.
  - inversion Hn; subst. lia.
  - specialize (H j bi Hn). lia.
Qed.
Lemma nth_error_firstn_some : forall {A} n (l : list A) j x, nth_error (firstn n l) j = Some x -> nth_error l j = Some x /\ (j < n)%nat.
Proof.
  induction n as [|n IH]; intros l j x H; [destruct j; discriminate|].
  destruct l as [|a l]; [destruct j; discriminate|]. destruct j as [|j]; cbn in *.
  - split; [exact H|lia].
  - destruct (IH l j x H). split; [assumption|lia].
Qed.
Lemma hts_firstn : forall n l tip, hts l tip -> hts (firstn n l) tip.
Proof. intros n l tip H j bi Hn. apply nth_error_firstn_some in Hn. apply H; tauto. Qed.
Lemma grows_nth : forall l l', grows l l' -> forall j b, nth_error l' j = Some b -> exists a, nth_error l j = Some a /\ same_entry a b.
Proof.
  intros l l' H; induction H as [|a b l l' Hab H IH]; intros j x Hn; [destruct j; discriminate|].
  destruct j as [|j]; cbn in *; [inversion Hn; subst; eauto|]. apply IH; exact Hn.
Qed.
Lemma grows_nth' : forall l l', grows l l' -> forall j a, nth_error l j = Some a -> exists b, nth_error l' j = Some b /\ same_entry a b.
Proof.
  intros l l' H; induction H as [|a b l l' Hab H IH]; intros j x Hn; [destruct j; discriminate|].
  destruct j as [|j]; cbn in *; [inversion Hn; subst; eauto|]. apply IH; exact Hn.
Qed.
Lemma hts_grows : forall l l' tip, grows l l' -> hts l tip -> hts l' tip.
Proof.
  intros l l' tip G H j b Hn. destruct (grows_nth _ _ G j b Hn) as (a & Ha & (Hh & _)). rewrite <- Hh. apply (H j a Ha).
Qed.
Lemma hts_desc : forall l tip, hts l tip -> desc l.
Proof.
  induction l as [|a l IH]; intros tip H; [exact I|]. destruct l as [|b l]; [exact I|]. split.
  - pose proof (H 0%nat a eq_refl). pose proof (H 1%nat b eq_refl). lia.
  - apply (IH (tip - 1)). intros j bi Hn. specialize (H (S j) bi Hn). lia.
Qed.
Lemma hts_unique : forall l tip a b, hts l tip -> In a l -> In b l -> i_height a = i_height b -> a = b.
Proof.
  intros l tip a b H Ha Hb Heq. apply In_nth_error in Ha, Hb. destruct Ha as [j Hj], Hb as [k Hk].
  pose proof (H j a Hj). pose proof (H k b Hk). assert (j = k) by lia. subst. congruence.
Qed.
Lemma hts_in_le : forall l tip a, hts l tip -> In a l -> i_height a <= tip.
Proof. intros l tip a H Ha. apply In_nth_error in Ha. destruct Ha as [j Hj]. specialize (H j a Hj). lia. Qed.

(* ------------------------------------------------------------------ first_with = highest quorum entry *)
Definition meets (ps : list (N * params)) (sel : params -> N) (get : info -> N) (bi : info) : Prop :=
  exists p, get_params ps (i_height bi) = Ok p /\ sel p <= get bi.

Lemma first_with_some : forall ps sel get l h, first_with ps sel get l = Ok (Some h) ->
  exists pre bi post, l = pre ++ bi :: post /\ i_height bi = h /\ meets ps sel get bi /\
                      forall x, In x pre -> ~ meets ps sel get x.
Proof.
  induction l as [|a l IH]; intros h H; cbn [first_with] in H; [discriminate|].
  destruct (get_params ps (i_height a)) as [p|e] eqn:Ep; cbn [bind] in H; [|discriminate].
  destruct (sel p <=? get a) eqn:E.
  - inversion H; subst. exists [], a, l. repeat split; [exists p; split; [exact Ep|lia]|intros x []].
  - destruct (IH h H) as (pre & bi & post & -> & Hh & Hm & Hpre). exists (a :: pre), bi, post. repeat split; auto.
    intros x [<-|Hin]; [|apply Hpre; exact Hin]. intros (p' & Hp' & Hle). rewrite Ep in Hp'. inversion Hp'; subst. lia.
Qed.
Lemma first_with_none : forall ps sel get l, first_with ps sel get l = Ok None -> forall x, In x l -> ~ meets ps sel get x.
Proof.
  induction l as [|a l IH]; intros H x Hin; [contradiction|]. cbn [first_with] in H.
  destruct (get_params ps (i_height a)) as [p|e] eqn:Ep; cbn [bind] in H; [|discriminate].
  destruct (sel p <=? get a) eqn:E; [discriminate|].
  destruct Hin as [<-|Hin]; [|apply IH; assumption]. intros (p' & Hp' & Hle). rewrite Ep in Hp'. inversion Hp'; subst. lia.
Qed.

(* the reported height is the LARGEST windowed height whose entry reaches the threshold in force at that height *)
Lemma first_with_is_max : forall ps sel get l h, desc l -> first_with ps sel get l = Ok (Some h) ->
  (exists bi, In bi l /\ i_height bi = h /\ meets ps sel get bi) /\
  (forall x, In x l -> meets ps sel get x -> i_height x <= h).
Proof.
  intros ps sel get l h Hd H. destruct (first_with_some _ _ _ _ _ H) as (pre & bi & post & -> & Hh & Hm & Hpre).
  split; [exists bi; split; [apply in_or_app; right; left; reflexivity|auto]|].
  intros x Hin Hx. apply in_app_or in Hin. destruct Hin as [Hin|[<-|Hin]]; [exfalso; eapply Hpre; eauto|lia|].
  assert (Hd2 : desc (bi :: post)).
  { clear -Hd. induction pre as [|a pre IH]; [exact Hd|]. apply IH. eapply desc_tl; exact Hd. }
  pose proof (desc_all_lt _ _ Hd2 x Hin). lia.
Qed.

(* ------------------------------------------------------------------ store invariant *)
Definition window (s : store) := v_infos (s_votes s).

(* [m] is either below the whole window, or the window entry at height [m] reaches its threshold *)
Definition quorum_inv (sel : params -> N) (get : info -> N) (s : store) (m : N) : Prop :=
  (forall bi, In bi (window s) -> m < i_height bi) \/
  (exists bi, In bi (window s) /\ i_height bi = m /\ meets (s_params s) sel get bi).

Record Inv (tip : N) (s : store) : Prop := {
  inv_sorted : keys_sorted (s_params s);
  inv_keys : forall k p, In (k, p) (s_params s) -> k <= tip + 1;
  inv_hts : hts (window s) tip;
  inv_cur : current_height (s_votes s) = tip;
  inv_mhp : quorum_inv p_pv i_pv s (v_mhp (s_votes s));
  inv_mhpc : quorum_inv p_pc i_pc s (v_mhpc (s_votes s));
}.

Lemma get_params_prune : forall ps m h, keys_sorted ps -> m <= h -> get_params (prune_params ps m) h = get_params ps h.
Proof. intros. unfold get_params. rewrite prune_lookup; auto. Qed.
Lemma get_params_insert : forall ps k p h, h < k -> keys_sorted ps -> get_params (insert_param ps k p) h = get_params ps h.
Proof. intros. unfold get_params. rewrite insert_lookup_below; auto. Qed.

Lemma oldest_height_le : forall l tip bi, hts l tip -> In bi l -> oldest_height l <= i_height bi.
Proof.
  intros l tip bi H Hin. unfold oldest_height. destruct (rev l) as [|x r] eqn:Er.
  - apply in_rev in Hin. rewrite Er in Hin. contradiction.
  - assert (Hx : nth_error l (length l - 1) = Some x).
    { assert (l = rev r ++ [x]) as -> by (rewrite <- (rev_involutive l), Er; reflexivity).
      rewrite app_length; cbn. rewrite nth_error_app2 by lia. replace (length (rev r) + 1 - 1 - length (rev r))%nat with 0%nat by lia. reflexivity. }
    apply In_nth_error in Hin. destruct Hin as [j Hj].
    assert (j < length l)%nat by (apply nth_error_Some; congruence).
    pose proof (H _ _ Hx). pose proof (H _ _ Hj). lia.
Qed.

Lemma classic_in_height : forall (l : list info) (m : N),
  (exists b, In b l /\ i_height b = m) \/ (forall b, In b l -> i_height b <> m).
Proof.
  induction l as [|a l IH]; intros m; [right; intros b []|].
  destruct (N.eq_dec (i_height a) m) as [E|E]; [left; exists a; split; [left; reflexivity|exact E]|].
  destruct (IH m) as [(b & Hb & Hbm)|Hn]; [left; exists b; split; [right; exact Hb|exact Hbm]|].
  right. intros b [<-|Hb]; [exact E|apply Hn; exact Hb].
Qed.

(* one quorum height across a step: never decreases, and the invariant is re-established *)
Lemma quorum_step : forall sel get ps old nw r tip m maxlen pv minreq,
  keys_sorted ps ->
  hts old tip -> i_height nw = tip + 1 ->
  grows (firstn maxlen (nw :: old)) r ->
  (forall a b, same_entry a b -> get a <= get b) ->
  ((forall bi, In bi old -> m < i_height bi) \/ (exists bi, In bi old /\ i_height bi = m /\ meets ps sel get bi)) ->
  m <= tip ->
  first_with ps sel get r = Ok pv ->
  minreq <= oldest_height r ->
  let m' := match pv with Some h => h | None => m end in
  m <= m' /\ m' <= tip + 1 /\
  ((forall bi, In bi r -> m' < i_height bi) \/
   (exists bi, In bi r /\ i_height bi = m' /\ meets (prune_params ps minreq) sel get bi)).
Proof.
  intros sel get ps old nw r tip m maxlen pv minreq Hs Hold Hnw Hg Hget Hq Hm Hf Hmin m'.
  assert (Hr : hts r (tip + 1)).
  { eapply hts_grows; [exact Hg|]. apply hts_firstn. apply hts_cons; assumption. }
  assert (Hrd : desc r) by (eapply hts_desc; exact Hr).
  (* entries of r come from nw :: old *)
  assert (Hsrc : forall b, In b r -> exists a, In a (nw :: old) /\ same_entry a b).
  { intros b Hb. apply In_nth_error in Hb. destruct Hb as [j Hj].
    destruct (grows_nth _ _ Hg j b Hj) as (a & Ha & Hab). apply nth_error_firstn_some in Ha.
    exists a. split; [eapply nth_error_In; apply Ha|exact Hab]. }
  assert (Hmeets_prune : forall b, In b r -> meets ps sel get b -> meets (prune_params ps minreq) sel get b).
  { intros b Hb (p & Hp & Hle). exists p. split; [|exact Hle]. rewrite get_params_prune; auto.
    pose proof (oldest_height_le _ _ _ Hr Hb). lia. }
  (* the old quorum entry, if still in the window, still meets its threshold *)
  assert (Hkeep : forall b, In b r -> i_height b = m ->
                  (exists bi, In bi old /\ i_height bi = m /\ meets ps sel get bi) -> meets ps sel get b).
  { intros b Hb Hbm (bi & Hbi & Hbim & (p & Hp & Hle)).
    destruct (Hsrc b Hb) as (a & Ha & Hab). destruct Hab as (Hh & Hrest).
    destruct Ha as [<-|Ha]; [lia|].
    assert (a = bi) by (apply (hts_unique old tip a bi Hold Ha Hbi); lia). subst a.
    exists p. split; [rewrite <- Hh, Hbim, <- Hbim; exact Hp|].
    assert (same_entry bi b) by (split; assumption). specialize (Hget _ _ H). lia. }
  destruct pv as [h|]; cbn in m'; subst m'.
  - destruct (first_with_is_max _ _ _ _ _ Hrd Hf) as ((bi & Hbi & Hbh & Hbm) & Hmax).
    assert (Hle : m <= h).
    { destruct Hq as [Hlow|Hex].
      - destruct (Hsrc bi Hbi) as (a & [<-|Ha] & (Hh & _)); [lia|]. specialize (Hlow a Ha). lia.
      - destruct (classic_in_height r m) as [(b & Hb & Hbm')|Hnone].
        + specialize (Hmax b Hb (Hkeep b Hb Hbm' Hex)). lia.
        + (* the old entry left the window: every remaining entry is above it *)
          destruct Hex as (bo & Hbo & Hbom & _).
          destruct (Hsrc bi Hbi) as (a & [<-|Ha] & (Hh & _)); [lia|].
          apply In_nth_error in Hbi. destruct Hbi as [j Hj]. pose proof (Hr j bi Hj) as Hj'.
          apply In_nth_error in Hbo. destruct Hbo as [k Hk]. pose proof (Hold k bo Hk) as Hk'.
          (* position k+1 of nw::old; if it were < length r the entry would be in r with height m *)
          destruct (Nat.lt_ge_cases (S k) (length r)) as [Hlt|Hge].
          * exfalso. apply nth_error_Some in Hlt. destruct (nth_error r (S k)) as [b|] eqn:Eb; [|congruence].
            apply (Hnone b); [eapply nth_error_In; exact Eb|]. pose proof (Hr _ _ Eb). lia.
          * assert (j < length r)%nat by (apply nth_error_Some; congruence). lia. }
    split; [exact Hle|]. split; [pose proof (hts_in_le _ _ _ Hr Hbi); lia|].
    right. exists bi. auto.
  - split; [lia|]. split; [lia|]. left.
    pose proof (first_with_none _ _ _ _ Hf) as Hnone.
    intros b Hb. destruct Hq as [Hlow|Hex].
    + destruct (Hsrc b Hb) as (a & [<-|Ha] & (Hh & _)); [lia|]. specialize (Hlow a Ha). lia.
    + destruct (N.lt_ge_cases m (i_height b)) as [|Hge]; [assumption|]. exfalso.
      (* b has height <= m; heights in r are consecutive down from tip+1, so some entry has height exactly m *)
      destruct Hex as (bo & Hbo & Hbom & Hmeet).
      apply In_nth_error in Hb. destruct Hb as [j Hj]. pose proof (Hr j b Hj) as Hj'.
      apply In_nth_error in Hbo. destruct Hbo as [k Hk]. pose proof (Hold k bo Hk) as Hk'.
      assert (Hlt : (S k < length r)%nat).
      { assert (j < length r)%nat by (apply nth_error_Some; congruence). lia. }
      apply nth_error_Some in Hlt. destruct (nth_error r (S k)) as [b2|] eqn:Eb; [|congruence].
      pose proof (Hr _ _ Eb). apply (Hnone b2); [eapply nth_error_In; exact Eb|].
      apply Hkeep; [eapply nth_error_In; exact Eb|lia|]. exists bo. split; [eapply nth_error_In; exact Hk|auto].
Qed.

(* ------------------------------------------------------------------ one block *)
Lemma before_txs_window : forall batch s b s1, before_txs batch s b = Ok s1 ->
  exists r act' pv pc, update_votes (s_params s) (insert_info (window s) b (3 * batch)) (v_act (s_votes s)) = Ok (r, act') /\
    window s1 = r /\ v_act (s_votes s1) = act' /\
    first_with (s_params s) p_pv i_pv r = Ok pv /\
    first_with (s_params s) p_pc i_pc r = Ok pc /\
    v_mhp (s_votes s1) = match pv with Some h => h | None => v_mhp (s_votes s) end /\
    v_mhpc (s_votes s1) = match pc with Some h => h | None => v_mhpc (s_votes s) end /\
    v_mhc (s_votes s1) = match h_cert b with Some h => h | None => v_mhc (s_votes s) end /\
    s_params s1 = prune_params (s_params s) (N.min (oldest_height r) (v_mhc (s_votes s1) + 1)).
Proof.
  intros batch s b s1 H. unfold before_txs in H. unfold window.
  destruct (check_params_range _ _) as [u|e]; cbn [bind] in H; [|discriminate].
  destruct (update_votes _ _ _) as [[r act']|e] eqn:Eu; cbn [bind] in H; [|discriminate].
  destruct (first_with (s_params s) p_pv i_pv r) as [pv|e] eqn:Epv; cbn [bind] in H; [|discriminate].
  destruct (first_with (s_params s) p_pc i_pc r) as [pc|e] eqn:Epc; cbn [bind] in H; [|discriminate].
  inversion H; subst s1; cbn. exists r, act', pv, pc. repeat split; auto.
Qed.

Theorem before_txs_step : forall batch s b s1 tip,
  (0 < batch)%nat ->
  Inv tip s -> h_height b = tip + 1 ->
  v_mhp (s_votes s) <= tip -> v_mhpc (s_votes s) <= tip ->
  before_txs batch s b = Ok s1 ->
  Inv (tip + 1) s1 /\
  v_mhp (s_votes s) <= v_mhp (s_votes s1) <= tip + 1 /\
  v_mhpc (s_votes s) <= v_mhpc (s_votes s1) <= tip + 1 /\
  votes_rule (s_params s) (insert_info (window s) b (3 * batch)) (v_act (s_votes s)) (window s1) /\
  window s1 <> [].
Proof.
  intros batch s b s1 tip Hbatch HI Hb Hp Hpc H.
  destruct (before_txs_window _ _ _ _ H) as (r & act' & pv & pcx & Hu & Hw & Hact & Epv & Hfpc & Hmhp' & Hmhpc' & Hmhc & Hps).
  destruct HI as [Hs Hk Hh Hc Hq Hqc].
  assert (Hd0 : desc (insert_info (window s) b (3 * batch))).
  { eapply hts_desc. unfold insert_info. apply hts_firstn. apply hts_cons; [exact Hh|exact Hb]. }
  pose proof (update_votes_rule _ _ _ _ _ Hd0 Hu) as Hrule.
  pose proof (votes_rule_grows _ _ _ _ Hrule) as Hg. unfold insert_info in Hg.
  set (minreq := N.min (oldest_height r) (v_mhc (s_votes s1) + 1)) in *.
  assert (Hminreq : minreq <= oldest_height r) by (unfold minreq; lia).
  pose proof (quorum_step p_pv i_pv (s_params s) (window s) (new_info b) r tip (v_mhp (s_votes s)) (3 * batch) pv minreq
                Hs Hh Hb Hg (fun a b0 (Hab : same_entry a b0) => proj1 (proj2 (proj2 (proj2 (proj2 Hab))))) Hq Hp Epv Hminreq) as (Hm1 & Hm2 & Hq1).
  pose proof (quorum_step p_pc i_pc (s_params s) (window s) (new_info b) r tip (v_mhpc (s_votes s)) (3 * batch) pcx minreq
                Hs Hh Hb Hg (fun a b0 (Hab : same_entry a b0) => proj2 (proj2 (proj2 (proj2 (proj2 Hab))))) Hqc Hpc Hfpc Hminreq) as (Hc1 & Hc2 & Hqc1).
  assert (Hr : hts r (tip + 1)).
  { eapply hts_grows; [exact Hg|]. apply hts_firstn. apply hts_cons; assumption. }
  assert (Hne : r <> []).
  { intros ->. apply grows_length in Hg. destruct (3 * batch)%nat eqn:E3; [lia|]. cbn in Hg. discriminate. }
  split; [|repeat split; try lia; try (rewrite Hw; assumption)].
  constructor.
  - rewrite Hps. apply prune_sorted; exact Hs.
  - intros k p Hin. rewrite Hps in Hin. apply prune_keys_subset in Hin. specialize (Hk k p Hin). lia.
  - rewrite Hw. exact Hr.
  - unfold current_height. change (v_infos (s_votes s1)) with (window s1). rewrite Hw.
    destruct r as [|x r']; [congruence|]. pose proof (Hr 0%nat x eq_refl). lia.
  - unfold quorum_inv. rewrite Hw, Hps, Hmhp'. fold minreq. exact Hq1.
  - unfold quorum_inv. rewrite Hw, Hps, Hmhpc'. fold minreq. exact Hqc1.
Qed.

Lemma insert_in : forall ps k p k2 p2, In (k2, p2) (insert_param ps k p) -> (k2, p2) = (k, p) \/ In (k2, p2) ps.
Proof.
  induction ps as [|[k3 p3] ps IH]; intros k p k2 p2 Hin; cbn [insert_param] in Hin.
  - destruct Hin as [H|[]]; left; symmetry; exact H.
  - destruct (k <? k3); [destruct Hin as [H|H]; [left; symmetry; exact H|right; exact H]|].
    destruct (k =? k3); [destruct Hin as [H|H]; [left; symmetry; exact H|right; right; exact H]|].
    destruct Hin as [H|H]; [right; left; exact H|]. destruct (IH _ _ _ _ H); [left|right; right]; assumption.
Qed.

Theorem set_params_step : forall batch s pcT certT vals s' tip,
  Inv tip s -> set_params batch s pcT certT vals = Ok s' ->
  Inv tip s' /\ window s' = window s /\
  v_mhp (s_votes s') = v_mhp (s_votes s) /\ v_mhpc (s_votes s') = v_mhpc (s_votes s) /\ v_mhc (s_votes s') = v_mhc (s_votes s) /\
  (forall h, h <= tip -> get_params (s_params s') h = get_params (s_params s) h).
Proof.
  intros batch s pcT certT vals s' tip HI H. unfold set_params in H.
  destruct (Nat.ltb batch (length vals)); [discriminate|].
  destruct (existsb _ vals); [discriminate|].
  destruct (_ || _); [discriminate|]. destruct (_ || _); [discriminate|].
  match type of H with (if ?c then _ else _) = _ => destruct c end.
  - inversion H; subst s'. repeat split; auto; apply HI.
  - inversion H; subst s'; clear H. destruct HI as [Hs Hk Hh Hc Hq Hqc]. rewrite Hc.
    assert (Hget : forall h, h <= tip -> get_params (insert_param (s_params s) (tip + 1)
              {| p_pv := total_weight vals * 2 / 3 + 1; p_pc := pcT; p_cert := certT; p_vals := sort_desc vals |}) h
              = get_params (s_params s) h).
    { intros h Hle. apply get_params_insert; [lia|exact Hs]. }
    assert (Hmeets : forall sel get bi, In bi (window s) -> meets (s_params s) sel get bi ->
              meets (insert_param (s_params s) (tip + 1)
                 {| p_pv := total_weight vals * 2 / 3 + 1; p_pc := pcT; p_cert := certT; p_vals := sort_desc vals |}) sel get bi).
    { intros sel get bi Hin (p & Hp & Hle). exists p. split; [|exact Hle]. rewrite Hget; [exact Hp|]. eapply hts_in_le; eauto. }
    repeat split; cbn; auto.
    + apply insert_sorted; exact Hs.
    + intros k p Hin. apply insert_in in Hin. destruct Hin as [Heq|Hin]; [inversion Heq; lia|exact (Hk k p Hin)].
    + destruct Hq as [Hl|(bi & Hbi & Hbh & Hm)]; [left; exact Hl|right; exists bi; repeat split; auto].
    + destruct Hqc as [Hl|(bi & Hbi & Hbh & Hm)]; [left; exact Hl|right; exists bi; repeat split; auto].
Qed.

(* ------------------------------------------------------------------ histories *)
Fixpoint consecutive (tip : N) (l : list block) : Prop :=
  match l with [] => True | (b, _) :: tl => h_height b = tip + 1 /\ consecutive (tip + 1) tl end.

Definition good (tip : N) (s : store) : Prop :=
  Inv tip s /\ v_mhp (s_votes s) <= tip /\ v_mhpc (s_votes s) <= tip.

Lemma apply_block_step : forall batch s x s' tip, (0 < batch)%nat -> good tip s -> h_height (fst x) = tip + 1 ->
  apply_block batch s x = Ok s' ->
  good (tip + 1) s' /\ v_mhp (s_votes s) <= v_mhp (s_votes s') /\ v_mhpc (s_votes s) <= v_mhpc (s_votes s').
Proof.
  intros batch s [b chg] s' tip Hb (HI & Hp & Hpc) Hh H. cbn [fst] in Hh. unfold apply_block in H.
  destruct (before_txs batch s b) as [s1|e] eqn:E1; cbn [bind] in H; [|discriminate].
  destruct (before_txs_step _ _ _ _ _ Hb HI Hh Hp Hpc E1) as (HI1 & Hm & Hmc & _ & _).
  destruct chg as [c|].
  - destruct (set_params_step _ _ _ _ _ _ _ HI1 H) as (HI2 & _ & E2 & E3 & _). unfold good. rewrite E2, E3. split; [split; [exact HI2|lia]|lia].
  - inversion H; subst s'. unfold good. split; [split; [exact HI1|lia]|lia].
Qed.

Theorem heights_monotone : forall batch l s s' tip, (0 < batch)%nat -> good tip s -> consecutive tip l ->
  run_blocks batch s l = Ok s' ->
  good (tip + N.of_nat (length l)) s' /\
  v_mhp (s_votes s) <= v_mhp (s_votes s') /\ v_mhpc (s_votes s) <= v_mhpc (s_votes s').
Proof.
  intros batch l. induction l as [|x l IH]; intros s s' tip Hb Hg Hc H; cbn [run_blocks] in H.
  - inversion H; subst s'. cbn [length N.of_nat]. rewrite N.add_0_r. split; [exact Hg|lia].
  - destruct (apply_block batch s x) as [s1|e] eqn:E1; cbn [bind] in H; [|discriminate].
    destruct x as [b chg]. destruct Hc as [Hh Hc].
    destruct (apply_block_step batch s (b, chg) s1 tip Hb Hg Hh E1) as (Hg1 & Hm & Hmc).
    destruct (IH _ _ _ Hb Hg1 Hc H) as (Hg2 & Hm2 & Hmc2).
    cbn [length] in *. rewrite Nat2N.inj_succ. replace (tip + N.succ (N.of_nat (length l))) with (tip + 1 + N.of_nat (length l)) by lia. split; [exact Hg2|]. split; [apply (N.le_trans _ _ _ Hm Hm2)|apply (N.le_trans _ _ _ Hmc Hmc2)].
Qed.

Lemma init_good : forall batch gh c s0, init_store batch gh c = Ok s0 -> good gh s0.
Proof.
  intros batch gh c s0 H. unfold init_store in H.
  assert (HI : Inv gh (genesis_store gh)).
  { constructor; cbn.
    - exact I.
    - intros k p [].
    - intros j bi Hn. destruct j; discriminate.
    - reflexivity.
    - left. intros bi [].
    - left. intros bi []. }
  destruct (set_params_step _ _ _ _ _ _ _ HI H) as (HI2 & _ & E2 & E3 & _).
  unfold good. rewrite E2, E3. cbn. split; [exact HI2|lia].
Qed.

Lemma consecutive_app : forall l1 l2 tip, consecutive tip (l1 ++ l2) ->
  consecutive tip l1 /\ consecutive (tip + N.of_nat (length l1)) l2.
Proof.
  induction l1 as [|[b c] l1 IH]; intros l2 tip H; cbn [app consecutive length] in *.
  - rewrite N.add_0_r. auto.
  - destruct H as [Hh H]. destruct (IH _ _ H) as [H1 H2]. repeat split; auto.
    rewrite Nat2N.inj_succ. replace (tip + N.succ (N.of_nat (length l1))) with (tip + 1 + N.of_nat (length l1)) by lia. exact H2.
Qed.

(* the reported prevoted / precommitted height is the largest windowed height reaching the threshold in force
   at that height, else the previous value *)
Theorem heights_are_max_quorum : forall batch s b s1 tip, (0 < batch)%nat -> Inv tip s -> h_height b = tip + 1 ->
  before_txs batch s b = Ok s1 ->
  ((exists bi, In bi (window s1) /\ i_height bi = v_mhp (s_votes s1) /\ meets (s_params s) p_pv i_pv bi) /\
   (forall x, In x (window s1) -> meets (s_params s) p_pv i_pv x -> i_height x <= v_mhp (s_votes s1))
   \/ (v_mhp (s_votes s1) = v_mhp (s_votes s) /\ forall x, In x (window s1) -> ~ meets (s_params s) p_pv i_pv x)) /\
  ((exists bi, In bi (window s1) /\ i_height bi = v_mhpc (s_votes s1) /\ meets (s_params s) p_pc i_pc bi) /\
   (forall x, In x (window s1) -> meets (s_params s) p_pc i_pc x -> i_height x <= v_mhpc (s_votes s1))
   \/ (v_mhpc (s_votes s1) = v_mhpc (s_votes s) /\ forall x, In x (window s1) -> ~ meets (s_params s) p_pc i_pc x)).
Proof.
  intros batch s b s1 tip Hbatch HI Hb H.
  destruct (before_txs_window _ _ _ _ H) as (r & act' & pv & pcx & Hu & Hw & Hact & Epv & Hfpc & Hmhp' & Hmhpc' & Hmhc & Hps).
  assert (Hd0 : desc (insert_info (window s) b (3 * batch))).
  { eapply hts_desc. unfold insert_info. apply hts_firstn. apply hts_cons; [apply HI|exact Hb]. }
  pose proof (update_votes_rule _ _ _ _ _ Hd0 Hu) as Hrule.
  pose proof (votes_rule_grows _ _ _ _ Hrule) as Hg.
  assert (Hrd : desc r) by (eapply grows_desc; eauto).
  rewrite Hw, Hmhp', Hmhpc'. split.
  - destruct pv as [h|]; [left; apply first_with_is_max; assumption|right; split; [reflexivity|apply first_with_none; assumption]].
  - destruct pcx as [h|]; [left; apply first_with_is_max; assumption|right; split; [reflexivity|apply first_with_none; assumption]].
Qed.

(* parameters of heights still inside the window are never changed by pruning or by SetBFTParameters *)
Theorem params_stable_in_window : forall batch s x s1 tip, (0 < batch)%nat -> good tip s -> h_height (fst x) = tip + 1 ->
  apply_block batch s x = Ok s1 ->
  forall h, oldest_height (window s1) <= h <= tip + 1 -> get_params (s_params s1) h = get_params (s_params s) h.
Proof.
  intros batch s [b chg] s1 tip Hbatch (HI & Hp & Hpc) Hh H h Hr. cbn [fst] in Hh. unfold apply_block in H.
  destruct (before_txs batch s b) as [s0|e] eqn:E1; cbn [bind] in H; [|discriminate].
  destruct (before_txs_step _ _ _ _ _ Hbatch HI Hh Hp Hpc E1) as (HI1 & _).
  destruct (before_txs_window _ _ _ _ E1) as (r & act' & pv & pcx & _ & Hw & _ & _ & _ & _ & _ & _ & Hps).
  assert (E0 : get_params (s_params s0) h = get_params (s_params s) h).
  { rewrite Hps. apply get_params_prune; [apply HI|]. rewrite <- Hw.
    destruct chg as [c|]; [destruct (set_params_step _ _ _ _ _ _ _ HI1 H) as (_ & Ew & _); rewrite Ew in Hr|inversion H; subst s1]; lia. }
  destruct chg as [c|]; [|inversion H; subst; exact E0].
  destruct (set_params_step _ _ _ _ _ _ _ HI1 H) as (_ & _ & _ & _ & _ & Hg). rewrite Hg by lia. exact E0.
Qed.

(* ------------------------------------------------------------------ the window is the recent headers *)
Definition static (i : info) : N * N * N * N := (i_height i, i_gen i, i_mhg i, i_mhp i).
Definition static_hdr (b : hdr) : N * N * N * N := (h_height b, h_gen b, h_mhg b, h_mhp b).

Lemma grows_static : forall l l', grows l l' -> map static l = map static l'.
Proof.
  intros l l' H; induction H as [|a b l l' Hab H IH]; [reflexivity|]. cbn [map]. f_equal; [|exact IH].
  destruct Hab as (H1 & H2 & H3 & H4 & _). unfold static. congruence.
Qed.
Lemma firstn_cons_firstn : forall {A} n (x : A) l, firstn n (x :: firstn n l) = firstn n (x :: l).
Proof.
  intros A n x l. destruct n as [|n]; [reflexivity|]. cbn [firstn]. f_equal.
  revert l. induction n as [|n IH]; intros l; [reflexivity|]. destruct l as [|a l]; [reflexivity|]. cbn [firstn]. f_equal. apply IH.
Qed.

Lemma apply_block_window_static : forall batch s x s1 tip, (0 < batch)%nat -> good tip s -> h_height (fst x) = tip + 1 ->
  apply_block batch s x = Ok s1 ->
  map static (window s1) = firstn (3 * batch) (static_hdr (fst x) :: map static (window s)).
Proof.
  intros batch s [b chg] s1 tip Hbatch (HI & Hp & Hpc) Hh H. cbn [fst] in *. unfold apply_block in H.
  destruct (before_txs batch s b) as [s0|e] eqn:E1; cbn [bind] in H; [|discriminate].
  destruct (before_txs_step _ _ _ _ _ Hbatch HI Hh Hp Hpc E1) as (HI1 & _ & _ & Hrule & _).
  assert (Ew : window s1 = window s0).
  { destruct chg as [c|]; [destruct (set_params_step _ _ _ _ _ _ _ HI1 H) as (_ & Ew & _); exact Ew|inversion H; reflexivity]. }
  rewrite Ew. rewrite <- (grows_static _ _ (votes_rule_grows _ _ _ _ Hrule)). unfold insert_info.
  rewrite <- firstn_map. reflexivity.
Qed.

Theorem window_is_recent_headers : forall batch l s s' tip W, (0 < batch)%nat -> good tip s -> consecutive tip l ->
  map static (window s) = firstn (3 * batch) W ->
  run_blocks batch s l = Ok s' ->
  map static (window s') = firstn (3 * batch) (rev (map (fun x => static_hdr (fst x)) l) ++ W).
Proof.
  intros batch l. induction l as [|x l IH]; intros s s' tip W Hb Hg Hc HW H; cbn [run_blocks] in H.
  - inversion H; subst s'. exact HW.
  - destruct (apply_block batch s x) as [s1|e] eqn:E1; cbn [bind] in H; [|discriminate].
    destruct x as [b chg]. destruct Hc as [Hh Hc].
    destruct (apply_block_step batch s (b, chg) s1 tip Hb Hg Hh E1) as (Hg1 & _).
    pose proof (apply_block_window_static batch s (b, chg) s1 tip Hb Hg Hh E1) as Hs1. cbn [fst] in Hs1.
    rewrite HW, firstn_cons_firstn in Hs1.
    rewrite (IH s1 s' (tip + 1) (static_hdr b :: W) Hb Hg1 Hc Hs1 H).
    cbn [map rev fst]. rewrite <- app_assoc. reflexivity.
Qed.

(* ------------------------------------------------------------------ C07: a contradicting header inside the window is always flagged *)
From LE Require Import BFT.ContradictionProofs.

(* every windowed header was valid when added: it carried the node's maxHeightPrevoted and did not contradict
   the newest windowed header of its generator; hence same-generator entries form a legit-successor chain *)
Fixpoint legit_chain (l : list info) : Prop :=   (* newest first *)
  match l with
  | [] => True
  | y :: post => (forall x, In x post -> i_gen x = i_gen y -> legit_successor (bh_of_info x) (bh_of_info y)) /\ legit_chain post
  end.
Definition mhp_bounded (l : list info) (m : N) : Prop := forall x, In x l -> i_mhp x <= m.

Lemma legit_trans : forall x y b, legit_successor x y -> legit_successor y b -> legit_successor x b.
Proof. unfold legit_successor. intros. lia. Qed.

Lemma grows_legit_chain : forall l l', grows l l' -> legit_chain l -> legit_chain l'.
Proof.
  intros l l' H; induction H as [|a b l l' Hab H IH]; intros Hc; [exact I|]. destruct Hc as [Hc1 Hc2]. split; [|apply IH; exact Hc2].
  intros x Hx Hg. apply In_nth_error in Hx. destruct Hx as [j Hj]. destruct (grows_nth _ _ H j x Hj) as (x0 & Hx0 & Hsx).
  destruct Hab as (A1 & A2 & A3 & A4 & _), Hsx as (B1 & B2 & B3 & B4 & _).
  assert (Hl : legit_successor (bh_of_info x0) (bh_of_info a)).
  { apply Hc1; [eapply nth_error_In; exact Hx0|congruence]. }
  unfold legit_successor, bh_of_info in *; cbn in *. lia.
Qed.
Lemma grows_mhp_bounded : forall l l' m, grows l l' -> mhp_bounded l m -> mhp_bounded l' m.
Proof.
  intros l l' m H Hb x Hx. apply In_nth_error in Hx. destruct Hx as [j Hj]. destruct (grows_nth _ _ H j x Hj) as (x0 & Hx0 & (_ & _ & _ & E & _)).
  rewrite <- E. apply Hb. eapply nth_error_In; exact Hx0.
Qed.
Lemma firstn_legit_chain : forall n l, legit_chain l -> legit_chain (firstn n l).
Proof.
  induction n as [|n IH]; intros l H; [exact I|]. destruct l as [|a l]; [exact I|]. destruct H as [H1 H2]. cbn [firstn]. split; [|apply IH; exact H2].
  intros x Hx. apply H1. clear -Hx. revert l Hx. induction n as [|n IHn]; intros l Hx; [contradiction|]. destruct l as [|c l]; [contradiction|]. destruct Hx as [<-|Hx]; [left; reflexivity|right; apply IHn; exact Hx].
Qed.

(* direction: on a chain, the newer valid header can only be the successor *)
Lemma valid_successor : forall y b, i_gen y = h_gen b -> i_height y < h_height b -> i_mhp y <= h_mhp b ->
  contradicting (bh_of_info y) (bh_of_hdr b) = false -> legit_successor (bh_of_info y) (bh_of_hdr b).
Proof.
  intros y b Hg Hh Hm Hc.
  destruct (legit_successor_b (bh_of_info y) (bh_of_hdr b)) eqn:L1; [apply legit_successor_b_spec; exact L1|].
  exfalso. rewrite contradicting_is_spec in Hc. unfold contradicting_spec in Hc. rewrite L1 in Hc.
  assert (G : gen (bh_of_info y) =? gen (bh_of_hdr b) = true) by (cbn; lia). rewrite G in Hc. cbn [negb andb] in Hc.
  destruct (legit_successor_b (bh_of_hdr b) (bh_of_info y)) eqn:L2; [|discriminate].
  apply legit_successor_b_spec in L2. unfold legit_successor, bh_of_info, bh_of_hdr in L2; cbn in L2. lia.
Qed.

Theorem window_flagging_complete : forall l b tip m,
  hts l tip -> legit_chain l -> mhp_bounded l m ->
  tip < h_height b -> h_mhp b = m ->
  (exists x, In x l /\ i_gen x = h_gen b /\ contradicting (bh_of_info x) (bh_of_hdr b) = true) ->
  match find (fun bi => i_gen bi =? h_gen b) l with
  | Some y => contradicting (bh_of_info y) (bh_of_hdr b) = true
  | None => False
  end.
Proof.
  induction l as [|y l IH]; intros b tip m Hh Hc Hm Hb Hbm (x & Hx & Hg & Hcx); [contradiction|].
  cbn [find]. destruct (i_gen y =? h_gen b) eqn:Eg.
  - destruct Hx as [<-|Hx]; [exact Hcx|].
    destruct (contradicting (bh_of_info y) (bh_of_hdr b)) eqn:Ecy; [reflexivity|]. exfalso.
    assert (Hyb : legit_successor (bh_of_info y) (bh_of_hdr b)).
    { apply valid_successor; [lia| |rewrite Hbm; apply Hm; left; reflexivity|exact Ecy].
      pose proof (hts_in_le _ _ y Hh (or_introl eq_refl)). lia. }
    assert (Hxy : legit_successor (bh_of_info x) (bh_of_info y)) by (apply (proj1 Hc); [exact Hx|lia]).
    pose proof (legit_trans _ _ _ Hxy Hyb) as Hxb.
    apply contradicting_iff in Hcx. tauto.
  - destruct Hx as [<-|Hx]; [lia|].
    assert (Htip : 1 <= tip).
    { apply In_nth_error in Hx. destruct Hx as [j Hj]. pose proof (Hh (S j) x Hj) as Hq. rewrite Nat2N.inj_succ in Hq. lia. }
    apply (IH b (tip - 1) m).
    + intros j bi Hn. specialize (Hh (S j) bi Hn). rewrite Nat2N.inj_succ in Hh. lia.
    + exact (proj2 Hc).
    + intros z Hz. apply Hm. right; exact Hz.
    + lia.
    + exact Hbm.
    + exists x. auto.
Qed.

Lemma find_split : forall {A} (f : A -> bool) l y, find f l = Some y ->
  exists pre post, l = pre ++ y :: post /\ f y = true /\ forall x, In x pre -> f x = false.
Proof.
  induction l as [|a l IH]; intros y H; cbn [find] in H; [discriminate|]. destruct (f a) eqn:E.
  - inversion H; subst. exists [], l. repeat split; auto. intros x [].
  - destruct (IH y H) as (pre & post & -> & Hy & Hpre). exists (a :: pre), post. repeat split; auto.
    intros x [<-|Hx]; auto.
Qed.
Lemma legit_chain_app : forall pre y post, legit_chain (pre ++ y :: post) ->
  forall x, In x post -> i_gen x = i_gen y -> legit_successor (bh_of_info x) (bh_of_info y).
Proof. induction pre as [|a pre IH]; intros y post H; cbn [app legit_chain] in H; [apply H|apply IH, H]. Qed.

Definition vgood (tip : N) (s : store) : Prop :=
  good tip s /\ legit_chain (window s) /\ mhp_bounded (window s) (v_mhp (s_votes s)).

Theorem valid_block_step : forall batch s x s1 tip, (0 < batch)%nat -> vgood tip s -> h_height (fst x) = tip + 1 ->
  bft_valid s (fst x) = true -> apply_block batch s x = Ok s1 -> vgood (tip + 1) s1.
Proof.
  intros batch s [b chg] s1 tip Hbatch (Hg & Hlc & Hmb) Hh Hv H. cbn [fst] in *.
  destruct (apply_block_step batch s (b, chg) s1 tip Hbatch Hg Hh H) as (Hg1 & Hm & _).
  split; [exact Hg1|].
  destruct Hg as (HI & Hp & Hpc). unfold apply_block in H.
  destruct (before_txs batch s b) as [s0|e] eqn:E1; cbn [bind] in H; [|discriminate].
  destruct (before_txs_step _ _ _ _ _ Hbatch HI Hh Hp Hpc E1) as (HI1 & _ & _ & Hrule & _).
  assert (Ew : window s1 = window s0).
  { destruct chg as [c|]; [destruct (set_params_step _ _ _ _ _ _ _ HI1 H) as (_ & Ew & _); exact Ew|inversion H; reflexivity]. }
  rewrite Ew. pose proof (votes_rule_grows _ _ _ _ Hrule) as Hgr. unfold insert_info in Hgr.
  unfold bft_valid in Hv. apply andb_prop in Hv. destruct Hv as [Hv1 Hv2]. apply N.eqb_eq in Hv1.
  assert (Hlc0 : legit_chain (new_info b :: window s)).
  { split; [|exact Hlc]. intros x Hx Hgx. cbn in Hgx.
    unfold chain_contradicting in Hv2. fold (window s) in Hv2.
    destruct (find (fun bi => i_gen bi =? h_gen b) (window s)) as [y|] eqn:Ef.
    - destruct (find_split _ _ _ Ef) as (pre & post & Hl & Hy & Hpre). apply negb_true_iff in Hv2.
      assert (Hyb : legit_successor (bh_of_info y) (bh_of_hdr b)).
      { apply valid_successor; [lia| |rewrite Hv1; apply Hmb; rewrite Hl; apply in_or_app; right; left; reflexivity|exact Hv2].
        assert (Hin : In y (window s)) by (rewrite Hl; apply in_or_app; right; left; reflexivity).
        pose proof (hts_in_le _ _ y (inv_hts _ _ HI) Hin). lia. }
      change (bh_of_info (new_info b)) with (bh_of_hdr b).
      rewrite Hl in Hx. apply in_app_or in Hx. destruct Hx as [Hx|[<-|Hx]].
      + specialize (Hpre x Hx). cbn in Hpre. lia.
      + exact Hyb.
      + eapply legit_trans; [|exact Hyb]. rewrite Hl in Hlc. apply (legit_chain_app _ _ _ Hlc x Hx). lia.
    - exfalso. pose proof (find_none _ _ Ef x Hx) as Hn. cbn in Hn. lia. }
  split.
  - eapply grows_legit_chain; [exact Hgr|]. apply firstn_legit_chain. exact Hlc0.
  - eapply grows_mhp_bounded; [exact Hgr|]. intros z Hz.
    assert (Hz' : In z (new_info b :: window s)).
    { clear -Hz. revert Hz. generalize (new_info b :: window s). induction (3 * batch)%nat as [|n IHn]; intros l Hz; [contradiction|].
      destruct l as [|c l]; [contradiction|]. destruct Hz as [<-|Hz]; [left; reflexivity|right; apply IHn; exact Hz]. }
    destruct Hz' as [<-|Hz']; [cbn; lia|]. specialize (Hmb z Hz'). lia.
Qed.

Theorem contradicting_in_window_is_flagged : forall s b tip, vgood tip s -> h_height b = tip + 1 -> h_mhp b = v_mhp (s_votes s) ->
  (exists x, In x (window s) /\ i_gen x = h_gen b /\ contradicting (bh_of_info x) (bh_of_hdr b) = true) ->
  chain_contradicting (s_votes s) b = true.
Proof.
  intros s b tip (Hg & Hlc & Hmb) Hh Hm Hex. unfold chain_contradicting. fold (window s).
  pose proof (window_flagging_complete (window s) b tip (v_mhp (s_votes s)) (inv_hts _ _ (proj1 Hg)) Hlc Hmb ltac:(lia) Hm Hex) as H.
  destruct (find _ (window s)); [exact H|contradiction].
Qed.

Lemma genesis_inv : forall gh, Inv gh (genesis_store gh).
Proof.
  intros gh. constructor; cbn.
  - exact I.
  - intros k p [].
  - intros j bi Hn. destruct j; discriminate.
  - reflexivity.
  - left. intros bi [].
  - left. intros bi [].
Qed.

Lemma init_vgood : forall batch gh c s0, init_store batch gh c = Ok s0 -> vgood gh s0.
Proof.
  intros batch gh c s0 H. pose proof (init_good _ _ _ _ H) as Hg. split; [exact Hg|].
  unfold init_store in H.
  destruct (set_params_step _ _ _ _ _ _ _ (genesis_inv gh) H) as (_ & Ew & _).
  rewrite Ew. cbn. split; [exact I|intros x []].
Qed.
