From Coq Require Import List NArith Bool Lia ZArith.
From Coq Require Import ZifyBool ZifyN ZifyNat.
From LE Require Import BFT.GenKeys.
Import ListNotations.
Local Open Scope N_scope.

Section KStoreProofs.
  Context {A : Type}.
  Fixpoint ksorted (ks : @kstore A) : Prop :=
    match ks with [] => True | (k, _) :: tl => (forall k' a', In (k', a') tl -> k < k') /\ ksorted tl end.

  Lemma klookup_app : forall (l1 l2 : @kstore A) h best, (forall k a, In (k, a) l1 -> k <= h) ->
    klookup (l1 ++ l2) h best = klookup l2 h (match rev l1 with (_, a) :: _ => Some a | [] => best end).
  Proof.
    induction l1 as [|[k a] l1 IH]; intros l2 h best Hle; cbn [app klookup rev]; [reflexivity|].
    assert (Hk : k <= h) by (apply (Hle k a); left; reflexivity).
    destruct (k <=? h) eqn:E; [|lia].
    rewrite IH by (intros k' a' Hin; apply (Hle k' a'); right; exact Hin).
    destruct (rev l1) as [|[k2 a2] r] eqn:Er; cbn [app]; reflexivity.
  Qed.

  Lemma ksorted_split : forall (ks : @kstore A) m, ksorted ks ->
    ks = filter (fun kp => fst kp <=? m) ks ++ filter (fun kp => negb (fst kp <=? m)) ks.
  Proof.
    induction ks as [|[k a] ks IH]; intros m Hs; cbn [filter app fst]; [reflexivity|].
    destruct Hs as [Hlt Hs]. destruct (k <=? m) eqn:E; cbn [negb app].
    - f_equal. apply IH; exact Hs.
    - assert (Hnone : filter (fun kp : N * A => fst kp <=? m) ks = []).
      { clear IH. induction ks as [|[k' a'] ks IH2]; cbn [filter fst]; [reflexivity|].
        assert (k < k') by (apply (Hlt k' a'); left; reflexivity).
        destruct (k' <=? m) eqn:E'; [lia|]. apply IH2.
        - intros k2 a2 Hin. apply (Hlt k2 a2). right; exact Hin.
        - destruct Hs as [_ Hs]; exact Hs. }
      rewrite Hnone. cbn [app]. f_equal. rewrite (IH m Hs) at 1. rewrite Hnone. reflexivity.
  Qed.

  (* pruning never changes the answer for a height at or above the pruning bound *)
  Lemma kprune_lookup : forall (ks : @kstore A) m h, ksorted ks -> m <= h -> klookup (kprune ks m) h None = klookup ks h None.
  Proof.
    intros ks m h Hs Hmh. unfold kprune.
    set (le := filter (fun kp : N * A => fst kp <=? m) ks). set (gt := filter (fun kp : N * A => negb (fst kp <=? m)) ks).
    destruct (rev le) as [|[kl al] r] eqn:Er; [reflexivity|].
    assert (Hsp := ksorted_split ks m Hs). fold le gt in Hsp.
    transitivity (klookup (le ++ gt) h None); [|rewrite <- Hsp; reflexivity].
    rewrite klookup_app.
    - rewrite Er. cbn [klookup].
      assert (Hin : In (kl, al) le) by (apply in_rev; rewrite Er; left; reflexivity).
      apply filter_In in Hin. cbn [fst] in Hin. destruct (kl <=? h) eqn:E; [reflexivity|lia].
    - intros k a Hin. apply filter_In in Hin. cbn [fst] in Hin. lia.
  Qed.

  Lemma filter_ksorted : forall f (ks : @kstore A), ksorted ks -> ksorted (filter f ks).
  Proof.
    induction ks as [|[k a] ks IH]; intros Hs; cbn [filter]; [exact I|].
    destruct Hs as [Hlt Hs]. destruct (f (k, a)); [|apply IH; exact Hs].
    split; [|apply IH; exact Hs]. intros k' a' Hin. apply filter_In in Hin. apply (Hlt k' a'). tauto.
  Qed.
  Lemma kprune_sorted : forall (ks : @kstore A) m, ksorted ks -> ksorted (kprune ks m).
  Proof.
    intros ks m Hs. unfold kprune.
    destruct (rev (filter (fun kp : N * A => fst kp <=? m) ks)) as [|[kl al] r] eqn:Er; [exact Hs|].
    split; [|apply filter_ksorted; exact Hs].
    intros k' a' Hin. apply filter_In in Hin. cbn [fst] in Hin.
    assert (Hl : In (kl, al) (filter (fun kp : N * A => fst kp <=? m) ks)) by (apply in_rev; rewrite Er; left; reflexivity).
    apply filter_In in Hl. cbn [fst] in Hl. lia.
  Qed.

  Lemma kinsert_lookup_below : forall (ks : @kstore A) k a h best, h < k -> klookup (kinsert ks k a) h best = klookup ks h best.
  Proof.
    induction ks as [|[k' a'] ks IH]; intros k a h best Hlt; cbn [kinsert klookup].
    - destruct (k <=? h) eqn:E; [lia|reflexivity].
    - destruct (k <? k') eqn:E1; cbn [klookup].
      + destruct (k <=? h) eqn:E; [lia|]. destruct (k' <=? h) eqn:E2; [lia|reflexivity].
      + destruct (k =? k') eqn:E2; cbn [klookup].
        * destruct (k <=? h) eqn:E; [lia|]. destruct (k' <=? h) eqn:E3; [lia|reflexivity].
        * destruct (k' <=? h) eqn:E3; [|reflexivity]. apply IH; assumption.
  Qed.

  Lemma kinsert_in : forall (ks : @kstore A) k a k2 a2, In (k2, a2) (kinsert ks k a) -> (k2, a2) = (k, a) \/ In (k2, a2) ks.
  Proof.
    induction ks as [|[k3 a3] ks IH]; intros k a k2 a2 Hin; cbn [kinsert] in Hin.
    - destruct Hin as [H|[]]; left; symmetry; exact H.
    - destruct (k <? k3); [destruct Hin as [H|H]; [left; symmetry; exact H|right; exact H]|].
      destruct (k =? k3); [destruct Hin as [H|H]; [left; symmetry; exact H|right; right; exact H]|].
      destruct Hin as [H|H]; [right; left; exact H|]. destruct (IH _ _ _ _ H); [left|right; right]; assumption.
  Qed.
  Lemma kinsert_sorted : forall (ks : @kstore A) k a, ksorted ks -> ksorted (kinsert ks k a).
  Proof.
    induction ks as [|[k' a'] ks IH]; intros k a Hs; cbn [kinsert].
    - split; [intros ? ? []|exact I].
    - destruct Hs as [Hk Hs]. destruct (k <? k') eqn:E1.
      + split; [|split; assumption]. intros k2 a2 [Heq|Hin]; [inversion Heq; subst; lia|]. specialize (Hk k2 a2 Hin). lia.
      + destruct (k =? k') eqn:E2.
        * split; [|exact Hs]. intros k2 a2 Hin. specialize (Hk k2 a2 Hin). lia.
        * split; [|apply IH; exact Hs]. intros k2 a2 Hin. apply kinsert_in in Hin.
          destruct Hin as [Heq|Hin2]; [inversion Heq; subst; lia|apply (Hk k2 a2 Hin2)].
  Qed.

  (* a key set at height k is what every later lookup at h >= k returns, as long as k is the largest key *)
  Lemma kinsert_lookup_at : forall (ks : @kstore A) k a h, k <= h -> ksorted ks -> (forall k' a', In (k', a') ks -> k' <= k) ->
    klookup (kinsert ks k a) h None = Some a.
  Proof.
    intros ks k a h Hkh Hs Hmax.
    assert (G : forall best, klookup (kinsert ks k a) h best = Some a).
    { induction ks as [|[k' a'] ks IH]; intros best; cbn [kinsert klookup].
      - destruct (k <=? h) eqn:E; [reflexivity|lia].
      - destruct Hs as [Hk Hs]. assert (k' <= k) by (apply (Hmax k' a'); left; reflexivity).
        destruct (k <? k') eqn:E1; [lia|]. destruct (k =? k') eqn:E2; cbn [klookup].
        + destruct (k <=? h) eqn:E; [|lia].
          assert (ks = []) as ->.
          { destruct ks as [|[k3 a3] ks]; [reflexivity|]. exfalso.
            assert (k' < k3) by (apply (Hk k3 a3); left; reflexivity).
            assert (k3 <= k) by (apply (Hmax k3 a3); right; left; reflexivity). lia. }
          reflexivity.
        + destruct (k' <=? h) eqn:E3; [|lia]. apply IH; [exact Hs|].
          intros k2 a2 Hin. apply (Hmax k2 a2). right; exact Hin. }
    apply G.
  Qed.
End KStoreProofs.

(* the slot's generator is always one of the configured generators *)
Lemma generator_at_in : forall gens slot g, generator_at gens slot = Some g -> In g gens.
Proof. intros [|x gens] slot g H; [discriminate|]. eapply nth_error_In; exact H. Qed.
Lemma generator_at_total : forall gens slot, gens <> [] -> exists g, generator_at gens slot = Some g.
Proof.
  intros gens slot Hne. destruct gens as [|x gens]; [congruence|]. unfold generator_at.
  destruct (nth_error (x :: gens) (N.to_nat (slot mod N.of_nat (length (x :: gens))))) as [g|] eqn:E; [eauto|].
  exfalso. apply nth_error_None in E.
  assert (slot mod N.of_nat (length (x :: gens)) < N.of_nat (length (x :: gens))) by (apply N.mod_lt; cbn [length]; lia). lia.
Qed.

(* convert.go: BFT validators = the positive-weight entries in order; generators = all entries in order; converting back
   restores every entry whose weight is positive, and zero-weight entries with the empty BLS key, when addresses are distinct *)
Lemma convert_roundtrip : forall (l : list labi_validator) e,
  NoDup (map (fun v => let '(a, _, _, _) := v in a) l) ->
  (forall a g w b, In (a, g, w, b) l -> w = 0 -> b = e) ->
  labi_of (bft_validators_of l) (generators_of l) e = l.
Proof.
  intros l e Hnd Hz. unfold labi_of, generators_of. rewrite map_map.
  assert (G : forall l0, (forall x, In x l0 -> In x l) -> 
     map (fun x : labi_validator => match find_bft (bft_validators_of l) (fst (let '(a, g, _, _) := x in (a, g))) with
                    | Some (w, b) => (fst (let '(a, g, _, _) := x in (a, g)), snd (let '(a, g, _, _) := x in (a, g)), w, b)
                    | None => (fst (let '(a, g, _, _) := x in (a, g)), snd (let '(a, g, _, _) := x in (a, g)), 0, e) end) l0 = l0).
  { induction l0 as [|[[[a g] w] b] l0 IH]; intros Hsub; [reflexivity|]. cbn [map fst snd]. rewrite IH by (intros x Hx; apply Hsub; right; exact Hx). f_equal.
    assert (Hin : In (a, g, w, b) l) by (apply Hsub; left; reflexivity).
    assert (Hf : find_bft (bft_validators_of l) a = if 0 <? w then Some (w, b) else None).
    { clear IH Hsub. induction l as [|[[[a2 g2] w2] b2] l IHl]; [contradiction|].
      cbn [map] in Hnd. inversion Hnd as [|? ? Hnotin Hnd']; subst.
      unfold bft_validators_of. cbn [filter]. destruct Hin as [Heq|Hin].
      - inversion Heq; subst. destruct (0 <? w) eqn:Ew; cbn [map find_bft].
        + rewrite N.eqb_refl. reflexivity.
        + fold (bft_validators_of l).
          assert (Hno : forall vs, (forall x w' b', In (x, w', b') vs -> x <> a) -> find_bft vs a = None).
          { induction vs as [|[[x w'] b'] vs IHv]; intros Hx; [reflexivity|]. cbn [find_bft].
            destruct (x =? a) eqn:E; [exfalso; apply (Hx x w' b'); [left; reflexivity|lia]|]. apply IHv. intros; eapply Hx; right; eauto. }
          apply Hno. intros x w' b' Hx Heqx. subst x. apply Hnotin. unfold bft_validators_of in Hx. apply in_map_iff in Hx.
          destruct Hx as ([[[a3 g3] w3] b3] & Heq3 & Hin3). inversion Heq3; subst. apply filter_In in Hin3. destruct Hin3 as [Hin3 _].
          apply in_map_iff. exists (a, g3, w', b'). split; [reflexivity|exact Hin3].
      - assert (a2 <> a).
        { intros ->. apply Hnotin. apply in_map_iff. exists (a, g, w, b). split; [reflexivity|exact Hin]. }
        destruct (0 <? w2); cbn [map find_bft].
        + destruct (a2 =? a) eqn:E; [lia|]. apply IHl; [exact Hnd'| |exact Hin]. intros; eapply Hz; [right|]; eauto.
        + apply IHl; [exact Hnd'| |exact Hin]. intros; eapply Hz; [right|]; eauto. }
    rewrite Hf. destruct (0 <? w) eqn:Ew; [reflexivity|].
    assert (w = 0) by lia. subst w. rewrite (Hz a g 0 b Hin eq_refl). reflexivity. }
  apply G. auto.
Qed.
