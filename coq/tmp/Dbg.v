(* Conc/Progress.v — progress for safe skeletons under the writer-preferring RWMutex, and stuck configurations
   for each of the unsafe patterns. *)
From Coq Require Import List Arith Lia Bool.
From LE Require Import Conc.RWMutex Conc.Skeleton.
Import ListNotations.

(* the rest of a thread's program is well typed from its held set down to the empty held set *)
Fixpoint typed_stack (M : nat) (h : held_t) (k : list prog) : Prop :=
  match k with
  | [] => h = []
  | p :: k' => exists h', typed M h p h' /\ typed_stack M h' k'
  end.

Definition wf (M : nat) (t : thread) : Prop :=
  typed_stack M (held t) (stack t) /\ (ann t = true -> exists l k, stack t = Acq l W :: k).

Lemma init_wf : forall M progs, Forall (safe M) progs -> Forall (wf M) (init progs).
Proof.
  intros M progs H. unfold init. rewrite Forall_map. eapply Forall_impl; [|exact H].
  intros p Hp. split; simpl; [exists []; split; auto | discriminate].
Qed.

(* ---------------- preservation ---------------- *)
Lemma tstep_preserves_wf : forall M cfg t t' sp, wf M t -> tstep cfg t t' sp -> wf M t' /\ Forall (wf M) sp.
Proof.
  intros M cfg t t' sp [Hs Ha] Hst.
  assert (Hna : forall h k a p, t = mkT h (p :: k) a -> (forall l, p <> Acq l W) -> a = false).
  { intros h k a p -> Hp. destruct a; auto. destruct (Ha eq_refl) as (l & k' & E). simpl in E. inversion E; subst.
    exfalso. eapply Hp; eauto. }
  inversion Hst; subst; simpl in *; unfold wf; simpl;
    try (destruct Hs as (h' & Ht & Hk); inversion Ht; subst;
         try (rewrite (Hna _ _ _ _ eq_refl) by (intros; discriminate))).
  all: match goal with |- ?G => idtac "GOAL" G end.
Abort.
