From Coq Require Import List NArith.
From LE Require Import Hash.Sha256.
Import ListNotations.
Local Open Scope N_scope.
(* chain of 2000 hashes of 65-byte messages (2 blocks each) *)
Fixpoint chain (n : nat) (h : list N) : list N := match n with O => h | S k => chain k (sha256 (1 :: h ++ h)) end.
Time Eval vm_compute in chain 2000 (repeat 7 32).
Time Eval vm_compute in chain 1 (repeat 7 32).
