(* Pool/TxPoolProofs.v — the pool invariant holds after every operation sequence. *)
From Coq Require Import List Arith NArith Bool Lia Permutation.
From LE Require Import Pool.Assoc Pool.TxList Pool.TxListProofs Pool.TxPool.
Import ListNotations.
Local Open Scope N_scope.

Record PoolInv (c : cfg) (p : pool) : Prop := {
  inv_nodup : NoDup (map tid (all p));
  inv_queue : queue p = all p;
  inv_keys : NoDup (map fst (accts p));
  inv_lists : forall a L, afind a (accts p) = Some L -> ListInv (max_per c) a L /\ nonces L <> [];
  inv_all_in_list : forall t, In t (all p) ->
     exists L, afind (tsender t) (accts p) = Some L /\ afind (tnonce t) (txs L) = Some t;
  inv_list_in_all : forall a L n t, afind a (accts p) = Some L -> afind n (txs L) = Some t -> In t (all p);
  inv_size : (length (all p) <= max_txs c)%nat;
  inv_verified : forall a L n t, afind a (accts p) = Some L -> In n (procs L) -> afind n (txs L) = Some t ->
     In (tid t) (verified p)
}.

Lemma empty_inv : forall c, PoolInv c pool_empty.
Proof.
  intros. constructor; simpl; try constructor; try (intros; discriminate); try contradiction; try lia.
Qed.

Lemma same_id_same_tx : forall l u v, NoDup (map tid l) -> In u l -> In v l -> tid u = tid v -> u = v.
Proof.
  induction l as [|x r IH]; simpl; intros u v Hnd Hu Hv E; [contradiction|]. inversion Hnd; subst.
  destruct Hu as [->|Hu], Hv as [->|Hv]; auto.
  - exfalso. apply H1. rewrite E. apply in_map. auto.
  - exfalso. apply H1. rewrite <- E. apply in_map. auto.
Qed.

Lemma remove_id_In : forall id l t, In t (remove_id id l) <-> In t l /\ tid t <> id.
Proof.
  intros. unfold remove_id. rewrite filter_In. destruct (tid t =? id) eqn:E; simpl.
  - apply N.eqb_eq in E. split; [intros [_ X]; discriminate|intros [_ X]; congruence].
  - apply N.eqb_neq in E. tauto.
Qed.
Lemma remove_id_nodup : forall id l, NoDup (map tid l) -> NoDup (map tid (remove_id id l)).
Proof.
  induction l as [|x r IH]; simpl; intros H; auto. inversion H; subst. destruct (negb (tid x =? id)); simpl; auto.
  constructor; auto. intros Hin. apply H2. apply in_map_iff in Hin. destruct Hin as (y & Ey & Hy).
  apply remove_id_In in Hy. rewrite <- Ey. apply in_map. tauto.
Qed.
Lemma remove_id_length : forall id l, (length (remove_id id l) <= length l)%nat.
Proof. intros. unfold remove_id. induction l; simpl; auto. destruct (negb _); simpl; lia. Qed.
Lemma remove_id_length_found : forall id l ex, NoDup (map tid l) -> In ex l -> tid ex = id ->
  (length (remove_id id l) + 1 = length l)%nat.
Proof.
  unfold remove_id. induction l as [|x r IH]; simpl; intros ex Hnd Hin E; [contradiction|]. inversion Hnd; subst.
  destruct Hin as [->|Hin].
  - rewrite N.eqb_refl. simpl.
    assert (G : filter (fun t => negb (tid t =? tid ex)) r = r).
    { clear -H1. induction r as [|y r IH]; simpl; auto. destruct (tid y =? tid ex) eqn:Ey; simpl.
      - apply N.eqb_eq in Ey. exfalso. apply H1. left. auto.
      - f_equal. apply IH. intros Hc. apply H1. right. auto. }
    rewrite G. lia.
  - destruct (tid x =? tid ex) eqn:Ex.
    + apply N.eqb_eq in Ex. exfalso. apply H1. rewrite Ex. apply in_map. auto.
    + simpl. rewrite <- (IH ex H2 Hin eq_refl). lia.
Qed.

Lemma find_id_some : forall id l ex, find_id id l = Some ex -> In ex l /\ tid ex = id.
Proof. intros. unfold find_id in H. apply find_some in H. destruct H. apply N.eqb_eq in H0. auto. Qed.
Lemma find_id_none : forall id l, find_id id l = None -> forall t, In t l -> tid t <> id.
Proof. intros id l H t Ht E. unfold find_id in H. eapply find_none in H; eauto. simpl in H. apply N.eqb_neq in H. auto. Qed.

(* ---------------- removeWithoutLock ---------------- *)
Lemma remove_tx_inv : forall c id p, PoolInv c p -> PoolInv c (fst (remove_tx id p)).
Proof.
  intros c id p HI. unfold remove_tx. destruct (find_id id (all p)) as [ex|] eqn:Ef; [|exact HI].
  destruct (find_id_some _ _ _ Ef) as [Hex Hid]. destruct HI as [I1 I2 I3 I4 I5 I6 I7 I8].
  destruct (I5 ex Hex) as (L & HL & HLn). rewrite HL.
  destruct (I4 _ _ HL) as [HLI HLne].
  set (L' := fst (list_remove (tnonce ex) L)).
  assert (HL'I : ListInv (max_per c) (tsender ex) L') by (apply list_remove_inv; auto).
  assert (Hfind : forall k, afind k (txs L') = if tnonce ex =? k then None else afind k (txs L)) by (intros; apply list_remove_afind).
  (* facts shared by both branches *)
  assert (Hkeep : forall t, In t (remove_id id (all p)) -> tsender t = tsender ex ->
            afind (tnonce t) (txs L') = Some t).
  { intros t Ht Hs. apply remove_id_In in Ht. destruct Ht as [Ht Hne]. destruct (I5 t Ht) as (L0 & HL0 & Hn0).
    rewrite Hs, HL in HL0. inversion HL0; subst L0. rewrite Hfind.
    destruct (tnonce ex =? tnonce t) eqn:En; auto. apply N.eqb_eq in En. rewrite <- En, HLn in Hn0. inversion Hn0; subst. congruence. }
  assert (Hback : forall n u, afind n (txs L') = Some u -> In u (remove_id id (all p))).
  { intros n u Hu. rewrite Hfind in Hu. destruct (tnonce ex =? n) eqn:En; [discriminate|]. apply N.eqb_neq in En.
    apply remove_id_In. split; [eapply I6; eauto|]. intros Eid.
    assert (Hu_all : In u (all p)) by (eapply I6; eauto).
    assert (u = ex) by (apply (same_id_same_tx (all p)); auto; congruence). subst u.
    destruct HLI as (HL1 & _). destruct (HL1 _ _ Hu). congruence. }
  assert (Hother : forall a' L0 n u, a' <> tsender ex -> afind a' (accts p) = Some L0 -> afind n (txs L0) = Some u ->
            In u (remove_id id (all p))).
  { intros a' L0 n u Hne HL0 Hu. apply remove_id_In. split; [eapply I6; eauto|]. intros Eid.
    assert (Hu_all : In u (all p)) by (eapply I6; eauto).
    assert (u = ex) by (apply (same_id_same_tx (all p)); auto; congruence). subst u.
    destruct (I4 _ _ HL0) as ((HL1 & _) & _). destruct (HL1 _ _ Hu). congruence. }
  assert (Hver : forall n u, In n (procs L') -> afind n (txs L') = Some u -> In (tid u) (verified p)).
  { intros n u Hn Hu. destruct (list_remove_procs _ _ _ _ _ HLI Hn) as [Hp _]. rewrite Hfind in Hu.
    destruct (tnonce ex =? n); [discriminate|]. eapply I8; eauto. }
  destruct (l_size L' =? 0)%nat eqn:Esz; cbn [fst].
  - (* the sender list became empty and is dropped *)
    apply Nat.eqb_eq in Esz. unfold l_size in Esz.
    assert (Hnone : forall k, afind k (txs L') = None).
    { intros k. destruct (afind k (txs L')) eqn:Ek; auto. exfalso. destruct HL'I as (_ & H2 & _).
      assert (In k (nonces L')) by (apply H2; congruence). destruct (nonces L'); simpl in *; [contradiction|discriminate]. }
    constructor; cbn [all accts queue pending verified].
    + apply remove_id_nodup; auto.
    + reflexivity.
    + apply NoDup_adel; auto.
    + intros a' L0 H0. destruct (N.eq_dec (tsender ex) a') as [<-|Hne]; [rewrite afind_adel_eq in H0; discriminate|].
      rewrite afind_adel_neq in H0 by auto. auto.
    + intros t Ht. destruct (N.eq_dec (tsender ex) (tsender t)) as [Es|Hne].
      * pose proof (Hkeep t Ht (eq_sym Es)) as Hk. rewrite (Hnone (tnonce t)) in Hk. discriminate.
      * rewrite afind_adel_neq by auto. apply remove_id_In in Ht. apply I5. tauto.
    + intros a' L0 n u H0 Hu. destruct (N.eq_dec (tsender ex) a') as [<-|Hne]; [rewrite afind_adel_eq in H0; discriminate|].
      rewrite afind_adel_neq in H0 by auto. eapply Hother; eauto.
    + pose proof (remove_id_length id (all p)). lia.
    + intros a' L0 n u H0 Hn Hu. destruct (N.eq_dec (tsender ex) a') as [<-|Hne]; [rewrite afind_adel_eq in H0; discriminate|].
      rewrite afind_adel_neq in H0 by auto. eapply I8; eauto.
  - apply Nat.eqb_neq in Esz. unfold l_size in Esz.
    constructor; cbn [all accts queue pending verified].
    + apply remove_id_nodup; auto.
    + reflexivity.
    + apply NoDup_aset; auto.
    + intros a' L0 H0. destruct (N.eq_dec (tsender ex) a') as [<-|Hne].
      * rewrite afind_aset_eq in H0. inversion H0; subst L0. split; auto. intros X. rewrite X in Esz. simpl in Esz. lia.
      * rewrite afind_aset_neq in H0 by auto. auto.
    + intros t Ht. destruct (N.eq_dec (tsender ex) (tsender t)) as [Es|Hne].
      * rewrite <- Es. rewrite afind_aset_eq. exists L'. split; auto.
      * rewrite afind_aset_neq by auto. apply remove_id_In in Ht. apply I5. tauto.
    + intros a' L0 n u H0 Hu. destruct (N.eq_dec (tsender ex) a') as [<-|Hne].
      * rewrite afind_aset_eq in H0. inversion H0; subst L0. eapply Hback; eauto.
      * rewrite afind_aset_neq in H0 by auto. eapply Hother; eauto.
    + pose proof (remove_id_length id (all p)). lia.
    + intros a' L0 n u H0 Hn Hu. destruct (N.eq_dec (tsender ex) a') as [<-|Hne].
      * rewrite afind_aset_eq in H0. inversion H0; subst L0. eapply Hver; eauto.
      * rewrite afind_aset_neq in H0 by auto. eapply I8; eauto.
Qed.

Lemma remove_tx_all : forall id p, all (fst (remove_tx id p)) = remove_id id (all p).
Proof.
  intros. unfold remove_tx. destruct (find_id id (all p)) eqn:E.
  - destruct (afind (tsender t) (accts p)); [destruct (l_size _ =? 0)%nat|]; reflexivity.
  - cbn [fst]. symmetry. unfold remove_id. pose proof (find_id_none _ _ E) as Hn.
    clear E. induction (all p) as [|x r IH]; simpl; auto.
    destruct (tid x =? id) eqn:Ex; simpl.
    + apply N.eqb_eq in Ex. exfalso. apply (Hn x); [left; auto|auto].
    + f_equal. apply IH. intros t Ht. apply Hn. right. auto.
Qed.
Lemma remove_tx_verified : forall id p, verified (fst (remove_tx id p)) = verified p.
Proof.
  intros. unfold remove_tx. destruct (find_id id (all p)); auto.
  destruct (afind (tsender t) (accts p)); [destruct (l_size _ =? 0)%nat|]; reflexivity.
Qed.

(* ---------------- eviction ---------------- *)
Lemma In_afind : forall (V : Type) (l : list (N * V)) k v, NoDup (map fst l) -> In (k, v) l -> afind k l = Some v.
Proof.
  induction l as [|[k' v'] r IH]; simpl; intros k v Hnd Hin; [contradiction|]. inversion Hnd; subst.
  destruct Hin as [H|H].
  - inversion H; subst. rewrite N.eqb_refl. auto.
  - destruct (k' =? k) eqn:E; [|auto]. apply N.eqb_eq in E. subst. exfalso. apply H1.
    apply in_map_iff. exists (k, v). auto.
Qed.

Lemma pick_min_In : forall cands ch t, pick_min cands ch = Some t -> In t cands.
Proof.
  intros cands ch t H. unfold pick_min in H. destruct cands as [|c0 r]; [discriminate|].
  remember (filter (fun t0 => tprio t0 =? min_prio (c0 :: r)) (c0 :: r)) as valid eqn:Evalid.
  assert (Hv : forall x, In x valid -> In x (c0 :: r)) by (intros x Hx; subst valid; apply filter_In in Hx; tauto).
  clear Evalid.
  destruct (find (fun t0 => existsb (N.eqb (tid t0)) ch) valid) eqn:Ef.
  - inversion H; subst. apply find_some in Ef. destruct Ef as [Ef _]. apply Hv. exact Ef.
  - destruct valid as [|v0 vr].
    + inversion H; subst. left; auto.
    + inversion H; subst. apply Hv. left; auto.
Qed.
Lemma pick_min_some : forall cands ch, cands <> [] -> pick_min cands ch <> None.
Proof.
  intros cands ch H. unfold pick_min. destruct cands; [congruence|]. destruct (find _ _); [discriminate|].
  destruct (filter _ _); discriminate.
Qed.

Lemma cands_in_all : forall c p t, PoolInv c p -> In t (unprocessable_cands p) \/ In t (processable_cands p) -> In t (all p).
Proof.
  intros c p t HI H. destruct HI as [I1 I2 I3 I4 I5 I6 I7 I8]. destruct H as [H|H].
  - unfold unprocessable_cands in H. apply in_flat_map in H. destruct H as ([a L] & Hin & Ht). simpl in Ht.
    apply get_unprocessables_stored in Ht. destruct Ht as (n & Hn). apply (I6 a L n t); auto. apply In_afind; auto.
  - unfold processable_cands in H. apply in_flat_map in H. destruct H as ([a L] & Hin & Ht). simpl in Ht.
    destruct (rev (get_processables L)) as [|u r] eqn:Er; [contradiction|]. destruct Ht as [<-|[]].
    assert (In u (get_processables L)) by (apply in_rev; rewrite Er; left; auto).
    apply get_processables_stored in H. destruct H as (n & _ & Hn). apply (I6 a L n u); auto. apply In_afind; auto.
Qed.

Lemma cands_nonempty : forall c p, PoolInv c p -> all p <> [] -> unprocessable_cands p <> [] \/ processable_cands p <> [].
Proof.
  intros c p HI Hne. destruct HI as [I1 I2 I3 I4 I5 I6 I7 I8]. destruct (all p) as [|t0 r] eqn:Ea; [congruence|].
  destruct (I5 t0 (or_introl eq_refl)) as (L & HL & Hn). destruct (I4 _ _ HL) as [HLI HLne].
  pose proof (afind_In _ _ _ HL) as Hin.
  destruct (candidates_nonempty _ _ _ HLI HLne) as [H|H].
  - left. unfold unprocessable_cands. intros Hc. destruct (get_unprocessables L) as [|u us] eqn:Eu; [congruence|].
    assert (In u (flat_map (fun al => get_unprocessables (snd al)) (accts p))).
    { apply in_flat_map. exists (tsender t0, L). split; auto. simpl. rewrite Eu. left; auto. }
    rewrite Hc in H0. contradiction.
  - right. unfold processable_cands. intros Hc. destruct (rev (get_processables L)) as [|u us] eqn:Eu.
    + apply (f_equal (@rev tx)) in Eu. rewrite rev_involutive in Eu. simpl in Eu. congruence.
    + assert (In u (flat_map (fun al => match rev (get_processables (snd al)) with t :: _ => [t] | [] => [] end) (accts p))).
      { apply in_flat_map. exists (tsender t0, L). split; auto. simpl. rewrite Eu. left; auto. }
      rewrite Hc in H0. contradiction.
Qed.

Lemma evict_inv : forall c ch p, PoolInv c p -> PoolInv c (fst (evict ch p)).
Proof.
  intros. unfold evict. destruct (pick_min (unprocessable_cands p) ch); cbn [fst]; [apply remove_tx_inv; auto|].
  destruct (pick_min (processable_cands p) ch); cbn [fst]; [apply remove_tx_inv; auto|auto].
Qed.

Lemma evict_length : forall c ch p, PoolInv c p -> all p <> [] ->
  (length (all (fst (evict ch p))) + 1 = length (all p))%nat.
Proof.
  intros c ch p HI Hne. pose proof (cands_nonempty c p HI Hne) as Hc. unfold evict.
  assert (Hrm : forall t, In t (all p) -> (length (all (fst (remove_tx (tid t) p))) + 1 = length (all p))%nat).
  { intros t Ht. rewrite remove_tx_all. eapply remove_id_length_found; eauto. apply HI. }
  destruct (pick_min (unprocessable_cands p) ch) as [t|] eqn:E1; cbn [fst].
  - apply Hrm. eapply cands_in_all; eauto. left. eapply pick_min_In; eauto.
  - destruct (pick_min (processable_cands p) ch) as [t|] eqn:E2; cbn [fst].
    + apply Hrm. eapply cands_in_all; eauto. right. eapply pick_min_In; eauto.
    + exfalso. destruct Hc as [Hc|Hc]; [apply (pick_min_some _ ch) in Hc|apply (pick_min_some _ ch) in Hc]; congruence.
Qed.

Lemma evict_all_incl : forall ch p t, In t (all (fst (evict ch p))) -> In t (all p).
Proof.
  intros ch p t. unfold evict. destruct (pick_min (unprocessable_cands p) ch); cbn [fst].
  - rewrite remove_tx_all. intros H. apply remove_id_In in H. tauto.
  - destruct (pick_min (processable_cands p) ch); cbn [fst]; auto.
    rewrite remove_tx_all. intros H. apply remove_id_In in H. tauto.
Qed.

(* ---------------- Add ---------------- *)
Lemma pool_add_inv : forall c t v pub ch p, cfg_ok c -> PoolInv c p -> PoolInv c (fst (pool_add c t v pub ch p)).
Proof.
  intros c t v pub ch p [Hc1 Hc2] HI. unfold pool_add.
  destruct (existsb (fun u => tid u =? tid t) (all p)) eqn:Edup; [exact HI|].
  destruct (tprio t <? min_entrance c); [exact HI|].
  destruct ((max_txs c <=? length (all p))%nat && negb (is_nil (queue p)) && (tprio t <=? min_prio (queue p))); [exact HI|].
  destruct (is_invalid v); [exact HI|].
  destruct (slot_rejects c t p); [exact HI|].
  destruct (if (max_txs c <=? length (all p))%nat then evict ch p else (p, None)) as [p1 ev] eqn:Epe.
  assert (Hp1 : PoolInv c p1 /\ (length (all p1) + 1 <= max_txs c)%nat /\ (forall u, In u (all p1) -> In u (all p))).
  { destruct (max_txs c <=? length (all p))%nat eqn:Efull.
    - apply Nat.leb_le in Efull. assert (p1 = fst (evict ch p)) by (rewrite Epe; auto). subst p1.
      split; [apply evict_inv; auto|]. split; [|apply evict_all_incl].
      assert (all p <> []) by (destruct (all p); simpl in *; [lia|discriminate]).
      pose proof (evict_length c ch p HI H). pose proof (inv_size c p HI). lia.
    - apply Nat.leb_gt in Efull. inversion Epe; subst. split; auto. split; [lia|auto]. }
  destruct Hp1 as (HI1 & Hsz & Hincl).
  assert (Hfresh : forall u, In u (all p1) -> tid u <> tid t).
  { intros u Hu E. apply Hincl in Hu. rewrite <- not_true_iff_false in Edup. apply Edup. apply existsb_exists.
    exists u. split; auto. apply N.eqb_eq. auto. }
  clear Epe HI Hincl Edup. destruct HI1 as [I1 I2 I3 I4 I5 I6 I7 I8].
  set (L := match afind (tsender t) (accts p1) with Some L => L | None => empty_list end).
  assert (HLI : ListInv (max_per c) (tsender t) L).
  { unfold L. destruct (afind (tsender t) (accts p1)) eqn:EL; [apply (I4 _ _ EL)|apply empty_list_inv]. }
  assert (HLfound : forall n u, afind n (txs L) = Some u -> afind (tsender t) (accts p1) = Some L).
  { unfold L. destruct (afind (tsender t) (accts p1)) eqn:EL; auto. simpl. intros; discriminate. }
  assert (HLprocs : forall n, In n (procs L) -> afind (tsender t) (accts p1) = Some L).
  { unfold L. destruct (afind (tsender t) (accts p1)) eqn:EL; auto. simpl. contradiction. }
  destruct (list_add (max_per c) (min_diff c) t false L) as [[L' ok] removed] eqn:Eadd.
  destruct ok; cbn [negb fst].
  2: { destruct (afind (tsender t) (accts p1)) eqn:EL; [constructor; auto|].
       exfalso. pose proof (list_add_empty_ok (max_per c) (min_diff c) t Hc2) as Hok. unfold L in Eadd. rewrite Eadd in Hok. discriminate. }
  pose proof (list_add_inv (max_per c) (min_diff c) (tsender t) t false L Hc2 eq_refl HLI) as HL'I. rewrite Eadd in HL'I. cbn [fst] in HL'I.
  destruct (list_add_spec _ _ _ _ _ _ _ Hc2 HLI Eadd) as (S1 & S2 & S3 & S4 & S5 & _).
  set (all1 := match removed with Some rid => remove_id rid (all p1) | None => all p1 end).
  assert (F1 : forall u, In u all1 -> In u (all p1) /\ (forall rid, removed = Some rid -> tid u <> rid)).
  { intros u Hu. unfold all1 in Hu. destruct removed as [rid|]; [apply remove_id_In in Hu; split; [tauto|]|split; [auto|intros; discriminate]].
    intros r0 Hr. inversion Hr; subst. tauto. }
  assert (F2 : forall u, In u (all p1) -> (forall rid, removed = Some rid -> tid u <> rid) -> In u all1).
  { intros u Hu Hn. unfold all1. destruct removed as [rid|]; auto. apply remove_id_In. split; auto. }
  assert (F3 : NoDup (map tid all1)) by (unfold all1; destruct removed; [apply remove_id_nodup|]; auto).
  assert (F4 : (length all1 <= length (all p1))%nat) by (unfold all1; destruct removed; [apply remove_id_length|lia]).
  assert (Hq : match removed with Some _ => all1 | None => queue p1 end = all1) by (unfold all1; destruct removed; auto).
  rewrite Hq. clear Hq.
  (* the transaction whose id is [removed] sits in the sender's list *)
  assert (Hrem : forall rid u, removed = Some rid -> In u (all p1) -> tid u = rid ->
            exists k, afind k (txs L) = Some u /\ (k = tnonce t \/ afind k (txs L') = None)).
  { intros rid u Hr Hu Eu. destruct (S4 _ Hr) as (k & w & Hk & Hw & Hor). exists k.
    assert (In w (all p1)) by (eapply I6; eauto).
    assert (u = w) by (apply (same_id_same_tx (all p1)); auto; congruence). subst w. auto. }
  constructor; cbn [all accts queue pending verified].
  - rewrite map_app. simpl. apply NoDup_app_ok; auto. intros Hin. apply in_map_iff in Hin. destruct Hin as (u & Eu & Hu).
    apply F1 in Hu. apply (Hfresh u); tauto.
  - reflexivity.
  - apply NoDup_aset; auto.
  - intros a' L0 H0. destruct (N.eq_dec (tsender t) a') as [<-|Hne].
    + rewrite afind_aset_eq in H0. inversion H0; subst L0. split; auto. destruct HL'I as (_ & H2 & _).
      assert (In (tnonce t) (nonces L')) by (apply H2; congruence). intros X. rewrite X in H. contradiction.
    + rewrite afind_aset_neq in H0 by auto. auto.
  - intros u Hu. apply in_app_or in Hu. destruct Hu as [Hu|[<-|[]]].
    + destruct (F1 u Hu) as [Hu1 Hnr]. destruct (I5 u Hu1) as (Lu & HLu & Hnu).
      destruct (N.eq_dec (tsender t) (tsender u)) as [Es|Hne].
      * rewrite <- Es. rewrite afind_aset_eq. exists L'. split; auto.
        assert (Lu = L). { unfold L. rewrite Es. rewrite HLu. auto. } subst Lu.
        destruct (S3 _ _ Hnu) as [H|H]; auto. exfalso. eapply Hnr; eauto.
      * rewrite afind_aset_neq by auto. eauto.
    + rewrite afind_aset_eq. eauto.
  - intros a' L0 n u H0 Hu. apply in_or_app. destruct (N.eq_dec (tsender t) a') as [<-|Hne].
    + rewrite afind_aset_eq in H0. inversion H0; subst L0.
      destruct (N.eq_dec n (tnonce t)) as [->|Hnn].
      * rewrite S1 in Hu. inversion Hu; subst. right; left; auto.
      * left. pose proof (S2 _ _ Hnn Hu) as HuL. pose proof (HLfound _ _ HuL) as HLf.
        assert (Hu1 : In u (all p1)) by (eapply I6; eauto).
        apply F2; auto. intros rid Hr Eid. destruct (Hrem rid u Hr Hu1 Eid) as (k & Hk & Hor).
        destruct HLI as (HL1 & _). destruct (HL1 _ _ Hk) as [Ek _]. destruct (HL1 _ _ HuL) as [En _].
        assert (k = n) by congruence. subst k. destruct Hor as [X|X]; congruence.
    + rewrite afind_aset_neq in H0 by auto. left.
      assert (Hu1 : In u (all p1)) by (eapply I6; eauto).
      apply F2; auto. intros rid Hr Eid. destruct (Hrem rid u Hr Hu1 Eid) as (k & Hk & _).
      destruct HLI as (HL1 & _). destruct (HL1 _ _ Hk) as [_ Es].
      destruct (I4 _ _ H0) as ((HL01 & _) & _). destruct (HL01 _ _ Hu) as [_ Es']. congruence.
  - rewrite app_length. simpl. lia.
  - intros a' L0 n u H0 Hn Hu. destruct (N.eq_dec (tsender t) a') as [<-|Hne].
    + rewrite afind_aset_eq in H0. inversion H0; subst L0.
      destruct (S5 _ Hn) as (Hp & Hnn & Hsame). rewrite Hsame in Hu. eapply I8; eauto.
    + rewrite afind_aset_neq in H0 by auto. eapply I8; eauto.
Qed.

(* ---------------- reorg ---------------- *)
Lemma with_pending_inv : forall c p ps, PoolInv c p -> PoolInv c (with_pending p ps).
Proof. intros c p ps [I1 I2 I3 I4 I5 I6 I7 I8]. constructor; auto. Qed.
Lemma add_verified_inv : forall c p ids, PoolInv c p -> PoolInv c (add_verified ids p).
Proof.
  intros c p ids [I1 I2 I3 I4 I5 I6 I7 I8]. constructor; auto. cbn [accts verified add_verified].
  intros. apply in_or_app. right. eapply I8; eauto.
Qed.
Lemma reorg_spawn_inv : forall c p, PoolInv c p -> PoolInv c (reorg_spawn p).
Proof. intros c p HI. unfold reorg_spawn. destruct (pending p); auto. destruct HI. constructor; auto. Qed.

Lemma promote_in_inv : forall c a live ts p, PoolInv c p -> (forall u, In u ts -> In (tid u) (verified p)) ->
  PoolInv c (promote_in a live ts p).
Proof.
  intros c a live ts p HI Hv. unfold promote_in. destruct live; auto. destruct (afind a (accts p)) as [L|] eqn:EL; auto.
  destruct HI as [I1 I2 I3 I4 I5 I6 I7 I8]. destruct (list_promote_txs ts L) as [Et En].
  constructor; cbn [all accts queue pending verified]; auto.
  - apply NoDup_aset; auto.
  - intros a' L0 H0. destruct (N.eq_dec a a') as [<-|Hne].
    + rewrite afind_aset_eq in H0. inversion H0; subst L0. destruct (I4 _ _ EL). split; [apply list_promote_inv; auto|]. rewrite En. auto.
    + rewrite afind_aset_neq in H0 by auto. auto.
  - intros t Ht. destruct (I5 t Ht) as (L0 & HL0 & Hn). destruct (N.eq_dec a (tsender t)) as [Es|Hne].
    + rewrite <- Es. rewrite afind_aset_eq. exists (fst (list_promote ts L)). split; auto. rewrite Et.
      rewrite <- Es, EL in HL0. inversion HL0; subst. auto.
    + rewrite afind_aset_neq by auto. eauto.
  - intros a' L0 n t H0 Hu. destruct (N.eq_dec a a') as [<-|Hne].
    + rewrite afind_aset_eq in H0. inversion H0; subst L0. rewrite Et in Hu. eapply I6; eauto.
    + rewrite afind_aset_neq in H0 by auto. eapply I6; eauto.
  - intros a' L0 n t H0 Hn Hu. destruct (N.eq_dec a a') as [<-|Hne].
    + rewrite afind_aset_eq in H0. inversion H0; subst L0. rewrite Et in Hu.
      destruct (list_promote_new _ _ _ Hn) as [Hp|(u & ex & Hin & Enu & Hex & Eid)]; [eapply I8; eauto|].
      rewrite Hu in Hex. inversion Hex; subst ex. rewrite Eid. auto.
    + rewrite afind_aset_neq in H0 by auto. eapply I8; eauto.
Qed.

Lemma firstn_app_prefix : forall (A : Type) (l1 l2 : list A) n, (length l1 <= n)%nat ->
  firstn n (l1 ++ l2) = l1 ++ firstn (n - length l1) l2.
Proof. intros. rewrite firstn_app. rewrite firstn_all2 by auto. auto. Qed.

Lemma reorg_step_inv : forall c a vd p, PoolInv c p -> PoolInv c (reorg_step a vd p).
Proof.
  intros c a vd p HI. unfold reorg_step. destruct (find_pend a (pending p)) as [e|]; auto.
  destruct (p_stage e) as [|proms|prs proms|ids].
  - destruct (match (if p_live e then afind a (accts p) else None) with Some L => get_promotable L | None => [] end);
      apply with_pending_inv; auto.
  - apply with_pending_inv; auto.
  - destruct (first_invalid vd (prs ++ proms)) as [fid|].
    + set (fi := index_of fid (prs ++ proms)).
      assert (HI0 : PoolInv c (add_verified (map tid (firstn fi (prs ++ proms))) p)) by (apply add_verified_inv; auto).
      assert (HI1 : PoolInv c (if (length prs + 1 <=? fi)%nat
                               then promote_in a (p_live e) (firstn (fi - length prs) proms) (add_verified (map tid (firstn fi (prs ++ proms))) p)
                               else add_verified (map tid (firstn fi (prs ++ proms))) p)).
      { destruct (length prs + 1 <=? fi)%nat eqn:El; auto. apply Nat.leb_le in El. apply promote_in_inv; auto.
        intros u Hu. cbn [verified add_verified]. apply in_or_app. left. apply in_map.
        rewrite firstn_app_prefix by lia. apply in_or_app. right. auto. }
      destruct (skipn fi (prs ++ proms)); apply with_pending_inv; auto.
    + apply with_pending_inv. apply promote_in_inv; [apply add_verified_inv; auto|].
      intros u Hu. cbn [verified add_verified]. apply in_or_app. left. apply in_map. apply in_or_app. right. auto.
  - destruct ids as [|id rest]; [apply with_pending_inv; auto|].
    destruct rest; apply with_pending_inv; apply remove_tx_inv; auto.
Qed.

(* ---------------- every operation, every sequence ---------------- *)
Lemma pool_step_inv : forall c p o, cfg_ok c -> PoolInv c p -> PoolInv c (pool_step c p o).
Proof.
  intros c p o Hc HI. destruct o; simpl.
  - apply pool_add_inv; auto.
  - apply remove_tx_inv; auto.
  - apply reorg_spawn_inv; auto.
  - apply reorg_step_inv; auto.
Qed.

Theorem run_inv : forall c ops, cfg_ok c -> PoolInv c (run c ops).
Proof.
  intros c ops Hc. unfold run. assert (G : forall p, PoolInv c p -> PoolInv c (fold_left (pool_step c) ops p)).
  { induction ops as [|o r IH]; simpl; auto. intros p HI. apply IH. apply pool_step_inv; auto. }
  apply G. apply empty_inv.
Qed.

(* ---- consequences, in the words of the property ---- *)
Theorem size_bounded : forall c ops, cfg_ok c -> (length (all (run c ops)) <= max_txs c)%nat.
Proof. intros. apply inv_size. apply run_inv; auto. Qed.

Theorem per_sender_bounded : forall c ops a L, cfg_ok c -> afind a (accts (run c ops)) = Some L ->
  (length (nonces L) <= max_per c)%nat /\ (forall n, In n (nonces L) <-> afind n (txs L) <> None) /\ NoDup (nonces L).
Proof.
  intros c ops a L Hc HL. destruct (inv_lists _ _ (run_inv c ops Hc) _ _ HL) as ((_ & H2 & H3 & H & _) & _). auto.
Qed.

Theorem one_tx_per_sender_nonce : forall c ops t1 t2, cfg_ok c ->
  In t1 (all (run c ops)) -> In t2 (all (run c ops)) -> tsender t1 = tsender t2 -> tnonce t1 = tnonce t2 -> t1 = t2.
Proof.
  intros c ops t1 t2 Hc H1 H2 Es En. pose proof (run_inv c ops Hc) as HI.
  destruct (inv_all_in_list _ _ HI t1 H1) as (L1 & HL1 & Hn1). destruct (inv_all_in_list _ _ HI t2 H2) as (L2 & HL2 & Hn2).
  rewrite Es in HL1. rewrite HL1 in HL2. inversion HL2; subst. rewrite En in Hn1. congruence.
Qed.

Theorem processables_gap_free_verified : forall c ops a L, cfg_ok c -> afind a (accts (run c ops)) = Some L ->
  gap_free (procs L) /\
  forall n, In n (procs L) -> exists t, afind n (txs L) = Some t /\ In t (all (run c ops)) /\
                                       tsender t = a /\ tnonce t = n /\ In (tid t) (verified (run c ops)).
Proof.
  intros c ops a L Hc HL. pose proof (run_inv c ops Hc) as HI.
  destruct (inv_lists _ _ HI _ _ HL) as ((H1 & H2 & H3 & H4 & H5 & H6) & _). split; auto.
  intros n Hn. pose proof (H6 n Hn) as Hnn. apply H2 in Hnn. destruct (afind n (txs L)) as [t|] eqn:Et; [|congruence].
  exists t. destruct (H1 _ _ Et). repeat split; auto.
  - eapply inv_list_in_all; eauto.
  - eapply inv_verified; eauto.
Qed.

(* the ghost set really is "answered not-invalid by the verifier during a reorg step": it only grows in SReady steps,
   by ids the verdict of that step does not mark invalid *)
Lemma find_none_prefix : forall (f : tx -> bool) l x, find f l = Some x ->
  forall u, In u (firstn (index_of (tid x) l) l) -> f u = false \/ tid u = tid x.
Proof.
  induction l as [|y r IH]; simpl; intros x Hf u Hu; [discriminate|].
  destruct (f y) eqn:Ey.
  - inversion Hf; subst. rewrite N.eqb_refl in Hu. simpl in Hu. contradiction.
  - destruct (tid y =? tid x) eqn:Eid; simpl in Hu; [contradiction|]. destruct Hu as [<-|Hu]; auto.
Qed.

(* ---------------- replacement ---------------- *)
Theorem replacement_needs_fee_and_evicts_everywhere : forall c t v pub ch p rid, cfg_ok c -> PoolInv c p ->
  o_replaced (snd (pool_add c t v pub ch p)) = Some rid ->
  (exists old, In old (all p) /\ tid old = rid /\ tsender old = tsender t /\
               (tnonce old = tnonce t -> tfee old + min_diff c <= tfee t) /\
               (tnonce old <> tnonce t -> tnonce t < tnonce old)) /\
  (forall u, In u (all (fst (pool_add c t v pub ch p))) -> tid u <> rid) /\
  In t (all (fst (pool_add c t v pub ch p))).
Proof.
  intros c t v pub ch p rid [Hc1 Hc2] HI. unfold pool_add.
  destruct (existsb (fun u => tid u =? tid t) (all p)) eqn:Edup; [simpl; discriminate|].
  destruct (tprio t <? min_entrance c); [simpl; discriminate|].
  destruct ((max_txs c <=? length (all p))%nat && negb (is_nil (queue p)) && (tprio t <=? min_prio (queue p))); [simpl; discriminate|].
  destruct (is_invalid v); [simpl; discriminate|].
  destruct (slot_rejects c t p); [simpl; discriminate|].
  destruct (if (max_txs c <=? length (all p))%nat then evict ch p else (p, None)) as [p1 ev] eqn:Epe.
  assert (Hp1 : PoolInv c p1 /\ (forall u, In u (all p1) -> In u (all p))).
  { destruct (max_txs c <=? length (all p))%nat eqn:Efull.
    - assert (p1 = fst (evict ch p)) by (rewrite Epe; auto). subst p1. split; [apply evict_inv; auto|apply evict_all_incl].
    - inversion Epe; subst. split; auto. }
  destruct Hp1 as (HI1 & Hincl).
  assert (Hfresh : forall u, In u (all p1) -> tid u <> tid t).
  { intros u Hu E. apply Hincl in Hu. rewrite <- not_true_iff_false in Edup. apply Edup. apply existsb_exists.
    exists u. split; auto. apply N.eqb_eq. auto. }
  destruct HI1 as [I1 I2 I3 I4 I5 I6 I7 I8].
  set (L := match afind (tsender t) (accts p1) with Some L => L | None => empty_list end).
  assert (HLI : ListInv (max_per c) (tsender t) L).
  { unfold L. destruct (afind (tsender t) (accts p1)) eqn:EL; [apply (I4 _ _ EL)|apply empty_list_inv]. }
  assert (HLfound : forall n u, afind n (txs L) = Some u -> afind (tsender t) (accts p1) = Some L).
  { unfold L. destruct (afind (tsender t) (accts p1)) eqn:EL; auto. simpl. intros; discriminate. }
  destruct (list_add (max_per c) (min_diff c) t false L) as [[L' ok] removed] eqn:Eadd.
  destruct ok; cbn [negb fst snd]; [|simpl; discriminate].
  cbn [o_replaced]. intros Hr. subst removed.
  destruct (list_add_spec _ _ _ _ _ _ _ Hc2 HLI Eadd) as (S1 & S2 & S3 & S4 & S5 & S6 & S7).
  destruct (S4 _ eq_refl) as (k & w & Hk & Hw & Hor).
  assert (Hw1 : In w (all p1)) by (eapply I6; eauto).
  destruct HLI as (HL1 & HL2 & _). destruct (HL1 _ _ Hk) as [Ewn Ews].
  split; [|split].
  - exists w. split; [auto|]. split; [auto|]. split; [auto|]. split.
    + intros En. assert (Hk' : afind (tnonce t) (txs L) = Some w) by (rewrite <- En, Ewn; exact Hk).
      destruct (S6 _ Hk') as [_ Hfee]. auto.
    + intros Hnn. assert (Hnone : afind (tnonce t) (txs L) = None).
      { destruct (afind (tnonce t) (txs L)) as [ex|] eqn:Eex; auto. destruct (S6 _ eq_refl) as [Hrem _].
        inversion Hrem. assert (In ex (all p1)) by (eapply I6; eauto).
        assert (ex = w) by (apply (same_id_same_tx (all p1)); auto; congruence). subst ex.
        destruct (HL1 _ _ Eex). congruence. }
      (* per-account limit: the evicted one is the sender's highest nonce and the newcomer is below it *)
      unfold list_add in Eadd. rewrite Hnone in Eadd.
      destruct (max_per c <? length (nonces L) + 1)%nat; [|inversion Eadd].
      destruct (max_nonce L <? tnonce t) eqn:Emx; [inversion Eadd|]. apply N.ltb_ge in Emx.
      destruct (S7 Hnone _ eq_refl) as (Hmne & u0 & Hu0 & Eu0 & _).
      assert (In u0 (all p1)) by (eapply I6; eauto).
      assert (u0 = w) by (apply (same_id_same_tx (all p1)); auto; congruence). subst u0.
      destruct (HL1 _ _ Hu0) as [Emn _]. lia.
  - intros u Hu. apply in_app_or in Hu. destruct Hu as [Hu|[<-|[]]].
    + apply remove_id_In in Hu. tauto.
    + intros E. apply (Hfresh w Hw1). congruence.
  - apply in_or_app. right. left. auto.
Qed.

(* ---------------- processables are the sender's lowest pooled nonces ---------------- *)
Definition LowPool (p : pool) : Prop := forall a L, afind a (accts p) = Some L -> LowInv L.

Lemma remove_tx_low : forall c id p, PoolInv c p -> LowPool p -> LowPool (fst (remove_tx id p)).
Proof.
  intros c id p HI HL. unfold remove_tx. destruct (find_id id (all p)) as [ex|]; [|exact HL].
  destruct (afind (tsender ex) (accts p)) as [L|] eqn:EL; [|exact HL].
  destruct (inv_lists _ _ HI _ _ EL) as [HLI _].
  destruct (l_size _ =? 0)%nat; cbn [fst]; intros a' L0 H0; cbn [accts] in H0.
  - destruct (N.eq_dec (tsender ex) a') as [<-|Hne]; [rewrite afind_adel_eq in H0; discriminate|].
    rewrite afind_adel_neq in H0 by auto. eauto.
  - destruct (N.eq_dec (tsender ex) a') as [<-|Hne].
    + rewrite afind_aset_eq in H0. inversion H0; subst. eapply list_remove_low; eauto.
    + rewrite afind_aset_neq in H0 by auto. eauto.
Qed.

Lemma evict_low : forall c ch p, PoolInv c p -> LowPool p -> LowPool (fst (evict ch p)).
Proof.
  intros. unfold evict. destruct (pick_min (unprocessable_cands p) ch); cbn [fst]; [eapply remove_tx_low; eauto|].
  destruct (pick_min (processable_cands p) ch); cbn [fst]; [eapply remove_tx_low; eauto|auto].
Qed.

Lemma pool_add_low : forall c t v pub ch p, cfg_ok c -> PoolInv c p -> LowPool p -> LowPool (fst (pool_add c t v pub ch p)).
Proof.
  intros c t v pub ch p [Hc1 Hc2] HI HL. unfold pool_add.
  destruct (existsb (fun u => tid u =? tid t) (all p)); [exact HL|].
  destruct (tprio t <? min_entrance c); [exact HL|].
  destruct ((max_txs c <=? length (all p))%nat && negb (is_nil (queue p)) && (tprio t <=? min_prio (queue p))); [exact HL|].
  destruct (is_invalid v); [exact HL|].
  destruct (slot_rejects c t p); [exact HL|].
  destruct (if (max_txs c <=? length (all p))%nat then evict ch p else (p, None)) as [p1 ev] eqn:Epe.
  assert (Hp1 : PoolInv c p1 /\ LowPool p1).
  { destruct (max_txs c <=? length (all p))%nat.
    - assert (p1 = fst (evict ch p)) by (rewrite Epe; auto). subst p1. split; [apply evict_inv; auto|eapply evict_low; eauto].
    - inversion Epe; subst. auto. }
  destruct Hp1 as [HI1 HL1].
  set (L := match afind (tsender t) (accts p1) with Some L => L | None => empty_list end).
  assert (HLI : ListInv (max_per c) (tsender t) L).
  { unfold L. destruct (afind (tsender t) (accts p1)) eqn:EL; [apply (inv_lists _ _ HI1 _ _ EL)|apply empty_list_inv]. }
  assert (HLL : LowInv L).
  { unfold L. destruct (afind (tsender t) (accts p1)) eqn:EL; [eauto|apply empty_list_low]. }
  pose proof (list_add_low (max_per c) (min_diff c) (tsender t) t L Hc2 HLI HLL) as HL'.
  destruct (list_add (max_per c) (min_diff c) t false L) as [[L' ok] removed] eqn:Eadd. cbn [fst] in HL'.
  destruct ok; cbn [negb fst].
  - intros a' L0 H0. cbn [accts] in H0. destruct (N.eq_dec (tsender t) a') as [<-|Hne].
    + rewrite afind_aset_eq in H0. inversion H0; subst. auto.
    + rewrite afind_aset_neq in H0 by auto. eauto.
  - destruct (afind (tsender t) (accts p1)) eqn:EL; [exact HL1|].
    intros a' L0 H0. cbn [accts] in H0. destruct (N.eq_dec (tsender t) a') as [<-|Hne].
    + rewrite afind_aset_eq in H0. inversion H0; subst. apply empty_list_low.
    + rewrite afind_aset_neq in H0 by auto. eauto.
Qed.

Lemma promote_in_low : forall c a live ts p, PoolInv c p -> LowPool p -> LowPool (promote_in a live ts p).
Proof.
  intros c a live ts p HI HL. unfold promote_in. destruct live; auto. destruct (afind a (accts p)) as [L|] eqn:EL; auto.
  intros a' L0 H0. cbn [accts] in H0. destruct (N.eq_dec a a') as [<-|Hne].
  - rewrite afind_aset_eq in H0. inversion H0; subst. destruct (inv_lists _ _ HI _ _ EL). eapply list_promote_low; eauto.
  - rewrite afind_aset_neq in H0 by auto. eauto.
Qed.

Lemma reorg_step_low : forall c a vd p, PoolInv c p -> LowPool p -> LowPool (reorg_step a vd p).
Proof.
  intros c a vd p HI HL. unfold reorg_step. destruct (find_pend a (pending p)) as [e|]; auto.
  destruct (p_stage e) as [|proms|prs proms|ids].
  - destruct (match (if p_live e then afind a (accts p) else None) with Some L => get_promotable L | None => [] end); exact HL.
  - exact HL.
  - destruct (first_invalid vd (prs ++ proms)) as [fid|].
    + set (fi := index_of fid (prs ++ proms)).
      assert (H1 : LowPool (if (length prs + 1 <=? fi)%nat
                            then promote_in a (p_live e) (firstn (fi - length prs) proms) (add_verified (map tid (firstn fi (prs ++ proms))) p)
                            else add_verified (map tid (firstn fi (prs ++ proms))) p)).
      { destruct (length prs + 1 <=? fi)%nat; [|exact HL]. eapply promote_in_low; [apply add_verified_inv; eauto|exact HL]. }
      destruct (skipn fi (prs ++ proms)); exact H1.
    + cbn [with_pending accts]. intros a' L0 H0. eapply (promote_in_low c a (p_live e) proms (add_verified (map tid (prs ++ proms)) p)); eauto.
      apply add_verified_inv; auto.
  - destruct ids as [|id rest]; [exact HL|]. destruct rest; cbn [with_pending]; intros a' L0 H0; cbn [accts] in H0;
      eapply (remove_tx_low c id p); eauto.
Qed.

Theorem run_low : forall c ops, cfg_ok c -> LowPool (run c ops).
Proof.
  intros c ops Hc. unfold run.
  assert (G : forall p, PoolInv c p -> LowPool p -> PoolInv c (fold_left (pool_step c) ops p) /\ LowPool (fold_left (pool_step c) ops p)).
  { induction ops as [|o r IH]; simpl; auto. intros p HI HL. apply IH; [apply pool_step_inv; auto|].
    destruct o; simpl.
    - apply pool_add_low; auto.
    - eapply remove_tx_low; eauto.
    - unfold reorg_spawn. destruct (pending p); exact HL.
    - eapply reorg_step_low; eauto. }
  apply G; [apply empty_inv|]. intros a L H. simpl in H. discriminate.
Qed.

(* every pooled nonce of a sender below one of its processable nonces is processable too:
   together with gap-freeness, the processables are exactly the sender's lowest pooled nonces *)
Theorem processables_are_lowest : forall c ops a L, cfg_ok c -> afind a (accts (run c ops)) = Some L ->
  forall n p, In n (nonces L) -> In p (procs L) -> n < p -> In n (procs L).
Proof. intros c ops a L Hc HL. exact (run_low c ops Hc a L HL). Qed.


(* ---------------- replacement, read off the STATES (not off the operation's own report) ---------------- *)
Lemma same_slot_unique : forall c p a b, PoolInv c p -> In a (all p) -> In b (all p) ->
  tsender a = tsender b -> tnonce a = tnonce b -> a = b.
Proof.
  intros c p a b HI Ha Hb Es En.
  destruct (inv_all_in_list _ _ HI a Ha) as (L1 & HL1 & Hn1). destruct (inv_all_in_list _ _ HI b Hb) as (L2 & HL2 & Hn2).
  rewrite Es in HL1. rewrite HL1 in HL2. inversion HL2; subst. rewrite En in Hn1. congruence.
Qed.

Lemma slot_rejects_noop : forall c t v pub ch p, slot_rejects c t p = true -> fst (pool_add c t v pub ch p) = p.
Proof.
  intros c t v pub ch p H. unfold pool_add.
  destruct (existsb _ (all p)); auto. destruct (tprio t <? min_entrance c); auto.
  destruct ((max_txs c <=? length (all p))%nat && negb (is_nil (queue p)) && (tprio t <=? min_prio (queue p))); auto.
  destruct (is_invalid v); auto. rewrite H. auto.
Qed.

(* whenever a pooled transaction [old] and a newcomer [t] share sender and nonce and [t] is pooled after the Add, then
   [t] pays at least old's fee plus the configured difference and [old] is gone - whichever path (replacement inside the
   sender list, or capacity eviction of [old] followed by a fresh insertion) the Add took *)
Theorem replacement_state_based : forall c t v pub ch p old, cfg_ok c -> PoolInv c p ->
  In old (all p) -> tsender old = tsender t -> tnonce old = tnonce t -> tid old <> tid t ->
  In t (all (fst (pool_add c t v pub ch p))) ->
  tfee old + min_diff c <= tfee t /\ ~ In old (all (fst (pool_add c t v pub ch p))).
Proof.
  intros c t v pub ch p old Hc HI Hold Es En Hid Ht.
  assert (Hne : old <> t) by (intros ->; congruence).
  split.
  - destruct (slot_rejects c t p) eqn:Esr.
    + rewrite (slot_rejects_noop _ _ v pub ch _ Esr) in Ht. exfalso. apply Hne. eapply same_slot_unique; eauto.
    + unfold slot_rejects in Esr. destruct (inv_all_in_list _ _ HI old Hold) as (L & HL & Hn).
      rewrite <- Es, HL in Esr. rewrite <- En, Hn in Esr. apply orb_false_iff in Esr. destruct Esr as [E1 E2].
      apply N.ltb_ge in E1. apply N.ltb_ge in E2. lia.
  - intros Hin. apply Hne. eapply (same_slot_unique c (fst (pool_add c t v pub ch p))); eauto. apply pool_add_inv; auto.
Qed.
