(* Pool/TxPoolProofs.v — the pool invariant holds after every operation sequence. *)
From Coq Require Import List Arith NArith Bool Lia Permutation.
From LE Require Import Pool.Assoc Pool.TxList Pool.TxListProofs Pool.TxPool.
Import ListNotations.
Local Open Scope N_scope.

Record PoolInv (c : cfg) (p : pool) : Prop := {
  inv_nodup : NoDup (map tid (all p));
  inv_queue : queue p = all p;
  inv_keys : NoDup (map fst (accts p));
  inv_lists : forall a L, afind a (accts p) = Some L -> ListInv (max_per c) a L /\ nonces L <> [];
  inv_all_in_list : forall t, In t (all p) ->
     exists L, afind (tsender t) (accts p) = Some L /\ afind (tnonce t) (txs L) = Some t;
  inv_list_in_all : forall a L n t, afind a (accts p) = Some L -> afind n (txs L) = Some t -> In t (all p);
  inv_size : (length (all p) <= max_txs c)%nat;
  inv_verified : forall a L n t, afind a (accts p) = Some L -> In n (procs L) -> afind n (txs L) = Some t ->
     In (tid t) (verified p)
}.

Lemma empty_inv : forall c, PoolInv c pool_empty.
Proof.
  intros. constructor; simpl; try constructor; try (intros; discriminate); try contradiction; try lia.
Qed.

Lemma same_id_same_tx : forall l u v, NoDup (map tid l) -> In u l -> In v l -> tid u = tid v -> u = v.
Proof.
  induction l as [|x r IH]; simpl; intros u v Hnd Hu Hv E; [contradiction|]. inversion Hnd; subst.
  destruct Hu as [->|Hu], Hv as [->|Hv]; auto.
  - exfalso. apply H1. rewrite E. apply in_map. auto.
  - exfalso. apply H1. rewrite <- E. apply in_map. auto.
Qed.

Lemma remove_id_In : forall id l t, In t (remove_id id l) <-> In t l /\ tid t <> id.
Proof.
  intros. unfold remove_id. rewrite filter_In. destruct (tid t =? id) eqn:E; simpl.
  - apply N.eqb_eq in E. split; [intros [_ X]; discriminate|intros [_ X]; congruence].
  - apply N.eqb_neq in E. tauto.
Qed.
Lemma remove_id_nodup : forall id l, NoDup (map tid l) -> NoDup (map tid (remove_id id l)).
Proof.
  induction l as [|x r IH]; simpl; intros H; auto. inversion H; subst. destruct (negb (tid x =? id)); simpl; auto.
  constructor; auto. intros Hin. apply H2. apply in_map_iff in Hin. destruct Hin as (y & Ey & Hy).
  apply remove_id_In in Hy. rewrite <- Ey. apply in_map. tauto.
Qed.
Lemma remove_id_length : forall id l, (length (remove_id id l) <= length l)%nat.
Proof. intros. unfold remove_id. induction l; simpl; auto. destruct (negb _); simpl; lia. Qed.
Lemma remove_id_length_found : forall id l ex, NoDup (map tid l) -> In ex l -> tid ex = id ->
  (length (remove_id id l) + 1 = length l)%nat.
Proof.
  unfold remove_id. induction l as [|x r IH]; simpl; intros ex Hnd Hin E; [contradiction|]. inversion Hnd; subst.
  destruct Hin as [->|Hin].
  - rewrite N.eqb_refl. simpl.
    assert (G : filter (fun t => negb (tid t =? tid ex)) r = r).
    { clear -H1. induction r as [|y r IH]; simpl; auto. destruct (tid y =? tid ex) eqn:Ey; simpl.
      - apply N.eqb_eq in Ey. exfalso. apply H1. left. auto.
      - f_equal. apply IH. intros Hc. apply H1. right. auto. }
    rewrite G. lia.
  - destruct (tid x =? tid ex) eqn:Ex.
    + apply N.eqb_eq in Ex. exfalso. apply H1. rewrite Ex. apply in_map. auto.
    + simpl. rewrite <- (IH ex H2 Hin eq_refl). lia.
Qed.

Lemma find_id_some : forall id l ex, find_id id l = Some ex -> In ex l /\ tid ex = id.
Proof. intros. unfold find_id in H. apply find_some in H. destruct H. apply N.eqb_eq in H0. auto. Qed.
Lemma find_id_none : forall id l, find_id id l = None -> forall t, In t l -> tid t <> id.
Proof. intros id l H t Ht E. unfold find_id in H. eapply find_none in H; eauto. simpl in H. apply N.eqb_neq in H. auto. Qed.

(* ---------------- removeWithoutLock ---------------- *)
Lemma remove_tx_inv : forall c id p, PoolInv c p -> PoolInv c (fst (remove_tx id p)).
Proof.
  intros c id p HI. unfold remove_tx. destruct (find_id id (all p)) as [ex|] eqn:Ef; [|exact HI].
  destruct (find_id_some _ _ _ Ef) as [Hex Hid]. destruct HI as [I1 I2 I3 I4 I5 I6 I7 I8].
  destruct (I5 ex Hex) as (L & HL & HLn). rewrite HL.
  destruct (I4 _ _ HL) as [HLI HLne].
  set (L' := fst (list_remove (tnonce ex) L)).
  assert (HL'I : ListInv (max_per c) (tsender ex) L') by (apply list_remove_inv; auto).
  assert (Hfind : forall k, afind k (txs L') = if tnonce ex =? k then None else afind k (txs L)) by (intros; apply list_remove_afind).
  (* facts shared by both branches *)
  assert (Hkeep : forall t, In t (remove_id id (all p)) -> tsender t = tsender ex ->
            afind (tnonce t) (txs L') = Some t).
  { intros t Ht Hs. apply remove_id_In in Ht. destruct Ht as [Ht Hne]. destruct (I5 t Ht) as (L0 & HL0 & Hn0).
    rewrite Hs, HL in HL0. inversion HL0; subst L0. rewrite Hfind.
    destruct (tnonce ex =? tnonce t) eqn:En; auto. apply N.eqb_eq in En. rewrite <- En, HLn in Hn0. inversion Hn0; subst. congruence. }
  assert (Hback : forall n u, afind n (txs L') = Some u -> In u (remove_id id (all p))).
  { intros n u Hu. rewrite Hfind in Hu. destruct (tnonce ex =? n) eqn:En; [discriminate|]. apply N.eqb_neq in En.
    apply remove_id_In. split; [eapply I6; eauto|]. intros Eid.
    assert (Hu_all : In u (all p)) by (eapply I6; eauto).
    assert (u = ex) by (apply (same_id_same_tx (all p)); auto; congruence). subst u.
    destruct HLI as (HL1 & _). destruct (HL1 _ _ Hu). congruence. }
  assert (Hother : forall a' L0 n u, a' <> tsender ex -> afind a' (accts p) = Some L0 -> afind n (txs L0) = Some u ->
            In u (remove_id id (all p))).
  { intros a' L0 n u Hne HL0 Hu. apply remove_id_In. split; [eapply I6; eauto|]. intros Eid.
    assert (Hu_all : In u (all p)) by (eapply I6; eauto).
    assert (u = ex) by (apply (same_id_same_tx (all p)); auto; congruence). subst u.
    destruct (I4 _ _ HL0) as ((HL1 & _) & _). destruct (HL1 _ _ Hu). congruence. }
  assert (Hver : forall n u, In n (procs L') -> afind n (txs L') = Some u -> In (tid u) (verified p)).
  { intros n u Hn Hu. destruct (list_remove_procs _ _ _ _ _ HLI Hn) as [Hp _]. rewrite Hfind in Hu.
    destruct (tnonce ex =? n); [discriminate|]. eapply I8; eauto. }
  destruct (l_size L' =? 0)%nat eqn:Esz; cbn [fst].
  - (* the sender list became empty and is dropped *)
    apply Nat.eqb_eq in Esz. unfold l_size in Esz.
    assert (Hnone : forall k, afind k (txs L') = None).
    { intros k. destruct (afind k (txs L')) eqn:Ek; auto. exfalso. destruct HL'I as (_ & H2 & _).
      assert (In k (nonces L')) by (apply H2; congruence). destruct (nonces L'); simpl in *; [contradiction|discriminate]. }
    constructor; cbn [all accts queue pending verified].
    + apply remove_id_nodup; auto.
    + reflexivity.
    + apply NoDup_adel; auto.
    + intros a' L0 H0. destruct (N.eq_dec (tsender ex) a') as [<-|Hne]; [rewrite afind_adel_eq in H0; discriminate|].
      rewrite afind_adel_neq in H0 by auto. auto.
    + intros t Ht. destruct (N.eq_dec (tsender ex) (tsender t)) as [Es|Hne].
      * rewrite (Hnone (tnonce t)) in (Hkeep t Ht (eq_sym Es)). discriminate.
      * rewrite afind_adel_neq by auto. apply remove_id_In in Ht. apply I5. tauto.
    + intros a' L0 n u H0 Hu. destruct (N.eq_dec (tsender ex) a') as [<-|Hne]; [rewrite afind_adel_eq in H0; discriminate|].
      rewrite afind_adel_neq in H0 by auto. eapply Hother; eauto.
    + pose proof (remove_id_length id (all p)). lia.
    + intros a' L0 n u H0 Hn Hu. destruct (N.eq_dec (tsender ex) a') as [<-|Hne]; [rewrite afind_adel_eq in H0; discriminate|].
      rewrite afind_adel_neq in H0 by auto. eapply I8; eauto.
  - apply Nat.eqb_neq in Esz. unfold l_size in Esz.
    constructor; cbn [all accts queue pending verified].
    + apply remove_id_nodup; auto.
    + reflexivity.
    + apply NoDup_aset; auto.
    + intros a' L0 H0. destruct (N.eq_dec (tsender ex) a') as [<-|Hne].
      * rewrite afind_aset_eq in H0. inversion H0; subst L0. split; auto. intros X. rewrite X in Esz. simpl in Esz. lia.
      * rewrite afind_aset_neq in H0 by auto. auto.
    + intros t Ht. destruct (N.eq_dec (tsender ex) (tsender t)) as [Es|Hne].
      * rewrite <- Es. rewrite afind_aset_eq. exists L'. split; auto.
      * rewrite afind_aset_neq by auto. apply remove_id_In in Ht. apply I5. tauto.
    + intros a' L0 n u H0 Hu. destruct (N.eq_dec (tsender ex) a') as [<-|Hne].
      * rewrite afind_aset_eq in H0. inversion H0; subst L0. eapply Hback; eauto.
      * rewrite afind_aset_neq in H0 by auto. eapply Hother; eauto.
    + pose proof (remove_id_length id (all p)). lia.
    + intros a' L0 n u H0 Hn Hu. destruct (N.eq_dec (tsender ex) a') as [<-|Hne].
      * rewrite afind_aset_eq in H0. inversion H0; subst L0. eapply Hver; eauto.
      * rewrite afind_aset_neq in H0 by auto. eapply I8; eauto.
Qed.

Lemma remove_tx_all : forall id p, all (fst (remove_tx id p)) = remove_id id (all p).
Proof.
  intros. unfold remove_tx. destruct (find_id id (all p)) eqn:E.
  - destruct (afind (tsender t) (accts p)); [destruct (l_size _ =? 0)%nat|]; reflexivity.
  - cbn [fst]. symmetry. unfold remove_id. pose proof (find_id_none _ _ E) as Hn.
    clear E. induction (all p) as [|x r IH]; simpl; auto.
    destruct (tid x =? id) eqn:Ex; simpl.
    + apply N.eqb_eq in Ex. exfalso. apply (Hn x); [left; auto|auto].
    + f_equal. apply IH. intros t Ht. apply Hn. right. auto.
Qed.
Lemma remove_tx_verified : forall id p, verified (fst (remove_tx id p)) = verified p.
Proof.
  intros. unfold remove_tx. destruct (find_id id (all p)); auto.
  destruct (afind (tsender t) (accts p)); [destruct (l_size _ =? 0)%nat|]; reflexivity.
Qed.
