(* Pool/Assoc.v — association lists keyed by N (Go maps; iteration order is never observable) and insertion sort on N. *)
From Coq Require Import List NArith Bool Lia Permutation Sorted.
Import ListNotations.
Local Open Scope N_scope.

Section Assoc.
Context {V : Type}.
Fixpoint afind (k : N) (l : list (N * V)) : option V :=
  match l with [] => None | (k', v) :: r => if k' =? k then Some v else afind k r end.
Fixpoint adel (k : N) (l : list (N * V)) : list (N * V) :=
  match l with [] => [] | (k', v) :: r => if k' =? k then adel k r else (k', v) :: adel k r end.
Definition aset (k : N) (v : V) (l : list (N * V)) : list (N * V) := (k, v) :: adel k l.

Lemma afind_adel_eq : forall k l, afind k (adel k l) = None.
Proof. induction l as [|[k' v] r IH]; simpl; auto. destruct (k' =? k) eqn:E; simpl; auto. rewrite E. auto. Qed.
Lemma afind_adel_neq : forall k k' l, k <> k' -> afind k' (adel k l) = afind k' l.
Proof.
  induction l as [|[k0 v] r IH]; simpl; intros; auto. destruct (k0 =? k) eqn:E.
  - apply N.eqb_eq in E. subst. destruct (k =? k') eqn:E'; [apply N.eqb_eq in E'; congruence|auto].
  - simpl. destruct (k0 =? k'); auto.
Qed.
Lemma afind_aset_eq : forall k v l, afind k (aset k v l) = Some v.
Proof. intros. unfold aset. simpl. rewrite N.eqb_refl. auto. Qed.
Lemma afind_aset_neq : forall k k' v l, k <> k' -> afind k' (aset k v l) = afind k' l.
Proof.
  intros. unfold aset. simpl. destruct (k =? k') eqn:E; [apply N.eqb_eq in E; congruence|]. apply afind_adel_neq; auto.
Qed.
Lemma afind_In : forall k v l, afind k l = Some v -> In (k, v) l.
Proof.
  induction l as [|[k' v'] r IH]; simpl; intros H; [discriminate|]. destruct (k' =? k) eqn:E.
  - apply N.eqb_eq in E. inversion H; subst. auto.
  - auto.
Qed.
Lemma In_afind_some : forall k v l, In (k, v) l -> afind k l <> None.
Proof.
  induction l as [|[k' v'] r IH]; simpl; intros H; [contradiction|]. destruct (k' =? k) eqn:E; [discriminate|].
  destruct H as [H|H]; [inversion H; subst; rewrite N.eqb_refl in E; discriminate|auto].
Qed.
Lemma adel_keys_incl : forall k l x, In x (map fst (adel k l)) -> In x (map fst l).
Proof.
  induction l as [|[k' v] r IH]; simpl; intros x H; auto. destruct (k' =? k); simpl in *; [right; auto|].
  destruct H; auto.
Qed.
Lemma adel_not_key : forall k l, ~ In k (map fst (adel k l)).
Proof.
  induction l as [|[k' v] r IH]; simpl; auto. destruct (k' =? k) eqn:E; auto. simpl. intros [H|H]; auto.
  subst. rewrite N.eqb_refl in E. discriminate.
Qed.
Lemma NoDup_adel : forall k l, NoDup (map fst l) -> NoDup (map fst (adel k l)).
Proof.
  induction l as [|[k' v] r IH]; simpl; intros H; auto. inversion H; subst. destruct (k' =? k); auto.
  simpl. constructor; auto. intros Hin. apply H2. eapply adel_keys_incl; eauto.
Qed.
Lemma NoDup_aset : forall k v l, NoDup (map fst l) -> NoDup (map fst (aset k v l)).
Proof. intros. unfold aset. simpl. constructor; [apply adel_not_key|apply NoDup_adel; auto]. Qed.
Lemma afind_key_in : forall k l, afind k l <> None <-> In k (map fst l).
Proof.
  induction l as [|[k' v] r IH]; simpl; [tauto|]. destruct (k' =? k) eqn:E.
  - apply N.eqb_eq in E. subst. split; auto. intros _. discriminate.
  - rewrite IH. split; auto. intros [H|H]; auto. subst. rewrite N.eqb_refl in E. discriminate.
Qed.
End Assoc.

(* ---- insertion sort ---- *)
Fixpoint insert (x : N) (l : list N) : list N :=
  match l with [] => [x] | y :: r => if x <=? y then x :: l else y :: insert x r end.
Definition sortN (l : list N) : list N := fold_right insert [] l.

Lemma insert_perm : forall x l, Permutation (insert x l) (x :: l).
Proof.
  induction l as [|y r IH]; simpl; auto. destruct (x <=? y); auto.
  eapply perm_trans; [apply perm_skip; exact IH|apply perm_swap].
Qed.
Lemma sortN_perm : forall l, Permutation (sortN l) l.
Proof. induction l; simpl; auto. eapply perm_trans; [apply insert_perm|auto]. Qed.
Lemma sortN_length : forall l, length (sortN l) = length l.
Proof. intros. apply Permutation_length. apply sortN_perm. Qed.
Lemma sortN_In : forall x l, In x (sortN l) <-> In x l.
Proof. intros. split; apply Permutation_in; [apply sortN_perm|apply Permutation_sym, sortN_perm]. Qed.

Lemma insert_sorted : forall x l, Sorted N.le l -> Sorted N.le (insert x l).
Proof.
  induction l as [|y r IH]; simpl; intros H; [repeat constructor|].
  destruct (x <=? y) eqn:E.
  - apply N.leb_le in E. constructor; auto.
  - apply N.leb_gt in E. inversion H; subst. constructor; auto.
    destruct r as [|z r']; simpl in *; [constructor; lia|].
    destruct (x <=? z); constructor; try lia. inversion H3; auto.
Qed.
Lemma sortN_sorted : forall l, Sorted N.le (sortN l).
Proof. induction l; simpl; [constructor|apply insert_sorted; auto]. Qed.

(* strictly ascending by steps of exactly one: a gap-free run *)
Fixpoint gap_free (l : list N) : Prop :=
  match l with
  | x :: (y :: _) as r => y = x + 1 /\ gap_free r
  | _ => True
  end.

Lemma gap_free_tail : forall x l, gap_free (x :: l) -> gap_free l.
Proof. intros x [|y r]; simpl; tauto. Qed.
Lemma gap_free_lt : forall l x z, gap_free (x :: l) -> In z l -> x < z.
Proof.
  induction l as [|y r IH]; simpl; intros x z H Hin; [contradiction|]. destruct H as [-> H]. destruct Hin as [<-|Hin]; [lia|].
  specialize (IH _ _ H Hin). lia.
Qed.
Lemma gap_free_NoDup : forall l, gap_free l -> NoDup l.
Proof.
  induction l as [|x r IH]; intros H; constructor.
  - intros Hin. pose proof (gap_free_lt _ _ _ H Hin). lia.
  - apply IH. eapply gap_free_tail; eauto.
Qed.
Lemma insert_lt_head : forall x y r, x < y -> insert x (y :: r) = x :: y :: r.
Proof. intros. simpl. destruct (x <=? y) eqn:E; auto. apply N.leb_gt in E. lia. Qed.
Lemma sortN_gap_free_id : forall l, gap_free l -> sortN l = l.
Proof.
  induction l as [|x r IH]; intros H; simpl; auto. rewrite IH by (eapply gap_free_tail; eauto).
  destruct r as [|y r']; simpl; auto. destruct H as [-> _]. destruct (x <=? x + 1) eqn:E; auto. apply N.leb_gt in E. lia.
Qed.
Lemma filter_lt_none : forall t l, (forall z, In z l -> t <= z) -> filter (fun n => n <? t) l = [].
Proof.
  induction l as [|z r IH]; simpl; intros H; auto. destruct (z <? t) eqn:E.
  - apply N.ltb_lt in E. specialize (H z (or_introl eq_refl)). lia.
  - apply IH. intros; apply H; auto.
Qed.
Lemma filter_lt_gap_free : forall t l, gap_free l -> gap_free (filter (fun n => n <? t) l).
Proof.
  induction l as [|x r IH]; intros H; simpl; auto.
  pose proof (IH (gap_free_tail _ _ H)) as IHr.
  destruct (x <? t) eqn:E; auto.
  destruct r as [|y r']; simpl in *; auto. destruct H as [-> H].
  destruct (x + 1 <? t) eqn:E2; simpl; auto.
  apply N.ltb_ge in E2. rewrite filter_lt_none; simpl; auto.
  intros z Hz. pose proof (gap_free_lt _ _ _ H Hz). lia.
Qed.
