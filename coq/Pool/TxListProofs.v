(* Pool/TxListProofs.v — invariants of one sender list, preserved by every list operation. *)
From Coq Require Import List Arith NArith Bool Lia Permutation Sorted.
From LE Require Import Pool.Assoc Pool.TxList.
Import ListNotations.
Local Open Scope N_scope.

Definition ListInv (max_size : nat) (a : N) (L : txlist) : Prop :=
  (forall n t, afind n (txs L) = Some t -> tnonce t = n /\ tsender t = a) /\
  (forall n, In n (nonces L) <-> afind n (txs L) <> None) /\
  NoDup (nonces L) /\
  (length (nonces L) <= max_size)%nat /\
  gap_free (procs L) /\
  (forall n, In n (procs L) -> In n (nonces L)).

Lemma empty_list_inv : forall m a, ListInv m a empty_list.
Proof.
  intros. unfold ListInv, empty_list; simpl.
  split; [intros; discriminate|]. split; [intros n; split; [contradiction|intros H; exfalso; apply H; auto]|].
  split; [constructor|]. split; [lia|]. split; [exact I|contradiction].
Qed.

(* ---- demote ---- *)
Lemma demote_eq : forall t ps, gap_free ps -> demote t ps = filter (fun n => n <? t) ps.
Proof. intros. unfold demote. apply sortN_gap_free_id. apply filter_lt_gap_free. auto. Qed.
Lemma demote_gap_free : forall t ps, gap_free ps -> gap_free (demote t ps).
Proof. intros. rewrite demote_eq by auto. apply filter_lt_gap_free. auto. Qed.
Lemma demote_In : forall t ps n, gap_free ps -> In n (demote t ps) -> In n ps /\ n < t.
Proof. intros t ps n H Hin. rewrite demote_eq in Hin by auto. apply filter_In in Hin. destruct Hin. split; auto. apply N.ltb_lt; auto. Qed.

(* ---- filter / NoDup / length ---- *)
Lemma filter_neq_length : forall x (l : list N), NoDup l -> In x l ->
  (length (filter (fun n => negb (N.eqb n x)) l) + 1 = length l)%nat.
Proof.
  induction l as [|y r IH]; intros Hnd Hin; [contradiction|]. inversion Hnd; subst. simpl.
  destruct (y =? x) eqn:E; simpl.
  - apply N.eqb_eq in E. subst.
    assert (G : filter (fun n => negb (n =? x)) r = r).
    { clear -H1. induction r as [|z r IH]; simpl; auto. destruct (z =? x) eqn:Ez; simpl.
      - apply N.eqb_eq in Ez. subst. exfalso. apply H1. left; auto.
      - f_equal. apply IH. intros Hc. apply H1. right; auto. }
    rewrite G. lia.
  - destruct Hin as [->|Hin]; [rewrite N.eqb_refl in E; discriminate|]. rewrite <- (IH H2 Hin). lia.
Qed.
Lemma filter_length_le : forall (f : N -> bool) l, (length (filter f l) <= length l)%nat.
Proof. induction l; simpl; auto. destruct (f a); simpl; lia. Qed.

Lemma max_nonce_ge : forall l acc, acc <= fold_left N.max l acc /\ forall x, In x l -> x <= fold_left N.max l acc.
Proof.
  induction l as [|y r IH]; simpl; intros acc; [split; [lia|contradiction]|].
  destruct (IH (N.max acc y)) as [H1 H2]. split; [lia|]. intros x [->|Hx]; [lia|auto].
Qed.
Lemma max_nonce_in : forall l acc, fold_left N.max l acc = acc \/ In (fold_left N.max l acc) l.
Proof.
  induction l as [|y r IH]; simpl; intros acc; auto.
  destruct (IH (N.max acc y)) as [H|H]; auto. rewrite H.
  destruct (N.max_spec acc y) as [[_ E]|[_ E]]; rewrite E; auto.
Qed.
Lemma max_nonce_In : forall L, nonces L <> [] -> In (max_nonce L) (nonces L).
Proof.
  intros L Hne. unfold max_nonce. destruct (max_nonce_in (nonces L) 0) as [H|H]; auto.
  destruct (nonces L) as [|y r] eqn:E; [congruence|].
  destruct (max_nonce_ge (y :: r) 0) as [_ Hge]. rewrite H in Hge.
  assert (y = 0) by (specialize (Hge y (or_introl eq_refl)); lia). subst. rewrite H. left; auto.
Qed.

(* ---- remove ---- *)
Lemma list_remove_inv : forall m a n L, ListInv m a L -> ListInv m a (fst (list_remove n L)).
Proof.
  intros m a n L (H1 & H2 & H3 & H4 & H5 & H6). unfold list_remove. destruct (afind n (txs L)) as [ex|] eqn:E; simpl.
  2: { unfold ListInv. tauto. }
  unfold ListInv; simpl. split; [|split; [|split; [|split; [|split]]]].
  - intros k t Hk. destruct (N.eq_dec n k) as [->|Hne]; [rewrite afind_adel_eq in Hk; discriminate|].
    rewrite afind_adel_neq in Hk by auto. auto.
  - intros k. rewrite filter_In. rewrite H2. destruct (N.eq_dec n k) as [->|Hne].
    + rewrite afind_adel_eq, N.eqb_refl. simpl. split; [intros [_ X]; discriminate|congruence].
    + rewrite afind_adel_neq by auto. destruct (k =? n) eqn:Ek; [apply N.eqb_eq in Ek; congruence|]. simpl. tauto.
  - apply NoDup_filter. auto.
  - pose proof (filter_length_le (fun k => negb (k =? n)) (nonces L)). lia.
  - apply demote_gap_free; auto.
  - intros k Hk. destruct (demote_In _ _ _ H5 Hk) as [Hp Hlt]. apply filter_In. split; auto.
    destruct (k =? n) eqn:Ek; auto. apply N.eqb_eq in Ek. lia.
Qed.

Lemma list_remove_found : forall n L ex, afind n (txs L) = Some ex ->
  list_remove n L = (mkL (adel n (txs L)) (filter (fun k => negb (k =? n)) (nonces L)) (demote n (procs L)), Some (tid ex)).
Proof. intros. unfold list_remove. rewrite H. auto. Qed.

Lemma list_remove_length : forall m a n L ex, ListInv m a L -> afind n (txs L) = Some ex ->
  (length (nonces (fst (list_remove n L))) + 1 = length (nonces L))%nat.
Proof.
  intros m a n L ex (H1 & H2 & H3 & _) E. rewrite (list_remove_found _ _ _ E). simpl.
  apply filter_neq_length; auto. apply H2. congruence.
Qed.

Lemma list_remove_afind : forall n L k, afind k (txs (fst (list_remove n L))) = if n =? k then None else afind k (txs L).
Proof.
  intros. unfold list_remove. destruct (afind n (txs L)) eqn:E; simpl.
  - destruct (n =? k) eqn:Ek; [apply N.eqb_eq in Ek; subst; apply afind_adel_eq|].
    apply afind_adel_neq. intros ->. rewrite N.eqb_refl in Ek. discriminate.
  - destruct (n =? k) eqn:Ek; auto. apply N.eqb_eq in Ek; subst. auto.
Qed.

Lemma list_remove_procs : forall m a n L k, ListInv m a L ->
  In k (procs (fst (list_remove n L))) -> In k (procs L) /\ (afind n (txs L) <> None -> k < n).
Proof.
  intros m a n L k (H1 & H2 & H3 & H4 & H5 & H6) Hk. unfold list_remove in *.
  destruct (afind n (txs L)) eqn:E; simpl in *.
  - destruct (demote_In _ _ _ H5 Hk). split; auto.
  - split; auto. congruence.
Qed.

Lemma NoDup_app_ok : forall (l : list N) x, NoDup l -> ~ In x l -> NoDup (l ++ [x]).
Proof.
  induction l as [|y r IH]; simpl; intros x Hnd Hx; [repeat constructor; auto|]. inversion Hnd; subst.
  constructor; [|apply IH; auto]. rewrite in_app_iff. simpl. intros [H|[H|[]]]; auto.
Qed.

(* ---- insert / add ---- *)
Lemma list_insert_inv : forall m a t pr L, ListInv m a L -> afind (tnonce t) (txs L) = None -> tsender t = a ->
  (length (nonces L) + 1 <= m)%nat -> ListInv m a (list_insert t pr L).
Proof.
  intros m a t pr L (H1 & H2 & H3 & H4 & H5 & H6) Hn Hs Hlen. unfold ListInv, list_insert; cbn [txs nonces procs].
  assert (Hnin : ~ In (tnonce t) (nonces L)) by (rewrite H2; congruence).
  split; [|split; [|split; [|split; [|split]]]].
  - intros k u Hk. destruct (N.eq_dec (tnonce t) k) as [<-|Hne].
    + rewrite afind_aset_eq in Hk. inversion Hk; subst. auto.
    + rewrite afind_aset_neq in Hk by auto. auto.
  - intros k. rewrite in_app_iff. cbn [In]. destruct (N.eq_dec (tnonce t) k) as [<-|Hne].
    + rewrite afind_aset_eq. split; [discriminate|auto].
    + rewrite afind_aset_neq by auto. rewrite <- H2. split; [intros [X|[X|[]]]; auto; congruence|auto].
  - apply NoDup_app_ok; auto.
  - rewrite app_length. simpl. lia.
  - pose proof (demote_gap_free (tnonce t) _ H5) as Hg.
    destruct pr; cbn [andb]; auto. destruct (demote (tnonce t) (procs L)); simpl; auto.
  - intros k Hk. rewrite in_app_iff.
    assert (Hd : forall x, In x (demote (tnonce t) (procs L)) -> In x (nonces L)).
    { intros x Hx. apply H6. apply (demote_In _ _ _ H5 Hx). }
    destruct pr; cbn [andb] in Hk; auto. destruct (demote (tnonce t) (procs L)) eqn:Ep; simpl in Hk.
    + destruct Hk as [<-|[]]. right; left; auto.
    + left. apply Hd. exact Hk.
Qed.

Lemma list_add_inv : forall m d a t pr L, (1 <= m)%nat -> tsender t = a -> ListInv m a L ->
  ListInv m a (fst (fst (list_add m d t pr L))).
Proof.
  intros m d a t pr L Hm Hs HI. pose proof HI as (H1 & H2 & H3 & H4 & H5 & H6). unfold list_add.
  destruct (afind (tnonce t) (txs L)) as [ex|] eqn:E.
  - destruct ((tfee t <? tfee ex) || (tfee t - tfee ex <? d)); cbn [fst]; auto.
    unfold ListInv; cbn [txs nonces procs]. split; [|split; [|split; [|split; [|split]]]]; auto.
    + intros k u Hk. destruct (N.eq_dec (tnonce t) k) as [<-|Hne].
      * rewrite afind_aset_eq in Hk. inversion Hk; subst. auto.
      * rewrite afind_aset_neq in Hk by auto. auto.
    + intros k. rewrite H2. destruct (N.eq_dec (tnonce t) k) as [<-|Hne].
      * rewrite afind_aset_eq, E. split; discriminate.
      * rewrite afind_aset_neq by auto. tauto.
    + apply demote_gap_free; auto.
    + intros k Hk. apply H6. apply (demote_In _ _ _ H5 Hk).
  - destruct (m <? length (nonces L) + 1)%nat eqn:Ecap.
    + destruct (max_nonce L <? tnonce t) eqn:Emx; cbn [fst]; auto.
      destruct (list_remove (max_nonce L) L) as [L1 rid] eqn:ER. cbn [fst].
      assert (HL1 : L1 = fst (list_remove (max_nonce L) L)) by (rewrite ER; auto).
      apply Nat.ltb_lt in Ecap.
      assert (Hne : nonces L <> []) by (destruct (nonces L); simpl in *; [lia|discriminate]).
      pose proof (max_nonce_In L Hne) as Hin. apply H2 in Hin.
      destruct (afind (max_nonce L) (txs L)) as [exm|] eqn:Em; [|congruence].
      apply list_insert_inv; auto.
      * subst L1. apply list_remove_inv. auto.
      * subst L1. rewrite list_remove_afind. destruct (max_nonce L =? tnonce t); auto.
      * pose proof (list_remove_length m a _ _ _ HI Em). subst L1. lia.
    + cbn [fst]. apply Nat.ltb_ge in Ecap. apply list_insert_inv; auto.
Qed.

(* ---- promote ---- *)
Lemma W64_pos : 0 < W64. Proof. unfold W64. lia. Qed.

Lemma consecutive_gap_free : forall l, Sorted N.le l -> NoDup l -> consecutive_b l = true -> gap_free l.
Proof.
  induction l as [|x r IH]; intros Hs Hnd Hc; [exact I|].
  destruct r as [|y r']; [exact I|]. cbn [consecutive_b] in Hc. apply andb_true_iff in Hc. destruct Hc as [Hy Hc].
  apply Sorted_inv in Hs. destruct Hs as [Hs Hhd]. apply HdRel_inv in Hhd.
  apply NoDup_cons_iff in Hnd. destruct Hnd as [Hnin Hnd].
  split; [|apply IH; auto].
  apply N.eqb_eq in Hy.
  assert (x <> y) by (intros ->; apply Hnin; left; auto).
  destruct (N.lt_ge_cases (x + 1) W64) as [Hlt|Hge].
  - rewrite N.mod_small in Hy by auto. auto.
  - pose proof (N.mod_lt (x + 1) W64 ltac:(pose proof W64_pos; lia)). lia.
Qed.

Lemma list_promote_inv : forall m a ts L, ListInv m a L -> ListInv m a (fst (list_promote ts L)).
Proof.
  intros m a ts L HI. pose proof HI as (H1 & H2 & H3 & H4 & H5 & H6). unfold list_promote.
  destruct (forallb _ ts) eqn:Ef; cbn [fst]; auto.
  destruct (consecutive_b _ && _) eqn:Ec; cbn [fst]; auto.
  apply andb_true_iff in Ec. destruct Ec as [Ec Emin].
  unfold ListInv; cbn [txs nonces procs]. split; [|split; [|split; [|split; [|split]]]]; auto.
  - apply consecutive_gap_free; auto; [apply sortN_sorted|].
    eapply Permutation_NoDup; [apply Permutation_sym, sortN_perm|apply NoDup_nodup].
  - intros k Hk. apply (proj1 (sortN_In _ _)) in Hk. apply (proj1 (nodup_In _ _ _)) in Hk. apply in_app_or in Hk. destruct Hk as [Hk|Hk]; auto.
    apply in_map_iff in Hk. destruct Hk as (u & <- & Hu). rewrite forallb_forall in Ef. specialize (Ef u Hu).
    apply H2. destruct (afind (tnonce u) (txs L)); [discriminate|discriminate].
Qed.

Lemma list_promote_txs : forall ts L, txs (fst (list_promote ts L)) = txs L /\ nonces (fst (list_promote ts L)) = nonces L.
Proof.
  intros. unfold list_promote. destruct (forallb _ ts); cbn [fst]; auto. destruct (consecutive_b _ && _); cbn [fst]; auto.
Qed.

(* a nonce that becomes processable in Promote belongs to one of the promoted transactions, still present with the same id *)
Lemma list_promote_new : forall ts L k, In k (procs (fst (list_promote ts L))) ->
  In k (procs L) \/ exists u ex, In u ts /\ tnonce u = k /\ afind k (txs L) = Some ex /\ tid ex = tid u.
Proof.
  intros ts L k Hk. unfold list_promote in Hk. destruct (forallb _ ts) eqn:Ef; cbn [fst] in Hk; auto.
  destruct (consecutive_b _ && _); cbn [fst procs] in Hk; auto.
  apply (proj1 (sortN_In _ _)) in Hk. apply (proj1 (nodup_In _ _ _)) in Hk. apply in_app_or in Hk. destruct Hk as [Hk|Hk]; auto.
  right. apply in_map_iff in Hk. destruct Hk as (u & <- & Hu). rewrite forallb_forall in Ef. specialize (Ef u Hu).
  destruct (afind (tnonce u) (txs L)) as [ex|] eqn:E; [|discriminate]. apply N.eqb_eq in Ef. exists u, ex. auto.
Qed.

(* ---- what the getters return is stored in the list ---- *)
Lemma lookup_all_stored : forall L ns t, In t (lookup_all L ns) -> exists n, In n ns /\ afind n (txs L) = Some t.
Proof.
  intros L ns t H. unfold lookup_all in H. apply in_flat_map in H. destruct H as (n & Hn & Ht).
  destruct (afind n (txs L)) eqn:E; [|contradiction]. destruct Ht as [<-|[]]. eauto.
Qed.
Lemma get_processables_stored : forall L t, In t (get_processables L) -> exists n, In n (procs L) /\ afind n (txs L) = Some t.
Proof. intros. apply lookup_all_stored. auto. Qed.
Lemma get_unprocessables_stored : forall L t, In t (get_unprocessables L) -> exists n, afind n (txs L) = Some t.
Proof.
  intros L t H. unfold get_unprocessables in H. destruct (length (nonces L) =? 0)%nat; [contradiction|].
  destruct (length (nonces L) =? length (procs L))%nat; [contradiction|].
  apply lookup_all_stored in H. destruct H as (n & _ & H). eauto.
Qed.
Lemma get_promotable_stored : forall L t, In t (get_promotable L) -> exists n, afind n (txs L) = Some t.
Proof.
  intros L t H. unfold get_promotable in H. destruct (length (nonces L) =? 0)%nat; [contradiction|].
  destruct (length (nonces L) =? length (procs L))%nat; [contradiction|].
  destruct (sorted_rest L); [contradiction|]. destruct (match procs L with [] => true | _ => _ end); [|contradiction].
  apply lookup_all_stored in H. destruct H as (k & _ & H). eauto.
Qed.

(* a non-empty list always offers an eviction candidate *)
Lemma lookup_all_nonempty : forall L ns n, In n ns -> afind n (txs L) <> None -> lookup_all L ns <> [].
Proof.
  intros L ns n Hin Hf. unfold lookup_all. intros Hc.
  assert (In_fm : forall t, afind n (txs L) = Some t -> In t (flat_map (fun n => match afind n (txs L) with Some t => [t] | None => [] end) ns)).
  { intros t Ht. apply in_flat_map. exists n. split; auto. rewrite Ht. left; auto. }
  destruct (afind n (txs L)) eqn:E; [|congruence]. specialize (In_fm t eq_refl). rewrite Hc in In_fm. contradiction.
Qed.

Lemma NoDup_incl_length_lt : forall (l l' : list N), NoDup l -> incl l l' -> length l <> length l' -> (length l < length l')%nat.
Proof. intros l l' Hnd Hincl Hne. pose proof (NoDup_incl_length Hnd Hincl). lia. Qed.

Lemma candidates_nonempty : forall m a L, ListInv m a L -> nonces L <> [] ->
  get_unprocessables L <> [] \/ get_processables L <> [].
Proof.
  intros m a L (H1 & H2 & H3 & H4 & H5 & H6) Hne. unfold get_unprocessables.
  destruct (length (nonces L) =? 0)%nat eqn:E0.
  { apply Nat.eqb_eq in E0. destruct (nonces L); simpl in *; [congruence|discriminate]. }
  destruct (length (nonces L) =? length (procs L))%nat eqn:E1.
  - right. apply Nat.eqb_eq in E1. destruct (procs L) as [|p ps] eqn:Ep.
    + simpl in E1. destruct (nonces L); simpl in *; [congruence|discriminate].
    + unfold get_processables. rewrite Ep. apply (lookup_all_nonempty L (p :: ps) p); [left; auto|].
      apply H2. apply H6. left; auto.
  - left. apply Nat.eqb_neq in E1.
    assert (Hlt : (length (procs L) < length (nonces L))%nat).
    { apply NoDup_incl_length_lt; auto. apply gap_free_NoDup; auto. }
    unfold sorted_rest. destruct (skipn (length (procs L)) (sortN (nonces L))) as [|n rest] eqn:Es.
    + pose proof (skipn_length (length (procs L)) (sortN (nonces L))) as Hl. rewrite Es, sortN_length in Hl. simpl in Hl. lia.
    + apply (lookup_all_nonempty L (n :: rest) n); [left; auto|]. apply H2. apply (sortN_In n).
      assert (In n (skipn (length (procs L)) (sortN (nonces L)))) by (rewrite Es; left; auto).
      rewrite <- (firstn_skipn (length (procs L)) (sortN (nonces L))). apply in_or_app. right. exact H.
Qed.

(* ---- what a successful Add (as called by the pool: processable = false) does to the list ---- *)
Lemma list_add_spec : forall m d a t L L' removed, (1 <= m)%nat -> ListInv m a L ->
  list_add m d t false L = (L', true, removed) ->
  afind (tnonce t) (txs L') = Some t /\
  (forall k u, k <> tnonce t -> afind k (txs L') = Some u -> afind k (txs L) = Some u) /\
  (forall k u, afind k (txs L) = Some u -> afind k (txs L') = Some u \/ removed = Some (tid u)) /\
  (forall rid, removed = Some rid ->
     exists k u, afind k (txs L) = Some u /\ tid u = rid /\ (k = tnonce t \/ afind k (txs L') = None)) /\
  (forall k, In k (procs L') -> In k (procs L) /\ k <> tnonce t /\ afind k (txs L') = afind k (txs L)) /\
  (forall ex, afind (tnonce t) (txs L) = Some ex -> removed = Some (tid ex) /\ tfee ex + d <= tfee t) /\
  (afind (tnonce t) (txs L) = None -> forall rid, removed = Some rid ->
     (max_nonce L <> tnonce t /\ exists u, afind (max_nonce L) (txs L) = Some u /\ tid u = rid /\ (m < length (nonces L) + 1)%nat)).
Proof.
  intros m d a t L L' removed Hm HI Hadd. pose proof HI as (H1 & H2 & H3 & H4 & H5 & H6). unfold list_add in Hadd.
  destruct (afind (tnonce t) (txs L)) as [ex|] eqn:E.
  - destruct ((tfee t <? tfee ex) || (tfee t - tfee ex <? d)) eqn:Ef; [inversion Hadd|].
    inversion Hadd; subst; clear Hadd. cbn [txs procs nonces].
    apply orb_false_iff in Ef. destruct Ef as [Ef1 Ef2]. apply N.ltb_ge in Ef1. apply N.ltb_ge in Ef2.
    split; [apply afind_aset_eq|]. split; [intros k u Hk Hf; rewrite afind_aset_neq in Hf; auto|].
    split; [|split; [|split; [|split]]].
    + intros k u Hf. destruct (N.eq_dec (tnonce t) k) as [<-|Hne].
      * rewrite E in Hf. inversion Hf; subst. right; auto.
      * left. rewrite afind_aset_neq; auto.
    + intros rid Hr. inversion Hr; subst. exists (tnonce t), ex. auto.
    + intros k Hk. destruct (demote_In _ _ _ H5 Hk) as [Hp Hlt]. split; auto. split; [lia|].
      apply afind_aset_neq. lia.
    + intros ex' Hex. inversion Hex; subst. split; auto. lia.
    + intros; discriminate.
  - destruct (m <? length (nonces L) + 1)%nat eqn:Ecap.
    + destruct (max_nonce L <? tnonce t) eqn:Emx; [inversion Hadd|].
      apply Nat.ltb_lt in Ecap. apply N.ltb_ge in Emx.
      assert (Hne : nonces L <> []) by (destruct (nonces L); simpl in *; [lia|discriminate]).
      pose proof (max_nonce_In L Hne) as Hin. apply H2 in Hin.
      destruct (afind (max_nonce L) (txs L)) as [exm|] eqn:Em; [|congruence].
      assert (Hmn : max_nonce L <> tnonce t) by (intros X; rewrite X in Em; congruence).
      rewrite (list_remove_found _ _ _ Em) in Hadd. inversion Hadd; subst; clear Hadd.
      unfold list_insert; cbn [txs procs nonces andb].
      split; [apply afind_aset_eq|]. split; [|split; [|split; [|split; [|split]]]].
      * intros k u Hk Hf. rewrite afind_aset_neq in Hf by auto.
        destruct (N.eq_dec (max_nonce L) k) as [<-|Hne2]; [rewrite afind_adel_eq in Hf; discriminate|].
        rewrite afind_adel_neq in Hf; auto.
      * intros k u Hf. destruct (N.eq_dec (max_nonce L) k) as [<-|Hne2].
        -- rewrite Em in Hf. inversion Hf; subst. right; auto.
        -- left. assert (tnonce t <> k) by (intros <-; congruence).
           rewrite afind_aset_neq by auto. rewrite afind_adel_neq; auto.
      * intros rid Hr. inversion Hr; subst. exists (max_nonce L), exm. split; auto. split; auto. right.
        rewrite afind_aset_neq by auto. apply afind_adel_eq.
      * intros k Hk. destruct (demote_In _ _ _ (demote_gap_free (max_nonce L) _ H5) Hk) as [Hk1 Hlt1].
        destruct (demote_In _ _ _ H5 Hk1) as [Hp Hlt].
        assert (k <> tnonce t) by lia.
        split; auto. split; auto. rewrite afind_aset_neq by auto. apply afind_adel_neq. lia.
      * intros; discriminate.
      * intros _ rid Hr. inversion Hr; subst. split; auto. exists exm. auto.
    + inversion Hadd; subst; clear Hadd. unfold list_insert; cbn [txs procs nonces andb].
      split; [apply afind_aset_eq|]. split; [intros k u Hk Hf; rewrite afind_aset_neq in Hf; auto|].
      split; [|split; [|split; [|split]]].
      * intros k u Hf. left. assert (tnonce t <> k) by (intros <-; congruence). rewrite afind_aset_neq; auto.
      * intros; discriminate.
      * intros k Hk. destruct (demote_In _ _ _ H5 Hk) as [Hp Hlt]. assert (k <> tnonce t) by lia.
        split; auto. split; auto. apply afind_aset_neq. auto.
      * intros; discriminate.
      * intros; discriminate.
Qed.

Lemma list_add_empty_ok : forall m d t, (1 <= m)%nat -> snd (fst (list_add m d t false empty_list)) = true.
Proof.
  intros. unfold list_add, empty_list; cbn [txs nonces procs afind length]. 
  destruct (m <? 0 + 1)%nat eqn:E; auto. apply Nat.ltb_lt in E. lia.
Qed.

(* ---- processables are the sender's LOWEST nonces ---- *)
Definition LowInv (L : txlist) : Prop :=
  forall n p, In n (nonces L) -> In p (procs L) -> n < p -> In n (procs L).

Lemma empty_list_low : LowInv empty_list.
Proof. intros n p Hn. simpl in Hn. contradiction. Qed.

Lemma gap_free_between : forall l x z p, gap_free (x :: l) -> In p (x :: l) -> x <= z -> z <= p -> In z (x :: l).
Proof.
  induction l as [|y r IH]; intros x z p Hg Hp Hxz Hzp.
  - destruct Hp as [<-|[]]. left. lia.
  - destruct Hg as [-> Hg]. destruct (N.eq_dec x z) as [->|Hne]; [left; auto|]. right.
    destruct Hp as [<-|Hp]; [lia|]. apply (IH (x + 1) z p); auto. lia.
Qed.

Lemma min_nonce_le_gen : forall l acc, fold_left N.min l acc <= acc /\ forall x, In x l -> fold_left N.min l acc <= x.
Proof.
  induction l as [|y r IH]; simpl; intros acc; [split; [lia|contradiction]|].
  destruct (IH (N.min acc y)) as [H1 H2]. split; [lia|]. intros x [->|Hx]; [lia|auto].
Qed.
Lemma min_nonce_le : forall L n, In n (nonces L) -> min_nonce L <= n.
Proof. intros L n H. unfold min_nonce. apply (proj2 (min_nonce_le_gen (nonces L) (W64 - 1))). auto. Qed.

Lemma demote_In_rev : forall t ps n, gap_free ps -> In n ps -> n < t -> In n (demote t ps).
Proof. intros. rewrite demote_eq by auto. apply filter_In. split; auto. apply N.ltb_lt. auto. Qed.

Lemma list_remove_low : forall m a t L, ListInv m a L -> LowInv L -> LowInv (fst (list_remove t L)).
Proof.
  intros m a t L (H1 & H2 & H3 & H4 & H5 & H6) HL. unfold list_remove. destruct (afind t (txs L)) eqn:E; cbn [fst]; auto.
  intros n p Hn Hp Hlt. cbn [nonces procs] in *. apply filter_In in Hn. destruct Hn as [Hn _].
  destruct (demote_In _ _ _ H5 Hp) as [Hp1 Hpt]. apply demote_In_rev; auto; [|lia]. eapply HL; eauto.
Qed.

Lemma list_insert_low : forall m a t L, ListInv m a L -> LowInv L -> LowInv (list_insert t false L).
Proof.
  intros m a t L (H1 & H2 & H3 & H4 & H5 & H6) HL n p Hn Hp Hlt. unfold list_insert in *. cbn [nonces procs andb] in *.
  destruct (demote_In _ _ _ H5 Hp) as [Hp1 Hpt]. apply in_app_or in Hn.
  destruct Hn as [Hn|[<-|[]]]; [|lia]. apply demote_In_rev; auto; [|lia]. eapply HL; eauto.
Qed.

Lemma list_add_low : forall m d a t L, (1 <= m)%nat -> ListInv m a L -> LowInv L ->
  LowInv (fst (fst (list_add m d t false L))).
Proof.
  intros m d a t L Hm HI HL. pose proof HI as (H1 & H2 & H3 & H4 & H5 & H6). unfold list_add.
  destruct (afind (tnonce t) (txs L)) as [ex|] eqn:E.
  - destruct ((tfee t <? tfee ex) || (tfee t - tfee ex <? d)); cbn [fst]; auto.
    intros n p Hn Hp Hlt. cbn [nonces procs] in *. destruct (demote_In _ _ _ H5 Hp) as [Hp1 Hpt].
    apply demote_In_rev; auto; [|lia]. eapply HL; eauto.
  - destruct (m <? length (nonces L) + 1)%nat.
    + destruct (max_nonce L <? tnonce t); cbn [fst]; auto.
      destruct (list_remove (max_nonce L) L) as [L1 rid] eqn:ER. cbn [fst].
      assert (HL1 : L1 = fst (list_remove (max_nonce L) L)) by (rewrite ER; auto). subst L1.
      eapply list_insert_low; [apply list_remove_inv; eauto|eapply list_remove_low; eauto].
    + cbn [fst]. eapply list_insert_low; eauto.
Qed.

Lemma list_promote_low : forall m a ts L, ListInv m a L -> LowInv L -> LowInv (fst (list_promote ts L)).
Proof.
  intros m a ts L HI HL. pose proof HI as (H1 & H2 & H3 & H4 & H5 & H6). unfold list_promote.
  destruct (forallb _ ts) eqn:Ef; cbn [fst]; auto.
  destruct (consecutive_b _ && _) eqn:Ec; cbn [fst]; auto.
  apply andb_true_iff in Ec. destruct Ec as [Ec Emin].
  set (u := sortN (nodup N.eq_dec (procs L ++ map tnonce ts))) in *.
  assert (Hg : gap_free u).
  { apply consecutive_gap_free; auto; [apply sortN_sorted|].
    eapply Permutation_NoDup; [apply Permutation_sym, sortN_perm|apply NoDup_nodup]. }
  intros n p Hn Hp Hlt. cbn [nonces procs] in *.
  destruct u as [|x r] eqn:Eu; [contradiction|]. apply N.eqb_eq in Emin.
  apply (gap_free_between r x n p); auto; [|lia]. rewrite Emin. apply min_nonce_le. auto.
Qed.
