(* Pool/TxPool.v — sequential model of pkg/txpool/txpool.go (after the fix: commits).
   State = the three indexes (allTransactions, perAccount, feePriorityQueue) + the goroutines of an in-flight reorg
   (each with its captured local variables, so that every interleaving of reorg with Add/Remove is an operation
   sequence) + a ghost set of transaction ids that passed verification in a reorg.
   Every critical section of the pool mutex / a list mutex is one operation:
     OAdd, ORemove                 (TransactionPool.Add / Remove, under the pool write lock)
     OReorgSpawn                   (reorg: read lock, one goroutine per sender list, unlock)
     OReorgStep a verdict          (the goroutine of sender a performs its next action: GetPromotable, GetProcessables,
                                    verify + Promote, or one t.remove)
   External answers are inputs: the verifier's answer per transaction (ok / pending / invalid), whether conn.Publish
   succeeds, and which of several minimal-fee-priority candidates container/heap pops on eviction (map iteration order). *)
From Coq Require Import List Arith NArith Bool Lia.
From LE Require Import Pool.Assoc Pool.TxList.
Import ListNotations.
Local Open Scope N_scope.

Record cfg := mkCfg { max_txs : nat; max_per : nat; min_entrance : N; min_diff : N }.
Definition cfg_ok (c : cfg) : Prop := (1 <= max_txs c)%nat /\ (1 <= max_per c)%nat.

Inductive answer := AOk | APending | AInvalid.
(* verifyTransactions treats everything except Invalid (and ABI errors, folded into Invalid) as a pass *)
Definition is_invalid (a : answer) : bool := match a with AInvalid => true | _ => false end.

Inductive stage :=
| SStart                                   (* goroutine created, nothing read yet *)
| SProm (proms : list tx)                  (* after list.GetPromotable() *)
| SReady (prs proms : list tx)             (* after list.GetProcessables() *)
| SRemoving (ids : list N).                (* verification failed: removing the tail, one t.remove at a time *)
Record pend := mkP { p_addr : N; p_live : bool; p_stage : stage }.

Record pool := mkPool {
  all : list tx;                   (* allTransactions *)
  accts : list (N * txlist);       (* perAccount *)
  queue : list tx;                 (* feePriorityQueue (content) *)
  pending : list pend;             (* goroutines of the reorg in flight *)
  verified : list N                (* ghost: ids that passed verification in a reorg step *)
}.
Definition pool_empty : pool := mkPool [] [] [] [] [].

Definition find_id (id : N) (l : list tx) : option tx := find (fun t => tid t =? id) l.
Definition remove_id (id : N) (l : list tx) : list tx := filter (fun t => negb (tid t =? id)) l.
Definition orphan (a : N) (ps : list pend) : list pend :=
  map (fun e => if p_addr e =? a then mkP (p_addr e) false (p_stage e) else e) ps.

(* removeWithoutLock *)
Definition remove_tx (id : N) (p : pool) : pool * bool :=
  match find_id id (all p) with
  | None => (p, false)
  | Some ex =>
    let all' := remove_id id (all p) in
    match afind (tsender ex) (accts p) with
    | None => (mkPool all' (accts p) all' (pending p) (verified p), true) (* Go: nil list dereference; excluded by the invariant *)
    | Some L =>
      let L' := fst (list_remove (tnonce ex) L) in
      if (l_size L' =? 0)%nat
      then (mkPool all' (adel (tsender ex) (accts p)) all' (orphan (tsender ex) (pending p)) (verified p), true)
      else (mkPool all' (aset (tsender ex) L' (accts p)) all' (pending p) (verified p), true)
    end
  end.

Definition min_prio (l : list tx) : N :=
  match l with [] => 0 | t :: r => fold_left (fun m u => N.min m (tprio u)) r (tprio t) end.

(* heap.Pop of a FeeMinHeap built from cands: some candidate of minimal fee priority; [choice] = the ids that
   disappeared in the implementation's run, used to follow the implementation among equal priorities *)
Definition pick_min (cands : list tx) (choice : list N) : option tx :=
  match cands with
  | [] => None
  | c0 :: _ =>
    let valid := filter (fun t => tprio t =? min_prio cands) cands in
    match find (fun t => existsb (N.eqb (tid t)) choice) valid with
    | Some t => Some t
    | None => match valid with t :: _ => Some t | [] => Some c0 end
    end
  end.

Definition unprocessable_cands (p : pool) : list tx := flat_map (fun al => get_unprocessables (snd al)) (accts p).
Definition processable_cands (p : pool) : list tx :=
  flat_map (fun al => match rev (get_processables (snd al)) with t :: _ => [t] | [] => [] end) (accts p).

(* evictUnprocessable, else evictProcessable *)
Definition evict (choice : list N) (p : pool) : pool * option N :=
  match pick_min (unprocessable_cands p) choice with
  | Some t => (fst (remove_tx (tid t) p), Some (tid t))
  | None =>
    match pick_min (processable_cands p) choice with
    | Some t => (fst (remove_tx (tid t) p), Some (tid t))
    | None => (p, None)
    end
  end.

Record outcome := mkO { o_added : bool; o_ret : bool; o_evicted : option N; o_replaced : option N }.
Definition rejected (ev : option N) : outcome := mkO false false ev None.

Definition is_nil {A} (l : list A) : bool := match l with [] => true | _ => false end.

(* the (sender, nonce) slot of t is occupied and t does not satisfy the replacement rule (RejectsReplacement) *)
Definition slot_rejects (c : cfg) (t : tx) (p : pool) : bool :=
  match afind (tsender t) (accts p) with
  | Some L => match afind (tnonce t) (txs L) with
              | Some ex => (tfee t <? tfee ex) || (tfee t - tfee ex <? min_diff c)
              | None => false
              end
  | None => false
  end.

Definition pool_add (c : cfg) (t : tx) (v : answer) (pub_ok : bool) (choice : list N) (p : pool) : pool * outcome :=
  if existsb (fun u => tid u =? tid t) (all p) then (p, rejected None)
  else if tprio t <? min_entrance c then (p, rejected None)
  else if (max_txs c <=? length (all p))%nat && negb (is_nil (queue p)) && (tprio t <=? min_prio (queue p))
       then (p, rejected None)
  else if is_invalid v then (p, rejected None)
  else if slot_rejects c t p then (p, rejected None)
  else
    let '(p1, ev) := if (max_txs c <=? length (all p))%nat then evict choice p else (p, None) in
    let L := match afind (tsender t) (accts p1) with Some L => L | None => empty_list end in
    let '(L', ok, removed) := list_add (max_per c) (min_diff c) t false L in
    if negb ok then
      (match afind (tsender t) (accts p1) with
       | Some _ => p1
       | None => mkPool (all p1) (aset (tsender t) empty_list (accts p1)) (queue p1) (pending p1) (verified p1)
       end, rejected ev)
    else
      let all1 := match removed with Some rid => remove_id rid (all p1) | None => all p1 end in
      let q1 := match removed with Some _ => all1 | None => queue p1 end in
      (mkPool (all1 ++ [t]) (aset (tsender t) L' (accts p1)) (q1 ++ [t]) (pending p1) (verified p1),
       mkO true pub_ok ev removed).

(* ---- reorg ---- *)
Definition verdict_of (vd : list (N * answer)) (id : N) : answer :=
  match afind id vd with Some a => a | None => AOk end.
Definition first_invalid (vd : list (N * answer)) (ts : list tx) : option N :=
  match find (fun t => is_invalid (verdict_of vd (tid t))) ts with Some t => Some (tid t) | None => None end.
Fixpoint index_of (id : N) (ts : list tx) : nat :=
  match ts with [] => O | t :: r => if tid t =? id then O else S (index_of id r) end.

Definition reorg_spawn (p : pool) : pool :=
  match pending p with
  | [] => mkPool (all p) (accts p) (queue p) (map (fun al => mkP (fst al) true SStart) (accts p)) (verified p)
  | _ => p     (* reorg waits for all its goroutines before the next tick *)
  end.

Definition find_pend (a : N) (ps : list pend) : option pend := find (fun e => p_addr e =? a) ps.
Definition set_stage (a : N) (st : stage) (ps : list pend) : list pend :=
  map (fun e => if p_addr e =? a then mkP (p_addr e) (p_live e) st else e) ps.
Definition drop_pend (a : N) (ps : list pend) : list pend := filter (fun e => negb (p_addr e =? a)) ps.

Definition with_pending (p : pool) (ps : list pend) : pool := mkPool (all p) (accts p) (queue p) ps (verified p).
Definition promote_in (a : N) (live : bool) (ts : list tx) (p : pool) : pool :=
  if live then
    match afind a (accts p) with
    | Some L => mkPool (all p) (aset a (fst (list_promote ts L)) (accts p)) (queue p) (pending p) (verified p)
    | None => p
    end
  else p.   (* the goroutine's list was dropped from perAccount: Promote runs on the orphan, empty list *)
Definition add_verified (ids : list N) (p : pool) : pool :=
  mkPool (all p) (accts p) (queue p) (pending p) (ids ++ verified p).

Definition reorg_step (a : N) (vd : list (N * answer)) (p : pool) : pool :=
  match find_pend a (pending p) with
  | None => p
  | Some e =>
    let live_list := if p_live e then afind a (accts p) else None in
    match p_stage e with
    | SStart =>
      match (match live_list with Some L => get_promotable L | None => [] end) with
      | [] => with_pending p (drop_pend a (pending p))
      | proms => with_pending p (set_stage a (SProm proms) (pending p))
      end
    | SProm proms =>
      let prs := match live_list with Some L => get_processables L | None => [] end in
      with_pending p (set_stage a (SReady prs proms) (pending p))
    | SReady prs proms =>
      let combined := prs ++ proms in
      match first_invalid vd combined with
      | None =>
        let p1 := promote_in a (p_live e) proms (add_verified (map tid combined) p) in
        with_pending p1 (drop_pend a (pending p1))
      | Some fid =>
        let fi := index_of fid combined in
        let p0 := add_verified (map tid (firstn fi combined)) p in
        let p1 := if (length prs + 1 <=? fi)%nat then promote_in a (p_live e) (firstn (fi - length prs) proms) p0 else p0 in
        match skipn fi combined with
        | [] => with_pending p1 (drop_pend a (pending p1))
        | rem => with_pending p1 (set_stage a (SRemoving (map tid rem)) (pending p1))
        end
      end
    | SRemoving [] => with_pending p (drop_pend a (pending p))
    | SRemoving (id :: rest) =>
      let p1 := fst (remove_tx id p) in
      match rest with
      | [] => with_pending p1 (drop_pend a (pending p1))
      | _ => with_pending p1 (set_stage a (SRemoving rest) (pending p1))
      end
    end
  end.

Inductive op :=
| OAdd (t : tx) (v : answer) (pub_ok : bool) (choice : list N)
| ORemove (id : N)
| OReorgSpawn
| OReorgStep (a : N) (verdict : list (N * answer)).

Definition pool_step (c : cfg) (p : pool) (o : op) : pool :=
  match o with
  | OAdd t v pub choice => fst (pool_add c t v pub choice p)
  | ORemove id => fst (remove_tx id p)
  | OReorgSpawn => reorg_spawn p
  | OReorgStep a vd => reorg_step a vd p
  end.

Definition run (c : cfg) (ops : list op) : pool := fold_left (pool_step c) ops pool_empty.

(* public getters (under the read lock) *)
Definition pool_get (id : N) (p : pool) : option tx := find_id id (all p).
Definition pool_get_all (p : pool) : list tx := all p.
Definition pool_get_processable (p : pool) : list tx := flat_map (fun al => get_processables (snd al)) (accts p).
