(* Pool/TxList.v — sequential model of pkg/txpool/txlist.go (addressTransactions) after the fix: commits.
   transactions map = association list nonce -> tx; nonce heap = list (only its content, and the ascending order in
   which container/heap pops it, are observable); processables = list as stored.
   uint64 arithmetic wraps where the Go code can wrap ((x+1) mod 2^64). *)
From Coq Require Import List Arith NArith Bool Lia.
From LE Require Import Pool.Assoc.
Import ListNotations.
Local Open Scope N_scope.

Definition W64 : N := 18446744073709551616.

(* a pooled transaction: id, sender, nonce, fee, fee priority (= fee / size, computed by fee.go) *)
Record tx := mkTx { tid : N; tsender : N; tnonce : N; tfee : N; tprio : N }.

Definition tx_eqb (a b : tx) : bool :=
  (tid a =? tid b) && (tsender a =? tsender b) && (tnonce a =? tnonce b) && (tfee a =? tfee b) && (tprio a =? tprio b).

Record txlist := mkL { txs : list (N * tx); nonces : list N; procs : list N }.
Definition empty_list : txlist := mkL [] [] [].
Definition l_size (L : txlist) : nat := length (nonces L).

Definition lookup_all (L : txlist) (ns : list N) : list tx :=
  flat_map (fun n => match afind n (txs L) with Some t => [t] | None => [] end) ns.

Definition get_processables (L : txlist) : list tx := lookup_all L (procs L).

(* nonces popped from the heap after skipping as many as there are processables *)
Definition sorted_rest (L : txlist) : list N := skipn (length (procs L)) (sortN (nonces L)).

Definition get_unprocessables (L : txlist) : list tx :=
  if (length (nonces L) =? 0)%nat then []
  else if (length (nonces L) =? length (procs L))%nat then []
  else lookup_all L (sorted_rest L).

Fixpoint take_run (last : N) (l : list N) : list N :=
  match l with
  | [] => []
  | x :: r => if x =? (last + 1) mod W64 then x :: take_run x r else []
  end.

Definition get_promotable (L : txlist) : list tx :=
  if (length (nonces L) =? 0)%nat then []
  else if (length (nonces L) =? length (procs L))%nat then []
  else match sorted_rest L with
       | [] => []
       | first :: rest =>
         let attach := match procs L with
                       | [] => true
                       | _ => first =? (last (procs L) 0 + 1) mod W64
                       end in
         if attach then lookup_all L (first :: take_run first rest) else []
       end.

Definition max_nonce (L : txlist) : N := fold_left N.max (nonces L) 0.
Definition min_nonce (L : txlist) : N := fold_left N.min (nonces L) (W64 - 1).

Definition demote (target : N) (ps : list N) : list N := sortN (filter (fun n => n <? target) ps).

(* remove: (list', removed id) *)
Definition list_remove (target : N) (L : txlist) : txlist * option N :=
  match afind target (txs L) with
  | None => (L, None)
  | Some ex =>
    (mkL (adel target (txs L)) (filter (fun n => negb (n =? target)) (nonces L)) (demote target (procs L)),
     Some (tid ex))
  end.

(* a new lower nonce demotes the processables above it: processables stay the sender's lowest nonces *)
Definition list_insert (t : tx) (processable : bool) (L : txlist) : txlist :=
  let ps := demote (tnonce t) (procs L) in
  mkL (aset (tnonce t) t (txs L)) (nonces L ++ [tnonce t])
      (if processable && (match ps with [] => true | _ => false end) then ps ++ [tnonce t] else ps).

(* Add: (list', ok, id removed) *)
Definition list_add (max_size : nat) (min_diff : N) (t : tx) (processable : bool) (L : txlist)
  : txlist * bool * option N :=
  match afind (tnonce t) (txs L) with
  | Some ex =>
    if (tfee t <? tfee ex) || (tfee t - tfee ex <? min_diff) then (L, false, None)
    else (mkL (aset (tnonce t) t (txs L)) (nonces L) (demote (tnonce t) (procs L)), true, Some (tid ex))
  | None =>
    if (max_size <? length (nonces L) + 1)%nat then
      let mx := max_nonce L in
      if mx <? tnonce t then (L, false, None)
      else let '(L1, rid) := list_remove mx L in (list_insert t processable L1, true, rid)
    else (list_insert t processable L, true, None)
  end.

Fixpoint consecutive_b (l : list N) : bool :=
  match l with
  | x :: (y :: _) as r => (y =? (x + 1) mod W64) && consecutive_b r
  | _ => true
  end.

(* Promote: (list', ok) *)
Definition list_promote (ts : list tx) (L : txlist) : txlist * bool :=
  if forallb (fun t => match afind (tnonce t) (txs L) with Some ex => tid ex =? tid t | None => false end) ts
  then let u := sortN (nodup N.eq_dec (procs L ++ map tnonce ts)) in
       if consecutive_b u && (match u with [] => true | x :: _ => x =? min_nonce L end)
       then (mkL (txs L) (nonces L) u, true) else (L, false)
  else (L, false).
