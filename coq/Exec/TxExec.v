(* Model of pkg/statemachine/execute.go : Executer.ExecuteTransaction over the staged store (pkg/db/diffdb: one cache
   shared by all prefix views, per-view snapshot tables) and the event logger.
   A command (and the Before/AfterCommandExecute hooks of the registered module) is an arbitrary list of store / event /
   snapshot actions followed by success or failure.  Keys are full byte strings (state prefix ++ module store prefix ++
   key); the persisted store is an association list that does not change while a block executes. *)
From Coq Require Import List NArith Bool Arith.
From LE Require Import Exec.EventLog.
Import ListNotations.
Local Open Scope N_scope.

Definition bytes := list N.

Fixpoint bytes_eqb (a b : bytes) : bool :=
  match a, b with
  | [], [] => true
  | x :: a', y :: b' => (x =? y) && bytes_eqb a' b'
  | _, _ => false
  end.

Fixpoint lookup {A : Type} (l : list (bytes * A)) (k : bytes) : option A :=
  match l with
  | [] => None
  | (k', a) :: t => if bytes_eqb k' k then Some a else lookup t k
  end.

Fixpoint remove {A : Type} (l : list (bytes * A)) (k : bytes) : list (bytes * A) :=
  match l with
  | [] => []
  | (k', a) :: t => if bytes_eqb k' k then remove t k else (k', a) :: remove t k
  end.

Definition put {A : Type} (l : list (bytes * A)) (k : bytes) (a : A) : list (bytes * A) := (k, a) :: remove l k.

(* diffdb cacheValue: init = None when the key is not in the persisted store *)
Record entry := { en_init : option bytes; en_val : bytes; en_dirty : bool; en_deleted : bool }.
Definition cache := list (bytes * entry).
Definition store := list (bytes * bytes).

(* what a reader sees through the staged store *)
Definition view (s : store) (c : cache) (k : bytes) : option bytes :=
  match lookup c k with
  | Some e => if en_deleted e then None else Some (en_val e)
  | None => lookup s k
  end.

(* Database.Get: a value found in the store is cached *)
Definition db_get (s : store) (c : cache) (k : bytes) : option bytes * cache :=
  match lookup c k with
  | Some e => (if en_deleted e then None else Some (en_val e), c)
  | None => match lookup s k with
            | Some v => (Some v, put c k {| en_init := Some v; en_val := v; en_dirty := false; en_deleted := false |})
            | None => (None, c)
            end
  end.

(* Database.Set *)
Definition db_set (s : store) (c : cache) (k v : bytes) : cache :=
  match lookup c k with
  | Some e => put c k {| en_init := en_init e; en_val := v; en_dirty := true; en_deleted := false |}
  | None => match lookup s k with
            | Some v0 => put c k {| en_init := Some v0; en_val := v; en_dirty := true; en_deleted := false |}
            | None => put c k {| en_init := None; en_val := v; en_dirty := false; en_deleted := false |}
            end
  end.

(* Database.Del *)
Definition db_del (s : store) (c : cache) (k : bytes) : cache :=
  let c1 := match lookup c k with
            | Some _ => c
            | None => match lookup s k with
                      | Some v0 => put c k {| en_init := Some v0; en_val := v0; en_dirty := false; en_deleted := false |}
                      | None => c
                      end
            end in
  match lookup c1 k with
  | None => c1
  | Some e => match en_init e with
              | None => remove c1 k
              | Some _ => put c1 k {| en_init := en_init e; en_val := en_val e; en_dirty := en_dirty e; en_deleted := true |}
              end
  end.

(* snapshot table of one view object: next id, saved caches *)
Record vsnaps := { vs_count : nat; vs_saved : list (nat * cache) }.
Definition no_snaps : vsnaps := {| vs_count := 0; vs_saved := [] |}.
Fixpoint nlookup {A : Type} (l : list (nat * A)) (n : nat) : option A :=
  match l with [] => None | (m, a) :: t => if Nat.eqb m n then Some a else nlookup t n end.
Fixpoint nremove {A : Type} (l : list (nat * A)) (n : nat) : list (nat * A) :=
  match l with [] => [] | (m, a) :: t => if Nat.eqb m n then nremove t n else (m, a) :: nremove t n end.

Definition snap (v : vsnaps) (c : cache) : nat * vsnaps :=
  (vs_count v, {| vs_count := S (vs_count v); vs_saved := (vs_count v, c) :: nremove (vs_saved v) (vs_count v) |}).
(* RestoreSnapshot: None = "snapshot does not exist" *)
Definition restore (v : vsnaps) (id : nat) : option (cache * vsnaps) :=
  match nlookup (vs_saved v) id with
  | None => None
  | Some c => Some (c, {| vs_count := vs_count v; vs_saved := nremove (vs_saved v) id |})
  end.
Definition delete_snap (v : vsnaps) (id : nat) : vsnaps :=
  {| vs_count := vs_count v; vs_saved := nremove (vs_saved v) id |}.

(* what module code can do with a TransactionExecuteContext *)
Inductive action :=
| ASet (k v : bytes)            (* GetStore(prefix).Set — k is the full key *)
| ADel (k : bytes)
| AGet (k : bytes)
| AEvent (unrevertible : bool) (r : ev_req)
| ASnap (view : nat)            (* Snapshot on view object [view]; 0 = the context itself (root view) *)
| ARestore (view id : nat).     (* RestoreSnapshot on that view object *)

(* observations of the scripted code *)
Inductive obs := OGot (v : option bytes) | OEventErr | OSnapId (id : nat) | ORestoreErr.

Record xstate := { x_cache : cache; x_root : vsnaps; x_log : logger }.

(* view objects created by GetStore live as long as the running command: local snapshot tables, numbered from 1 *)
Definition locals := list (nat * vsnaps).
Definition local_get (ls : locals) (v : nat) : vsnaps := match nlookup ls v with Some x => x | None => no_snaps end.
Definition local_put (ls : locals) (v : nat) (x : vsnaps) : locals := (v, x) :: nremove ls v.

Definition step (s : store) (st : xstate) (ls : locals) (a : action) : xstate * locals * list obs :=
  match a with
  | ASet k v => ({| x_cache := db_set s (x_cache st) k v; x_root := x_root st; x_log := x_log st |}, ls, [])
  | ADel k => ({| x_cache := db_del s (x_cache st) k; x_root := x_root st; x_log := x_log st |}, ls, [])
  | AGet k => let (r, c) := db_get s (x_cache st) k in
              ({| x_cache := c; x_root := x_root st; x_log := x_log st |}, ls, [OGot r])
  | AEvent u r =>
      match (if u then add_unrevertible (x_log st) r else add (x_log st) r) with
      | Some l => ({| x_cache := x_cache st; x_root := x_root st; x_log := l |}, ls, [])
      | None => (st, ls, [OEventErr])
      end
  | ASnap O => let (id, v) := snap (x_root st) (x_cache st) in
               ({| x_cache := x_cache st; x_root := v; x_log := x_log st |}, ls, [OSnapId id])
  | ASnap n => let (id, v) := snap (local_get ls n) (x_cache st) in (st, local_put ls n v, [OSnapId id])
  | ARestore O id => match restore (x_root st) id with
                     | Some (c, v) => ({| x_cache := c; x_root := v; x_log := x_log st |}, ls, [])
                     | None => (st, ls, [ORestoreErr])
                     end
  | ARestore n id => match restore (local_get ls n) id with
                     | Some (c, v) => ({| x_cache := c; x_root := x_root st; x_log := x_log st |}, local_put ls n v, [])
                     | None => (st, ls, [ORestoreErr])
                     end
  end.

Fixpoint run (s : store) (st : xstate) (ls : locals) (acts : list action) : xstate * locals * list obs :=
  match acts with
  | [] => (st, ls, [])
  | a :: t => let '(st1, ls1, o1) := step s st ls a in
              let '(st2, ls2, o2) := run s st1 ls1 t in (st2, ls2, o1 ++ o2)
  end.

(* a piece of module code: what it does, then whether it returns an error *)
Definition script : Type := list action * bool.

Record tx := { tx_id : N; tx_module : N; tx_module_ok : bool;
               tx_before : script; tx_command : option script; tx_after : script }.

Inductive xres := XInvalid | XFail | XOk.

Definition std_name : N := 100.   (* blockchain.EventNameDefault *)
(* StandardTransactionEvent{Success}.Encode(): field 1, varint bool *)
Definition std_data (success : bool) : list N := [8; if success then 1 else 0].
Definition std_req (t : tx) (success : bool) : ev_req :=
  {| rq_module := tx_module t; rq_name := std_name; rq_data := std_data success; rq_topics := []; rq_ok := tx_module_ok t |}.

Definition with_log (st : xstate) (l : logger) : xstate := {| x_cache := x_cache st; x_root := x_root st; x_log := l |}.

(* the command phase: snapshot, run, on error restore both; flag None = RestoreSnapshot failed (result Invalid) *)
Definition command_phase (s : store) (st : xstate) (c : script) : xstate * option bool * list obs :=
  let st0 := with_log st (create_snapshot (x_log st)) in
  let (sid, v) := snap (x_root st0) (x_cache st0) in
  let st1 := {| x_cache := x_cache st0; x_root := v; x_log := x_log st0 |} in
  let '(st2, _, o) := run s st1 [] (fst c) in
  if snd c then
    match restore (x_root st2) sid with
    | None => (st2, None, o)
    | Some (c0, v') =>
        ({| x_cache := c0; x_root := delete_snap v' sid; x_log := restore_snapshot (x_log st2) |}, Some false, o)
    end
  else ({| x_cache := x_cache st2; x_root := delete_snap (x_root st2) sid; x_log := x_log st2 |}, Some true, o).

(* Executer.executeTransaction with one registered module *)
Definition execute_tx_inner (s : store) (st : xstate) (t : tx) : xstate * xres * list obs :=
  let st := with_log st (set_default_topic (x_log st) (tx_id t)) in
  let '(st1, _, o1) := run s st [] (fst (tx_before t)) in
  if snd (tx_before t) then (st1, XInvalid, o1) else
  match tx_command t with
  | None => (st1, XInvalid, o1)
  | Some c =>
      match command_phase s st1 c with
      | (st2, None, o2) => (st2, XInvalid, o1 ++ o2)
      | (st2, Some success, o2) =>
          let '(st3, _, o3) := run s st2 [] (fst (tx_after t)) in
          if snd (tx_after t) then (st3, XInvalid, o1 ++ o2 ++ o3) else
          match add (x_log st3) (std_req t success) with
          | None => (st3, XInvalid, o1 ++ o2 ++ o3)
          | Some l => (with_log st3 l, if success then XOk else XFail, o1 ++ o2 ++ o3)
          end
      end
  end.

(* Executer.ExecuteTransaction (fix f89ea6f): the staged store is snapshotted on entry and restored when the result is
   Invalid (a hook failed, unknown command, the command's own snapshot was gone) — the events are not touched *)
Definition execute_tx (s : store) (st : xstate) (t : tx) : xstate * xres * list obs :=
  let (sid, v) := snap (x_root st) (x_cache st) in
  let '(st1, r, o) := execute_tx_inner s {| x_cache := x_cache st; x_root := v; x_log := x_log st |} t in
  let st2 := match r with
             | XInvalid => match restore (x_root st1) sid with
                           | Some (c0, v') => {| x_cache := c0; x_root := v'; x_log := x_log st1 |}
                           | None => st1
                           end
             | _ => st1
             end in
  ({| x_cache := x_cache st2; x_root := delete_snap (x_root st2) sid; x_log := x_log st2 |}, r, o).
