(* A concrete, satisfiable instance of the hypotheses of Exec/RootProofs.v (so that they are shown consistent by Coq
   itself): the 8-bit big-endian expansion as [enc] (with its two properties PROVED), a toy 32-byte "hash" that is the
   identity on 32-byte strings, the key universe = proper state keys whose part after the 6-byte store prefix has
   exactly 32 bytes (the toy hash is injective there), and a free hash algebra for the trie of coq/SMT. *)
From Coq Require Import List NArith ZArith Bool Arith Lia.
From LE Require Import Exec.EventLog Exec.TxExec Exec.StateRoot Exec.StateRootProofs Exec.CacheProofs Exec.RootProofs.
Import ListNotations.
Local Open Scope N_scope.

(* bytes.ToBools: most significant bit first *)
Definition byte_bits (b : N) : list bool := map (fun j => N.testbit b (7 - j)) [0; 1; 2; 3; 4; 5; 6; 7].
Definition enc8 (bs : bytes) : list bool := flat_map byte_bits bs.

Lemma enc8_len : forall a, length (enc8 a) = (8 * length a)%nat.
Proof.
  induction a; [reflexivity|]. unfold enc8 in *. cbn [flat_map]. rewrite app_length, IHa.
  unfold byte_bits. rewrite map_length. simpl length. lia.
Qed.

Lemma byte_bits_inj : forall x y, x < 256 -> y < 256 -> byte_bits x = byte_bits y -> x = y.
Proof.
  intros x y Hx Hy H. apply N.bits_inj. intro i.
  assert (HH : forall j, In j [0; 1; 2; 3; 4; 5; 6; 7] -> N.testbit x (7 - j) = N.testbit y (7 - j)).
  { intros j Hj. exact (ext_in_map H j Hj). }
  destruct (N.lt_ge_cases i 8) as [Hi|Hi].
  - replace i with (7 - (7 - i)) by lia. apply HH.
    assert (Hm : (N.to_nat (7 - i) < 8)%nat) by lia.
    rewrite <- (N2Nat.id (7 - i)).
    destruct (N.to_nat (7 - i)) as [|[|[|[|[|[|[|[|m]]]]]]]]; try lia; cbv; tauto.
  - assert (Z : forall z, z < 256 -> N.testbit z i = false).
    { intros z Hz. destruct (N.eq_dec z 0) as [E|E]. - subst. apply N.bits_0.
      - apply N.bits_above_log2. assert (N.log2 z < 8) by (apply N.log2_lt_pow2; lia). lia. }
    rewrite !Z; auto.
Qed.

Lemma enc8_inj : forall a b, wfb a -> wfb b -> length a = length b -> enc8 a = enc8 b -> a = b.
Proof.
  induction a; destruct b; intros Wa Wb L H; try discriminate; auto.
  inversion Wa; inversion Wb; subst. unfold enc8 in H. cbn [flat_map] in H.
  apply app_inv_len in H; [|reflexivity]. destruct H as [E1 E2]. simpl in L.
  f_equal. - apply byte_bits_inj; auto. - apply IHa; auto.
Qed.

(* toy hash: 32 bytes always; the identity on proper 32-byte strings *)
Definition hash_toy (x : bytes) : bytes := firstn 32 (map (fun b => b mod 256) x ++ repeat 0 32).

Lemma hash_toy_len : forall x, length (hash_toy x) = 32%nat.
Proof. intros. unfold hash_toy. rewrite firstn_length, app_length, repeat_length. lia. Qed.

Lemma hash_toy_wfb : forall x, wfb (hash_toy x).
Proof.
  intros. unfold hash_toy. apply wfb_firstn. apply Forall_app. split.
  - apply Forall_forall. intros y Hy. apply in_map_iff in Hy. destruct Hy as [z [E _]]. subst. apply N.mod_lt. lia.
  - apply Forall_forall. intros y Hy. apply repeat_spec in Hy. subst. lia.
Qed.

Lemma map_mod_id : forall x, wfb x -> map (fun b => b mod 256) x = x.
Proof. induction 1; simpl; auto. rewrite IHForall, N.mod_small; auto. Qed.

Lemma hash_toy_id : forall x, wfb x -> length x = 32%nat -> hash_toy x = x.
Proof.
  intros x W L. unfold hash_toy. rewrite map_mod_id; auto. rewrite firstn_app.
  replace (32 - length x)%nat with 0%nat by lia. rewrite firstn_O, app_nil_r. apply firstn_all2. lia.
Qed.

(* the key universe of the toy: proper byte strings of 39 bytes (1 state prefix + 6 store prefix + 32) *)
Definition U_toy (k : bytes) : Prop := wfb k /\ length k = 39%nat.

Lemma wfb_skipn : forall m a, wfb a -> wfb (skipn m a).
Proof.
  intros m a. revert m. induction a; intros [|m] H; simpl; auto. inversion H; subst. apply IHa; auto.
Qed.

Lemma hash_toy_inj_U : forall k k', U_toy k -> U_toy k' ->
  hash_toy (skipn 7 k) = hash_toy (skipn 7 k') -> skipn 7 k = skipn 7 k'.
Proof.
  intros k k' [W L] [W' L'] H.
  rewrite !hash_toy_id in H; auto; try (apply wfb_skipn; auto); rewrite skipn_length; lia.
Qed.
