(* Atomicity of the command phase of ExecuteTransaction and the shape of the event log. *)
From Coq Require Import List NArith ZArith Bool Arith Lia ZifyBool ZifyN ZifyNat.
From LE Require Import Exec.EventLog Exec.TxExec.
Import ListNotations.
Local Open Scope N_scope.

Lemma nlookup_nremove_same : forall {A : Type} (l : list (nat * A)) n, nlookup (nremove l n) n = None.
Proof.
  induction l as [|[m a] l]; simpl; intros; auto.
  destruct (Nat.eqb m n) eqn:E; auto. simpl. rewrite E. auto.
Qed.

Lemma nlookup_nremove_other : forall {A : Type} (l : list (nat * A)) n m, m <> n ->
  nlookup (nremove l n) m = nlookup l m.
Proof.
  induction l as [|[k a] l]; simpl; intros; auto.
  destruct (Nat.eqb k n) eqn:E.
  - apply Nat.eqb_eq in E. subst. destruct (Nat.eqb n m) eqn:E2; auto. apply Nat.eqb_eq in E2. congruence.
  - simpl. destruct (Nat.eqb k m); auto.
Qed.

(* the snapshot taken by ExecuteTransaction is either still the saved cache or gone; ids only grow *)
Definition outer_ok (sid : nat) (c0 : cache) (v : vsnaps) : Prop :=
  (forall c, nlookup (vs_saved v) sid = Some c -> c = c0) /\ (sid < vs_count v)%nat.

Definition appended (l l' : logger) : Prop :=
  (exists new, lg_events l' = lg_events l ++ new) /\ lg_snapshot l' = lg_snapshot l /\
  lg_height l' = lg_height l /\ lg_topic l' = lg_topic l.

Lemma appended_refl : forall l, appended l l.
Proof. intros. split; [exists []; rewrite app_nil_r; auto | auto]. Qed.

Lemma appended_trans : forall a b c, appended a b -> appended b c -> appended a c.
Proof.
  intros a b c [[n1 E1] [S1 [H1 T1]]] [[n2 E2] [S2 [H2 T2]]]. split; [|repeat split; congruence].
  exists (n1 ++ n2). rewrite E2, E1, app_assoc. auto.
Qed.

Lemma add_appended : forall l r l', (add l r = Some l' \/ add_unrevertible l r = Some l') -> appended l l'.
Proof.
  intros l r l' [H|H]; unfold add, add_unrevertible in H; destruct (create_event l r); inversion H; subst;
    (split; [eexists; reflexivity | auto]).
Qed.

Lemma step_inv : forall s st ls a st' ls' o sid c0,
  step s st ls a = (st', ls', o) -> outer_ok sid c0 (x_root st) ->
  outer_ok sid c0 (x_root st') /\ appended (x_log st) (x_log st').
Proof.
  intros s st ls a st' ls' o sid c0 H [I1 I2].
  destruct a; simpl in H.
  - inversion H; subst; simpl. split; [split; auto | apply appended_refl].
  - inversion H; subst; simpl. split; [split; auto | apply appended_refl].
  - destruct (db_get s (x_cache st) k). inversion H; subst; simpl. split; [split; auto | apply appended_refl].
  - destruct (if unrevertible then add_unrevertible (x_log st) r else add (x_log st) r) eqn:E.
    + inversion H; subst; simpl. split; [split; auto|]. eapply add_appended. destruct unrevertible; eauto.
    + inversion H; subst. split; [split; auto | apply appended_refl].
  - destruct view.
    + unfold snap in H. inversion H; subst; simpl. split; [|apply appended_refl]. split; [|simpl; lia].
      intros c Hc. simpl in Hc. destruct (Nat.eqb (vs_count (x_root st)) sid) eqn:E.
      * apply Nat.eqb_eq in E. lia.
      * apply I1. rewrite nlookup_nremove_other in Hc; auto. lia.
    + unfold snap in H. inversion H; subst. split; [split; auto | apply appended_refl].
  - destruct view.
    + unfold restore in H. destruct (nlookup (vs_saved (x_root st)) id) eqn:E.
      * inversion H; subst; simpl. split; [|apply appended_refl]. split; auto.
        intros c1 Hc. simpl in Hc. destruct (Nat.eq_dec sid id).
        -- subst. rewrite nlookup_nremove_same in Hc. discriminate.
        -- rewrite nlookup_nremove_other in Hc; auto.
      * inversion H; subst. split; [split; auto | apply appended_refl].
    + unfold restore in H. destruct (nlookup (vs_saved (local_get ls (S view))) id).
      * inversion H; subst; simpl. split; [split; auto | apply appended_refl].
      * inversion H; subst. split; [split; auto | apply appended_refl].
Qed.

Lemma run_inv : forall s acts st ls st' ls' o sid c0,
  run s st ls acts = (st', ls', o) -> outer_ok sid c0 (x_root st) ->
  outer_ok sid c0 (x_root st') /\ appended (x_log st) (x_log st').
Proof.
  induction acts; simpl; intros.
  - inversion H; subst. split; auto. apply appended_refl.
  - destruct (step s st ls a) as [[st1 ls1] o1] eqn:E1.
    destruct (run s st1 ls1 acts) as [[st2 ls2] o2] eqn:E2. inversion H; subst.
    destruct (step_inv _ _ _ _ _ _ _ _ _ E1 H0) as [A1 A2].
    destruct (IHacts _ _ _ _ _ _ _ E2 A1) as [B1 B2]. split; auto. eapply appended_trans; eauto.
Qed.

(* failed_command_is_noop_on_state: whatever the command did — writes and deletes through any prefix views, its own
   snapshots and restores on the context or on views — a command that returns an error leaves the staged store exactly
   as it was when the command started (so every reader, through every view, sees the earlier state). *)
Theorem failed_command_is_noop_on_state : forall s st acts st' o,
  command_phase s st (acts, true) = (st', Some false, o) -> x_cache st' = x_cache st.
Proof.
  intros s st acts st' o. unfold command_phase. simpl fst. simpl snd.
  unfold snap. simpl.
  set (st1 := {| x_cache := x_cache st;
                 x_root := {| vs_count := S (vs_count (x_root st));
                              vs_saved := (vs_count (x_root st), x_cache st) :: nremove (vs_saved (x_root st)) (vs_count (x_root st)) |};
                 x_log := create_snapshot (x_log st) |}).
  destruct (run s st1 [] acts) as [[st2 ls2] o2] eqn:E.
  assert (I : outer_ok (vs_count (x_root st)) (x_cache st) (x_root st1)).
  { unfold st1. simpl. split; [|simpl; lia]. simpl. rewrite Nat.eqb_refl. intros c Hc. inversion Hc; auto. }
  destruct (run_inv _ _ _ _ _ _ _ _ _ E I) as [[J1 J2] _].
  unfold restore. destruct (nlookup (vs_saved (x_root st2)) (vs_count (x_root st))) eqn:R; intro H; inversion H; subst.
  simpl. apply J1. auto.
Qed.

(* the same phase never reports success=false without having restored, and success=true means no restore happened *)
Theorem successful_command_keeps_effects : forall s st acts st' o,
  command_phase s st (acts, false) = (st', Some true, o) ->
  exists st2 ls2, run s {| x_cache := x_cache st; x_root := snd (snap (x_root st) (x_cache st)); x_log := create_snapshot (x_log st) |} [] acts
                  = (st2, ls2, o) /\ x_cache st' = x_cache st2 /\ x_log st' = x_log st2.
Proof.
  intros s st acts st' o. unfold command_phase. simpl fst. simpl snd. unfold snap. simpl.
  match goal with |- context [run s ?x [] acts] => destruct (run s x [] acts) as [[st2 ls2] o2] eqn:E end.
  intro H. inversion H; subst. exists st2, ls2. simpl. auto.
Qed.

(* ---- events *)
Definition indexed (l : list logged) : Prop :=
  forall i x, nth_error l i = Some x -> ev_index (le_event x) = N.of_nat i.

Lemma indexed_app_one : forall l x, indexed l -> ev_index (le_event x) = N.of_nat (length l) -> indexed (l ++ [x]).
Proof.
  intros l x H E i y Hy. destruct (Nat.lt_ge_cases i (length l)).
  - rewrite nth_error_app1 in Hy; auto.
  - rewrite nth_error_app2 in Hy; auto. destruct (i - length l)%nat eqn:D; simpl in Hy.
    + inversion Hy; subst. rewrite E. f_equal. lia.
    + destruct n; discriminate.
Qed.

Lemma keep_norevert_indexed : forall new old, indexed old -> indexed (old ++ keep_norevert new (length old)).
Proof.
  induction new; simpl; intros. - rewrite app_nil_r; auto.
  - destruct (le_norevert a); auto.
    replace (old ++ {| le_event := reindex (le_event a) (length old); le_norevert := true |} :: keep_norevert new (S (length old)))
      with ((old ++ [{| le_event := reindex (le_event a) (length old); le_norevert := true |}]) ++
            keep_norevert new (length (old ++ [{| le_event := reindex (le_event a) (length old); le_norevert := true |}]))).
    + apply IHnew. apply indexed_app_one; auto.
    + rewrite app_length. simpl. rewrite <- app_assoc. simpl. f_equal. f_equal. f_equal. lia.
Qed.

Lemma push_indexed : forall l r l', (add l r = Some l' \/ add_unrevertible l r = Some l') -> indexed (lg_events l) -> indexed (lg_events l').
Proof.
  intros l r l' [H|H] I; unfold add, add_unrevertible, create_event in H;
    destruct (lg_topic l); try discriminate; destruct (rq_ok r); try discriminate; inversion H; subst; simpl;
    apply indexed_app_one; auto.
Qed.

(* events_on_failure: after a failed command the log holds the events that were there before the command, then the
   command's unrevertible events in order, re-indexed, and nothing else *)
Theorem events_on_failure : forall s st acts st' o,
  command_phase s st (acts, true) = (st', Some false, o) ->
  exists new, lg_events (x_log st') = lg_events (x_log st) ++ keep_norevert new (length (lg_events (x_log st))) /\
              lg_topic (x_log st') = lg_topic (x_log st) /\ lg_height (x_log st') = lg_height (x_log st).
Proof.
  intros s st acts st' o. unfold command_phase. simpl fst. simpl snd. unfold snap. simpl.
  set (st1 := {| x_cache := x_cache st;
                 x_root := {| vs_count := S (vs_count (x_root st));
                              vs_saved := (vs_count (x_root st), x_cache st) :: nremove (vs_saved (x_root st)) (vs_count (x_root st)) |};
                 x_log := create_snapshot (x_log st) |}).
  destruct (run s st1 [] acts) as [[st2 ls2] o2] eqn:E.
  assert (I : outer_ok (vs_count (x_root st)) (x_cache st) (x_root st1)).
  { unfold st1. simpl. split; [|simpl; lia]. simpl. rewrite Nat.eqb_refl. intros c Hc. inversion Hc; auto. }
  destruct (run_inv _ _ _ _ _ _ _ _ _ E I) as [_ [[new En] [Sn [Hn Tn]]]].
  unfold restore. destruct (nlookup (vs_saved (x_root st2)) (vs_count (x_root st))) eqn:R; intro H; inversion H; subst.
  simpl. exists new. unfold restore_snapshot. rewrite Sn. simpl. rewrite En. simpl.
  rewrite firstn_app, firstn_all, Nat.sub_diag, app_nil_r. simpl.
  rewrite skipn_app, skipn_all, Nat.sub_diag. simpl. auto.
Qed.

(* the standard event closes the log with the next index *)
Theorem standard_event_is_last : forall l t success l',
  add l (std_req t success) = Some l' ->
  exists e, lg_events l' = lg_events l ++ [{| le_event := e; le_norevert := false |}] /\
            ev_index e = N.of_nat (length (lg_events l)) /\ ev_name e = std_name /\ ev_data e = std_data success.
Proof.
  intros l t success l'. unfold add, create_event. destruct (lg_topic l); try discriminate.
  destruct (rq_ok (std_req t success)); try discriminate. intro H. inversion H; subst. simpl. eexists. split; [reflexivity|]. auto.
Qed.

(* every event's index is its position, across the whole of ExecuteTransaction *)
Lemma step_indexed : forall s st ls a st' ls' o, step s st ls a = (st', ls', o) ->
  indexed (lg_events (x_log st)) -> indexed (lg_events (x_log st')).
Proof.
  intros s st ls a st' ls' o H I. destruct a; simpl in H.
  - inversion H; subst; auto.
  - inversion H; subst; auto.
  - destruct (db_get s (x_cache st) k). inversion H; subst; auto.
  - destruct (if unrevertible then add_unrevertible (x_log st) r else add (x_log st) r) eqn:E.
    + inversion H; subst; simpl. eapply push_indexed; eauto. destruct unrevertible; eauto.
    + inversion H; subst; auto.
  - destruct view; unfold snap in H; inversion H; subst; auto.
  - destruct view; unfold restore in H.
    + destruct (nlookup (vs_saved (x_root st)) id); inversion H; subst; auto.
    + destruct (nlookup (vs_saved (local_get ls (S view))) id); inversion H; subst; auto.
Qed.

Lemma run_indexed : forall s acts st ls st' ls' o, run s st ls acts = (st', ls', o) ->
  indexed (lg_events (x_log st)) -> indexed (lg_events (x_log st')).
Proof.
  induction acts; simpl; intros. - inversion H; subst; auto.
  - destruct (step s st ls a) as [[st1 ls1] o1] eqn:E1.
    destruct (run s st1 ls1 acts) as [[st2 ls2] o2] eqn:E2. inversion H; subst.
    eapply IHacts; eauto. eapply step_indexed; eauto.
Qed.

Lemma restore_indexed : forall l, indexed (lg_events l) ->
  (forall n, lg_snapshot l = Some n -> (n <= length (lg_events l))%nat) -> indexed (lg_events (restore_snapshot l)).
Proof.
  intros l I Hn. unfold restore_snapshot. destruct (lg_snapshot l) eqn:E; auto. simpl.
  specialize (Hn _ eq_refl).
  pose proof (keep_norevert_indexed (skipn n (lg_events l)) (firstn n (lg_events l))) as K.
  rewrite firstn_length_le in K by auto. apply K.
  intros i x Hx. apply I. rewrite <- (firstn_skipn n (lg_events l)). rewrite nth_error_app1; auto.
  apply nth_error_Some. congruence.
Qed.

Theorem command_phase_indexed : forall s st c st' r o,
  command_phase s st c = (st', r, o) -> indexed (lg_events (x_log st)) -> indexed (lg_events (x_log st')).
Proof.
  intros s st [acts fails] st' r o. unfold command_phase. simpl fst. simpl snd. unfold snap. simpl.
  match goal with |- context [run s ?x [] acts] => set (st1 := x); destruct (run s st1 [] acts) as [[st2 ls2] o2] eqn:E end.
  intros H I.
  assert (I2 : indexed (lg_events (x_log st2))) by (eapply run_indexed; eauto).
  assert (I0 : outer_ok (vs_count (x_root st)) (x_cache st) (x_root st1)).
  { unfold st1. simpl. split; [|simpl; lia]. simpl. rewrite Nat.eqb_refl. intros c Hc. inversion Hc; auto. }
  destruct (run_inv _ _ _ _ _ _ _ _ _ E I0) as [_ [[new En] [Sn _]]].
  destruct fails.
  - unfold restore in H. destruct (nlookup (vs_saved (x_root st2)) (vs_count (x_root st))); inversion H; subst; auto.
    simpl. apply restore_indexed; auto. intros n Hs. rewrite Sn in Hs. simpl in Hs. inversion Hs; subst.
    rewrite En. rewrite app_length. simpl. lia.
  - inversion H; subst; auto.
Qed.

Lemma execute_tx_inner_indexed : forall s st t st' r o,
  execute_tx_inner s st t = (st', r, o) -> indexed (lg_events (x_log st)) -> indexed (lg_events (x_log st')).
Proof.
  intros s st t st' r o. unfold execute_tx_inner.
  match goal with |- context [run s ?x [] (fst (tx_before t))] =>
    destruct (run s x [] (fst (tx_before t))) as [[st1 l1] o1] eqn:E1 end.
  intros H I.
  assert (I1 : indexed (lg_events (x_log st1))) by (eapply run_indexed; eauto).
  destruct (snd (tx_before t)). { inversion H; subst; auto. }
  destruct (tx_command t) as [c|]. 2:{ inversion H; subst; auto. }
  destruct (command_phase s st1 c) as [[st2 [success|]] o2] eqn:E2. 2:{ inversion H; subst. eapply command_phase_indexed; eauto. }
  assert (I2 : indexed (lg_events (x_log st2))) by (eapply command_phase_indexed; eauto).
  destruct (run s st2 [] (fst (tx_after t))) as [[st3 l3] o3] eqn:E3.
  assert (I3 : indexed (lg_events (x_log st3))) by (eapply run_indexed; eauto).
  destruct (snd (tx_after t)). { inversion H; subst; auto. }
  destruct (add (x_log st3) (std_req t success)) eqn:E4; inversion H; subst; auto.
  simpl. eapply push_indexed; eauto.
Qed.

Theorem execute_tx_indexed : forall s st t st' r o,
  execute_tx s st t = (st', r, o) -> indexed (lg_events (x_log st)) -> indexed (lg_events (x_log st')).
Proof.
  intros s st t st' r o. unfold execute_tx, snap. simpl.
  match goal with |- context [execute_tx_inner s ?x t] => destruct (execute_tx_inner s x t) as [[st1 r1] o1] eqn:E end.
  intros H I. assert (I1 : indexed (lg_events (x_log st1))) by (eapply execute_tx_inner_indexed; eauto).
  inversion H; subst. simpl. destruct r; auto.
  unfold restore. destruct (nlookup (vs_saved (x_root st1)) (vs_count (x_root st))); auto.
Qed.

(* ---- an invalid transaction leaves no trace *)
(* module code that restores only snapshots of views (the context-level ids are relative to the context's history) *)
Definition no_root_restore (a : action) : Prop := match a with ARestore O _ => False | _ => True end.
Definition tx_no_root_restore (t : tx) : Prop :=
  Forall no_root_restore (fst (tx_before t)) /\
  match tx_command t with Some c => Forall no_root_restore (fst c) | None => True end /\
  Forall no_root_restore (fst (tx_after t)).

Definition outer_present (sid : nat) (c0 : cache) (v : vsnaps) : Prop :=
  nlookup (vs_saved v) sid = Some c0 /\ (sid < vs_count v)%nat.

Lemma step_present : forall s st ls a st' ls' o sid c0, no_root_restore a ->
  step s st ls a = (st', ls', o) -> outer_present sid c0 (x_root st) -> outer_present sid c0 (x_root st').
Proof.
  intros s st ls a st' ls' o sid c0 Ha H [I1 I2]. destruct a; simpl in H, Ha.
  - inversion H; subst; split; auto.
  - inversion H; subst; split; auto.
  - destruct (db_get s (x_cache st) k). inversion H; subst; split; auto.
  - destruct (if unrevertible then add_unrevertible (x_log st) r else add (x_log st) r); inversion H; subst; split; auto.
  - destruct view; unfold snap in H; inversion H; subst; try (split; auto; fail).
    split; simpl; [|lia]. destruct (Nat.eqb (vs_count (x_root st)) sid) eqn:E.
    + apply Nat.eqb_eq in E. lia.
    + rewrite nlookup_nremove_other; auto. lia.
  - destruct view; try tauto. unfold restore in H.
    destruct (nlookup (vs_saved (local_get ls (S view))) id); inversion H; subst; split; auto.
Qed.

Lemma run_present : forall s acts st ls st' ls' o sid c0, Forall no_root_restore acts ->
  run s st ls acts = (st', ls', o) -> outer_present sid c0 (x_root st) -> outer_present sid c0 (x_root st').
Proof.
  induction acts; simpl; intros. - inversion H0; subst; auto.
  - inversion H; subst.
    destruct (step s st ls a) as [[st1 ls1] o1] eqn:E1.
    destruct (run s st1 ls1 acts) as [[st2 ls2] o2] eqn:E2. inversion H0; subst.
    eapply IHacts; eauto. eapply step_present; eauto.
Qed.

Lemma command_phase_present : forall s st c st' r o sid c0, Forall no_root_restore (fst c) ->
  command_phase s st c = (st', r, o) -> outer_present sid c0 (x_root st) -> outer_present sid c0 (x_root st').
Proof.
  intros s st [acts fails] st' r o sid c0 Hw. unfold command_phase. simpl fst in *. simpl snd. unfold snap. simpl.
  match goal with |- context [run s ?x [] acts] => set (st1 := x); destruct (run s st1 [] acts) as [[st2 ls2] o2] eqn:E end.
  intros H [P1 P2].
  assert (Q1 : outer_present sid c0 (x_root st1)).
  { unfold st1. split; simpl; [|lia]. destruct (Nat.eqb (vs_count (x_root st)) sid) eqn:B.
    - apply Nat.eqb_eq in B. lia. - rewrite nlookup_nremove_other; auto. lia. }
  destruct (run_present _ _ _ _ _ _ _ _ _ Hw E Q1) as [R1 R2].
  assert (Hne : sid <> vs_count (x_root st)) by lia.
  destruct fails.
  - unfold restore in H. destruct (nlookup (vs_saved (x_root st2)) (vs_count (x_root st))); inversion H; subst.
    + split; simpl; auto. rewrite !nlookup_nremove_other; auto.
    + split; auto.
  - inversion H; subst. split; simpl; auto. rewrite nlookup_nremove_other; auto.
Qed.

(* invalid_transaction_is_noop_on_state: whatever the hooks and the command wrote before the transaction turned out to
   be invalid, the staged store is exactly what it was when ExecuteTransaction was entered *)
Theorem invalid_transaction_is_noop_on_state : forall s st t st' o, tx_no_root_restore t ->
  execute_tx s st t = (st', XInvalid, o) -> x_cache st' = x_cache st.
Proof.
  intros s st t st' o [W1 [W2 W3]]. unfold execute_tx, snap. simpl.
  set (st0 := {| x_cache := x_cache st;
                 x_root := {| vs_count := S (vs_count (x_root st));
                              vs_saved := (vs_count (x_root st), x_cache st) :: nremove (vs_saved (x_root st)) (vs_count (x_root st)) |};
                 x_log := x_log st |}).
  destruct (execute_tx_inner s st0 t) as [[st1 r1] o1] eqn:E. intro H. inversion H; subst r1 o1. clear H.
  assert (P0 : outer_present (vs_count (x_root st)) (x_cache st) (x_root st0)).
  { unfold st0. split; simpl; [|lia]. rewrite Nat.eqb_refl. auto. }
  assert (P1 : outer_present (vs_count (x_root st)) (x_cache st) (x_root st1)).
  { revert E. unfold execute_tx_inner.
    match goal with |- context [run s ?x [] (fst (tx_before t))] =>
      set (sta := x); destruct (run s sta [] (fst (tx_before t))) as [[sa la] oa] eqn:E1 end.
    assert (Pa : outer_present (vs_count (x_root st)) (x_cache st) (x_root sa)) by (eapply run_present; [exact W1 | exact E1 | exact P0]).
    destruct (snd (tx_before t)). { intro H; inversion H; subst; auto. }
    destruct (tx_command t) as [c|]. 2:{ intro H; inversion H; subst; auto. }
    destruct (command_phase s sa c) as [[sb [success|]] ob] eqn:E2.
    2:{ intro H; inversion H; subst. exact (command_phase_present _ _ _ _ _ _ _ _ W2 E2 Pa). }
    assert (Pb : outer_present (vs_count (x_root st)) (x_cache st) (x_root sb)) by exact (command_phase_present _ _ _ _ _ _ _ _ W2 E2 Pa).
    destruct (run s sb [] (fst (tx_after t))) as [[sc lc] oc] eqn:E3.
    assert (Pc : outer_present (vs_count (x_root st)) (x_cache st) (x_root sc)) by exact (run_present _ _ _ _ _ _ _ _ _ W3 E3 Pb).
    destruct (snd (tx_after t)). { intro H; inversion H; subst; auto. }
    destruct (add (x_log sc) (std_req t success)); intro H; inversion H; subst; auto. }
  destruct P1 as [L _]. unfold restore. rewrite L. simpl. auto.
Qed.

(* ---- block-level renumbering *)
Lemma update_index_from_nth : forall l i0 i e, nth_error l i = Some e ->
  nth_error (update_index_from l i0) i = Some (reindex e (i0 + i)).
Proof.
  induction l; intros i0 i e H; destruct i; simpl in *; try discriminate.
  - inversion H; subst. rewrite Nat.add_0_r. auto.
  - rewrite (IHl (S i0) i e H). f_equal. f_equal. lia.
Qed.

Lemma update_index_from_length : forall l i0, length (update_index_from l i0) = length l.
Proof. induction l; simpl; intros; auto. Qed.

(* the events of a block, as the engine stores them: same events in the same order (before-hooks, the transactions in
   block order, after-hooks), every field but the index untouched, and the i-th event carries index i *)
Theorem block_events_renumbered : forall before txs after i e,
  nth_error (before ++ concat txs ++ after) i = Some e ->
  nth_error (block_events before txs after) i = Some (reindex e i).
Proof. intros. unfold block_events, update_index. rewrite (update_index_from_nth _ 0 i e H). auto. Qed.

Theorem block_events_indexed : forall before txs after i e,
  nth_error (block_events before txs after) i = Some e -> ev_index e = N.of_nat i.
Proof.
  intros before txs after i e H. unfold block_events, update_index in H.
  destruct (nth_error (before ++ concat txs ++ after) i) as [e0|] eqn:E.
  - rewrite (update_index_from_nth _ 0 i e0 E) in H. inversion H; subst. reflexivity.
  - apply nth_error_None in E. assert (nth_error (update_index_from (before ++ concat txs ++ after) 0) i = None).
    { apply nth_error_None. rewrite update_index_from_length. auto. }
    congruence.
Qed.

Theorem block_events_length : forall before txs after,
  length (block_events before txs after) = length (before ++ concat txs ++ after).
Proof. intros. apply update_index_from_length. Qed.
