(* The staged cache stays well-formed through every command script, snapshot, restore and transaction:
   distinct keys, every entry remembers the persisted value of its key ([coherent]), every key is a module-store key. *)
From Coq Require Import List NArith ZArith Bool Arith Lia.
From LE Require Import Exec.EventLog Exec.TxExec Exec.TxExecProofs Exec.StateRoot Exec.StateRootProofs.
Import ListNotations.
Local Open Scope N_scope.

(* state keys: the state prefix byte 0, then at least the 6-byte module store prefix *)
Definition wfkey (k : bytes) : Prop := exists r, k = 0 :: r /\ (6 <= length r)%nat.

Lemma remove_keys_incl : forall {A : Type} (l : list (bytes * A)) k x, In x (map fst (remove l k)) -> In x (map fst l).
Proof.
  induction l as [|[k' a] l]; simpl; intros; auto.
  destruct (bytes_eqb k' k); simpl in *. - right; eauto. - destruct H; eauto.
Qed.
Lemma remove_not_in : forall {A : Type} (l : list (bytes * A)) k, ~ In k (map fst (remove l k)).
Proof.
  induction l as [|[k' a] l]; simpl; intros; auto.
  destruct (bytes_eqb k' k) eqn:E; simpl; auto. intros [H|H].
  - subst. rewrite bytes_eqb_refl in E. discriminate.
  - eapply IHl; eauto.
Qed.
Lemma remove_nodup : forall {A : Type} (l : list (bytes * A)) k, NoDup (map fst l) -> NoDup (map fst (remove l k)).
Proof.
  induction l as [|[k' a] l]; simpl; intros; auto. inversion H; subst.
  destruct (bytes_eqb k' k); simpl; auto. constructor; auto. intro. apply H2. eapply remove_keys_incl; eauto.
Qed.
Lemma put_nodup : forall {A : Type} (l : list (bytes * A)) k a, NoDup (map fst l) -> NoDup (map fst (put l k a)).
Proof. intros. unfold put. simpl. constructor. - apply remove_not_in. - apply remove_nodup; auto. Qed.

Lemma lookup_in : forall {A : Type} (l : list (bytes * A)) k a, lookup l k = Some a -> In k (map fst l).
Proof.
  induction l as [|[k' a'] l]; simpl; intros; try discriminate.
  destruct (bytes_eqb k' k) eqn:E. - apply bytes_eqb_eq in E. auto. - right. eapply IHl; eauto.
Qed.
Lemma lookup_none_notin : forall {A : Type} (l : list (bytes * A)) k, lookup l k = None -> ~ In k (map fst l).
Proof.
  induction l as [|[k' a'] l]; simpl; intros; auto.
  destruct (bytes_eqb k' k) eqn:E; try discriminate. intros [H1|H1].
  - subst. rewrite bytes_eqb_refl in E. discriminate. - eapply IHl; eauto.
Qed.
Lemma in_lookup : forall {A : Type} (l : list (bytes * A)) k, In k (map fst l) -> exists a, lookup l k = Some a.
Proof.
  intros. destruct (lookup l k) eqn:E; eauto. exfalso. eapply lookup_none_notin; eauto.
Qed.

(* [KP]: which keys module code may touch (RootProofs: well-formed state keys of the run's key universe) *)
Section Keys.
  Variable KP : bytes -> Prop.

(* the invariant of one cache over the persisted store s *)
Definition cache_good (s : store) (c : cache) : Prop :=
  NoDup (map fst c) /\ coherent s c /\ (forall k, In k (map fst c) -> KP k).

Definition entry_ok (s : store) (k : bytes) (e : entry) : Prop :=
  en_init e = lookup s k /\
  (en_dirty e = false -> en_deleted e = false -> en_init e <> None -> Some (en_val e) = lookup s k) /\
  (en_init e = None -> en_deleted e = false).

Lemma put_good : forall s c k e, cache_good s c -> KP k -> entry_ok s k e -> cache_good s (put c k e).
Proof.
  intros s c k e [N [C W]] Hk He. split; [apply put_nodup; auto|]. split.
  - intros k1 e1 H1. destruct (bytes_eqb k k1) eqn:B.
    + apply bytes_eqb_eq in B. subst. rewrite lookup_put_same in H1. inversion H1; subst. exact He.
    + rewrite lookup_put_other in H1. * apply C; auto. * intro; subst. rewrite bytes_eqb_refl in B. discriminate.
  - intros k1 H1. unfold put in H1. simpl in H1. destruct H1; subst; auto. apply W. eapply remove_keys_incl; eauto.
Qed.

Lemma remove_good : forall s c k, cache_good s c -> cache_good s (remove c k).
Proof.
  intros s c k [N [C W]]. split; [apply remove_nodup; auto|]. split.
  - intros k1 e1 H1. destruct (bytes_eqb k k1) eqn:B.
    + apply bytes_eqb_eq in B. subst. rewrite lookup_remove_same in H1. discriminate.
    + rewrite lookup_remove_other in H1. * apply C; auto. * intro; subst. rewrite bytes_eqb_refl in B. discriminate.
  - intros k1 H1. apply W. eapply remove_keys_incl; eauto.
Qed.

Lemma db_get_good : forall s c k r c', cache_good s c -> KP k -> db_get s c k = (r, c') -> cache_good s c'.
Proof.
  intros s c k r c' G Hk. unfold db_get. destruct (lookup c k). { intro H; inversion H; subst; auto. }
  destruct (lookup s k) eqn:E; intro H; inversion H; subst; auto.
  apply put_good; auto. unfold entry_ok; simpl. repeat split; auto; discriminate.
Qed.

Lemma db_set_good : forall s c k v, cache_good s c -> KP k -> cache_good s (db_set s c k v).
Proof.
  intros s c k v G Hk. unfold db_set. destruct (lookup c k) as [e|] eqn:E.
  - destruct G as [N [C W]]. destruct (C _ _ E) as [C1 [C2 C3]].
    apply put_good; [split; auto | auto |]. unfold entry_ok; simpl. repeat split; auto; discriminate.
  - destruct (lookup s k) eqn:E2; apply put_good; auto; unfold entry_ok; simpl; repeat split; auto; try discriminate; congruence.
Qed.

Lemma db_del_good : forall s c k, cache_good s c -> KP k -> cache_good s (db_del s c k).
Proof.
  intros s c k G Hk. unfold db_del.
  set (c1 := match lookup c k with
             | Some _ => c
             | None => match lookup s k with
                       | Some v0 => put c k {| en_init := Some v0; en_val := v0; en_dirty := false; en_deleted := false |}
                       | None => c
                       end
             end).
  assert (G1 : cache_good s c1).
  { unfold c1. destruct (lookup c k); auto. destruct (lookup s k) eqn:E; auto.
    apply put_good; auto. unfold entry_ok; simpl. repeat split; auto; discriminate. }
  destruct (lookup c1 k) as [e|] eqn:E; auto.
  destruct (en_init e) eqn:I. 2:{ apply remove_good; auto. }
  destruct G1 as [N [C W]]. destruct (C _ _ E) as [C1 [C2 C3]].
  apply put_good; [split; auto | auto |]. unfold entry_ok; simpl. rewrite I in *. repeat split; auto; discriminate.
Qed.

(* every key a script touches is a module-store key *)
Definition action_wf (a : action) : Prop :=
  match a with ASet k _ | ADel k | AGet k => KP k | _ => True end.

Lemma nlookup_nremove_some : forall {A : Type} (l : list (nat * A)) n m a, nlookup (nremove l n) m = Some a -> nlookup l m = Some a.
Proof.
  intros. destruct (Nat.eq_dec m n). - subst. rewrite nlookup_nremove_same in H. discriminate.
  - rewrite nlookup_nremove_other in H; auto.
Qed.

Definition snaps_good (s : store) (v : vsnaps) : Prop := forall id c, nlookup (vs_saved v) id = Some c -> cache_good s c.
Definition xgood (s : store) (st : xstate) (ls : locals) : Prop :=
  cache_good s (x_cache st) /\ snaps_good s (x_root st) /\ (forall n v, nlookup ls n = Some v -> snaps_good s v).

Lemma snap_good : forall s v c, snaps_good s v -> cache_good s c -> snaps_good s (snd (snap v c)).
Proof.
  intros s v c Hv Hc id c' H. unfold snap in H. simpl in H.
  destruct (Nat.eqb (vs_count v) id). - inversion H; subst; auto. - apply nlookup_nremove_some in H. eapply Hv; eauto.
Qed.

Lemma no_snaps_good : forall s, snaps_good s no_snaps.
Proof. intros s id c H. simpl in H. discriminate. Qed.

Lemma local_get_good : forall s ls n, (forall n v, nlookup ls n = Some v -> snaps_good s v) -> snaps_good s (local_get ls n).
Proof. intros. unfold local_get. destruct (nlookup ls n) eqn:E; eauto. apply no_snaps_good. Qed.

Lemma local_put_good : forall s ls n v, (forall n v, nlookup ls n = Some v -> snaps_good s v) -> snaps_good s v ->
  (forall m w, nlookup (local_put ls n v) m = Some w -> snaps_good s w).
Proof.
  intros s ls n v H Hv m w E. unfold local_put in E. simpl in E.
  destruct (Nat.eqb n m). - inversion E; subst; auto. - apply nlookup_nremove_some in E. eauto.
Qed.

Lemma step_good : forall s st ls a st' ls' o, action_wf a -> step s st ls a = (st', ls', o) -> xgood s st ls -> xgood s st' ls'.
Proof.
  intros s st ls a st' ls' o Ha H [G1 [G2 G3]]. destruct a; simpl in H, Ha.
  - inversion H; subst. split; [|split]; simpl; auto. apply db_set_good; auto.
  - inversion H; subst. split; [|split]; simpl; auto. apply db_del_good; auto.
  - destruct (db_get s (x_cache st) k) eqn:E. inversion H; subst. split; [|split]; simpl; auto. eapply db_get_good; eauto.
  - destruct (if unrevertible then add_unrevertible (x_log st) r else add (x_log st) r); inversion H; subst;
      (split; [|split]; simpl; auto).
  - destruct view.
    + inversion H; subst. split; [|split]; simpl; auto. apply (snap_good s (x_root st) (x_cache st)); auto.
    + inversion H; subst. split; [|split]; auto.
      apply local_put_good; auto. apply (snap_good s _ (x_cache st')); auto. apply local_get_good; auto.
  - destruct view.
    + unfold restore in H. destruct (nlookup (vs_saved (x_root st)) id) eqn:E; inversion H; subst.
      * split; [|split]; simpl; auto. { eapply G2; eauto. }
        intros id' c' E'. simpl in E'. apply nlookup_nremove_some in E'. eapply G2; eauto.
      * split; [|split]; auto.
    + unfold restore in H. destruct (nlookup (vs_saved (local_get ls (S view))) id) eqn:E; inversion H; subst.
      * assert (L := local_get_good s ls (S view) G3).
        split; [|split]; [simpl; eapply L; eauto | simpl; auto |].
        apply local_put_good; auto. intros id' c' E'. simpl in E'. apply nlookup_nremove_some in E'. eapply L; eauto.
      * split; [|split]; auto.
Qed.

Lemma run_good : forall s acts st ls st' ls' o, Forall action_wf acts -> run s st ls acts = (st', ls', o) ->
  xgood s st ls -> xgood s st' ls'.
Proof.
  induction acts; simpl; intros. - inversion H0; subst; auto.
  - inversion H; subst.
    destruct (step s st ls a) as [[st1 ls1] o1] eqn:E1.
    destruct (run s st1 ls1 acts) as [[st2 ls2] o2] eqn:E2. inversion H0; subst.
    eapply IHacts; eauto. eapply step_good; eauto.
Qed.

Definition xgood0 (s : store) (st : xstate) : Prop := cache_good s (x_cache st) /\ snaps_good s (x_root st).

Lemma xgood0_nil : forall s st, xgood0 s st -> xgood s st [].
Proof. intros s st [A B]. split; [|split]; auto. intros n v H. simpl in H. discriminate. Qed.

Definition script_wf (c : script) : Prop := Forall action_wf (fst c).
Definition tx_wf (t : tx) : Prop :=
  script_wf (tx_before t) /\ match tx_command t with Some c => script_wf c | None => True end /\ script_wf (tx_after t).

Lemma delete_snap_good : forall s v id, snaps_good s v -> snaps_good s (delete_snap v id).
Proof. intros s v id H id' c E. simpl in E. apply nlookup_nremove_some in E. eapply H; eauto. Qed.

Lemma command_phase_good : forall s st c st' r o, script_wf c -> command_phase s st c = (st', r, o) -> xgood0 s st -> xgood0 s st'.
Proof.
  intros s st [acts fails] st' r o Hw. unfold command_phase. simpl fst. simpl snd. unfold snap. simpl.
  match goal with |- context [run s ?x [] acts] => set (st1 := x); destruct (run s st1 [] acts) as [[st2 ls2] o2] eqn:E end.
  intros H [G1 G2].
  assert (X1 : xgood s st1 []).
  { apply xgood0_nil. split; simpl; auto. apply (snap_good s (x_root st) (x_cache st)); auto. }
  destruct (run_good _ _ _ _ _ _ _ Hw E X1) as [A [B _]].
  destruct fails.
  - unfold restore in H. destruct (nlookup (vs_saved (x_root st2)) (vs_count (x_root st))) eqn:R; inversion H; subst.
    + split; simpl. * eapply B; eauto. * intros id c' E'. simpl in E'. do 2 apply nlookup_nremove_some in E'. eapply B; eauto.
    + split; auto.
  - inversion H; subst. split; simpl; auto. apply delete_snap_good; auto.
Qed.

Lemma execute_tx_inner_good : forall s st t st' r o, tx_wf t -> execute_tx_inner s st t = (st', r, o) -> xgood0 s st -> xgood0 s st'.
Proof.
  intros s st t st' r o [W1 [W2 W3]]. unfold execute_tx_inner.
  match goal with |- context [run s ?x [] (fst (tx_before t))] =>
    set (st0 := x); destruct (run s st0 [] (fst (tx_before t))) as [[st1 l1] o1] eqn:E1 end.
  intros H G.
  assert (G0 : xgood0 s st0) by (destruct G; split; auto).
  destruct (run_good _ _ _ _ _ _ _ W1 E1 (xgood0_nil _ _ G0)) as [A1 [B1 _]].
  assert (G1 : xgood0 s st1) by (split; auto).
  destruct (snd (tx_before t)). { inversion H; subst; auto. }
  destruct (tx_command t) as [c|]. 2:{ inversion H; subst; auto. }
  destruct (command_phase s st1 c) as [[st2 [success|]] o2] eqn:E2.
  2:{ inversion H; subst. exact (command_phase_good _ _ _ _ _ _ W2 E2 G1). }
  assert (G2 : xgood0 s st2) by exact (command_phase_good _ _ _ _ _ _ W2 E2 G1).
  destruct (run s st2 [] (fst (tx_after t))) as [[st3 l3] o3] eqn:E3.
  destruct (run_good _ _ _ _ _ _ _ W3 E3 (xgood0_nil _ _ G2)) as [A3 [B3 _]].
  destruct (snd (tx_after t)). { inversion H; subst; split; auto. }
  destruct (add (x_log st3) (std_req t success)); inversion H; subst; split; auto.
Qed.

Lemma execute_tx_good : forall s st t st' r o, tx_wf t -> execute_tx s st t = (st', r, o) -> xgood0 s st -> xgood0 s st'.
Proof.
  intros s st t st' r o W. unfold execute_tx, snap. simpl.
  match goal with |- context [execute_tx_inner s ?x t] => set (st0 := x); destruct (execute_tx_inner s st0 t) as [[st1 r1] o1] eqn:E end.
  intros H [G1 G2].
  assert (G0 : xgood0 s st0).
  { split; simpl; auto. apply (snap_good s (x_root st) (x_cache st)); auto. }
  destruct (execute_tx_inner_good _ _ _ _ _ _ W E G0) as [A B].
  inversion H; subst. destruct r.
  - unfold restore. destruct (nlookup (vs_saved (x_root st1)) (vs_count (x_root st))) eqn:R; simpl.
    + split; simpl. * eapply B; eauto. * intros id c' E'. simpl in E'. do 2 apply nlookup_nremove_some in E'. eapply B; eauto.
    + split; simpl; auto. apply delete_snap_good; auto.
  - split; simpl; auto. apply delete_snap_good; auto.
  - split; simpl; auto. apply delete_snap_good; auto.
Qed.

(* the transactions of one block over the block's staged store (ABIHandler.ExecuteTransaction: one EventLogger per call,
   the execution context's diffStore is shared) *)
Fixpoint exec_txs (s : store) (height : N) (c : cache) (v : vsnaps) (txs : list tx) : cache * vsnaps :=
  match txs with
  | [] => (c, v)
  | t :: rest =>
      let '(st', _, _) := execute_tx s {| x_cache := c; x_root := v; x_log := new_logger height |} t in
      exec_txs s height (x_cache st') (x_root st') rest
  end.

(* whatever the transactions of a block do, the cache handed to Commit is well-formed *)
Theorem block_cache_good : forall s height txs c v c' v',
  Forall tx_wf txs -> cache_good s c -> snaps_good s v -> exec_txs s height c v txs = (c', v') -> cache_good s c'.
Proof.
  induction txs; simpl; intros. - inversion H2; subst; auto.
  - inversion H; subst.
    destruct (execute_tx s {| x_cache := c; x_root := v; x_log := new_logger height |} a) as [[st' r] o] eqn:E.
    destruct (execute_tx_good _ _ _ _ _ _ H5 E) as [A B]. { split; auto. }
    eapply IHtxs; eauto.
Qed.

Lemma empty_cache_good : forall s, cache_good s [].
Proof. intros. split; [constructor|]. split. - intros k e H. discriminate. - intros k H. inversion H. Qed.
End Keys.
