(* C03 — model of pkg/blockchain Block.Validate / BlockHeader.Validate and pkg/consensus verifyBlock.
   Definitions only (computable).  Byte strings are modelled by (length, injective code); whatever the Go code obtains from
   outside the block and the tip (clock, generator list, BFT heights, contradiction verdict, aggregate-commit verdict,
   signature verification, Merkle roots of the payload) is a field of [venv]. *)
From Coq Require Import List NArith Bool.
Import ListNotations.
Local Open Scope N_scope.

Definition u32 (x : N) : N := x mod 4294967296.

Record bstr := mkB { b_len : N; b_code : N }.
Definition beq (a b : bstr) : bool := (b_len a =? b_len b) && (b_code a =? b_code b).

Record header := mkH {
  h_version : N; h_timestamp : N; h_height : N; h_prev : bstr; h_gen : bstr;
  h_txroot : bstr; h_assetroot : bstr; h_eventroot : bstr; h_stateroot : bstr;
  h_mhp : N; h_mhg : N; h_imp : bool; h_vhash : bstr;
  h_agg_height : N; h_agg_bits : bstr; h_agg_sig : bstr;
  h_sig : bstr; h_id : bstr }.

(* transaction: id, encoded size, verdict of Transaction.Validate (static validity) *)
Record tx := mkTx { tx_id : bstr; tx_size : N; tx_static : bool }.
(* asset: order-preserving code of the module name, data *)
Record asset := mkAs { as_module : N; as_data : bstr }.
Record block := mkBlk { b_header : header; b_txs : list tx; b_assets : list asset }.

(* first failing rule, in the order of the code *)
Inductive rule :=
| RStatic | RTxStatic | RTxRoot | RAssets | RAssetRoot                                   (* Block.Validate *)
| RVersion | RPayloadSize | RHeight | RPrevID | RFuture | RPastSlot | RGenLookup | RNoGenerators | RGenerator
| RMhp | RContradiction | RAggCommit | RSignature                                        (* verifyBlock *)
| RAbiInit | RAbiVerifyAssets | RBftExec | RAbiBefore | RTxVerify | RTxExec | RAbiAfter | RSetParams
| RVhash | RNEvents | REventRoot | RAbiCommit.                                          (* processValidated *)

Definition rule_num (r : rule) : N :=
  match r with
  | RStatic => 1 | RTxStatic => 2 | RTxRoot => 3 | RAssets => 4 | RAssetRoot => 5
  | RVersion => 6 | RPayloadSize => 7 | RHeight => 8 | RPrevID => 9 | RFuture => 10 | RPastSlot => 11
  | RGenLookup => 12 | RNoGenerators => 13 | RGenerator => 14 | RMhp => 15 | RContradiction => 16
  | RAggCommit => 17 | RSignature => 18
  | RAbiInit => 19 | RAbiVerifyAssets => 20 | RBftExec => 21 | RAbiBefore => 22 | RTxVerify => 23 | RTxExec => 24
  | RAbiAfter => 25 | RSetParams => 26 | RVhash => 27 | RNEvents => 28 | REventRoot => 29 | RAbiCommit => 30
  end.

(* ---- Block.Validate ---- *)
Fixpoint strictly_sorted (l : list N) : bool :=
  match l with
  | a :: ((b :: _) as t) => (a <? b) && strictly_sorted t
  | _ => true
  end.

Record payload_env := mkPE {
  pe_txroot : bstr;        (* rmt.CalculateRoot of the transaction IDs of the payload *)
  pe_assetroot : bstr }.   (* BlockAssets.GetRoot *)

Definition header_static (h : header) : bool :=
  (b_len (h_prev h) =? 32) && (b_len (h_gen h) =? 20) && (b_len (h_sig h) =? 64).

Definition block_validate (b : block) (pe : payload_env) : option rule :=
  let h := b_header b in
  if negb (header_static h) then Some RStatic
  else if negb (forallb tx_static (b_txs b)) then Some RTxStatic
  else if negb (beq (h_txroot h) (pe_txroot pe)) then Some RTxRoot
  else if negb (strictly_sorted (map as_module (b_assets b))) then Some RAssets
  else if negb (beq (h_assetroot h) (pe_assetroot pe)) then Some RAssetRoot
  else None.

(* ---- verifyBlock ---- *)
Record venv := mkVE {
  ve_genesis_ts : N; ve_block_time : N; ve_now : N;        (* BlockSlot configuration, uint32(time.Now().Unix()) *)
  ve_max_payload : N;                                       (* Chain.MaxTransactionsLength *)
  ve_gen_lookup_ok : bool;                                  (* GetGeneratorKeys(height) succeeded *)
  ve_generators : list bstr;                                (* addresses of the generator list in force, in slot order *)
  ve_node_mhp : N;                                          (* the node's own maxHeightPrevoted *)
  ve_contradicting : bool;                                  (* IsHeaderContradictingChain *)
  (* verifyAggregateCommit: the node's BFT heights, the height of the next BFT-parameter change after the last certified
     height (NextHeightBFTParameters(maxHeightCertified+1)), and the two external verdicts it needs *)
  ve_mh_precommit : N; ve_mh_cert : N; ve_next_params : option N;
  ve_agg_lookup_ok : bool;                                  (* header and BFT parameters at the commit's height are available *)
  ve_agg_bls_ok : bool;                                     (* weighted BLS aggregate over the certificate of the block at that
                                                               height verifies (keys/weights/threshold of that height, this chain) *)
  ve_sig_ok : bool }.                                       (* signature over tag||chainID||signing bytes verifies under the
                                                               generator key registered for the generator assigned to the slot *)

(* validator.BlockSlot.GetSlotNumber: elapsed := unixTime - genesisTimestamp (uint32 wrap); floor(elapsed / blockTime) *)
Definition slot_of (e : venv) (ts : N) : N := u32 (ts + 4294967296 - u32 (ve_genesis_ts e)) / ve_block_time e.

Definition sub32 (a b : N) : N := u32 (a + 4294967296 - u32 b).

(* Executer.verifyAggregateCommit, ordered as the code *)
Definition agg_commit_ok (h : header) (e : venv) : bool :=
  let bits0 := b_len (h_agg_bits h) =? 0 in
  let sig0 := b_len (h_agg_sig h) =? 0 in
  if bits0 && sig0 && (h_agg_height h =? ve_mh_cert e) then true
  else if bits0 || sig0 then false
  else if h_agg_height h <=? ve_mh_cert e then false
  else if ve_mh_precommit e <? h_agg_height h then false
  else if (match ve_next_params e with Some np => sub32 np 1 <? h_agg_height h | None => false end) then false
  else ve_agg_lookup_ok e && ve_agg_bls_ok e.

Definition payload_size (b : block) : N := fold_right (fun t acc => tx_size t + acc) 0 (b_txs b).

Definition verify_block (tip : header) (b : block) (e : venv) : option rule :=
  let h := b_header b in
  if negb (h_version h =? 2) then Some RVersion
  else if ve_max_payload e <? payload_size b then Some RPayloadSize
  else if negb (h_height h =? u32 (h_height tip + 1)) then Some RHeight
  else if negb (beq (h_id tip) (h_prev h)) then Some RPrevID
  else if slot_of e (ve_now e) <? slot_of e (h_timestamp h) then Some RFuture
  else if slot_of e (h_timestamp h) <=? slot_of e (h_timestamp tip) then Some RPastSlot
  else if negb (ve_gen_lookup_ok e) then Some RGenLookup
  else match ve_generators e with
       | [] => Some RNoGenerators     (* Go: integer division by zero in AtTimestamp -> panic; never a commit *)
       | gs =>
         match nth_error gs (N.to_nat (slot_of e (h_timestamp h) mod N.of_nat (length gs))) with
         | None => Some RNoGenerators
         | Some g =>
           if negb (beq g (h_gen h)) then Some RGenerator
           else if negb (h_mhp h =? ve_node_mhp e) then Some RMhp
           else if ve_contradicting e then Some RContradiction
           else if negb (agg_commit_ok h e) then Some RAggCommit
           else if negb (ve_sig_ok e) then Some RSignature
           else None
         end
       end.
