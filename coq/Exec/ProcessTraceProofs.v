(* C03 — the staged trace refines process_validated; nothing with a lasting effect precedes the last check *)
From Coq Require Import List NArith Bool Lia.
From LE Require Import BFT.ForkChoice Exec.VerifyBlock Exec.Process Exec.ProcessProofs Exec.ProcessTrace.
Import ListNotations.
Local Open Scope N_scope.

Ltac stage_step := cbn [run_stages chk app]; try match goal with |- context [if ?c then _ else _] => destruct c eqn:?; cbn [run_stages chk app negb orb] end.

(* a block that fails any check leaves NO effect: no application commit, no database write, no cache push, no publication *)
Theorem no_effect_before_last_check : forall s b v x cache_ok r acc,
  pv_trace s b v x cache_ok = (TRejected r, acc) -> acc = [].
Proof.
  intros s b v x cache_ok r acc. unfold pv_trace. destruct (tip_header s) as [tip|]; [|intros H; now inversion H].
  unfold pv_stages. cbn [run_stages].
  destruct (verify_block tip b v); [intros H; now inversion H|]. cbn [run_stages app].
  destruct (xe_abi_init_ok x); cbn [chk run_stages app]; [|intros H; now inversion H].
  destruct (xe_abi_verify_assets_ok x); cbn [chk run_stages app]; [|intros H; now inversion H].
  destruct (xe_bft_ok x); cbn [chk run_stages app]; [|intros H; now inversion H].
  destruct (xe_abi_before_ok x); cbn [chk run_stages app]; [|intros H; now inversion H].
  destruct (tx_loop _ _); [intros H; now inversion H|]. cbn [run_stages app].
  destruct (xe_abi_after_ok x); cbn [chk run_stages app]; [|intros H; now inversion H].
  destruct (negb (xe_params_changed x) || xe_set_params_ok x); cbn [chk run_stages app]; [|intros H; now inversion H].
  destruct (beq (xe_post_vhash x) _); cbn [chk run_stages app]; [|intros H; now inversion H].
  destruct (xe_nevents x <=? max_events); cbn [chk run_stages app]; [|intros H; now inversion H].
  destruct (beq (xe_eventroot x) _); cbn [chk run_stages app]; [|intros H; now inversion H].
  destruct (xe_abi_commit_ok x); cbn [chk run_stages app]; [|intros H; now inversion H].
  destruct cache_ok; intros H; inversion H.
Qed.

(* when every check passes: first the application commit, then exactly one database write, then the cache push, then the
   publications — in this order *)
Theorem accepted_trace_order : forall s b v x acc,
  pv_trace s b v x true = (TAccepted, acc) ->
  exists pubs, acc = [EAbiCommit (h_stateroot (b_header b));
                      EDbWrite b (xe_post_cs x) (N.max (n_finalized s) (xe_post_precommit x)); ECachePush] ++ map EPublish pubs.
Proof.
  intros s b v x acc. unfold pv_trace. destruct (tip_header s) as [tip|]; [|discriminate].
  unfold pv_stages. cbn [run_stages].
  destruct (verify_block tip b v); [discriminate|]. cbn [run_stages app].
  destruct (xe_abi_init_ok x); cbn [chk run_stages app]; [|discriminate].
  destruct (xe_abi_verify_assets_ok x); cbn [chk run_stages app]; [|discriminate].
  destruct (xe_bft_ok x); cbn [chk run_stages app]; [|discriminate].
  destruct (xe_abi_before_ok x); cbn [chk run_stages app]; [|discriminate].
  destruct (tx_loop _ _); [discriminate|]. cbn [run_stages app].
  destruct (xe_abi_after_ok x); cbn [chk run_stages app]; [|discriminate].
  destruct (negb (xe_params_changed x) || xe_set_params_ok x); cbn [chk run_stages app]; [|discriminate].
  destruct (beq (xe_post_vhash x) _); cbn [chk run_stages app]; [|discriminate].
  destruct (xe_nevents x <=? max_events); cbn [chk run_stages app]; [|discriminate].
  destruct (beq (xe_eventroot x) _); cbn [chk run_stages app]; [|discriminate].
  destruct (xe_abi_commit_ok x); cbn [chk run_stages app]; [|discriminate].
  intros H; inversion H. eexists.
  replace (N.max (n_finalized s) (xe_post_precommit x)) with
      (if n_finalized s <? xe_post_precommit x then xe_post_precommit x else n_finalized s); [reflexivity|].
  destruct (n_finalized s <? xe_post_precommit x) eqn:E; [apply N.ltb_lt in E|apply N.ltb_ge in E]; lia.
Qed.

(* Chain.AddBlock failing in its cache push: the error is returned after the application commit and the database write *)
Theorem cache_error_after_commit : forall s b v x acc,
  pv_trace s b v x false = (TCommittedThenCacheError, acc) ->
  acc = [EAbiCommit (h_stateroot (b_header b)); EDbWrite b (xe_post_cs x) (N.max (n_finalized s) (xe_post_precommit x))].
Proof.
  intros s b v x acc. unfold pv_trace. destruct (tip_header s) as [tip|]; [|discriminate].
  unfold pv_stages. cbn [run_stages].
  destruct (verify_block tip b v); [discriminate|]. cbn [run_stages app].
  destruct (xe_abi_init_ok x); cbn [chk run_stages app]; [|discriminate].
  destruct (xe_abi_verify_assets_ok x); cbn [chk run_stages app]; [|discriminate].
  destruct (xe_bft_ok x); cbn [chk run_stages app]; [|discriminate].
  destruct (xe_abi_before_ok x); cbn [chk run_stages app]; [|discriminate].
  destruct (tx_loop _ _); [discriminate|]. cbn [run_stages app].
  destruct (xe_abi_after_ok x); cbn [chk run_stages app]; [|discriminate].
  destruct (negb (xe_params_changed x) || xe_set_params_ok x); cbn [chk run_stages app]; [|discriminate].
  destruct (beq (xe_post_vhash x) _); cbn [chk run_stages app]; [|discriminate].
  destruct (xe_nevents x <=? max_events); cbn [chk run_stages app]; [|discriminate].
  destruct (beq (xe_eventroot x) _); cbn [chk run_stages app]; [|discriminate].
  destruct (xe_abi_commit_ok x); cbn [chk run_stages app]; [|discriminate].
  intros H; inversion H.
  replace (N.max (n_finalized s) (xe_post_precommit x)) with
      (if n_finalized s <? xe_post_precommit x then xe_post_precommit x else n_finalized s); [reflexivity|].
  destruct (n_finalized s <? xe_post_precommit x) eqn:E; [apply N.ltb_lt in E|apply N.ltb_ge in E]; lia.
Qed.

(* the trace is the step function of Exec/Process.v: same verdict, and applying the effects gives the same node *)
Theorem trace_refines_process_validated : forall s b v x,
  tip_header s <> None ->
  let '(o, acc) := pv_trace s b v x true in
  let '(o', s') := process_validated s b v x in
  apply_effs s acc = s' /\
  match o, o' with
  | TAccepted, Accepted => True
  | TRejected r, Rejected r' => r = r'
  | _, _ => False
  end.
Proof.
  intros s b v x Ht. unfold pv_trace, process_validated, execute_block. destruct (tip_header s) as [tip|]; [|congruence].
  unfold pv_stages. cbn [run_stages].
  destruct (verify_block tip b v); [cbn; auto|]. cbn [run_stages app].
  destruct (xe_abi_init_ok x); cbn [chk run_stages app negb]; [|cbn; auto].
  destruct (xe_abi_verify_assets_ok x); cbn [chk run_stages app negb]; [|cbn; auto].
  destruct (xe_bft_ok x); cbn [chk run_stages app negb]; [|cbn; auto].
  destruct (xe_abi_before_ok x); cbn [chk run_stages app negb]; [|cbn; auto].
  destruct (tx_loop _ _); [cbn; auto|]. cbn [run_stages app].
  destruct (xe_abi_after_ok x); cbn [chk run_stages app negb]; [|cbn; auto].
  destruct (xe_params_changed x) eqn:Ec, (xe_set_params_ok x); cbn [chk run_stages app negb orb andb]; try (cbn; auto; fail).
  all: destruct (beq (xe_post_vhash x) _); cbn [chk run_stages app negb]; [|cbn; auto].
  all: rewrite (N.leb_antisym max_events (xe_nevents x)).
  all: destruct (max_events <? xe_nevents x); cbn [chk run_stages app negb]; [cbn; auto|].
  all: destruct (beq (xe_eventroot x) _); cbn [chk run_stages app negb]; [|cbn; auto].
  all: destruct (xe_abi_commit_ok x); cbn [chk run_stages app negb]; [|cbn; auto].
  all: split; auto; unfold commit_block, apply_effs; destruct s as [ch cs fn em ap]; cbn [n_chain n_cs n_finalized n_emitted n_app].
  all: destruct (fn <? xe_post_precommit x); cbn; rewrite ?Ec; cbn; rewrite <- ?app_assoc; reflexivity.
Qed.
