(* What Commit writes and what it hands to the sparse Merkle tree. *)
From Coq Require Import List NArith ZArith Bool Arith Lia.
From LE Require Import Exec.EventLog Exec.TxExec Exec.StateRoot.
Import ListNotations.
Local Open Scope N_scope.

Lemma bytes_eqb_eq : forall a b, bytes_eqb a b = true <-> a = b.
Proof.
  induction a; destruct b; simpl; split; intros; try discriminate; auto.
  - apply andb_true_iff in H. destruct H as [H1 H2]. apply N.eqb_eq in H1. apply IHa in H2. subst; auto.
  - inversion H; subst. rewrite N.eqb_refl. simpl. apply IHa; auto.
Qed.
Lemma bytes_eqb_refl : forall a, bytes_eqb a a = true.
Proof. intros. apply bytes_eqb_eq; auto. Qed.
Lemma bytes_eqb_neq : forall a b, a <> b -> bytes_eqb a b = false.
Proof. intros. destruct (bytes_eqb a b) eqn:E; auto. apply bytes_eqb_eq in E. congruence. Qed.

Lemma lookup_remove_same : forall {A : Type} (l : list (bytes * A)) k, lookup (remove l k) k = None.
Proof.
  induction l as [|[k' a] l]; simpl; intros; auto.
  destruct (bytes_eqb k' k) eqn:E; auto. simpl. rewrite E. auto.
Qed.
Lemma lookup_remove_other : forall {A : Type} (l : list (bytes * A)) k k', k <> k' -> lookup (remove l k') k = lookup l k.
Proof.
  induction l as [|[k0 a] l]; simpl; intros; auto.
  destruct (bytes_eqb k0 k') eqn:E.
  - apply bytes_eqb_eq in E. subst. rewrite (bytes_eqb_neq k' k) by congruence. auto.
  - simpl. destruct (bytes_eqb k0 k); auto.
Qed.
Lemma lookup_put_same : forall {A : Type} (l : list (bytes * A)) k a, lookup (put l k a) k = Some a.
Proof. intros. unfold put. simpl. rewrite bytes_eqb_refl. auto. Qed.
Lemma lookup_put_other : forall {A : Type} (l : list (bytes * A)) k k' a, k <> k' -> lookup (put l k' a) k = lookup l k.
Proof. intros. unfold put. simpl. rewrite (bytes_eqb_neq k' k) by congruence. apply lookup_remove_other; auto. Qed.

Lemma apply_write_lookup : forall s w k,
  lookup (apply_write s w) k =
  match w with
  | WSet k' v => if bytes_eqb k' k then Some v else lookup s k
  | WDel k' => if bytes_eqb k' k then None else lookup s k
  end.
Proof.
  intros. destruct w; simpl; unfold put; simpl; destruct (bytes_eqb k0 k) eqn:E; auto.
  - apply lookup_remove_other. intro. subst. rewrite bytes_eqb_refl in E. discriminate.
  - apply bytes_eqb_eq in E. subst. apply lookup_remove_same.
  - apply lookup_remove_other. intro. subst. rewrite bytes_eqb_refl in E. discriminate.
Qed.

Lemma apply_writes_ext : forall ws s s' k, lookup s k = lookup s' k ->
  lookup (apply_writes s ws) k = lookup (apply_writes s' ws) k.
Proof.
  induction ws; simpl; intros; auto. apply IHws. rewrite !apply_write_lookup. destruct a; rewrite H; auto.
Qed.

(* the write (if any) that commit_cache emits for key k *)
Definition entry_effect (e : entry) (old : option bytes) : option bytes :=
  match en_init e with
  | None => Some (en_val e)
  | Some _ => if en_deleted e then None else if en_dirty e then Some (en_val e) else old
  end.

Lemma apply_writes_notin : forall ws s k,
  (forall w, In w ws -> match w with WSet k' _ => k' <> k | WDel k' => k' <> k end) ->
  lookup (apply_writes s ws) k = lookup s k.
Proof.
  induction ws; simpl; intros; auto.
  rewrite IHws. 2:{ intros; apply H; auto. }
  specialize (H a (or_introl eq_refl)). destruct a; simpl.
  - apply lookup_put_other; congruence.
  - apply lookup_remove_other; congruence.
Qed.

Lemma commit_cache_keys : forall c ws d, commit_cache c = (ws, d) ->
  forall w, In w ws -> In (match w with WSet k _ => k | WDel k => k end) (map fst c).
Proof.
  induction c as [|[k e] c]; simpl; intros. { inversion H; subst. inversion H0. }
  destruct (commit_cache c) as [ws' d'] eqn:E.
  assert (R : forall w, In w ws' -> In (match w with WSet k _ => k | WDel k => k end) (map fst c)) by (eapply IHc; eauto).
  destruct (en_init e); [destruct (en_deleted e); [|destruct (en_dirty e)]|]; inversion H; subst; simpl in H0;
    try (destruct H0; [subst; simpl; auto|right; auto]); right; auto.
Qed.

(* commit_writes_staged_view: after Commit the database holds, for every key, exactly what the staged store showed
   (in particular a key deleted in the block is absent).  [coherent]: every cache entry remembers the persisted value. *)
Definition coherent (s : store) (c : cache) : Prop :=
  forall k e, lookup c k = Some e -> en_init e = lookup s k /\
              (en_dirty e = false -> en_deleted e = false -> en_init e <> None -> Some (en_val e) = lookup s k) /\
              (en_init e = None -> en_deleted e = false).

Theorem commit_writes_staged_view : forall c s ws d,
  NoDup (map fst c) -> coherent s c -> commit_cache c = (ws, d) ->
  forall k, lookup (apply_writes s ws) k = view s c k.
Proof.
  induction c as [|[k0 e] c]; intros s ws d ND Co H k.
  - simpl in H. inversion H; subst. reflexivity.
  - simpl in H. destruct (commit_cache c) as [ws' d'] eqn:E.
    inversion ND as [|? ? Hnin ND']; subst.
    assert (Co' : coherent s c).
    { intros k1 e1 H1. apply Co. simpl. destruct (bytes_eqb k0 k1) eqn:B; auto.
      apply bytes_eqb_eq in B. subst. exfalso. apply Hnin.
      clear - H1. induction c as [|[k2 e2] c]; simpl in *; try discriminate.
      destruct (bytes_eqb k2 k1) eqn:B; auto. apply bytes_eqb_eq in B. subst. auto. }
    destruct (Co k0 e) as [C1 [C2 C3]]. { simpl. rewrite bytes_eqb_refl. auto. }
    assert (NI : forall w, In w ws' -> match w with WSet k' _ => k' <> k0 | WDel k' => k' <> k0 end).
    { intros w Hw. pose proof (commit_cache_keys _ _ _ E w Hw). destruct w; intro; subst; auto. }
    unfold view. simpl.
    destruct (bytes_eqb k0 k) eqn:B.
    + apply bytes_eqb_eq in B. subst k.
      destruct (en_init e) eqn:I; [destruct (en_deleted e) eqn:D; [|destruct (en_dirty e) eqn:Y]|]; inversion H; subst; simpl.
      * rewrite apply_writes_notin; auto. apply lookup_remove_same.
      * rewrite apply_writes_notin; auto. apply lookup_put_same.
      * rewrite apply_writes_notin; auto. symmetry. apply C2; auto. congruence.
      * rewrite C3 by auto. rewrite apply_writes_notin; auto. apply lookup_put_same.
    + assert (k0 <> k) by (intro; subst; rewrite bytes_eqb_refl in B; discriminate).
      assert (IH := IHc s ws' d' ND' Co' eq_refl k). unfold view in IH.
      destruct (en_init e); [destruct (en_deleted e); [|destruct (en_dirty e)]|]; inversion H; subst; simpl; auto;
        rewrite <- IH; apply apply_writes_ext; first [apply lookup_put_other | apply lookup_remove_other]; congruence.
Qed.

Section Updates.
  Variable hash : bytes -> bytes.
  Variable K : Type.
  Variable enc : bytes -> K.
  (* one tree update per write; a deleted key is handed over as a deletion (empty value: leaf removed), a set key with the
     hash of its value; the tree key keeps the 6-byte store prefix and hashes the rest *)
  Theorem tree_updates_spec : forall ws ups, tree_updates hash enc ws = Some ups ->
    Forall2 (fun w u => match w with
                        | WSet k v => exists tk, tree_key hash k = Some tk /\ fst u = enc tk /\ snd u = Some (hash v)
                        | WDel k => exists tk, tree_key hash k = Some tk /\ fst u = enc tk /\ snd u = None
                        end) ws ups.
  Proof.
    induction ws; simpl; intros. - inversion H; constructor.
    - destruct a; simpl in H.
      + destruct (tree_key hash k) eqn:E1; try discriminate. destruct (tree_updates hash enc ws) eqn:E2; try discriminate.
        inversion H; subst. constructor; eauto.
      + destruct (tree_key hash k) eqn:E1; try discriminate. destruct (tree_updates hash enc ws) eqn:E2; try discriminate.
        inversion H; subst. constructor; eauto.
  Qed.

  Theorem tree_key_shape : forall k tk, tree_key hash k = Some tk ->
    (7 <= length k)%nat /\ tk = firstn 6 (skipn 1 k) ++ hash (skipn 7 k).
  Proof.
    unfold tree_key. intros. destruct (Nat.ltb (length k) 7) eqn:E; try discriminate.
    apply Nat.ltb_ge in E. inversion H; auto.
  Qed.
End Updates.
