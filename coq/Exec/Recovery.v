(* Model of ABIHandler.Init (pkg/framework/handler.go): restart recovery rolls the application state back to the
   engine's tip by reverting block diffs, then compares the state root with the engine's. *)
From Coq Require Import List NArith Bool Arith.
From LE Require Import Exec.EventLog Exec.TxExec Exec.StateRoot.
Import ListNotations.
Local Open Scope N_scope.

Section Rec.
  Variable hash : bytes -> bytes.
  Variable R : Type.
  Variable root_eqb : R -> R -> bool.
  Variable smt_update : R -> list (bytes * bytes) -> R.
  Variable empty_root : R.            (* emptyHash: root of the empty tree *)
  Notation appdb := (appdb R).
  Notation rres := (rres R).

  Inductive ires := IOk (a : appdb) | IBehind | IRevertErr (a : appdb) (r : rres) | IConflict (a : appdb) | IFuel.

  (* for currentHeight > req.LastBlockHeight { revert(currentHeight, currentRoot, nil); currentHeight -= 1 } *)
  Fixpoint init_loop (a : appdb) (cur : N) (root : R) (last : N) (n : nat) : ires + (appdb * R) :=
    if cur <=? last then inr (a, root) else
    match n with
    | O => inl IFuel
    | S n' =>
        match revert hash root_eqb smt_update a cur root None with
        | ROk a' root' => init_loop a' (cur - 1) root' last n'
        | r => inl (IRevertErr a r)
        end
    end.

  Definition init (a : appdb) (last_height : N) (last_root : R) : ires :=
    let (cur, root) := match a_tree_state a with Some x => x | None => (0, empty_root) end in
    if cur <? last_height then IBehind else
    match init_loop a cur root last_height (N.to_nat (cur - last_height)) with
    | inl r => r
    | inr (a', root') => if root_eqb root' last_root then IOk a' else IConflict a'
    end.
End Rec.

Arguments IOk {R} _.
Arguments IBehind {R}.
Arguments IRevertErr {R} _ _.
Arguments IConflict {R} _.
Arguments IFuel {R}.
Arguments init _ {R} _ _ _ _ _ _.
