(* Model of ABIHandler.Init (pkg/framework/handler.go): restart recovery rolls the application state back to the
   engine's tip by reverting block diffs, then compares the state root with the engine's. *)
From Coq Require Import List NArith Bool Arith.
From LE Require Import Exec.EventLog Exec.TxExec Exec.StateRoot.
Import ListNotations.
Local Open Scope N_scope.

Section Rec.
  Variable hash : bytes -> bytes.
  Variable K : Type.
  Variable enc : bytes -> K.
  Variable TR : Type.
  Variable R : Type.
  Variable root_eqb : R -> R -> bool.
  Variable tree_update : TR -> list (K * option bytes) -> TR.
  Variable tree_root : TR -> R.
  Variable empty_root : R.            (* emptyHash: root of the empty tree *)
  Notation appdb := (appdb TR R).
  Notation rres := (rres TR R).

  Inductive ires := IOk (a : appdb) | IBehind | IRevertErr (a : appdb) (r : rres) | IConflict (a : appdb) | IFuel.

  (* for currentHeight > req.LastBlockHeight { revert(currentHeight, currentRoot, nil); currentHeight -= 1 } *)
  Fixpoint init_loop (a : appdb) (cur : N) (root : R) (last : N) (n : nat) : ires + (appdb * R) :=
    if cur <=? last then inr (a, root) else
    match n with
    | O => inl IFuel
    | S n' =>
        match revert hash enc root_eqb tree_update tree_root a cur root None with
        | ROk a' root' => init_loop a' (cur - 1) root' last n'
        | r => inl (IRevertErr a r)
        end
    end.

  Definition init (a : appdb) (last_height : N) (last_root : R) : ires :=
    let (cur, root) := match a_tree_state a with Some x => x | None => (0, empty_root) end in
    if cur <? last_height then IBehind else
    match init_loop a cur root last_height (N.to_nat (cur - last_height)) with
    | inl r => r
    | inr (a', root') => if root_eqb root' last_root then IOk a' else IConflict a'
    end.
End Rec.

Arguments IOk {TR R} _.
Arguments IBehind {TR R}.
Arguments IRevertErr {TR R} _ _.
Arguments IConflict {TR R} _.
Arguments IFuel {TR R}.
Arguments init_loop _ {K} _ {TR R} _ _ _ _ _ _ _ _.
Arguments init _ {K} _ {TR R} _ _ _ _ _ _ _.
