(* State root = sparse Merkle root of the state; Revert restores state and root; Init recovers to the engine's tip.
   The sparse Merkle tree is abstract (tree states TR, batch update, root).  The ONLY fact assumed about it is [H_C10],
   which is literally the statement of C10_root_is_function_of_map (coq/Properties/C10.v) with T / batch_update n / hash
   replaced by the Section variables: two histories of batches whose final key->value maps agree give the same root.
   Maps, batches, [map_batch], [mget], [keys_ok] are the definitions of coq/SMT/Spec.v and coq/SMT/TreeProofs.v. *)
From Coq Require Import List NArith ZArith Bool Arith Lia Permutation.
From LE Require Import SMT.Spec SMT.TreeProofs.
From LE Require Import Exec.EventLog Exec.TxExec Exec.TxExecProofs Exec.StateRoot Exec.StateRootProofs Exec.CacheProofs Exec.Recovery.
Import ListNotations.
Local Open Scope N_scope.

Definition wkey (w : write) : bytes := match w with WSet k _ => k | WDel k => k end.
Definition wval (w : write) : option bytes := match w with WSet _ v => Some v | WDel _ => None end.

Lemma skey_eqb_eq : forall a b : Spec.key, Spec.key_eqb a b = true <-> a = b.
Proof. intros. unfold Spec.key_eqb. destruct (list_eq_dec bool_dec a b); split; intros; auto; try discriminate; congruence. Qed.
Lemma skey_eqb_refl : forall a, Spec.key_eqb a a = true.
Proof. intros. apply skey_eqb_eq; auto. Qed.
Lemma skey_eqb_neq : forall a b, a <> b -> Spec.key_eqb a b = false.
Proof. intros. destruct (Spec.key_eqb a b) eqn:E; auto. apply skey_eqb_eq in E. congruence. Qed.

Section MapFacts.
  Context {V : Type}.
  Lemma mget_others : forall (m : list (Spec.key * V)) k k',
    mget k (others k' m) = if Spec.key_eqb k k' then None else mget k m.
  Proof.
    induction m as [|[k0 v0] m]; simpl; intros.
    { destruct (Spec.key_eqb k k'); auto. }
    destruct (Spec.key_eqb k' k0) eqn:E1; simpl.
    - apply skey_eqb_eq in E1. subst. rewrite IHm. destruct (Spec.key_eqb k k0); auto.
    - rewrite IHm. destruct (Spec.key_eqb k k') eqn:E2; auto.
      apply skey_eqb_eq in E2. subst. rewrite skey_eqb_neq; auto. intro; subst. rewrite skey_eqb_refl in E1. discriminate.
  Qed.
  Lemma mget_mins : forall (m : list (Spec.key * V)) k k' v,
    mget k (mins k' v m) = if Spec.key_eqb k k' then Some v else mget k m.
  Proof.
    intros. unfold mins. simpl. destruct (Spec.key_eqb k k') eqn:E; auto. rewrite mget_others, E. auto.
  Qed.
  Lemma mget_map_apply : forall (m : list (Spec.key * V)) (o : @op V) k,
    mget k (map_apply m o) = if Spec.key_eqb k (fst o) then snd o else mget k m.
  Proof.
    intros m [k' [v|]] k; unfold map_apply; simpl. - apply mget_mins. - unfold mdel. apply mget_others.
  Qed.
  Lemma dedupe_id : forall (ops : list (@op V)) seen,
    NoDup (map fst ops) -> (forall o, In o ops -> ~ In (fst o) seen) -> dedupe seen ops = ops.
  Proof.
    induction ops as [|o ops]; simpl; intros; auto. inversion H; subst.
    destruct (existsb (Spec.key_eqb (fst o)) seen) eqn:E.
    - apply existsb_exists in E. destruct E as [x [Hx Ex]]. apply skey_eqb_eq in Ex. subst.
      exfalso. apply (H0 o); auto.
    - f_equal. apply IHops; auto. intros o' Ho' [Hs|Hs].
      + apply H3. rewrite Hs. apply in_map; auto.
      + apply (H0 o'); auto.
  Qed.
End MapFacts.

Lemma skipn_nth : forall {A : Type} m (l : list A) x r d, skipn m l = x :: r -> nth m l d = x.
Proof.
  induction m; destruct l; simpl; intros; try discriminate. - inversion H; auto. - eapply IHm; eauto.
Qed.

Lemma app_inv_len : forall {A : Type} (a a' b b' : list A), length a = length a' -> a ++ b = a' ++ b' -> a = a' /\ b = b'.
Proof.
  induction a; destruct a'; simpl; intros; try discriminate; auto.
  inversion H0; subst. destruct (IHa a' b b'); auto. subst; auto.
Qed.

Lemma apply_writes_in : forall ws s w, NoDup (map wkey ws) -> In w ws -> lookup (apply_writes s ws) (wkey w) = wval w.
Proof.
  induction ws; simpl; intros; try tauto. inversion H; subst. destruct H0.
  - subst. rewrite apply_writes_notin.
    + rewrite apply_write_lookup. destruct w; simpl; rewrite bytes_eqb_refl; auto.
    + intros w' Hw'. assert (wkey w' <> wkey w) by (intro E; apply H3; rewrite <- E; apply in_map; auto).
      destruct w'; simpl in *; auto.
  - apply IHws; auto.
Qed.

Lemma apply_writes_other : forall ws s k, ~ In k (map wkey ws) -> lookup (apply_writes s ws) k = lookup s k.
Proof.
  intros. apply apply_writes_notin. intros w Hw. assert (wkey w <> k) by (intro; subst; apply H; apply in_map; auto).
  destruct w; simpl in *; auto.
Qed.

(* byte strings proper: every entry is a byte *)
Definition wfb (b : bytes) : Prop := Forall (fun x => x < 256) b.
(* trie key length in bits: 6 prefix bytes + a 32-byte hash *)
Definition tkbits : nat := 8 * 38.

Section RootFacts.
  Variable hash : bytes -> bytes.
  Variable enc : bytes -> Spec.key.
  Variable TR : Type.
  Variable R : Type.
  Variable root_eqb : R -> R -> bool.
  Variable tree_update : TR -> list (@op bytes) -> TR.
  Variable tree_root : TR -> R.
  Variable tree_empty : TR.
  (* U: the key universe of the run — the state keys module code ever touches.  Collision-freeness of the hash is
     assumed on U only (a premise about the run, not about the function: no injective hash into 32 bytes exists). *)
  Variable U : bytes -> Prop.
  Notation n := tkbits.

  Hypothesis hash_len : forall x, length (hash x) = 32%nat.
  Hypothesis hash_wfb : forall x, wfb (hash x).
  Hypothesis hash_inj_U : forall k k', U k -> U k' -> hash (skipn 7 k) = hash (skipn 7 k') -> skipn 7 k = skipn 7 k'.
  (* bytes.ToBools: 8 bits per byte, injective on proper byte strings of equal length *)
  Hypothesis enc_len : forall a, length (enc a) = (8 * length a)%nat.
  Hypothesis enc_inj : forall a b, wfb a -> wfb b -> length a = length b -> enc a = enc b -> a = b.
  Hypothesis root_eqb_spec : forall a b, root_eqb a b = true <-> a = b.
  (* C10_root_is_function_of_map *)
  Hypothesis H_C10 : forall h1 h2 : list (list (@op bytes)),
    keys_ok n h1 -> keys_ok n h2 ->
    (forall k, mget k (fold_left map_batch h1 []) = mget k (fold_left map_batch h2 [])) ->
    tree_root (fold_left tree_update h1 tree_empty) = tree_root (fold_left tree_update h2 tree_empty).

  Notation appdb := (appdb TR R).
  Notation tree_updates := (tree_updates hash enc).
  Notation commit := (commit hash enc root_eqb tree_update tree_root).
  Notation revert := (revert hash enc root_eqb tree_update tree_root).

  Definition tkey (k : bytes) : option Spec.key := option_map enc (tree_key hash k).

  (* a state key module code may touch: state prefix + >= 6 bytes, proper bytes, inside the run's key universe *)
  Definition ukey (k : bytes) : Prop := wfkey k /\ U k /\ wfb k.

  Lemma wfkey_tree_key : forall k, ukey k -> exists t, tree_key hash k = Some t.
  Proof.
    intros k [[r [E L]] _]. subst. unfold tree_key. simpl length.
    destruct (Nat.ltb (S (length r)) 7) eqn:B; eauto. apply Nat.ltb_lt in B. lia.
  Qed.

  Lemma tree_key_wf : forall r, (6 <= length r)%nat -> tree_key hash (0 :: r) = Some (firstn 6 r ++ hash (skipn 6 r)).
  Proof.
    intros. unfold tree_key. destruct (Nat.ltb (length (0 :: r)) 7) eqn:B.
    - apply Nat.ltb_lt in B. simpl in B. lia.
    - reflexivity.
  Qed.

  Lemma wfb_app : forall a b, wfb a -> wfb b -> wfb (a ++ b).
  Proof. intros. apply Forall_app; auto. Qed.
  Lemma wfb_firstn : forall m a, wfb a -> wfb (firstn m a).
  Proof.
    intros m a H. revert m. induction H; intros [|m]; simpl; constructor; auto. apply IHForall.
  Qed.

  Lemma tree_key_len : forall k t, tree_key hash k = Some t -> length t = 38%nat.
  Proof.
    intros k t H. destruct (tree_key_shape hash k t H) as [L E]. subst t.
    rewrite app_length, hash_len, firstn_length, skipn_length. lia.
  Qed.

  Lemma tkey_inj : forall k k' t, ukey k -> ukey k' -> tkey k = Some t -> tkey k' = Some t -> k = k'.
  Proof.
    intros k k' t [[r [E L]] [Uk Wk]] [[r' [E' L']] [Uk' Wk']] H H'. subst. unfold tkey in *.
    rewrite tree_key_wf in H, H' by auto. cbn [option_map] in H, H'.
    assert (H2 : enc (firstn 6 r ++ hash (skipn 6 r)) = enc (firstn 6 r' ++ hash (skipn 6 r'))) by congruence.
    inversion Wk; inversion Wk'; subst.
    apply enc_inj in H2.
    - apply app_inv_len in H2. 2:{ rewrite !firstn_length. lia. }
      destruct H2 as [F S].
      assert (S' : skipn 7 (0 :: r) = skipn 7 (0 :: r')) by (apply hash_inj_U; auto).
      change (skipn 7 (0 :: r)) with (skipn 6 r) in S'. change (skipn 7 (0 :: r')) with (skipn 6 r') in S'.
      f_equal. rewrite <- (firstn_skipn 6 r), <- (firstn_skipn 6 r'). congruence.
    - apply wfb_app; [apply wfb_firstn; auto | apply hash_wfb].
    - apply wfb_app; [apply wfb_firstn; auto | apply hash_wfb].
    - rewrite !app_length, !hash_len, !firstn_length. lia.
  Qed.

  (* M is the tree image of the state s: exactly the bindings tree_key k |-> hash v for the bindings k |-> v of s;
     in particular a key that is not in s (deleted) contributes nothing *)
  Definition img (s : store) (M : list (Spec.key * bytes)) : Prop :=
    forall tk hv, mget tk M = Some hv <-> exists k v, lookup s k = Some v /\ tkey k = Some tk /\ hv = hash v.
  Definition allwf (s : store) : Prop := forall k v, lookup s k = Some v -> ukey k.

  Lemma img_mget_eq : forall s s' M M', img s M -> img s' M' -> (forall k, lookup s k = lookup s' k) ->
    forall tk, mget tk M = mget tk M'.
  Proof.
    intros s s' M M' I I' E tk.
    destruct (mget tk M) as [hv|] eqn:A.
    - apply I in A. destruct A as [k [v [A1 A2]]]. rewrite E in A1. symmetry. apply I'. eauto.
    - destruct (mget tk M') as [hv|] eqn:B; auto.
      apply I' in B. destruct B as [k [v [B1 B2]]]. rewrite <- E in B1.
      assert (mget tk M = Some hv) by (apply I; eauto). congruence.
  Qed.

  Lemma img_ext : forall s s' M, img s M -> (forall k, lookup s k = lookup s' k) -> img s' M.
  Proof. intros s s' M I E tk hv. rewrite (I tk hv). split; intros [k [v [A B]]]; exists k, v; rewrite E in *; auto. Qed.

  Lemma img_write : forall s M w t, allwf s -> img s M -> ukey (wkey w) -> tree_key hash (wkey w) = Some t ->
    img (apply_write s w) (map_apply M (enc t, option_map hash (wval w))) /\ allwf (apply_write s w).
  Proof.
    intros s M w t W I Hk Ht.
    assert (Tk : tkey (wkey w) = Some (enc t)) by (unfold tkey; rewrite Ht; auto).
    split.
    - intros tk hv. rewrite mget_map_apply. simpl fst. simpl snd.
      destruct (Spec.key_eqb tk (enc t)) eqn:E.
      + apply skey_eqb_eq in E. subst tk. split.
        * intro H. exists (wkey w). destruct w; simpl in H; try discriminate. inversion H; subst.
          exists v. rewrite apply_write_lookup. simpl. rewrite bytes_eqb_refl. auto.
        * intros [k [v [A [B C]]]].
          assert (k = wkey w).
          { apply (tkey_inj k (wkey w) (enc t)); auto.
            rewrite apply_write_lookup in A. destruct w; simpl in *; destruct (bytes_eqb k0 k) eqn:Q;
              try (apply bytes_eqb_eq in Q; subst; auto); try discriminate; eapply W; eauto. }
          subst k. rewrite apply_write_lookup in A. destruct w; simpl in *; rewrite bytes_eqb_refl in A; inversion A; subst; auto.
      + rewrite (I tk hv). split; intros [k [v [A [B C]]]]; exists k, v; (split; [|auto]).
        * rewrite apply_write_lookup.
          assert (wkey w <> k) by (intro; subst; rewrite Tk in B; inversion B; subst; rewrite skey_eqb_refl in E; discriminate).
          destruct w; simpl in *; rewrite bytes_eqb_neq; auto.
        * rewrite apply_write_lookup in A.
          assert (wkey w <> k) by (intro; subst; rewrite Tk in B; inversion B; subst; rewrite skey_eqb_refl in E; discriminate).
          destruct w; simpl in *; rewrite bytes_eqb_neq in A; auto.
    - intros k v A. rewrite apply_write_lookup in A.
      destruct w; simpl in *; destruct (bytes_eqb k0 k) eqn:Q; try (apply bytes_eqb_eq in Q; subst; auto); try discriminate; eapply W; eauto.
  Qed.

  (* a list of writes with distinct, well-formed keys: the batch handed to the tree keeps the tree image in step *)
  Lemma writes_step : forall ws s M, allwf s -> img s M -> NoDup (map wkey ws) -> (forall w, In w ws -> ukey (wkey w)) ->
    exists ops, tree_updates ws = Some ops /\
                img (apply_writes s ws) (fold_left map_apply ops M) /\ allwf (apply_writes s ws) /\
                (forall o, In o ops -> exists w, In w ws /\ tkey (wkey w) = Some (fst o)) /\
                NoDup (map fst ops).
  Proof.
    induction ws as [|w ws]; intros s M W I ND Hw.
    - exists []. simpl. split; [reflexivity|]. split; [exact I|]. split; [exact W|]. split; [intros o []|constructor].
    - inversion ND; subst.
      destruct (wfkey_tree_key (wkey w)) as [t Ht]. { apply Hw; left; auto. }
      destruct (img_write s M w t W I) as [I1 W1]; auto. { apply Hw; left; auto. }
      destruct (IHws (apply_write s w) (map_apply M (enc t, option_map hash (wval w))) W1 I1 H2) as [ops [E [I2 [W2 [K2 N2]]]]].
      { intros; apply Hw; right; auto. }
      exists ((enc t, option_map hash (wval w)) :: ops).
      assert (Tk : tkey (wkey w) = Some (enc t)) by (unfold tkey; rewrite Ht; auto).
      split; [|split; [|split; [|split]]].
      + simpl. destruct w; simpl in *; rewrite Ht, E; auto.
      + simpl. exact I2.
      + exact W2.
      + intros o [Ho|Ho]. * subst. exists w. split; [left; auto | auto]. * destruct (K2 o Ho) as [w' [A B]]. exists w'. split; [right; auto|auto].
      + simpl. constructor; auto. intro Hin. apply in_map_iff in Hin. destruct Hin as [o [Eo Ho]].
        destruct (K2 o Ho) as [w' [A B]]. rewrite Eo in B.
        assert (wkey w' = wkey w). { apply (tkey_inj _ _ (enc t)); auto. - apply Hw; right; auto. - apply Hw; left; auto. }
        apply H1. rewrite <- H. apply in_map; auto.
  Qed.

  (* the application database is consistent with a history of tree batches *)
  Definition Inv (a : appdb) (hist : list (list (@op bytes))) : Prop :=
    a_tree a = fold_left tree_update hist tree_empty /\ keys_ok n hist /\
    img (a_state a) (fold_left map_batch hist []) /\ allwf (a_state a).

  Lemma inv_step : forall a hist ws, Inv a hist -> NoDup (map wkey ws) -> (forall w, In w ws -> ukey (wkey w)) ->
    exists ops, tree_updates ws = Some ops /\
      forall diffs ts, Inv {| a_state := apply_writes (a_state a) ws; a_tree := tree_update (a_tree a) ops; a_diffs := diffs;
                              a_tree_state := ts |} (hist ++ [ops]).
  Proof.
    intros a hist ws [T [K [I W]]] ND Hw.
    destruct (writes_step ws (a_state a) _ W I ND Hw) as [ops [E [I2 [W2 [K2 N2]]]]].
    exists ops. split; auto. intros diffs ts. unfold Inv. simpl.
    rewrite !fold_left_app. simpl. split; [rewrite T; auto|]. split; [|split; auto].
    - intros b o Hb Ho. apply in_app_or in Hb. destruct Hb as [Hb|[Hb|[]]]. + eapply K; eauto.
      + subst b. destruct (K2 o Ho) as [w [A B]]. unfold tkey in B.
        destruct (tree_key hash (wkey w)) eqn:Q; simpl in B; inversion B. rewrite enc_len. erewrite tree_key_len; eauto.
    - unfold map_batch. rewrite dedupe_id; auto.
  Qed.

  (* the root of a consistent database is the root of ANY history of batches that builds the tree image of its state —
     e.g. of the single batch that inserts the whole state into an empty tree *)
  Lemma inv_root_unique : forall a hist, Inv a hist ->
    forall h2, keys_ok n h2 -> img (a_state a) (fold_left map_batch h2 []) ->
    tree_root (a_tree a) = tree_root (fold_left tree_update h2 tree_empty).
  Proof.
    intros a hist [T [K [I W]]] h2 K2 I2. rewrite T. apply H_C10; auto.
    eapply img_mget_eq; eauto.
  Qed.

  (* two consistent databases with the same state (as a map) have the same root *)
  Lemma inv_same_state_same_root : forall a hist a' hist', Inv a hist -> Inv a' hist' ->
    (forall k, lookup (a_state a) k = lookup (a_state a') k) -> tree_root (a_tree a) = tree_root (a_tree a').
  Proof.
    intros a hist a' hist' [T [K [I W]]] [T' [K' [I' W']]] E. rewrite T, T'. apply H_C10; auto.
    eapply img_mget_eq; eauto.
  Qed.

  (* ---- Commit *)
  Lemma commit_cache_wkeys_nodup : forall c ws d, commit_cache c = (ws, d) -> NoDup (map fst c) -> NoDup (map wkey ws).
  Proof.
    induction c as [|[k e] c]; simpl; intros ws d H ND.
    - inversion H. constructor.
    - destruct (commit_cache c) as [ws' d'] eqn:E. inversion ND; subst.
      assert (ND' := IHc _ _ eq_refl H3).
      assert (NI : ~ In k (map wkey ws')).
      { intro Hin. apply H2. apply in_map_iff in Hin. destruct Hin as [w [Ew Hw]].
        pose proof (commit_cache_keys _ _ _ E w Hw) as P. destruct w; simpl in *; subst; auto. }
      destruct (en_init e); [destruct (en_deleted e); [|destruct (en_dirty e)]|]; inversion H; subst; simpl; auto;
        constructor; auto.
  Qed.

  Lemma commit_cache_wkeys_wf : forall c ws d, commit_cache c = (ws, d) -> (forall k, In k (map fst c) -> ukey k) ->
    forall w, In w ws -> ukey (wkey w).
  Proof. intros. apply H0. pose proof (commit_cache_keys _ _ _ H w H1) as P. destruct w; auto. Qed.

  (* commit_root_is_smt_of_state: a real (non dry-run) Commit of any well-formed staged cache on a consistent database,
     started from the current root, leaves a consistent database whose state is exactly the staged view (deleted keys
     absent), whose tree-state record carries the returned root, and the returned root is the root of EVERY history of
     tree batches that builds the tree image of that state (deleted keys contribute nothing to the image). *)
  Theorem commit_root_is_smt_of_state : forall a hist c height prev expected a' r,
    Inv a hist -> cache_good ukey (a_state a) c -> root_eqb prev (tree_root (a_tree a)) = true ->
    commit a c height prev expected false = COk a' r ->
    exists ops, Inv a' (hist ++ [ops]) /\ r = tree_root (a_tree a') /\
      (forall k, lookup (a_state a') k = view (a_state a) c k) /\
      a_tree_state a' = Some (height, r) /\
      a_diffs a' = put_diff (a_diffs a) height (snd (commit_cache c)) /\
      (forall h2, keys_ok n h2 -> img (a_state a') (fold_left map_batch h2 []) ->
                  r = tree_root (fold_left tree_update h2 tree_empty)).
  Proof.
    intros a hist c height prev expected a' r HI [ND [Co Wf]] Hp. unfold commit.
    destruct (commit_cache c) as [ws d] eqn:E.
    destruct (inv_step a hist ws HI) as [ops [Eo Hinv]].
    { eapply commit_cache_wkeys_nodup; eauto. } { eapply commit_cache_wkeys_wf; eauto. }
    rewrite Eo, Hp. simpl negb. cbv iota.
    destruct (match expected with Some x => negb (root_eqb (tree_root (tree_update (a_tree a) ops)) x) | None => false end);
      intro H; inversion H; subst.
    exists ops. pose proof (Hinv (put_diff (a_diffs a) height d) (Some (height, tree_root (tree_update (a_tree a) ops)))) as I'.
    split; [exact I'|]. simpl. repeat split; auto.
    - intros k. eapply commit_writes_staged_view; eauto.
    - intros h2 K2 I2. apply (inv_root_unique _ _ I' h2 K2 I2).
  Qed.

  Theorem commit_never_panics : forall a hist c height prev expected dry,
    Inv a hist -> cache_good ukey (a_state a) c -> root_eqb prev (tree_root (a_tree a)) = true ->
    match commit a c height prev expected dry with COk _ _ | CMismatch _ => True | _ => False end.
  Proof.
    intros a hist c height prev expected dry HI [ND [Co Wf]] Hp. unfold commit.
    destruct (commit_cache c) as [ws d] eqn:E.
    destruct (inv_step a hist ws HI) as [ops [Eo Hinv]].
    { eapply commit_cache_wkeys_nodup; eauto. } { eapply commit_cache_wkeys_wf; eauto. }
    rewrite Eo, Hp. simpl negb. cbv iota.
    destruct (match expected with Some x => negb (root_eqb (tree_root (tree_update (a_tree a) ops)) x) | None => false end); auto.
    destruct dry; auto.
  Qed.

  (* a dry run or a root mismatch changes nothing (the result carries no database) *)

  (* ---- the diff recorded by Commit undoes it *)
  Lemma commit_cache_diff_spec : forall c ws d, commit_cache c = (ws, d) ->
    (forall k, In k (d_added d) -> exists e, In (k, e) c /\ en_init e = None) /\
    (forall k v0, In (k, v0) (d_deleted d) -> exists e, In (k, e) c /\ en_init e = Some v0 /\ en_deleted e = true) /\
    (forall k v0, In (k, v0) (d_updated d) -> exists e, In (k, e) c /\ en_init e = Some v0 /\ en_deleted e = false /\ en_dirty e = true) /\
    (forall k e, In (k, e) c -> match en_init e with
                                | None => In k (d_added d)
                                | Some v0 => if en_deleted e then In (k, v0) (d_deleted d)
                                             else if en_dirty e then In (k, v0) (d_updated d) else True
                                end).
  Proof.
    induction c as [|[k0 e0] c]; simpl; intros ws d H.
    - inversion H; subst; simpl. repeat split; intros; try tauto.
    - destruct (commit_cache c) as [ws' d'] eqn:E. destruct (IHc _ _ eq_refl) as [A [B [C D]]].
      destruct (en_init e0) as [v|] eqn:I; [destruct (en_deleted e0) eqn:Dl; [|destruct (en_dirty e0) eqn:Dy]|];
        inversion H; subst; simpl; (split; [|split; [|split]]).
      all: try (intros k Hk; destruct (A k Hk) as [e [P Q]]; exists e; split; auto; fail).
      all: try (intros k v0 Hk; destruct (B k v0 Hk) as [e [P Q]]; exists e; split; auto; fail).
      all: try (intros k v0 Hk; destruct (C k v0 Hk) as [e [P Q]]; exists e; split; auto; fail).
      all: try (intros k e [Hk|Hk]; [inversion Hk; subst; rewrite ?I, ?Dl, ?Dy; simpl; auto |
                                     specialize (D k e Hk); destruct (en_init e); auto;
                                     destruct (en_deleted e); simpl; auto; destruct (en_dirty e); simpl; auto]; fail).
      + intros k v0 [Hk|Hk]. * inversion Hk; subst. exists e0. auto. * destruct (B k v0 Hk) as [e [P Q]]. exists e; auto.
      + intros k v0 [Hk|Hk]. * inversion Hk; subst. exists e0. auto. * destruct (C k v0 Hk) as [e [P Q]]. exists e; auto.
      + intros k [Hk|Hk]. * subst. exists e0. auto. * destruct (A k Hk) as [e [P Q]]. exists e; auto.
  Qed.

  Lemma revert_keys : forall d, map wkey (revert_writes d) = d_added d ++ map fst (d_deleted d) ++ map fst (d_updated d).
  Proof.
    intros. unfold revert_writes. rewrite !map_app, !map_map. simpl. f_equal. rewrite map_id. auto.
  Qed.

  Lemma in_pair_lookup : forall {A : Type} (l : list (bytes * A)) k a, NoDup (map fst l) -> In (k, a) l -> lookup l k = Some a.
  Proof.
    induction l as [|[k' a'] l]; simpl; intros; try tauto. inversion H; subst. destruct H0.
    - inversion H0; subst. rewrite bytes_eqb_refl. auto.
    - destruct (bytes_eqb k' k) eqn:E. + apply bytes_eqb_eq in E. subst. exfalso. apply H3. apply in_map_iff. exists (k, a). auto.
      + apply IHl; auto.
  Qed.
  Lemma lookup_in_pair : forall {A : Type} (l : list (bytes * A)) k a, lookup l k = Some a -> In (k, a) l.
  Proof.
    induction l as [|[k' a'] l]; simpl; intros; try discriminate.
    destruct (bytes_eqb k' k) eqn:E. - apply bytes_eqb_eq in E. inversion H; subst. auto. - right. auto.
  Qed.

  Lemma diff_keys_in_cache : forall c ws d, commit_cache c = (ws, d) ->
    forall k, In k (map wkey (revert_writes d)) -> In k (map fst c).
  Proof.
    intros c ws d H k Hk. destruct (commit_cache_diff_spec _ _ _ H) as [A [B [C _]]].
    rewrite revert_keys in Hk. apply in_app_or in Hk. destruct Hk as [Hk|Hk].
    - destruct (A k Hk) as [e [P _]]. apply in_map_iff. exists (k, e). auto.
    - apply in_app_or in Hk. destruct Hk as [Hk|Hk]; apply in_map_iff in Hk; destruct Hk as [[k' v0] [Ek Hk]]; simpl in Ek; subst.
      + destruct (B k v0 Hk) as [e [P _]]. apply in_map_iff. exists (k, e). auto.
      + destruct (C k v0 Hk) as [e [P _]]. apply in_map_iff. exists (k, e). auto.
  Qed.

  Lemma diff_keys_nodup : forall c ws d, commit_cache c = (ws, d) -> NoDup (map fst c) -> NoDup (map wkey (revert_writes d)).
  Proof.
    induction c as [|[k0 e0] c]; simpl; intros ws d H ND.
    - inversion H; subst. simpl. constructor.
    - destruct (commit_cache c) as [ws' d'] eqn:E. inversion ND; subst.
      assert (ND' := IHc _ _ eq_refl H3).
      assert (NI : ~ In k0 (map wkey (revert_writes d'))) by (intro Q; apply H2; eapply diff_keys_in_cache; eauto).
      rewrite revert_keys in *.
      destruct (en_init e0); [destruct (en_deleted e0); [|destruct (en_dirty e0)]|]; inversion H; subst; simpl; auto.
      + apply (Permutation_NoDup (l := k0 :: d_added d' ++ map fst (d_deleted d') ++ map fst (d_updated d'))).
        * apply Permutation_middle. * constructor; auto.
      + apply (Permutation_NoDup (l := k0 :: d_added d' ++ map fst (d_deleted d') ++ map fst (d_updated d'))).
        * rewrite app_assoc. rewrite (app_assoc (d_added d')). apply Permutation_middle. * constructor; auto.
      + constructor; auto.
  Qed.

  Theorem diff_undoes_commit : forall s c ws d, cache_good ukey s c -> commit_cache c = (ws, d) ->
    NoDup (map wkey (revert_writes d)) /\ (forall w, In w (revert_writes d) -> ukey (wkey w)) /\
    forall k, lookup (apply_writes (apply_writes s ws) (revert_writes d)) k = lookup s k.
  Proof.
    intros s c ws d [ND [Co Wf]] H.
    assert (N1 : NoDup (map wkey (revert_writes d))) by (eapply diff_keys_nodup; eauto).
    split; auto. split.
    { intros w Hw. apply Wf. eapply diff_keys_in_cache; eauto. apply in_map; auto. }
    intros k. assert (V := commit_writes_staged_view c s ws d ND Co H k).
    destruct (commit_cache_diff_spec _ _ _ H) as [A [B [C D]]].
    destruct (lookup c k) as [e|] eqn:L.
    - apply lookup_in_pair in L. pose proof (D k e L) as De. destruct (Co k e (in_pair_lookup _ _ _ ND L)) as [C1 [C2 C3]].
      assert (InW : forall w, In w (revert_writes d) -> wkey w = k -> lookup (apply_writes (apply_writes s ws) (revert_writes d)) k = wval w).
      { intros w Hw Ek. rewrite <- Ek. apply apply_writes_in; auto. }
      destruct (en_init e) as [v0|] eqn:I.
      + destruct (en_deleted e) eqn:Dl; [|destruct (en_dirty e) eqn:Dy].
        * rewrite (InW (WSet k v0)); simpl; auto. unfold revert_writes. apply in_or_app. right. apply in_or_app. left.
          apply in_map_iff. exists (k, v0). auto.
        * rewrite (InW (WSet k v0)); simpl; auto. unfold revert_writes. apply in_or_app. right. apply in_or_app. right.
          apply in_map_iff. exists (k, v0). auto.
        * rewrite apply_writes_other.
          -- rewrite V. unfold view. rewrite (in_pair_lookup _ _ _ ND L), Dl. apply C2; auto. congruence.
          -- intro Hin. rewrite revert_keys in Hin. apply in_app_or in Hin. destruct Hin as [Hin|Hin].
             ++ destruct (A k Hin) as [e' [P Q]]. pose proof (in_pair_lookup _ _ _ ND P). pose proof (in_pair_lookup _ _ _ ND L). congruence.
             ++ apply in_app_or in Hin. destruct Hin as [Hin|Hin]; apply in_map_iff in Hin; destruct Hin as [[k' v1] [Ek Hin]]; simpl in Ek; subst.
                ** destruct (B k v1 Hin) as [e' [P [Q1 Q2]]]. pose proof (in_pair_lookup _ _ _ ND P). pose proof (in_pair_lookup _ _ _ ND L). congruence.
                ** destruct (C k v1 Hin) as [e' [P [Q1 [Q2 Q3]]]]. pose proof (in_pair_lookup _ _ _ ND P). pose proof (in_pair_lookup _ _ _ ND L). congruence.
      + rewrite (InW (WDel k)); simpl; auto. unfold revert_writes. apply in_or_app. left. apply in_map; auto.
    - rewrite apply_writes_other.
      + rewrite V. unfold view. rewrite L. auto.
      + intro Hin. apply (lookup_none_notin _ _ L). eapply diff_keys_in_cache; eauto.
  Qed.

  (* ---- Revert *)
  Definition reverted (a : appdb) (H : N) (d : diff) (ops : list (@op bytes)) : appdb :=
    {| a_state := apply_writes (a_state a) (revert_writes d); a_tree := tree_update (a_tree a) ops; a_diffs := a_diffs a;
       a_tree_state := Some ((H + 2 ^ 32 - 1) mod 2 ^ 32, tree_root (tree_update (a_tree a) ops)) |}.

  Lemma revert_step : forall a hist H d sr expected, Inv a hist -> diff_at (a_diffs a) H = Some d ->
    NoDup (map wkey (revert_writes d)) -> (forall w, In w (revert_writes d) -> ukey (wkey w)) ->
    root_eqb sr (tree_root (a_tree a)) = true ->
    exists ops, Inv (reverted a H d ops) (hist ++ [ops]) /\
      revert a H sr expected =
      if match expected with Some x => negb (root_eqb (tree_root (a_tree (reverted a H d ops))) x) | None => false end
      then RMismatch (tree_root (a_tree (reverted a H d ops)))
      else ROk (reverted a H d ops) (tree_root (a_tree (reverted a H d ops))).
  Proof.
    intros a hist H d sr expected HI Hd ND Wf Hr.
    destruct (inv_step a hist (revert_writes d) HI ND Wf) as [ops [Eo Hinv]].
    exists ops. split. { apply Hinv. }
    unfold revert. rewrite Hd, Eo, Hr. simpl negb. cbv iota. reflexivity.
  Qed.

  (* ---- chains of undoable blocks *)
  Inductive Chain (diffs : list (N * diff)) : N -> list store -> Prop :=
  | ch_one : forall H s, Chain diffs H [s]
  | ch_cons : forall H s s' rest d, 0 < H -> diff_at diffs H = Some d ->
      NoDup (map wkey (revert_writes d)) -> (forall w, In w (revert_writes d) -> ukey (wkey w)) ->
      (forall k, lookup (apply_writes s (revert_writes d)) k = lookup s' k) ->
      Chain diffs (H - 1) (s' :: rest) -> Chain diffs H (s :: s' :: rest).

  Lemma chain_ext : forall d1 d2 H l, Chain d1 H l -> (forall h, h <= H -> diff_at d1 h = diff_at d2 h) -> Chain d2 H l.
  Proof.
    induction 1; intros. - constructor.
    - econstructor; eauto. + rewrite <- H6; auto. lia. + apply IHChain. intros. apply H6. lia.
  Qed.

  Lemma diff_at_filter : forall l h h', h <> h' -> diff_at (filter (fun x => negb (fst x =? h)) l) h' = diff_at l h'.
  Proof.
    induction l as [|[x d] l]; simpl; intros; auto.
    destruct (x =? h) eqn:E; simpl.
    - apply N.eqb_eq in E. subst. rewrite IHl; auto. destruct (h =? h') eqn:E2; auto. apply N.eqb_eq in E2. congruence.
    - rewrite IHl; auto.
  Qed.
  Lemma diff_at_put_same : forall l h d, diff_at (put_diff l h d) h = Some d.
  Proof. intros. unfold put_diff. simpl. rewrite N.eqb_refl. auto. Qed.
  Lemma diff_at_put_other : forall l h d h', h <> h' -> diff_at (put_diff l h d) h' = diff_at l h'.
  Proof.
    intros. unfold put_diff. simpl. destruct (h =? h') eqn:E. - apply N.eqb_eq in E. congruence. - apply diff_at_filter; auto.
  Qed.

  Variable empty_root : R.
  Hypothesis empty_root_spec : empty_root = tree_root tree_empty.

  (* the application is at height H; sts = its state and the states it can still be rolled back to, newest first *)
  Definition Good (a : appdb) (H : N) (sts : list store) : Prop :=
    (exists hist, Inv a hist) /\
    (a_tree_state a = Some (H, tree_root (a_tree a)) \/
     (a_tree_state a = None /\ H = 0 /\ tree_root (a_tree a) = empty_root)) /\
    H < 2 ^ 32 /\ Chain (a_diffs a) H sts /\
    exists s rest, sts = s :: rest /\ forall k, lookup (a_state a) k = lookup s k.

  Lemma fresh_good : forall diffs,
    Good {| a_state := []; a_tree := tree_empty; a_diffs := diffs; a_tree_state := None |} 0 [[]].
  Proof.
    intros. split; [|split; [|split; [|split]]].
    - exists []. split; [reflexivity|]. split. + intros b o []. + split. * intros tk hv. simpl. split; [discriminate|].
        intros [k [v [A _]]]. discriminate. * intros k v A. discriminate.
    - right. simpl. rewrite empty_root_spec. auto.
    - reflexivity.
    - constructor.
    - exists [], []. split; auto.
  Qed.

  (* a real Commit of the next block keeps the database good and pushes the new state on the chain *)
  Theorem commit_good : forall a H sts c expected a' r,
    Good a H sts -> cache_good ukey (a_state a) c -> H + 1 < 2 ^ 32 ->
    commit a c (H + 1) (tree_root (a_tree a)) expected false = COk a' r ->
    Good a' (H + 1) (a_state a' :: sts) /\ r = tree_root (a_tree a').
  Proof.
    intros a H sts c expected a' r [[hist HI] [Ts [HH [Ch [s [rest [Es Eq]]]]]]] Cg Hlt Hc.
    assert (Hp : root_eqb (tree_root (a_tree a)) (tree_root (a_tree a)) = true) by (apply root_eqb_spec; auto).
    destruct (commit_root_is_smt_of_state _ _ _ _ _ _ _ _ HI Cg Hp Hc) as [ops [I' [Er [Ev [Et [Ed _]]]]]].
    split; auto. split; [eauto|]. split. { left. rewrite Et, Er. auto. } split; auto. split.
    - subst sts. destruct (commit_cache c) as [ws d] eqn:E. simpl in Ed.
      destruct (diff_undoes_commit _ _ _ _ Cg E) as [U1 [U2 U3]].
      assert (Est : a_state a' = apply_writes (a_state a) ws).
      { unfold commit in Hc. rewrite E in Hc. destruct (tree_updates ws); try discriminate.
        rewrite Hp in Hc. simpl in Hc.
        destruct (match expected with Some x => negb (root_eqb (tree_root (tree_update (a_tree a) l)) x) | None => false end);
          inversion Hc; auto. }
      apply (ch_cons _ _ _ _ _ d); auto.
      + lia.
      + rewrite Ed. apply diff_at_put_same.
      + intros k. rewrite Est, U3. auto.
      + replace (H + 1 - 1) with H by lia. apply (chain_ext (a_diffs a)); auto.
        intros h Hh. rewrite Ed. symmetry. apply diff_at_put_other. lia.
    - exists (a_state a'), sts. auto.
  Qed.

  (* Revert of the tip block of a good database: back to the previous state of the chain, and (same state => same root)
     back to the root that state had — revert_restores_state_and_root *)
  Theorem revert_good : forall a H s s' rest expected,
    Good a H (s :: s' :: rest) ->
    exists a'', Good a'' (H - 1) (s' :: rest) /\ a_tree_state a'' = Some (H - 1, tree_root (a_tree a'')) /\
      a_diffs a'' = a_diffs a /\
      revert a H (tree_root (a_tree a)) expected =
      if match expected with Some x => negb (root_eqb (tree_root (a_tree a'')) x) | None => false end
      then RMismatch (tree_root (a_tree a'')) else ROk a'' (tree_root (a_tree a'')).
  Proof.
    intros a H s s' rest expected [[hist HI] [Ts [HH [Ch [s0 [rest0 [Es Eq]]]]]]].
    inversion Es; subst s0 rest0. inversion Ch; subst.
    assert (Hp : root_eqb (tree_root (a_tree a)) (tree_root (a_tree a)) = true) by (apply root_eqb_spec; auto).
    destruct (revert_step a hist H d (tree_root (a_tree a)) expected HI H5 H6 H8 Hp) as [ops [I'' Er]].
    assert (Hm : (H + 2 ^ 32 - 1) mod 2 ^ 32 = H - 1).
    { assert (P : 2 ^ 32 = 4294967296) by reflexivity. rewrite P in *.
      replace (H + 4294967296 - 1) with ((H - 1) + 1 * 4294967296) by lia.
      rewrite N.mod_add by lia. apply N.mod_small. lia. }
    assert (Hts : a_tree_state (reverted a H d ops) = Some (H - 1, tree_root (a_tree (reverted a H d ops)))).
    { unfold reverted. cbn [a_tree_state a_tree]. rewrite Hm. auto. }
    exists (reverted a H d ops). split; [|split; [exact Hts | split; [reflexivity | exact Er]]].
    split; [eauto|]. split. { left. exact Hts. }
    split. { lia. } split. { simpl. auto. }
    exists s', rest. split; auto. intros k. simpl. rewrite <- H9. apply apply_writes_ext. apply Eq.
  Qed.

  Theorem revert_restores_state_and_root : forall a H sts c a' r expected,
    Good a H sts -> cache_good ukey (a_state a) c -> H + 1 < 2 ^ 32 ->
    commit a c (H + 1) (tree_root (a_tree a)) None false = COk a' r ->
    exists a'', (forall k, lookup (a_state a'') k = lookup (a_state a) k) /\
                tree_root (a_tree a'') = tree_root (a_tree a) /\
                a_tree_state a'' = Some (H, tree_root (a_tree a)) /\
                revert a' (H + 1) r expected =
                if match expected with Some x => negb (root_eqb (tree_root (a_tree a)) x) | None => false end
                then RMismatch (tree_root (a_tree a)) else ROk a'' (tree_root (a_tree a)).
  Proof.
    intros a H sts c a' r expected G Cg Hlt Hc.
    destruct (commit_good _ _ _ _ _ _ _ G Cg Hlt Hc) as [G' Er].
    destruct G as [[hist HI] [Ts [HH [Ch [s [rest [Es Eq]]]]]]]. subst sts.
    destruct (revert_good a' (H + 1) (a_state a') s rest expected G') as [a'' [G'' [Ts'' [_ Rv]]]].
    replace (H + 1 - 1) with H in * by lia.
    destruct G'' as [[hist'' HI''] [_ [_ [_ [s2 [rest2 [Es2 Eq2]]]]]]]. inversion Es2; subst s2 rest2.
    assert (Est : forall k, lookup (a_state a'') k = lookup (a_state a) k) by (intros; rewrite Eq2, Eq; auto).
    assert (Ert : tree_root (a_tree a'') = tree_root (a_tree a)) by (eapply inv_same_state_same_root; eauto).
    exists a''. split; auto. split; auto. split. { rewrite Ts'', Ert. auto. }
    rewrite Er. rewrite Rv, Ert. reflexivity.
  Qed.

  (* ---- Init: restart recovery *)
  Notation init_loop := (init_loop hash enc root_eqb tree_update tree_root).
  Notation init := (init hash enc root_eqb tree_update tree_root empty_root).

  Lemma good_tree_state : forall a H sts, Good a H sts ->
    match a_tree_state a with Some x => x | None => (0, empty_root) end = (H, tree_root (a_tree a)).
  Proof.
    intros a H sts [_ [[T|[T [Z E]]] _]]; rewrite T; auto. subst. rewrite E. auto.
  Qed.

  Lemma init_loop_good : forall fuel a H sts last, Good a H sts -> last <= H ->
    (N.to_nat (H - last) <= fuel)%nat -> (N.to_nat (H - last) < length sts)%nat ->
    exists a', init_loop a H (tree_root (a_tree a)) last fuel = inr (a', tree_root (a_tree a')) /\
               Good a' last (skipn (N.to_nat (H - last)) sts) /\ a_diffs a' = a_diffs a.
  Proof.
    induction fuel; intros a H sts last G Hle Hf Hl.
    - assert (H = last) by lia. subst. simpl. rewrite N.leb_refl. exists a. rewrite N.sub_diag. simpl. auto.
    - simpl. destruct (H <=? last) eqn:E.
      + apply N.leb_le in E. assert (H = last) by lia. subst. exists a. rewrite N.sub_diag. simpl. auto.
      + apply N.leb_gt in E.
        destruct sts as [|s [|s' rest]]; simpl in Hl; try lia.
        destruct (revert_good a H s s' rest None G) as [a'' [G'' [Ts'' [Df Rv]]]].
        rewrite Rv. cbv iota.
        destruct (IHfuel a'' (H - 1) (s' :: rest) last G'') as [a' [L' [G' D']]]; try lia.
        { simpl. lia. }
        exists a'. split; auto. split; [|congruence].
        replace (N.to_nat (H - last)) with (S (N.to_nat (H - 1 - last))) by lia. simpl. exact G'.
  Qed.

  (* init_recovers_to_engine_tip: from a good database at height H, Init with the engine at height last <= H (and
     H - last states still undoable) rolls back to exactly the state the application had at [last], with the tree-state
     record at [last], and answers IOk iff the engine's root equals the root of that state, IConflict otherwise *)
  Theorem init_recovers_to_engine_tip : forall a H sts last last_root, Good a H sts -> last <= H ->
    (N.to_nat (H - last) < length sts)%nat ->
    exists a', Good a' last (skipn (N.to_nat (H - last)) sts) /\ a_diffs a' = a_diffs a /\
               init a last last_root = if root_eqb (tree_root (a_tree a')) last_root then IOk a' else IConflict a'.
  Proof.
    intros a H sts last last_root G Hle Hl. unfold Recovery.init.
    rewrite (good_tree_state _ _ _ G).
    replace (H <? last) with false by (symmetry; apply N.ltb_ge; auto).
    destruct (init_loop_good (N.to_nat (H - last)) a H sts last G Hle (le_n _) Hl) as [a' [L [G' D']]].
    rewrite L. exists a'. split; auto.
  Qed.

  Theorem init_behind : forall a H sts last last_root, Good a H sts -> H < last -> init a last last_root = IBehind.
  Proof.
    intros. unfold Recovery.init. rewrite (good_tree_state _ _ _ H0).
    replace (H <? last) with true by (symmetry; apply N.ltb_lt; auto). auto.
  Qed.

  (* when the engine's root is the root of (any consistent database holding) the state at [last], Init succeeds *)
  Theorem init_succeeds_on_matching_root : forall a H sts last b hb, Good a H sts -> last <= H ->
    (N.to_nat (H - last) < length sts)%nat -> Inv b hb ->
    (forall k, lookup (a_state b) k = lookup (nth (N.to_nat (H - last)) sts []) k) ->
    exists a', init a last (tree_root (a_tree b)) = IOk a' /\ Good a' last (skipn (N.to_nat (H - last)) sts).
  Proof.
    intros a H sts last b hb G Hle Hl Ib Eb.
    destruct (init_recovers_to_engine_tip a H sts last (tree_root (a_tree b)) G Hle Hl) as [a' [G' [_ Ei]]].
    exists a'. split; auto. rewrite Ei.
    destruct G' as [[h' I'] [_ [_ [_ [s [rest [Es Eq]]]]]]].
    assert (tree_root (a_tree a') = tree_root (a_tree b)).
    { eapply inv_same_state_same_root; eauto. intros k. rewrite Eq, Eb.
      f_equal. symmetry. eapply skipn_nth; eauto. }
    rewrite H0. replace (root_eqb (tree_root (a_tree b)) (tree_root (a_tree b))) with true; auto.
    symmetry. apply root_eqb_spec. auto.
  Qed.

  (* ---- Finalize *)
  Lemma diff_at_finalized_keep : forall l fh h, fh <= h ->
    diff_at (filter (fun x : N * diff => negb (fst x <? fh)) l) h = diff_at l h.
  Proof.
    induction l as [|[x d] l]; simpl; intros; auto.
    destruct (x <? fh) eqn:E; simpl.
    - apply N.ltb_lt in E. rewrite IHl; auto. destruct (x =? h) eqn:E2; auto. apply N.eqb_eq in E2. lia.
    - rewrite IHl; auto.
  Qed.
  Lemma diff_at_finalized_gone : forall l fh h, h < fh ->
    diff_at (filter (fun x : N * diff => negb (fst x <? fh)) l) h = None.
  Proof.
    induction l as [|[x d] l]; simpl; intros; auto.
    destruct (x <? fh) eqn:E; simpl; auto.
    apply N.ltb_ge in E. destruct (x =? h) eqn:E2; auto. apply N.eqb_eq in E2. lia.
  Qed.

  Lemma chain_firstn : forall diffs H l, Chain diffs H l -> forall m, Chain diffs H (firstn (S m) l).
  Proof.
    induction 1; intros m. - simpl. destruct m; constructor.
    - destruct m; simpl. + constructor. + econstructor; eauto.
  Qed.

  Lemma chain_finalized : forall diffs fh H l, Chain diffs H l ->
    (length l = 1%nat \/ (fh <= H /\ (length l <= N.to_nat (H - fh) + 2)%nat)) ->
    Chain (filter (fun x : N * diff => negb (fst x <? fh)) diffs) H l.
  Proof.
    induction 1; intros C. - constructor.
    - destruct C as [C|[C1 C2]]; [simpl in C; discriminate|].
      econstructor; eauto. + rewrite diff_at_finalized_keep; auto.
      + apply IHChain. simpl in *. destruct rest; [left; auto|].
        right. simpl in *. split; lia.
  Qed.

  Theorem finalize_good : forall a H sts fh F, Good a H sts -> length sts = S (N.to_nat (H - F)) -> F <= H -> fh <= H ->
    let F2 := N.max F (fh - 1) in
    Good (finalize a fh) H (firstn (S (N.to_nat (H - F2))) sts) /\
    length (firstn (S (N.to_nat (H - F2))) sts) = S (N.to_nat (H - F2)).
  Proof.
    intros a H sts fh F [[hist HI] [Ts [HH [Ch [s [rest [Es Eq]]]]]]] L HF Hfh F2.
    assert (Len : length (firstn (S (N.to_nat (H - F2))) sts) = S (N.to_nat (H - F2))).
    { rewrite firstn_length. unfold F2. lia. }
    split; auto. unfold finalize. destruct (fh =? 0) eqn:Z.
    - apply N.eqb_eq in Z. split; [eauto|]. split; auto. split; auto. split.
      + apply chain_firstn; auto. + subst sts. exists s, (firstn (N.to_nat (H - F2)) rest). auto.
    - apply N.eqb_neq in Z. split.
      { exists hist. destruct HI as [T [K [I W]]]. split; [exact T|]. split; [exact K|]. split; [exact I | exact W]. }
      split; [exact Ts|]. split; [exact HH|]. split.
      + cbn [a_diffs]. apply chain_finalized. * apply chain_firstn; auto.
        * rewrite Len. destruct (N.to_nat (H - F2)) eqn:Q; [left; auto|]. right. split; auto. unfold F2 in *. lia.
      + subst sts. exists s, (firstn (N.to_nat (H - F2)) rest). auto.
  Qed.

  (* ---- every sequence of blocks, reverts and restarts *)
  Definition fresh : appdb := {| a_state := []; a_tree := tree_empty; a_diffs := []; a_tree_state := None |}.

  (* reach a H F: the application is at height H; F = the lowest height it can still be rolled back to (everything
     below the engine's finalised height has been pruned by Finalize).  The engine never finalises above its tip and
     never restarts with a tip below what it finalised. *)
  Inductive reach : appdb -> N -> N -> Prop :=
  | rc_fresh : reach fresh 0 0
  (* the genesis block: committed on the empty database at the genesis height g (InitGenesisState, Commit with no
     previous root); it is never reverted *)
  | rc_genesis : forall c g expected a' r, cache_good ukey [] c -> g < 2 ^ 32 ->
      commit fresh c g (tree_root tree_empty) expected false = COk a' r -> reach a' g g
  (* a block: ANY well-formed staged cache — whatever BeforeTransactionsExecute, the transactions (block_cache_good) and
     AfterTransactionsExecute staged *)
  | rc_block : forall a H F c expected a' r, reach a H F -> cache_good ukey (a_state a) c -> H + 1 < 2 ^ 32 ->
      commit a c (H + 1) (tree_root (a_tree a)) expected false = COk a' r -> reach a' (H + 1) F
  | rc_revert : forall a H F expected a' r, reach a H F -> F < H ->
      revert a H (tree_root (a_tree a)) expected = ROk a' r -> reach a' (H - 1) F
  | rc_restart : forall a H F last lr a', reach a H F -> F <= last ->
      (init a last lr = IOk a' \/ init a last lr = IConflict a') -> reach a' last F
  | rc_finalize : forall a H F fh, reach a H F -> fh <= H -> reach (finalize a fh) H (N.max F (fh - 1)).

  Theorem reach_good : forall a H F, reach a H F ->
    exists sts, Good a H sts /\ length sts = S (N.to_nat (H - F)) /\ F <= H.
  Proof.
    induction 1.
    - exists [[]]. split; [apply fresh_good|]. split; auto. apply N.le_refl.
    - assert (Hp : root_eqb (tree_root tree_empty) (tree_root (a_tree fresh)) = true) by (apply root_eqb_spec; auto).
      assert (HI : Inv fresh []).
      { split; [reflexivity|]. split; [intros b o []|]. split; [|intros k v A; discriminate].
        intros tk hv; simpl; split; [discriminate|]. intros [k [v [A _]]]; discriminate. }
      destruct (commit_root_is_smt_of_state _ _ _ _ _ _ _ _ HI H Hp H1) as [ops [I' [Er [Ev [Et _]]]]].
      exists [a_state a']. split.
      + split; [eauto|]. split. { left. rewrite Et, Er. auto. } split; auto. split. { constructor. }
        exists (a_state a'), []. auto.
      + split; simpl. * rewrite N.sub_diag. auto. * apply N.le_refl.
    - destruct IHreach as [sts [G [L HF]]].
      destruct (commit_good _ _ _ _ _ _ _ G H1 H2 H3) as [G' _].
      exists (a_state a' :: sts). split; auto. split. { simpl. rewrite L. lia. } lia.
    - destruct IHreach as [sts [G [L HF]]].
      destruct sts as [|s [|s' rest]]; simpl in L; try lia.
      destruct (revert_good a H s s' rest expected G) as [a'' [G'' [Ts'' [Df Rv]]]].
      rewrite Rv in H2.
      destruct (match expected with Some x => negb (root_eqb (tree_root (a_tree a'')) x) | None => false end);
        inversion H2; subst.
      exists (s' :: rest). split; auto. split. { simpl in *. lia. } lia.
    - destruct IHreach as [sts [G [L HF]]].
      destruct (N.lt_ge_cases H last) as [Hlt|Hge].
      + rewrite (init_behind _ _ _ _ lr G Hlt) in H2. destruct H2; discriminate.
      + destruct (init_recovers_to_engine_tip a H sts last lr G Hge) as [a2 [G2 [Df Ei]]]. { rewrite L. lia. }
        assert (a' = a2).
        { rewrite Ei in H2. destruct (root_eqb (tree_root (a_tree a2)) lr); destruct H2 as [Q|Q]; inversion Q; auto. }
        subst a2. exists (skipn (N.to_nat (H - last)) sts). split; auto. split.
        { rewrite skipn_length, L. lia. }
        auto.
    - destruct IHreach as [sts [G [L HF]]].
      destruct (finalize_good a H sts fh F G L HF H1) as [G2 L2].
      exists (firstn (S (N.to_nat (H - N.max F (fh - 1)))) sts). split; auto. split; auto. lia.
  Qed.
End RootFacts.
