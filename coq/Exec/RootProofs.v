(* State root = sparse Merkle root of the state; Revert restores state and root; Init recovers to the engine's tip.
   The sparse Merkle tree is abstract (tree states TR, batch update, root).  The ONLY fact assumed about it is [H_C10],
   which is literally the statement of C10_root_is_function_of_map (coq/Properties/C10.v) with T / batch_update n / hash
   replaced by the Section variables: two histories of batches whose final key->value maps agree give the same root.
   Maps, batches, [map_batch], [mget], [keys_ok] are the definitions of coq/SMT/Spec.v and coq/SMT/TreeProofs.v. *)
From Coq Require Import List NArith ZArith Bool Arith Lia Permutation.
From LE Require Import SMT.Spec SMT.TreeProofs.
From LE Require Import Exec.EventLog Exec.TxExec Exec.TxExecProofs Exec.StateRoot Exec.StateRootProofs Exec.CacheProofs.
Import ListNotations.
Local Open Scope N_scope.

Definition wkey (w : write) : bytes := match w with WSet k _ => k | WDel k => k end.
Definition wval (w : write) : option bytes := match w with WSet _ v => Some v | WDel _ => None end.

Lemma skey_eqb_eq : forall a b : Spec.key, Spec.key_eqb a b = true <-> a = b.
Proof. intros. unfold Spec.key_eqb. destruct (list_eq_dec bool_dec a b); split; intros; auto; try discriminate; congruence. Qed.
Lemma skey_eqb_refl : forall a, Spec.key_eqb a a = true.
Proof. intros. apply skey_eqb_eq; auto. Qed.
Lemma skey_eqb_neq : forall a b, a <> b -> Spec.key_eqb a b = false.
Proof. intros. destruct (Spec.key_eqb a b) eqn:E; auto. apply skey_eqb_eq in E. congruence. Qed.

Section MapFacts.
  Context {V : Type}.
  Lemma mget_others : forall (m : list (Spec.key * V)) k k',
    mget k (others k' m) = if Spec.key_eqb k k' then None else mget k m.
  Proof.
    induction m as [|[k0 v0] m]; simpl; intros. - destruct (Spec.key_eqb k k'); auto.
    destruct (Spec.key_eqb k' k0) eqn:E1; simpl.
    - apply skey_eqb_eq in E1. subst. rewrite IHm. destruct (Spec.key_eqb k k0); auto.
    - rewrite IHm. destruct (Spec.key_eqb k k') eqn:E2; auto.
      apply skey_eqb_eq in E2. subst. rewrite skey_eqb_neq; auto. intro; subst. rewrite skey_eqb_refl in E1. discriminate.
  Qed.
  Lemma mget_mins : forall (m : list (Spec.key * V)) k k' v,
    mget k (mins k' v m) = if Spec.key_eqb k k' then Some v else mget k m.
  Proof.
    intros. unfold mins. simpl. destruct (Spec.key_eqb k k') eqn:E; auto. rewrite mget_others, E. auto.
  Qed.
  Lemma mget_map_apply : forall (m : list (Spec.key * V)) (o : @op V) k,
    mget k (map_apply m o) = if Spec.key_eqb k (fst o) then snd o else mget k m.
  Proof.
    intros m [k' [v|]] k; unfold map_apply; simpl. - apply mget_mins. - unfold mdel. apply mget_others.
  Qed.
  Lemma dedupe_id : forall (ops : list (@op V)) seen,
    NoDup (map fst ops) -> (forall o, In o ops -> ~ In (fst o) seen) -> dedupe seen ops = ops.
  Proof.
    induction ops as [|o ops]; simpl; intros; auto. inversion H; subst.
    destruct (existsb (Spec.key_eqb (fst o)) seen) eqn:E.
    - apply existsb_exists in E. destruct E as [x [Hx Ex]]. apply skey_eqb_eq in Ex. subst.
      exfalso. apply (H0 o); auto.
    - f_equal. apply IHops; auto. intros o' Ho' [Hs|Hs].
      + apply H3. rewrite Hs. apply in_map; auto.
      + apply (H0 o'); auto.
  Qed.
End MapFacts.

Lemma app_inv_len : forall {A : Type} (a a' b b' : list A), length a = length a' -> a ++ b = a' ++ b' -> a = a' /\ b = b'.
Proof.
  induction a; destruct a'; simpl; intros; try discriminate; auto.
  inversion H0; subst. destruct (IHa a' b b'); auto. subst; auto.
Qed.

Lemma apply_writes_in : forall ws s w, NoDup (map wkey ws) -> In w ws -> lookup (apply_writes s ws) (wkey w) = wval w.
Proof.
  induction ws; simpl; intros; try tauto. inversion H; subst. destruct H0.
  - subst. rewrite apply_writes_notin.
    + rewrite apply_write_lookup. destruct w; simpl; rewrite bytes_eqb_refl; auto.
    + intros w' Hw'. assert (wkey w' <> wkey w) by (intro E; apply H3; rewrite <- E; apply in_map; auto).
      destruct w'; simpl in *; auto.
  - apply IHws; auto.
Qed.

Lemma apply_writes_other : forall ws s k, ~ In k (map wkey ws) -> lookup (apply_writes s ws) k = lookup s k.
Proof.
  intros. apply apply_writes_notin. intros w Hw. assert (wkey w <> k) by (intro; subst; apply H; apply in_map; auto).
  destruct w; simpl in *; auto.
Qed.

Section RootFacts.
  Variable hash : bytes -> bytes.
  Variable enc : bytes -> Spec.key.
  Variable TR : Type.
  Variable R : Type.
  Variable root_eqb : R -> R -> bool.
  Variable tree_update : TR -> list (@op bytes) -> TR.
  Variable tree_root : TR -> R.
  Variable tree_empty : TR.
  Variable n : nat.

  Hypothesis hash_inj : forall a b, hash a = hash b -> a = b.
  Hypothesis enc_inj : forall a b, enc a = enc b -> a = b.
  Hypothesis enc_len : forall k t, tree_key hash k = Some t -> length (enc t) = n.
  Hypothesis root_eqb_spec : forall a b, root_eqb a b = true <-> a = b.
  (* C10_root_is_function_of_map *)
  Hypothesis H_C10 : forall h1 h2 : list (list (@op bytes)),
    keys_ok n h1 -> keys_ok n h2 ->
    (forall k, mget k (fold_left map_batch h1 []) = mget k (fold_left map_batch h2 [])) ->
    tree_root (fold_left tree_update h1 tree_empty) = tree_root (fold_left tree_update h2 tree_empty).

  Notation appdb := (appdb TR R).
  Notation tree_updates := (tree_updates hash enc).
  Notation commit := (commit hash enc root_eqb tree_update tree_root).
  Notation revert := (revert hash enc root_eqb tree_update tree_root).

  Definition tkey (k : bytes) : option Spec.key := option_map enc (tree_key hash k).

  Lemma wfkey_tree_key : forall k, wfkey k -> exists t, tree_key hash k = Some t.
  Proof.
    intros k [r [E L]]. subst. unfold tree_key. simpl length.
    destruct (Nat.ltb (S (length r)) 7) eqn:B; eauto. apply Nat.ltb_lt in B. lia.
  Qed.

  Lemma tkey_inj : forall k k' t, wfkey k -> wfkey k' -> tkey k = Some t -> tkey k' = Some t -> k = k'.
  Proof.
    intros k k' t [r [E L]] [r' [E' L']] H H'. subst. unfold tkey, tree_key in *. simpl length in *.
    destruct (Nat.ltb (S (length r)) 7) eqn:B; [apply Nat.ltb_lt in B; lia|].
    destruct (Nat.ltb (S (length r')) 7) eqn:B'; [apply Nat.ltb_lt in B'; lia|].
    simpl in H, H'. inversion H; inversion H'; subst. apply enc_inj in H2.
    apply app_inv_len in H2. 2:{ rewrite !firstn_length. lia. }
    destruct H2 as [F S]. apply hash_inj in S. f_equal.
    rewrite <- (firstn_skipn 6 r), <- (firstn_skipn 6 r'). congruence.
  Qed.

  (* M is the tree image of the state s: exactly the bindings tree_key k |-> hash v for the bindings k |-> v of s;
     in particular a key that is not in s (deleted) contributes nothing *)
  Definition img (s : store) (M : list (Spec.key * bytes)) : Prop :=
    forall tk hv, mget tk M = Some hv <-> exists k v, lookup s k = Some v /\ tkey k = Some tk /\ hv = hash v.
  Definition allwf (s : store) : Prop := forall k v, lookup s k = Some v -> wfkey k.

  Lemma img_mget_eq : forall s s' M M', img s M -> img s' M' -> (forall k, lookup s k = lookup s' k) ->
    forall tk, mget tk M = mget tk M'.
  Proof.
    intros s s' M M' I I' E tk.
    destruct (mget tk M) as [hv|] eqn:A.
    - apply I in A. destruct A as [k [v [A1 A2]]]. rewrite E in A1. symmetry. apply I'. eauto.
    - destruct (mget tk M') as [hv|] eqn:B; auto.
      apply I' in B. destruct B as [k [v [B1 B2]]]. rewrite <- E in B1.
      assert (mget tk M = Some hv) by (apply I; eauto). congruence.
  Qed.

  Lemma img_ext : forall s s' M, img s M -> (forall k, lookup s k = lookup s' k) -> img s' M.
  Proof. intros s s' M I E tk hv. rewrite (I tk hv). split; intros [k [v [A B]]]; exists k, v; rewrite E in *; auto. Qed.

  Lemma img_write : forall s M w t, allwf s -> img s M -> wfkey (wkey w) -> tree_key hash (wkey w) = Some t ->
    img (apply_write s w) (map_apply M (enc t, option_map hash (wval w))) /\ allwf (apply_write s w).
  Proof.
    intros s M w t W I Hk Ht.
    assert (Tk : tkey (wkey w) = Some (enc t)) by (unfold tkey; rewrite Ht; auto).
    split.
    - intros tk hv. rewrite mget_map_apply. simpl fst. simpl snd.
      destruct (Spec.key_eqb tk (enc t)) eqn:E.
      + apply skey_eqb_eq in E. subst tk. split.
        * intro H. exists (wkey w). destruct w; simpl in H; try discriminate. inversion H; subst.
          exists v. rewrite apply_write_lookup. simpl. rewrite bytes_eqb_refl. auto.
        * intros [k [v [A [B C]]]].
          assert (k = wkey w).
          { apply (tkey_inj k (wkey w) (enc t)); auto.
            rewrite apply_write_lookup in A. destruct w; simpl in *; destruct (bytes_eqb k0 k) eqn:Q;
              try (apply bytes_eqb_eq in Q; subst; auto); try discriminate; eapply W; eauto. }
          subst k. rewrite apply_write_lookup in A. destruct w; simpl in *; rewrite bytes_eqb_refl in A; inversion A; subst; auto.
      + rewrite (I tk hv). split; intros [k [v [A [B C]]]]; exists k, v; (split; [|auto]).
        * rewrite apply_write_lookup.
          assert (wkey w <> k) by (intro; subst; rewrite Tk in B; inversion B; subst; rewrite skey_eqb_refl in E; discriminate).
          destruct w; simpl in *; rewrite bytes_eqb_neq; auto.
        * rewrite apply_write_lookup in A.
          assert (wkey w <> k) by (intro; subst; rewrite Tk in B; inversion B; subst; rewrite skey_eqb_refl in E; discriminate).
          destruct w; simpl in *; rewrite bytes_eqb_neq in A; auto.
    - intros k v A. rewrite apply_write_lookup in A.
      destruct w; simpl in *; destruct (bytes_eqb k0 k) eqn:Q; try (apply bytes_eqb_eq in Q; subst; auto); try discriminate; eapply W; eauto.
  Qed.

  (* a list of writes with distinct, well-formed keys: the batch handed to the tree keeps the tree image in step *)
  Lemma writes_step : forall ws s M, allwf s -> img s M -> NoDup (map wkey ws) -> (forall w, In w ws -> wfkey (wkey w)) ->
    exists ops, tree_updates ws = Some ops /\
                img (apply_writes s ws) (fold_left map_apply ops M) /\ allwf (apply_writes s ws) /\
                (forall o, In o ops -> exists w, In w ws /\ tkey (wkey w) = Some (fst o)) /\
                NoDup (map fst ops).
  Proof.
    induction ws as [|w ws]; intros s M W I ND Hw.
    - exists []. simpl. repeat split; auto. + intros o []. + constructor.
    - inversion ND; subst.
      destruct (wfkey_tree_key (wkey w)) as [t Ht]. { apply Hw; left; auto. }
      destruct (img_write s M w t W I) as [I1 W1]; auto. { apply Hw; left; auto. }
      destruct (IHws (apply_write s w) (map_apply M (enc t, option_map hash (wval w))) W1 I1 H2) as [ops [E [I2 [W2 [K2 N2]]]]].
      { intros; apply Hw; right; auto. }
      exists ((enc t, option_map hash (wval w)) :: ops).
      assert (Tk : tkey (wkey w) = Some (enc t)) by (unfold tkey; rewrite Ht; auto).
      split; [|split; [|split; [|split]]].
      + simpl. destruct w; simpl in *; rewrite Ht, E; auto.
      + simpl. exact I2.
      + exact W2.
      + intros o [Ho|Ho]. * subst. exists w. split; [left; auto | auto]. * destruct (K2 o Ho) as [w' [A B]]. exists w'. split; [right; auto|auto].
      + simpl. constructor; auto. intro Hin. apply in_map_iff in Hin. destruct Hin as [o [Eo Ho]].
        destruct (K2 o Ho) as [w' [A B]]. rewrite Eo in B.
        assert (wkey w' = wkey w). { apply (tkey_inj _ _ (enc t)); auto. - apply Hw; right; auto. - apply Hw; left; auto. }
        apply H1. rewrite <- H. apply in_map; auto.
  Qed.

  (* the application database is consistent with a history of tree batches *)
  Definition Inv (a : appdb) (hist : list (list (@op bytes))) : Prop :=
    a_tree a = fold_left tree_update hist tree_empty /\ keys_ok n hist /\
    img (a_state a) (fold_left map_batch hist []) /\ allwf (a_state a).

  Lemma inv_step : forall a hist ws, Inv a hist -> NoDup (map wkey ws) -> (forall w, In w ws -> wfkey (wkey w)) ->
    exists ops, tree_updates ws = Some ops /\
      forall diffs ts, Inv {| a_state := apply_writes (a_state a) ws; a_tree := tree_update (a_tree a) ops; a_diffs := diffs;
                              a_tree_state := ts |} (hist ++ [ops]).
  Proof.
    intros a hist ws [T [K [I W]]] ND Hw.
    destruct (writes_step ws (a_state a) _ W I ND Hw) as [ops [E [I2 [W2 [K2 N2]]]]].
    exists ops. split; auto. intros diffs ts. unfold Inv. simpl.
    rewrite !fold_left_app. simpl. split; [rewrite T; auto|]. split; [|split; auto].
    - intros b o Hb Ho. apply in_app_or in Hb. destruct Hb as [Hb|[Hb|[]]]. + eapply K; eauto.
      + subst b. destruct (K2 o Ho) as [w [A B]]. unfold tkey in B.
        destruct (tree_key hash (wkey w)) eqn:Q; simpl in B; inversion B. eapply enc_len; eauto.
    - unfold map_batch. rewrite dedupe_id; auto.
  Qed.

  (* the root of a consistent database is the root of ANY history of batches that builds the tree image of its state —
     e.g. of the single batch that inserts the whole state into an empty tree *)
  Lemma inv_root_unique : forall a hist, Inv a hist ->
    forall h2, keys_ok n h2 -> img (a_state a) (fold_left map_batch h2 []) ->
    tree_root (a_tree a) = tree_root (fold_left tree_update h2 tree_empty).
  Proof.
    intros a hist [T [K [I W]]] h2 K2 I2. rewrite T. apply H_C10; auto.
    eapply img_mget_eq; eauto.
  Qed.

  (* two consistent databases with the same state (as a map) have the same root *)
  Lemma inv_same_state_same_root : forall a hist a' hist', Inv a hist -> Inv a' hist' ->
    (forall k, lookup (a_state a) k = lookup (a_state a') k) -> tree_root (a_tree a) = tree_root (a_tree a').
  Proof.
    intros a hist a' hist' [T [K [I W]]] [T' [K' [I' W']]] E. rewrite T, T'. apply H_C10; auto.
    eapply img_mget_eq; eauto.
  Qed.
End RootFacts.
