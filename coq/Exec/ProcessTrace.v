(* C03 — processValidated as an ordered list of STAGES: a check (None = passes) followed by the effects the code performs right
   after it, in the order of pkg/consensus/execute.go.  Effects are the things a rejected block must not leave behind: the
   application commit (ABI Commit), the engine-database write (Chain.AddBlock -> database.Write(batch)), the cache push and the
   publications.  The staged consensus store and the batch are in memory only and are not effects.  Definitions only. *)
From Coq Require Import List NArith Bool.
From LE Require Import BFT.ForkChoice Exec.VerifyBlock Exec.Process.
Import ListNotations.
Local Open Scope N_scope.

Inductive eff :=
| EAbiCommit (root : bstr)                          (* abi.Commit succeeded: the application holds this state root *)
| EDbWrite (b : block) (cs : cstore) (fin : N)      (* database.Write(batch): block, indexes, consensus store, diff, finalized height *)
| ECachePush                                        (* dataAccess.Cache(block) *)
| EPublish (p : pub).

Definition stage := (option rule * list eff)%type.
Definition chk (ok : bool) (r : rule) : option rule := if ok then None else Some r.

(* Chain.AddBlock returns the error of the cache push AFTER the batch has been written (and after abi.Commit) *)
Inductive trace_outcome := TAccepted | TRejected (r : rule) | TCommittedThenCacheError.

Definition pv_stages (s : node) (tip : header) (b : block) (v : venv) (x : xenv) (cache_ok : bool) : list stage :=
  let h := b_header b in
  let raise := n_finalized s <? xe_post_precommit x in
  let fin' := if raise then xe_post_precommit x else n_finalized s in
  [ (verify_block tip b v, []);                                                      (* verifyBlock *)
    (chk (xe_abi_init_ok x) RAbiInit, []);                                           (* newBlockExecuteABI *)
    (chk (xe_abi_verify_assets_ok x) RAbiVerifyAssets, []);                          (* abi.Verify *)
    (chk (xe_bft_ok x) RBftExec, []);                                                (* abi.Execute ... *)
    (chk (xe_abi_before_ok x) RAbiBefore, []);
    (tx_loop (length (b_txs b)) (xe_tx x), []);
    (chk (xe_abi_after_ok x) RAbiAfter, []);
    (chk (negb (xe_params_changed x) || xe_set_params_ok x) RSetParams, []);
    (chk (beq (xe_post_vhash x) (h_vhash h)) RVhash, []);                            (* validatorsHash *)
    (chk (xe_nevents x <=? max_events) RNEvents, []);
    (chk (beq (xe_eventroot x) (h_eventroot h)) REventRoot, []);                     (* event root *)
    (chk (xe_abi_commit_ok x) RAbiCommit, [EAbiCommit (h_stateroot h)]);             (* abi.Commit: the LAST check *)
    (None, [EDbWrite b (xe_post_cs x) fin']);                                        (* Chain.AddBlock: database.Write(batch) *)
    (None, if cache_ok then [ECachePush] else []);                                   (* ... then the cache push *)
    (None, if cache_ok
           then map EPublish ((if raise then [PFinalize (n_finalized s) (xe_post_precommit x) (h_id h)] else [])
                              ++ [PNew (h_id h) (xe_nevents x)] ++ (if xe_params_changed x then [PValidators] else []))
           else []) ].

Fixpoint run_stages (l : list stage) (acc : list eff) : option rule * list eff :=
  match l with
  | [] => (None, acc)
  | (Some r, _) :: _ => (Some r, acc)
  | (None, e) :: rest => run_stages rest (acc ++ e)
  end.

Definition apply_eff (s : node) (e : eff) : node :=
  match e with
  | EAbiCommit root => mkNode (n_chain s) (n_cs s) (n_finalized s) (n_emitted s) root
  | EDbWrite b cs fin => mkNode (n_chain s ++ [b]) cs fin (n_emitted s) (n_app s)
  | ECachePush => s
  | EPublish p => mkNode (n_chain s) (n_cs s) (n_finalized s) (n_emitted s ++ [p]) (n_app s)
  end.
Definition apply_effs (s : node) (l : list eff) : node := fold_left apply_eff l s.

Definition pv_trace (s : node) (b : block) (v : venv) (x : xenv) (cache_ok : bool) : trace_outcome * list eff :=
  match tip_header s with
  | None => (TRejected RVersion, [])          (* no tip: the Go code dereferences nil; never a commit (see process_validated NoTip) *)
  | Some tip =>
    match run_stages (pv_stages s tip b v x cache_ok) [] with
    | (Some r, acc) => (TRejected r, acc)
    | (None, acc) => (if cache_ok then TAccepted else TCommittedThenCacheError, acc)
    end
  end.
