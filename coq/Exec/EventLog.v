(* Model of pkg/statemachine/event_logger.go (after fix fd5ce42: Add records revertible events).
   Module / name / data / topics are opaque payload (N codes and byte lists); Event.Validate is the input flag [ev_ok]
   of an event request.  Index is uint32(len(l.events)); logs hold far fewer than 2^32 events. *)
From Coq Require Import List NArith Bool Arith.
Import ListNotations.
Local Open Scope N_scope.

Record event := { ev_module : N; ev_name : N; ev_data : list N; ev_topics : list N; ev_height : N; ev_index : N }.
Record logged := { le_event : event; le_norevert : bool }.
(* snapshotIndex = -1 is None *)
Record logger := { lg_events : list logged; lg_snapshot : option nat; lg_height : N; lg_topic : option N }.

(* what a caller passes to Add / AddUnrevertible *)
Record ev_req := { rq_module : N; rq_name : N; rq_data : list N; rq_topics : list N; rq_ok : bool }.

Definition new_logger (height : N) : logger :=
  {| lg_events := []; lg_snapshot := None; lg_height := height; lg_topic := None |}.

Definition set_default_topic (l : logger) (t : N) : logger :=
  {| lg_events := lg_events l; lg_snapshot := lg_snapshot l; lg_height := lg_height l; lg_topic := Some t |}.

(* createEvent: error when no default topic is set or the event does not validate *)
Definition create_event (l : logger) (r : ev_req) : option event :=
  match lg_topic l with
  | None => None
  | Some t =>
      if rq_ok r then
        Some {| ev_module := rq_module r; ev_name := rq_name r; ev_data := rq_data r; ev_topics := t :: rq_topics r;
                ev_height := lg_height l; ev_index := N.of_nat (length (lg_events l)) |}
      else None
  end.

Definition push (l : logger) (x : logged) : logger :=
  {| lg_events := lg_events l ++ [x]; lg_snapshot := lg_snapshot l; lg_height := lg_height l; lg_topic := lg_topic l |}.

(* Add / AddUnrevertible: None = error returned, logger unchanged *)
Definition add (l : logger) (r : ev_req) : option logger :=
  match create_event l r with None => None | Some e => Some (push l {| le_event := e; le_norevert := false |}) end.
Definition add_unrevertible (l : logger) (r : ev_req) : option logger :=
  match create_event l r with None => None | Some e => Some (push l {| le_event := e; le_norevert := true |}) end.

Definition create_snapshot (l : logger) : logger :=
  {| lg_events := lg_events l; lg_snapshot := Some (length (lg_events l)); lg_height := lg_height l; lg_topic := lg_topic l |}.

Definition reindex (e : event) (i : nat) : event :=
  {| ev_module := ev_module e; ev_name := ev_name e; ev_data := ev_data e; ev_topics := ev_topics e;
     ev_height := ev_height e; ev_index := N.of_nat i |}.

(* the noRevert events among [new], re-indexed from [base] *)
Fixpoint keep_norevert (new : list logged) (base : nat) : list logged :=
  match new with
  | [] => []
  | x :: t => if le_norevert x
              then {| le_event := reindex (le_event x) base; le_norevert := true |} :: keep_norevert t (S base)
              else keep_norevert t base
  end.

Definition restore_snapshot (l : logger) : logger :=
  match lg_snapshot l with
  | None => l
  | Some n =>
      {| lg_events := firstn n (lg_events l) ++ keep_norevert (skipn n (lg_events l)) n;
         lg_snapshot := None; lg_height := lg_height l; lg_topic := lg_topic l |}
  end.

Definition events (l : logger) : list event := map le_event (lg_events l).

(* block level (pkg/consensus/abi_caller.go Execute, pkg/generator/abi_caller.go Events): the events answered by
   BeforeTransactionsExecute, by every ExecuteTransaction (each numbered from 0 by its own logger) and by
   AfterTransactionsExecute are concatenated and renumbered by Events.UpdateIndex *)
Fixpoint update_index_from (evs : list event) (i : nat) : list event :=
  match evs with [] => [] | e :: t => reindex e i :: update_index_from t (S i) end.
Definition update_index (evs : list event) : list event := update_index_from evs 0.
Definition block_events (before : list event) (txs : list (list event)) (after : list event) : list event :=
  update_index (before ++ concat txs ++ after).
