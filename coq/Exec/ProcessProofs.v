(* C03 — proofs about Exec/VerifyBlock.v and Exec/Process.v *)
From Coq Require Import List NArith Bool Lia.
From LE Require Import BFT.ForkChoice Exec.VerifyBlock Exec.Process.
Import ListNotations.
Local Open Scope N_scope.

Lemma beq_eq : forall a b, beq a b = true <-> a = b.
Proof.
  intros [l1 c1] [l2 c2]; unfold beq; cbn. rewrite andb_true_iff, !N.eqb_eq. split.
  - intros [-> ->]; reflexivity.
  - intros H; inversion H; auto.
Qed.

Lemma beq_sym : forall a b, beq a b = beq b a.
Proof. intros [l1 c1] [l2 c2]; unfold beq; cbn. now rewrite (N.eqb_sym l1), (N.eqb_sym c1). Qed.

Lemma forallb_Forall_true : forall A (f : A -> bool) l, forallb f l = true <-> Forall (fun a => f a = true) l.
Proof.
  intros A f l; induction l as [|a l IH]; cbn.
  - split; auto.
  - rewrite andb_true_iff, IH. split.
    + intros [H1 H2]; constructor; auto.
    + intros H; inversion H; auto.
Qed.

Lemma tx_loop_none : forall n ans,
  tx_loop n ans = None <-> forallb (fun a => fst a && snd a) (firstn n ans) = true.
Proof.
  induction n as [|n IH]; intros ans; cbn.
  - tauto.
  - destruct ans as [|[v x] rest]; cbn; [tauto|].
    destruct v, x; cbn; try (split; [discriminate|discriminate]).
    + apply IH.
Qed.

(* ---------------- boolean oracle = declarative Prop ---------------- *)
Lemma agg_commit_ok_ok : forall h v, agg_commit_ok h v = true <-> valid_aggregate_commit h v.
Proof.
  intros h v. unfold agg_commit_ok, valid_aggregate_commit.
  destruct (N.eqb_spec (b_len (h_agg_bits h)) 0) as [Eb|Eb];
  destruct (N.eqb_spec (b_len (h_agg_sig h)) 0) as [Es|Es]; cbn [andb orb].
  - destruct (N.eqb_spec (h_agg_height h) (ve_mh_cert v)) as [Eh|Eh].
    + split; auto.
    + split; [discriminate|]. intros [[_ [_ H]]|[H _]]; congruence.
  - split; [discriminate|]. intros [[_ [H _]]|[H _]]; congruence.
  - split; [discriminate|]. intros [[H _]|[_ [H _]]]; congruence.
  - destruct (N.leb_spec (h_agg_height h) (ve_mh_cert v)) as [E1|E1].
    { split; [discriminate|]. intros [[H _]|[_ [_ [H _]]]]; [congruence|lia]. }
    destruct (N.ltb_spec (ve_mh_precommit v) (h_agg_height h)) as [E2|E2].
    { split; [discriminate|]. intros [[H _]|[_ [_ [_ [H _]]]]]; [congruence|lia]. }
    destruct (ve_next_params v) as [np|].
    + destruct (N.ltb_spec (sub32 np 1) (h_agg_height h)) as [E3|E3].
      { split; [discriminate|]. intros [[H _]|[_ [_ [_ [_ [H _]]]]]]; [congruence|]. specialize (H np eq_refl). lia. }
      rewrite andb_true_iff. split.
      * intros [H1 H2]. right. repeat split; auto. intros np' Hn; inversion Hn; subst; auto.
      * intros [[H _]|[_ [_ [_ [_ [_ [H1 H2]]]]]]]; [congruence|auto].
    + rewrite andb_true_iff. split.
      * intros [H1 H2]. right. repeat split; auto. discriminate.
      * intros [[H _]|[_ [_ [_ [_ [_ [H1 H2]]]]]]]; [congruence|auto].
Qed.

Lemma assigned_generator_b_ok : forall v h, assigned_generator_b v h = true <-> assigned_generator v h.
Proof.
  intros v h; unfold assigned_generator_b, assigned_generator. rewrite andb_true_iff.
  destruct (nth_error _ _) as [g|].
  - rewrite beq_eq. split; intros [H1 H2]; split; auto; congruence.
  - split; intros [H1 H2]; discriminate.
Qed.

Lemma execution_ok_b_ok : forall b x, execution_ok_b b x = true <-> execution_ok b x.
Proof.
  intros b x; unfold execution_ok_b, execution_ok.
  rewrite !andb_true_iff, orb_true_iff, negb_true_iff, N.leb_le, forallb_Forall_true.
  assert (HF : Forall (fun a : bool * bool => fst a && snd a = true) (firstn (length (b_txs b)) (xe_tx x)) <->
               Forall (fun a : bool * bool => fst a = true /\ snd a = true) (firstn (length (b_txs b)) (xe_tx x))).
  { split; apply Forall_impl; intros a; rewrite andb_true_iff; auto. }
  rewrite HF. destruct (xe_params_changed x), (xe_set_params_ok x); intuition congruence.
Qed.

Theorem valid_block_b_ok : forall tip b p v x, valid_block_b tip b p v x = true <-> valid_block tip b p v x.
Proof.
  intros tip b p v x; unfold valid_block_b, valid_block; cbv zeta.
  rewrite !andb_true_iff, !N.eqb_eq, !beq_eq, N.ltb_lt, !N.leb_le, negb_true_iff,
          assigned_generator_b_ok, execution_ok_b_ok, forallb_Forall_true, agg_commit_ok_ok.
  tauto.
Qed.

(* ---------------- the code (ordered checks) accepts exactly the rule list ---------------- *)
Lemma block_validate_none : forall b p,
  block_validate b p = None <->
  header_static (b_header b) = true /\ forallb tx_static (b_txs b) = true /\
  beq (h_txroot (b_header b)) (pe_txroot p) = true /\
  strictly_sorted (map as_module (b_assets b)) = true /\ beq (h_assetroot (b_header b)) (pe_assetroot p) = true.
Proof.
  intros b p; unfold block_validate.
  destruct (header_static _); cbn; [|split; [discriminate|intuition congruence]].
  destruct (forallb _ _); cbn; [|split; [discriminate|intuition congruence]].
  destruct (beq (h_txroot _) _); cbn; [|split; [discriminate|intuition congruence]].
  destruct (strictly_sorted _); cbn; [|split; [discriminate|intuition congruence]].
  destruct (beq (h_assetroot _) _); cbn; [|split; [discriminate|intuition congruence]].
  tauto.
Qed.

Lemma verify_block_none : forall tip b v,
  verify_block tip b v = None <->
  (h_version (b_header b) =? 2) = true /\ (payload_size b <=? ve_max_payload v) = true /\
  (h_height (b_header b) =? u32 (h_height tip + 1)) = true /\ beq (h_id tip) (h_prev (b_header b)) = true /\
  (slot_of v (h_timestamp (b_header b)) <=? slot_of v (ve_now v)) = true /\
  (slot_of v (h_timestamp tip) <? slot_of v (h_timestamp (b_header b))) = true /\
  assigned_generator_b v (b_header b) = true /\
  (h_mhp (b_header b) =? ve_node_mhp v) = true /\ ve_contradicting v = false /\ agg_commit_ok (b_header b) v = true /\ ve_sig_ok v = true.
Proof.
  intros tip b v; unfold verify_block, assigned_generator_b.
  destruct (h_version _ =? 2); cbn; [|split; [discriminate|intuition congruence]].
  rewrite (N.leb_antisym (ve_max_payload v) (payload_size b)).
  destruct (ve_max_payload v <? payload_size b); cbn; [split; [discriminate|intuition congruence]|].
  destruct (h_height _ =? _); cbn; [|split; [discriminate|intuition congruence]].
  destruct (beq (h_id tip) _); cbn; [|split; [discriminate|intuition congruence]].
  rewrite (N.leb_antisym (slot_of v (ve_now v)) (slot_of v (h_timestamp (b_header b)))).
  destruct (slot_of v (ve_now v) <? _); cbn; [split; [discriminate|intuition congruence]|].
  rewrite (N.ltb_antisym (slot_of v (h_timestamp (b_header b))) (slot_of v (h_timestamp tip))).
  destruct (slot_of v (h_timestamp (b_header b)) <=? _); cbn; [split; [discriminate|intuition congruence]|].
  destruct (ve_gen_lookup_ok v); cbn; [|split; [discriminate|intuition congruence]].
  destruct (ve_generators v) as [|g0 gs] eqn:Eg.
  { assert (Hn : forall k, nth_error (@nil bstr) k = None) by (intros [|k]; reflexivity).
    rewrite Hn. cbn. split; [discriminate|]. intros H; decompose [and] H; discriminate. }
  cbv iota. destruct (nth_error _ _) as [g|]; [|split; [discriminate|intuition congruence]].
  destruct (beq g _); cbn; [|split; [discriminate|intuition congruence]].
  destruct (h_mhp _ =? _); cbn; [|split; [discriminate|intuition congruence]].
  destruct (ve_contradicting v); cbn; [split; [discriminate|intuition congruence]|].
  destruct (agg_commit_ok (b_header b) v); cbn; [|split; [discriminate|intuition congruence]].
  destruct (ve_sig_ok v); cbn; [|split; [discriminate|intuition congruence]].
  tauto.
Qed.

Lemma execute_block_none : forall b x,
  execute_block b x = None <->
  execution_ok_b b x = true /\ beq (xe_post_vhash x) (h_vhash (b_header b)) = true /\
  beq (xe_eventroot x) (h_eventroot (b_header b)) = true.
Proof.
  intros b x; unfold execute_block, execution_ok_b.
  destruct (xe_abi_init_ok x); cbn; [|split; [discriminate|intuition congruence]].
  destruct (xe_abi_verify_assets_ok x); cbn; [|split; [discriminate|intuition congruence]].
  destruct (xe_bft_ok x); cbn; [|split; [discriminate|intuition congruence]].
  destruct (xe_abi_before_ok x); cbn; [|split; [discriminate|intuition congruence]].
  destruct (tx_loop _ _) eqn:Et.
  { assert (forallb (fun a => fst a && snd a) (firstn (length (b_txs b)) (xe_tx x)) <> true) as Hn.
    { intro Hc. apply tx_loop_none in Hc. congruence. }
    destruct (forallb _ _); [congruence|]. cbn. split; [discriminate|intuition congruence]. }
  apply tx_loop_none in Et. rewrite Et; cbn.
  destruct (xe_abi_after_ok x); cbn; [|split; [discriminate|intuition congruence]].
  destruct (xe_params_changed x), (xe_set_params_ok x); cbn;
    try (split; [discriminate|intuition congruence]).
  all: destruct (beq (xe_post_vhash x) _); cbn; [|split; [discriminate|intuition congruence]].
  all: rewrite (N.leb_antisym max_events (xe_nevents x)).
  all: destruct (max_events <? xe_nevents x); cbn; [split; [discriminate|intuition congruence]|].
  all: destruct (beq (xe_eventroot x) _); cbn; [|split; [discriminate|intuition congruence]].
  all: destruct (xe_abi_commit_ok x); cbn; [|split; [discriminate|intuition congruence]].
  all: tauto.
Qed.

Lemma receive_accepted_b : forall s tip b p v x, tip_header s = Some tip ->
  (fst (receive s b p v x) = Accepted <-> valid_block_b tip b p v x = true).
Proof.
  intros s tip b p v x Ht. unfold receive, process_validated. rewrite Ht.
  pose proof (block_validate_none b p) as HV. pose proof (verify_block_none tip b v) as HB.
  pose proof (execute_block_none b x) as HX.
  unfold valid_block_b; cbv zeta. rewrite !andb_true_iff, negb_true_iff.
  rewrite (beq_sym (h_prev (b_header b)) (h_id tip)), (beq_sym (h_eventroot (b_header b))), (beq_sym (h_vhash (b_header b))).
  destruct (block_validate b p) as [r|]; cbn.
  { split; [discriminate|]. intros H. assert (Some r = None) by (apply HV; tauto). discriminate. }
  destruct (verify_block tip b v) as [r|]; cbn.
  { split; [discriminate|]. intros H. assert (Some r = None) by (apply HB; tauto). discriminate. }
  destruct (execute_block b x) as [r|]; cbn.
  { split; [discriminate|]. intros H. assert (Some r = None) by (apply HX; tauto). discriminate. }
  split; [intros _|reflexivity].
  destruct HV as [HV _], HB as [HB _], HX as [HX _].
  specialize (HV eq_refl). specialize (HB eq_refl). specialize (HX eq_refl). tauto.
Qed.

(* accept_iff_rules *)
Theorem accept_iff_rules : forall s tip b p v x, tip_header s = Some tip ->
  (fst (receive s b p v x) = Accepted <-> valid_block tip b p v x).
Proof. intros. rewrite <- valid_block_b_ok. now apply receive_accepted_b. Qed.

(* reject_no_change: a block that is not accepted leaves every observable of the node as it was *)
Theorem reject_no_change : forall s b p v x, fst (receive s b p v x) <> Accepted -> snd (receive s b p v x) = s.
Proof.
  intros s b p v x. unfold receive, process_validated.
  destruct (block_validate b p); cbn; auto.
  destruct (tip_header s); cbn; auto.
  destruct (verify_block _ _ _); cbn; auto.
  destruct (execute_block _ _); cbn; auto. congruence.
Qed.

Theorem reject_no_change_pv : forall s b v x,
  fst (process_validated s b v x) <> Accepted -> snd (process_validated s b v x) = s.
Proof.
  intros s b v x. unfold process_validated.
  destruct (tip_header s); cbn; auto.
  destruct (verify_block _ _ _); cbn; auto.
  destruct (execute_block _ _); cbn; auto. congruence.
Qed.

(* accepted_is_append *)
Theorem accepted_is_append : forall s b p v x, fst (receive s b p v x) = Accepted ->
  let s' := snd (receive s b p v x) in
  n_chain s' = n_chain s ++ [b] /\
  n_cs s' = xe_post_cs x /\
  n_finalized s' = N.max (n_finalized s) (xe_post_precommit x) /\
  n_emitted s' = n_emitted s
                 ++ (if n_finalized s <? xe_post_precommit x
                     then [PFinalize (n_finalized s) (xe_post_precommit x) (h_id (b_header b))] else [])
                 ++ [PNew (h_id (b_header b)) (xe_nevents x)]
                 ++ (if xe_params_changed x then [PValidators] else []) /\
  n_app s' = h_stateroot (b_header b).
Proof.
  intros s b p v x. unfold receive, process_validated.
  destruct (block_validate b p); cbn; [discriminate|].
  destruct (tip_header s); cbn; [|discriminate].
  destruct (verify_block _ _ _); cbn; [discriminate|].
  destruct (execute_block _ _); cbn; [discriminate|]. intros _.
  repeat split.
  destruct (n_finalized s <? xe_post_precommit x) eqn:E.
  - apply N.ltb_lt in E. lia.
  - apply N.ltb_ge in E. lia.
Qed.

(* ---------------- process (fork choice dispatch) ---------------- *)
Definition accepted_p (o : proc_outcome) : bool := match o with PAccepted => true | _ => false end.

Lemma delete_tip_not_deleted : forall s d, fst (delete_tip s d) <> Deleted -> snd (delete_tip s d) = s.
Proof.
  intros s d. unfold delete_tip. destruct (rev (n_chain s)) as [|t rest]; cbn; auto.
  destruct (_ <=? _); cbn; auto. destruct (de_lookup_ok d); cbn; auto.
  destruct (de_abi_revert_ok d); cbn; auto. destruct rest; cbn; auto. congruence.
Qed.

(* outside the tie-break branch, a block that is not accepted changes nothing *)
Theorem process_reject_no_change_partial : forall s b k p v x t, k <> TieBreak ->
  accepted_p (fst (process s b k p v x t)) = false -> snd (process s b k p v x t) = s.
Proof.
  intros s b k p v x t Hk. destruct k; cbn; auto; try congruence.
  pose proof (reject_no_change s b p v x) as H.
  destruct (receive s b p v x) as [[|r|] s']; cbn in *; intros; auto; try discriminate; apply H; discriminate.
Qed.

(* in the tie-break branch chain, consensus store and finalized height are restored when the old tip is re-accepted with
   the consensus store it had, but Delete/New events have been published *)
(* What is ASSUMED about re-applying the old tip on the state from which it was just deleted: execution is deterministic, i.e. the
   answers are those of its first execution — the consensus store it produced is the one the node had, the precommitted height it
   produced is not above the finalized height the node already stored, and its state root is the application's current root. *)
Definition reexecution_deterministic (s : node) (t : tenv) (old : block) : Prop :=
  xe_post_cs (te_old_x t) = n_cs s /\
  xe_post_precommit (te_old_x t) <= n_finalized s /\
  h_stateroot (b_header old) = n_app s.

Theorem process_tiebreak_restores_state_partial : forall s b p v x t r s' old rest,
  rev (n_chain s) = old :: rest ->
  process s b TieBreak p v x t = (PTieRestored r, s') ->
  reexecution_deterministic s t old ->
  s' = mkNode (n_chain s) (n_cs s) (n_finalized s)
              (n_emitted s ++ [PDelete (h_id (b_header old)); PNew (h_id (b_header old)) (xe_nevents (te_old_x t))]
                           ++ (if xe_params_changed (te_old_x t) then [PValidators] else []))
              (n_app s).
Proof.
  intros s b p v x t r s' old rest Er. unfold process.
  destruct (block_validate b p); [discriminate|].
  rewrite Er. unfold delete_tip. rewrite Er.
  destruct (_ <=? _); [discriminate|]. destruct (de_lookup_ok _); [|discriminate]. destruct (de_abi_revert_ok _); [|discriminate].
  destruct rest as [|r0 rest]; [discriminate|]. cbn [negb fst snd].
  set (s1 := mkNode _ _ _ _ _).
  pose proof (reject_no_change_pv s1 b v x) as Hrej.
  destruct (process_validated s1 b v x) as [[|r1|] s2] eqn:E1; try discriminate.
  cbn in Hrej. rewrite (Hrej ltac:(discriminate)).
  unfold process_validated. destruct (tip_header s1); [|discriminate].
  destruct (verify_block _ _ _); [discriminate|]. destruct (execute_block _ _); [discriminate|].
  intros Heq [Hcs [Hpre Happ]]. inversion Heq; subst s'. clear Heq.
  unfold commit_block, s1; cbn [n_chain n_cs n_finalized n_emitted n_app].
  assert (Hc : n_chain s = rev (old :: r0 :: rest)) by (rewrite <- Er, rev_involutive; reflexivity).
  destruct (n_finalized s <? xe_post_precommit (te_old_x t)) eqn:E; [apply N.ltb_lt in E; lia|].
  rewrite Hcs, Happ, Hc. cbn [rev app]. rewrite <- !app_assoc. reflexivity.
Qed.
