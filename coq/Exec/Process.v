(* C03 — model of pkg/consensus/execute.go processValidated / deleteBlock / process (and abi_caller.go Execute).
   Node state = chain (list of blocks, tip last) + consensus store (abstract: an injective code of its content)
   + stored finalized height + events published so far.  Definitions only. *)
From Coq Require Import List NArith Bool.
From LE Require Import BFT.ForkChoice Exec.VerifyBlock.
Import ListNotations.
Local Open Scope N_scope.

Definition cstore := N.

Inductive pub :=
| PNew (id : bstr) (nev : N)
| PFinalize (orig next : N) (trigger : bstr)
| PDelete (id : bstr)
| PValidators.

(* n_app: state root the application last committed (ABI Commit), a trace a rejected block must not leave either *)
Record node := mkNode { n_chain : list block; n_cs : cstore; n_finalized : N; n_emitted : list pub; n_app : bstr }.

Inductive outcome := Accepted | Rejected (r : rule) | NoTip.

(* answers obtained while executing the block *)
Record xenv := mkXE {
  xe_abi_init_ok : bool;            (* InitStateMachine *)
  xe_abi_verify_assets_ok : bool;   (* VerifyAssets *)
  xe_bft_ok : bool;                 (* liskbft BeforeTransactionsExecute + getABIConsensus *)
  xe_abi_before_ok : bool;          (* ABI BeforeTransactionsExecute *)
  xe_tx : list (bool * bool);       (* per transaction: VerifyTransaction ok with result 1 ; ExecuteTransaction ok *)
  xe_abi_after_ok : bool;           (* AfterTransactionsExecute *)
  xe_params_changed : bool;         (* it returned thresholds or validators *)
  xe_set_params_ok : bool;          (* SetBFTParameters / SetGeneratorKeys accepted them *)
  xe_post_vhash : bstr;             (* validatorsHash of the parameters valid for height+1 in the post-state *)
  xe_nevents : N;                   (* number of events produced *)
  xe_eventroot : bstr;              (* CalculateEventRoot of them *)
  xe_post_precommit : N;            (* maxHeightPrecommited of the post-state *)
  xe_abi_commit_ok : bool;          (* ABI Commit (the application compares the state root) *)
  xe_post_cs : cstore }.            (* consensus store after the block *)

Definition max_events : N := 1073741824.

Fixpoint tx_loop (n : nat) (ans : list (bool * bool)) : option rule :=
  match n with
  | O => None
  | S n' =>
    match ans with
    | [] => None
    | (v, x) :: rest => if negb v then Some RTxVerify else if negb x then Some RTxExec else tx_loop n' rest
    end
  end.

Definition execute_block (b : block) (x : xenv) : option rule :=
  let h := b_header b in
  if negb (xe_abi_init_ok x) then Some RAbiInit
  else if negb (xe_abi_verify_assets_ok x) then Some RAbiVerifyAssets
  else if negb (xe_bft_ok x) then Some RBftExec
  else if negb (xe_abi_before_ok x) then Some RAbiBefore
  else match tx_loop (length (b_txs b)) (xe_tx x) with
       | Some r => Some r
       | None =>
         if negb (xe_abi_after_ok x) then Some RAbiAfter
         else if xe_params_changed x && negb (xe_set_params_ok x) then Some RSetParams
         else if negb (beq (xe_post_vhash x) (h_vhash h)) then Some RVhash
         else if max_events <? xe_nevents x then Some RNEvents
         else if negb (beq (xe_eventroot x) (h_eventroot h)) then Some REventRoot
         else if negb (xe_abi_commit_ok x) then Some RAbiCommit
         else None
       end.

Definition tip_header (s : node) : option header := option_map b_header (last (map Some (n_chain s)) None).

(* state after the single batch write + the publications that follow it *)
Definition commit_block (s : node) (b : block) (x : xenv) : node :=
  let h := b_header b in
  let raise := n_finalized s <? xe_post_precommit x in
  mkNode (n_chain s ++ [b]) (xe_post_cs x)
         (if raise then xe_post_precommit x else n_finalized s)
         (n_emitted s
          ++ (if raise then [PFinalize (n_finalized s) (xe_post_precommit x) (h_id h)] else [])
          ++ [PNew (h_id h) (xe_nevents x)]
          ++ (if xe_params_changed x then [PValidators] else []))
         (h_stateroot h).                 (* ABI Commit is the last check: it happens only when the block is accepted *)

Definition process_validated (s : node) (b : block) (v : venv) (x : xenv) : outcome * node :=
  match tip_header s with
  | None => (NoTip, s)
  | Some tip =>
    match verify_block tip b v with
    | Some r => (Rejected r, s)
    | None =>
      match execute_block b x with
      | Some r => (Rejected r, s)
      | None => (Accepted, commit_block s b x)
      end
    end
  end.

(* entry used by every caller: Block.Validate, then processValidated *)
Definition receive (s : node) (b : block) (p : payload_env) (v : venv) (x : xenv) : outcome * node :=
  match block_validate b p with
  | Some r => (Rejected r, s)
  | None => process_validated s b v x
  end.

(* ---- deleteBlock ---- *)
Inductive del_outcome := Deleted | DelFinalized | DelError.

Record denv := mkDE {
  de_lookup_ok : bool;      (* header at height-1, InitStateMachine, diff present and decodable *)
  de_abi_revert_ok : bool;
  de_prev_cs : cstore }.    (* consensus store with the block's diff reverted *)

Definition delete_tip (s : node) (d : denv) : del_outcome * node :=
  match rev (n_chain s) with
  | [] => (DelError, s)
  | t :: rest =>
    if h_height (b_header t) <=? n_finalized s then (DelFinalized, s)
    else if negb (de_lookup_ok d) then (DelError, s)
    else if negb (de_abi_revert_ok d) then (DelError, s)
    else match rest with
         | [] => (DelError, s)                                 (* genesis block cannot be removed *)
         | p :: _ => (Deleted, mkNode (rev rest) (de_prev_cs d) (n_finalized s) (n_emitted s ++ [PDelete (h_id (b_header t))])
                                      (h_stateroot (b_header p)))      (* ABI Revert to the previous block's state root *)
         end
  end.

(* ---- process: fork-choice dispatch (the class is C07's [classify], an input here) ---- *)
Inductive proc_outcome := PAccepted | PRejected (r : rule) | PIgnored | PSync | PDelFailed | PNoTip
                        | PTieRestored (r : rule)        (* tie-break block rejected, previous tip re-applied *)
                        | PTieLost (r r2 : rule).        (* ... and re-applying the previous tip failed as well *)

Definition lift (o : outcome * node) : proc_outcome * node :=
  match o with
  | (Accepted, s) => (PAccepted, s)
  | (Rejected r, s) => (PRejected r, s)
  | (NoTip, s) => (PNoTip, s)
  end.

(* env of the tie-break branch: deletion of the tip, and re-application of the old tip if the new block fails *)
Record tenv := mkTE { te_del : denv; te_old_v : venv; te_old_x : xenv }.

Definition process (s : node) (b : block) (k : fc_case) (p : payload_env) (v : venv) (x : xenv) (t : tenv)
  : proc_outcome * node :=
  match k with
  | Identical | DoubleForging | Discard => (PIgnored, s)
  | ValidBlock => lift (receive s b p v x)
  | DifferentChain => (PSync, s)             (* sync = a sequence of Apply / DeleteTip steps, see Chain/Finality.v *)
  | TieBreak =>
    match block_validate b p with
    | Some r => (PRejected r, s)
    | None =>
      match rev (n_chain s) with
      | [] => (PNoTip, s)
      | old :: _ =>
        match delete_tip s (te_del t) with
        | (Deleted, s1) =>
          match process_validated s1 b v x with
          | (Accepted, s2) => (PAccepted, s2)
          | (NoTip, s2) => (PNoTip, s2)
          | (Rejected r, s2) =>
            match process_validated s2 old (te_old_v t) (te_old_x t) with
            | (Accepted, s3) => (PTieRestored r, s3)
            | (Rejected r2, s3) => (PTieLost r r2, s3)
            | (NoTip, s3) => (PNoTip, s3)
            end
          end
        | (_, s1) => (PDelFailed, s1)
        end
      end
    end
  end.

(* ---- the declarative rule list of the property statement ---- *)
Definition assigned_generator (v : venv) (h : header) : Prop :=
  ve_gen_lookup_ok v = true /\
  nth_error (ve_generators v) (N.to_nat (slot_of v (h_timestamp h) mod N.of_nat (length (ve_generators v)))) = Some (h_gen h).

(* "a valid aggregate commit": empty at the last certified height, or a genuine one strictly above it, not above the
   precommitted height, below the next change of BFT parameters, whose weighted BLS aggregate verifies *)
Definition valid_aggregate_commit (h : header) (v : venv) : Prop :=
  (b_len (h_agg_bits h) = 0 /\ b_len (h_agg_sig h) = 0 /\ h_agg_height h = ve_mh_cert v) \/
  (b_len (h_agg_bits h) <> 0 /\ b_len (h_agg_sig h) <> 0 /\
   ve_mh_cert v < h_agg_height h /\ h_agg_height h <= ve_mh_precommit v /\
   (forall np, ve_next_params v = Some np -> h_agg_height h <= sub32 np 1) /\
   ve_agg_lookup_ok v = true /\ ve_agg_bls_ok v = true).

Definition execution_ok (b : block) (x : xenv) : Prop :=
  xe_abi_init_ok x = true /\ xe_abi_verify_assets_ok x = true /\ xe_bft_ok x = true /\ xe_abi_before_ok x = true /\
  Forall (fun a => fst a = true /\ snd a = true) (firstn (length (b_txs b)) (xe_tx x)) /\
  xe_abi_after_ok x = true /\ (xe_params_changed x = true -> xe_set_params_ok x = true) /\
  xe_nevents x <= max_events /\ xe_abi_commit_ok x = true.

Definition valid_block (tip : header) (b : block) (p : payload_env) (v : venv) (x : xenv) : Prop :=
  let h := b_header b in
  (* version *)                      h_version h = 2 /\
  (* consecutive height, link *)     h_height h = u32 (h_height tip + 1) /\ h_prev h = h_id tip /\
  (* strictly later, not future *)   slot_of v (h_timestamp tip) < slot_of v (h_timestamp h) /\
                                     slot_of v (h_timestamp h) <= slot_of v (ve_now v) /\
  (* the slot's generator *)         assigned_generator v h /\
  (* its signature, this chain ID *) ve_sig_ok v = true /\
  (* maxHeightPrevoted *)            h_mhp h = ve_node_mhp v /\
  (* no contradiction *)             ve_contradicting v = false /\
  (* aggregate commit *)             valid_aggregate_commit h v /\
  (* roots match the content *)      h_txroot h = pe_txroot p /\ h_assetroot h = pe_assetroot p /\
                                     strictly_sorted (map as_module (b_assets b)) = true /\
  (* ... and the execution result *) h_eventroot h = xe_eventroot x /\ h_vhash h = xe_post_vhash x /\ execution_ok b x /\
  (* payload *)                      Forall (fun t => tx_static t = true) (b_txs b) /\ payload_size b <= ve_max_payload v /\
  (* static header lengths *)        header_static h = true.

(* boolean version of the same list (used as the oracle in the correspondence) *)
Definition execution_ok_b (b : block) (x : xenv) : bool :=
  xe_abi_init_ok x && xe_abi_verify_assets_ok x && xe_bft_ok x && xe_abi_before_ok x &&
  forallb (fun a => fst a && snd a) (firstn (length (b_txs b)) (xe_tx x)) &&
  xe_abi_after_ok x && (negb (xe_params_changed x) || xe_set_params_ok x) &&
  (xe_nevents x <=? max_events) && xe_abi_commit_ok x.

Definition assigned_generator_b (v : venv) (h : header) : bool :=
  ve_gen_lookup_ok v &&
  match nth_error (ve_generators v) (N.to_nat (slot_of v (h_timestamp h) mod N.of_nat (length (ve_generators v)))) with
  | Some g => beq g (h_gen h)
  | None => false
  end.

Definition valid_block_b (tip : header) (b : block) (p : payload_env) (v : venv) (x : xenv) : bool :=
  let h := b_header b in
  (h_version h =? 2) && (h_height h =? u32 (h_height tip + 1)) && beq (h_prev h) (h_id tip) &&
  (slot_of v (h_timestamp tip) <? slot_of v (h_timestamp h)) && (slot_of v (h_timestamp h) <=? slot_of v (ve_now v)) &&
  assigned_generator_b v h && ve_sig_ok v && (h_mhp h =? ve_node_mhp v) && negb (ve_contradicting v) && agg_commit_ok h v &&
  beq (h_txroot h) (pe_txroot p) && beq (h_assetroot h) (pe_assetroot p) &&
  strictly_sorted (map as_module (b_assets b)) &&
  beq (h_eventroot h) (xe_eventroot x) && beq (h_vhash h) (xe_post_vhash x) && execution_ok_b b x &&
  forallb tx_static (b_txs b) && (payload_size b <=? ve_max_payload v) && header_static h.
