(* Model of pkg/framework/state_batch.go (stateSMTBatch, getTreeKey; after fix a73052f: Del passes an empty value) and of
   ABIHandler.Commit / ABIHandler.revert in pkg/framework/handler.go (after fix 8805a3b), relative to an abstract sparse
   Merkle tree (tree states, batch update, root; see the Section variables — C10 is about exactly these).
   The hash is a Section variable. *)
From Coq Require Import List NArith Bool Arith.
From LE Require Import Exec.EventLog Exec.TxExec.
Import ListNotations.
Local Open Scope N_scope.

Record diff := { d_added : list bytes; d_updated : list (bytes * bytes); d_deleted : list (bytes * bytes) }.
Inductive write := WSet (k v : bytes) | WDel (k : bytes).

(* cacheDB.commit: one write per cache entry that changed something (Go iterates the map in random order; every
   consumer below is insensitive to the order) *)
Fixpoint commit_cache (c : cache) : list write * diff :=
  match c with
  | [] => ([], {| d_added := []; d_updated := []; d_deleted := [] |})
  | (k, e) :: t =>
      let (ws, d) := commit_cache t in
      match en_init e with
      | None => (WSet k (en_val e) :: ws, {| d_added := k :: d_added d; d_updated := d_updated d; d_deleted := d_deleted d |})
      | Some v0 =>
          if en_deleted e then
            (WDel k :: ws, {| d_added := d_added d; d_updated := d_updated d; d_deleted := (k, v0) :: d_deleted d |})
          else if en_dirty e then
            (WSet k (en_val e) :: ws, {| d_added := d_added d; d_updated := (k, v0) :: d_updated d; d_deleted := d_deleted d |})
          else (ws, d)
      end
  end.

(* Database.RevertDiff *)
Definition revert_writes (d : diff) : list write :=
  map WDel (d_added d) ++ map (fun kv => WSet (fst kv) (snd kv)) (d_deleted d) ++
  map (fun kv => WSet (fst kv) (snd kv)) (d_updated d).

Definition apply_write (s : store) (w : write) : store :=
  match w with WSet k v => put s k v | WDel k => remove s k end.
Definition apply_writes (s : store) (ws : list write) : store := fold_left apply_write ws s.

Section Root.
  Variable hash : bytes -> bytes.
  (* the sparse Merkle tree kept under prefix 1, abstractly: K = trie keys (bytes.ToBools of the tree key, [enc]),
     TR = tree states, one batch entry = (key, Some value-hash | None = empty value = delete);
     [tree_update] is Trie.Update on the stored tree, [tree_root] its root hash *)
  Variable K : Type.
  Variable enc : bytes -> K.
  Variable TR : Type.
  Variable R : Type.
  Variable root_eqb : R -> R -> bool.                             (* bytes.Equal on roots *)
  Variable tree_update : TR -> list (K * option bytes) -> TR.
  Variable tree_root : TR -> R.

  (* getTreeKey: keyBytes[1:7] ++ Hash(keyBytes[7:]); None = slice bounds panic (key shorter than 7 bytes) *)
  Definition tree_key (k : bytes) : option bytes :=
    if Nat.ltb (length k) 7 then None else Some (firstn 6 (skipn 1 k) ++ hash (skipn 7 k)).

  (* stateSMTBatch.Set / Del: what is handed to Trie.Update; Del passes the empty value (= delete the leaf) *)
  Fixpoint tree_updates (ws : list write) : option (list (K * option bytes)) :=
    match ws with
    | [] => Some []
    | w :: t =>
        let (k, v) := match w with WSet k v => (k, Some (hash v)) | WDel k => (k, None) end in
        match tree_key k, tree_updates t with
        | Some tk, Some r => Some ((enc tk, v) :: r)
        | _, _ => None
        end
    end.

  (* the application database: state (prefix 0), tree nodes (prefix 1), per-height diffs (prefix 2), tree state record
     (prefix 3) *)
  Record appdb := { a_state : store; a_tree : TR; a_diffs : list (N * diff); a_tree_state : option (N * R) }.

  Fixpoint diff_at (l : list (N * diff)) (h : N) : option diff :=
    match l with [] => None | (h', d) :: t => if h' =? h then Some d else diff_at t h end.
  Definition put_diff (l : list (N * diff)) (h : N) (d : diff) : list (N * diff) :=
    (h, d) :: filter (fun x => negb (fst x =? h)) l.

  (* CForeignRoot / RForeignRoot: the caller named a root that is not the root of the stored tree; what smt does with
     the nodes it finds (or not) under such a root is outside this model — the engine always passes the root of its tip *)
  Inductive cres := COk (a : appdb) (root : R) | CMismatch (root : R) | CPanic | CForeignRoot.

  (* ABIHandler.Commit for the staged cache [c] of the block at [height]; [expected] = None means "not given" (empty) *)
  Definition commit (a : appdb) (c : cache) (height : N) (prev_root : R) (expected : option R) (dry_run : bool) : cres :=
    let (ws, d) := commit_cache c in
    match tree_updates ws with
    | None => CPanic
    | Some ups =>
        if negb (root_eqb prev_root (tree_root (a_tree a))) then CForeignRoot else
        let t' := tree_update (a_tree a) ups in
        let root := tree_root t' in
        if match expected with Some x => negb (root_eqb root x) | None => false end then CMismatch root else
        if dry_run then COk a root else
        COk {| a_state := apply_writes (a_state a) ws; a_tree := t'; a_diffs := put_diff (a_diffs a) height d;
               a_tree_state := Some (height, root) |} root
    end.

  Inductive rres := ROk (a : appdb) (root : R) | RNoDiff | RMismatch (root : R) | RPanic | RForeignRoot.

  (* ABIHandler.revert(height, stateRoot, expectedStateRoot) *)
  Definition revert (a : appdb) (height : N) (state_root : R) (expected : option R) : rres :=
    match diff_at (a_diffs a) height with
    | None => RNoDiff
    | Some d =>
        let ws := revert_writes d in
        match tree_updates ws with
        | None => RPanic
        | Some ups =>
            if negb (root_eqb state_root (tree_root (a_tree a))) then RForeignRoot else
            let t' := tree_update (a_tree a) ups in
            let root := tree_root t' in
            if match expected with Some x => negb (root_eqb root x) | None => false end then RMismatch root else
            ROk {| a_state := apply_writes (a_state a) ws; a_tree := t'; a_diffs := a_diffs a;
                   a_tree_state := Some ((height + 2 ^ 32 - 1) mod 2 ^ 32, root) |} root
        end
    end.
  (* ABIHandler.Finalize(finalizedHeight): the diffs of the heights below it are deleted (height 0: nothing happens) *)
  Definition finalize (a : appdb) (fh : N) : appdb :=
    if fh =? 0 then a else
    {| a_state := a_state a; a_tree := a_tree a; a_diffs := filter (fun x => negb (fst x <? fh)) (a_diffs a);
       a_tree_state := a_tree_state a |}.
End Root.

Arguments a_state {TR R} _.
Arguments a_tree {TR R} _.
Arguments a_diffs {TR R} _.
Arguments a_tree_state {TR R} _.
Arguments Build_appdb {TR R} _ _ _ _.
Arguments COk {TR R} _ _.
Arguments CMismatch {TR R} _.
Arguments CPanic {TR R}.
Arguments CForeignRoot {TR R}.
Arguments ROk {TR R} _ _.
Arguments RNoDiff {TR R}.
Arguments RMismatch {TR R} _.
Arguments RPanic {TR R}.
Arguments RForeignRoot {TR R}.
Arguments finalize {TR R} _ _.
Arguments tree_updates _ {K} _ _.
Arguments commit _ {K} _ {TR R} _ _ _ _ _ _ _ _ _.
Arguments revert _ {K} _ {TR R} _ _ _ _ _ _ _.
