(* Model of pkg/framework/state_batch.go (stateSMTBatch, getTreeKey; after fix a73052f: Del passes an empty value) and of
   ABIHandler.Commit / ABIHandler.revert in pkg/framework/handler.go (after fix 8805a3b), relative to an abstract sparse
   Merkle tree: [smt_update root updates] is Trie.Update started from [root] (node storage is C10's concern).
   The hash is a Section variable. *)
From Coq Require Import List NArith Bool Arith.
From LE Require Import Exec.EventLog Exec.TxExec.
Import ListNotations.
Local Open Scope N_scope.

Record diff := { d_added : list bytes; d_updated : list (bytes * bytes); d_deleted : list (bytes * bytes) }.
Inductive write := WSet (k v : bytes) | WDel (k : bytes).

(* cacheDB.commit: one write per cache entry that changed something (Go iterates the map in random order; every
   consumer below is insensitive to the order) *)
Fixpoint commit_cache (c : cache) : list write * diff :=
  match c with
  | [] => ([], {| d_added := []; d_updated := []; d_deleted := [] |})
  | (k, e) :: t =>
      let (ws, d) := commit_cache t in
      match en_init e with
      | None => (WSet k (en_val e) :: ws, {| d_added := k :: d_added d; d_updated := d_updated d; d_deleted := d_deleted d |})
      | Some v0 =>
          if en_deleted e then
            (WDel k :: ws, {| d_added := d_added d; d_updated := d_updated d; d_deleted := (k, v0) :: d_deleted d |})
          else if en_dirty e then
            (WSet k (en_val e) :: ws, {| d_added := d_added d; d_updated := (k, v0) :: d_updated d; d_deleted := d_deleted d |})
          else (ws, d)
      end
  end.

(* Database.RevertDiff *)
Definition revert_writes (d : diff) : list write :=
  map WDel (d_added d) ++ map (fun kv => WSet (fst kv) (snd kv)) (d_deleted d) ++
  map (fun kv => WSet (fst kv) (snd kv)) (d_updated d).

Definition apply_write (s : store) (w : write) : store :=
  match w with WSet k v => put s k v | WDel k => remove s k end.
Definition apply_writes (s : store) (ws : list write) : store := fold_left apply_write ws s.

Section Root.
  Variable hash : bytes -> bytes.
  Variable R : Type.                                              (* state roots *)
  Variable root_eqb : R -> R -> bool.                             (* bytes.Equal on roots *)
  Variable smt_update : R -> list (bytes * bytes) -> R.

  (* getTreeKey: keyBytes[1:7] ++ Hash(keyBytes[7:]); None = slice bounds panic (key shorter than 7 bytes) *)
  Definition tree_key (k : bytes) : option bytes :=
    if Nat.ltb (length k) 7 then None else Some (firstn 6 (skipn 1 k) ++ hash (skipn 7 k)).

  (* stateSMTBatch.Set / Del: the (tree key, value) pairs handed to Trie.Update; empty value = delete the leaf *)
  Fixpoint tree_updates (ws : list write) : option (list (bytes * bytes)) :=
    match ws with
    | [] => Some []
    | w :: t =>
        let (k, v) := match w with WSet k v => (k, hash v) | WDel k => (k, []) end in
        match tree_key k, tree_updates t with
        | Some tk, Some r => Some ((tk, v) :: r)
        | _, _ => None
        end
    end.

  (* the application database: state (prefix 0), per-height diffs (prefix 2), tree state record (prefix 3);
     the tree nodes (prefix 1) are represented by the root they hash to *)
  Record appdb := { a_state : store; a_diffs : list (N * diff); a_tree_state : option (N * R) }.

  Fixpoint diff_at (l : list (N * diff)) (h : N) : option diff :=
    match l with [] => None | (h', d) :: t => if h' =? h then Some d else diff_at t h end.
  Definition put_diff (l : list (N * diff)) (h : N) (d : diff) : list (N * diff) :=
    (h, d) :: filter (fun x => negb (fst x =? h)) l.

  Inductive cres := COk (a : appdb) (root : R) | CMismatch (root : R) | CPanic.

  (* ABIHandler.Commit for the staged cache [c] of the block at [height]; [expected] = None means "not given" (empty) *)
  Definition commit (a : appdb) (c : cache) (height : N) (prev_root : R) (expected : option R) (dry_run : bool) : cres :=
    let (ws, d) := commit_cache c in
    match tree_updates ws with
    | None => CPanic
    | Some ups =>
        let root := smt_update prev_root ups in
        if match expected with Some x => negb (root_eqb root x) | None => false end then CMismatch root else
        if dry_run then COk a root else
        COk {| a_state := apply_writes (a_state a) ws; a_diffs := put_diff (a_diffs a) height d;
               a_tree_state := Some (height, root) |} root
    end.

  Inductive rres := ROk (a : appdb) (root : R) | RNoDiff | RMismatch (root : R) | RPanic.

  (* ABIHandler.revert(height, stateRoot, expectedStateRoot) *)
  Definition revert (a : appdb) (height : N) (state_root : R) (expected : option R) : rres :=
    match diff_at (a_diffs a) height with
    | None => RNoDiff
    | Some d =>
        let ws := revert_writes d in
        match tree_updates ws with
        | None => RPanic
        | Some ups =>
            let root := smt_update state_root ups in
            if match expected with Some x => negb (root_eqb root x) | None => false end then RMismatch root else
            ROk {| a_state := apply_writes (a_state a) ws; a_diffs := a_diffs a;
                   a_tree_state := Some ((height + 2 ^ 32 - 1) mod 2 ^ 32, root) |} root
        end
    end.
End Root.

Arguments a_state {R} _.
Arguments a_diffs {R} _.
Arguments a_tree_state {R} _.
Arguments Build_appdb {R} _ _ _.
Arguments COk {R} _ _.
Arguments CMismatch {R} _.
Arguments CPanic {R}.
Arguments ROk {R} _ _.
Arguments RNoDiff {R}.
Arguments RMismatch {R} _.
Arguments RPanic {R}.
Arguments commit _ {R} _ _ _ _ _ _ _ _.
Arguments revert _ {R} _ _ _ _ _ _.
