(* Model of transaction selection in pkg/generator: getSortedTransactionMapByNonce (selector.go) and
   selectTransactionsByFee (generator.go).

   Go state: a map sender -> remaining transactions (sorted by nonce) and a max-heap holding exactly the
   first remaining transaction of every sender still in the map.  Which of several heads with equal fee
   priority the heap yields depends on the heap layout and on Go map iteration order, so the selection is a
   RELATION: [valid_selection pool limit outcome trace out] holds when [trace] (the popped transactions that
   passed the size check, in order — exactly the transactions submitted to VerifyTransaction) is a possible
   pop sequence and [out] is the returned slice.

   Transactions carry sender, nonce, fee, size (> 0, set by Transaction.Init) and an identifying code.
   FeePriority = int(fee / uint64(size)), compared as uint64: the round trip is the identity. *)
From Coq Require Import List NArith Bool.
Import ListNotations.
Local Open Scope N_scope.

Record tx := { sender : N; nonce : N; fee : N; size : N; tid : N }.

Definition tx_eqb (a b : tx) : bool :=
  (sender a =? sender b) && (nonce a =? nonce b) && (fee a =? fee b) && (size a =? size b) && (tid a =? tid b).

Definition prio (t : tx) : N := fee t / size t.

(* sort.Slice(val, nonce asc) as a stable insertion (Go's sort is not stable: for equal nonces of one sender the
   Go order is unspecified; the transaction pool never offers two processable transactions with one nonce) *)
Fixpoint insert_nonce (t : tx) (l : list tx) : list tx :=
  match l with
  | [] => [t]
  | a :: r => if nonce t <? nonce a then t :: l else a :: insert_nonce t r
  end.

Definition queues : Type := list (N * list tx).

Fixpoint add_tx (t : tx) (qs : queues) : queues :=
  match qs with
  | [] => [(sender t, [t])]
  | (s, l) :: r => if s =? sender t then (s, insert_nonce t l) :: r else (s, l) :: add_tx t r
  end.

Definition by_sender (pool : list tx) : queues := fold_left (fun qs t => add_tx t qs) pool [].

(* outcome of VerifyTransaction / ExecuteTransaction for a transaction, given the transactions executed before *)
Inductive verdict := VerifyFails | ExecuteFails | Good.

Fixpoint queue_of (s : N) (qs : queues) : option (list tx) :=
  match qs with
  | [] => None
  | (s', l) :: r => if s' =? s then Some l else queue_of s r
  end.

Fixpoint remove_sender (s : N) (qs : queues) : queues :=
  match qs with
  | [] => []
  | (s', l) :: r => if s' =? s then r else (s', l) :: remove_sender s r
  end.

(* fromSenderTx[1:], and delete the sender when nothing remains *)
Fixpoint advance (s : N) (qs : queues) : queues :=
  match qs with
  | [] => []
  | (s', l) :: r =>
      if s' =? s then match tl l with [] => r | l' => (s', l') :: r end
      else (s', l) :: advance s r
  end.

Definition heads (qs : queues) : list tx :=
  flat_map (fun q => match snd q with [] => [] | h :: _ => [h] end) qs.

Definition is_head (t : tx) (qs : queues) : bool :=
  match queue_of (sender t) qs with Some (h :: _) => tx_eqb h t | _ => false end.

Definition max_prio (t : tx) (qs : queues) : bool := forallb (fun h => prio h <=? prio t) (heads qs).

Record sel := { qs : queues; total : N; picked : list tx (* newest first *) }.

Section Sel.
  Variable limit : N.
  Variable outcome : list tx -> tx -> verdict.

  (* one loop iteration whose popped transaction [t] passed the size check *)
  Definition pop_step (st : sel) (t : tx) : option sel :=
    if is_head t (qs st) && max_prio t (qs st) && (size t + total st <=? limit) then
      match outcome (rev (picked st)) t with
      | Good => Some {| qs := advance (sender t) (qs st); total := total st + size t; picked := t :: picked st |}
      | _ => Some {| qs := remove_sender (sender t) (qs st); total := total st; picked := picked st |}
      end
    else None.

  Fixpoint run_trace (st : sel) (trace : list tx) : option sel :=
    match trace with
    | [] => Some st
    | t :: r => match pop_step st t with Some st' => run_trace st' r | None => None end
    end.

  (* the loop ends: no sender left, or a popped head (a head of maximal priority) does not fit *)
  Definition finished (st : sel) : bool :=
    match qs st with
    | [] => true
    | _ => existsb (fun h => max_prio h (qs st) && (limit <? size h + total st)) (heads (qs st))
    end.

  Fixpoint txs_eqb (a b : list tx) : bool :=
    match a, b with
    | [], [] => true
    | x :: s, y :: t => tx_eqb x y && txs_eqb s t
    | _, _ => false
    end.

  Definition start (pool : list tx) : sel := {| qs := by_sender pool; total := 0; picked := [] |}.

  Definition valid_selection (pool trace out : list tx) : bool :=
    match run_trace (start pool) trace with
    | Some st => finished st && txs_eqb out (rev (picked st))
    | None => false
    end.
End Sel.

(* ---------------------------------------------------------------- declarative specification *)
(* transactions of one sender in nonce order *)
Definition sender_queue (pool : list tx) (s : N) : list tx :=
  fold_right insert_nonce [] (rev (filter (fun t => sender t =? s) pool)).

(* the transactions of [trace] that succeed, each judged after the successful ones before it *)
Fixpoint goods (outcome : list tx -> tx -> verdict) (acc trace : list tx) : list tx :=
  match trace with
  | [] => []
  | t :: r => match outcome acc t with
              | Good => t :: goods outcome (acc ++ [t]) r
              | _ => goods outcome acc r
              end
  end.

Definition sum_size (l : list tx) : N := fold_right (fun t a => size t + a) 0 l.

Definition of_sender (s : N) (l : list tx) : list tx := filter (fun t => sender t =? s) l.
