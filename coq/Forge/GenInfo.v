(* Model of the persisted GeneratorInfo of pkg/generator (generator.go: initBlockHeader, the tail of forge) and
   of everything that can happen around one generator: forging (with a crash before the persist or between persist
   and hand-off), the node's tip changing in ANY way (fork choice, chain switch with deletes and applies, a failed
   sync leaving a lower tip, the own block not yet — or never — processed), syncing on/off, restarts.

   Header fields are those of BFT.Contradiction.bh (height, gen, mhg = maxHeightGenerated, mhp =
   maxHeightPrevoted).  Heights are uint32; `lastBlock.Header.Height + 1` is written with [u32]. *)
From Coq Require Import List NArith Bool.
From LE Require Import BFT.Contradiction.
Import ListNotations.
Local Open Scope N_scope.

Definition W32 : N := 4294967296.
Definition u32 (x : N) : N := x mod W32.

(* schema.go: GeneratorInfo *)
Record geninfo := { gi_height : N; gi_mhp : N; gi_mhg : N }.
Definition zero_info : geninfo := Build_geninfo 0 0 0.

(* the node's tip as the generator sees it: maxHeightPrevoted of the BFT state after the tip (GetBFTHeights)
   and the height of the tip; any uint32 values *)
Record tip := { t_smhp : N; t_height : N }.

(* initBlockHeader, three versions.  [prev] is the decoded previous info (zero value when the key is absent).
   ORIGINAL: MaxHeightGenerated: previousInfo.Height, no guard *)
Definition init_header_orig (disk : option geninfo) (t : tip) (g : N) : option (bh * geninfo) :=
  let prev := match disk with Some i => i | None => zero_info end in
  let nexth := u32 (t_height t + 1) in
  let m := gi_height prev in
  Some (Build_bh nexth g m (t_smhp t), Build_geninfo nexth (t_smhp t) m).

(* FIRST REPAIR: the largest height ever generated = max(previousInfo.Height, previousInfo.MaxHeightGenerated) *)
Definition init_header_noguard (disk : option geninfo) (t : tip) (g : N) : option (bh * geninfo) :=
  let prev := match disk with Some i => i | None => zero_info end in
  let nexth := u32 (t_height t + 1) in
  let m := N.max (gi_height prev) (gi_mhg prev) in
  Some (Build_bh nexth g m (t_smhp t), Build_geninfo nexth (t_smhp t) m).

(* CURRENT code: additionally refuses (error) unless (maxHeightPrevoted, height) of the new header exceeds the
   persisted info of the header generated last *)
Definition exceeds (i : geninfo) (m h : N) : bool :=
  (gi_mhp i <? m) || ((gi_mhp i =? m) && (gi_height i <? h)).

Definition init_header (disk : option geninfo) (t : tip) (g : N) : option (bh * geninfo) :=
  let nexth := u32 (t_height t + 1) in
  match disk with
  | Some i => if exceeds i (t_smhp t) nexth then init_header_noguard disk t g else None
  | None => init_header_noguard disk t g
  end.

(* forge() tail: the info of the sealed header is written to the generator DB (one synced batch), and only
   then the block is handed to consensus (AddInternal).  A crash can fall before the write, or between the
   write and the hand-off. *)
Inductive crash_pt := NoCrash | CrashBeforePersist | CrashAfterPersist.

Record st := {
  disk : option geninfo;       (* generator DB entry of this generator *)
  node : tip;                  (* the node's current tip *)
  syncing : bool;              (* Executer.Syncing() *)
  published : list bh          (* headers handed to consensus, newest first *)
}.

Inductive ev :=
| EForge (c : crash_pt)       (* one tick of the check loop in a slot of this generator *)
| ETip (t : tip)              (* the tip becomes anything: own block applied or not, fork choice, delete, apply *)
| ESync (b : bool)            (* the Executer starts / stops syncing *)
| ERestart.                   (* process restart *)

Section Gen.
  Variable g : N.     (* the generator's address *)
  Variable hdr : option geninfo -> tip -> N -> option (bh * geninfo).   (* initBlockHeader *)

  (* total: every event is possible in every state *)
  Definition step (s : st) (e : ev) : st :=
    match e with
    | EForge c =>
        if syncing s then s else
        match hdr (disk s) (node s) g with
        | None => s                                   (* initBlockHeader returned an error: nothing generated *)
        | Some (h, info) =>
            match c with
            | CrashBeforePersist => s
            | CrashAfterPersist => {| disk := Some info; node := node s; syncing := false; published := published s |}
            | NoCrash => {| disk := Some info; node := node s; syncing := false; published := h :: published s |}
            end
        end
    | ETip t => {| disk := disk s; node := t; syncing := syncing s; published := published s |}
    | ESync b => {| disk := disk s; node := node s; syncing := b; published := published s |}
    | ERestart => {| disk := disk s; node := node s; syncing := false; published := published s |}
    end.

  Definition run (s : st) (evs : list ev) : st := fold_left step evs s.

  Definition init (t : tip) : st := {| disk := None; node := t; syncing := false; published := [] |}.
End Gen.

Definition no_crash_after_persist (evs : list ev) : Prop := ~ In (EForge CrashAfterPersist) evs.

(* a generator history in which maxHeightGenerated may over-approximate (a persisted height whose block was
   never handed on, after a crash); [follower] of BFT.Contradiction is the special case with equality *)
Inductive follower_ge : list bh -> Prop :=
| fg_nil : follower_ge []
| fg_cons : forall b hs, follower_ge hs ->
    max_height hs <= mhg b ->
    (forall p, In p hs -> mhg p <= mhg b) ->
    (forall p, In p hs -> gen p = gen b /\ (mhp p < mhp b \/ (mhp p = mhp b /\ height p < height b))) ->
    follower_ge (b :: hs).

Definition pairwise_noncontradicting (hs : list bh) : Prop :=
  forall b1 b2, In b1 hs -> In b2 hs -> b1 <> b2 -> contradicting b1 b2 = false.

(* ---------------------------------------------------------------- several generator keys enabled on one node *)
(* The generator DB holds one record PER generator address; every forge reads and writes the record of the generator
   assigned to the slot only.  Nothing else of the generator lives in memory between ticks. *)
Record mst := {
  mdisk : N -> option geninfo;   (* generator DB: address -> record *)
  mnode : tip;
  msyncing : bool;
  mpublished : list bh            (* headers handed to consensus by any of the node's generators, newest first *)
}.

Inductive mev :=
| MForge (who : N) (c : crash_pt)   (* a tick in a slot assigned to the enabled generator [who] *)
| MTip (t : tip) | MSync (b : bool) | MRestart.

Section Multi.
  Variable hdr : option geninfo -> tip -> N -> option (bh * geninfo).

  Definition upd (d : N -> option geninfo) (a : N) (i : geninfo) : N -> option geninfo :=
    fun x => if x =? a then Some i else d x.

  Definition mstep (s : mst) (e : mev) : mst :=
    match e with
    | MForge who c =>
        if msyncing s then s else
        match hdr (mdisk s who) (mnode s) who with
        | None => s
        | Some (h, info) =>
            match c with
            | CrashBeforePersist => s
            | CrashAfterPersist => {| mdisk := upd (mdisk s) who info; mnode := mnode s; msyncing := false; mpublished := mpublished s |}
            | NoCrash => {| mdisk := upd (mdisk s) who info; mnode := mnode s; msyncing := false; mpublished := h :: mpublished s |}
            end
        end
    | MTip t => {| mdisk := mdisk s; mnode := t; msyncing := msyncing s; mpublished := mpublished s |}
    | MSync b => {| mdisk := mdisk s; mnode := mnode s; msyncing := b; mpublished := mpublished s |}
    | MRestart => {| mdisk := mdisk s; mnode := mnode s; msyncing := false; mpublished := mpublished s |}
    end.

  Definition mrun (s : mst) (evs : list mev) : mst := fold_left mstep evs s.
  Definition minit (t : tip) : mst := {| mdisk := fun _ => None; mnode := t; msyncing := false; mpublished := [] |}.
End Multi.

(* the headers signed by generator g *)
Definition signed_by (g : N) (hs : list bh) : list bh := filter (fun b => gen b =? g) hs.
