(* Model of the persisted GeneratorInfo of pkg/generator (generator.go: initBlockHeader, the tail of forge) and
   of the environment in which one generator signs headers: the node's tip moving by fork choice, chain
   switches (delete / apply), restarts and crashes around the persist / hand-off pair.

   Header fields are those of BFT.Contradiction.bh (height, gen, mhg = maxHeightGenerated, mhp =
   maxHeightPrevoted).  Heights are uint32; `lastBlock.Header.Height + 1` is written with [u32]. *)
From Coq Require Import List NArith Bool.
From LE Require Import BFT.Contradiction.
Import ListNotations.
Local Open Scope N_scope.

Definition W32 : N := 4294967296.
Definition u32 (x : N) : N := x mod W32.

(* schema.go: GeneratorInfo *)
Record geninfo := { gi_height : N; gi_mhp : N; gi_mhg : N }.
Definition zero_info : geninfo := Build_geninfo 0 0 0.

(* the node's tip as the generator sees it: maxHeightPrevoted in the tip's header, maxHeightPrevoted of the BFT
   state after the tip (GetBFTHeights), height of the tip *)
Record tip := { t_hmhp : N; t_smhp : N; t_height : N }.

Definition tip_ok (t : tip) : bool := (t_hmhp t <=? t_smhp t) && (t_height t + 1 <? W32).

(* initBlockHeader.  [prev] is the decoded previous info (zero value when the key is absent).
   ORIGINAL: MaxHeightGenerated: previousInfo.Height *)
Definition init_header_orig (disk : option geninfo) (t : tip) (g : N) : bh * geninfo :=
  let prev := match disk with Some i => i | None => zero_info end in
  let nexth := u32 (t_height t + 1) in
  let m := gi_height prev in
  (Build_bh nexth g m (t_smhp t), Build_geninfo nexth (t_smhp t) m).

(* REPAIRED: the largest height ever generated = max(previousInfo.Height, previousInfo.MaxHeightGenerated) *)
Definition init_header (disk : option geninfo) (t : tip) (g : N) : bh * geninfo :=
  let prev := match disk with Some i => i | None => zero_info end in
  let nexth := u32 (t_height t + 1) in
  let m := N.max (gi_height prev) (gi_mhg prev) in
  (Build_bh nexth g m (t_smhp t), Build_geninfo nexth (t_smhp t) m).

(* forge() tail: the info of the sealed header is written to the generator DB (one synced batch), and only
   then the block is handed to consensus (AddInternal).  A crash can fall before the write, or between the
   write and the hand-off. *)
Inductive crash_pt := NoCrash | CrashBeforePersist | CrashAfterPersist.

Record st := {
  disk : option geninfo;       (* generator DB entry of this generator *)
  node : tip;                  (* the node's current tip *)
  switching : option tip;      (* Some t0 while a chain switch that started from tip t0 is in progress (Syncing()) *)
  published : list bh          (* headers handed to consensus, newest first *)
}.

(* lexicographic order on (maxHeightPrevoted of the header, height): the order of fork choice *)
Definition key_le (a b : tip) : bool :=
  (t_hmhp a <? t_hmhp b) || ((t_hmhp a =? t_hmhp b) && (t_height a <=? t_height b)).

Inductive ev :=
| EForge (c : crash_pt) (smhp_after : N)
    (* one forge on the current tip; without a crash the generated block is accepted by the own node and is
       the new tip, the BFT state's maxHeightPrevoted after it being [smhp_after] *)
| ETip (t : tip)              (* tip replaced by fork choice in one step: valid block, tie break, finished switch *)
| ESwitchBegin                (* different chain detected: syncing, no forging *)
| EDelete (t : tip)           (* block delete during the switch: any new tip *)
| EApply (t : tip)            (* block applied during the switch *)
| ESwitchEnd                  (* switch finished on a tip that is not worse than where it started *)
| ERestart.                   (* process restart: nothing of this state lives in memory *)

Section Gen.
  Variable g : N.     (* the generator's address *)
  Variable hdr : option geninfo -> tip -> N -> bh * geninfo.   (* initBlockHeader: original or repaired *)

  Definition step (s : st) (e : ev) : option st :=
    match e with
    | EForge c after =>
        match switching s with
        | Some _ => None
        | None =>
            let '(h, info) := hdr (disk s) (node s) g in
            match c with
            | CrashBeforePersist => Some s
            | CrashAfterPersist => Some {| disk := Some info; node := node s; switching := None; published := published s |}
            | NoCrash =>
                let t' := {| t_hmhp := t_smhp (node s); t_smhp := after; t_height := t_height (node s) + 1 |} in
                if tip_ok t' then
                  Some {| disk := Some info; node := t'; switching := None; published := h :: published s |}
                else None
            end
        end
    | ETip t =>
        match switching s with
        | Some _ => None
        | None => if tip_ok t && key_le (node s) t
                  then Some {| disk := disk s; node := t; switching := None; published := published s |} else None
        end
    | ESwitchBegin =>
        match switching s with
        | Some _ => None
        | None => Some {| disk := disk s; node := node s; switching := Some (node s); published := published s |}
        end
    | EDelete t | EApply t =>
        match switching s with
        | None => None
        | Some t0 => if tip_ok t
                     then Some {| disk := disk s; node := t; switching := Some t0; published := published s |} else None
        end
    | ESwitchEnd =>
        match switching s with
        | None => None
        | Some t0 => if key_le t0 (node s)
                     then Some {| disk := disk s; node := node s; switching := None; published := published s |} else None
        end
    | ERestart => match switching s with Some _ => None | None => Some s end
    end.

  Fixpoint run (s : st) (evs : list ev) : option st :=
    match evs with
    | [] => Some s
    | e :: t => match step s e with Some s' => run s' t | None => None end
    end.

  Definition init (t : tip) : st := {| disk := None; node := t; switching := None; published := [] |}.
End Gen.

Definition no_crash_after_persist (evs : list ev) : Prop :=
  forall a, ~ In (EForge CrashAfterPersist a) evs.

(* a generator history in which maxHeightGenerated may over-approximate (a persisted height whose block was
   never handed on, after a crash); [follower] of BFT.Contradiction is the special case with equality *)
Inductive follower_ge : list bh -> Prop :=
| fg_nil : follower_ge []
| fg_cons : forall b hs, follower_ge hs ->
    max_height hs <= mhg b ->
    (forall p, In p hs -> mhg p <= mhg b) ->
    (forall p, In p hs -> gen p = gen b /\ (mhp p < mhp b \/ (mhp p = mhp b /\ height p < height b))) ->
    follower_ge (b :: hs).

Definition pairwise_noncontradicting (hs : list bh) : Prop :=
  forall b1 b2, In b1 hs -> In b2 hs -> b1 <> b2 -> contradicting b1 b2 = false.
