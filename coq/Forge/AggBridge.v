(* Bridge between the two models of verifyAggregateCommit: Exec.VerifyBlock.agg_commit_ok (builder-executer: header fields
   as byte strings with lengths, the header / parameter lookup and the BLS verdict as two booleans of the environment) and
   Cert.AggCommit.verify (builder-cert: concrete bitmap, parameter map, chain, weighted BLS verification).  With the
   translation below, whatever C06's verify accepts is accepted by agg_commit_ok; together with C06_assemble_accepts this
   discharges hypothesis A of C15_generated_block_accepted_partial for aggregate commits produced by GetAggregateCommit. *)
From Coq Require Import List NArith Bool Lia.
From LE Require Import Exec.VerifyBlock.
From LE Require Cert.AggCommit Cert.AssembleProofs.
Import ListNotations.
Local Open Scope N_scope.

Lemma sub32_same : forall a b, AggCommit.sub32 a b = sub32 a b.
Proof. intros a b. unfold AggCommit.sub32, sub32, u32. change (2 ^ 32) with 4294967296. reflexivity. Qed.

Section Bridge.
  Variables (sigT msgT : Type).
  Variable sig_len0 : sigT -> bool.
  Variable msg_of : AggCommit.cert -> msgT.
  Variable fav : list AggCommit.key -> msgT -> sigT -> bool.

  Notation agg_commit := (AggCommit.agg_commit sigT).

  (* what C06's verify computes after the range checks: header and parameters found, weighted BLS verification succeeds *)
  Definition tail_accepts (ce : AggCommit.env) (a : agg_commit) : bool :=
    match AggCommit.chain_at (AggCommit.e_chain ce) (AggCommit.ac_height a) with
    | None => false
    | Some hd =>
        match AggCommit.get_params ce (AggCommit.ac_height a) with
        | None => false
        | Some p =>
            let vs := AggCommit.sort_by AggCommit.v_key (AggCommit.p_validators p) in
            match AggCommit.verify_weighted fav (map AggCommit.v_key vs) (AggCommit.ac_bits a) (AggCommit.ac_sig a)
                    (map AggCommit.v_weight vs) (AggCommit.p_threshold p) (msg_of (AggCommit.h_cert hd)) with
            | Some true => true
            | _ => false
            end
        end
    end.

  (* the header carries the commit [a]; the verifier's environment [v] is the node state [ce] *)
  Record corresponds (h : header) (v : venv) (ce : AggCommit.env) (a : agg_commit) : Prop := {
    c_height : h_agg_height h = AggCommit.ac_height a;
    c_bits : (b_len (h_agg_bits h) =? 0) = Nat.eqb (length (AggCommit.ac_bits a)) 0;
    c_sig : (b_len (h_agg_sig h) =? 0) = sig_len0 (AggCommit.ac_sig a);
    c_cert : ve_mh_cert v = AggCommit.e_mhc ce;
    c_precommit : ve_mh_precommit v = AggCommit.e_mhp ce;
    c_next : ve_next_params v = AggCommit.next_params ce (AggCommit.u32 (AggCommit.e_mhc ce + 1));
    c_tail : ve_agg_lookup_ok v && ve_agg_bls_ok v = tail_accepts ce a
  }.

  Lemma verify_accept_bridge : forall h v ce a,
    corresponds h v ce a ->
    AggCommit.verify sig_len0 msg_of fav ce a = AggCommit.Accept -> agg_commit_ok h v = true.
  Proof.
    intros h v ce a [Hh Hb Hs Hc Hp Hn Ht] Hv. unfold agg_commit_ok. unfold AggCommit.verify, AggCommit.ac_empty in Hv.
    rewrite Hb, Hs, Hh, Hc, Hp, Hn, Ht.
    destruct (Nat.eqb (length (AggCommit.ac_bits a)) 0) eqn:E1; destruct (sig_len0 (AggCommit.ac_sig a)) eqn:E2;
      cbn [andb orb] in Hv |- *.
    - destruct (AggCommit.ac_height a =? AggCommit.e_mhc ce); [reflexivity|discriminate].
    - discriminate.
    - discriminate.
    - destruct (AggCommit.ac_height a <=? AggCommit.e_mhc ce); [discriminate|].
      destruct (AggCommit.e_mhp ce <? AggCommit.ac_height a); [discriminate|].
      destruct (AggCommit.next_params ce (AggCommit.u32 (AggCommit.e_mhc ce + 1))) as [nh|].
      + rewrite <- sub32_same. destruct (AggCommit.sub32 nh 1 <? AggCommit.ac_height a); [discriminate|].
        unfold tail_accepts. destruct (AggCommit.chain_at _ _) as [hd|]; [|discriminate].
        destruct (AggCommit.get_params ce _) as [p|]; [|discriminate]. cbv zeta in Hv |- *.
        destruct (AggCommit.verify_weighted _ _ _ _ _ _ _) as [[|]|]; [reflexivity|discriminate|discriminate].
      + unfold tail_accepts. destruct (AggCommit.chain_at _ _) as [hd|]; [|discriminate].
        destruct (AggCommit.get_params ce _) as [p|]; [|discriminate]. cbv zeta in Hv |- *.
        destruct (AggCommit.verify_weighted _ _ _ _ _ _ _) as [[|]|]; [reflexivity|discriminate|discriminate].
  Qed.
End Bridge.

(* hypothesis A discharged for what GetAggregateCommit assembles from a valid pool (C06_assemble_accepts) *)
From Coq Require Import Permutation.
Lemma assembled_commit_accepted : forall (sigT msgT : Type) (sig_len0 : sigT -> bool) (msg_of : AggCommit.cert -> msgT)
    (fav : list AggCommit.key -> msgT -> sigT -> bool) (vrf : AggCommit.key -> msgT -> sigT -> bool) (agg : list sigT -> sigT)
    (key_ok : AggCommit.key -> Prop),
  (forall ks ss m ks', Forall key_ok ks -> Forall2 (fun k s => vrf k m s = true) ks ss -> ks <> [] -> Permutation ks ks' ->
                       fav ks' m (agg ss) = true) ->
  (forall ss, sig_len0 (agg ss) = false) ->
  forall e g ng a h v,
    AssembleProofs.params_wf key_ok e -> AssembleProofs.pool_ok sigT msgT msg_of vrf e (g ++ ng) ->
    AggCommit.get_aggregate_commit agg e g ng = AggCommit.GOk a ->
    corresponds sigT msgT sig_len0 msg_of fav h v e a ->
    agg_commit_ok h v = true.
Proof.
  intros sigT msgT sig_len0 msg_of fav vrf agg key_ok Hbls Hlen e g ng a h v Hwf Hpool Hget Hc.
  pose proof (AssembleProofs.assemble_accepts sigT msgT sig_len0 msg_of fav vrf agg key_ok Hbls Hlen e g ng Hwf Hpool) as H.
  unfold AssembleProofs.good_result in H.
  rewrite Hget in H. eapply verify_accept_bridge; eassumption.
Qed.
