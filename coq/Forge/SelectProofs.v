From Coq Require Import List NArith Bool Lia.
From Coq Require Import ZifyBool ZifyN.
From LE Require Import Forge.Select.
Import ListNotations.
Local Open Scope N_scope.

Definition keys (q : queues) : list N := map fst q.

Lemma tx_eqb_eq : forall a b, tx_eqb a b = true -> a = b.
Proof.
  intros [s1 n1 f1 z1 i1] [s2 n2 f2 z2 i2] H. unfold tx_eqb in H; cbn [sender nonce fee size tid] in H.
  assert (s1 = s2 /\ n1 = n2 /\ f1 = f2 /\ z1 = z2 /\ i1 = i2) as (-> & -> & -> & -> & ->) by lia. reflexivity.
Qed.

Lemma sum_size_app : forall a b, sum_size (a ++ b) = sum_size a + sum_size b.
Proof. induction a; intros b; cbn [app sum_size fold_right]; [reflexivity|]. fold (sum_size (a0 ++ b)). fold (sum_size a0). rewrite IHa. lia. Qed.

(* ------------------------------------------------------------------ key sets only shrink *)
Lemma queue_of_Some_key : forall s q l, queue_of s q = Some l -> In s (keys q).
Proof.
  induction q as [|[s' l'] r IH]; intros l H; cbn [queue_of] in H; [discriminate|].
  destruct (s' =? s) eqn:E; [left; cbn; lia|right; eapply IH; eassumption].
Qed.

Lemma keys_remove_subset : forall s q x, In x (keys (remove_sender s q)) -> In x (keys q).
Proof.
  induction q as [|[s' l'] r IH]; intros x H; cbn [remove_sender] in H; [contradiction|].
  destruct (s' =? s); [right; exact H|]. destruct H as [H|H]; [left; exact H|right; apply IH; exact H].
Qed.

Lemma keys_advance_subset : forall s q x, In x (keys (advance s q)) -> In x (keys q).
Proof.
  induction q as [|[s' l'] r IH]; intros x H; cbn [advance] in H; [contradiction|].
  destruct (s' =? s).
  - destruct (tl l'); [right; exact H|]. destruct H as [H|H]; [left; exact H|right; exact H].
  - destruct H as [H|H]; [left; exact H|right; apply IH; exact H].
Qed.

Lemma remove_sender_absent : forall s q, NoDup (keys q) -> ~ In s (keys (remove_sender s q)).
Proof.
  induction q as [|[s' l'] r IH]; intros Hnd; cbn [remove_sender]; [intros []|].
  inversion Hnd as [|? ? Hn Hr]; subst. destruct (s' =? s) eqn:E.
  - assert (s' = s) by lia. subst. exact Hn.
  - intros [H|H]; [cbn in H; lia|]. apply IH; assumption.
Qed.

Lemma NoDup_remove : forall s q, NoDup (keys q) -> NoDup (keys (remove_sender s q)).
Proof.
  induction q as [|[s' l'] r IH]; intros Hnd; cbn [remove_sender]; [constructor|].
  inversion Hnd as [|? ? Hn Hr]; subst. destruct (s' =? s); [exact Hr|].
  cbn. constructor; [|apply IH; exact Hr]. intros H. apply Hn. eapply keys_remove_subset; exact H.
Qed.

Lemma NoDup_advance : forall s q, NoDup (keys q) -> NoDup (keys (advance s q)).
Proof.
  induction q as [|[s' l'] r IH]; intros Hnd; cbn [advance]; [constructor|].
  inversion Hnd as [|? ? Hn Hr]; subst. destruct (s' =? s).
  - destruct (tl l'); [exact Hr|]. cbn. constructor; assumption.
  - cbn. constructor; [|apply IH; exact Hr]. intros H. apply Hn. eapply keys_advance_subset; exact H.
Qed.

Lemma keys_add_tx : forall t q x, In x (keys (add_tx t q)) <-> x = sender t \/ In x (keys q).
Proof.
  induction q as [|[s l] r IH]; intros x; cbn [add_tx].
  - cbn. intuition.
  - destruct (s =? sender t) eqn:E; cbn [keys map fst In].
    + assert (s = sender t) by lia. subst. intuition.
    + fold (keys (add_tx t r)). fold (keys r). rewrite IH. intuition.
Qed.

Lemma NoDup_add_tx : forall t q, NoDup (keys q) -> NoDup (keys (add_tx t q)).
Proof.
  induction q as [|[s l] r IH]; intros Hnd; cbn [add_tx].
  - cbn. constructor; [intros []|constructor].
  - inversion Hnd as [|? ? Hn Hr]; subst. destruct (s =? sender t) eqn:E; cbn [keys map fst].
    + constructor; assumption.
    + constructor; [|apply IH; exact Hr]. fold (keys (add_tx t r)). rewrite keys_add_tx. intros [H|H]; [lia|contradiction].
Qed.

Lemma NoDup_by_sender : forall pool, NoDup (keys (by_sender pool)).
Proof.
  intros pool. unfold by_sender. assert (H : NoDup (keys [])) by constructor. revert H. generalize (@nil (N * list tx)).
  induction pool as [|t r IH]; intros q H; cbn [fold_left]; [exact H|]. apply IH. apply NoDup_add_tx. exact H.
Qed.

Section Run.
  Variable limit : N.
  Variable outcome : list tx -> tx -> verdict.

  Lemma pop_step_inv : forall st t st', pop_step limit outcome st t = Some st' ->
    is_head t (qs st) = true /\ max_prio t (qs st) = true /\ size t + total st <= limit /\
    ((outcome (rev (picked st)) t = Good /\ qs st' = advance (sender t) (qs st) /\
        total st' = total st + size t /\ picked st' = t :: picked st) \/
     (outcome (rev (picked st)) t <> Good /\ qs st' = remove_sender (sender t) (qs st) /\
        total st' = total st /\ picked st' = picked st)).
  Proof.
    intros st t st' H. unfold pop_step in H.
    destruct (is_head t (qs st)) eqn:E1; [|discriminate]. destruct (max_prio t (qs st)) eqn:E2; [|discriminate].
    destruct (size t + total st <=? limit) eqn:E3; [|discriminate]. cbn [andb] in H.
    split; [reflexivity|]. split; [reflexivity|]. split; [lia|].
    destruct (outcome (rev (picked st)) t) eqn:Eo; injection H as <-; cbn [qs total picked];
      [right|right|left]; repeat split; try reflexivity; congruence.
  Qed.

  Lemma run_trace_app : forall a b st,
    run_trace limit outcome st (a ++ b) =
    match run_trace limit outcome st a with Some s1 => run_trace limit outcome s1 b | None => None end.
  Proof.
    induction a as [|t r IH]; intros b st; cbn [app run_trace]; [reflexivity|].
    destruct (pop_step limit outcome st t); [apply IH|reflexivity].
  Qed.

  (* the returned slice is the successful part of the trace, in order *)
  Lemma run_trace_goods : forall trace st st', run_trace limit outcome st trace = Some st' ->
    rev (picked st') = rev (picked st) ++ goods outcome (rev (picked st)) trace.
  Proof.
    induction trace as [|t r IH]; intros st st' H; cbn [run_trace] in H.
    - injection H as <-. cbn [goods]. rewrite app_nil_r. reflexivity.
    - destruct (pop_step limit outcome st t) as [s1|] eqn:E; [|discriminate].
      apply pop_step_inv in E. destruct E as (_ & _ & _ & [(Ho & _ & _ & Hp)|(Ho & _ & _ & Hp)]).
      + rewrite (IH _ _ H), Hp. cbn [rev goods]. rewrite Ho. rewrite <- app_assoc. reflexivity.
      + rewrite (IH _ _ H), Hp. cbn [goods]. destruct (outcome (rev (picked st)) t); try reflexivity. congruence.
  Qed.

  (* payload size *)
  Lemma run_trace_total : forall trace st st', run_trace limit outcome st trace = Some st' ->
    total st = sum_size (rev (picked st)) -> total st <= limit ->
    total st' = sum_size (rev (picked st')) /\ total st' <= limit.
  Proof.
    induction trace as [|t r IH]; intros st st' H Hsum Hle; cbn [run_trace] in H.
    - injection H as <-. split; assumption.
    - destruct (pop_step limit outcome st t) as [s1|] eqn:E; [|discriminate].
      apply pop_step_inv in E. destruct E as (_ & _ & Hfit & [(_ & _ & Ht & Hp)|(_ & _ & Ht & Hp)]).
      + apply (IH _ _ H).
        * rewrite Ht, Hp. cbn [rev]. rewrite sum_size_app. cbn [sum_size fold_right]. lia.
        * lia.
      + apply (IH _ _ H); [rewrite Ht, Hp; exact Hsum|lia].
  Qed.

  (* every popped transaction is the first remaining one of its sender and has maximal priority among the
     first remaining transactions of all senders still in play *)
  Lemma run_trace_pops : forall pre t post st st', run_trace limit outcome st (pre ++ t :: post) = Some st' ->
    exists s1, run_trace limit outcome st pre = Some s1 /\ is_head t (qs s1) = true /\
               forall h, In h (heads (qs s1)) -> prio h <= prio t.
  Proof.
    intros pre t post st st' H. rewrite run_trace_app in H.
    destruct (run_trace limit outcome st pre) as [s1|] eqn:E; [|discriminate]. exists s1. split; [reflexivity|].
    cbn [run_trace] in H. destruct (pop_step limit outcome s1 t) as [s2|] eqn:E2; [|discriminate].
    apply pop_step_inv in E2. destruct E2 as (Hh & Hm & _). split; [exact Hh|].
    intros h Hin. unfold max_prio in Hm. rewrite forallb_forall in Hm. specialize (Hm h Hin). lia.
  Qed.

  Lemma run_trace_keys : forall trace st st', run_trace limit outcome st trace = Some st' ->
    NoDup (keys (qs st)) ->
    NoDup (keys (qs st')) /\ (forall x, In x (keys (qs st')) -> In x (keys (qs st))) /\
    (forall p, In p trace -> In (sender p) (keys (qs st))).
  Proof.
    induction trace as [|t r IH]; intros st st' H Hnd; cbn [run_trace] in H.
    - injection H as <-. split; [exact Hnd|]. split; [auto|intros p []].
    - destruct (pop_step limit outcome st t) as [s1|] eqn:E; [|discriminate].
      apply pop_step_inv in E. destruct E as (Hh & _ & _ & Hcase).
      assert (Hk : In (sender t) (keys (qs st))).
      { unfold is_head in Hh. destruct (queue_of (sender t) (qs st)) as [l|] eqn:Eq; [|discriminate].
        eapply queue_of_Some_key; exact Eq. }
      assert (Hs1 : NoDup (keys (qs s1)) /\ forall x, In x (keys (qs s1)) -> In x (keys (qs st))).
      { destruct Hcase as [(_ & Hq & _)|(_ & Hq & _)]; rewrite Hq.
        - split; [apply NoDup_advance; exact Hnd|apply keys_advance_subset].
        - split; [apply NoDup_remove; exact Hnd|apply keys_remove_subset]. }
      destruct Hs1 as [Hnd1 Hsub1]. destruct (IH _ _ H Hnd1) as (Hnd' & Hsub' & Hin').
      split; [exact Hnd'|]. split; [intros x Hx; apply Hsub1, Hsub'; exact Hx|].
      intros p [<-|Hp]; [exact Hk|apply Hsub1, Hin'; exact Hp].
  Qed.

  (* a sender is dropped for good after its first failing verify / execute *)
  Lemma run_trace_dropped : forall pre t post st st', run_trace limit outcome st (pre ++ t :: post) = Some st' ->
    NoDup (keys (qs st)) ->
    forall s1, run_trace limit outcome st pre = Some s1 -> outcome (rev (picked s1)) t <> Good ->
    forall p, In p post -> sender p <> sender t.
  Proof.
    intros pre t post st st' H Hnd s1 Hpre Hbad p Hp. rewrite run_trace_app, Hpre in H.
    cbn [run_trace] in H. destruct (pop_step limit outcome s1 t) as [s2|] eqn:E2; [|discriminate].
    destruct (run_trace_keys _ _ _ Hpre Hnd) as (Hnd1 & _ & _).
    apply pop_step_inv in E2. destruct E2 as (_ & _ & _ & [(Ho & _)|(_ & Hq & _)]); [congruence|].
    assert (Hnd2 : NoDup (keys (qs s2))) by (rewrite Hq; apply NoDup_remove; exact Hnd1).
    destruct (run_trace_keys _ _ _ H Hnd2) as (_ & _ & Hin). specialize (Hin p Hp).
    intros Heq. rewrite Heq, Hq in Hin. eapply remove_sender_absent; [exact Hnd1|exact Hin].
  Qed.
End Run.

(* ------------------------------------------------------------------ assembled statement *)
Lemma selection_spec : forall limit outcome pool trace out,
  valid_selection limit outcome pool trace out = true ->
  out = goods outcome [] trace /\
  sum_size out <= limit /\
  (forall pre t post, trace = pre ++ t :: post ->
     exists s1, run_trace limit outcome (start pool) pre = Some s1 /\
       is_head t (qs s1) = true /\ (forall h, In h (heads (qs s1)) -> prio h <= prio t) /\
       (outcome (rev (picked s1)) t <> Good -> forall p, In p post -> sender p <> sender t)).
Proof.
  intros limit outcome pool trace out H. unfold valid_selection in H.
  destruct (run_trace limit outcome (start pool) trace) as [st|] eqn:E; [|discriminate].
  apply andb_true_iff in H. destruct H as [_ Heq].
  assert (Hout : out = rev (picked st)).
  { clear E. revert Heq. generalize (rev (picked st)). induction out as [|a o IH]; intros [|b l] Hq; cbn [txs_eqb] in Hq;
      try discriminate; [reflexivity|]. apply andb_true_iff in Hq. destruct Hq as [H1 H2].
    apply tx_eqb_eq in H1. subst b. f_equal. apply IH. exact H2. }
  pose proof (run_trace_goods limit outcome _ _ _ E) as Hg. cbn [start picked rev app] in Hg.
  destruct (run_trace_total limit outcome _ _ _ E) as [Ht Hle]; [reflexivity|cbn; lia|].
  split; [rewrite Hout; exact Hg|]. split; [rewrite Hout, <- Ht; exact Hle|].
  intros pre t post ->. destruct (run_trace_pops limit outcome _ _ _ _ _ E) as (s1 & Hpre & Hh & Hm).
  exists s1. split; [exact Hpre|]. split; [exact Hh|]. split; [exact Hm|].
  intros Hbad. eapply run_trace_dropped; [exact E|apply NoDup_by_sender|exact Hpre|exact Hbad].
Qed.

(* ------------------------------------------------------------------ nonce order: the queues are what is left of
   each sender's nonce-sorted transactions *)
Definition qget (q : queues) (s : N) : list tx := match queue_of s q with Some l => l | None => [] end.
Definition all_nonempty (q : queues) : Prop := forall s l, queue_of s q = Some l -> l <> [].

Lemma insert_nonce_nonempty : forall t l, insert_nonce t l <> [].
Proof. intros t [|a r]; cbn; [discriminate|]. destruct (nonce t <? nonce a); discriminate. Qed.

Lemma queue_of_add_tx : forall t q s,
  queue_of s (add_tx t q) =
  if s =? sender t then Some (insert_nonce t (qget q s)) else queue_of s q.
Proof.
  induction q as [|[s' l] r IH]; intros s; cbn [add_tx].
  - cbn [queue_of qget]. rewrite N.eqb_sym. destruct (s =? sender t); reflexivity.
  - destruct (s' =? sender t) eqn:E.
    + assert (s' = sender t) by lia. subst s'. unfold qget. cbn [queue_of]. rewrite (N.eqb_sym (sender t) s).
      destruct (s =? sender t); reflexivity.
    + unfold qget. cbn [queue_of]. destruct (s' =? s) eqn:E2.
      * assert (s' = s) by lia. subst s'. rewrite N.eqb_sym in E. rewrite N.eqb_sym, E. reflexivity.
      * rewrite IH. unfold qget. reflexivity.
Qed.

Lemma qget_fold : forall pool q s,
  qget (fold_left (fun qs t => add_tx t qs) pool q) s =
  fold_left (fun l t => insert_nonce t l) (of_sender s pool) (qget q s).
Proof.
  induction pool as [|t r IH]; intros q s; [reflexivity|]. cbn [fold_left]. rewrite IH.
  assert (Hq : qget (add_tx t q) s = if sender t =? s then insert_nonce t (qget q s) else qget q s).
  { unfold qget. rewrite queue_of_add_tx. rewrite (N.eqb_sym s (sender t)). destruct (sender t =? s); reflexivity. }
  rewrite Hq. unfold of_sender. cbn [filter]. destruct (sender t =? s); reflexivity.
Qed.

Lemma all_nonempty_fold : forall pool q, all_nonempty q -> all_nonempty (fold_left (fun qs t => add_tx t qs) pool q).
Proof.
  induction pool as [|t r IH]; intros q H; cbn [fold_left]; [exact H|]. apply IH.
  intros s l Hq. rewrite queue_of_add_tx in Hq. destruct (s =? sender t).
  - injection Hq as <-. apply insert_nonce_nonempty.
  - eapply H; exact Hq.
Qed.

Lemma by_sender_queue : forall pool s l, queue_of s (by_sender pool) = Some l -> l = sender_queue pool s /\ l <> [].
Proof.
  intros pool s l H. split.
  - pose proof (qget_fold pool [] s) as Hq. fold (by_sender pool) in Hq. unfold qget at 1 in Hq. rewrite H in Hq.
    rewrite Hq. unfold sender_queue, qget. cbn [queue_of]. fold (of_sender s pool).
    rewrite fold_left_rev_right. reflexivity.
  - eapply (all_nonempty_fold pool []); [intros s' l' H'; discriminate|exact H].
Qed.

Lemma queue_of_remove_other : forall s s' q, s' <> s -> queue_of s' (remove_sender s q) = queue_of s' q.
Proof.
  induction q as [|[k l] r IH]; intros Hne; cbn [remove_sender]; [reflexivity|].
  destruct (k =? s) eqn:E; cbn [queue_of].
  - assert (k = s) by lia. subst k. assert (E' : (s =? s') = false) by lia. rewrite E'. reflexivity.
  - destruct (k =? s'); [reflexivity|apply IH; exact Hne].
Qed.

Lemma queue_of_advance_other : forall s s' q, s' <> s -> queue_of s' (advance s q) = queue_of s' q.
Proof.
  induction q as [|[k l] r IH]; intros Hne; cbn [advance]; [reflexivity|].
  destruct (k =? s) eqn:E.
  - assert (k = s) by lia. subst k. assert (E' : (s =? s') = false) by lia.
    destruct (tl l); cbn [queue_of]; rewrite E'; reflexivity.
  - cbn [queue_of]. destruct (k =? s'); [reflexivity|apply IH; exact Hne].
Qed.

Lemma queue_of_not_key : forall s q, ~ In s (keys q) -> queue_of s q = None.
Proof.
  induction q as [|[k l] r IH]; intros H; cbn [queue_of]; [reflexivity|].
  destruct (k =? s) eqn:E; [exfalso; apply H; left; cbn; lia|]. apply IH. intros Hin. apply H. right. exact Hin.
Qed.

Lemma queue_of_advance_same : forall s q l, NoDup (keys q) -> queue_of s q = Some l ->
  queue_of s (advance s q) = match tl l with [] => None | l' => Some l' end.
Proof.
  induction q as [|[k l0] r IH]; intros l Hnd H; cbn [queue_of] in H; [discriminate|].
  inversion Hnd as [|? ? Hn Hr]; subst. cbn [advance]. destruct (k =? s) eqn:E.
  - injection H as <-. assert (k = s) by lia. subst k. destruct (tl l0) eqn:Et.
    + apply queue_of_not_key. exact Hn.
    + cbn [queue_of]. rewrite N.eqb_refl. reflexivity.
  - cbn [queue_of]. rewrite E. apply IH; assumption.
Qed.

Lemma of_sender_app : forall s a b, of_sender s (a ++ b) = of_sender s a ++ of_sender s b.
Proof. intros. unfold of_sender. apply filter_app. Qed.

Section Order.
  Variable limit : N.
  Variable outcome : list tx -> tx -> verdict.
  Variable pool : list tx.

  Definition QInv (pre : list tx) (st : sel) : Prop :=
    NoDup (keys (qs st)) /\
    forall s, exists rest, of_sender s pre ++ rest = sender_queue pool s /\
                           forall l, queue_of s (qs st) = Some l -> l = rest /\ l <> [].

  Lemma QInv_start : QInv [] (start pool).
  Proof.
    split; [apply NoDup_by_sender|]. intros s. exists (sender_queue pool s). split; [reflexivity|].
    intros l H. cbn [start qs] in H. apply by_sender_queue in H. exact H.
  Qed.

  Lemma QInv_step : forall pre st t st', QInv pre st -> pop_step limit outcome st t = Some st' -> QInv (pre ++ [t]) st'.
  Proof.
    intros pre st t st' [Hnd Hq] Hstep. apply pop_step_inv in Hstep. destruct Hstep as (Hh & _ & _ & Hcase).
    unfold is_head in Hh. destruct (queue_of (sender t) (qs st)) as [[|h l']|] eqn:Eq; try discriminate.
    apply tx_eqb_eq in Hh. subst h.
    assert (Hnd' : NoDup (keys (qs st'))).
    { destruct Hcase as [(_ & E & _)|(_ & E & _)]; rewrite E; [apply NoDup_advance|apply NoDup_remove]; exact Hnd. }
    split; [exact Hnd'|]. intros s. destruct (Hq s) as [rest [Hr Hl]]. rewrite of_sender_app.
    destruct (N.eq_dec s (sender t)) as [->|Hne].
    - destruct (Hl _ Eq) as [<- _]. exists l'. unfold of_sender at 2. cbn [filter]. rewrite N.eqb_refl.
      split; [rewrite <- app_assoc; exact Hr|]. intros l H.
      destruct Hcase as [(_ & E & _)|(_ & E & _)]; rewrite E in H.
      + rewrite (queue_of_advance_same _ _ _ Hnd Eq) in H. cbn [tl] in H. destruct l'; [discriminate|].
        injection H as <-. split; [reflexivity|discriminate].
      + rewrite queue_of_not_key in H; [discriminate|]. apply remove_sender_absent. exact Hnd.
    - exists rest. unfold of_sender at 2. cbn [filter]. assert (E0 : (sender t =? s) = false) by lia. rewrite E0, app_nil_r.
      split; [exact Hr|]. intros l H. apply Hl.
      destruct Hcase as [(_ & E & _)|(_ & E & _)]; rewrite E in H.
      + rewrite queue_of_advance_other in H; [exact H|exact Hne].
      + rewrite queue_of_remove_other in H; [exact H|exact Hne].
  Qed.

  Lemma QInv_run : forall trace pre st st', QInv pre st -> run_trace limit outcome st trace = Some st' -> QInv (pre ++ trace) st'.
  Proof.
    induction trace as [|t r IH]; intros pre st st' Hinv H; cbn [run_trace] in H.
    - injection H as <-. rewrite app_nil_r. exact Hinv.
    - destruct (pop_step limit outcome st t) as [s1|] eqn:E; [|discriminate].
      replace (pre ++ t :: r) with ((pre ++ [t]) ++ r) by (rewrite <- app_assoc; reflexivity).
      eapply IH; [eapply QInv_step; eassumption|exact H].
  Qed.

  (* per sender, the tried transactions are a gap-free prefix of the sender's nonce-sorted transactions,
     and the transaction popped next is exactly the following one *)
  Lemma nonce_order : forall trace st', run_trace limit outcome (start pool) trace = Some st' ->
    (forall s, exists rest, of_sender s trace ++ rest = sender_queue pool s) /\
    (forall pre t post, trace = pre ++ t :: post ->
       exists rest, of_sender (sender t) pre ++ t :: rest = sender_queue pool (sender t)).
  Proof.
    intros trace st' H. split.
    - intros s. destruct (QInv_run _ _ _ _ QInv_start H) as [_ Hq]. destruct (Hq s) as [rest [Hr _]]. exists rest. exact Hr.
    - intros pre t post ->. rewrite run_trace_app in H.
      destruct (run_trace limit outcome (start pool) pre) as [s1|] eqn:E; [|discriminate].
      destruct (QInv_run _ _ _ _ QInv_start E) as [_ Hq]. cbn [app] in Hq.
      cbn [run_trace] in H. destruct (pop_step limit outcome s1 t) as [s2|] eqn:E2; [|discriminate].
      apply pop_step_inv in E2. destruct E2 as (Hh & _). unfold is_head in Hh.
      destruct (queue_of (sender t) (qs s1)) as [[|h l']|] eqn:Eq; try discriminate. apply tx_eqb_eq in Hh. subst h.
      destruct (Hq (sender t)) as [rest [Hr Hl]]. destruct (Hl _ Eq) as [<- _]. exists l'. exact Hr.
  Qed.

  (* the heads the popped transaction is compared with are the next transactions of the senders still queued *)
  Lemma heads_are_next : forall pre s1, run_trace limit outcome (start pool) pre = Some s1 ->
    forall s u l, queue_of s (qs s1) = Some (u :: l) -> of_sender s pre ++ u :: l = sender_queue pool s.
  Proof.
    intros pre s1 H s u l Hq. destruct (QInv_run _ _ _ _ QInv_start H) as [_ Hinv]. cbn [app] in Hinv.
    destruct (Hinv s) as [rest [Hr Hl]]. destruct (Hl _ Hq) as [<- _]. exact Hr.
  Qed.
End Order.
