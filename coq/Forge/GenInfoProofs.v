From Coq Require Import List NArith Bool Lia.
From Coq Require Import ZifyBool ZifyN.
From LE Require Import BFT.Contradiction BFT.ContradictionProofs Forge.GenInfo.
Import ListNotations.
Local Open Scope N_scope.

(* ------------------------------------------------------------------ follower_ge is never flagged *)
Lemma follower_ge_never_flagged : forall hs, follower_ge hs -> pairwise_noncontradicting hs.
Proof.
  unfold pairwise_noncontradicting.
  induction 1 as [|b hs Hf IH Hm Hg Hp]; intros b1 b2 H1 H2 Hne; [contradiction|].
  assert (Hkey : forall p, In p hs -> contradicting p b = false).
  { intros p Hin. destruct (Hp p Hin) as [Hgen Hlex].
    pose proof (max_height_ge _ _ Hin) as Hh. pose proof (Hg p Hin) as Hmg.
    destruct (contradicting p b) eqn:Ec; [|reflexivity].
    apply contradicting_iff in Ec. destruct Ec as (_ & Hn & _). exfalso. apply Hn.
    unfold legit_successor. lia. }
  destruct H1 as [<-|H1], H2 as [<-|H2].
  - congruence.
  - rewrite contradicting_sym. auto.
  - auto.
  - auto.
Qed.

Lemma follower_is_follower_ge : forall hs, follower hs -> follower_ge hs.
Proof.
  induction 1 as [|b hs Hf IH Hm Hp]; constructor; auto.
  - rewrite Hm. lia.
  - intros p Hin. rewrite Hm. apply follower_mhg_le; assumption.
Qed.

(* ------------------------------------------------------------------ invariant of the current generator *)
Definition largest (i : geninfo) : N := N.max (gi_height i) (gi_mhg i).

Definition covered (p : bh) (i : geninfo) : Prop :=
  mhp p < gi_mhp i \/ (mhp p = gi_mhp i /\ height p <= gi_height i).

Record Inv (g : N) (s : st) : Prop := {
  inv_fol : follower_ge (published s);
  inv_gen : forall p, In p (published s) -> gen p = g;
  inv_disk : match disk s with
             | Some i => (forall p, In p (published s) -> covered p i) /\
                         max_height (published s) <= largest i /\ forall p, In p (published s) -> mhg p <= largest i
             | None => published s = []
             end
}.

Lemma init_header_cases : forall d t g,
  match init_header d t g with
  | None => exists i, d = Some i /\ exceeds i (t_smhp t) (u32 (t_height t + 1)) = false
  | Some (h, info) =>
      let prev := match d with Some i => i | None => zero_info end in
      h = Build_bh (u32 (t_height t + 1)) g (largest prev) (t_smhp t) /\
      info = Build_geninfo (u32 (t_height t + 1)) (t_smhp t) (largest prev) /\
      match d with Some i => exceeds i (t_smhp t) (u32 (t_height t + 1)) = true | None => True end
  end.
Proof.
  intros d t g. unfold init_header. destruct d as [i|].
  - destruct (exceeds i (t_smhp t) (u32 (t_height t + 1))) eqn:E.
    + cbn. repeat split; reflexivity.
    + exists i. split; [reflexivity|exact E].
  - cbn. repeat split; reflexivity.
Qed.

Lemma forge_facts : forall g d t h info pubs,
  init_header d t g = Some (h, info) ->
  match d with
  | Some i => (forall p, In p pubs -> covered p i) /\ max_height pubs <= largest i /\ forall p, In p pubs -> mhg p <= largest i
  | None => pubs = []
  end ->
  (forall p, In p pubs -> gen p = g) ->
  (* the new header strictly exceeds every earlier one and carries a sufficient maxHeightGenerated *)
  gen h = g /\ max_height pubs <= mhg h /\ (forall p, In p pubs -> mhg p <= mhg h) /\
  (forall p, In p pubs -> gen p = gen h /\ (mhp p < mhp h \/ (mhp p = mhp h /\ height p < height h))) /\
  (* and the info written covers it and everything before *)
  gi_height info = height h /\ gi_mhp info = mhp h /\ gi_mhg info = mhg h /\
  (forall p, In p (h :: pubs) -> covered p info) /\
  max_height (h :: pubs) <= largest info /\ (forall p, In p (h :: pubs) -> mhg p <= largest info) /\
  match d with Some i => largest i = mhg h | None => mhg h = 0 end.
Proof.
  intros g d t h info pubs Hh Hd Hgen. pose proof (init_header_cases d t g) as Hc. rewrite Hh in Hc. cbv zeta in Hc.
  destruct Hc as (-> & -> & Hex). cbn [gen mhg mhp height gi_height gi_mhp gi_mhg].
  destruct d as [i|].
  - destruct Hd as (Hcov & Hmax & Hmg). unfold exceeds in Hex.
    assert (Hlt : forall p, In p pubs -> mhp p < t_smhp t \/ (mhp p = t_smhp t /\ height p < u32 (t_height t + 1))).
    { intros p Hin. specialize (Hcov p Hin). unfold covered in Hcov. lia. }
    split; [reflexivity|]. split; [exact Hmax|]. split; [exact Hmg|].
    split; [intros p Hin; split; [apply Hgen; exact Hin|apply Hlt; exact Hin]|].
    split; [reflexivity|]. split; [reflexivity|]. split; [reflexivity|].
    split.
    { intros p [<-|Hin]; unfold covered; cbn [mhp height gi_mhp gi_height]; [lia|]. specialize (Hlt p Hin). lia. }
    unfold largest in *. cbn [gi_height gi_mhg max_height height] in *.
    split; [lia|]. split; [|reflexivity].
    intros p [<-|Hin]; cbn [mhg]; [lia|]. specialize (Hmg p Hin). lia.
  - subst pubs. unfold largest, zero_info. cbn [max_height In gi_height gi_mhg height mhg].
    split; [reflexivity|]. split; [lia|]. split; [intros p []|]. split; [intros p []|].
    split; [reflexivity|]. split; [reflexivity|]. split; [reflexivity|].
    split.
    { intros p [<-|[]]. unfold covered; cbn. lia. }
    split; [lia|]. split; [|reflexivity]. intros p [<-|[]]. cbn. lia.
Qed.

Lemma step_inv : forall g s e, Inv g s -> Inv g (step g init_header s e).
Proof.
  intros g s e [Hfol Hgen Hdisk]. destruct s as [d nd sy pubs]. cbn [disk node syncing published] in *.
  destruct e as [c|t|b|]; cbn [step disk node syncing published]; try (constructor; assumption).
  destruct sy; [constructor; assumption|].
  destruct (init_header d nd g) as [[h info]|] eqn:Eh; [|constructor; assumption].
  destruct (forge_facts g d nd h info pubs Eh Hdisk Hgen) as (G1 & G2 & G3 & G4 & _ & _ & _ & G5 & G6 & G7 & _).
  destruct c.
  - constructor; cbn [disk published].
    + constructor; assumption.
    + intros p [<-|Hin]; [exact G1|apply Hgen; exact Hin].
    + split; [exact G5|]. split; [exact G6|exact G7].
  - constructor; assumption.
  - constructor; cbn [disk published]; [assumption|assumption|].
    split; [intros p Hin; apply G5; right; exact Hin|].
    split; [cbn [max_height] in G6; lia|intros p Hin; apply G7; right; exact Hin].
Qed.

Lemma init_inv : forall g t, Inv g (init t).
Proof. intros g t. constructor; cbn; [constructor|intros p []|reflexivity]. Qed.

Lemma run_inv : forall g evs s, Inv g s -> Inv g (run g init_header s evs).
Proof.
  induction evs as [|e evs IH]; intros s Hinv; cbn [run fold_left]; [exact Hinv|].
  apply IH. apply step_inv. exact Hinv.
Qed.

(* C15: over ALL sequences of events — forge ticks with and without crashes, arbitrary tip changes (own block
   processed, not yet processed or dropped; fork choice; deletes; a failed sync leaving a lower tip), syncing
   on/off, restarts — no hypothesis on the environment *)
Lemma never_self_contradicting : forall g t0 evs,
  let s := run g init_header (init t0) evs in
  follower_ge (published s) /\ pairwise_noncontradicting (published s).
Proof.
  intros g t0 evs s. pose proof (run_inv g evs _ (init_inv g t0)) as [Hfol _ _].
  split; [exact Hfol|apply follower_ge_never_flagged; exact Hfol].
Qed.

(* the largest height ever handed on is covered by what is on disk at that moment (persist before hand-off) *)
Lemma persisted_covers_published : forall g t0 evs,
  let s := run g init_header (init t0) evs in
  match disk s with
  | Some i => max_height (published s) <= N.max (gi_height i) (gi_mhg i)
  | None => published s = []
  end.
Proof.
  intros g t0 evs s. pose proof (run_inv g evs _ (init_inv g t0)) as [_ _ Hd]. fold s in Hd.
  destruct (disk s); [apply Hd|exact Hd].
Qed.

(* ------------------------------------------------------------------ crash-free runs: exactly [follower] of C07 *)
Record InvEq (g : N) (s : st) : Prop := {
  ie_inv : Inv g s;
  ie_fol : follower (published s);
  ie_disk : match disk s with
            | Some i => largest i = max_height (published s)
            | None => published s = []
            end
}.

Lemma step_inv_eq : forall g s e, InvEq g s -> e <> EForge CrashAfterPersist -> InvEq g (step g init_header s e).
Proof.
  intros g s e [Hinv Hfol Hdisk] Hnc. pose proof (step_inv g s e Hinv) as Hinv'.
  destruct Hinv as [_ Hgen Hd]. destruct s as [d nd sy pubs]. cbn [disk node syncing published] in *.
  destruct e as [c|t|b|]; cbn [step disk node syncing published] in *; try (constructor; assumption).
  destruct sy; [constructor; assumption|].
  destruct (init_header d nd g) as [[h info]|] eqn:Eh; [|constructor; assumption].
  destruct (forge_facts g d nd h info pubs Eh Hd Hgen) as (G1 & G2 & G3 & G4 & I1 & I2 & I3 & _ & _ & _ & G8).
  assert (Hmg : mhg h = max_height pubs).
  { destruct d as [i|]; [rewrite <- G8; exact Hdisk|subst pubs; exact G8]. }
  destruct c.
  - constructor; [exact Hinv'| |]; cbn [disk published].
    + constructor; assumption.
    + unfold largest. rewrite I1, I3, Hmg. cbn [max_height]. reflexivity.
  - constructor; assumption.
  - congruence.
Qed.

Lemma run_inv_eq : forall g evs s, InvEq g s -> no_crash_after_persist evs -> InvEq g (run g init_header s evs).
Proof.
  induction evs as [|e evs IH]; intros s Hinv Hnc; cbn [run fold_left]; [exact Hinv|].
  apply IH.
  - apply step_inv_eq; [exact Hinv|]. intros ->. apply Hnc. left. reflexivity.
  - intros H. apply Hnc. right. exact H.
Qed.

Lemma crash_free_history_is_follower : forall g t0 evs,
  no_crash_after_persist evs ->
  let s := run g init_header (init t0) evs in
  follower (published s) /\
  (forall t h info, init_header (disk s) t g = Some (h, info) -> mhg h = max_height (published s)).
Proof.
  intros g t0 evs Hnc s.
  assert (H0 : InvEq g (init t0)) by (constructor; [apply init_inv|constructor|reflexivity]).
  pose proof (run_inv_eq g evs _ H0 Hnc) as [[_ Hgen Hd] Hfol Hdk]. fold s in Hgen, Hd, Hfol, Hdk.
  split; [exact Hfol|]. intros t h info Hh.
  destruct (forge_facts g (disk s) t h info (published s) Hh Hd Hgen) as (_ & _ & _ & _ & _ & _ & _ & _ & _ & _ & G8).
  destruct (disk s) as [i|]; [rewrite <- G8; exact Hdk|rewrite Hdk; exact G8].
Qed.

(* the generator only ever refuses when the new header would not exceed the persisted one; in particular it is
   never blocked once the tip key has grown past it (liveness side of the guard) *)
Lemma forge_not_refused_when_exceeding : forall d t g,
  match d with Some i => exceeds i (t_smhp t) (u32 (t_height t + 1)) = true | None => True end ->
  exists h info, init_header d t g = Some (h, info).
Proof.
  intros d t g H. unfold init_header. destruct d as [i|]; [rewrite H|]; unfold init_header_noguard; eauto.
Qed.

(* ------------------------------------------------------------------ the earlier versions are refuted *)
(* ORIGINAL (maxHeightGenerated = last height): 99,100 on chain A, then 90,91 on the better, shorter chain B *)
Definition w_evs : list ev :=
  [ EForge NoCrash; ETip {| t_smhp := 50; t_height := 99 |}; EForge NoCrash;
    ETip {| t_smhp := 60; t_height := 89 |}; EForge NoCrash; ETip {| t_smhp := 60; t_height := 90 |}; EForge NoCrash ].

Lemma never_self_contradicting_orig_refuted :
  exists g t0 evs b1 b2, let s := run g init_header_orig (init t0) evs in
    In b1 (published s) /\ In b2 (published s) /\ b1 <> b2 /\ contradicting b1 b2 = true.
Proof.
  exists 7, {| t_smhp := 50; t_height := 98 |}, w_evs, (Build_bh 91 7 90 60), (Build_bh 100 7 99 50).
  cbv zeta. split; [left; reflexivity|]. split; [right; right; left; reflexivity|]. split; [discriminate|]. vm_compute. reflexivity.
Qed.

(* FIRST REPAIR only (largest height, no guard): a second tick before the own block is processed double-forges,
   and a tip lowered by a failed sync yields a contradicting header *)
Lemma never_self_contradicting_noguard_refuted :
  (exists g t0 b1 b2, let s := run g init_header_noguard (init t0) [EForge NoCrash; EForge NoCrash] in
     In b1 (published s) /\ In b2 (published s) /\ b1 <> b2 /\ contradicting b1 b2 = true) /\
  (exists g t0 t1 b1 b2, let s := run g init_header_noguard (init t0) [EForge NoCrash; ETip t1; EForge NoCrash] in
     t_height t1 < t_height t0 /\ In b1 (published s) /\ In b2 (published s) /\ b1 <> b2 /\ contradicting b1 b2 = true).
Proof.
  split.
  - exists 7, {| t_smhp := 3; t_height := 3 |}, (Build_bh 4 7 4 3), (Build_bh 4 7 0 3). cbv zeta.
    split; [left; reflexivity|]. split; [right; left; reflexivity|]. split; [discriminate|]. vm_compute. reflexivity.
  - exists 7, {| t_smhp := 0; t_height := 6 |}, {| t_smhp := 0; t_height := 5 |}, (Build_bh 6 7 7 0), (Build_bh 7 7 0 0). cbv zeta.
    split; [cbn; lia|]. split; [left; reflexivity|]. split; [right; left; reflexivity|]. split; [discriminate|]. vm_compute. reflexivity.
Qed.

(* the same events on the current code *)
Example repaired_on_witness :
  map (fun b => (height b, mhg b)) (published (run 7 init_header (init {| t_smhp := 50; t_height := 98 |}) w_evs))
  = [(91, 100); (90, 100); (100, 99); (99, 0)] /\
  length (published (run 7 init_header (init {| t_smhp := 3; t_height := 3 |}) [EForge NoCrash; EForge NoCrash])) = 1%nat.
Proof. split; vm_compute; reflexivity. Qed.

(* ------------------------------------------------------------------ several generators on one node *)
Definition proj (g : N) (s : mst) : st :=
  {| disk := mdisk s g; node := mnode s; syncing := msyncing s; published := signed_by g (mpublished s) |}.

Lemma init_header_gen : forall d t g h info, init_header d t g = Some (h, info) -> gen h = g.
Proof.
  intros d t g h info H. pose proof (init_header_cases d t g) as Hc. rewrite H in Hc. cbv zeta in Hc.
  destruct Hc as (-> & _). reflexivity.
Qed.

Lemma mstep_inv : forall s e, (forall g, Inv g (proj g s)) -> forall g, Inv g (proj g (mstep init_header s e)).
Proof.
  intros s e Hall g. specialize (Hall g) as Hg.
  destruct e as [who c|t|b|]; cbn [mstep].
  - destruct (msyncing s) eqn:Esy; [exact Hg|].
    destruct (init_header (mdisk s who) (mnode s) who) as [[h info]|] eqn:Eh; [|exact Hg].
    pose proof (init_header_gen _ _ _ _ _ Eh) as Hgen.
    destruct (N.eq_dec g who) as [->|Hne].
    + (* the forging generator: its projection makes the single-generator step *)
      pose proof (step_inv who (proj who s) (EForge c) Hg) as Hs.
      unfold proj in Hs. cbn [step disk node syncing published] in Hs. rewrite Esy, Eh in Hs.
      destruct c; unfold proj, upd; cbn [mdisk mnode msyncing mpublished signed_by filter].
      * rewrite N.eqb_refl, Hgen, N.eqb_refl. exact Hs.
      * exact Hg.
      * rewrite N.eqb_refl. exact Hs.
    + (* any other generator: untouched *)
      assert (E1 : (g =? who) = false) by (apply N.eqb_neq; exact Hne).
      assert (E2 : (gen h =? g) = false) by (rewrite Hgen; apply N.eqb_neq; congruence).
      destruct c; unfold proj, upd; cbn [mdisk mnode msyncing mpublished signed_by filter]; rewrite ?E1, ?E2; try exact Hg.
      * destruct Hg as [A B C]. unfold proj in *. cbn [disk node syncing published] in *. constructor; assumption.
      * destruct Hg as [A B C]. unfold proj in *. cbn [disk node syncing published] in *. constructor; assumption.
  - destruct Hg as [A B C]. constructor; assumption.
  - destruct Hg as [A B C]. constructor; assumption.
  - destruct Hg as [A B C]. constructor; assumption.
Qed.

Lemma mrun_inv : forall evs s, (forall g, Inv g (proj g s)) -> forall g, Inv g (proj g (mrun init_header s evs)).
Proof.
  induction evs as [|e evs IH]; intros s H g; cbn [mrun fold_left]; [apply H|].
  apply IH. apply mstep_inv. exact H.
Qed.

(* several enabled keys, any interleaving of their forge ticks with crashes, tip changes, syncing and restarts: the
   headers signed by EACH generator are pairwise non-contradicting *)
Lemma never_self_contradicting_multi : forall t0 evs g,
  let s := mrun init_header (minit t0) evs in
  follower_ge (signed_by g (mpublished s)) /\ pairwise_noncontradicting (signed_by g (mpublished s)).
Proof.
  intros t0 evs g s.
  assert (H0 : forall g', Inv g' (proj g' (minit t0))) by (intros g'; constructor; cbn; [constructor|intros p []|reflexivity]).
  pose proof (mrun_inv evs _ H0 g) as [Hfol _ _]. fold s in Hfol. cbn [proj published] in Hfol.
  split; [exact Hfol|apply follower_ge_never_flagged; exact Hfol].
Qed.

(* and, since headers of different generators never contradict, ALL headers signed on the node *)
Lemma never_contradicting_multi_all : forall t0 evs b1 b2,
  let s := mrun init_header (minit t0) evs in
  In b1 (mpublished s) -> In b2 (mpublished s) -> b1 <> b2 -> contradicting b1 b2 = false.
Proof.
  intros t0 evs b1 b2 s H1 H2 Hne. destruct (N.eq_dec (gen b1) (gen b2)) as [E|E].
  - destruct (never_self_contradicting_multi t0 evs (gen b1)) as [_ Hp]. fold s in Hp. apply Hp; [| |exact Hne].
    + apply filter_In. split; [exact H1|apply N.eqb_refl].
    + apply filter_In. split; [exact H2|apply N.eqb_eq; congruence].
  - apply different_generators_never. exact E.
Qed.

(* a single shared in-memory copy of "the last info" instead of the per-address record (one cache slot for all keys):
   B generates 12, restart + switch to a better shorter chain, A generates 10, B generates 11 against A's record *)
Definition hdr_shared_cache (cache : option geninfo) (d : option geninfo) (t : tip) (g : N) :=
  init_header (match cache with Some i => Some i | None => d end) t g.

Lemma shared_cache_refuted :
  exists b1 b2 : bh, gen b1 = gen b2 /\ b1 <> b2 /\ contradicting b1 b2 = true /\
    (* B's first header, from its own record *)
    init_header None {| t_smhp := 5; t_height := 11 |} 2 = Some (b1, Build_geninfo 12 5 0) /\
    (* after the restart A generated (10,5,0); B's slot at tip 10 with the cache holding A's record *)
    hdr_shared_cache (Some (Build_geninfo 10 5 0)) (Some (Build_geninfo 12 5 0)) {| t_smhp := 5; t_height := 10 |} 2
      = Some (b2, Build_geninfo 11 5 10).
Proof.
  exists (Build_bh 12 2 0 5), (Build_bh 11 2 10 5). split; [reflexivity|]. split; [discriminate|].
  split; [vm_compute; reflexivity|]. split; vm_compute; reflexivity.
Qed.

(* ------------------------------------------------------------------ the header about to be signed vs the node's BFT store *)
Lemma forged_header_no_contradiction : forall g s t h info,
  Inv g s -> init_header (disk s) t g = Some (h, info) -> forall p, In p (published s) -> contradicting p h = false.
Proof.
  intros g s t h info [Hfol Hgen Hdisk] Hh p Hin.
  destruct (forge_facts g (disk s) t h info (published s) Hh Hdisk Hgen) as (G1 & G2 & G3 & G4 & _).
  destruct (G4 p Hin) as [Hg Hlex]. pose proof (max_height_ge _ _ Hin) as Hmh. pose proof (G3 p Hin) as Hmg.
  destruct (contradicting p h) eqn:Ec; [|reflexivity].
  apply contradicting_iff in Ec. destruct Ec as (_ & Hn & _). exfalso. apply Hn. unfold legit_successor. lia.
Qed.

From LE Require BFT.Votes.
(* IsHeaderContradictingChain (BFT.Votes.chain_contradicting: the newest window entry of the same generator decides) is
   false for the header the generator is about to sign, provided the window entries carrying this generator's address are
   headers it handed on (nobody else can sign for it) *)
Lemma forged_not_chain_contradicting : forall g s t h info (vts : Votes.votes) (hd : Votes.hdr),
  Inv g s -> init_header (disk s) t g = Some (h, info) -> Votes.bh_of_hdr hd = h ->
  (forall bi, In bi (Votes.v_infos vts) -> Votes.i_gen bi = g -> In (Votes.bh_of_info bi) (published s)) ->
  Votes.chain_contradicting vts hd = false.
Proof.
  intros g s t h info vts hd Hinv Hh Hb Hw. unfold Votes.chain_contradicting.
  destruct (find (fun bi => Votes.i_gen bi =? Votes.h_gen hd) (Votes.v_infos vts)) as [bi|] eqn:Ef; [|reflexivity].
  apply find_some in Ef. destruct Ef as [Hin Eg]. apply N.eqb_eq in Eg.
  rewrite Hb. eapply forged_header_no_contradiction; [exact Hinv|exact Hh|].
  apply Hw; [exact Hin|]. rewrite Eg. pose proof (init_header_gen _ _ _ _ _ Hh) as Hg. rewrite <- Hb in Hg. exact Hg.
Qed.

Lemma reachable_inv : forall g t0 evs, Inv g (run g init_header (init t0) evs).
Proof. intros. apply run_inv. apply init_inv. Qed.
