From Coq Require Import List NArith Bool Lia.
From Coq Require Import ZifyBool ZifyN.
From LE Require Import BFT.Contradiction BFT.ContradictionProofs Forge.GenInfo.
Import ListNotations.
Local Open Scope N_scope.

(* ------------------------------------------------------------------ follower_ge is never flagged *)
Lemma follower_ge_mhg_le : forall hs, follower_ge hs -> forall b, (forall p, In p hs -> mhg p <= mhg b) -> True.
Proof. auto. Qed.

Lemma follower_ge_never_flagged : forall hs, follower_ge hs -> pairwise_noncontradicting hs.
Proof.
  unfold pairwise_noncontradicting.
  induction 1 as [|b hs Hf IH Hm Hg Hp]; intros b1 b2 H1 H2 Hne; [contradiction|].
  assert (Hkey : forall p, In p hs -> contradicting p b = false).
  { intros p Hin. destruct (Hp p Hin) as [Hgen Hlex].
    pose proof (max_height_ge _ _ Hin) as Hh. pose proof (Hg p Hin) as Hmg.
    destruct (contradicting p b) eqn:Ec; [|reflexivity].
    apply contradicting_iff in Ec. destruct Ec as (_ & Hn & _). exfalso. apply Hn.
    unfold legit_successor. lia. }
  destruct H1 as [<-|H1], H2 as [<-|H2].
  - congruence.
  - rewrite contradicting_sym. auto.
  - auto.
  - auto.
Qed.

Lemma follower_is_follower_ge : forall hs, follower hs -> follower_ge hs.
Proof.
  induction 1 as [|b hs Hf IH Hm Hp]; constructor; auto.
  - rewrite Hm. lia.
  - intros p Hin. rewrite Hm. apply follower_mhg_le; assumption.
Qed.

(* ------------------------------------------------------------------ invariant of the repaired generator *)
Definition eff (s : st) : tip := match switching s with Some t0 => t0 | None => node s end.

Definition below (p : bh) (t : tip) : Prop :=
  mhp p < t_hmhp t \/ (mhp p = t_hmhp t /\ height p <= t_height t).

Definition largest (i : geninfo) : N := N.max (gi_height i) (gi_mhg i).

Record Inv (g : N) (s : st) : Prop := {
  inv_fol : follower_ge (published s);
  inv_gen : forall p, In p (published s) -> gen p = g;
  inv_below : forall p, In p (published s) -> below p (eff s);
  inv_ok_eff : tip_ok (eff s) = true;
  inv_ok_node : tip_ok (node s) = true;
  inv_disk : match disk s with
             | Some i => max_height (published s) <= largest i /\ forall p, In p (published s) -> mhg p <= largest i
             | None => published s = []
             end
}.

Lemma below_trans : forall p a b, below p a -> key_le a b = true -> below p b.
Proof. intros p a b H K. unfold below, key_le in *. lia. Qed.

Lemma u32_small : forall x, x < W32 -> u32 x = x.
Proof. intros. unfold u32. apply N.mod_small. assumption. Qed.

Lemma init_header_fields : forall d t g,
  let prev := match d with Some i => i | None => zero_info end in
  init_header d t g =
  (Build_bh (u32 (t_height t + 1)) g (largest prev) (t_smhp t),
   Build_geninfo (u32 (t_height t + 1)) (t_smhp t) (largest prev)).
Proof. intros. reflexivity. Qed.

Lemma step_inv : forall g s e s', Inv g s -> step g init_header s e = Some s' -> Inv g s'.
Proof.
  intros g s e s' [Hfol Hgen Hbelow Hoke Hokn Hdisk] Hstep.
  destruct s as [d nd sw pubs]. unfold eff in *. cbn [disk node switching published] in *.
  destruct e as [c after|t| |t|t| |]; cbn [step disk node switching published] in Hstep.
  - (* forge *)
    destruct sw as [t0|]; [discriminate|].
    rewrite init_header_fields in Hstep. cbv zeta in Hstep.
    set (prev := match d with Some i => i | None => zero_info end) in *.
    assert (Hmax : max_height pubs <= largest prev /\ forall p, In p pubs -> mhg p <= largest prev).
    { subst prev. destruct d as [i|]; [exact Hdisk|]. subst pubs. cbn. split; [lia|intros p []]. }
    destruct Hmax as [Hmax Hmg].
    assert (Hh : u32 (t_height nd + 1) = t_height nd + 1) by (apply u32_small; unfold tip_ok in Hokn; lia).
    destruct c.
    + (* no crash *)
      destruct (tip_ok {| t_hmhp := t_smhp nd; t_smhp := after; t_height := t_height nd + 1 |}) eqn:Hok'; [|discriminate].
      injection Hstep as <-. rewrite Hh.
      assert (Hnew : forall p, In p pubs -> gen p = g /\
                (mhp p < t_smhp nd \/ (mhp p = t_smhp nd /\ height p < t_height nd + 1))).
      { intros p Hin. split; [apply Hgen; assumption|]. specialize (Hbelow p Hin). unfold below, tip_ok in *. lia. }
      constructor; cbn [disk node switching published eff].
      * constructor; cbn [mhg gen mhp height]; auto.
      * intros p [<-|Hin]; [reflexivity|apply Hgen; assumption].
      * intros p [<-|Hin]; unfold below; cbn [mhp height t_hmhp t_height].
        -- right. split; lia.
        -- destruct (Hnew p Hin) as [_ H]. lia.
      * exact Hok'.
      * exact Hok'.
      * unfold largest; cbn [gi_height gi_mhg max_height height]. split.
        -- fold (largest prev). lia.
        -- intros p [<-|Hin]; cbn [mhg]; [fold (largest prev); lia|]. specialize (Hmg p Hin). fold (largest prev). lia.
    + (* crash before persist *)
      injection Hstep as <-. constructor; assumption.
    + (* crash after persist *)
      injection Hstep as <-. constructor; cbn [disk node switching published eff]; auto.
      unfold largest; cbn [gi_height gi_mhg]. fold (largest prev). split; [lia|].
      intros p Hin. specialize (Hmg p Hin). lia.
  - (* tip by fork choice *)
    destruct sw as [t0|]; [discriminate|].
    destruct (tip_ok t && key_le nd t) eqn:G; [|discriminate]. injection Hstep as <-.
    apply andb_true_iff in G. destruct G as [G1 G2].
    constructor; cbn [disk node switching published eff]; auto.
    intros p Hin. eapply below_trans; [apply Hbelow; assumption|exact G2].
  - (* switch begin *)
    destruct sw as [t0|]; [discriminate|]. injection Hstep as <-.
    constructor; cbn [disk node switching published eff]; auto.
  - (* delete *)
    destruct sw as [t0|]; [|discriminate]. destruct (tip_ok t) eqn:G; [|discriminate]. injection Hstep as <-.
    constructor; cbn [disk node switching published eff]; auto.
  - (* apply *)
    destruct sw as [t0|]; [|discriminate]. destruct (tip_ok t) eqn:G; [|discriminate]. injection Hstep as <-.
    constructor; cbn [disk node switching published eff]; auto.
  - (* switch end *)
    destruct sw as [t0|]; [|discriminate]. destruct (key_le t0 nd) eqn:G; [|discriminate]. injection Hstep as <-.
    constructor; cbn [disk node switching published eff]; auto.
    intros p Hin. eapply below_trans; [apply Hbelow; assumption|exact G].
  - (* restart *)
    destruct sw as [t0|]; [discriminate|]. injection Hstep as <-. constructor; assumption.
Qed.

Lemma init_inv : forall g t, tip_ok t = true -> Inv g (init t).
Proof.
  intros g t Hok. constructor; cbn; auto.
  - constructor.
  - intros p [].
  - intros p [].
Qed.

Lemma run_inv : forall g evs s s', Inv g s -> run g init_header s evs = Some s' -> Inv g s'.
Proof.
  induction evs as [|e evs IH]; intros s s' Hinv Hrun; cbn [run] in Hrun.
  - injection Hrun as <-. assumption.
  - destruct (step g init_header s e) as [s1|] eqn:E; [|discriminate].
    eapply IH; [eapply step_inv; eassumption|exact Hrun].
Qed.

(* C15: over all sequences of forge (with and without crashes) / tip change / switch / delete / apply / restart *)
Lemma never_self_contradicting : forall g t0 evs s,
  tip_ok t0 = true -> run g init_header (init t0) evs = Some s ->
  follower_ge (published s) /\ pairwise_noncontradicting (published s).
Proof.
  intros g t0 evs s Hok Hrun. pose proof (run_inv g evs _ _ (init_inv g t0 Hok) Hrun) as [Hfol _ _ _ _ _].
  split; [exact Hfol|apply follower_ge_never_flagged; exact Hfol].
Qed.

(* the largest height ever handed on is covered by what is on disk at that moment (persist before hand-off),
   and that is what the next header reports *)
Lemma persisted_covers_published : forall g t0 evs s,
  tip_ok t0 = true -> run g init_header (init t0) evs = Some s ->
  match disk s with
  | Some i => max_height (published s) <= N.max (gi_height i) (gi_mhg i)
  | None => published s = []
  end.
Proof.
  intros g t0 evs s Hok Hrun. pose proof (run_inv g evs _ _ (init_inv g t0 Hok) Hrun) as [_ _ _ _ _ Hd].
  destruct (disk s); [apply Hd|exact Hd].
Qed.

(* ------------------------------------------------------------------ crash-free runs: exactly [follower] of C07 *)
Record InvEq (g : N) (s : st) : Prop := {
  ie_inv : Inv g s;
  ie_fol : follower (published s);
  ie_disk : match disk s with
            | Some i => largest i = max_height (published s)
            | None => published s = []
            end
}.

Lemma step_inv_eq : forall g s e s', InvEq g s -> (forall a, e <> EForge CrashAfterPersist a) ->
  step g init_header s e = Some s' -> InvEq g s'.
Proof.
  intros g s e s' [Hinv Hfol Hdisk] Hnc Hstep. pose proof (step_inv g s e s' Hinv Hstep) as Hinv'.
  constructor; [exact Hinv'| |].
  - destruct Hinv as [_ Hgen Hbelow _ Hokn _].
    destruct s as [d nd sw pubs]. unfold eff in *. cbn [disk node switching published] in *.
    destruct e as [c after|t| |t|t| |]; cbn [step disk node switching published] in Hstep.
    + destruct sw as [t0|]; [discriminate|]. rewrite init_header_fields in Hstep. cbv zeta in Hstep.
      set (prev := match d with Some i => i | None => zero_info end) in *.
      assert (Hmax : largest prev = max_height pubs).
      { subst prev. destruct d as [i|]; [exact Hdisk|]. subst pubs. reflexivity. }
      assert (Hh : u32 (t_height nd + 1) = t_height nd + 1) by (apply u32_small; unfold tip_ok in Hokn; lia).
      destruct c.
      * destruct (tip_ok {| t_hmhp := t_smhp nd; t_smhp := after; t_height := t_height nd + 1 |}) eqn:Hok'; [|discriminate]. injection Hstep as <-. cbn [published]. rewrite Hh.
        constructor; cbn [mhg gen mhp height]; auto.
        intros p Hin. split; [apply Hgen; assumption|]. specialize (Hbelow p Hin). unfold below, tip_ok in *. lia.
      * injection Hstep as <-. exact Hfol.
      * exfalso. apply (Hnc after). reflexivity.
    + destruct sw; [discriminate|]. destruct (tip_ok t && key_le nd t); [|discriminate]. injection Hstep as <-. exact Hfol.
    + destruct sw; [discriminate|]. injection Hstep as <-. exact Hfol.
    + destruct sw; [|discriminate]. destruct (tip_ok t); [|discriminate]. injection Hstep as <-. exact Hfol.
    + destruct sw; [|discriminate]. destruct (tip_ok t); [|discriminate]. injection Hstep as <-. exact Hfol.
    + destruct sw as [t0|]; [|discriminate]. destruct (key_le t0 nd); [|discriminate]. injection Hstep as <-. exact Hfol.
    + destruct sw; [discriminate|]. injection Hstep as <-. exact Hfol.
  - destruct Hinv as [_ _ _ _ Hokn _].
    destruct s as [d nd sw pubs]. cbn [disk node switching published] in *.
    destruct e as [c after|t| |t|t| |]; cbn [step disk node switching published] in Hstep.
    + destruct sw as [t0|]; [discriminate|]. rewrite init_header_fields in Hstep. cbv zeta in Hstep.
      set (prev := match d with Some i => i | None => zero_info end) in *.
      assert (Hmax : largest prev = max_height pubs).
      { subst prev. destruct d as [i|]; [exact Hdisk|]. subst pubs. reflexivity. }
      destruct c.
      * destruct (tip_ok {| t_hmhp := t_smhp nd; t_smhp := after; t_height := t_height nd + 1 |}) eqn:Hok'; [|discriminate]. injection Hstep as <-. cbn [disk published].
        unfold largest at 1; cbn [gi_height gi_mhg max_height height]. rewrite Hmax. reflexivity.
      * injection Hstep as <-. exact Hdisk.
      * exfalso. apply (Hnc after). reflexivity.
    + destruct sw; [discriminate|]. destruct (tip_ok t && key_le nd t); [|discriminate]. injection Hstep as <-. exact Hdisk.
    + destruct sw; [discriminate|]. injection Hstep as <-. exact Hdisk.
    + destruct sw; [|discriminate]. destruct (tip_ok t); [|discriminate]. injection Hstep as <-. exact Hdisk.
    + destruct sw; [|discriminate]. destruct (tip_ok t); [|discriminate]. injection Hstep as <-. exact Hdisk.
    + destruct sw as [t0|]; [|discriminate]. destruct (key_le t0 nd); [|discriminate]. injection Hstep as <-. exact Hdisk.
    + destruct sw; [discriminate|]. injection Hstep as <-. exact Hdisk.
Qed.

Lemma run_inv_eq : forall g evs s s', InvEq g s -> no_crash_after_persist evs ->
  run g init_header s evs = Some s' -> InvEq g s'.
Proof.
  induction evs as [|e evs IH]; intros s s' Hinv Hnc Hrun; cbn [run] in Hrun.
  - injection Hrun as <-. assumption.
  - destruct (step g init_header s e) as [s1|] eqn:E; [|discriminate].
    eapply IH; [eapply step_inv_eq; [exact Hinv| |exact E]| |exact Hrun].
    + intros a Ha. apply (Hnc a). left. exact Ha.
    + intros a Ha. apply (Hnc a). right. exact Ha.
Qed.

Lemma crash_free_history_is_follower : forall g t0 evs s,
  tip_ok t0 = true -> no_crash_after_persist evs -> run g init_header (init t0) evs = Some s ->
  follower (published s) /\
  (forall t, mhg (fst (init_header (disk s) t g)) = max_height (published s)).
Proof.
  intros g t0 evs s Hok Hnc Hrun.
  assert (H0 : InvEq g (init t0)).
  { constructor; [apply init_inv; assumption|constructor|reflexivity]. }
  pose proof (run_inv_eq g evs _ _ H0 Hnc Hrun) as [_ Hfol Hd]. split; [exact Hfol|].
  intros t. rewrite init_header_fields. cbn [fst mhg].
  destruct (disk s) as [i|]; [exact Hd|]. rewrite Hd. reflexivity.
Qed.

(* ------------------------------------------------------------------ the original initBlockHeader is refuted *)
Definition w_evs : list ev :=
  [ EForge NoCrash 50; EForge NoCrash 50;                 (* heights 99 and 100 on chain A *)
    ETip {| t_hmhp := 60; t_smhp := 60; t_height := 89 |}; (* better (higher maxHeightPrevoted), shorter chain B *)
    EForge NoCrash 60; EForge NoCrash 60 ].               (* heights 90 and 91 on chain B *)

Lemma never_self_contradicting_orig_refuted :
  exists g t0 evs s, tip_ok t0 = true /\ run g init_header_orig (init t0) evs = Some s /\
    exists b1 b2, In b1 (published s) /\ In b2 (published s) /\ b1 <> b2 /\ contradicting b1 b2 = true.
Proof.
  exists 7, {| t_hmhp := 50; t_smhp := 50; t_height := 98 |}, w_evs.
  eexists. split; [reflexivity|]. split; [vm_compute; reflexivity|].
  exists (Build_bh 91 7 90 60), (Build_bh 100 7 99 50).
  split; [left; reflexivity|]. split; [right; right; left; reflexivity|]. split; [discriminate|]. vm_compute. reflexivity.
Qed.

(* the same events on the repaired code *)
Example repaired_on_witness :
  exists s, run 7 init_header (init {| t_hmhp := 50; t_smhp := 50; t_height := 98 |}) w_evs = Some s /\
            map mhg (published s) = [100; 100; 99; 0].
Proof. eexists. split; vm_compute; reflexivity. Qed.
