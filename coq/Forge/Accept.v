(* "Every block the generator produces is accepted by the same node's block validation at that moment":
   the block is CONSTRUCTED here from the node's own environment (the venv of Exec.VerifyBlock: clock, generator list, BFT
   heights), the generator's persisted info (Forge.GenInfo), the selection (Forge.Select) and the same root functions the
   validator uses; what remains as hypotheses is listed at the theorem. *)
From Coq Require Import List NArith Bool Lia.
From LE Require Import Exec.VerifyBlock Exec.Process Forge.Seal.
From LE Require BFT.Contradiction BFT.Votes Forge.GenInfo Forge.GenInfoProofs Forge.Select Forge.SelectProofs.
Import ListNotations.
Local Open Scope N_scope.

(* a selected transaction as the validator sees it: ID, size, statically valid (the pool only holds such) *)
Definition to_vtx (idf : N -> bstr) (t : Select.tx) : tx := mkTx (idf (Select.tid t)) (Select.size t) true.

Lemma payload_of_selection : forall idf out h assets,
  payload_size (mkBlk h (map (to_vtx idf) out) assets) = Select.sum_size out.
Proof.
  intros idf out h assets. unfold payload_size. cbn [b_txs].
  induction out as [|t r IH]; [reflexivity|]. cbn [map fold_right Select.sum_size]. unfold Select.sum_size in IH. rewrite IH. reflexivity.
Qed.

Lemma static_of_selection : forall idf out, forallb tx_static (map (to_vtx idf) out) = true.
Proof. induction out as [|t r IH]; [reflexivity|]. cbn [map forallb to_vtx tx_static]. exact IH. Qed.

Section Accept.
  (* the same functions on both sides *)
  Variable txroot_f : list tx -> bstr.        (* rmt.CalculateRoot of the transaction IDs *)
  Variable assetroot_f : list asset -> bstr.  (* BlockAssets.GetRoot *)
  Variable idf : N -> bstr.                   (* transaction code -> its 32-byte ID *)

  (* forge(): everything read from the node's own environment [v] at that moment *)
  Definition forge (tip : header) (v : venv) (disk : option GenInfo.geninfo) (out : list Select.tx) (assets : list asset)
             (imp : bool) (agg : N * bstr * bstr) (eventroot stateroot vhash sig id : bstr) : option block :=
    match ve_generators v with
    | [] => None
    | gs =>
        match nth_error gs (N.to_nat (slot_of v (ve_now v) mod N.of_nat (length gs))) with
        | None => None
        | Some addr =>
            match GenInfo.init_header disk {| GenInfo.t_smhp := ve_node_mhp v; GenInfo.t_height := h_height tip |} (b_code addr) with
            | None => None                       (* the guard refuses *)
            | Some (bh, _) =>
                let txs := map (to_vtx idf) out in
                Some (forge_block tip
                        (mkGE (ve_now v) addr (Contradiction.mhp bh) (Contradiction.mhg bh) imp (fst (fst agg)) (snd (fst agg)) (snd agg)
                              txs assets (txroot_f txs) (assetroot_f assets) eventroot stateroot vhash sig id))
            end
        end
    end.

  (* REMAINING hypotheses (docs/C15.md):
     S  static shape: IDs 32 bytes, addresses 20, signatures 64; sealBlock sorted the assets (distinct modules)
     L  the generator's size limit is the chain's (same configuration value)
     T  shouldForge: the current slot is after the tip's slot
     G  the generator list for the next height could be read
     W  the window entries of the node's BFT store that carry this generator's address are headers it handed on
        (signatures are unforgeable), and the verifier's contradiction verdict is IsHeaderContradictingChain on that store
     A  the aggregate commit returned by GetAggregateCommit passes verifyAggregateCommit (C06; or the empty commit)
     X  signature verification succeeds for a signature made with the key registered for the generator
     D  determinism of the application: executing the block replays the answers of the generation (every selected
        transaction verified and executed, same events, same next parameters), and it computes the state root [app_root] *)
  Theorem generated_block_accepted_composed :
    forall s tip v x limit outcome pool trace out assets imp agg eventroot vhash sig id app_root
           g t0 evs (vts : Votes.votes) b,
    let gs := GenInfo.run g GenInfo.init_header (GenInfo.init t0) evs in
    tip_header s = Some tip ->
    Select.valid_selection limit outcome pool trace out = true ->
    forge tip v (GenInfo.disk gs) out assets imp agg eventroot app_root vhash sig id = Some b ->
    g = b_code (h_gen (b_header b)) ->
    (* S *) b_len (h_id tip) = 32 -> b_len (h_gen (b_header b)) = 20 -> b_len sig = 64 ->
            strictly_sorted (map as_module assets) = true ->
    (* L *) limit <= ve_max_payload v ->
    (* T *) slot_of v (h_timestamp tip) < slot_of v (ve_now v) ->
    (* G *) ve_gen_lookup_ok v = true ->
    (* W *) (forall bi, In bi (Votes.v_infos vts) -> Votes.i_gen bi = g ->
              In (Votes.bh_of_info bi) (GenInfo.published gs)) ->
            ve_contradicting v = Votes.chain_contradicting vts
              {| Votes.h_height := h_height (b_header b); Votes.h_gen := g; Votes.h_mhg := h_mhg (b_header b);
                 Votes.h_mhp := h_mhp (b_header b); Votes.h_cert := None |} ->
    (* A *) agg_commit_ok (b_header b) v = true ->
    (* X *) ve_sig_ok v = true ->
    (* D *) xe_abi_init_ok x = true -> xe_abi_verify_assets_ok x = true -> xe_bft_ok x = true -> xe_abi_before_ok x = true ->
            (forall p, In p (xe_tx x) -> p = (true, true)) -> xe_abi_after_ok x = true ->
            (xe_params_changed x = true -> xe_set_params_ok x = true) ->
            xe_post_vhash x = vhash -> xe_nevents x <= max_events -> xe_eventroot x = eventroot ->
            xe_abi_commit_ok x = beq app_root (h_stateroot (b_header b)) ->
    receive s b (mkPE (txroot_f (b_txs b)) (assetroot_f (b_assets b))) v x = (Accepted, commit_block s b x).
  Proof.
    intros s tip v x limit outcome pool trace out assets imp agg eventroot vhash sig id app_root g t0 evs vts b gs
           Htip Hsel Hforge Hg S1 S2 S3 S4 L T G W1 W2 A X D1 D2 D3 D4 D5 D6 D7 D8 D9 D10 D11.
    unfold forge in Hforge. destruct (ve_generators v) as [|g0 gl] eqn:Egs; [discriminate|]. rewrite <- Egs in *.
    destruct (nth_error (ve_generators v) (N.to_nat (slot_of v (ve_now v) mod N.of_nat (length (ve_generators v))))) as [addr|] eqn:Enth; [|discriminate].
    destruct (GenInfo.init_header (GenInfo.disk gs) _ (b_code addr)) as [[bh info]|] eqn:Eh; [|discriminate].
    injection Hforge as <-. cbn [b_header forge_block h_gen] in Hg, S2, W2, A, D11 |- *.
    pose proof (GenInfoProofs.init_header_cases (GenInfo.disk gs) {| GenInfo.t_smhp := ve_node_mhp v; GenInfo.t_height := h_height tip |} (b_code addr)) as Hc.
    rewrite Eh in Hc. cbv zeta in Hc. destruct Hc as (Hbh & _ & _).
    assert (Hmhp : Contradiction.mhp bh = ve_node_mhp v) by (rewrite Hbh; reflexivity).
    (* W: the contradiction verdict *)
    assert (Hcontra : ve_contradicting v = false).
    { rewrite W2. subst g. eapply GenInfoProofs.forged_not_chain_contradicting;
        [apply GenInfoProofs.reachable_inv|exact Eh| |exact W1].
      cbn [forge_block b_header h_height h_mhg h_mhp]. unfold Votes.bh_of_hdr. cbn [Votes.h_height Votes.h_gen Votes.h_mhg Votes.h_mhp].
      rewrite Hbh. cbn [Contradiction.mhg Contradiction.mhp GenInfo.t_smhp GenInfo.t_height]. unfold GenInfo.u32, u32. reflexivity. }
    (* payload from the selection theorem *)
    destruct (SelectProofs.selection_spec limit outcome pool trace out Hsel) as (_ & Hsize & _).
    eapply generated_block_accepted; cbn [ge_generator ge_sig ge_txs ge_assets ge_txroot ge_assetroot ge_now ge_mhp ge_vhash ge_eventroot pe_txroot pe_assetroot b_txs b_assets forge_block];
      try eassumption; try reflexivity.
    all: try apply static_of_selection; try apply N.le_refl; try (rewrite Egs; discriminate).
    all: try (unfold forge_block; cbn [ge_txs ge_assets]; rewrite payload_of_selection; eapply N.le_trans; [exact Hsize|exact L]).
    all: try (rewrite D11; cbn [b_header forge_block h_stateroot ge_stateroot]; apply beq_refl).
  Qed.
End Accept.

(* ---------------------------------------------------------------- non-vacuity: an instantiated run *)
(* a tip at height 5 in slot 10, now in slot 12 whose generator is the first of two validators; the generator generated
   height 4 before (persisted info (4, 2, 0)); two selected transactions; roots as list sums; empty aggregate commit *)
Module Ex.
  Definition B32 (c : N) := mkB 32 c.
  Definition txroot_f (l : list tx) : bstr := B32 (fold_right (fun t a => b_code (tx_id t) + a) 0 l).
  Definition assetroot_f (l : list asset) : bstr := B32 (fold_right (fun a acc => as_module a + acc) 0 l).
  Definition tipH : header :=
    mkH 2 100 5 (B32 40) (mkB 20 1) (B32 0) (B32 0) (B32 0) (B32 0) 2 0 false (B32 9) 0 (mkB 0 0) (mkB 0 0) (mkB 64 1) (B32 50).
  Definition tipB : block := mkBlk tipH [] [].
  Definition v : venv := mkVE 0 10 125 15360 true [mkB 20 1; mkB 20 2] 3 false 0 0 None true true true.
  Definition pool : list Select.tx := [Select.Build_tx 1 0 1000 100 1; Select.Build_tx 2 0 5000 100 2].
  Definition out : list Select.tx := [Select.Build_tx 2 0 5000 100 2; Select.Build_tx 1 0 1000 100 1].
  Definition blk : option block :=
    forge txroot_f assetroot_f B32 tipH v (Some (GenInfo.Build_geninfo 4 2 0)) out [] false (0, mkB 0 0, mkB 0 0) (B32 7) (B32 8) (B32 9) (mkB 64 5) (B32 60).
  Definition x : xenv := mkXE true true true true [(true, true); (true, true)] true false true (B32 9) 1 (B32 7) 0 true 0.

  Example selection_valid : Select.valid_selection 15360 (fun _ _ => Select.Good) pool out out = true.
  Proof. vm_compute. reflexivity. Qed.

  Example forged_and_accepted :
    match blk with
    | Some b => h_height (b_header b) = 6 /\ h_mhg (b_header b) = 4 /\ h_mhp (b_header b) = 3 /\ h_gen (b_header b) = mkB 20 1 /\
                fst (receive (mkNode [tipB] 0 0 [] (B32 8)) b (mkPE (txroot_f (b_txs b)) (assetroot_f (b_assets b))) v x) = Accepted
    | None => False
    end.
  Proof. vm_compute. repeat split; reflexivity. Qed.
End Ex.

(* ---------------------------------------------------------------- hypothesis T and shouldForge *)
(* Generator.shouldForge (not syncing): refuse when the current slot is the tip's slot; refuse when slots were skipped and
   the wait threshold of the current slot has not passed; otherwise forge.  Slots are Go ints. *)
From Coq Require Import ZArith.
Definition should_forge (cur_slot last_slot : Z) (now slot_start wait : Z) : bool :=
  if (cur_slot =? last_slot)%Z then false
  else if (last_slot <? cur_slot - 1)%Z && (now <=? slot_start + wait)%Z then false
  else true.

(* with a clock that never shows a slot before the tip's (the tip was accepted when its slot was not in the future, and
   the clock is monotone), shouldForge implies hypothesis T: the current slot is strictly after the tip's *)
Lemma should_forge_implies_T : forall cur last now start wait,
  (last <= cur)%Z -> should_forge cur last now start wait = true -> (last < cur)%Z.
Proof.
  intros cur last now start wait Hle H. unfold should_forge in H.
  destruct (cur =? last)%Z eqn:E; [discriminate|]. apply Z.eqb_neq in E. lia.
Qed.

(* without that assumption it does not: a clock stepped back below the tip's slot still lets the generator sign a block,
   which its own validation rejects as a past slot.  Decision: assumption (monotone clock), see docs/C15.md *)
Lemma should_forge_clock_back_refuted :
  exists cur last now start wait, should_forge cur last now start wait = true /\ (cur < last)%Z.
Proof. exists 5%Z, 6%Z, 50%Z, 50%Z, 2%Z. split; [vm_compute; reflexivity|lia]. Qed.
