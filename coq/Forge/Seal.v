(* Composition of the generator with the block acceptance model of the executer builder (Exec.VerifyBlock,
   Exec.Process): the block assembled by forge() — initBlockHeader + selection + sealBlock — field by field, and the
   statement that the node's own `receive` (Block.Validate, verifyBlock, execution) accepts it. *)
From Coq Require Import List NArith Bool Lia.
From Coq Require Import ZifyBool ZifyN.
From LE Require Import Exec.VerifyBlock Exec.Process.
Import ListNotations.
Local Open Scope N_scope.

(* what forge() obtains and computes *)
Record genv := mkGE {
  ge_now : N;                  (* uint32(time.Now().Unix()) in initBlockHeader *)
  ge_generator : bstr;         (* generators.AtTimestamp(now).Address(), an enabled key *)
  ge_mhp : N;                  (* GetBFTHeights *)
  ge_mhg : N;                  (* from the persisted GeneratorInfo (Forge.GenInfo) *)
  ge_imp : bool;
  ge_agg_height : N; ge_agg_bits : bstr; ge_agg_sig : bstr;   (* GetAggregateCommit *)
  ge_txs : list tx;            (* limitTransactionsWithSize (selectTransactionsByFee ...) *)
  ge_assets : list asset;      (* InsertAssets, sorted by sealBlock *)
  ge_txroot : bstr; ge_assetroot : bstr; ge_eventroot : bstr; ge_stateroot : bstr;
  ge_vhash : bstr;             (* GetBFTParameters(height+1).ValidatorsHash() after AfterTransactionsExecute *)
  ge_sig : bstr; ge_id : bstr }.

Definition forge_block (tip : header) (g : genv) : block :=
  mkBlk (mkH 2 (ge_now g) (u32 (h_height tip + 1)) (h_id tip) (ge_generator g)
             (ge_txroot g) (ge_assetroot g) (ge_eventroot g) (ge_stateroot g)
             (ge_mhp g) (ge_mhg g) (ge_imp g) (ge_vhash g)
             (ge_agg_height g) (ge_agg_bits g) (ge_agg_sig g) (ge_sig g) (ge_id g))
        (ge_txs g) (ge_assets g).

Lemma beq_refl : forall a, beq a a = true.
Proof. intros a. unfold beq. rewrite !N.eqb_refl. reflexivity. Qed.

Lemma tx_loop_all_ok : forall n ans, (forall p, In p ans -> p = (true, true)) -> tx_loop n ans = None.
Proof.
  induction n as [|n IH]; intros ans H; cbn [tx_loop]; [reflexivity|]. destruct ans as [|[v x] r]; [reflexivity|].
  pose proof (H (v, x) (or_introl eq_refl)) as E. injection E as -> ->. cbn. apply IH. intros p Hp. apply H. right. exact Hp.
Qed.

(* the hypotheses are exactly what has to line up between generation and acceptance; each is discharged elsewhere or
   is an assumption listed in docs/C15.md *)
Lemma generated_block_accepted : forall s tip g pe v x,
  tip_header s = Some tip ->
  (* static shape: IDs are 32 bytes, addresses 20, Sign produces 64 bytes; pool transactions are statically valid;
     sealBlock sorts the assets (module names unique) *)
  b_len (h_id tip) = 32 -> b_len (ge_generator g) = 20 -> b_len (ge_sig g) = 64 ->
  forallb tx_static (ge_txs g) = true -> strictly_sorted (map as_module (ge_assets g)) = true ->
  (* the roots are computed by the same functions over the same payload *)
  pe_txroot pe = ge_txroot g -> pe_assetroot pe = ge_assetroot g ->
  (* C15_selection_spec: payload within Genesis.MaxTransactionsSize, which is the chain's MaxTransactionsLength *)
  payload_size (forge_block tip g) <= ve_max_payload v ->
  (* shouldForge: the slot of now is after the tip's slot; the verifier's clock is not behind *)
  slot_of v (h_timestamp tip) < slot_of v (ge_now g) -> slot_of v (ge_now g) <= slot_of v (ve_now v) ->
  (* same generator list, same slot arithmetic (AtTimestamp) *)
  ve_gen_lookup_ok v = true -> ve_generators v <> [] ->
  nth_error (ve_generators v) (N.to_nat (slot_of v (ge_now g) mod N.of_nat (length (ve_generators v)))) = Some (ge_generator g) ->
  (* same BFT state: the header carries the node's maxHeightPrevoted *)
  ge_mhp g = ve_node_mhp v ->
  (* C15_never_self_contradicting + the vote model of C02/C07; C06 for the aggregate commit; Ed25519 correctness *)
  ve_contradicting v = false -> agg_commit_ok (b_header (forge_block tip g)) v = true -> ve_sig_ok v = true ->
  (* execution replays what generation did on the same state: same answers, every selected transaction verified and
     executed, same events, same next parameters *)
  xe_abi_init_ok x = true -> xe_abi_verify_assets_ok x = true -> xe_bft_ok x = true -> xe_abi_before_ok x = true ->
  (forall p, In p (xe_tx x) -> p = (true, true)) -> xe_abi_after_ok x = true ->
  (xe_params_changed x = true -> xe_set_params_ok x = true) ->
  xe_post_vhash x = ge_vhash g -> xe_nevents x <= max_events -> xe_eventroot x = ge_eventroot g -> xe_abi_commit_ok x = true ->
  receive s (forge_block tip g) pe v x = (Accepted, commit_block s (forge_block tip g) x).
Proof.
  intros s tip g pe v x Htip L1 L2 L3 Hst Has R1 R2 Hsz T1 T2 G1 G0 G2 M C A S X1 X2 X3 X4 Xt X5 X6 V NE ER CM.
  unfold receive, block_validate, forge_block. cbn [b_header b_txs b_assets h_prev h_gen h_sig h_txroot h_assetroot].
  unfold header_static. cbn [h_prev h_gen h_sig]. rewrite L1, L2, L3. cbn [N.eqb Pos.eqb andb negb].
  rewrite Hst, Has, R1, R2, !beq_refl. cbn [negb].
  unfold process_validated. rewrite Htip. unfold verify_block.
  cbn [b_header h_version h_height h_prev h_timestamp h_gen h_mhp].
  fold (forge_block tip g).
  assert (E1 : (ve_max_payload v <? payload_size (forge_block tip g)) = false) by (apply N.ltb_ge; exact Hsz). rewrite E1.
  rewrite N.eqb_refl, beq_refl. cbn [negb N.eqb Pos.eqb].
  assert (E2 : (slot_of v (ve_now v) <? slot_of v (ge_now g)) = false) by (apply N.ltb_ge; exact T2). rewrite E2.
  assert (E3 : (slot_of v (ge_now g) <=? slot_of v (h_timestamp tip)) = false) by (apply N.leb_gt; exact T1). rewrite E3.
  rewrite G1. cbn [negb]. destruct (ve_generators v) as [|g0 gs] eqn:Eg; [congruence|]. rewrite <- Eg in *. rewrite G2.
  unfold forge_block in A; cbn [b_header] in A. rewrite A.
  rewrite beq_refl, M, N.eqb_refl, C, S. cbn [negb].
  unfold execute_block. rewrite X1, X2, X3, X4. cbn [negb]. rewrite (tx_loop_all_ok _ _ Xt). rewrite X5. cbn [negb].
  assert (E4 : (xe_params_changed x && negb (xe_set_params_ok x)) = false).
  { destruct (xe_params_changed x); [rewrite X6 by reflexivity|]; reflexivity. }
  rewrite E4. cbn [b_header h_vhash h_eventroot forge_block]. rewrite V, ER, !beq_refl. cbn [negb].
  assert (E5 : (max_events <? xe_nevents x) = false) by (apply N.ltb_ge; exact NE). rewrite E5, CM, ?N.eqb_refl. reflexivity.
Qed.

(* the aggregate commit GetAggregateCommit returns when nothing can be aggregated — empty, at maxHeightCertified — passes *)
Lemma empty_agg_commit_ok : forall tip g v,
  b_len (ge_agg_bits g) = 0 -> b_len (ge_agg_sig g) = 0 -> ge_agg_height g = ve_mh_cert v ->
  agg_commit_ok (b_header (forge_block tip g)) v = true.
Proof.
  intros tip g v B S H. unfold agg_commit_ok, forge_block. cbn [b_header h_agg_bits h_agg_sig h_agg_height].
  rewrite B, S, H. cbn [N.eqb andb]. rewrite N.eqb_refl. reflexivity.
Qed.
