(* C11 — right witnesses, part 1.  For a position idx (1 <= idx <= n) let t = idx - 1 and a i = t / 2^i, the index of
   the ancestor of leaf t in layer i.  Both Go loops keep incrementalIdx = (a i + 1) * 2^i at layer i, so "digit i of
   incrementalIdx is set" means "the ancestor is a left child".  The right witness is the list of existing right
   siblings of those ancestors (rwFrom); the append path of the first idx leaves is the list of the perfect blocks
   (idx / 2^i - 1 at the layers where idx / 2^i is odd) (apFrom). *)
From Coq Require Import List Arith NArith ZArith Lia Bool ZifyBool ZifyN ZifyNat.
From LE Require Import RMT.Root RMT.Append RMT.AppendProofs RMT.Proof RMT.NodeProofs RMT.IndexProofs RMT.ProofCompleteTop.
Import ListNotations.
Local Open Scope N_scope.
Ltac Zify.zify_post_hook ::= Z.div_mod_to_equations.

Lemma nbits_unfold : forall m : N, 0 < m -> nbits m = N.odd m :: nbits (m / 2).
Proof.
  intros [|p] Hm; [lia|]. destruct p as [q|q|]; cbn [nbits pbits].
  - replace (N.pos q~1 / 2) with (N.pos q) by (change (N.pos q~1) with (2 * N.pos q + 1); lia). reflexivity.
  - replace (N.pos q~0 / 2) with (N.pos q) by (change (N.pos q~0) with (2 * N.pos q); lia). reflexivity.
  - reflexivity.
Qed.

Section Gen.
  Variable n : N.
  Hypothesis Hok : size_ok n.
  Notation Hh := (get_height n).
  Context {D Hsh : Type}.
  Variable hempty : Hsh.
  Variable hleaf : D -> Hsh.
  Variable hbranch : Hsh -> Hsh -> Hsh.
  Variable l : list D.
  Hypothesis Hlen : len l = n.
  Notation nval := (nval hempty hleaf hbranch l).
  Notation node_of := (node_of hempty hleaf hbranch l).
  Variable idx : N.
  Hypothesis Hidx : 1 <= idx <= n.

  Definition tt : N := idx - 1.
  Definition a (i : N) : N := tt / 2 ^ i.
  Definition c (i : N) : N := idx / 2 ^ i.
  Definition nsib (i : N) : bool := (a i + 1) * 2 ^ i <? n.

  Fixpoint rwFrom (k : nat) (i : N) : list Hsh :=
    match k with
    | O => []
    | S k' => if N.even (a i) then (if nsib i then nval i (a i + 1) :: rwFrom k' (i + 1) else [])
              else rwFrom k' (i + 1)
    end.
  Fixpoint apFrom (k : nat) (i : N) : list Hsh :=
    match k with
    | O => []
    | S k' => (if N.odd (c i) then [nval i (c i - 1)] else []) ++ apFrom k' (i + 1)
    end.

  Lemma a_succ : forall i, a (i + 1) = a i / 2.
  Proof. intros i. unfold a. rewrite pow2_succ, (N.mul_comm 2), N.div_div; [reflexivity| |lia]. apply N.pow_nonzero. lia. Qed.
  Lemma c_succ : forall i, c (i + 1) = c i / 2.
  Proof. intros i. unfold c. rewrite pow2_succ, (N.mul_comm 2), N.div_div; [reflexivity| |lia]. apply N.pow_nonzero. lia. Qed.
  Lemma a_vnode : forall i, i < Hh -> vnode n i (a i).
  Proof. intros i Hi. split; [exact Hi|]. unfold a, tt. pose proof (pow2N_pos i). set (p := 2 ^ i) in *. nia. Qed.
  Lemma a_top : a (Hh - 1) = 0.
  Proof. destruct (height_facts n Hok) as [_ Hn]. unfold a, tt. apply N.div_small. lia. Qed.

  Lemma nsib_mono : forall i, nsib i = false -> nsib (i + 1) = false.
  Proof.
    intros i H. unfold nsib in *. rewrite a_succ, pow2_succ. pose proof (pow2N_pos i). set (p := 2 ^ i) in *.
    apply N.ltb_ge in H. apply N.ltb_ge. nia.
  Qed.
  Lemma rwFrom_nil : forall k i, nsib i = false -> rwFrom k i = [].
  Proof.
    induction k; intros i H; [reflexivity|]. cbn [rwFrom]. rewrite H. destruct (N.even (a i)); [reflexivity|].
    apply IHk. apply nsib_mono. exact H.
  Qed.

  (* ---- GenerateRightWitness ---- *)
  Lemma testbit_scaled : forall x i, N.testbit (x * 2 ^ i) i = N.odd x.
  Proof. intros x i. rewrite <- (N.add_0_l i) at 2. rewrite N.mul_pow2_bits_add. apply N.bit0_odd. Qed.

  Lemma grw_from : forall k s acc, (s + k = N.to_nat Hh)%nat ->
    grw node_of (map N.of_nat (seq s k)) n tt ((a (N.of_nat s) + 1) * 2 ^ N.of_nat s) acc = Ok (acc ++ rwFrom k (N.of_nat s)).
  Proof.
    induction k; intros s acc Hs; [cbn; rewrite app_nil_r; reflexivity|].
    cbn [seq map grw rwFrom]. set (i := N.of_nat s).
    assert (Hi : i < Hh) by (unfold i; lia).
    assert (Hi1 : N.of_nat (S s) = i + 1) by (unfold i; lia).
    rewrite testbit_scaled. rewrite <- N.negb_even, N.even_add, N.even_1.
    assert (Hdiv : tt / 2 ^ i = a i) by reflexivity. rewrite Hdiv.
    pose proof (pow2N_pos i) as Hp.
    destruct (N.even (a i)) eqn:Ev; cbn [Bool.eqb negb].
    - rewrite even_mod2 in Ev. apply N.eqb_eq in Ev.
      assert (Hsb : sib_of (a i) = a i + 1) by (unfold sib_of; lia).
      unfold nsib. destruct (N.ltb_spec ((a i + 1) * 2 ^ i) n) as [Hs1|Hs1].
      + destruct (right_sibling_some n hempty hleaf hbranch l Hlen i (a i) Hi ltac:(rewrite Hsb; exact Hs1)) as (s' & k' & Ers & Hvs & Eval & _).
        rewrite Ers.
        assert (Hno : node_of k' s' = Some (nval k' s')).
        { unfold ProofCompleteTop.node_of. rewrite Hlen. destruct Hvs as [Hk' Hs'v]. destruct (N.ltb_spec (s' * 2 ^ k') n); [reflexivity|lia]. }
        rewrite Hno. rewrite <- Eval, Hsb.
        assert (Einc : (a i + 1) * 2 ^ i + 2 ^ i = (a (N.of_nat (S s)) + 1) * 2 ^ N.of_nat (S s)).
        { rewrite Hi1, a_succ, pow2_succ. assert (Ha2 : a i = 2 * (a i / 2)) by lia. rewrite Ha2 at 1. ring. }
        rewrite Einc.
        rewrite IHk by lia. rewrite Hi1, <- app_assoc. reflexivity.
      + rewrite (right_sibling_none n hempty hleaf hbranch l Hlen i (a i) Hi ltac:(rewrite Hsb; exact Hs1)). rewrite app_nil_r. reflexivity.
    - rewrite even_mod2 in Ev. apply N.eqb_neq in Ev.
      assert (Einc : (a i + 1) * 2 ^ i = (a (N.of_nat (S s)) + 1) * 2 ^ N.of_nat (S s)).
      { rewrite Hi1, a_succ, pow2_succ. assert (Ha2 : a i = 2 * (a i / 2) + 1) by lia. rewrite Ha2 at 1. ring. }
      rewrite Einc.
      rewrite IHk by lia. rewrite Hi1. reflexivity.
  Qed.

  Theorem gen_right_witness_spec : forall path,
    gen_right_witness node_of path n idx = Ok (rwFrom (N.to_nat Hh) 0).
  Proof.
    intros path. unfold gen_right_witness. destruct Hidx as [H1 H2].
    assert (E1 : (n <? idx) = false) by lia. assert (E2 : (n =? 0) = false) by lia. assert (E3 : (idx =? 0) = false) by lia.
    rewrite E1, E2, E3.
    pose proof (grw_from (N.to_nat Hh) 0 [] ltac:(lia)) as G. cbn [N.of_nat] in G.
    assert (Hinc : (a 0 + 1) * 2 ^ 0 = idx) by (unfold a, tt; rewrite N.pow_0_r, N.div_1_r; lia).
    rewrite Hinc in G. exact G.
  Qed.

  (* ---- the append path of the first idx leaves ---- *)
  Lemma apFrom_zero : forall k i, c i = 0 -> apFrom k i = [].
  Proof.
    induction k; intros i Hc; [reflexivity|]. cbn [apFrom]. rewrite Hc. cbn. apply IHk. rewrite c_succ, Hc. reflexivity.
  Qed.

  Lemma chunk_from : forall k i, c i < 2 ^ N.of_nat k ->
    chunk_roots hempty hleaf hbranch (nbits (c i)) (N.to_nat i) (firstn (N.to_nat (c i * 2 ^ i)) l) = apFrom k i.
  Proof.
    induction k; intros i Hc.
    - change (2 ^ N.of_nat 0) with 1 in Hc. assert (E0 : c i = 0) by lia. rewrite E0. reflexivity.
    - destruct (N.eq_dec (c i) 0) as [E0|Hnz]; [rewrite E0; cbn [nbits chunk_roots]; symmetry; apply apFrom_zero; exact E0|].
      rewrite nbits_unfold by lia. cbn [apFrom].
      assert (Hle : c i * 2 ^ i <= n).
      { unfold c. pose proof (pow2N_pos i). set (p := 2 ^ i) in *. destruct Hidx. nia. }
      assert (Hlen' : length (firstn (N.to_nat (c i * 2 ^ i)) l) = N.to_nat (c i * 2 ^ i)).
      { rewrite firstn_length. unfold len in Hlen. lia. }
      assert (Hnext : c (i + 1) < 2 ^ N.of_nat k).
      { rewrite c_succ. rewrite Nat2N.inj_succ, N.pow_succ_r' in Hc. lia. }
      pose proof (pow2N_pos i) as Hp.
      rewrite <- N.negb_even, even_mod2. destruct (N.eqb_spec (c i mod 2) 0) as [Ev|Eo]; cbn [negb chunk_roots app].
      + (* digit 0 *)
        replace (S (N.to_nat i)) with (N.to_nat (i + 1)) by lia. rewrite <- c_succ.
        assert (Ec : c i * 2 ^ i = c (i + 1) * 2 ^ (i + 1)).
        { rewrite c_succ, pow2_succ. assert (Hc2 : c i = 2 * (c i / 2)) by lia. rewrite Hc2 at 1. ring. }
        rewrite Ec.
        apply IHk. exact Hnext.
      + (* digit 1: the block (c i - 1) of layer i *)
        rewrite Hlen'. rewrite <- pow2_nat.
        replace (N.to_nat (c i * 2 ^ i) - N.to_nat (2 ^ i))%nat with (N.to_nat ((c i - 1) * 2 ^ i)) by nia.
        f_equal.
        * unfold NodeProofs.nval, slice. f_equal.
          rewrite skipn_firstn_comm. f_equal. nia.
        * rewrite firstn_firstn. replace (Nat.min (N.to_nat ((c i - 1) * 2 ^ i)) (N.to_nat (c i * 2 ^ i))) with (N.to_nat ((c i - 1) * 2 ^ i)) by nia.
          replace (S (N.to_nat i)) with (N.to_nat (i + 1)) by lia. rewrite <- c_succ.
          assert (Ec : (c i - 1) * 2 ^ i = c (i + 1) * 2 ^ (i + 1)).
          { rewrite c_succ, pow2_succ. assert (Hc2 : c i - 1 = 2 * (c i / 2)) by lia. rewrite Hc2. ring. }
          rewrite Ec.
          apply IHk. exact Hnext.
  Qed.

  Theorem partial_append_path : subtree_roots hempty hleaf hbranch (firstn (N.to_nat idx) l) = apFrom (N.to_nat Hh) 0.
  Proof.
    unfold subtree_roots. assert (Hl : length (firstn (N.to_nat idx) l) = N.to_nat idx).
    { rewrite firstn_length. unfold len in Hlen. destruct Hidx. lia. }
    rewrite Hl, N2Nat.id.
    pose proof (chunk_from (N.to_nat Hh) 0) as C. unfold c in C at 1 2 3. rewrite N.pow_0_r, N.div_1_r, N.mul_1_r in C.
    apply C. rewrite N2Nat.id. destruct (height_facts n Hok) as [Hh1 Hn]. destruct Hidx.
    assert (2 ^ (Hh - 1) < 2 ^ Hh) by (apply N.pow_lt_mono_r; lia). lia.
  Qed.
End Gen.
