(* C11 — reload from storage, whole life of a tree (audit round 7, M2).  A script of Append, Update and "re-open from
   the store" (NewRegularMerkleTreeWithPastData = loadInfo) steps is run on the model of the Go state: Append is
   RMT.Append.append, Update computes the root with update_root (getSiblingHashes + calculatePathNodes on the store view
   of the current list) and re-reads the append path with update_path from the store view of the updated list, and both
   write info.Encode() of the new (root, append path, size) (saveInfo, for Update AFTER the path refresh).  Theorem: after
   every valid script the state is (LIP-0031 root, append path, size) of the current list, the store cell decodes to
   exactly that state, every re-open step succeeds and the run continues from it.  The codec round trip of the
   generated info codec is C08's subject and enters as a hypothesis; that the Go node store holds the view node_of of the
   current list is tested by the harness (seq scripts with re-open steps), not proved. *)
From Coq Require Import List Arith NArith Lia Bool.
From LE Require Import RMT.Root RMT.Append RMT.AppendProofs RMT.Proof RMT.NodeProofs RMT.IndexProofs RMT.ProofSoundTop RMT.ProofCompleteTop RMT.MultiLists RMT.MultiFinal RMT.UpdatePath RMT.Reload.
Import ListNotations.
Local Open Scope N_scope.

Section Script.
  Context {D Hsh : Type}.
  Variable hempty : Hsh.
  Variable hleaf : D -> Hsh.
  Variable hbranch : Hsh -> Hsh -> Hsh.
  Variable heqb : Hsh -> Hsh -> bool.
  Hypothesis heqb_refl : forall a, heqb a a = true.
  Hypothesis heqb_eq : forall a b, heqb a b = true -> a = b.
  Variable enc : @rstate Hsh -> list N.
  Variable dec : list N -> option (@rstate Hsh).
  Hypothesis roundtrip : forall s, dec (enc s) = Some s.
  Notation mroot := (mroot hempty hleaf hbranch).
  Notation subtree_roots := (subtree_roots hempty hleaf hbranch).
  Notation node_of := (node_of hempty hleaf hbranch).
  Notation nval := (nval hempty hleaf hbranch).

  (* OUpd ps lv: Update of the positions ps; lv is the list after the update (the new data are its entries at ps) *)
  Inductive op := OApp (v : D) | OUpd (ps : list N) (lv : list D) | OReopen.

  (* (specification list, in-memory state of the Go object, store cell) *)
  Definition cfg : Type := (list D * @rstate Hsh * cell)%type.

  Definition step (o : op) (cf : cfg) : option cfg :=
    let '(l, s, c) := cf in
    match o with
    | OApp v => match append hleaf hbranch v s with
                | Some s' => Some (l ++ [v], s', Some (enc s'))
                | None => None
                end
    | OUpd ps lv =>
      match update_root hbranch heqb (node_of l) (r_size s) (map (leaf_idx (r_size s)) ps) (map (nval lv 0) ps) with
      | Ok r => let s' := RS r (update_path (node_of lv) (r_size s) (r_path s)) (r_size s) in
                Some (lv, s', Some (enc s'))
      | _ => None
      end
    | OReopen => match load dec c with Some s' => Some (l, s', c) | None => None end
    end.
  Fixpoint run (os : list op) (cf : cfg) : option cfg :=
    match os with
    | [] => Some cf
    | o :: t => match step o cf with Some cf' => run t cf' | None => None end
    end.

  (* what the caller must respect: Update of a non-empty ascending list of existing positions of a tree of at most 2^29
     leaves (lv differs from l at most at ps); re-open only once something was stored *)
  Definition op_ok (l : list D) (o : op) : Prop :=
    match o with
    | OApp _ => True
    | OUpd ps lv => size_ok (len l) /\ len lv = len l /\ (forall p, In p ps -> p < len l) /\ asc ps /\ ps <> [] /\
                    (forall q, ~ In (N.of_nat q) ps -> nth_error lv q = nth_error l q)
    | OReopen => l <> []
    end.
  Definition after (l : list D) (o : op) : list D :=
    match o with OApp v => l ++ [v] | OUpd _ lv => lv | OReopen => l end.
  Fixpoint script_ok (l : list D) (os : list op) : Prop :=
    match os with [] => True | o :: t => op_ok l o /\ script_ok (after l o) t end.
  Definition final (l : list D) (os : list op) : list D := fold_left after os l.

  Definition st_of (l : list D) : @rstate Hsh := RS (mroot l) (subtree_roots l) (N.of_nat (length l)).
  Definition good (cf : cfg) : Prop :=
    let '(l, s, c) := cf in s = st_of l /\ (l <> [] -> c = Some (enc s)).

  Lemma step_good : forall o l s c, good (l, s, c) -> op_ok l o ->
    exists s' c', step o (l, s, c) = Some (after l o, s', c') /\ good (after l o, s', c').
  Proof.
    intros o l s c [Hs Hc] Hok. destruct o as [v|ps lv|]; cbn [step after].
    - pose proof (append_all_app hempty hleaf hbranch l [v]) as A.
      rewrite (append_is_batch hempty hleaf hbranch l) in A. cbn [append_all] in A. fold (st_of l) in A. rewrite <- Hs in A.
      destruct (append hleaf hbranch v s) as [s'|]; [|discriminate].
      exists s', (Some (enc s')). split; [reflexivity|]. split; [|reflexivity].
      injection A as A. exact A.
    - destruct Hok as (Hsz & Hlv & Hps & Hasc & Hne & Hsame).
      subst s. cbn [st_of r_size r_path]. fold (len l).
      rewrite (update_multi (len l) Hsz hempty hleaf hbranch heqb heqb_refl heqb_eq l eq_refl ps Hps Hasc Hne lv Hlv Hsame).
      rewrite (update_path_spec (len l) Hsz hempty hleaf hbranch l lv eq_refl Hlv).
      eexists _, _. split; [reflexivity|]. split; [|reflexivity].
      unfold st_of. f_equal. symmetry. exact Hlv.
    - cbn in Hok. rewrite (Hc Hok). cbn [load]. rewrite roundtrip.
      exists s, (Some (enc s)). split; [reflexivity|]. split; [exact Hs|reflexivity].
  Qed.

  Theorem reload_script : forall os l s c, good (l, s, c) -> script_ok l os ->
    exists s' c', run os (l, s, c) = Some (final l os, s', c') /\ s' = st_of (final l os) /\
                  (final l os <> [] -> load dec c' = Some s').
  Proof.
    induction os as [|o t IH]; intros l s c G Hok.
    - exists s, c. cbn. destruct G as [Hs Hc]. split; [reflexivity|]. split; [exact Hs|].
      intros Hne. rewrite (Hc Hne). cbn. apply roundtrip.
    - destruct Hok as [Ho Ht]. destruct (step_good o l s c G Ho) as (s1 & c1 & E & G1).
      cbn [run final fold_left]. rewrite E. apply (IH _ _ _ G1 Ht).
  Qed.

  Corollary reload_script_new : forall os, script_ok [] os ->
    exists s' c', run os ([], rinit hempty, None) = Some (final [] os, s', c') /\ s' = st_of (final [] os) /\
                  (final [] os <> [] -> load dec c' = Some s').
  Proof. intros os H. apply reload_script; [|exact H]. split; [reflexivity|]. intros C; contradiction. Qed.
End Script.
