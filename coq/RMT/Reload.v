(* C11 — reload from storage.  rmt.go keeps (root, appendPath, size) under the key [storePrefixInfo]: saveInfo writes
   info.Encode() after every Append (including the first one, as repaired) and Update; loadInfo
   (NewRegularMerkleTreeWithPastData) decodes it.  The codec round trip of the generated info codec is C08's subject
   and enters as a hypothesis. *)
From Coq Require Import List NArith Bool.
From LE Require Import RMT.Root RMT.Append RMT.AppendProofs.
Import ListNotations.

Section Reload.
  Context {D Hsh : Type}.
  Variable hempty : Hsh.
  Variable hleaf : D -> Hsh.
  Variable hbranch : Hsh -> Hsh -> Hsh.
  Variable enc : @rstate Hsh -> list N.
  Variable dec : list N -> option (@rstate Hsh).
  Hypothesis roundtrip : forall s, dec (enc s) = Some s.

  Definition cell := option (list N).                 (* value stored under storePrefixInfo, if any *)
  Definition append_st (v : D) (st : @rstate Hsh * cell) : option (@rstate Hsh * cell) :=
    match append hleaf hbranch v (fst st) with
    | Some s' => Some (s', Some (enc s'))
    | None => None
    end.
  Fixpoint append_all_st (l : list D) (st : @rstate Hsh * cell) : option (@rstate Hsh * cell) :=
    match l with
    | [] => Some st
    | x :: t => match append_st x st with None => None | Some st' => append_all_st t st' end
    end.
  (* loadInfo *)
  Definition load (c : cell) : option (@rstate Hsh) := match c with None => None | Some b => dec b end.

  Lemma append_all_st_fst : forall l st,
    match append_all_st l st with
    | Some (s, c) => append_all hleaf hbranch l (fst st) = Some s /\ (l <> [] -> c = Some (enc s))
    | None => append_all hleaf hbranch l (fst st) = None
    end.
  Proof.
    induction l as [|x t IH]; intros [s0 c0]; cbn [append_all_st append_all fst].
    - split; [reflexivity|congruence].
    - unfold append_st. cbn [fst]. destruct (append hleaf hbranch x s0) as [s1|]; [|reflexivity].
      destruct t as [|y t'].
      + cbn [append_all_st append_all]. split; [reflexivity|reflexivity].
      + specialize (IH (s1, Some (enc s1))). cbn [fst] in IH.
        destruct (append_all_st (y :: t') (s1, Some (enc s1))) as [[s c]|]; [|exact IH].
        destruct IH as [A B]. split; [exact A|]. intros _. apply B. discriminate.
  Qed.

  (* after appending any non-empty list to a new tree, loading the stored info gives back exactly the current state,
     which is (batch root, append path, size) of the list *)
  Theorem reload_preserves : forall l, l <> [] ->
    exists s c, append_all_st l (rinit hempty, None) = Some (s, c) /\ load c = Some s /\
                s = RS (mroot hempty hleaf hbranch l) (subtree_roots hempty hleaf hbranch l) (N.of_nat (length l)).
  Proof.
    intros l Hne. pose proof (append_all_st_fst l (rinit hempty, None)) as H. cbn [fst] in H.
    rewrite (append_is_batch hempty hleaf hbranch l) in H.
    destruct (append_all_st l (rinit hempty, None)) as [[s c]|]; [|discriminate].
    destruct H as [A B]. exists s, c. split; [reflexivity|]. split.
    - rewrite (B Hne). cbn [load]. apply roundtrip.
    - inversion A; reflexivity.
  Qed.
End Reload.
