(* C11 — right witnesses, top level: for every position idx (0 <= idx <= n) the right witness generated for idx and the
   append path of the first idx leaves reconstruct the LIP-0031 root of the whole list. *)
From Coq Require Import List Arith NArith ZArith Lia Bool ZifyBool ZifyN ZifyNat.
From LE Require Import RMT.Root RMT.Append RMT.AppendProofs RMT.Proof RMT.NodeProofs RMT.IndexProofs RMT.ProofCompleteTop
                       RMT.WitnessGen RMT.WitnessCalc.
Import ListNotations.
Local Open Scope N_scope.

Section Top.
  Context {D Hsh : Type}.
  Variable hempty : Hsh.
  Variable hleaf : D -> Hsh.
  Variable hbranch : Hsh -> Hsh -> Hsh.
  Notation mroot := (mroot hempty hleaf hbranch).
  Notation subtree_roots := (subtree_roots hempty hleaf hbranch).
  Notation node_of := (node_of hempty hleaf hbranch).

  Lemma fold_path_of : forall (ds : list (option Hsh)) x,
    fold_left (fun c h => hbranch h c) (path_of ds) x = fold_ds hbranch ds x.
  Proof.
    induction ds as [|[p|] t IH]; intros x; cbn [path_of fold_left].
    - reflexivity.
    - rewrite IH. reflexivity.
    - rewrite IH. reflexivity.
  Qed.

  Lemma root_from_path_digits : forall ds r, root_digits hbranch ds = Some r -> root_from_path hempty hbranch (path_of ds) = r.
  Proof.
    unfold root_digits. induction ds as [|[p|] t IH]; intros r H; cbn [fold_left rstep path_of] in *.
    - discriminate.
    - rewrite rstep_some in H. inversion H. unfold root_from_path. apply fold_path_of.
    - apply IH. exact H.
  Qed.

  (* the append path folds to the root *)
  Theorem path_root : forall l : list D, l <> [] -> root_from_path hempty hbranch (subtree_roots l) = mroot l.
  Proof.
    intros l Hne.
    destruct (append_all_repr hempty hleaf hbranch l [] (rinit hempty) (repr_init hempty hleaf hbranch)) as (c & s & E & (Hwf & Hb & Hp & Hs & Hr) & F).
    cbn [flatten app] in F. rewrite (append_is_batch hempty hleaf hbranch l) in E. inversion E; subst s. cbn [r_path] in Hp.
    rewrite Hp. apply root_from_path_digits. rewrite (counter_root hempty hleaf hbranch c Hwf), F. destruct l; [contradiction|reflexivity].
  Qed.

  Theorem right_witness_reconstructs_root : forall (n : N), size_ok n -> forall (l : list D), len l = n ->
    forall idx, idx <= n ->
    exists w, gen_right_witness (node_of l) (subtree_roots l) n idx = Ok w /\
              root_from_right_witness hempty hbranch idx (subtree_roots (firstn (N.to_nat idx) l)) w = Ok (mroot l).
  Proof.
    intros n Hok l Hlen idx Hle. destruct Hok as [Hn1 Hn2].
    assert (Hne : l <> []) by (intros ->; cbn in Hlen; lia).
    destruct (N.eq_dec idx 0) as [->|Hnz].
    - (* position 0: the witness is the whole append path *)
      exists (subtree_roots l). split.
      + unfold gen_right_witness. assert (E1 : (n <? 0) = false) by lia. assert (E2 : (n =? 0) = false) by lia. rewrite E1, E2. reflexivity.
      + cbn [N.to_nat firstn]. cbn. f_equal. apply path_root. exact Hne.
    - assert (Hidx : 1 <= idx <= n) by lia.
      exists (rwFrom n hempty hleaf hbranch l idx (N.to_nat (get_height n)) 0). split.
      + apply (gen_right_witness_spec n hempty hleaf hbranch l Hlen idx Hidx).
      + rewrite (partial_append_path n (conj Hn1 Hn2) hempty hleaf hbranch l Hlen idx Hidx).
        destruct (N.eq_dec idx n) as [->|Hlt].
        * (* position n: no right part *)
          rewrite <- (partial_append_path n (conj Hn1 Hn2) hempty hleaf hbranch l Hlen n Hidx).
          assert (Hfull : firstn (N.to_nat n) l = l) by (apply firstn_all2; unfold len in Hlen; lia). rewrite Hfull.
          rewrite (rwFrom_nil n hempty hleaf hbranch l Hlen n Hidx).
          2:{ unfold nsib, a, tt. rewrite N.pow_0_r, N.div_1_r. apply N.ltb_ge. lia. }
          unfold root_from_right_witness. destruct (subtree_roots l) eqn:Ep.
          -- exfalso. pose proof (path_root l Hne) as P. rewrite Ep in P. cbn in P.
             (* an empty path would make the root the empty hash: impossible to derive in general, so use the size instead *)
             pose proof (append_is_batch hempty hleaf hbranch l) as B.
             destruct (append_all_repr hempty hleaf hbranch l [] (rinit hempty) (repr_init hempty hleaf hbranch)) as (c & s & E & (Hwf & Hb & Hp & Hs & Hr) & F).
             rewrite B in E. inversion E; subst s. cbn [r_path r_size] in *. rewrite Ep in Hp.
             destruct (digits_from hempty hleaf hbranch 0 c) as [|d ds] eqn:Ed; [cbn in Hb; destruct (N.of_nat (length l)) eqn:El; [unfold len in Hlen; lia|destruct p; discriminate]|].
             (* digits non-empty with empty path: all digits None, but the top digit of a non-zero size is set *)
             assert (Hall : forall ds0 : list (option Hsh), path_of ds0 = [] -> bits_of ds0 = repeat false (length ds0)).
             { induction ds0 as [|[q|] t IH]; cbn; intros H0; [reflexivity|discriminate|f_equal; apply IH; exact H0]. }
             rewrite (Hall _ (eq_sym Hp)) in Hb.
             assert (Hlast : forall m, 0 < m -> exists pre, nbits m = pre ++ [true]).
             { intros [|p] Hm; [lia|]. clear. induction p; cbn [nbits pbits] in *.
               - destruct IHp as [pre ->]. exists (true :: pre). reflexivity.
               - destruct IHp as [pre ->]. exists (false :: pre). reflexivity.
               - exists []. reflexivity. }
             destruct (Hlast (N.of_nat (length l)) ltac:(unfold len in Hlen; lia)) as [pre Epre]. rewrite Epre in Hb.
             assert (In true (repeat false (length (d :: ds)))) by (rewrite <- Hb; apply in_or_app; right; left; reflexivity).
             apply repeat_spec in H. discriminate.
          -- f_equal. rewrite <- Ep. apply path_root. exact Hne.
        * apply (calc_inner n (conj Hn1 Hn2) hempty hleaf hbranch l Hlen idx Hidx). lia.
  Qed.
End Top.
