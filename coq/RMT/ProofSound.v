(* C11 — soundness of VerifyProof (calculatePathNodes) for claims about ANY nodes of the tree (leaves, branch nodes,
   pass-through nodes, in any mix): if the proof verifies against the LIP-0031 root of l, every claimed (node index, hash)
   pair is the value of that node of l.  Both clash checks of the loop are used: a hash claimed for a parent index is
   compared with the computed branch hash and with the hash carried up through a node without sibling.
   Method: a "frontier" invariant over the work list — IF every node still in the work list carries its true value
   THEN all original claims are true — preserved backwards by each step thanks to the injectivity of the branch hash;
   at the end the only frontier node is the root, whose value is checked against the root hash. *)
From Coq Require Import List Arith NArith ZArith Lia Bool ZifyBool ZifyN ZifyNat.
From LE Require Import RMT.Root RMT.Append RMT.AppendProofs RMT.Proof RMT.NodeProofs RMT.IndexProofs.
Import ListNotations.
Local Open Scope N_scope.
Ltac Zify.zify_post_hook ::= Z.div_mod_to_equations.

Lemma lookup_cons : forall (A : Type) (m : list (N * A)) a v k,
  lookup ((a, v) :: m) k = if a =? k then Some v else lookup m k.
Proof. intros. unfold lookup. cbn [find fst snd]. destruct (a =? k); reflexivity. Qed.

(* work list: lengths (depths) never increase *)
Fixpoint lsorted (l : list N) : Prop :=
  match l with [] => True | a :: t => (forall z, In z t -> blen z <= blen a) /\ lsorted t end.

Lemma in_ins_idx : forall x l z, In z (ins_idx x l) <-> z = x \/ In z l.
Proof.
  induction l as [|y t IH]; intros z; cbn [ins_idx].
  - cbn. intuition.
  - destruct (N.eqb_spec x y) as [->|Hne].
    + cbn. intuition.
    + destruct (idx_lt x y).
      * cbn. intuition.
      * cbn [In]. rewrite IH. intuition.
Qed.

Lemma idx_lt_blen : forall x y, idx_lt x y = true -> blen y <= blen x.
Proof. intros x y. unfold idx_lt. destruct (N.eqb_spec (blen x) (blen y)); lia. Qed.
Lemma idx_nlt_blen : forall x y, idx_lt x y = false -> x <> y -> blen x <= blen y.
Proof. intros x y. unfold idx_lt. destruct (N.eqb_spec (blen x) (blen y)); lia. Qed.

Lemma ins_idx_lsorted : forall x l, lsorted l -> lsorted (ins_idx x l).
Proof.
  induction l as [|y t IH]; intros Hs; cbn [ins_idx].
  - split; [intros z []|exact I].
  - destruct (N.eqb_spec x y) as [->|Hne]; [exact Hs|].
    destruct Hs as [Hy Ht]. destruct (idx_lt x y) eqn:E.
    + cbn [lsorted]. split; [|split; assumption].
      intros z [<-|Hz]; [apply idx_lt_blen; exact E|]. pose proof (Hy z Hz). pose proof (idx_lt_blen _ _ E). lia.
    + cbn [lsorted]. split; [|apply IH; exact Ht].
      intros z Hz. apply in_ins_idx in Hz. destruct Hz as [->|Hz]; [apply idx_nlt_blen; assumption|auto].
Qed.

Lemma in_sort_ins : forall x l z, In z (Proof.sort_ins x l) <-> z = x \/ In z l.
Proof.
  induction l as [|y t IH]; intros z; cbn [Proof.sort_ins]; [cbn; intuition|].
  destruct (idx_lt y x); cbn [In]; [rewrite IH|]; intuition.
Qed.
Lemma sort_ins_lsorted : forall x l, lsorted l -> lsorted (Proof.sort_ins x l).
Proof.
  induction l as [|y t IH]; intros Hs; cbn [Proof.sort_ins]; [split; [intros z []|exact I]|].
  destruct Hs as [Hy Ht]. destruct (idx_lt y x) eqn:E.
  - cbn [lsorted]. split; [|apply IH; exact Ht]. intros z Hz. apply in_sort_ins in Hz.
    destruct Hz as [->|Hz]; [apply idx_lt_blen; exact E|auto].
  - cbn [lsorted]. split; [|split; assumption].
    intros z [<-|Hz].
    + destruct (N.eq_dec y x) as [->|Hne]; [lia|]. apply idx_nlt_blen; assumption.
    + pose proof (Hy z Hz). destruct (N.eq_dec y x) as [->|Hne]; [lia|]. pose proof (idx_nlt_blen _ _ E Hne). lia.
Qed.
Lemma in_sort_idx : forall l z, In z (sort_idx l) <-> In z l.
Proof. induction l; intros z; cbn [sort_idx fold_right]; [tauto|]. fold (sort_idx l). rewrite in_sort_ins, IHl. cbn. intuition. Qed.
Lemma sort_idx_lsorted : forall l, lsorted (sort_idx l).
Proof. induction l; cbn [sort_idx fold_right]; [exact I|]. apply sort_ins_lsorted. exact IHl. Qed.

Section Sound.
  Variable n : N.
  Hypothesis Hok : size_ok n.
  Notation Hh := (get_height n).
  Context {D Hsh : Type}.
  Variable hempty : Hsh.
  Variable hleaf : D -> Hsh.
  Variable hbranch : Hsh -> Hsh -> Hsh.
  Variable heqb : Hsh -> Hsh -> bool.
  Hypothesis heqb_eq : forall a b, heqb a b = true -> a = b.
  Hypothesis branch_inj : forall a b c d, hbranch a b = hbranch c d -> a = c /\ b = d.
  Variable l : list D.
  Hypothesis Hlen : len l = n.
  Notation nval := (nval hempty hleaf hbranch l).
  Variable P : Prop.

  Definition fv (res cache : list (N * Hsh)) (Z : N) : option Hsh :=
    match lookup res Z with Some h => Some h | None => lookup cache Z end.
  Definition isnode (Z k i : N) : Prop := vnode n k i /\ Z = nidx Hh k i.
  (* a leaf or a node with both children (used by the completeness invariants) *)
  Definition realn (k i : N) : Prop := k = 0 \/ (2 * i + 1) * 2 ^ (k - 1) < n.

  Definition Inv (wl : list N) (res cache : list (N * Hsh)) : Prop :=
    lsorted wl /\
    (forall Z, In Z wl -> exists k i, isnode Z k i) /\
    (forall Y c, lookup cache Y = Some c ->
       exists k i, isnode Y (k + 1) i /\ n <= (2 * i + 1) * 2 ^ k /\ fv res cache (nidx Hh k (2 * i)) = Some c) /\
    (forall Z, In Z wl -> fv res cache Z <> None) /\
    ((forall Z, In Z wl -> forall k i, isnode Z k i -> fv res cache Z = Some (nval k i)) -> P).

  Lemma isnode_inj : forall Z k i k' i', isnode Z k i -> isnode Z k' i' -> k = k' /\ i = i'.
  Proof. intros Z k i k' i' [V1 E1] [V2 E2]. apply (nidx_inj n Hok); auto. congruence. Qed.

  Lemma node_neq_parent : forall k i, vnode n k i -> k + 1 < Hh -> nidx Hh k i <> nidx Hh k i / 2.
  Proof. intros k i Hv Hk. pose proof (nidx_ge2 n k i Hv). lia. Qed.

  (* ---- step: sibling slot empty, the value moves up through the parent cache ---- *)
  Lemma inv_step_cache : forall X rest res cache k i c,
    Inv (X :: rest) res cache -> isnode X k i -> k + 1 < Hh -> fv res cache X = Some c ->
    n <= sib_of i * 2 ^ k ->
    (forall e, lookup res (X / 2) = Some e -> e = c) ->
    Inv (ins_idx (X / 2) rest) res ((X / 2, c) :: cache).
  Proof.
    intros X rest res cache k i c (Hs & I1 & I3 & I6 & I2) HX Hk Hc Hemp Hclash.
    destruct HX as [HvX ->]. set (X := nidx Hh k i) in *. set (Y := X / 2).
    assert (HY : isnode Y (k + 1) (i / 2)).
    { split; [apply vnode_parent; assumption|]. unfold Y, X. apply nidx_parent. exact Hk. }
    assert (Hev : i = 2 * (i / 2) /\ sib_of i = i + 1).
    { destruct HvX as [_ Hi]. unfold sib_of in *. pose proof (pow2N_pos k).
      destruct (N.eq_dec (i mod 2) 0); [lia|]. exfalso.
      assert (i / 2 * 2 + (i + 1) mod 2 = i - 1) by lia. nia. }
    destruct Hev as [Hev Hsib].
    assert (HXY : X <> Y) by (apply node_neq_parent; assumption).
    assert (HresY : forall e, lookup res Y = Some e -> e = c) by exact Hclash.
    assert (HcacheY : forall c0, lookup cache Y = Some c0 -> c0 = c).
    { intros c0 E. destruct (I3 _ _ E) as (k2 & i2 & N2 & _ & F).
      destruct (isnode_inj _ _ _ _ _ N2 HY) as [Ek Ei]. assert (k2 = k) by lia. subst k2 i2.
      rewrite <- Hev in F. fold X in F. congruence. }
    assert (Hfv' : forall Z, fv res ((Y, c) :: cache) Z = if Y =? Z then (match lookup res Z with Some h => Some h | None => Some c end) else fv res cache Z).
    { intros Z. unfold fv. rewrite lookup_cons. destruct (N.eqb_spec Y Z); destruct (lookup res Z); reflexivity. }
    assert (HfvY : fv res ((Y, c) :: cache) Y = Some c).
    { rewrite Hfv', N.eqb_refl. destruct (lookup res Y) as [e|] eqn:E; [rewrite (HresY e eq_refl)|]; reflexivity. }
    assert (Hsame : forall Z, Z <> Y -> fv res ((Y, c) :: cache) Z = fv res cache Z).
    { intros Z Hne. rewrite Hfv'. destruct (N.eqb_spec Y Z); [congruence|reflexivity]. }
    assert (HoldY : fv res cache Y <> None -> fv res cache Y = Some c).
    { unfold fv. destruct (lookup res Y) as [e|] eqn:Er; [intros _; rewrite (HresY e eq_refl); reflexivity|].
      destruct (lookup cache Y) eqn:E; [|congruence]. intros _. f_equal. apply HcacheY. reflexivity. }
    destruct Hs as [HsX Hsr].
    repeat split.
    - apply ins_idx_lsorted. exact Hsr.
    - intros Z HZ. apply in_ins_idx in HZ. destruct HZ as [->|HZ]; [eauto|]. apply I1. right. exact HZ.
    - intros Y2 c2 E. rewrite lookup_cons in E. destruct (N.eqb_spec Y Y2) as [<-|Hne].
      + inversion E; subst c2. exists k, (i / 2). split; [exact HY|]. split; [lia|].
        rewrite <- Hev. fold X. rewrite Hsame by exact HXY. exact Hc.
      + destruct (I3 _ _ E) as (k2 & i2 & N2 & B2 & F2). exists k2, i2. split; [exact N2|]. split; [exact B2|].
        destruct (N.eq_dec (nidx Hh k2 (2 * i2)) Y) as [EY|NY].
        * rewrite EY in *. rewrite HfvY. rewrite <- F2. symmetry. apply HoldY. congruence.
        * rewrite Hsame by exact NY. exact F2.
    - intros Z HZ. apply in_ins_idx in HZ. destruct (N.eq_dec Z Y) as [->|Hne]; [congruence|].
      destruct HZ as [->|HZ]; [congruence|]. rewrite Hsame by exact Hne. apply I6. right. exact HZ.
    - intros Fr'. apply I2. intros Z HZ k0 i0 N0.
      assert (HYin : In Y (ins_idx Y rest)) by (apply in_ins_idx; left; reflexivity).
      pose proof (Fr' Y HYin _ _ HY) as FY. rewrite HfvY in FY.
      rewrite (parent_value n hempty hleaf hbranch l Hlen k i HvX Hk) in FY.
      destruct (N.ltb_spec (sib_of i * 2 ^ k) n) as [Hlt|_]; [lia|].
      destruct HZ as [<-|HZ].
      + destruct (isnode_inj _ _ _ _ _ N0 (conj HvX eq_refl)) as [-> ->]. rewrite Hc. exact FY.
      + destruct (N.eq_dec Z Y) as [->|Hne].
        * rewrite HoldY by (apply I6; right; exact HZ). rewrite <- HfvY. apply Fr'; assumption.
        * rewrite <- (Hsame Z Hne). apply Fr'; [apply in_ins_idx; right; exact HZ|exact N0].
  Qed.

  (* ---- step: sibling exists, the parent hash is computed and stored ---- *)
  Lemma inv_step_result : forall X rest res cache k i c sh,
    Inv (X :: rest) res cache -> isnode X k i -> k + 1 < Hh -> fv res cache X = Some c ->
    sib_of i * 2 ^ k < n ->
    let ph := if is_left X then hbranch c sh else hbranch sh c in
    (forall e, lookup res (X / 2) = Some e -> e = ph) ->
    Inv (ins_idx (X / 2) rest) ((X / 2, ph) :: res) cache.
  Proof.
    intros X rest res cache k i c sh (Hs & I1 & I3 & I6 & I2) HX Hk Hc Hsib ph Hclash.
    destruct HX as [HvX ->]. set (X := nidx Hh k i) in *. set (Y := X / 2) in *.
    assert (HY : isnode Y (k + 1) (i / 2)).
    { split; [apply vnode_parent; assumption|]. unfold Y, X. apply nidx_parent. exact Hk. }
    assert (HXY : X <> Y) by (apply node_neq_parent; assumption).
    assert (HrealY : (2 * (i / 2) + 1) * 2 ^ k < n).
    { destruct HvX as [_ Hi]. unfold sib_of in Hsib. pose proof (pow2N_pos k).
      destruct (N.eq_dec (i mod 2) 0).
      - replace (2 * (i / 2) + 1) with (i / 2 * 2 + (i + 1) mod 2) by lia. exact Hsib.
      - replace (2 * (i / 2) + 1) with i by lia. exact Hi. }
    assert (HcacheY : lookup cache Y = None).
    { destruct (lookup cache Y) eqn:E; [|reflexivity]. exfalso.
      destruct (I3 _ _ E) as (k2 & i2 & N2 & B2 & _).
      destruct (isnode_inj _ _ _ _ _ N2 HY) as [Ek Ei]. assert (k2 = k) by lia. subst. lia. }
    assert (Hfv' : forall Z, fv ((Y, ph) :: res) cache Z = if Y =? Z then Some ph else fv res cache Z).
    { intros Z. unfold fv. rewrite lookup_cons. destruct (N.eqb_spec Y Z); reflexivity. }
    assert (HfvY : fv ((Y, ph) :: res) cache Y = Some ph) by (rewrite Hfv', N.eqb_refl; reflexivity).
    assert (Hsame : forall Z, Z <> Y -> fv ((Y, ph) :: res) cache Z = fv res cache Z).
    { intros Z Hne. rewrite Hfv'. destruct (N.eqb_spec Y Z); [congruence|reflexivity]. }
    assert (HoldY : fv res cache Y <> None -> fv res cache Y = Some ph).
    { unfold fv. rewrite HcacheY. destruct (lookup res Y) eqn:E; [|congruence]. intros _. f_equal. apply Hclash. reflexivity. }
    destruct Hs as [HsX Hsr].
    repeat split.
    - apply ins_idx_lsorted. exact Hsr.
    - intros Z HZ. apply in_ins_idx in HZ. destruct HZ as [->|HZ]; [eauto|]. apply I1. right. exact HZ.
    - intros Y2 c2 E. destruct (I3 _ _ E) as (k2 & i2 & N2 & B2 & F2). exists k2, i2. split; [exact N2|]. split; [exact B2|].
      destruct (N.eq_dec (nidx Hh k2 (2 * i2)) Y) as [EY|NY].
      + rewrite EY in *. rewrite HfvY. rewrite <- F2. symmetry. apply HoldY. congruence.
      + rewrite Hsame by exact NY. exact F2.
    - intros Z HZ. apply in_ins_idx in HZ. destruct (N.eq_dec Z Y) as [->|Hne]; [congruence|].
      destruct HZ as [->|HZ]; [congruence|]. rewrite Hsame by exact Hne. apply I6. right. exact HZ.
    - intros Fr'. apply I2. intros Z HZ k0 i0 N0.
      assert (HYin : In Y (ins_idx Y rest)) by (apply in_ins_idx; left; reflexivity).
      pose proof (Fr' Y HYin _ _ HY) as FY. rewrite HfvY in FY.
      rewrite (parent_value n hempty hleaf hbranch l Hlen k i HvX Hk) in FY.
      destruct (N.ltb_spec (sib_of i * 2 ^ k) n) as [_|Hge]; [|lia].
      destruct HZ as [<-|HZ].
      + destruct (isnode_inj _ _ _ _ _ N0 (conj HvX eq_refl)) as [-> ->]. rewrite Hc. f_equal.
        unfold ph, is_left in FY. fold X in FY. unfold X in FY at 1. rewrite (nidx_even n k i HvX) in FY.
        inversion FY as [FY']. destruct (N.even i); apply branch_inj in FY'; tauto.
      + destruct (N.eq_dec Z Y) as [->|Hne].
        * rewrite HoldY by (apply I6; right; exact HZ). rewrite <- HfvY. apply Fr'; assumption.
        * rewrite <- (Hsame Z Hne). apply Fr'; [apply in_ins_idx; right; exact HZ|exact N0].
  Qed.

  (* ---- the loop ---- *)
  Lemma cpn_sound : forall fuel wl res cache sibs resF,
    Inv wl res cache ->
    cpn hbranch heqb fuel n Hh wl res cache sibs = Ok resF ->
    lookup resF 2 = Some (mroot hempty hleaf hbranch l) -> P.
  Proof.
    induction fuel; intros wl res cache sibs resF HI Hrun Hroot; [discriminate|].
    cbn [cpn] in Hrun. destruct wl as [|X rest].
    - inversion Hrun; subst. destruct HI as (_ & _ & _ & _ & I2). apply I2. intros Z [].
    - destruct (N.eqb_spec X 2) as [->|HX2].
      + inversion Hrun; subst resF. destruct HI as ([HsX _] & I1 & _ & _ & I2). apply I2.
        intros Z HZ k i [Hv EZ].
        assert (Hb : blen Z <= 2).
        { destruct HZ as [<-|HZ]; [cbn; lia|]. pose proof (HsX Z HZ) as B. cbn in B. exact B. }
        rewrite EZ in Hb. rewrite (blen_nidx n Hok k i Hv) in Hb.
        assert (Hk : k + 1 = Hh) by (destruct Hv; lia).
        pose proof (top_is_root n Hok k i Hv Hk) as E2. rewrite <- EZ in E2. rewrite E2.
        pose proof (vnode_bound n k i Hok Hv) as Hi. replace (Hh - k - 1) with 0 in Hi by lia. change (2 ^ 0) with 1 in Hi.
        assert (i = 0) by lia. subst i. replace k with (Hh - 1) by lia.
        rewrite (root_value n Hok hempty hleaf hbranch l Hlen). unfold fv. rewrite Hroot. reflexivity.
      + pose proof HI as (_ & I1 & _ & I6 & _).
        destruct (I1 X (or_introl eq_refl)) as (k & i & HvX & EX).
        assert (Hk : k + 1 < Hh).
        { destruct (N.lt_ge_cases (k + 1) Hh) as [?|Hge]; [assumption|]. exfalso. apply HX2.
          rewrite EX. apply (top_is_root n Hok); [exact HvX|destruct HvX; lia]. }
        fold (fv res cache X) in Hrun. destruct (fv res cache X) as [c|] eqn:Hc; [|discriminate].
        rewrite EX in Hrun at 1. rewrite (new_loc_nidx n Hok k i HvX) in Hrun.
        destruct (N.ltb_spec (sib_of i * 2 ^ k) n) as [Hsib|Hemp].
        * destruct (right_sibling_some n hempty hleaf hbranch l Hlen k i (proj1 HvX) Hsib) as (s' & k' & Ers & Hvs & _ & _).
          rewrite Ers in Hrun. rewrite (loc_index_nidx n Hok k' s' Hvs) in Hrun.
          match type of Hrun with
          | match ?pick with _ => _ end = _ => destruct pick as [[sh sibs']|] eqn:Hpick; [|discriminate]
          end.
          match type of Hrun with
          | (if ?clash then _ else _) = _ => destruct clash eqn:Hclash; [discriminate|]
          end.
          eapply IHfuel; [|exact Hrun|exact Hroot].
          apply (inv_step_result X rest res cache k i c sh HI (conj HvX EX) Hk Hc Hsib).
          intros e He. rewrite He in Hclash. apply heqb_eq. destruct (heqb e _) eqn:E; [reflexivity|discriminate].
        * rewrite (right_sibling_none n hempty hleaf hbranch l Hlen k i (proj1 HvX) Hemp) in Hrun.
          cbv zeta in Hrun.
          match type of Hrun with
          | (if ?clash then _ else _) = _ => destruct clash eqn:Hclash; [discriminate|]
          end.
          eapply IHfuel; [|exact Hrun|exact Hroot].
          apply (inv_step_cache X rest res cache k i c HI (conj HvX EX) Hk Hc Hemp).
          intros e He. rewrite He in Hclash. apply heqb_eq. destruct (heqb e c) eqn:E; [reflexivity|discriminate].
  Qed.
End Sound.
