(* C11 — regular Merkle tree (LIP-0031), batch root.  Model of pkg/trie/rmt/root.go CalculateRoot:
     len 0 -> emptyHash; len 1 -> leafHash(data[0]);
     else divider = 2^floor(log2(len-1)) = largest power of two strictly below len,
          branchHash(root(data[:divider]) ++ root(data[divider:])).
   The hash enters as three functions (empty digest, leaf hash = H(0x00 ++ v), branch hash = H(0x01 ++ l ++ r));
   nothing here depends on their properties. *)
From Coq Require Import List Arith Lia Bool.
Import ListNotations.

Fixpoint pow2 (a : nat) : nat := match a with O => 1 | S a => 2 * pow2 a end.

(* root.go: divider = largest power of two strictly below n (n >= 2) *)
Fixpoint p2below_aux (fuel k n : nat) : nat :=
  match fuel with O => k | S f => if 2 * k <? n then p2below_aux f (2 * k) n else k end.
Definition p2below (n : nat) := p2below_aux n 1 n.

Section Root.
  Context {D Hsh : Type}.
  Variable hempty : Hsh.
  Variable hleaf : D -> Hsh.
  Variable hbranch : Hsh -> Hsh -> Hsh.

  Fixpoint mroot_fuel (fuel : nat) (l : list D) : Hsh :=
    match fuel with
    | O => hempty
    | S f => match l with
             | [] => hempty
             | [x] => hleaf x
             | _ => let k := p2below (length l) in
                    hbranch (mroot_fuel f (firstn k l)) (mroot_fuel f (skipn k l))
             end
    end.
  Definition mroot (l : list D) : Hsh := mroot_fuel (length l) l.

  (* perfect trees over 2^a leaves *)
  Fixpoint perfect (a : nat) (l : list D) : Hsh :=
    match a with
    | O => match l with [x] => hleaf x | _ => hempty end
    | S a' => hbranch (perfect a' (firstn (pow2 a') l)) (perfect a' (skipn (pow2 a') l))
    end.
End Root.
