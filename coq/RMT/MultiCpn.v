(* C11 — multi-query completeness, part C: calculatePathNodes processes one level of the tree consuming exactly the
   sibling hashes E emits, given that all stored values are the true node values and that every node on the work list
   has the value of its carrying (descended) node in the result map. *)
From Coq Require Import List Arith NArith ZArith Lia Bool ZifyBool ZifyN ZifyNat.
From LE Require Import RMT.Root RMT.Append RMT.AppendProofs RMT.Proof RMT.NodeProofs RMT.IndexProofs RMT.ProofSound
                       RMT.ProofComplete RMT.MultiLists RMT.MultiGsh.
Import ListNotations.
Local Open Scope N_scope.
Ltac Zify.zify_post_hook ::= Z.div_mod_to_equations.

Section LevelC.
  Variable n : N.
  Hypothesis Hok : size_ok n.
  Notation Hh := (get_height n).
  Context {D Hsh : Type}.
  Variable hempty : Hsh.
  Variable hleaf : D -> Hsh.
  Variable hbranch : Hsh -> Hsh -> Hsh.
  Variable heqb : Hsh -> Hsh -> bool.
  Hypothesis heqb_refl : forall a, heqb a a = true.
  Variable lv : list D.
  Hypothesis Hlen : len lv = n.
  Notation nval := (nval hempty hleaf hbranch lv).
  Variable ps : list N.
  Hypothesis Hps : forall p, In p ps -> p < n.
  Variable node_at : N -> N -> option Hsh.
  Hypothesis Hna : forall k i, vnode n k i -> ~ MultiGsh.act ps k i -> node_at k i = Some (nval k i).
  Notation act := (act ps).
  Notation X := (X n).
  Definition ins_parent' := ins_parent n Hok hempty hleaf hbranch lv Hlen ps Hps node_at Hna.
  Definition act_down' := act_down n hempty hleaf hbranch lv Hlen ps Hps node_at Hna.
  Notation E := (fun k => E n (nval k) (2 ^ k)).
  Notation isnode := (isnode n).

  (* the stored node that carries the value of node (k, j) *)
  Definition dnode (k j : N) : N * N := sib_descend (S (N.to_nat k)) (layer_structure n) j k.
  Definition didx (k j : N) : N := let '(s, l) := dnode k j in nidx Hh l s.

  Lemma dnode_0 : forall p, dnode 0 p = (p, 0).
  Proof. intros p. unfold dnode. cbn [N.to_nat sib_descend]. rewrite andb_false_r. reflexivity. Qed.
  Lemma dnode_step : forall k y, k + 1 < Hh ->
    dnode (k + 1) y = if (2 * y + 1) * 2 ^ k <? n then (y, k + 1) else dnode k (y * 2).
  Proof.
    intros k y Hk. unfold dnode. replace (N.to_nat (k + 1)) with (S (N.to_nat k)) by lia.
    change (sib_descend (S (S (N.to_nat k))) (layer_structure n) y (k + 1)) with
      (if (nth (N.to_nat (k + 1)) (layer_structure n) 0 <=? y) && (0 <? k + 1)
       then sib_descend (S (N.to_nat k)) (layer_structure n) (y * 2) (k + 1 - 1) else (y, k + 1)).
    pose proof (structure_real n (k + 1) y ltac:(lia) Hk) as R. replace (k + 1 - 1) with k in * by lia.
    destruct (N.ltb_spec ((2 * y + 1) * 2 ^ k) n) as [Hr|Hr].
    - assert (E1 : (nth (N.to_nat (k + 1)) (layer_structure n) 0 <=? y) = false) by (apply N.leb_gt; apply R; exact Hr).
      rewrite E1. reflexivity.
    - assert (E1 : (nth (N.to_nat (k + 1)) (layer_structure n) 0 <=? y) = true) by (apply N.leb_le; destruct (N.le_gt_cases (nth (N.to_nat (k + 1)) (layer_structure n) 0) y); [assumption|exfalso; apply R in H; lia]).
      rewrite E1. assert (E2 : (0 <? k + 1) = true) by lia. rewrite E2. reflexivity.
  Qed.
  Lemma right_sibling_dnode : forall i k s' k', right_sibling i k n = Some (s', k') -> dnode k (sib_of i) = (s', k').
  Proof.
    intros i k s' k' H. unfold right_sibling in H. fold (sib_of i) in H. unfold dnode.
    destruct (sib_descend (S (N.to_nat k)) (layer_structure n) (sib_of i) k) as [s l]. destruct (n <=? s); [discriminate|]. inversion H; reflexivity.
  Qed.

  Definition tru (m : list (N * Hsh)) : Prop := forall Z h, lookup m Z = Some h -> forall k i, isnode Z k i -> h = nval k i.
  Definition keys (res : list (N * Hsh)) : Prop :=
    forall Z h, lookup res Z = Some h -> exists k i, isnode Z k i /\ act k i /\ realn n k i.
  Definition ckeys (cache : list (N * Hsh)) : Prop :=
    forall Z h, lookup cache Z = Some h -> exists k i, isnode Z (k + 1) i /\ n <= (2 * i + 1) * 2 ^ k.
  Definition INV (k : N) (Lr P : list N) (res cache : list (N * Hsh)) : Prop :=
    tru res /\ tru cache /\ keys res /\ ckeys cache /\
    (forall i, In i Lr -> fv res cache (X k i) = Some (nval k i) /\ lookup res (didx k i) <> None) /\
    (forall z, In z P -> fv res cache (X (k + 1) z) = Some (nval (k + 1) z) /\ lookup res (didx (k + 1) z) <> None).

  Lemma act_up : forall k i, act k i -> act (k + 1) (i / 2).
  Proof.
    intros k i (p & Hp & [A B]). exists p. split; [exact Hp|]. unfold cov. rewrite pow2_succ. pose proof (pow2N_pos k). split; nia.
  Qed.

  Lemma fv_res_add : forall res cache Y (v : Hsh) Z, fv ((Y, v) :: res) cache Z = if Y =? Z then Some v else fv res cache Z.
  Proof. intros. unfold fv. rewrite lookup_cons. destruct (Y =? Z); reflexivity. Qed.
  Lemma fv_cache_add : forall res cache Y (c : Hsh) Z, lookup res Y = None ->
    fv res ((Y, c) :: cache) Z = if Y =? Z then Some c else fv res cache Z.
  Proof.
    intros res cache Y c Z Hn. unfold fv. rewrite lookup_cons. destruct (N.eqb_spec Y Z) as [<-|]; [rewrite Hn; reflexivity|reflexivity].
  Qed.
  Lemma lookup_mono : forall (res : list (N * Hsh)) Y v Z, lookup res Z <> None -> lookup ((Y, v) :: res) Z <> None.
  Proof. intros. rewrite lookup_cons. destruct (Y =? Z); [discriminate|assumption]. Qed.

  Lemma addp_idem : forall y P, addp y (addp y P) = addp y P.
  Proof.
    intros y P. unfold addp at 1. assert (existsb (N.eqb y) (addp y P) = true); [|rewrite H; reflexivity].
    apply existsb_exists. exists y. split; [apply in_addp; left; reflexivity|apply N.eqb_refl].
  Qed.

  (* facts about one node X = (k, i) with k + 1 < height and its parent *)
  Lemma node_neq_parent' : forall k i, vnode n k i -> k + 1 < Hh -> X k i <> X (k + 1) (i / 2).
  Proof.
    intros k i Hv Hk E. apply (f_equal blen) in E. unfold MultiGsh.X in E.
    rewrite (blen_nidx n Hok k i Hv), (blen_nidx n Hok (k + 1) (i / 2) (vnode_parent n k i Hv Hk)) in E. lia.
  Qed.

  Lemma INV_weaken : forall k i rest P res cache, INV k (i :: rest) P res cache -> INV k rest P res cache.
  Proof.
    intros k i rest P res cache (T1 & T2 & K1 & K2 & V1 & V2).
    split; [exact T1|split; [exact T2|split; [exact K1|split; [exact K2|split; [|exact V2]]]]].
    intros j Hj. apply V1. right. exact Hj.
  Qed.

  (* adding the true value of an active real parent to the result map *)
  Lemma INV_add_res : forall k Lr P res cache i,
    k + 1 < Hh -> vnode n k i -> act k i -> sib_of i * 2 ^ k < n ->
    (forall j, In j Lr -> vnode n k j) -> (forall z, In z P -> vnode n (k + 1) z) ->
    INV k Lr P res cache ->
    INV k Lr (addp (i / 2) P) ((X (k + 1) (i / 2), nval (k + 1) (i / 2)) :: res) cache.
  Proof.
    intros k Lr P res cache i Hk Hv Hact Hsib HvL HvP (T1 & T2 & K1 & K2 & V1 & V2).
    set (Y := X (k + 1) (i / 2)). set (ph := nval (k + 1) (i / 2)).
    assert (HvY : vnode n (k + 1) (i / 2)) by (apply vnode_parent; assumption).
    assert (HrealY : (2 * (i / 2) + 1) * 2 ^ k < n).
    { destruct Hv as [_ Hi]. unfold sib_of in Hsib. pose proof (pow2N_pos k).
      destruct (N.eq_dec (i mod 2) 0).
      - replace (2 * (i / 2) + 1) with (i / 2 * 2 + (i + 1) mod 2) by lia. exact Hsib.
      - replace (2 * (i / 2) + 1) with i by lia. exact Hi. }
    assert (HdY : didx (k + 1) (i / 2) = Y).
    { unfold didx. rewrite dnode_step by exact Hk. destruct (N.ltb_spec ((2 * (i / 2) + 1) * 2 ^ k) n); [reflexivity|lia]. }
    split; [|split; [exact T2|split; [|split; [exact K2|split]]]].
    - intros Z h Hl k0 i0 N0. rewrite lookup_cons in Hl. destruct (N.eqb_spec Y Z) as [<-|]; [|eapply T1; eauto].
      inversion Hl; subst h. destruct (isnode_inj n Hok _ _ _ _ _ N0 (conj HvY eq_refl)) as [-> ->]. reflexivity.
    - intros Z h Hl. rewrite lookup_cons in Hl. destruct (N.eqb_spec Y Z) as [<-|]; [|eapply K1; eauto].
      exists (k + 1), (i / 2). split; [split; [exact HvY|reflexivity]|]. split; [apply act_up; exact Hact|].
      right. replace (k + 1 - 1) with k by lia. exact HrealY.
    - intros j Hj. destruct (V1 j Hj) as [A B]. split; [|apply lookup_mono; exact B].
      rewrite fv_res_add. destruct (N.eqb_spec Y (X k j)) as [E0|]; [|exact A]. exfalso.
      apply (f_equal blen) in E0. unfold Y, MultiGsh.X in E0.
      rewrite (blen_nidx n Hok (k + 1) (i / 2) HvY), (blen_nidx n Hok k j (HvL j Hj)) in E0. lia.
    - intros z Hz. apply in_addp in Hz. rewrite fv_res_add.
      destruct (N.eqb_spec Y (X (k + 1) z)) as [E0|Hne].
      + assert (z = i / 2).
        { destruct Hz as [->|Hz]; [reflexivity|]. unfold Y, MultiGsh.X in E0. destruct (nidx_inj n Hok _ _ _ _ HvY (HvP z Hz) E0). congruence. }
        subst z. split; [reflexivity|]. rewrite HdY, lookup_cons, N.eqb_refl. discriminate.
      + destruct Hz as [->|Hz]; [contradiction|]. destruct (V2 z Hz) as [A B]. split; [exact A|apply lookup_mono; exact B].
  Qed.

  (* the value moves up unchanged through a parent whose right half is empty *)
  Lemma INV_add_cache : forall k Lr P res cache i,
    k + 1 < Hh -> vnode n k i -> n <= sib_of i * 2 ^ k ->
    lookup res (didx k i) <> None ->
    (forall j, In j Lr -> vnode n k j) -> (forall z, In z P -> vnode n (k + 1) z) ->
    INV k Lr P res cache ->
    INV k Lr (addp (i / 2) P) res ((X (k + 1) (i / 2), nval k i) :: cache) /\ lookup res (X (k + 1) (i / 2)) = None.
  Proof.
    intros k Lr P res cache i Hk Hv Hemp Hdi HvL HvP (T1 & T2 & K1 & K2 & V1 & V2).
    set (Y := X (k + 1) (i / 2)).
    assert (HvY : vnode n (k + 1) (i / 2)) by (apply vnode_parent; assumption).
    assert (Hev : i = 2 * (i / 2) /\ sib_of i = i + 1).
    { destruct Hv as [_ Hi]. unfold sib_of in *. pose proof (pow2N_pos k).
      destruct (N.eq_dec (i mod 2) 0); [lia|]. exfalso. assert (i / 2 * 2 + (i + 1) mod 2 = i - 1) by lia. nia. }
    destruct Hev as [Hev Hsb].
    assert (Hval : nval (k + 1) (i / 2) = nval k i).
    { rewrite (parent_value n hempty hleaf hbranch lv Hlen k i Hv Hk). destruct (N.ltb_spec (sib_of i * 2 ^ k) n); [lia|reflexivity]. }
    assert (HresY : lookup res Y = None).
    { destruct (lookup res Y) eqn:El; [|reflexivity]. exfalso. destruct (K1 _ _ El) as (k0 & i0 & N0 & _ & [R|R]).
      - destruct (isnode_inj n Hok _ _ _ _ _ N0 (conj HvY eq_refl)). lia.
      - destruct (isnode_inj n Hok _ _ _ _ _ N0 (conj HvY eq_refl)) as [-> ->]. replace (k + 1 - 1) with k in R by lia. lia. }
    assert (HdY : didx (k + 1) (i / 2) = didx k i).
    { unfold didx. rewrite dnode_step by exact Hk. destruct (N.ltb_spec ((2 * (i / 2) + 1) * 2 ^ k) n); [lia|].
      replace (i / 2 * 2) with i by lia. reflexivity. }
    split; [|exact HresY].
    split; [exact T1|split; [|split; [exact K1|split; [|split]]]].
    - intros Z h Hl k0 i0 N0. rewrite lookup_cons in Hl. destruct (N.eqb_spec Y Z) as [<-|]; [|eapply T2; eauto].
      inversion Hl; subst h. destruct (isnode_inj n Hok _ _ _ _ _ N0 (conj HvY eq_refl)) as [-> ->]. symmetry. exact Hval.
    - intros Z h Hl. rewrite lookup_cons in Hl. destruct (N.eqb_spec Y Z) as [<-|]; [|eapply K2; eauto].
      exists k, (i / 2). split; [split; [exact HvY|reflexivity]|]. lia.
    - intros j Hj. destruct (V1 j Hj) as [A B]. split; [|exact B].
      rewrite fv_cache_add by exact HresY. destruct (N.eqb_spec Y (X k j)) as [E0|]; [|exact A]. exfalso.
      apply (f_equal blen) in E0. unfold Y, MultiGsh.X in E0.
      rewrite (blen_nidx n Hok (k + 1) (i / 2) HvY), (blen_nidx n Hok k j (HvL j Hj)) in E0. lia.
    - intros z Hz. apply in_addp in Hz. rewrite fv_cache_add by exact HresY.
      destruct (N.eqb_spec Y (X (k + 1) z)) as [E0|Hne].
      + assert (z = i / 2).
        { destruct Hz as [->|Hz]; [reflexivity|]. unfold Y, MultiGsh.X in E0. destruct (nidx_inj n Hok _ _ _ _ HvY (HvP z Hz) E0). congruence. }
        subst z. split; [rewrite Hval; reflexivity|]. rewrite HdY. exact Hdi.
      + destruct Hz as [->|Hz]; [contradiction|]. apply V2. exact Hz.
  Qed.

  (* ---- single steps of calculatePathNodes ---- *)
  Section Step.
    Variables (k i : N) (rest P : list N) (res cache : list (N * Hsh)) (xs : list Hsh) (f : nat).
    Hypothesis Hk : k + 1 < Hh.
    Hypothesis Hvi : vnode n k i.
    Hypothesis Hai : act k i.
    Hypothesis Hvr : forall j, In j rest -> vnode n k j.
    Hypothesis HvP : forall z, In z P -> vnode n (k + 1) z.
    Hypothesis HPle : forall z, In z P -> z <= i / 2.
    Hypothesis HI : INV k (i :: rest) P res cache.

    Let Y := X (k + 1) (i / 2).
    Lemma step_prefix : (X k i =? 2) = false /\ fv res cache (X k i) = Some (nval k i) /\
      new_loc (X k i) Hh = Some (i, k) /\ X k i / 2 = Y /\
      ins_idx Y (map (X k) rest ++ map (X (k + 1)) P) = map (X k) rest ++ map (X (k + 1)) (addp (i / 2) P).
    Proof.
      destruct HI as (_ & _ & _ & _ & V1 & _). split; [|split; [|split; [|split]]].
      - apply N.eqb_neq. unfold MultiGsh.X, nidx. assert (2 ^ 2 <= 2 ^ (Hh - k)) by (apply pow2_mono; lia). change (2 ^ 2) with 4 in *. lia.
      - apply V1. left. reflexivity.
      - apply (new_loc_nidx n Hok). exact Hvi.
      - apply nidx_parent. exact Hk.
      - apply (ins_parent' k Hk rest P (i / 2)); auto. apply vnode_parent; assumption.
    Qed.

    (* sibling slot empty *)
    Lemma step_pass : n <= sib_of i * 2 ^ k ->
      cpn hbranch heqb (S f) n Hh (X k i :: map (X k) rest ++ map (X (k + 1)) P) res cache xs =
      cpn hbranch heqb f n Hh (map (X k) rest ++ map (X (k + 1)) (addp (i / 2) P)) res ((Y, nval k i) :: cache) xs /\
      INV k rest (addp (i / 2) P) res ((Y, nval k i) :: cache).
    Proof.
      intros Hemp. destruct step_prefix as (HX2 & Hfv & Enl & Epar & Eins).
      assert (Hdi : lookup res (didx k i) <> None) by (destruct HI as (_ & _ & _ & _ & V1 & _); apply V1; left; reflexivity).
      destruct (INV_add_cache k rest P res cache i Hk Hvi Hemp Hdi Hvr HvP (INV_weaken _ _ _ _ _ _ HI)) as [HI' _].
      split; [|exact HI'].
      cbn [cpn]. rewrite HX2. fold (fv res cache (X k i)). rewrite Hfv, Enl.
      assert (Hclash : match lookup res Y with Some e => negb (heqb e (nval k i)) | None => false end = false).
      { destruct HI as (T1 & _). destruct (lookup res Y) as [e|] eqn:Ee; [|reflexivity].
        rewrite (T1 _ _ Ee (k + 1) (i / 2)); [|split; [apply vnode_parent; assumption|reflexivity]].
        rewrite (parent_value n hempty hleaf hbranch lv Hlen k i Hvi Hk).
        destruct (N.ltb_spec (sib_of i * 2 ^ k) n); [lia|]. rewrite heqb_refl. reflexivity. }
      rewrite (right_sibling_none n hempty hleaf hbranch lv Hlen k i (proj1 Hvi) Hemp). rewrite Epar. cbv zeta.
      rewrite Hclash, Eins. reflexivity.
    Qed.

    (* sibling exists and its carrying node already has a (true) value in the result map *)
    Lemma step_known : sib_of i * 2 ^ k < n -> lookup res (didx k (sib_of i)) <> None ->
      cpn hbranch heqb (S f) n Hh (X k i :: map (X k) rest ++ map (X (k + 1)) P) res cache xs =
      cpn hbranch heqb f n Hh (map (X k) rest ++ map (X (k + 1)) (addp (i / 2) P)) ((Y, nval (k + 1) (i / 2)) :: res) cache xs /\
      INV k rest (addp (i / 2) P) ((Y, nval (k + 1) (i / 2)) :: res) cache.
    Proof.
      intros Hsib Hkn. destruct step_prefix as (HX2 & Hfv & Enl & Epar & Eins).
      split; [|apply INV_add_res; auto; apply (INV_weaken _ _ _ _ _ _ HI)].
      destruct (right_sibling_some n hempty hleaf hbranch lv Hlen k i (proj1 Hvi) Hsib) as (s' & k' & Ers & Hvs & Eval & _ & _ & _).
      pose proof (right_sibling_dnode i k s' k' Ers) as Ed.
      assert (Hsidx : didx k (sib_of i) = nidx Hh k' s') by (unfold didx; rewrite Ed; reflexivity).
      destruct HI as (T1 & _ & _ & _ & _ & _).
      destruct (lookup res (nidx Hh k' s')) as [sh|] eqn:Esh; [|rewrite Hsidx in Hkn; contradiction].
      assert (Hshv : sh = nval k (sib_of i)) by (rewrite Eval; apply (T1 _ _ Esh k' s'); split; [exact Hvs|reflexivity]).
      assert (Hph : (if is_left (X k i) then hbranch (nval k i) sh else hbranch sh (nval k i)) = nval (k + 1) (i / 2)).
      { unfold is_left, MultiGsh.X. rewrite (nidx_even n k i Hvi). rewrite (parent_value n hempty hleaf hbranch lv Hlen k i Hvi Hk).
        destruct (N.ltb_spec (sib_of i * 2 ^ k) n); [|lia]. rewrite Hshv. reflexivity. }
      cbn [cpn]. rewrite HX2. fold (fv res cache (X k i)). rewrite Hfv, Enl, Ers. rewrite (loc_index_nidx n Hok k' s' Hvs).
      rewrite Esh. rewrite Hph. rewrite Epar.
      assert (Hclash : match lookup res Y with Some e => negb (heqb e (nval (k + 1) (i / 2))) | None => false end = false).
      { destruct (lookup res Y) as [e|] eqn:Ee; [|reflexivity].
        rewrite (T1 _ _ Ee (k + 1) (i / 2)); [rewrite heqb_refl; reflexivity|]. split; [apply vnode_parent; assumption|reflexivity]. }
      rewrite Hclash, Eins. reflexivity.
    Qed.

    (* sibling exists, is not active: its value is the next sibling hash *)
    Lemma step_pop : sib_of i * 2 ^ k < n -> ~ act k (sib_of i) ->
      cpn hbranch heqb (S f) n Hh (X k i :: map (X k) rest ++ map (X (k + 1)) P) res cache (nval k (sib_of i) :: xs) =
      cpn hbranch heqb f n Hh (map (X k) rest ++ map (X (k + 1)) (addp (i / 2) P)) ((Y, nval (k + 1) (i / 2)) :: res) cache xs /\
      INV k rest (addp (i / 2) P) ((Y, nval (k + 1) (i / 2)) :: res) cache.
    Proof.
      intros Hsib Hin. destruct step_prefix as (HX2 & Hfv & Enl & Epar & Eins).
      split; [|apply INV_add_res; auto; apply (INV_weaken _ _ _ _ _ _ HI)].
      destruct (right_sibling_some n hempty hleaf hbranch lv Hlen k i (proj1 Hvi) Hsib) as (s' & k' & Ers & Hvs & Eval & _ & Hk'k & Hs').
      destruct HI as (T1 & _ & K1 & _ & _ & _).
      assert (Esh : lookup res (nidx Hh k' s') = None).
      { destruct (lookup res (nidx Hh k' s')) eqn:El; [|reflexivity]. exfalso. destruct (K1 _ _ El) as (k0 & i0 & N0 & A0 & _).
        destruct (isnode_inj n Hok _ _ _ _ _ N0 (conj Hvs eq_refl)) as [-> ->]. apply Hin. apply (act_down' k (sib_of i) k' s' Hk'k Hs' A0). }
      assert (Hph : (if is_left (X k i) then hbranch (nval k i) (nval k (sib_of i)) else hbranch (nval k (sib_of i)) (nval k i)) = nval (k + 1) (i / 2)).
      { unfold is_left, MultiGsh.X. rewrite (nidx_even n k i Hvi). rewrite (parent_value n hempty hleaf hbranch lv Hlen k i Hvi Hk).
        destruct (N.ltb_spec (sib_of i * 2 ^ k) n); [|lia]. reflexivity. }
      cbn [cpn]. rewrite HX2. fold (fv res cache (X k i)). rewrite Hfv, Enl, Ers. rewrite (loc_index_nidx n Hok k' s' Hvs).
      rewrite Esh. rewrite Hph. rewrite Epar.
      assert (Hclash : match lookup res Y with Some e => negb (heqb e (nval (k + 1) (i / 2))) | None => false end = false).
      { destruct (lookup res Y) as [e|] eqn:Ee; [|reflexivity].
        rewrite (T1 _ _ Ee (k + 1) (i / 2)); [rewrite heqb_refl; reflexivity|]. split; [apply vnode_parent; assumption|reflexivity]. }
      rewrite Hclash, Eins. reflexivity.
    Qed.
  End Step.

  Lemma INV_shift : forall k L res cache, INV k [] L res cache -> INV (k + 1) L [] res cache.
  Proof.
    intros k L res cache (T1 & T2 & K1 & K2 & _ & V2).
    split; [exact T1|split; [exact T2|split; [exact K1|split; [exact K2|split; [exact V2|intros z []]]]]].
  Qed.

  Definition sib_inactive' := sib_inactive n hempty hleaf hbranch lv Hlen ps Hps node_at Hna.
  Definition act_vnode' := act_vnode n hempty hleaf hbranch lv Hlen ps Hps node_at Hna.
  Definition Q_next_merge' := Q_next_merge n hempty hleaf hbranch lv Hlen ps Hps node_at Hna.
  Definition Q_next_nomerge' := Q_next_nomerge n hempty hleaf hbranch lv Hlen ps Hps node_at Hna.
  Definition E_nonpair' := E_nonpair n hempty hleaf hbranch lv.

  (* ---- one level of calculatePathNodes ---- *)
  Lemma cpn_level : forall m k, k + 1 < Hh -> forall L pre Lr P res cache xs fuel extra,
    (length Lr <= m)%nat -> L = pre ++ Lr -> asc L -> (forall x, In x L <-> act k x) -> Q L Lr ->
    asc P -> (forall z, In z P -> vnode n (k + 1) z) -> (forall z i, In z P -> In i Lr -> z <= i / 2) ->
    INV k Lr P res cache -> (length Lr + extra <= fuel)%nat ->
    exists fuel' res' cache', (extra <= fuel')%nat /\
      cpn hbranch heqb fuel n Hh (map (X k) Lr ++ map (X (k + 1)) P) res cache (E k Lr ++ xs) =
      cpn hbranch heqb fuel' n Hh (map (X (k + 1)) (F P Lr)) res' cache' xs /\
      INV (k + 1) (F P Lr) [] res' cache'.
  Proof.
    induction m; intros k Hk L pre Lr P res cache xs fuel extra Hm HL Ha Hact HQ HP HPv HPle HI Hfuel.
    - destruct Lr; [|cbn in Hm; lia]. exists fuel, res, cache. cbn [map app F MultiLists.E]. split; [cbn in Hfuel; lia|]. split; [reflexivity|apply INV_shift; exact HI].
    - destruct Lr as [|i rest]; [exists fuel, res, cache; cbn [map app F MultiLists.E]; split; [cbn in Hfuel; lia|]; split; [reflexivity|apply INV_shift; exact HI]|].
      destruct fuel as [|f]; [cbn in Hfuel; lia|].
      assert (HvL : forall x, In x L -> vnode n k x) by (intros x Hx; apply act_vnode'; [lia|apply Hact; exact Hx]).
      assert (HinL : forall x, In x (i :: rest) -> In x L) by (intros x Hx; rewrite HL; apply in_or_app; right; exact Hx).
      assert (Hvi : vnode n k i) by (apply HvL, HinL; left; reflexivity).
      assert (Hai : act k i) by (apply Hact, HinL; left; reflexivity).
      assert (Hvrest : forall x, In x rest -> vnode n k x) by (intros x Hx; apply HvL, HinL; right; exact Hx).
      assert (HLasc : asc (i :: rest)) by (rewrite HL in Ha; apply asc_app in Ha; tauto).
      destruct HLasc as [Hi_lt Hrest_asc].
      assert (HPle_i : forall z, In z P -> z <= i / 2) by (intros z Hz; apply (HPle z i Hz); left; reflexivity).
      assert (HPnext : asc (addp (i / 2) P) /\ (forall z, In z (addp (i / 2) P) -> vnode n (k + 1) z)).
      { split; [apply addp_asc; [exact HP|exact HPle_i]|].
        intros z Hz. apply in_addp in Hz. destruct Hz as [->|Hz]; [apply vnode_parent; assumption|apply HPv; exact Hz]. }
      destruct HPnext as [HPasc' HPv'].
      assert (HPle' : forall Lr', (forall x, In x Lr' -> In x rest) -> forall z x, In z (addp (i / 2) P) -> In x Lr' -> z <= x / 2).
      { intros Lr' Hsub z x Hz Hx. apply in_addp in Hz. destruct Hz as [->|Hz].
        - pose proof (Hi_lt x (Hsub x Hx)). lia.
        - apply HPle; [exact Hz|right; apply Hsub; exact Hx]. }
      destruct rest as [|j rest'] eqn:Erest.
      + (* last node of the level *)
        assert (Hnp : match @nil N with j :: _ => is_pair i j = false | [] => True end) by exact I.
        pose proof (sib_inactive' k L pre i [] HL Ha Hact HQ Hnp) as Hinact.
        rewrite (F_nonpair i [] P Hnp), (E_nonpair' k i [] Hnp). cbn [F MultiLists.E]. rewrite app_nil_r.
        change (map (X k) [i] ++ map (X (k + 1)) P) with (X k i :: map (X k) [] ++ map (X (k + 1)) P).
        destruct (N.ltb_spec (sib_of i * 2 ^ k) n) as [Hsib|Hemp].
        * destruct (step_pop k i [] P res cache xs f Hk Hvi Hai ltac:(intros j0 []) HPv HPle_i HI Hsib Hinact) as [Hrun HI'].
          unfold emit1. destruct (N.ltb_spec (sib_of i * 2 ^ k) n); [|lia]. cbn [app].
          eexists f, _, _. split; [cbn in Hfuel; lia|]. split; [exact Hrun|apply INV_shift; exact HI'].
        * destruct (step_pass k i [] P res cache xs f Hk Hvi ltac:(intros j0 []) HPv HPle_i HI Hemp) as [Hrun HI'].
          unfold emit1. destruct (N.ltb_spec (sib_of i * 2 ^ k) n); [lia|]. cbn [app].
          eexists f, _, _. split; [cbn in Hfuel; lia|]. split; [exact Hrun|apply INV_shift; exact HI'].
      + change (map (X k) (i :: j :: rest') ++ map (X (k + 1)) P) with (X k i :: map (X k) (j :: rest') ++ map (X (k + 1)) P).
        assert (Hvj : vnode n k j) by (apply Hvrest; left; reflexivity).
        assert (Haj : act k j) by (apply Hact, HinL; right; left; reflexivity).
        destruct (is_pair i j) eqn:Epair.
        * (* merged pair: two steps of the verifier *)
          destruct f as [|f0]; [cbn in Hfuel; lia|].
          assert (Hij : j = i + 1 /\ i mod 2 = 0).
          { unfold is_pair in Epair. apply andb_true_iff in Epair. destruct Epair as [Ev Ej]. rewrite even_mod2 in Ev. split; lia. }
          destruct Hij as [Ej Ev].
          assert (Hsi : sib_of i = j) by (unfold sib_of; lia).
          assert (Hsj : sib_of j = i) by (unfold sib_of; lia).
          assert (Hj2 : j / 2 = i / 2) by lia.
          assert (Hkn1 : lookup res (didx k (sib_of i)) <> None).
          { rewrite Hsi. destruct HI as (_ & _ & _ & _ & V1 & _). apply V1. right; left; reflexivity. }
          assert (Hsib1 : sib_of i * 2 ^ k < n) by (rewrite Hsi; destruct Hvj; assumption).
          destruct (step_known k i (j :: rest') P res cache (E k (i :: j :: rest') ++ xs) (S f0) Hk Hvi Hai Hvrest HPv HPle_i HI Hsib1 Hkn1) as [Hrun1 HI1].
          assert (Hkn2 : lookup ((X (k + 1) (i / 2), nval (k + 1) (i / 2)) :: res) (didx k (sib_of j)) <> None).
          { rewrite Hsj. apply lookup_mono. destruct HI as (_ & _ & _ & _ & V1 & _). apply V1. left; reflexivity. }
          assert (Hsib2 : sib_of j * 2 ^ k < n) by (rewrite Hsj; destruct Hvi; assumption).
          assert (HPle_j : forall z, In z (addp (i / 2) P) -> z <= j / 2).
          { intros z Hz. rewrite Hj2. apply in_addp in Hz. destruct Hz as [->|Hz]; [lia|apply HPle_i; exact Hz]. }
          destruct (step_known k j rest' (addp (i / 2) P) _ cache (E k (i :: j :: rest') ++ xs) f0 Hk Hvj Haj
                      ltac:(intros x Hx; apply Hvrest; right; exact Hx) HPv' HPle_j HI1 Hsib2 Hkn2) as [Hrun2 HI2].
          rewrite Hj2, addp_idem in Hrun2, HI2.
          rewrite F_cons2, Epair. cbn [map app] in Hrun1 |- *. rewrite Hrun1, Hrun2. rewrite E_cons2, Epair.
          destruct (IHm k Hk L (pre ++ [i; j]) rest' (addp (i / 2) P) ((X (k + 1) (i / 2), nval (k + 1) (i / 2)) :: (X (k + 1) (i / 2), nval (k + 1) (i / 2)) :: res) cache xs f0 extra) as (fuel' & res' & cache' & A & B & C); auto.
          -- cbn in Hm. lia.
          -- rewrite HL, <- app_assoc. reflexivity.
          -- rewrite HL in Ha |- *. apply Q_next_merge'; assumption.
          -- apply HPle'. intros x Hx. right. exact Hx.
          -- cbn in Hfuel. lia.
          -- exists fuel', res', cache'. auto.
        * assert (Hnp : match j :: rest' with j0 :: _ => is_pair i j0 = false | [] => True end) by exact Epair.
          pose proof (sib_inactive' k L pre i (j :: rest') HL Ha Hact HQ Hnp) as Hinact.
          rewrite (F_nonpair i (j :: rest') P Hnp), (E_nonpair' k i (j :: rest') Hnp).
          assert (Hrec : forall res1 cache1, INV k (j :: rest') (addp (i / 2) P) res1 cache1 ->
                    exists fuel' res' cache', (extra <= fuel')%nat /\
                      cpn hbranch heqb f n Hh (map (X k) (j :: rest') ++ map (X (k + 1)) (addp (i / 2) P)) res1 cache1 (E k (j :: rest') ++ xs) =
                      cpn hbranch heqb fuel' n Hh (map (X (k + 1)) (F (addp (i / 2) P) (j :: rest'))) res' cache' xs /\
                      INV (k + 1) (F (addp (i / 2) P) (j :: rest')) [] res' cache').
          { intros res1 cache1 HI1. apply (IHm k Hk L (pre ++ [i]) (j :: rest') (addp (i / 2) P) res1 cache1 xs f extra); auto.
            - cbn in Hm |- *. lia.
            - rewrite HL, <- app_assoc. reflexivity.
            - rewrite HL in Ha |- *. apply Q_next_nomerge'; [exact Ha|exact Epair].
            - apply HPle'. auto.
            - cbn in Hfuel |- *. lia. }
          destruct (N.ltb_spec (sib_of i * 2 ^ k) n) as [Hsib|Hemp].
          -- destruct (step_pop k i (j :: rest') P res cache (E k (j :: rest') ++ xs) f Hk Hvi Hai Hvrest HPv HPle_i HI Hsib Hinact) as [Hrun HI'].
             unfold emit1. destruct (N.ltb_spec (sib_of i * 2 ^ k) n); [|lia]. cbn [app]. rewrite Hrun. apply Hrec. exact HI'.
          -- destruct (step_pass k i (j :: rest') P res cache (E k (j :: rest') ++ xs) f Hk Hvi Hvrest HPv HPle_i HI Hemp) as [Hrun HI'].
             unfold emit1. destruct (N.ltb_spec (sib_of i * 2 ^ k) n); [lia|]. cbn [app]. rewrite Hrun. apply Hrec. exact HI'.
  Qed.
End LevelC.
