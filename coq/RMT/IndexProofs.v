(* C11 — index arithmetic of pkg/trie/rmt against the node addressing: the "leading 1" index of node (k, i) is
   2^(H-k) + i (H = getHeight(size)); newNodeLocation / nodeLocation.index are inverse on valid nodes;
   getRightSiblingInfo returns None exactly when the sibling slot is empty, and otherwise the stored node that carries
   the sibling's value (descending through pass-through nodes). *)
From Coq Require Import List Arith NArith ZArith Lia Bool ZifyBool ZifyN ZifyNat.
From LE Require Import RMT.Root RMT.Append RMT.AppendProofs RMT.Proof RMT.NodeProofs.
Import ListNotations.
Local Open Scope N_scope.
Ltac Zify.zify_post_hook ::= Z.div_mod_to_equations.

Definition size_ok (n : N) : Prop := 1 <= n <= 2 ^ 29.
Definition nidx (Hh k i : N) : N := 2 ^ (Hh - k) + i.
(* node (k, i) exists in a tree of n leaves *)
Definition vnode (n k i : N) : Prop := k < get_height n /\ i * 2 ^ k < n.

Lemma pow2_split : forall a b : N, b <= a -> 2 ^ a = 2 ^ (a - b) * 2 ^ b.
Proof. intros. rewrite <- N.pow_add_r. f_equal. lia. Qed.
Lemma pow2_succ : forall a : N, 2 ^ (a + 1) = 2 * 2 ^ a.
Proof. intros. rewrite N.add_1_r. apply N.pow_succ_r'. Qed.
Lemma pow2_mono : forall a b : N, a <= b -> 2 ^ a <= 2 ^ b.
Proof. intros. apply N.pow_le_mono_r; lia. Qed.

Lemma height_facts : forall n, size_ok n -> 1 <= get_height n <= 30 /\ n <= 2 ^ (get_height n - 1).
Proof.
  intros n [H1 H2]. unfold get_height.
  assert (N.log2_up n <= 29).
  { replace 29 with (N.log2_up (2 ^ 29)) by (apply N.log2_up_pow2; lia). apply N.log2_up_le_mono. exact H2. }
  split; [lia|]. replace (N.log2_up n + 1 - 1) with (N.log2_up n) by lia.
  destruct (N.eq_dec n 1) as [->|Hn]; [cbn; lia|].
  apply N.log2_up_spec. lia.
Qed.

Lemma vnode_bound : forall n k i, size_ok n -> vnode n k i -> i < 2 ^ (get_height n - k - 1).
Proof.
  intros n k i Hs [Hk Hi]. destruct (height_facts n Hs) as [Hh Hn].
  rewrite (pow2_split (get_height n - 1) k) in Hn by lia.
  replace (get_height n - 1 - k) with (get_height n - k - 1) in Hn by lia.
  pose proof (pow2N_pos k). nia.
Qed.

Lemma size_pow2_plus : forall w i, i < 2 ^ w -> N.size (2 ^ w + i) = w + 1.
Proof.
  intros w i Hi. pose proof (pow2N_pos w).
  rewrite N.size_log2 by lia. rewrite N.add_1_r. f_equal.
  apply (N.log2_unique' _ w i); lia.
Qed.

Section Index.
  Variable n : N.
  Hypothesis Hok : size_ok n.
  Notation Hh := (get_height n).

  Lemma nidx_ge2 : forall k i, vnode n k i -> 2 <= nidx Hh k i.
  Proof.
    intros k i [Hk _]. unfold nidx. assert (2 ^ 1 <= 2 ^ (Hh - k)) by (apply pow2_mono; lia).
    change (2 ^ 1) with 2 in *. lia.
  Qed.

  Lemma new_loc_nidx : forall k i, vnode n k i -> new_loc (nidx Hh k i) Hh = Some (i, k).
  Proof.
    intros k i Hv. pose proof (vnode_bound n k i Hok Hv) as Hb. pose proof (nidx_ge2 k i Hv) as H2.
    destruct Hv as [Hk Hi]. destruct (height_facts n Hok) as [Hh' Hn].
    unfold new_loc, nidx in *.
    assert (Hlt : i < 2 ^ (Hh - k)).
    { assert (2 ^ (Hh - k - 1) <= 2 ^ (Hh - k)) by (apply pow2_mono; lia). lia. }
    assert (Hbig : 2 ^ (Hh - k) <= 2 ^ 30) by (apply pow2_mono; lia).
    rewrite size_pow2_plus by exact Hlt.
    replace (Hh - k + 1 - 1) with (Hh - k) by lia.
    replace (2 ^ (Hh - k) + i - 2 ^ (Hh - k)) with i by lia.
    assert (E1 : (2 ^ (Hh - k) + i <? 2) || (2 ^ 63 <=? 2 ^ (Hh - k) + i) = false).
    { change (2 ^ 30) with 1073741824 in Hbig. change (2 ^ 63) with 9223372036854775808. lia. }
    rewrite E1.
    assert (E2 : (2 ^ 31 <=? i) = false) by (change (2 ^ 30) with 1073741824 in Hbig; change (2 ^ 31) with 2147483648; lia).
    rewrite E2.
    assert (E3 : (Hh <? Hh - k) = false) by lia. rewrite E3.
    f_equal. f_equal. lia.
  Qed.

  Lemma loc_index_nidx : forall k i, vnode n k i -> loc_index i k Hh = Some (nidx Hh k i).
  Proof.
    intros k i Hv. pose proof (vnode_bound n k i Hok Hv) as Hb.
    destruct Hv as [Hk Hi]. destruct (height_facts n Hok) as [Hh' Hn].
    unfold loc_index, nidx.
    assert (E1 : (Hh <=? k) = false) by lia. rewrite E1.
    assert (Hsz : N.size i <= Hh - k - 1).
    { destruct (N.eq_dec i 0) as [->|Hi0]; [cbn; lia|].
      rewrite N.size_log2 by exact Hi0. apply N.le_succ_l. apply N.log2_lt_pow2; lia. }
    rewrite N.max_l by lia.
    assert (Hbig : 2 ^ (Hh - k) <= 2 ^ 30) by (apply pow2_mono; lia).
    assert (2 ^ (Hh - k - 1) <= 2 ^ 29) by (apply pow2_mono; lia).
    assert (E2 : (2 ^ 31 <=? 2 ^ (Hh - k) + i) = false).
    { change (2 ^ 30) with 1073741824 in Hbig. change (2 ^ 29) with 536870912 in *. change (2 ^ 31) with 2147483648. lia. }
    rewrite E2. reflexivity.
  Qed.

  Lemma nidx_inj : forall k i k' i', vnode n k i -> vnode n k' i' -> nidx Hh k i = nidx Hh k' i' -> k = k' /\ i = i'.
  Proof.
    intros k i k' i' H1 H2 E. pose proof (new_loc_nidx k i H1) as A. pose proof (new_loc_nidx k' i' H2) as B.
    rewrite E in A. rewrite A in B. inversion B; auto.
  Qed.

  (* parent *)
  Lemma vnode_parent : forall k i, vnode n k i -> k + 1 < Hh -> vnode n (k + 1) (i / 2).
  Proof.
    intros k i [Hk Hi] Hk1. split; [exact Hk1|]. rewrite pow2_succ. pose proof (pow2N_pos k). nia.
  Qed.
  Lemma nidx_parent : forall k i, k + 1 < Hh -> nidx Hh k i / 2 = nidx Hh (k + 1) (i / 2).
  Proof.
    intros k i Hk. unfold nidx. replace (Hh - k) with ((Hh - (k + 1)) + 1) by lia. rewrite pow2_succ.
    set (p := 2 ^ (Hh - (k + 1))). lia.
  Qed.
  Lemma top_is_root : forall k i, vnode n k i -> k + 1 = Hh -> nidx Hh k i = 2.
  Proof.
    intros k i Hv Hk. pose proof (vnode_bound n k i Hok Hv) as Hb. unfold nidx.
    replace (Hh - k - 1) with 0 in Hb by lia. replace (Hh - k) with 1 by lia. change (2 ^ 0) with 1 in Hb. change (2 ^ 1) with 2. lia.
  Qed.
  Lemma nidx_even : forall k i, vnode n k i -> N.even (nidx Hh k i) = N.even i.
  Proof.
    intros k i [Hk _]. unfold nidx. replace (Hh - k) with ((Hh - k - 1) + 1) by lia. rewrite pow2_succ.
    rewrite !even_mod2. set (p := 2 ^ (Hh - k - 1)). destruct (N.eqb_spec ((2 * p + i) mod 2) 0), (N.eqb_spec (i mod 2) 0); lia.
  Qed.
  Lemma blen_nidx : forall k i, vnode n k i -> blen (nidx Hh k i) = Hh - k + 1.
  Proof.
    intros k i Hv. pose proof (vnode_bound n k i Hok Hv) as Hb. pose proof (nidx_ge2 k i Hv). destruct Hv as [Hk Hi].
    unfold blen. assert (E : (nidx Hh k i =? 0) = false) by lia. rewrite E. unfold nidx. apply size_pow2_plus.
    assert (2 ^ (Hh - k - 1) <= 2 ^ (Hh - k)) by (apply pow2_mono; lia). lia.
  Qed.

  (* ---- getLayerStructure / getRightSiblingInfo ---- *)
  Lemma structure_nth : forall k, k < Hh -> nth (N.to_nat k) (layer_structure n) 0 = layer_max (N.to_nat k) n 0.
  Proof.
    intros k Hk. unfold layer_structure.
    set (f := fun layer : nat => layer_max layer n 0).
    rewrite (nth_indep _ 0 (f O)) by (rewrite map_length, seq_length; lia).
    rewrite (map_nth f). rewrite seq_nth by lia. reflexivity.
  Qed.

  (* node (k, t) is stored (not a pass-through): a leaf, or its right child is non-empty *)
  Lemma structure_real : forall k t, 1 <= k -> k < Hh ->
    (t < nth (N.to_nat k) (layer_structure n) 0 <-> (2 * t + 1) * 2 ^ (k - 1) < n).
  Proof.
    intros k t H1 Hk. rewrite structure_nth by exact Hk.
    replace (N.to_nat k) with (S (N.to_nat (k - 1))) by lia.
    rewrite layer_max_closed. change (0 mod 2) with 0. rewrite N.add_0_r.
    pose proof (qs_spec (N.to_nat (k - 1)) n (2 * t + 1)) as Q. rewrite N2Nat.id in Q.
    rewrite <- Q. set (q := qs (N.to_nat (k - 1)) n). lia.
  Qed.
  Lemma structure_0 : nth 0 (layer_structure n) 0 = n.
  Proof. destruct (height_facts n Hok). change 0%nat with (N.to_nat 0). rewrite structure_nth by lia. reflexivity. Qed.

  Context {D Hsh : Type}.
  Variable hempty : Hsh.
  Variable hleaf : D -> Hsh.
  Variable hbranch : Hsh -> Hsh -> Hsh.
  Variable l : list D.
  Hypothesis Hlen : len l = n.
  Notation nval := (nval hempty hleaf hbranch l).

  Lemma sib_descend_spec : forall fuel s k, k < Hh -> (N.to_nat k < fuel)%nat ->
    exists s' k', sib_descend fuel (layer_structure n) s k = (s', k') /\ k' <= k /\ s' * 2 ^ k' = s * 2 ^ k /\
                  (k' = 0 \/ (2 * s' + 1) * 2 ^ (k' - 1) < n) /\
                  (s * 2 ^ k < n -> nval k s = nval k' s').
  Proof.
    induction fuel; intros s k Hk Hf; [lia|]. cbn [sib_descend].
    destruct ((nth (N.to_nat k) (layer_structure n) 0 <=? s) && (0 <? k)) eqn:E.
    - assert (Hk0 : 0 < k) by lia.
      assert (Hnr : ~ (2 * s + 1) * 2 ^ (k - 1) < n).
      { rewrite <- structure_real by lia. lia. }
      destruct (IHfuel (s * 2) (k - 1)) as (s' & k' & E1 & E2 & E3 & E4 & E5); try lia.
      exists s', k'. split; [exact E1|]. split; [lia|]. split.
      + rewrite E3. replace k with ((k - 1) + 1) at 2 by lia. rewrite pow2_succ. lia.
      + split; [exact E4|]. intros Hne. rewrite <- E5.
        * replace k with ((k - 1) + 1) at 1 by lia. rewrite (nval_step hempty hleaf hbranch l (k - 1) s).
          -- rewrite Hlen. destruct (N.ltb_spec ((2 * s + 1) * 2 ^ (k - 1)) n); [contradiction|]. f_equal. lia.
          -- rewrite Hlen. replace (k - 1 + 1) with k by lia. exact Hne.
        * replace k with ((k - 1) + 1) in Hne by lia. rewrite pow2_succ in Hne. lia.
    - exists s, k. split; [reflexivity|]. split; [lia|]. split; [reflexivity|]. split; [|auto].
      destruct (N.eq_dec k 0) as [->|Hk0]; [left; reflexivity|right].
      rewrite <- structure_real by lia. lia.
  Qed.

  Definition sib_of (i : N) : N := (i / 2) * 2 + (i + 1) mod 2.

  Lemma right_sibling_none : forall k i, k < Hh -> n <= sib_of i * 2 ^ k -> right_sibling i k n = None.
  Proof.
    intros k i Hk He. unfold right_sibling. fold (sib_of i).
    destruct (sib_descend_spec (S (N.to_nat k)) (sib_of i) k Hk) as (s' & k' & E1 & E2 & E3 & E4 & _); [lia|].
    rewrite E1. assert (n <= s').
    { destruct (N.eq_dec k' 0) as [->|Hk0]; [rewrite N.pow_0_r in E3; lia|].
      destruct E4 as [->|Hr]; [contradiction|].
      assert (Hp : 2 ^ k' = 2 * 2 ^ (k' - 1)) by (rewrite <- pow2_succ; f_equal; lia).
      rewrite Hp in E3. pose proof (pow2N_pos (k' - 1)). nia. }
    assert (E : (n <=? s') = true) by lia. rewrite E. reflexivity.
  Qed.

  Lemma right_sibling_some : forall k i, k < Hh -> sib_of i * 2 ^ k < n ->
    exists s' k', right_sibling i k n = Some (s', k') /\ vnode n k' s' /\ nval k (sib_of i) = nval k' s' /\
                  (k' = 0 \/ (2 * s' + 1) * 2 ^ (k' - 1) < n) /\ k' <= k /\ s' * 2 ^ k' = sib_of i * 2 ^ k.
  Proof.
    intros k i Hk He. unfold right_sibling. fold (sib_of i).
    destruct (sib_descend_spec (S (N.to_nat k)) (sib_of i) k Hk) as (s' & k' & E1 & E2 & E3 & E4 & E5); [lia|].
    rewrite E1. pose proof (pow2N_pos k').
    assert (E : (n <=? s') = false) by nia. rewrite E.
    exists s', k'. split; [reflexivity|]. split; [split; lia|]. split; [apply E5; exact He|]. split; [exact E4|]. split; assumption.
  Qed.

  (* value of the parent from the children *)
  Lemma parent_value : forall k i, vnode n k i -> k + 1 < Hh ->
    nval (k + 1) (i / 2) =
    if sib_of i * 2 ^ k <? n
    then (if N.even i then hbranch (nval k i) (nval k (sib_of i)) else hbranch (nval k (sib_of i)) (nval k i))
    else nval k i.
  Proof.
    intros k i [Hk Hi] Hk1. unfold sib_of. rewrite even_mod2.
    rewrite (nval_step hempty hleaf hbranch l k (i / 2)) by (rewrite Hlen, pow2_succ; pose proof (pow2N_pos k); nia).
    rewrite Hlen. pose proof (pow2N_pos k).
    destruct (N.eqb_spec (i mod 2) 0) as [E|E].
    - replace (i / 2 * 2 + (i + 1) mod 2) with (i + 1) by lia. replace (2 * (i / 2) + 1) with (i + 1) by lia.
      replace (2 * (i / 2)) with i by lia. reflexivity.
    - replace (i / 2 * 2 + (i + 1) mod 2) with (i - 1) by lia. replace (2 * (i / 2) + 1) with i by lia.
      replace (2 * (i / 2)) with (i - 1) by lia.
      destruct (N.ltb_spec (i * 2 ^ k) n); [|lia]. destruct (N.ltb_spec ((i - 1) * 2 ^ k) n); [reflexivity|nia].
  Qed.

  Lemma root_value : nval (Hh - 1) 0 = mroot hempty hleaf hbranch l.
  Proof.
    destruct (height_facts n Hok) as [_ Hn]. unfold NodeProofs.nval, slice. rewrite N.mul_0_l. cbn [N.to_nat skipn].
    rewrite firstn_all2; [reflexivity|]. unfold len in Hlen. lia.
  Qed.
End Index.
