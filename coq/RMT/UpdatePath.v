(* C11 — Update re-reads the append path from the updated nodes (audit round 7, M2).  The append path of a list is the
   list of the perfect blocks of the binary expansion of its length (WitnessGen.partial_append_path with idx = n), and
   the refresh loop of Update reads exactly those nodes from the updated tree. *)
From Coq Require Import List Arith NArith ZArith Lia Bool ZifyBool ZifyN ZifyNat.
From LE Require Import RMT.Root RMT.Append RMT.AppendProofs RMT.Proof RMT.NodeProofs RMT.IndexProofs RMT.ProofCompleteTop RMT.WitnessGen.
Import ListNotations.
Local Open Scope N_scope.
Ltac Zify.zify_post_hook ::= Z.div_mod_to_equations.

Section UpdatePath.
  Variable n : N.
  Hypothesis Hok : size_ok n.
  Notation Hh := (get_height n).
  Context {D Hsh : Type}.
  Variable hempty : Hsh.
  Variable hleaf : D -> Hsh.
  Variable hbranch : Hsh -> Hsh -> Hsh.
  Notation subtree_roots := (subtree_roots hempty hleaf hbranch).
  Notation node_of := (node_of hempty hleaf hbranch).
  Notation apF := (fun l => apFrom hempty hleaf hbranch l n).

  Lemma path_blocks : forall l : list D, len l = n -> subtree_roots l = apF l (N.to_nat Hh) 0.
  Proof.
    intros l Hl. assert (Hn : 1 <= n <= n) by (destruct Hok; lia).
    pose proof (partial_append_path n Hok hempty hleaf hbranch l Hl n Hn) as P.
    rewrite firstn_all2 in P; [exact P|]. unfold len in Hl. lia.
  Qed.

  Lemma apF_length : forall (l l' : list D) k i, length (apF l k i) = length (apF l' k i).
  Proof.
    intros l l'. induction k; intros i; [reflexivity|]. cbn [apFrom]. rewrite !app_length, (IHk (i + 1)).
    destruct (N.odd (c n i)); reflexivity.
  Qed.

  Lemma refresh_blocks : forall (l' : list D), len l' = n -> forall k i old,
    length old = length (apF l' k (N.of_nat i)) ->
    refresh_path (node_of l') (map N.of_nat (seq i k)) n old = apF l' k (N.of_nat i).
  Proof.
    intros l' Hl'. induction k; intros i old Hlo.
    - cbn in *. destruct old; [reflexivity|discriminate].
    - cbn [seq map refresh_path apFrom]. cbn [apFrom] in Hlo.
      rewrite N.testbit_odd, N.shiftr_div_pow2. change (n / 2 ^ N.of_nat i) with (c n (N.of_nat i)).
      replace (N.of_nat i + 1) with (N.of_nat (S i)) in * by lia.
      destruct (N.odd (c n (N.of_nat i))) eqn:Eo.
      + destruct old as [|o old']; [cbn in Hlo; discriminate|]. cbn [app]. cbn [app length] in Hlo.
        assert (Hc : 1 <= c n (N.of_nat i)). { destruct (c n (N.of_nat i)); [discriminate|lia]. }
        assert (Hin : (c n (N.of_nat i) - 1) * 2 ^ N.of_nat i < n).
        { pose proof (pow2N_pos (N.of_nat i)) as Hp. pose proof (N.mul_div_le n (2 ^ N.of_nat i) ltac:(lia)) as Hm.
          fold (c n (N.of_nat i)) in Hm. set (p := 2 ^ N.of_nat i) in *. set (cc := c n (N.of_nat i)) in *.
          assert (Ecc : cc = (cc - 1) + 1) by lia. rewrite Ecc in Hm. rewrite N.mul_add_distr_l, N.mul_1_r, (N.mul_comm p) in Hm. lia. }
        unfold ProofCompleteTop.node_of at 1. rewrite Hl'. apply N.ltb_lt in Hin. rewrite Hin.
        f_equal. apply IHk. lia.
      + cbn [app]. apply IHk. exact Hlo.
  Qed.

  (* the path written by Update is the append path of the updated list *)
  Theorem update_path_spec : forall l l' : list D, len l = n -> len l' = n ->
    update_path (node_of l') n (subtree_roots l) = subtree_roots l'.
  Proof.
    intros l l' Hl Hl'. unfold update_path. rewrite (path_blocks l' Hl').
    apply (refresh_blocks l' Hl' (N.to_nat Hh) 0%nat).
    rewrite (path_blocks l Hl). apply apF_length.
  Qed.
End UpdatePath.
