(* C11 — VerifyProof soundness, top level: initial invariant of calculatePathNodes and the theorem. *)
From Coq Require Import List Arith NArith ZArith Lia Bool ZifyBool ZifyN ZifyNat.
From LE Require Import RMT.Root RMT.Append RMT.AppendProofs RMT.Proof RMT.NodeProofs RMT.IndexProofs RMT.ProofSound.
Import ListNotations.
Local Open Scope N_scope.

Section ValidIdx.
  Variable n : N.
  Hypothesis Hok : size_ok n.
  Notation Hh := (get_height n).

  (* the index check of VerifyProof: accepted indexes are 0 or indexes of nodes of the tree *)
  Lemma valid_idx_node : forall Z, valid_idx n Z = true -> exists k i, vnode n k i /\ Z = nidx Hh k i.
  Proof.
    intros Z Hv. unfold valid_idx, new_loc in Hv.
    destruct ((Z <? 2) || (2 ^ 63 <=? Z)) eqn:E1; [discriminate|].
    apply orb_false_iff in E1. destruct E1 as [E1 _]. apply N.ltb_ge in E1.
    set (k0 := N.size Z - 1) in *.
    destruct (2 ^ 31 <=? Z - 2 ^ k0); [discriminate|].
    destruct (N.ltb_spec Hh k0) as [|Hk0]; [discriminate|].
    apply N.leb_le in Hv.
    pose proof (N.size_gt Z) as Hgt. pose proof (N.size_le Z) as Hle. rewrite N.succ_double_spec in Hle.
    assert (Hs2 : 2 <= N.size Z).
    { destruct (N.le_gt_cases 2 (N.size Z)) as [|Hlt]; [assumption|]. exfalso.
      assert (2 ^ N.size Z <= 2 ^ 1) by (apply N.pow_le_mono_r; lia). change (2 ^ 1) with 2 in *. lia. }
    assert (Hsz : N.size Z = k0 + 1) by (unfold k0; lia).
    rewrite Hsz in Hgt, Hle. rewrite N.add_1_r, N.pow_succ_r' in Hgt, Hle.
    assert (Hk1 : 1 <= k0) by (unfold k0; lia).
    destruct (height_facts n Hok) as [Hh1 Hn]. destruct Hok as [Hn1 _].
    exists (Hh - k0), (Z - 2 ^ k0). split; [split|].
    - lia.
    - pose proof (N.mul_div_le (n - 1) (2 ^ (Hh - k0)) ltac:(apply N.pow_nonzero; lia)) as M.
      set (p := 2 ^ (Hh - k0)) in *. set (d := (n - 1) / p) in *. nia.
    - unfold nidx. replace (Hh - (Hh - k0)) with k0 by lia. lia.
  Qed.

  (* ... and the index check accepts every index of a node of the tree (used by the completeness theorems) *)
  Lemma node_valid_idx : forall k i, vnode n k i -> valid_idx n (nidx Hh k i) = true.
  Proof.
    intros k i Hv. unfold valid_idx. rewrite (new_loc_nidx n Hok k i Hv). apply N.leb_le.
    destruct Hv as [_ Hi]. apply N.div_le_lower_bound; [apply N.pow_nonzero; lia|]. lia.
  Qed.
End ValidIdx.

Section Top.
  Variable n : N.
  Hypothesis Hok : size_ok n.
  Notation Hh := (get_height n).
  Context {D Hsh : Type}.
  Variable hempty : Hsh.
  Variable hleaf : D -> Hsh.
  Variable hbranch : Hsh -> Hsh -> Hsh.
  Variable heqb : Hsh -> Hsh -> bool.
  Hypothesis heqb_eq : forall a b, heqb a b = true -> a = b.
  Hypothesis branch_inj : forall a b c d, hbranch a b = hbranch c d -> a = c /\ b = d.
  Variable l : list D.
  Hypothesis Hlen : len l = n.
  Notation nval := (nval hempty hleaf hbranch l).

  Lemma init_result_spec : forall qs idxs acc res, init_result heqb qs idxs acc = Some res ->
    (forall Z h, lookup acc Z = Some h -> lookup res Z = Some h) /\
    (forall j idx q, nth_error idxs j = Some idx -> nth_error qs j = Some q -> idx <> 0 -> lookup res idx = Some q) /\
    (forall Z h, lookup res Z = Some h -> (exists h', lookup acc Z = Some h') \/ (In Z idxs /\ Z <> 0)).
  Proof.
    induction qs as [|q qs IH]; intros idxs acc res Hr; cbn [init_result] in Hr.
    - inversion Hr; subst. split; [auto|]. split; [intros [|j] ? ? ? Hq; discriminate Hq|eauto].
    - destruct idxs as [|i idxs].
      + inversion Hr; subst. split; [auto|]. split; [intros [|j] ? ? Hi; discriminate Hi|eauto].
      + destruct (N.eqb_spec i 0) as [->|Hi0].
        * destruct (IH _ _ _ Hr) as (A & B & C). split; [exact A|]. split.
          -- intros [|j] idx q0 Hi Hq Hne; cbn in Hi, Hq; [inversion Hi; congruence|eauto].
          -- intros Z h Hl. destruct (C Z h Hl) as [?|[? ?]]; [left; assumption|right; split; [right; assumption|assumption]].
        * assert (Hstep : exists acc', init_result heqb qs idxs acc' = Some res /\ acc' = (i, q) :: acc /\
                          (forall e, lookup acc i = Some e -> e = q)).
          { destruct (lookup acc i) as [e|] eqn:El.
            - destruct (heqb e q) eqn:Eh; [|discriminate]. exists ((i, q) :: acc). split; [exact Hr|]. split; [reflexivity|].
              intros e0 E0. inversion E0; subst. apply heqb_eq. exact Eh.
            - exists ((i, q) :: acc). split; [exact Hr|]. split; [reflexivity|]. intros e0 E0. discriminate. }
          destruct Hstep as (acc' & Hr' & -> & Hcons).
          destruct (IH _ _ _ Hr') as (A & B & C). split; [|split].
          -- intros Z h Hl. apply A. rewrite lookup_cons. destruct (N.eqb_spec i Z) as [<-|]; [|exact Hl].
             f_equal. symmetry. apply Hcons. exact Hl.
          -- intros [|j] idx q0 Hi Hq Hne; cbn in Hi, Hq.
             ++ inversion Hi; inversion Hq; subst. apply A. rewrite lookup_cons, N.eqb_refl. reflexivity.
             ++ eauto.
          -- intros Z h Hl. destruct (C Z h Hl) as [[h' Hh']|[Hin Hne]].
             ++ rewrite lookup_cons in Hh'. destruct (N.eqb_spec i Z) as [<-|].
                ** right. split; [left; reflexivity|assumption].
                ** left. eauto.
             ++ right. split; [right; assumption|assumption].
  Qed.

  Definition leaf_idx (pos : N) : N := nidx Hh 0 pos.

  (* every claim is about a leaf of the tree (or is the ignored index 0) *)
  Definition leaf_claims (idxs : list N) : Prop :=
    forall idx, In idx idxs -> idx = 0 \/ exists pos, pos < n /\ idx = leaf_idx pos.
  (* every claim is about some node of the tree: leaf, branch or pass-through node (or is the ignored index 0) *)
  Definition node_claims (idxs : list N) : Prop :=
    forall idx, In idx idxs -> idx = 0 \/ exists k i, vnode n k i /\ idx = nidx Hh k i.

  Definition claims_true (qs : list Hsh) (idxs : list N) : Prop :=
    forall j pos q, nth_error idxs j = Some (leaf_idx pos) -> pos < n -> nth_error qs j = Some q -> q = nval 0 pos.
  Definition node_claims_true (qs : list Hsh) (idxs : list N) : Prop :=
    forall j k i q, nth_error idxs j = Some (nidx Hh k i) -> vnode n k i -> nth_error qs j = Some q -> q = nval k i.

  Lemma leaf_vnode : forall pos, pos < n -> vnode n 0 pos.
  Proof. intros pos Hp. destruct (height_facts n Hok). split; [lia|]. rewrite N.pow_0_r. lia. Qed.
  Lemma leaf_node_claims : forall idxs, leaf_claims idxs -> node_claims idxs.
  Proof.
    intros idxs H idx Hin. destruct (H idx Hin) as [?|(pos & Hp & ->)]; [left; assumption|right].
    exists 0, pos. split; [apply leaf_vnode; exact Hp|reflexivity].
  Qed.

  (* calculatePathNodes, claims at ANY nodes of the tree: if the computed root is the root of l, every claim is true *)
  Theorem calc_path_nodes_sound_nodes : forall qs idxs sibs resF,
    node_claims idxs ->
    calc_path_nodes hbranch heqb qs n idxs sibs = Ok resF ->
    lookup resF 2 = Some (mroot hempty hleaf hbranch l) ->
    node_claims_true qs idxs.
  Proof.
    intros qs idxs sibs resF Hnodes Hrun Hroot. unfold calc_path_nodes in Hrun.
    destruct (Nat.eqb_spec (length qs) (length idxs)) as [Hll|Hll]; cbn [negb] in Hrun; [|discriminate].
    destruct (Nat.eqb (length qs) 0); [discriminate|].
    destruct (init_result heqb qs idxs []) as [res0|] eqn:Ei; [|discriminate].
    destruct (init_result_spec _ _ _ _ Ei) as (_ & B & C).
    eapply (cpn_sound n Hok hempty hleaf hbranch heqb heqb_eq branch_inj l Hlen (node_claims_true qs idxs)); [|exact Hrun|exact Hroot].
    set (wl := sort_idx (nodup N.eq_dec (filter (fun i => negb (i =? 0)) idxs))).
    assert (Hwl : forall Z, In Z wl <-> In Z idxs /\ Z <> 0).
    { intros Z. unfold wl. rewrite in_sort_idx, nodup_In, filter_In. split; intros [A1 A2]; split; auto; destruct (N.eqb_spec Z 0); cbn in *; congruence. }
    assert (Hnode : forall Z, In Z idxs -> Z <> 0 -> exists k i, vnode n k i /\ Z = nidx Hh k i).
    { intros Z Hin Hne. destruct (Hnodes Z Hin) as [?|?]; [contradiction|assumption]. }
    unfold Inv. repeat split.
    - apply sort_idx_lsorted.
    - intros Z HZ. apply Hwl in HZ. destruct HZ as [Hin Hne]. destruct (Hnode Z Hin Hne) as (k & i & Hv & ->).
      exists k, i. split; [exact Hv|reflexivity].
    - intros Y c Hc. cbn in Hc. discriminate.
    - intros Z HZ. apply Hwl in HZ. destruct HZ as [Hin Hne]. apply In_nth_error in Hin. destruct Hin as [j Hj].
      assert (Hq : exists q, nth_error qs j = Some q).
      { destruct (nth_error qs j) eqn:E; [eauto|]. exfalso. apply nth_error_None in E.
        assert (j < length idxs)%nat by (apply nth_error_Some; congruence).
        lia. }
      destruct Hq as [q Hq]. unfold fv. rewrite (B j Z q Hj Hq Hne). discriminate.
    - intros Fr j k i q Hj Hv Hq.
      assert (Hne : nidx Hh k i <> 0) by (pose proof (nidx_ge2 n k i Hv); lia).
      assert (Hin : In (nidx Hh k i) wl) by (apply Hwl; split; [eapply nth_error_In; exact Hj|exact Hne]).
      pose proof (Fr _ Hin k i (conj Hv eq_refl)) as F.
      unfold fv in F. rewrite (B j _ q Hj Hq Hne) in F. inversion F; reflexivity.
  Qed.

  Theorem calc_path_nodes_sound : forall qs idxs sibs resF,
    leaf_claims idxs ->
    calc_path_nodes hbranch heqb qs n idxs sibs = Ok resF ->
    lookup resF 2 = Some (mroot hempty hleaf hbranch l) ->
    claims_true qs idxs.
  Proof.
    intros qs idxs sibs resF Hleaf Hrun Hroot j pos q Hj Hp Hq.
    apply (calc_path_nodes_sound_nodes qs idxs sibs resF (leaf_node_claims _ Hleaf) Hrun Hroot j 0 pos q Hj (leaf_vnode pos Hp) Hq).
  Qed.

  (* VerifyProof, ARBITRARY index list (the indexes come with the proof and are not trusted): if it accepts against the
     root of l, every claim whose index is the index of a node of the tree carries the value of that node -- all other
     non-zero indexes were rejected by the index check *)
  Theorem proof_sound_any : forall qs idxs sibs,
    verify_proof hbranch heqb qs n idxs sibs (mroot hempty hleaf hbranch l) = true ->
    node_claims idxs /\ node_claims_true qs idxs.
  Proof.
    intros qs idxs sibs Hv.
    unfold verify_proof in Hv. destruct (n =? 0); [discriminate|].
    destruct (forallb (fun i => (i =? 0) || valid_idx n i) idxs) eqn:Eval; cbn [negb] in Hv; [|discriminate].
    assert (Hnodes : node_claims idxs).
    { intros idx Hin. rewrite forallb_forall in Eval. specialize (Eval idx Hin). apply orb_true_iff in Eval.
      destruct Eval as [E0|E1]; [left; apply N.eqb_eq; exact E0|right; apply (valid_idx_node n Hok); exact E1]. }
    split; [exact Hnodes|].
    unfold root_of in Hv.
    destruct (calc_path_nodes hbranch heqb qs n idxs sibs) as [resF| |] eqn:Er; try discriminate.
    destruct (lookup resF 2) as [r|] eqn:E2; [|discriminate].
    apply heqb_eq in Hv. subst r.
    exact (calc_path_nodes_sound_nodes qs idxs sibs resF Hnodes Er E2).
  Qed.

  (* in particular every LEAF claim is true, whatever other claims accompany it *)
  Theorem proof_sound : forall qs idxs sibs,
    verify_proof hbranch heqb qs n idxs sibs (mroot hempty hleaf hbranch l) = true ->
    forall j pos q x, nth_error idxs j = Some (leaf_idx pos) -> nth_error qs j = Some q ->
                      nth_error l (N.to_nat pos) = Some x -> q = hleaf x.
  Proof.
    intros qs idxs sibs Hv j pos q x Hj Hq Hx.
    assert (Hp : pos < n).
    { unfold len in Hlen. assert (N.to_nat pos < length l)%nat by (apply nth_error_Some; congruence). lia. }
    rewrite <- (nval_leaf hempty hleaf hbranch l pos x Hx).
    exact (proj2 (proof_sound_any qs idxs sibs Hv) j 0 pos q Hj (leaf_vnode pos Hp) Hq).
  Qed.

End Top.
