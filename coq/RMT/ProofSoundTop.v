(* C11 — VerifyProof soundness, top level: initial invariant of calculatePathNodes and the theorem. *)
From Coq Require Import List Arith NArith ZArith Lia Bool ZifyBool ZifyN ZifyNat.
From LE Require Import RMT.Root RMT.Append RMT.AppendProofs RMT.Proof RMT.NodeProofs RMT.IndexProofs RMT.ProofSound.
Import ListNotations.
Local Open Scope N_scope.

Section Top.
  Variable n : N.
  Hypothesis Hok : size_ok n.
  Notation Hh := (get_height n).
  Context {D Hsh : Type}.
  Variable hempty : Hsh.
  Variable hleaf : D -> Hsh.
  Variable hbranch : Hsh -> Hsh -> Hsh.
  Variable heqb : Hsh -> Hsh -> bool.
  Hypothesis heqb_eq : forall a b, heqb a b = true -> a = b.
  Hypothesis branch_inj : forall a b c d, hbranch a b = hbranch c d -> a = c /\ b = d.
  Variable l : list D.
  Hypothesis Hlen : len l = n.
  Notation nval := (nval hempty hleaf hbranch l).

  Lemma init_result_spec : forall qs idxs acc res, init_result heqb qs idxs acc = Some res ->
    (forall Z h, lookup acc Z = Some h -> lookup res Z = Some h) /\
    (forall j idx q, nth_error idxs j = Some idx -> nth_error qs j = Some q -> idx <> 0 -> lookup res idx = Some q) /\
    (forall Z h, lookup res Z = Some h -> (exists h', lookup acc Z = Some h') \/ (In Z idxs /\ Z <> 0)).
  Proof.
    induction qs as [|q qs IH]; intros idxs acc res Hr; cbn [init_result] in Hr.
    - inversion Hr; subst. split; [auto|]. split; [intros [|j] ? ? ? Hq; discriminate Hq|eauto].
    - destruct idxs as [|i idxs].
      + inversion Hr; subst. split; [auto|]. split; [intros [|j] ? ? Hi; discriminate Hi|eauto].
      + destruct (N.eqb_spec i 0) as [->|Hi0].
        * destruct (IH _ _ _ Hr) as (A & B & C). split; [exact A|]. split.
          -- intros [|j] idx q0 Hi Hq Hne; cbn in Hi, Hq; [inversion Hi; congruence|eauto].
          -- intros Z h Hl. destruct (C Z h Hl) as [?|[? ?]]; [left; assumption|right; split; [right; assumption|assumption]].
        * assert (Hstep : exists acc', init_result heqb qs idxs acc' = Some res /\ acc' = (i, q) :: acc /\
                          (forall e, lookup acc i = Some e -> e = q)).
          { destruct (lookup acc i) as [e|] eqn:El.
            - destruct (heqb e q) eqn:Eh; [|discriminate]. exists ((i, q) :: acc). split; [exact Hr|]. split; [reflexivity|].
              intros e0 E0. inversion E0; subst. apply heqb_eq. exact Eh.
            - exists ((i, q) :: acc). split; [exact Hr|]. split; [reflexivity|]. intros e0 E0. discriminate. }
          destruct Hstep as (acc' & Hr' & -> & Hcons).
          destruct (IH _ _ _ Hr') as (A & B & C). split; [|split].
          -- intros Z h Hl. apply A. rewrite lookup_cons. destruct (N.eqb_spec i Z) as [<-|]; [|exact Hl].
             f_equal. symmetry. apply Hcons. exact Hl.
          -- intros [|j] idx q0 Hi Hq Hne; cbn in Hi, Hq.
             ++ inversion Hi; inversion Hq; subst. apply A. rewrite lookup_cons, N.eqb_refl. reflexivity.
             ++ eauto.
          -- intros Z h Hl. destruct (C Z h Hl) as [[h' Hh']|[Hin Hne]].
             ++ rewrite lookup_cons in Hh'. destruct (N.eqb_spec i Z) as [<-|].
                ** right. split; [left; reflexivity|assumption].
                ** left. eauto.
             ++ right. split; [right; assumption|assumption].
  Qed.

  Definition leaf_idx (pos : N) : N := nidx Hh 0 pos.

  (* every claim is about a leaf of the tree (or is the ignored index 0) *)
  Definition leaf_claims (idxs : list N) : Prop :=
    forall idx, In idx idxs -> idx = 0 \/ exists pos, pos < n /\ idx = leaf_idx pos.

  Definition claims_true (qs : list Hsh) (idxs : list N) : Prop :=
    forall j pos q, nth_error idxs j = Some (leaf_idx pos) -> pos < n -> nth_error qs j = Some q -> q = nval 0 pos.

  Lemma leaf_vnode : forall pos, pos < n -> vnode n 0 pos.
  Proof. intros pos Hp. destruct (height_facts n Hok). split; [lia|]. rewrite N.pow_0_r. lia. Qed.

  Theorem calc_path_nodes_sound : forall qs idxs sibs resF,
    leaf_claims idxs ->
    calc_path_nodes hbranch heqb qs n idxs sibs = Ok resF ->
    lookup resF 2 = Some (mroot hempty hleaf hbranch l) ->
    claims_true qs idxs.
  Proof.
    intros qs idxs sibs resF Hleaf Hrun Hroot. unfold calc_path_nodes in Hrun.
    destruct (Nat.eqb_spec (length qs) (length idxs)) as [Hll|Hll]; cbn [negb] in Hrun; [|discriminate].
    destruct (Nat.eqb (length qs) 0); [discriminate|].
    destruct (init_result heqb qs idxs []) as [res0|] eqn:Ei; [|discriminate].
    destruct (init_result_spec _ _ _ _ Ei) as (_ & B & C).
    eapply (cpn_sound n Hok hempty hleaf hbranch heqb heqb_eq branch_inj l Hlen (claims_true qs idxs)); [|exact Hrun|exact Hroot].
    set (wl := sort_idx (nodup N.eq_dec (filter (fun i => negb (i =? 0)) idxs))).
    assert (Hwl : forall Z, In Z wl <-> In Z idxs /\ Z <> 0).
    { intros Z. unfold wl. rewrite in_sort_idx, nodup_In, filter_In. split; intros [A1 A2]; split; auto; destruct (N.eqb_spec Z 0); cbn in *; congruence. }
    assert (Hnode : forall Z, In Z idxs -> Z <> 0 -> exists pos, pos < n /\ Z = leaf_idx pos).
    { intros Z Hin Hne. destruct (Hleaf Z Hin) as [?|?]; [contradiction|assumption]. }
    unfold Inv. repeat split.
    - apply sort_idx_lsorted.
    - intros Z HZ. apply Hwl in HZ. destruct HZ as [Hin Hne]. destruct (Hnode Z Hin Hne) as (pos & Hp & ->).
      exists 0, pos. split; [apply leaf_vnode; exact Hp|reflexivity].
    - intros Z h Hl. destruct (C Z h Hl) as [[h' Hh']|[Hin Hne]]; [cbn in Hh'; discriminate|].
      destruct (Hnode Z Hin Hne) as (pos & Hp & ->). exists 0, pos. split; [split; [apply leaf_vnode; exact Hp|reflexivity]|left; reflexivity].
    - intros Y c Hc. cbn in Hc. discriminate.
    - intros Z HZ. apply Hwl in HZ. destruct HZ as [Hin Hne]. apply In_nth_error in Hin. destruct Hin as [j Hj].
      assert (Hq : exists q, nth_error qs j = Some q).
      { destruct (nth_error qs j) eqn:E; [eauto|]. exfalso. apply nth_error_None in E.
        assert (j < length idxs)%nat by (apply nth_error_Some; congruence).
        lia. }
      destruct Hq as [q Hq]. unfold fv. rewrite (B j Z q Hj Hq Hne). discriminate.
    - intros Fr j pos q Hj Hp Hq.
      assert (Hne : leaf_idx pos <> 0) by (pose proof (nidx_ge2 n 0 pos (leaf_vnode pos Hp)); unfold leaf_idx; lia).
      assert (Hin : In (leaf_idx pos) wl) by (apply Hwl; split; [eapply nth_error_In; exact Hj|exact Hne]).
      pose proof (Fr _ Hin 0 pos (conj (leaf_vnode pos Hp) eq_refl)) as F.
      unfold fv in F. rewrite (B j _ q Hj Hq Hne) in F. inversion F; reflexivity.
  Qed.

  (* VerifyProof: if it accepts against the root of l, every claimed leaf hash is the hash of that leaf *)
  Theorem proof_sound : forall qs idxs sibs,
    leaf_claims idxs ->
    verify_proof hbranch heqb qs n idxs sibs (mroot hempty hleaf hbranch l) = true ->
    forall j pos q x, nth_error idxs j = Some (leaf_idx pos) -> nth_error qs j = Some q ->
                      nth_error l (N.to_nat pos) = Some x -> q = hleaf x.
  Proof.
    intros qs idxs sibs Hleaf Hv j pos q x Hj Hq Hx.
    unfold verify_proof in Hv. destruct (n =? 0); [discriminate|].
    unfold root_of in Hv.
    destruct (calc_path_nodes hbranch heqb qs n idxs sibs) as [resF| |] eqn:Er; try discriminate.
    destruct (lookup resF 2) as [r|] eqn:E2; [|discriminate].
    apply heqb_eq in Hv. subst r.
    assert (Hp : pos < n).
    { unfold len in Hlen. assert (N.to_nat pos < length l)%nat by (apply nth_error_Some; congruence). lia. }
    rewrite <- (nval_leaf hempty hleaf hbranch l pos x Hx).
    eapply (calc_path_nodes_sound qs idxs sibs resF Hleaf Er E2); eauto.
  Qed.
End Top.
