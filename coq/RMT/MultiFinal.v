(* C11 — completeness of GenerateProof + VerifyProof for ANY ascending set of leaf positions, and Update through a proof
   for ANY ascending index set, every tree size 1 <= n <= 2^29. *)
From Coq Require Import List Arith NArith ZArith Lia Bool ZifyBool ZifyN ZifyNat.
From LE Require Import RMT.Root RMT.Append RMT.AppendProofs RMT.Proof RMT.NodeProofs RMT.IndexProofs RMT.ProofSound
                       RMT.ProofSoundTop RMT.ProofComplete RMT.ProofCompleteTop RMT.MultiLists RMT.MultiGsh RMT.MultiCpn RMT.MultiTop.
Import ListNotations.
Local Open Scope N_scope.

Section Final.
  Variable n : N.
  Hypothesis Hok : size_ok n.
  Notation Hh := (get_height n).
  Context {D Hsh : Type}.
  Variable hempty : Hsh.
  Variable hleaf : D -> Hsh.
  Variable hbranch : Hsh -> Hsh -> Hsh.
  Variable heqb : Hsh -> Hsh -> bool.
  Hypothesis heqb_refl : forall a, heqb a a = true.
  Hypothesis heqb_eq : forall a b, heqb a b = true -> a = b.
  Variable l : list D.
  Hypothesis Hlen : len l = n.
  Variable ps : list N.
  Hypothesis Hps : forall p, In p ps -> p < n.
  Hypothesis Hasc : asc ps.
  Hypothesis Hne : ps <> [].
  Notation nval := (nval hempty hleaf hbranch).
  Notation mroot := (mroot hempty hleaf hbranch).
  Notation node_of := (node_of hempty hleaf hbranch).

  Lemma X_leaf : forall p, MultiGsh.X n 0 p = leaf_idx n p.
  Proof. reflexivity. Qed.

  Lemma query_idxs_ok : forall r, (forall p, In p r -> p < n) ->
    query_idxs Hh (map (fun p => Some (0, p)) r) = Ok (map (leaf_idx n) r).
  Proof.
    induction r as [|p r IH]; intros Hr; [reflexivity|]. cbn [map query_idxs].
    assert (Hv : vnode n 0 p).
    { destruct (height_facts n Hok). split; [lia|]. rewrite N.pow_0_r. pose proof (Hr p (or_introl eq_refl)). lia. }
    rewrite (loc_index_nidx n Hok 0 p Hv). rewrite IH; [reflexivity|]. intros; apply Hr; right; assumption.
  Qed.

  (* GenerateProof for the leaves at positions ps of the tree of l, then VerifyProof with their leaf values *)
  Theorem proof_complete_multi :
    exists sibs, generate_proof (node_of l) n (map (fun p => Some (0, p)) ps) = Ok (n, map (leaf_idx n) ps, sibs) /\
                 verify_proof hbranch heqb (map (nval l 0) ps) n (map (leaf_idx n) ps) sibs (mroot l) = true.
  Proof.
    assert (Hna : forall k i, vnode n k i -> ~ act ps k i -> node_of l k i = Some (nval l k i)).
    { intros k i [_ Hi] _. unfold ProofCompleteTop.node_of. rewrite Hlen. destruct (N.ltb_spec (i * 2 ^ k) n); [reflexivity|lia]. }
    destruct (multi_core n Hok hempty hleaf hbranch heqb heqb_refl heqb_eq l Hlen ps Hps Hasc Hne (node_of l) Hna) as (sibs & Hs & Hr).
    change (map (MultiGsh.X n 0) ps) with (map (leaf_idx n) ps) in Hs, Hr.
    exists sibs. destruct Hok as [Hn1 _]. assert (E0 : (n =? 0) = false) by lia. split.
    - unfold generate_proof. rewrite E0, (query_idxs_ok ps Hps). rewrite Hs. reflexivity.
    - unfold verify_proof. rewrite E0.
      assert (Ev : forallb (fun i => (i =? 0) || valid_idx n i) (map (leaf_idx n) ps) = true).
      { apply forallb_forall. intros z Hz. apply in_map_iff in Hz. destruct Hz as (p & <- & Hp).
        unfold leaf_idx. rewrite (node_valid_idx n Hok 0 p); [apply orb_true_r|].
        destruct (height_facts n Hok). split; [lia|]. rewrite N.pow_0_r. specialize (Hps p Hp). lia. }
      rewrite Ev. cbn [negb]. rewrite Hr. apply heqb_refl.
  Qed.

  (* Update(idxs of positions ps, new data): lv = the list after the update (equal to l outside ps) *)
  Theorem update_multi : forall lv, len lv = n ->
    (forall q, ~ In (N.of_nat q) ps -> nth_error lv q = nth_error l q) ->
    update_root hbranch heqb (node_of l) n (map (leaf_idx n) ps) (map (nval lv 0) ps) = Ok (mroot lv).
  Proof.
    intros lv Hlv Hsame.
    assert (Hna : forall k i, vnode n k i -> ~ act ps k i -> node_of l k i = Some (nval lv k i)).
    { intros k i [_ Hi] Hnact. unfold ProofCompleteTop.node_of. rewrite Hlen. destruct (N.ltb_spec (i * 2 ^ k) n); [|lia].
      f_equal. unfold NodeProofs.nval. f_equal. unfold slice. apply nth_error_ext'. intros j.
      rewrite !nth_error_firstn'. destruct (Nat.ltb_spec j (N.to_nat (2 ^ k))); [|reflexivity].
      rewrite !nth_error_skipn'. symmetry. apply Hsame. intros Hin. apply Hnact. exists (N.of_nat (N.to_nat (i * 2 ^ k) + j)).
      split; [exact Hin|]. unfold cov. lia. }
    destruct (multi_core n Hok hempty hleaf hbranch heqb heqb_refl heqb_eq lv Hlv ps Hps Hasc Hne (node_of l) Hna) as (sibs & Hs & Hr).
    change (map (MultiGsh.X n 0) ps) with (map (leaf_idx n) ps) in Hs, Hr.
    unfold update_root.
    assert (Hb : forallb (fun i => blen i =? Hh + 1) (map (leaf_idx n) ps) = true).
    { apply forallb_forall. intros x Hx. apply in_map_iff in Hx. destruct Hx as (p & <- & Hp).
      assert (Hv : vnode n 0 p).
      { destruct (height_facts n Hok). split; [lia|]. rewrite N.pow_0_r. pose proof (Hps p Hp). lia. }
      unfold leaf_idx. rewrite (blen_nidx n Hok 0 p Hv). apply N.eqb_eq. lia. }
    rewrite Hb. cbn [negb]. rewrite Hs. exact Hr.
  Qed.
End Final.
