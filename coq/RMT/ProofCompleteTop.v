(* C11 — top-level statements for one queried / updated leaf, every tree size (1 <= n <= 2^29). *)
From Coq Require Import List Arith NArith ZArith Lia Bool ZifyBool ZifyN ZifyNat.
From LE Require Import RMT.Root RMT.Append RMT.AppendProofs RMT.Proof RMT.NodeProofs RMT.IndexProofs RMT.ProofSound
                       RMT.ProofSoundTop RMT.ProofComplete.
Import ListNotations.
Local Open Scope N_scope.

Lemma nth_error_ext' : forall (A : Type) (a b : list A), (forall j, nth_error a j = nth_error b j) -> a = b.
Proof.
  induction a as [|x a IH]; intros [|y b] H; auto.
  - specialize (H O). discriminate.
  - specialize (H O). discriminate.
  - pose proof (H O) as H0. cbn in H0. inversion H0; subst. f_equal. apply IH. intros j. apply (H (S j)).
Qed.
Lemma nth_error_firstn' : forall (A : Type) m (l : list A) j,
  nth_error (firstn m l) j = if Nat.ltb j m then nth_error l j else None.
Proof.
  induction m; intros l j; cbn [firstn].
  - destruct j; reflexivity.
  - destruct l as [|x t]; [destruct j; cbn [nth_error]; destruct (Nat.ltb _ (S m)); reflexivity|].
    destruct j; [reflexivity|]. cbn [nth_error]. rewrite IHm. reflexivity.
Qed.
Lemma nth_error_skipn' : forall (A : Type) a (l : list A) j, nth_error (skipn a l) j = nth_error l (a + j).
Proof.
  induction a; intros l j; cbn [skipn Nat.add]; auto. destruct l; [destruct j; reflexivity|]. apply IHa.
Qed.

(* the list with position p replaced *)
Definition upd {A : Type} (l : list A) (p : nat) (y : A) : list A := firstn p l ++ y :: skipn (S p) l.
Lemma upd_length : forall (A : Type) (l : list A) p y, (p < length l)%nat -> length (upd l p y) = length l.
Proof. intros. unfold upd. rewrite app_length, firstn_length. cbn [length]. rewrite skipn_length. lia. Qed.
Lemma nth_error_upd : forall (A : Type) (l : list A) p y q, (p < length l)%nat ->
  nth_error (upd l p y) q = if Nat.eqb q p then Some y else nth_error l q.
Proof.
  intros A l p y q Hp. unfold upd.
  assert (Hf : length (firstn p l) = p) by (rewrite firstn_length; lia).
  destruct (Nat.eqb_spec q p) as [->|Hne].
  - rewrite nth_error_app2 by lia. rewrite Hf, Nat.sub_diag. reflexivity.
  - destruct (Nat.lt_ge_cases q p).
    + rewrite nth_error_app1 by lia. rewrite nth_error_firstn'. destruct (Nat.ltb_spec q p); [reflexivity|lia].
    + rewrite nth_error_app2 by lia. rewrite Hf. destruct (q - p)%nat as [|d] eqn:E; [lia|].
      cbn [nth_error]. rewrite nth_error_skipn'. f_equal. lia.
Qed.

Section Top.
  Variable n : N.
  Hypothesis Hok : size_ok n.
  Notation Hh := (get_height n).
  Context {D Hsh : Type}.
  Variable hempty : Hsh.
  Variable hleaf : D -> Hsh.
  Variable hbranch : Hsh -> Hsh -> Hsh.
  Variable heqb : Hsh -> Hsh -> bool.
  Hypothesis heqb_refl : forall a, heqb a a = true.
  Variable l : list D.
  Hypothesis Hlen : len l = n.
  Notation nval := (nval hempty hleaf hbranch).
  Notation mroot := (mroot hempty hleaf hbranch).

  (* the store as a function of the leaves: what getHash(loc) returns *)
  Definition node_of (lst : list D) (k i : N) : option Hsh :=
    if i * 2 ^ k <? len lst then Some (nval lst k i) else None.

  Lemma slice_upd : forall p y start m, (p < length l)%nat ->
    ~ (N.to_nat start <= p < N.to_nat start + N.to_nat m)%nat ->
    slice (upd l p y) start m = slice l start m.
  Proof.
    intros p y start m Hp Hout. unfold slice. apply nth_error_ext'. intros j.
    rewrite !nth_error_firstn'. destruct (Nat.ltb_spec j (N.to_nat m)); [|reflexivity].
    rewrite !nth_error_skipn'. rewrite nth_error_upd by exact Hp.
    destruct (Nat.eqb_spec (N.to_nat start + j) p); [lia|reflexivity].
  Qed.

  Variable pos : N.
  Hypothesis Hpos : pos < n.

  Lemma lvn : vnode n 0 pos.
  Proof. destruct (height_facts n Hok). split; [lia|]. rewrite N.pow_0_r. lia. Qed.

  Lemma px0 : px n pos 0 = leaf_idx n pos.
  Proof. unfold px, pn, leaf_idx. rewrite N.pow_0_r, N.div_1_r. reflexivity. Qed.

  (* common core: sibling hashes read from the tree of l verify the leaf value [y] at [pos] against the root of
     l with position pos replaced by y *)
  Lemma single_core : forall y, 
    exists sibs, sibling_hashes (node_of l) n [leaf_idx n pos] = Ok sibs /\
      root_of (calc_path_nodes hbranch heqb [hleaf y] n [leaf_idx n pos] sibs) = Ok (mroot (upd l (N.to_nat pos) y)).
  Proof.
    intros y. set (lv := upd l (N.to_nat pos) y).
    assert (Hp : (N.to_nat pos < length l)%nat) by (unfold len in Hlen; lia).
    assert (Hlv : len lv = n) by (unfold len, lv; rewrite upd_length by exact Hp; exact Hlen).
    assert (Hna : forall k i, vnode n k i -> ~ cov pos k i -> node_of l k i = Some (nval lv k i)).
    { intros k i [Hk Hi] Hnc. unfold node_of. rewrite Hlen. destruct (N.ltb_spec (i * 2 ^ k) n); [|lia].
      f_equal. unfold NodeProofs.nval, lv. f_equal. symmetry. apply slice_upd; [exact Hp|].
      unfold cov in Hnc. pose proof (pow2N_pos k). intros [A B]. apply Hnc. lia. }
    destruct (height_facts n Hok) as [Hh1 _].
    destruct (climb n Hok hempty hleaf hbranch heqb heqb_refl lv Hlv pos Hpos (node_of l) Hna (N.to_nat (Hh - 1)) 0 ltac:(lia)
                (loop_fuel 1 Hh) [] ltac:(unfold loop_fuel; lia)) as (E & Hg & Hc).
    exists E. split.
    - unfold sibling_hashes. cbn [filter length].
      assert (Hnz : (leaf_idx n pos =? 0) = false).
      { apply N.eqb_neq. pose proof (nidx_ge2 n 0 pos lvn). unfold leaf_idx. lia. }
      rewrite Hnz. cbn [negb sort_idx fold_right Proof.sort_ins]. rewrite <- px0. exact Hg.
    - assert (Hnz : (leaf_idx n pos =? 0) = false).
      { apply N.eqb_neq. pose proof (nidx_ge2 n 0 pos lvn). unfold leaf_idx. lia. }
      assert (Hq : hleaf y = nval lv 0 (pn pos 0)).
      { unfold pn. rewrite N.pow_0_r, N.div_1_r. symmetry. apply nval_leaf. unfold lv. rewrite nth_error_upd by exact Hp.
        rewrite Nat.eqb_refl. reflexivity. }
      destruct (Hc (loop_fuel 1 Hh) [(px n pos 0, hleaf y)] [] ltac:(unfold loop_fuel; lia)) as (resF & Hrun & Hroot).
      + unfold fv. rewrite lookup_cons, N.eqb_refl. f_equal. exact Hq.
      + intros _. rewrite lookup_cons, N.eqb_refl. f_equal. exact Hq.
      + right. split; [|rewrite lookup_cons, N.eqb_refl; f_equal; exact Hq].
        intros Z h El. rewrite lookup_cons in El. destruct (N.eqb_spec (px n pos 0) Z) as [<-|]; [|discriminate].
        exists 0. split; [lia|reflexivity].
      + unfold calc_path_nodes. cbn [length Nat.eqb negb init_result]. rewrite Hnz. cbn [lookup find].
        cbn [filter]. rewrite Hnz. cbn [negb]. change (nodup N.eq_dec [leaf_idx n pos]) with [leaf_idx n pos]. cbn [sort_idx fold_right Proof.sort_ins]. rewrite <- px0.
        rewrite Hrun. unfold root_of. rewrite Hroot. reflexivity.
  Qed.

  Lemma upd_same : forall x, nth_error l (N.to_nat pos) = Some x -> upd l (N.to_nat pos) x = l.
  Proof.
    intros x Hx. apply nth_error_ext'. intros j.
    assert (Hp : (N.to_nat pos < length l)%nat) by (apply nth_error_Some; congruence).
    rewrite nth_error_upd by exact Hp. destruct (Nat.eqb_spec j (N.to_nat pos)) as [->|]; [symmetry; exact Hx|reflexivity].
  Qed.

  (* GenerateProof for one leaf of the tree of l verifies against the root of l *)
  Theorem proof_complete_single : forall x, nth_error l (N.to_nat pos) = Some x ->
    exists sibs, generate_proof (node_of l) n [Some (0, pos)] = Ok (n, [leaf_idx n pos], sibs) /\
                 verify_proof hbranch heqb [hleaf x] n [leaf_idx n pos] sibs (mroot l) = true.
  Proof.
    intros x Hx. destruct (single_core x) as (sibs & Hs & Hr). rewrite (upd_same x Hx) in Hr.
    exists sibs. destruct Hok as [Hn1 H29]. split.
    - unfold generate_proof. assert (E0 : (n =? 0) = false) by lia. rewrite E0. cbn [query_idxs].
      rewrite (loc_index_nidx n Hok 0 pos lvn). fold (leaf_idx n pos). rewrite Hs. reflexivity.
    - unfold verify_proof. assert (E0 : (n =? 0) = false) by lia. rewrite E0.
      assert (Ev : forallb (fun i => (i =? 0) || valid_idx n i) [leaf_idx n pos] = true).
      { cbn [forallb]. unfold leaf_idx. rewrite (node_valid_idx n (conj Hn1 H29) 0 pos lvn). rewrite orb_true_r. reflexivity. }
      rewrite Ev. cbn [negb]. rewrite Hr. apply heqb_refl.
  Qed.

  (* Update(idx of leaf pos, new data y): the new root is the root of the modified list *)
  Theorem update_single : forall y,
    update_root hbranch heqb (node_of l) n [leaf_idx n pos] [hleaf y] = Ok (mroot (upd l (N.to_nat pos) y)).
  Proof.
    intros y. destruct (single_core y) as (sibs & Hs & Hr). unfold update_root.
    assert (Hb : forallb (fun i => blen i =? Hh + 1) [leaf_idx n pos] = true).
    { cbn [forallb]. unfold leaf_idx. rewrite (blen_nidx n Hok 0 pos lvn).
      replace (Hh - 0 + 1) with (Hh + 1) by lia. rewrite N.eqb_refl. reflexivity. }
    rewrite Hb. cbn [negb]. rewrite Hs. exact Hr.
  Qed.
End Top.
