(* C11 — right witnesses, part 2: CalculateRootFromRightWitness on (append path of the first idx leaves, right witness of
   idx) reconstructs the LIP-0031 root of the whole list. *)
From Coq Require Import List Arith NArith ZArith Lia Bool ZifyBool ZifyN ZifyNat.
From LE Require Import RMT.Root RMT.Append RMT.AppendProofs RMT.Proof RMT.NodeProofs RMT.IndexProofs RMT.ProofCompleteTop RMT.WitnessGen.
Import ListNotations.
Local Open Scope N_scope.
Ltac Zify.zify_post_hook ::= Z.div_mod_to_equations.

Lemma testbit_div : forall x i : N, N.testbit x i = N.odd (x / 2 ^ i).
Proof. intros x i. rewrite <- N.shiftr_div_pow2, <- N.bit0_odd, N.shiftr_spec by lia. rewrite N.add_0_l. reflexivity. Qed.

Section Calc.
  Variable n : N.
  Hypothesis Hok : size_ok n.
  Notation Hh := (get_height n).
  Context {D Hsh : Type}.
  Variable hempty : Hsh.
  Variable hleaf : D -> Hsh.
  Variable hbranch : Hsh -> Hsh -> Hsh.
  Variable l : list D.
  Hypothesis Hlen : len l = n.
  Notation nval := (nval hempty hleaf hbranch l).
  Variable idx : N.
  Hypothesis Hidx : 1 <= idx <= n.
  Notation a := (a idx).
  Notation c := (c idx).
  Notation nsib := (nsib n idx).
  Notation rwFrom := (rwFrom n hempty hleaf hbranch l idx).
  Notation apFrom := (apFrom hempty hleaf hbranch l idx).
  Notation root := (mroot hempty hleaf hbranch l).
  Notation a_succ := (WitnessGen.a_succ n hempty hbranch l Hlen idx Hidx).
  Notation c_succ := (WitnessGen.c_succ n hempty hbranch l Hlen idx Hidx).
  Notation rwnil := (rwFrom_nil n hempty hleaf hbranch l Hlen idx Hidx).
  Notation nsmono := (nsib_mono n hempty hbranch l Hlen idx Hidx).

  Lemma av : forall i, i < Hh -> vnode n i (a i).
  Proof. intros. apply (a_vnode n hempty hbranch l Hlen idx Hidx). assumption. Qed.

  (* parent values along the ancestor chain *)
  Lemma step_odd : forall i, i + 1 < Hh -> N.odd (a i) = true ->
    nval (i + 1) (a (i + 1)) = hbranch (nval i (a i - 1)) (nval i (a i)).
  Proof.
    intros i Hi Ho. rewrite a_succ. rewrite (parent_value n hempty hleaf hbranch l Hlen i (a i) (av i ltac:(lia)) Hi).
    rewrite <- N.negb_even, even_mod2 in Ho. pose proof (av i ltac:(lia)) as [_ Hv]. pose proof (pow2N_pos i).
    assert (Hs : sib_of (a i) = a i - 1) by (unfold sib_of; destruct (N.eqb_spec (a i mod 2) 0); [discriminate|lia]).
    rewrite Hs. destruct (N.ltb_spec ((a i - 1) * 2 ^ i) n); [|nia].
    rewrite even_mod2. destruct (N.eqb_spec (a i mod 2) 0); [discriminate|reflexivity].
  Qed.
  Lemma step_even : forall i, i + 1 < Hh -> N.even (a i) = true ->
    nval (i + 1) (a (i + 1)) = if nsib i then hbranch (nval i (a i)) (nval i (a i + 1)) else nval i (a i).
  Proof.
    intros i Hi He. rewrite a_succ. rewrite (parent_value n hempty hleaf hbranch l Hlen i (a i) (av i ltac:(lia)) Hi).
    pose proof He as He'. rewrite even_mod2 in He'. apply N.eqb_eq in He'.
    assert (Hs : sib_of (a i) = a i + 1) by (unfold sib_of; lia). rewrite Hs. unfold WitnessGen.nsib. rewrite He. reflexivity.
  Qed.
  Lemma top_value : nval (Hh - 1) (a (Hh - 1)) = root.
  Proof. rewrite (a_top n Hok hempty hbranch l Hlen idx Hidx). apply (root_value n Hok). exact Hlen. Qed.

  Notation fold := (fold_left (fun x h => hbranch h x)).

  (* phase C, no right sibling left: the remaining append-path entries fold to the root *)
  Lemma VC2 : forall k i, N.of_nat k + i = Hh - 1 -> c i = a i -> rwFrom k i = [] ->
    fold (apFrom k i) (nval i (a i)) = root.
  Proof.
    induction k; intros i Hk Hc Hr.
    - cbn. replace i with (Hh - 1) by lia. apply top_value.
    - assert (Hi : i + 1 < Hh) by lia. cbn [WitnessGen.apFrom WitnessGen.rwFrom] in *. rewrite Hc.
      assert (Hc' : c (i + 1) = a (i + 1)) by (rewrite c_succ, a_succ, Hc; reflexivity).
      destruct (N.even (a i)) eqn:Ev.
      + rewrite <- N.negb_even, Ev. cbn [negb app].
        destruct (nsib i) eqn:Es; [discriminate|].
        pose proof (step_even i Hi Ev) as S. rewrite Es in S. rewrite <- S.
        apply IHk; [lia|exact Hc'|]. apply rwnil. apply nsmono. exact Es.
      + rewrite <- N.negb_even, Ev. cbn [negb app fold_left].
        rewrite <- (step_odd i Hi) by (rewrite <- N.negb_even, Ev; reflexivity).
        apply IHk; [lia|exact Hc'|exact Hr].
  Qed.

  Lemma bound : forall i, i < Hh -> (a i + 2) * 2 ^ i < 2 ^ 64.
  Proof.
    intros i Hi. destruct (height_facts n Hok) as [Hh1 _]. pose proof (av i Hi) as [_ Hv]. destruct Hok as [_ Hn].
    assert (2 ^ i <= 2 ^ 30) by (apply pow2_mono; lia).
    change (2 ^ 29) with 536870912 in Hn. change (2 ^ 30) with 1073741824 in H. change (2 ^ 64) with 18446744073709551616. nia.
  Qed.
  Lemma bit_at_small : forall x i, i < Hh -> bit_at x i = N.testbit x i.
  Proof. intros x i Hi. destruct (height_facts n Hok). unfold bit_at. assert (E0 : (i <? 64) = true) by lia. rewrite E0. reflexivity. Qed.
  Lemma shl1_small : forall i, i < Hh -> shl1 i = 2 ^ i.
  Proof. intros i Hi. destruct (height_facts n Hok). unfold shl1. assert (E0 : (i <? 64) = true) by lia. rewrite E0. reflexivity. Qed.
  Lemma Einc_odd : forall i, N.odd (a i) = true -> (a i + 1) * 2 ^ i = (a (i + 1) + 1) * 2 ^ (i + 1).
  Proof.
    intros i Ho. rewrite a_succ, pow2_succ. rewrite <- N.negb_even, even_mod2 in Ho.
    assert (Ha2 : a i = 2 * (a i / 2) + 1) by (destruct (N.eqb_spec (a i mod 2) 0); [discriminate|lia]). rewrite Ha2 at 1. ring.
  Qed.
  Lemma Einc_even : forall i, N.even (a i) = true -> (a i + 1) * 2 ^ i + 2 ^ i = (a (i + 1) + 1) * 2 ^ (i + 1).
  Proof.
    intros i He. rewrite a_succ, pow2_succ. rewrite even_mod2 in He. apply N.eqb_eq in He.
    assert (Ha2 : a i = 2 * (a i / 2)) by lia. rewrite Ha2 at 1. ring.
  Qed.

  (* phase C of the loop: above the lowest set digit of idx *)
  Lemma VC1 : forall k i fuel inc, N.of_nat k + i = Hh - 1 -> c i = a i -> (k < fuel)%nat ->
    (rwFrom k i <> [] -> inc = (a i + 1) * 2 ^ i) ->
    crw hbranch fuel idx i inc true (apFrom k i) (rwFrom k i) (nval i (a i)) = Ok root.
  Proof.
    induction k; intros i fuel inc Hk Hc Hf Hinc.
    - destruct fuel; [lia|]. cbn. replace i with (Hh - 1) by lia. rewrite top_value. reflexivity.
    - destruct fuel as [|f]; [lia|]. assert (Hi : i + 1 < Hh) by lia. assert (Hi0 : i < Hh) by lia.
      assert (Hc' : c (i + 1) = a (i + 1)) by (rewrite c_succ, a_succ, Hc; reflexivity).
      destruct (height_facts n Hok) as [Hh1 _].
      assert (E64 : (64 <=? i) = false) by lia.
      cbn [crw].
      destruct (apFrom (S k) i) as [|h0 ap0] eqn:Eap; destruct (rwFrom (S k) i) as [|r0 rw0] eqn:Erw.
      + (* nothing left: the value passes through to the root *)
        pose proof (VC2 (S k) i Hk Hc Erw) as V. rewrite Eap in V. cbn in V. rewrite V. reflexivity.
      + (* only right siblings left *)
        rewrite E64. cbv beta iota zeta. rewrite !bit_at_small, shl1_small by exact Hi0.
        cbn [WitnessGen.apFrom WitnessGen.rwFrom] in Eap, Erw. rewrite Hc in Eap.
        destruct (N.even (a i)) eqn:Ev.
        * destruct (nsib i) eqn:Es; [|discriminate]. inversion Erw; subst r0 rw0. clear Erw.
          rewrite <- N.negb_even, Ev in Eap. cbn [negb app] in Eap.
          rewrite (Hinc ltac:(discriminate)). assert (Htb : N.testbit ((a i + 1) * 2 ^ i) i = N.odd (a i + 1)) by apply testbit_scaled. rewrite Htb. rewrite <- N.negb_even, N.even_add, N.even_1, Ev. cbn [Bool.eqb negb].
          rewrite (Einc_even i Ev). rewrite N.mod_small by (rewrite <- (Einc_even i Ev); pose proof (bound i Hi0); lia).
          pose proof (step_even i Hi Ev) as S. rewrite Es in S. rewrite <- S. rewrite <- Eap.
          apply IHk; [lia|exact Hc'|lia|intros _; reflexivity].
        * rewrite <- N.negb_even, Ev in Eap. cbn in Eap. discriminate.
      + (* only append-path entries left *)
        rewrite E64. cbv beta iota zeta. rewrite !bit_at_small by exact Hi0. rewrite testbit_div. fold (c i). rewrite Hc.
        cbn [WitnessGen.apFrom WitnessGen.rwFrom] in Eap, Erw. rewrite Hc in Eap.
        destruct (N.odd (a i)) eqn:Eo.
        * cbn [app] in Eap. inversion Eap; subst h0 ap0. rewrite <- N.negb_even in Eo. apply negb_true_iff in Eo. rewrite Eo in Erw.
          rewrite <- (step_odd i Hi) by (rewrite <- N.negb_even, Eo; reflexivity). rewrite <- Erw.
          apply IHk; [lia|exact Hc'|lia|]. intros Hne. rewrite Erw in Hne. contradiction.
        * cbn [app] in Eap. rewrite <- N.negb_even in Eo. apply negb_false_iff in Eo. rewrite Eo in Erw.
          destruct (nsib i) eqn:Es; [discriminate|].
          pose proof (step_even i Hi Eo) as S. rewrite Es in S. rewrite <- S. rewrite <- Eap.
          rewrite <- (rwnil k (i + 1) (nsmono i Es)).
          apply IHk; [lia|exact Hc'|lia|]. intros Hne. exfalso. apply Hne. apply rwnil. apply nsmono. exact Es.
      + (* both kinds left *)
        rewrite E64. cbv beta iota zeta. rewrite !bit_at_small, shl1_small by exact Hi0. rewrite testbit_div. fold (c i). rewrite Hc.
        cbn [WitnessGen.apFrom WitnessGen.rwFrom] in Eap, Erw. rewrite Hc in Eap.
        rewrite (Hinc ltac:(discriminate)).
        destruct (N.odd (a i)) eqn:Eo.
        * cbv beta iota zeta. cbn [app] in Eap. inversion Eap; subst h0 ap0. pose proof Eo as Eo'. rewrite <- N.negb_even in Eo'. apply negb_true_iff in Eo'. rewrite Eo' in Erw.
          rewrite bit_at_small by exact Hi0. rewrite testbit_scaled. rewrite <- N.negb_even, N.even_add, N.even_1, Eo'. cbn [Bool.eqb negb].
          rewrite <- (step_odd i Hi Eo). rewrite <- Erw.
          apply IHk; [lia|exact Hc'|lia|]. intros _. apply Einc_odd. exact Eo.
        * cbv beta iota zeta. cbn [app] in Eap. pose proof Eo as Eo'. rewrite <- N.negb_even in Eo'. apply negb_false_iff in Eo'. rewrite Eo' in Erw.
          destruct (nsib i) eqn:Es; [|discriminate]. inversion Erw; subst r0 rw0.
          rewrite bit_at_small by exact Hi0. rewrite testbit_scaled. rewrite <- N.negb_even, N.even_add, N.even_1, Eo'. cbn [Bool.eqb negb].
          rewrite (Einc_even i Eo'). rewrite N.mod_small by (rewrite <- (Einc_even i Eo'); pose proof (bound i Hi0); lia).
          pose proof (step_even i Hi Eo') as S. rewrite Es in S. rewrite <- S. rewrite <- Eap.
          apply IHk; [lia|exact Hc'|lia|intros _; reflexivity].
  Qed.

  (* idx is a power of two: the append path of the left part is a single block; every layer pops one right sibling *)
  Lemma VP : forall k m fuel init, N.of_nat k + (m + 1) = Hh - 1 -> c (m + 1) = a (m + 1) -> apFrom k (m + 1) = [] ->
    N.even (a m) = true -> (k < fuel)%nat ->
    crw hbranch fuel idx m ((a m + 1) * 2 ^ m) init [] (rwFrom k (m + 1)) (nval (m + 1) (a (m + 1))) = Ok root.
  Proof.
    induction k; intros m fuel init Hk Hc Hap Hev Hf.
    - destruct fuel; [lia|]. cbn. replace (m + 1) with (Hh - 1) by lia. rewrite top_value. reflexivity.
    - destruct fuel as [|f]; [lia|]. assert (Hm1 : m + 1 + 1 < Hh) by lia. assert (Hm0 : m < Hh) by lia.
      destruct (height_facts n Hok) as [Hh1 _]. assert (E64 : (64 <=? m) = false) by lia.
      cbn [WitnessGen.apFrom] in Hap. apply app_eq_nil in Hap. destruct Hap as [Hap0 Hap1].
      assert (Hev1 : N.even (a (m + 1)) = true).
      { rewrite Hc in Hap0. rewrite <- N.negb_even in Hap0. destruct (N.even (a (m + 1))); [reflexivity|discriminate]. }
      assert (Hc' : c (m + 1 + 1) = a (m + 1 + 1)) by (rewrite c_succ, a_succ, Hc; reflexivity).
      cbn [crw WitnessGen.rwFrom]. rewrite Hev1.
      destruct (nsib (m + 1)) eqn:Es.
      + rewrite E64. cbv beta iota zeta. rewrite bit_at_small, shl1_small by exact Hm0. rewrite testbit_scaled.
        rewrite <- N.negb_even, N.even_add, N.even_1, Hev. cbn [Bool.eqb negb].
        rewrite (Einc_even m Hev). rewrite N.mod_small by (rewrite <- (Einc_even m Hev); pose proof (bound m Hm0); lia).
        pose proof (step_even (m + 1) Hm1 Hev1) as S. rewrite Es in S. rewrite <- S.
        apply IHk; [lia|exact Hc'|exact Hap1|exact Hev1|lia].
      + pose proof (VC2 (S k) (m + 1) Hk Hc) as V. cbn [WitnessGen.apFrom WitnessGen.rwFrom] in V. rewrite Hev1, Es, Hap0, Hap1 in V.
        cbn in V. rewrite (V eq_refl). reflexivity.
  Qed.

  (* phases A and B: below and at the lowest set digit of idx *)
  Lemma VAB1 : forall k i fuel h_ap h_rw ap' rw', N.of_nat k + i = Hh - 1 -> c i = a i + 1 -> idx = c i * 2 ^ i -> (k < fuel)%nat ->
    apFrom k i = h_ap :: ap' -> rwFrom k i = h_rw :: rw' -> (ap' <> [] \/ rw' <> []) ->
    crw hbranch fuel idx i idx false ap' rw' (hbranch h_ap h_rw) = Ok root.
  Proof.
    induction k; intros i fuel h_ap h_rw ap' rw' Hk Hc Hidx' Hf Hap Hrw Hne; [cbn in Hap; discriminate|].
    destruct fuel as [|f]; [lia|]. assert (Hi : i + 1 < Hh) by lia. assert (Hi0 : i < Hh) by lia.
    destruct (height_facts n Hok) as [Hh1 _]. assert (E64 : (64 <=? i) = false) by lia.
    cbn [WitnessGen.apFrom WitnessGen.rwFrom] in Hap, Hrw.
    assert (Hd : bit_at idx i = N.odd (c i)) by (rewrite bit_at_small by exact Hi0; apply testbit_div).
    assert (Hb : bit_at idx i = N.testbit idx i) by (apply bit_at_small; exact Hi0).
    destruct (N.odd (c i)) eqn:Eo.
    - (* the lowest set digit *)
      assert (Hev : N.even (a i) = true).
      { rewrite Hc in Eo. rewrite <- N.negb_even, N.even_add, N.even_1 in Eo. destruct (N.even (a i)); [reflexivity|discriminate]. }
      rewrite Hev in Hrw. cbn [app] in Hap. injection Hap as Eh Eap. destruct (nsib i) eqn:Es; [|discriminate]. injection Hrw as Er Erw.
      subst h_ap h_rw. replace (c i - 1) with (a i) in * by lia.
      assert (Hcur : hbranch (nval i (a i)) (nval i (a i + 1)) = nval (i + 1) (a (i + 1))).
      { pose proof (step_even i Hi Hev) as S. rewrite Es in S. symmetry. exact S. }
      rewrite Hcur.
      assert (Hc' : c (i + 1) = a (i + 1)).
      { rewrite c_succ, a_succ, Hc. rewrite even_mod2 in Hev. apply N.eqb_eq in Hev. lia. }
      assert (Hinc1 : idx + 2 ^ i = (a (i + 1) + 1) * 2 ^ (i + 1)).
      { transitivity ((a i + 1) * 2 ^ i + 2 ^ i); [f_equal; rewrite <- Hc; exact Hidx'|apply Einc_even; exact Hev]. }
      destruct ap' as [|h1 ap''].
      + (* idx = 2^i: no further append-path entry *)
        destruct rw' as [|r1 rw'']; [destruct Hne; contradiction|].
        cbn [crw]. rewrite E64. cbv beta iota zeta. rewrite shl1_small by exact Hi0.
        rewrite Hd. cbv beta iota zeta.
        rewrite Hinc1. rewrite N.mod_small by (rewrite <- (Einc_even i Hev); pose proof (bound i Hi0); lia).
        (* after the first pop we are in the situation of VP at layer i + 1 *)
        destruct k as [|k']; [cbn in Erw; discriminate|].
        cbn [WitnessGen.rwFrom] in Erw. cbn [WitnessGen.apFrom] in Eap. apply app_eq_nil in Eap. destruct Eap as [Eap0 Eap1].
        assert (Hev1 : N.even (a (i + 1)) = true).
        { rewrite Hc' in Eap0. rewrite <- N.negb_even in Eap0. destruct (N.even (a (i + 1))); [reflexivity|discriminate]. }
        rewrite Hev1 in Erw. destruct (nsib (i + 1)) eqn:Es1; [|discriminate]. injection Erw as Er1 Erw1. subst r1 rw''.
        assert (Hi2 : i + 1 + 1 < Hh).
        { destruct (N.lt_ge_cases (i + 1 + 1) Hh); [assumption|]. exfalso.
          assert (i + 1 = Hh - 1) by lia. unfold WitnessGen.nsib in Es1. rewrite H0 in Es1. rewrite (a_top n Hok hempty hbranch l Hlen idx Hidx) in Es1.
          destruct (height_facts n Hok) as [_ Hn]. apply N.ltb_lt in Es1. lia. }
        pose proof (step_even (i + 1) Hi2 Hev1) as S. rewrite Es1 in S. rewrite <- S.
        assert (Hc'' : c (i + 1 + 1) = a (i + 1 + 1)) by (rewrite c_succ, a_succ, Hc'; reflexivity).
        apply (VP k' (i + 1) f false); [lia|exact Hc''|exact Eap1|exact Hev1|lia].
      + cbn [crw]. rewrite E64. cbv beta iota zeta. rewrite Hd. cbv beta iota zeta. rewrite shl1_small by exact Hi0.
        rewrite Hinc1. rewrite N.mod_small by (rewrite <- (Einc_even i Hev); pose proof (bound i Hi0); lia).
        assert (Hnob : forall (X : Type) (x y : X), (if bit_at ((a (i + 1) + 1) * 2 ^ (i + 1)) i then x else y) = y).
        { intros X x y. rewrite bit_at_small by exact Hi0. rewrite pow2_succ.
          replace ((a (i + 1) + 1) * (2 * 2 ^ i)) with ((2 * (a (i + 1) + 1)) * 2 ^ i) by ring. rewrite testbit_scaled.
          rewrite <- N.negb_even, N.even_mul. reflexivity. }
        assert (Hgo : crw hbranch f idx (i + 1) ((a (i + 1) + 1) * 2 ^ (i + 1)) true (h1 :: ap'') rw' (nval (i + 1) (a (i + 1))) = Ok root).
        { rewrite <- Eap, <- Erw. apply VC1; [lia|exact Hc'|lia|intros _; reflexivity]. }
        destruct rw' as [|r1 rw'']; [exact Hgo|]. rewrite Hnob. exact Hgo.
    - (* below the lowest set digit: nothing happens at this layer *)
      assert (Hod : N.even (a i) = false).
      { rewrite Hc in Eo. rewrite <- N.negb_even, N.even_add, N.even_1 in Eo. destruct (N.even (a i)); [discriminate|reflexivity]. }
      rewrite Hod in Hrw. cbn [app] in Hap.
      assert (Hc' : c (i + 1) = a (i + 1) + 1).
      { rewrite c_succ, a_succ, Hc. rewrite even_mod2 in Hod. apply N.eqb_neq in Hod. lia. }
      assert (Hidx'' : idx = c (i + 1) * 2 ^ (i + 1)).
      { rewrite Hidx' at 1. rewrite c_succ, pow2_succ. rewrite <- N.negb_even, even_mod2 in Eo.
        assert (Hc2 : c i = 2 * (c i / 2)) by (destruct (N.eqb_spec (c i mod 2) 0); [lia|discriminate]). rewrite Hc2 at 1. ring. }
      assert (Hnob : forall (X : Type) (x y : X), (if bit_at idx i then x else y) = y) by (intros; rewrite Hd; reflexivity).
      assert (Hgo : crw hbranch f idx (i + 1) idx false ap' rw' (hbranch h_ap h_rw) = Ok root).
      { apply (IHk (i + 1) f h_ap h_rw ap' rw'); auto; lia. }
      cbn [crw]. rewrite E64.
      destruct ap' as [|h1 ap'']; destruct rw' as [|r1 rw'']; cbv beta iota zeta; rewrite ?Hnob; try exact Hgo.
      destruct Hne; contradiction.
  Qed.

  (* value lemmas for the two early exits of the Go function *)
  Lemma V1pair : forall k i h_ap h_rw, N.of_nat k + i = Hh - 1 -> c i = a i + 1 ->
    apFrom k i = [h_ap] -> rwFrom k i = [h_rw] -> hbranch h_ap h_rw = root.
  Proof.
    induction k; intros i h_ap h_rw Hk Hc Hap Hrw; [cbn in Hap; discriminate|].
    assert (Hi : i + 1 < Hh) by lia. cbn [WitnessGen.apFrom WitnessGen.rwFrom] in Hap, Hrw.
    destruct (N.odd (c i)) eqn:Eo.
    - assert (Hev : N.even (a i) = true).
      { rewrite Hc in Eo. rewrite <- N.negb_even, N.even_add, N.even_1 in Eo. destruct (N.even (a i)); [reflexivity|discriminate]. }
      rewrite Hev in Hrw. cbn [app] in Hap. injection Hap as Eh Eap. destruct (nsib i) eqn:Es; [|discriminate]. injection Hrw as Er Erw.
      subst h_ap h_rw. replace (c i - 1) with (a i) by lia.
      pose proof (step_even i Hi Hev) as S. rewrite Es in S. rewrite <- S.
      assert (Hc' : c (i + 1) = a (i + 1)).
      { rewrite c_succ, a_succ, Hc. rewrite even_mod2 in Hev. apply N.eqb_eq in Hev. lia. }
      pose proof (VC2 k (i + 1) ltac:(lia) Hc' Erw) as V. rewrite Eap in V. exact V.
    - assert (Hod : N.even (a i) = false).
      { rewrite Hc in Eo. rewrite <- N.negb_even, N.even_add, N.even_1 in Eo. destruct (N.even (a i)); [discriminate|reflexivity]. }
      rewrite Hod in Hrw. cbn [app] in Hap.
      apply (IHk (i + 1)); [lia| |exact Hap|exact Hrw].
      rewrite c_succ, a_succ, Hc. rewrite even_mod2 in Hod. apply N.eqb_neq in Hod. lia.
  Qed.

  Lemma VAB2 : forall k i h ap', N.of_nat k + i = Hh - 1 -> c i = a i + 1 ->
    apFrom k i = h :: ap' -> rwFrom k i = [] -> fold ap' h = root.
  Proof.
    induction k; intros i h ap' Hk Hc Hap Hrw; [cbn in Hap; discriminate|].
    assert (Hi : i + 1 < Hh) by lia. cbn [WitnessGen.apFrom WitnessGen.rwFrom] in Hap, Hrw.
    destruct (N.odd (c i)) eqn:Eo.
    - assert (Hev : N.even (a i) = true).
      { rewrite Hc in Eo. rewrite <- N.negb_even, N.even_add, N.even_1 in Eo. destruct (N.even (a i)); [reflexivity|discriminate]. }
      rewrite Hev in Hrw. cbn [app] in Hap. injection Hap as Eh Eap. destruct (nsib i) eqn:Es; [discriminate|].
      subst h. replace (c i - 1) with (a i) by lia.
      pose proof (step_even i Hi Hev) as S. rewrite Es in S. rewrite <- S. rewrite <- Eap.
      apply VC2; [lia| |apply rwnil; apply nsmono; exact Es].
      rewrite c_succ, a_succ, Hc. rewrite even_mod2 in Hev. apply N.eqb_eq in Hev. lia.
    - assert (Hod : N.even (a i) = false).
      { rewrite Hc in Eo. rewrite <- N.negb_even, N.even_add, N.even_1 in Eo. destruct (N.even (a i)); [discriminate|reflexivity]. }
      rewrite Hod in Hrw. cbn [app] in Hap.
      apply (IHk (i + 1)); [lia| |exact Hap|exact Hrw].
      rewrite c_succ, a_succ, Hc. rewrite even_mod2 in Hod. apply N.eqb_neq in Hod. lia.
  Qed.

  Lemma apFrom_nil_div : forall k i, apFrom k i = [] -> c i = c (i + N.of_nat k) * 2 ^ N.of_nat k.
  Proof.
    induction k; intros i H; [cbn; rewrite N.add_0_r, N.mul_1_r; reflexivity|].
    cbn [WitnessGen.apFrom] in H. apply app_eq_nil in H. destruct H as [H0 H1].
    specialize (IHk (i + 1) H1). rewrite c_succ in IHk.
    assert (Hev : c i mod 2 = 0).
    { rewrite <- N.negb_even, even_mod2 in H0. destruct (N.eqb_spec (c i mod 2) 0); [assumption|discriminate]. }
    replace (i + N.of_nat (S k)) with (i + 1 + N.of_nat k) by lia. rewrite Nat2N.inj_succ, N.pow_succ_r'.
    assert (Hc2 : c i = 2 * (c i / 2)) by lia. rewrite Hc2 at 1. rewrite IHk. ring.
  Qed.

  Lemma apFrom_snoc : forall k i, apFrom (S k) i =
    apFrom k i ++ (if N.odd (c (i + N.of_nat k)) then [nval (i + N.of_nat k) (c (i + N.of_nat k) - 1)] else []).
  Proof.
    induction k; intros i.
    - cbn [WitnessGen.apFrom]. rewrite N.add_0_r, app_nil_r. reflexivity.
    - change (apFrom (S (S k)) i) with ((if N.odd (c i) then [nval i (c i - 1)] else []) ++ apFrom (S k) (i + 1)).
      rewrite IHk. cbn [WitnessGen.apFrom]. rewrite <- app_assoc.
      replace (i + 1 + N.of_nat k) with (i + N.of_nat (S k)) by lia. reflexivity.
  Qed.
  Lemma rwFrom_snoc : forall k i, (N.even (a (i + N.of_nat k)) = true -> nsib (i + N.of_nat k) = false) ->
    rwFrom (S k) i = rwFrom k i.
  Proof.
    induction k; intros i H.
    - cbn [WitnessGen.rwFrom]. rewrite N.add_0_r in H. destruct (N.even (a i)); [rewrite (H eq_refl)|]; reflexivity.
    - change (rwFrom (S (S k)) i) with
        (if N.even (a i) then (if nsib i then nval i (a i + 1) :: rwFrom (S k) (i + 1) else []) else rwFrom (S k) (i + 1)).
      rewrite IHk by (replace (i + 1 + N.of_nat k) with (i + N.of_nat (S k)) by lia; exact H). reflexivity.
  Qed.

  (* the reconstruction for a position strictly inside the list *)
  Theorem calc_inner : idx < n ->
    root_from_right_witness hempty hbranch idx (apFrom (N.to_nat Hh) 0) (rwFrom (N.to_nat Hh) 0) = Ok root.
  Proof.
    intros Hlt. destruct (height_facts n Hok) as [Hh1 Hn].
    assert (Hh2 : 2 <= Hh).
    { destruct (N.le_gt_cases 2 Hh); [assumption|]. assert (Hh = 1) by lia. rewrite H0 in Hn. cbn in Hn. lia. }
    set (K := N.to_nat (Hh - 1)). assert (HK : N.to_nat Hh = S K) by (unfold K; lia).
    assert (HKN : N.of_nat K = Hh - 1) by (unfold K; lia).
    assert (Hctop : c (Hh - 1) = 0) by (unfold WitnessGen.c; apply N.div_small; lia).
    rewrite HK. rewrite apFrom_snoc, rwFrom_snoc.
    2:{ rewrite N.add_0_l, HKN. intros _. unfold WitnessGen.nsib. rewrite (a_top n Hok hempty hbranch l Hlen idx Hidx). apply N.ltb_ge. lia. }
    rewrite N.add_0_l, HKN, Hctop. cbn [N.odd]. rewrite app_nil_r.
    assert (Hc0 : c 0 = a 0 + 1).
    { unfold WitnessGen.c, WitnessGen.a, WitnessGen.tt. rewrite N.pow_0_r, !N.div_1_r. lia. }
    assert (Hi0 : idx = c 0 * 2 ^ 0) by (unfold WitnessGen.c; rewrite N.pow_0_r, N.div_1_r; lia).
    assert (Hk0 : N.of_nat K + 0 = Hh - 1) by lia.
    unfold root_from_right_witness.
    destruct (apFrom K 0) as [|h_ap ap'] eqn:Eap.
    - exfalso. pose proof (apFrom_nil_div K 0 Eap) as Hd. rewrite N.add_0_l, HKN, Hctop in Hd.
      unfold WitnessGen.c in Hd. rewrite N.pow_0_r, N.div_1_r in Hd. lia.
    - destruct (rwFrom K 0) as [|h_rw rw'] eqn:Erw.
      + f_equal. unfold root_from_path. apply (VAB2 K 0 h_ap ap' Hk0 Hc0 Eap Erw).
      + destruct ap' as [|h1 ap'']; [destruct rw' as [|r1 rw'']|].
        * cbn [crw]. f_equal. apply (V1pair K 0 h_ap h_rw Hk0 Hc0 Eap Erw).
        * apply (VAB1 K 0 300%nat h_ap h_rw [] (r1 :: rw'') Hk0 Hc0 Hi0); [unfold K; lia|exact Eap|exact Erw|right; discriminate].
        * apply (VAB1 K 0 300%nat h_ap h_rw (h1 :: ap'') rw' Hk0 Hc0 Hi0); [unfold K; lia|exact Eap|exact Erw|left; discriminate].
  Qed.
End Calc.
