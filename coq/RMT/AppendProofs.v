(* C11 — proofs: folding Append over any list gives (mroot l, roots of the perfect sub-trees of |l|, |l|);
   the repaired CalculateRootFromAppendPath predicts exactly what Append does. *)
From Coq Require Import List Arith NArith Lia Bool.
From LE Require Import RMT.Root RMT.Append.
Import ListNotations.

Lemma pow2_S : forall a, pow2 (S a) = 2 * pow2 a. Proof. reflexivity. Qed.
Lemma pow2_0 : pow2 0 = 1. Proof. reflexivity. Qed.
#[local] Opaque pow2.
Lemma pow2_pos : forall a, 0 < pow2 a. Proof. induction a; rewrite ?pow2_0, ?pow2_S; lia. Qed.
Lemma pow2_gt : forall a, a < pow2 a. Proof. induction a; rewrite ?pow2_0, ?pow2_S; lia. Qed.
Lemma pow2_add : forall a d, pow2 a <= pow2 (a + d).
Proof. induction d; rewrite ?Nat.add_0_r; auto. replace (a + S d) with (S (a + d)) by lia. rewrite pow2_S. lia. Qed.
Lemma pow2_bracket : forall n, 2 <= n -> exists a, pow2 a < n /\ n <= pow2 (S a).
Proof.
  induction n as [n IH] using lt_wf_ind. intros Hn.
  destruct (Nat.le_gt_cases n 2).
  - exists 0. rewrite pow2_S, pow2_0. lia.
  - assert (Hdm : n + 1 = 2 * ((n + 1) / 2) + (n + 1) mod 2) by (apply Nat.div_mod; lia).
    assert (Hm : (n + 1) mod 2 < 2) by (apply Nat.mod_upper_bound; lia).
    destruct (IH ((n + 1) / 2)) as (a & A1 & A2); try lia.
    exists (S a). rewrite !pow2_S in *. lia.
Qed.

Lemma p2below_aux_spec : forall d j a fuel n, a = j + d -> d <= fuel -> pow2 a < n -> n <= pow2 (S a) ->
  p2below_aux fuel (pow2 j) n = pow2 a.
Proof.
  induction d; intros j a fuel n Ha Hf Hlo Hhi.
  - replace j with a by lia. rewrite pow2_S in Hhi. destruct fuel; cbn [p2below_aux]; auto.
    destruct (Nat.ltb_spec (2 * pow2 a) n); [lia|reflexivity].
  - destruct fuel; [lia|]. cbn [p2below_aux].
    assert (pow2 (S j) <= pow2 a) by (subst a; replace (j + S d) with (S j + d) by lia; apply pow2_add).
    rewrite pow2_S in H.
    destruct (Nat.ltb_spec (2 * pow2 j) n); [|lia].
    rewrite <- pow2_S. apply IHd; auto; lia.
Qed.
(* the code's divider is the largest power of two strictly below n *)
Lemma p2below_spec : forall a n, pow2 a < n -> n <= pow2 (S a) -> p2below n = pow2 a.
Proof.
  intros. unfold p2below. rewrite <- pow2_0.
  apply p2below_aux_spec with (d := a); auto. pose proof (pow2_gt a). lia.
Qed.

(* binary digits of size+1 *)
Fixpoint inc_bits (bs : list bool) : list bool :=
  match bs with [] => [true] | false :: t => true :: t | true :: t => false :: inc_bits t end.
Lemma pbits_succ : forall p, pbits (Pos.succ p) = inc_bits (pbits p).
Proof. induction p; cbn [Pos.succ pbits inc_bits]; auto. rewrite IHp. reflexivity. Qed.
Lemma nbits_succ : forall n, nbits (n + 1) = inc_bits (nbits n).
Proof. intros. rewrite N.add_1_r. destruct n; cbn [N.succ nbits]; auto. apply pbits_succ. Qed.

Section Proofs.
  Context {D Hsh : Type}.
  Variable hempty : Hsh.
  Variable hleaf : D -> Hsh.
  Variable hbranch : Hsh -> Hsh -> Hsh.
  Notation mroot := (mroot hempty hleaf hbranch).
  Notation mroot_fuel := (mroot_fuel hempty hleaf hbranch).
  Notation perfect := (perfect hempty hleaf hbranch).
  Notation append := (append hleaf hbranch).
  Notation append_all := (append_all hleaf hbranch).
  Notation predict := (predict hleaf hbranch).
  Notation fold_root := (fold_root hbranch).
  Notation fold_bottom := (fold_bottom hbranch).
  Notation next_path := (next_path hbranch).
  Notation subtree_roots := (subtree_roots hempty hleaf hbranch).
  Notation chunk_roots := (chunk_roots hempty hleaf hbranch).
  Notation rinit := (@rinit Hsh hempty).

  Lemma mroot_fuel_enough : forall f1 f2 l, length l <= f1 -> length l <= f2 -> mroot_fuel f1 l = mroot_fuel f2 l.
  Proof.
    induction f1; intros f2 l H1 H2.
    - destruct l; simpl in *; [destruct f2; reflexivity|lia].
    - destruct f2; [destruct l; simpl in *; [reflexivity|lia]|].
      destruct l as [|x [|y t]]; try reflexivity.
      cbn [Root.mroot_fuel]. set (n := length (x :: y :: t)) in *.
      assert (Hn : 2 <= n) by (unfold n; simpl; lia).
      destruct (pow2_bracket n Hn) as (a & Ha1 & Ha2).
      rewrite (p2below_spec a); auto. pose proof (pow2_pos a).
      f_equal; apply IHf1; rewrite ?firstn_length, ?skipn_length; fold n; lia.
  Qed.

  Lemma mroot_fuel_unfold : forall f x y t,
    mroot_fuel (S f) (x :: y :: t) =
    hbranch (mroot_fuel f (firstn (p2below (length (x :: y :: t))) (x :: y :: t)))
            (mroot_fuel f (skipn (p2below (length (x :: y :: t))) (x :: y :: t))).
  Proof. reflexivity. Qed.

  (* LIP-0031 recursion equation *)
  Lemma mroot_split : forall a l, pow2 a < length l -> length l <= pow2 (S a) ->
    mroot l = hbranch (mroot (firstn (pow2 a) l)) (mroot (skipn (pow2 a) l)).
  Proof.
    intros a l Hlo Hhi. pose proof (pow2_pos a) as Hp.
    destruct l as [|x [|y t]]; [simpl in Hlo; lia | simpl in Hlo; lia |].
    unfold Root.mroot at 1.
    replace (length (x :: y :: t)) with (S (S (length t))) at 1 by reflexivity.
    rewrite mroot_fuel_unfold.
    rewrite (p2below_spec a); auto.
    assert (Hlen : length (x :: y :: t) = S (S (length t))) by reflexivity.
    f_equal; unfold Root.mroot; apply mroot_fuel_enough; rewrite ?firstn_length, ?skipn_length; lia.
  Qed.
  Lemma mroot_nil : mroot [] = hempty. Proof. reflexivity. Qed.
  Lemma mroot_one : forall x, mroot [x] = hleaf x. Proof. reflexivity. Qed.

  Lemma mroot_perfect : forall a l, length l = pow2 a -> mroot l = perfect a l.
  Proof.
    induction a; intros l Hl.
    - rewrite pow2_0 in Hl. destruct l as [|x [|y t]]; simpl in Hl; try lia. reflexivity.
    - pose proof (pow2_pos a). rewrite pow2_S in Hl. rewrite (mroot_split a); rewrite ?pow2_S; try lia.
      cbn [Root.perfect]. f_equal; apply IHa; rewrite ?firstn_length, ?skipn_length; lia.
  Qed.

  Lemma perfect_app : forall a l1 l2, length l1 = pow2 a -> length l2 = pow2 a ->
    perfect (S a) (l1 ++ l2) = hbranch (perfect a l1) (perfect a l2).
  Proof.
    intros a l1 l2 H1 H2. cbn [Root.perfect].
    rewrite firstn_app, skipn_app, H1, Nat.sub_diag. cbn [firstn skipn].
    rewrite app_nil_r, firstn_all2, skipn_all2 by lia. reflexivity.
  Qed.

  (* ---- the append path as a binary counter: digit i (low to high) holds the chunk of 2^i leaves, if present ---- *)
  Definition cctr := list (option (list D)).
  Definition chunk (d : option (list D)) : list D := match d with Some ch => ch | None => [] end.
  Fixpoint flatten (c : cctr) : list D := match c with [] => [] | d :: t => flatten t ++ chunk d end.
  Fixpoint wf_from (i : nat) (c : cctr) : Prop :=
    match c with [] => True | d :: t => (forall ch, d = Some ch -> length ch = pow2 i) /\ wf_from (S i) t end.
  Fixpoint incc (ch : list D) (c : cctr) : cctr :=
    match c with
    | [] => [Some ch]
    | None :: t => Some ch :: t
    | Some p :: t => None :: incc (p ++ ch) t
    end.

  Lemma incc_flatten : forall c ch, flatten (incc ch c) = flatten c ++ ch.
  Proof.
    induction c as [|[p|] t IH]; intros; simpl.
    - reflexivity.
    - rewrite IH, app_nil_r, app_assoc. reflexivity.
    - rewrite app_nil_r. reflexivity.
  Qed.
  Lemma incc_wf : forall c i ch, wf_from i c -> length ch = pow2 i -> wf_from i (incc ch c).
  Proof.
    induction c as [|[p|] t IH]; intros i ch Hwf Hch; simpl in *.
    - split; auto. intros ? E; inversion E; subst; auto.
    - destruct Hwf as [Hp Ht]. split; [intros ? E; discriminate|].
      apply IH; auto. rewrite app_length, (Hp p eq_refl), Hch, pow2_S. lia.
    - destruct Hwf as [_ Ht]. split; auto. intros ? E; inversion E; subst; auto.
  Qed.

  Lemma wf_app_last : forall c i d, wf_from i (c ++ [d]) <->
      wf_from i c /\ (forall ch, d = Some ch -> length ch = pow2 (i + length c)).
  Proof.
    induction c as [|x t IH]; intros i d; simpl.
    - rewrite Nat.add_0_r. tauto.
    - rewrite IH. replace (i + S (length t)) with (S i + length t) by lia. tauto.
  Qed.
  Lemma flatten_app_last : forall c d, flatten (c ++ [d]) = chunk d ++ flatten c.
  Proof. induction c; intros; simpl; [rewrite app_nil_r; auto|]. rewrite IHc, app_assoc. reflexivity. Qed.

  Lemma flatten_bound : forall c i, wf_from i c -> length (flatten c) + pow2 i <= pow2 (i + length c).
  Proof.
    induction c as [|d t IH]; intros i Hwf.
    - cbn [flatten length]. rewrite Nat.add_0_r. lia.
    - destruct Hwf as [Hd Ht]. specialize (IH _ Ht).
      cbn [flatten length]. rewrite app_length.
      replace (i + S (length t)) with (S i + length t) by lia.
      rewrite pow2_S in IH.
      destruct d as [ch|]; cbn [chunk length]; [rewrite (Hd ch eq_refl)|]; lia.
  Qed.

  (* hash-level view of the counter; Append's root computation folds the present digits from the smallest up *)
  Fixpoint digits_from (i : nat) (c : cctr) : list (option Hsh) :=
    match c with [] => [] | d :: t => option_map (perfect i) d :: digits_from (S i) t end.
  Definition rstep (acc : option Hsh) (d : option Hsh) : option Hsh :=
    match d with None => acc | Some p => match acc with None => Some p | Some cur => Some (hbranch p cur) end end.
  Definition root_digits (ds : list (option Hsh)) : option Hsh := fold_left rstep ds None.

  Lemma digits_app_last : forall c i d,
    digits_from i (c ++ [d]) = digits_from i c ++ [option_map (perfect (i + length c)) d].
  Proof.
    induction c as [|x t IH]; intros; simpl.
    - rewrite Nat.add_0_r. reflexivity.
    - rewrite IH. replace (i + S (length t)) with (S i + length t) by lia. reflexivity.
  Qed.

  Lemma mroot_app_split : forall a ch r, length ch = pow2 a -> 0 < length r -> length r + 1 <= pow2 a ->
    mroot (ch ++ r) = hbranch (perfect a ch) (mroot r).
  Proof.
    intros a ch r Hch Hr0 Hr1.
    rewrite (mroot_split a); rewrite ?app_length, ?pow2_S; try lia.
    rewrite firstn_app, skipn_app, Hch, Nat.sub_diag. cbn [firstn skipn].
    rewrite app_nil_r, firstn_all2, skipn_all2 by lia. cbn [app].
    rewrite mroot_perfect with (a := a); auto.
  Qed.

  Theorem counter_root : forall c, wf_from 0 c ->
    root_digits (digits_from 0 c) = match flatten c with [] => None | _ => Some (mroot (flatten c)) end.
  Proof.
    induction c as [|d c' IH] using rev_ind; intros Hwf; [reflexivity|].
    apply wf_app_last in Hwf. destruct Hwf as [Hwf Hd]. cbn [Nat.add] in Hd.
    specialize (IH Hwf).
    rewrite digits_app_last, flatten_app_last. unfold root_digits in *. rewrite fold_left_app.
    cbn [fold_left Nat.add]. rewrite IH. clear IH.
    destruct d as [ch|]; cbn [option_map chunk rstep app]; [|reflexivity].
    specialize (Hd ch eq_refl). pose proof (pow2_pos (length c')) as Hp.
    pose proof (flatten_bound c' 0 Hwf) as Hb. rewrite pow2_0 in Hb. cbn [Nat.add] in Hb.
    destruct ch as [|z zs]; [cbn [length] in Hd; lia|].
    destruct (flatten c') as [|y r] eqn:E.
    - rewrite app_nil_r. cbn [app]. rewrite mroot_perfect with (a := length c'); auto.
    - cbn [app]. change (z :: zs ++ y :: r) with ((z :: zs) ++ y :: r).
      rewrite (mroot_app_split (length c')); auto; cbn [length] in *; lia.
  Qed.

  (* the hash-only increment actually performed by Append (carry = branch hash) *)
  Fixpoint inch (x : Hsh) (ds : list (option Hsh)) : list (option Hsh) :=
    match ds with
    | [] => [Some x]
    | None :: t => Some x :: t
    | Some p :: t => None :: inch (hbranch p x) t
    end.
  Lemma inch_incc : forall c i ch, wf_from i c -> length ch = pow2 i ->
    digits_from i (incc ch c) = inch (perfect i ch) (digits_from i c).
  Proof.
    induction c as [|[p|] t IH]; intros i ch Hwf Hch; simpl in *; auto.
    destruct Hwf as [Hp Ht]. f_equal.
    rewrite IH; auto.
    - rewrite perfect_app; auto.
    - rewrite app_length, (Hp p eq_refl), Hch, pow2_S. lia.
  Qed.

  (* ---- the Go representation: size (its binary digits) + the list of present digits ---- *)
  Definition bits_of (ds : list (option Hsh)) : list bool :=
    map (fun d => match d with Some _ => true | None => false end) ds.
  Fixpoint path_of (ds : list (option Hsh)) : list Hsh :=
    match ds with [] => [] | Some p :: t => p :: path_of t | None :: t => path_of t end.
  Definition fold_ds (ds : list (option Hsh)) (cur : Hsh) : Hsh :=
    fold_left (fun c d => match d with Some p => hbranch p c | None => c end) ds cur.

  Lemma fold_root_ds : forall ds cur, fold_root (bits_of ds) (path_of ds) cur = Some (fold_ds ds cur).
  Proof. induction ds as [|[p|] t IH]; intros; cbn; auto. Qed.

  Lemma rstep_some : forall ds x, fold_left rstep ds (Some x) = Some (fold_ds ds x).
  Proof. induction ds as [|[p|] t IH]; intros; cbn; auto. Qed.
  Lemma root_digits_inch : forall ds x, root_digits (inch x ds) = Some (fold_ds ds x).
  Proof.
    unfold root_digits. induction ds as [|[p|] t IH]; intros.
    - reflexivity.
    - change (fold_left rstep (inch (hbranch p x) t) None = Some (fold_ds t (hbranch p x))). apply IH.
    - change (fold_left rstep t (Some x) = Some (fold_ds t x)). apply rstep_some.
  Qed.

  Lemma bits_of_inch : forall ds x, bits_of (inch x ds) = inc_bits (bits_of ds).
  Proof. induction ds as [|[p|] t IH]; intros; cbn; auto. rewrite IH. reflexivity. Qed.

  Lemma next_path_inch : forall ds x, next_path (bits_of ds) (path_of ds) x = Some (path_of (inch x ds)).
  Proof.
    induction ds as [|[p|] t IH]; intros x.
    - reflexivity.
    - specialize (IH (hbranch p x)). unfold Append.next_path in *.
      cbn [bits_of map path_of trailing_ones inch length] in *.
      change (map (fun d : option Hsh => match d with Some _ => true | None => false end) t) with (bits_of t) in *.
      destruct (Nat.ltb (length (path_of t)) (trailing_ones (bits_of t))) eqn:E.
      + discriminate.
      + replace (Nat.ltb (S (length (path_of t))) (S (trailing_ones (bits_of t)))) with false.
        cbn [firstn skipn]. unfold Append.fold_bottom in *. cbn [fold_left]. exact IH.
    - reflexivity.
  Qed.

  (* chunk roots of the declarative statement = the digits *)
  Lemma chunk_roots_digits : forall c i, wf_from i c ->
    chunk_roots (bits_of (digits_from i c)) i (flatten c) = path_of (digits_from i c).
  Proof.
    induction c as [|[ch|] t IH]; intros i Hwf; cbn [digits_from bits_of map option_map path_of flatten chunk Append.chunk_roots].
    - reflexivity.
    - destruct Hwf as [Hd Ht]. specialize (Hd ch eq_refl).
      change (map (fun d : option Hsh => match d with Some _ => true | None => false end) (digits_from (S i) t))
        with (bits_of (digits_from (S i) t)).
      rewrite app_length, Hd. replace (length (flatten t) + pow2 i - pow2 i) with (length (flatten t)) by lia.
      rewrite skipn_app, firstn_app, Nat.sub_diag, skipn_all, firstn_all. cbn [skipn firstn app].
      rewrite app_nil_r. rewrite (mroot_perfect i) by auto. f_equal. apply IH; auto.
    - destruct Hwf as [_ Ht]. rewrite app_nil_r.
      change (map (fun d : option Hsh => match d with Some _ => true | None => false end) (digits_from (S i) t))
        with (bits_of (digits_from (S i) t)).
      apply IH; auto.
  Qed.

  (* one Append step on a state that represents a counter *)
  Definition repr (c : cctr) (s : rstate) : Prop :=
    wf_from 0 c /\ nbits (r_size s) = bits_of (digits_from 0 c) /\ r_path s = path_of (digits_from 0 c) /\
    r_size s = N.of_nat (length (flatten c)) /\
    r_root s = match flatten c with [] => hempty | _ => mroot (flatten c) end.

  Lemma repr_init : repr [] rinit.
  Proof. repeat split. Qed.

  Lemma append_repr : forall c s x, repr c s -> exists s', append x s = Some s' /\ repr (incc [x] c) s'.
  Proof.
    intros c s x (Hwf & Hb & Hp & Hs & Hr).
    assert (Hwf' : wf_from 0 (incc [x] c)) by (apply incc_wf; auto).
    assert (Hdig : digits_from 0 (incc [x] c) = inch (hleaf x) (digits_from 0 c)) by (apply (inch_incc c 0 [x]); auto).
    pose proof (counter_root _ Hwf') as Hcr. rewrite Hdig, root_digits_inch, incc_flatten in Hcr.
    assert (Hroot : fold_ds (digits_from 0 c) (hleaf x) = mroot (flatten c ++ [x])).
    { destruct (flatten c ++ [x]) eqn:E; [destruct (flatten c); discriminate|]. congruence. }
    unfold Append.append. destruct (N.eqb_spec (r_size s) 0) as [Hz|Hnz].
    - (* first leaf *)
      rewrite Hz in Hb. cbn [nbits] in Hb.
      destruct (digits_from 0 c) as [|d ds] eqn:Ed; [|discriminate].
      rewrite Hp. cbn [path_of app].
      eexists; split; [reflexivity|].
      unfold repr. cbn [r_root r_path r_size]. rewrite Hdig, incc_flatten. cbn [inch bits_of map path_of nbits pbits].
      split; [exact Hwf'|]. split; [reflexivity|]. split; [reflexivity|].
      rewrite Hs in Hz. split.
      + rewrite app_length. cbn [length]. lia.
      + cbn [fold_ds fold_left] in Hroot. rewrite <- Hroot.
        destruct (flatten c ++ [x]) eqn:E; [destruct (flatten c); discriminate|reflexivity].
    - rewrite Hb, Hp, fold_root_ds, next_path_inch.
      eexists; split; [reflexivity|].
      unfold repr. cbn [r_root r_path r_size]. rewrite Hdig, incc_flatten, bits_of_inch, nbits_succ, Hb.
      split; [exact Hwf'|]. split; [reflexivity|]. split; [reflexivity|]. split.
      + rewrite Hs, app_length. cbn [length]. lia.
      + rewrite Hroot. destruct (flatten c ++ [x]) eqn:E; [destruct (flatten c); discriminate|reflexivity].
  Qed.

  Lemma append_all_repr : forall l c s, repr c s ->
    exists c' s', append_all l s = Some s' /\ repr c' s' /\ flatten c' = flatten c ++ l.
  Proof.
    induction l as [|x l IH]; intros c s Hr.
    - exists c, s. rewrite app_nil_r. auto.
    - destruct (append_repr c s x Hr) as (s1 & E1 & R1).
      destruct (IH _ _ R1) as (c' & s' & E2 & R2 & F2).
      exists c', s'. cbn [Append.append_all]. rewrite E1. split; auto. split; auto.
      rewrite F2, incc_flatten, <- app_assoc. reflexivity.
  Qed.

  (* MAIN: appending one by one = batch root, size, and the append path is the list of roots of the perfect
     sub-trees of the binary expansion of |l| *)
  Theorem append_is_batch : forall l,
    append_all l rinit = Some (RS (mroot l) (subtree_roots l) (N.of_nat (length l))).
  Proof.
    intros l. destruct (append_all_repr l [] rinit repr_init) as (c & s & E & (Hwf & Hb & Hp & Hs & Hr) & F).
    cbn [flatten app] in F. rewrite E. f_equal. destruct s as [root path size]. cbn [r_root r_path r_size] in *.
    rewrite F in *. f_equal; auto.
    - rewrite Hr. destruct l; reflexivity.
    - unfold Append.subtree_roots. rewrite <- Hs, Hb, <- F. rewrite chunk_roots_digits; auto.
  Qed.

  (* any prefix state followed by more appends: the root after appending l2 to the tree of l1 *)
  Corollary append_all_app : forall l1 l2,
    match append_all l1 rinit with
    | Some s => append_all l2 s = Some (RS (mroot (l1 ++ l2)) (subtree_roots (l1 ++ l2)) (N.of_nat (length (l1 ++ l2))))
    | None => False
    end.
  Proof.
    intros. pose proof (append_is_batch (l1 ++ l2)) as H.
    assert (G : forall a b s, append_all (a ++ b) s = match append_all a s with Some s' => append_all b s' | None => None end).
    { induction a as [|y a IHa]; intros b s; cbn [Append.append_all app]; auto. destruct (append y s); auto. }
    rewrite G in H. destruct (append_all l1 rinit); [exact H|discriminate].
  Qed.

  (* the repaired CalculateRootFromAppendPath = Append, on every state (validity not even needed), except that for
     size 0 Append appends to the (then necessarily empty) path *)
  Theorem predict_equals_append : forall v s, (r_size s = 0%N -> r_path s = []) ->
    predict v (r_path s) (r_size s) = append v s.
  Proof.
    intros v s H0. unfold Append.predict, Append.append.
    destruct (N.eqb_spec (r_size s) 0) as [Hz|Hnz]; [|reflexivity].
    rewrite Hz, (H0 Hz). reflexivity.
  Qed.

  Corollary predict_is_batch : forall l x,
    predict x (subtree_roots l) (N.of_nat (length l)) =
    Some (RS (mroot (l ++ [x])) (subtree_roots (l ++ [x])) (N.of_nat (length (l ++ [x])))).
  Proof.
    intros. pose proof (append_all_app l [x]) as H. rewrite append_is_batch in H. cbn [Append.append_all] in H.
    pose proof (predict_equals_append x (RS (mroot l) (subtree_roots l) (N.of_nat (length l)))) as P.
    cbn [r_path r_size] in P. rewrite P.
    - destruct (append x _); [exact H|discriminate].
    - destruct l; [reflexivity|]. cbn [length]. lia.
  Qed.
End Proofs.
