(* C11 — multi-query completeness, part B: getSiblingHashes processes one level of the tree as the list functions E / F
   describe: work list  (level-k nodes still to do) ++ (level-(k+1) parents found so far). *)
From Coq Require Import List Arith NArith ZArith Lia Bool ZifyBool ZifyN ZifyNat.
From LE Require Import RMT.Root RMT.Append RMT.AppendProofs RMT.Proof RMT.NodeProofs RMT.IndexProofs RMT.ProofSound
                       RMT.ProofComplete RMT.MultiLists.
Import ListNotations.
Local Open Scope N_scope.
Ltac Zify.zify_post_hook ::= Z.div_mod_to_equations.

Section Level.
  Variable n : N.
  Hypothesis Hok : size_ok n.
  Notation Hh := (get_height n).
  Context {D Hsh : Type}.
  Variable hempty : Hsh.
  Variable hleaf : D -> Hsh.
  Variable hbranch : Hsh -> Hsh -> Hsh.
  Variable lv : list D.
  Hypothesis Hlen : len lv = n.
  Notation nval := (nval hempty hleaf hbranch lv).
  Variable ps : list N.                         (* queried leaf positions *)
  Hypothesis Hps : forall p, In p ps -> p < n.
  Variable node_at : N -> N -> option Hsh.
  (* node (k, i) covers a queried position *)
  Definition act (k i : N) : Prop := exists p, In p ps /\ cov p k i.
  Hypothesis Hna : forall k i, vnode n k i -> ~ act k i -> node_at k i = Some (nval k i).
  Definition X (k i : N) : N := nidx Hh k i.
  Definition orig : list N := map (X 0) ps.

  Lemma act_vnode : forall k i, k < Hh -> act k i -> vnode n k i.
  Proof. intros k i Hk (p & Hp & [A B]). split; [exact Hk|]. pose proof (Hps p Hp). lia. Qed.

  Lemma X_neq : forall k i j, vnode n k i -> vnode n k j -> i <> j -> X k i <> X k j.
  Proof. intros k i j Hi Hj Hne E. apply Hne. apply (nidx_inj n Hok k i k j Hi Hj E). Qed.

  (* ---- inserting a parent into (level k part) ++ (level k+1 part) ---- *)
  Lemma ins_parent : forall k, k + 1 < Hh -> forall Lr P y,
    (forall i, In i Lr -> vnode n k i) -> (forall z, In z P -> vnode n (k + 1) z) -> vnode n (k + 1) y ->
    (forall z, In z P -> z <= y) ->
    ins_idx (X (k + 1) y) (map (X k) Lr ++ map (X (k + 1)) P) = map (X k) Lr ++ map (X (k + 1)) (addp y P).
  Proof.
    intros k Hk Lr P y HL HP Hy Hle.
    assert (Hby : blen (X (k + 1) y) = Hh - (k + 1) + 1) by (apply (blen_nidx n Hok); exact Hy).
    induction Lr as [|i Lr IH]; cbn [map app].
    - clear HL. induction P as [|z P IHP]; cbn [map ins_idx].
      + reflexivity.
      + assert (Hz : vnode n (k + 1) z) by (apply HP; left; reflexivity).
        assert (Hbz : blen (X (k + 1) z) = Hh - (k + 1) + 1) by (apply (blen_nidx n Hok); exact Hz).
        destruct (N.eq_dec y z) as [->|Hne].
        * rewrite N.eqb_refl. unfold addp. cbn [existsb]. rewrite N.eqb_refl. reflexivity.
        * assert (E1 : (X (k + 1) y =? X (k + 1) z) = false) by (apply N.eqb_neq; apply X_neq; assumption).
          rewrite E1. pose proof (Hle z (or_introl eq_refl)) as Hzy.
          assert (E2 : idx_lt (X (k + 1) y) (X (k + 1) z) = false).
          { unfold idx_lt. rewrite Hby, Hbz, N.eqb_refl. unfold X, nidx. lia. }
          rewrite E2. rewrite IHP; [|intros; apply HP; right; assumption|intros; apply Hle; right; assumption].
          unfold addp. cbn [existsb]. assert (E3 : (y =? z) = false) by lia. rewrite E3. cbn [orb].
          destruct (existsb (N.eqb y) P); reflexivity.
    - assert (Hi : vnode n k i) by (apply HL; left; reflexivity).
      assert (Hbi : blen (X k i) = Hh - k + 1) by (apply (blen_nidx n Hok); exact Hi).
      cbn [ins_idx].
      assert (E1 : (X (k + 1) y =? X k i) = false).
      { apply N.eqb_neq. intros E. apply (f_equal blen) in E. rewrite Hby, Hbi in E. lia. }
      rewrite E1.
      assert (E2 : idx_lt (X (k + 1) y) (X k i) = false).
      { unfold idx_lt. rewrite Hby, Hbi. destruct (N.eqb_spec (Hh - (k + 1) + 1) (Hh - k + 1)); lia. }
      rewrite E2. rewrite IH; [reflexivity|]. intros; apply HL; right; assumption.
  Qed.

  Lemma merge_flag : forall k i j, vnode n k i -> vnode n k j -> i < j ->
    is_left (X k i) && same_layer (X k i) (X k j) && are_siblings (X k i) (X k j) = is_pair i j.
  Proof.
    intros k i j Hi Hj Hlt. unfold is_left, same_layer, are_siblings, is_pair, X.
    rewrite (nidx_even n k i Hi). rewrite (blen_nidx n Hok k i Hi), (blen_nidx n Hok k j Hj), N.eqb_refl, andb_true_r.
    destruct (N.even i) eqn:Ev; cbn [andb]; [|reflexivity].
    rewrite even_mod2 in Ev. apply N.eqb_eq in Ev.
    pose proof (vnode_bound n k i Hok Hi) as Bi. pose proof (vnode_bound n k j Hok Hj) as Bj. destruct Hi as [Hk _].
    unfold nidx. replace (Hh - k) with ((Hh - k - 1) + 1) by lia. rewrite pow2_succ. set (q := 2 ^ (Hh - k - 1)) in *.
    destruct (N.eqb_spec j (i + 1)) as [->|Hne].
    - apply N.eqb_eq. apply lxor_one. rewrite !odd_mod2. split; [lia|].
      destruct (N.eqb_spec ((2 * q + i) mod 2) 0), (N.eqb_spec ((2 * q + (i + 1)) mod 2) 0); cbn; try congruence; lia.
    - apply N.eqb_neq. intros E. apply lxor_one in E. destruct E as [E _]. lia.
  Qed.

  Lemma remove_head : forall x l, ~ In x l -> remove_idx x (x :: l) = l.
  Proof.
    intros x l Hn. unfold remove_idx. cbn [filter]. rewrite N.eqb_refl. cbn [negb].
    induction l as [|y l IH]; cbn [filter]; [reflexivity|].
    destruct (N.eqb_spec y x) as [->|]; [exfalso; apply Hn; left; reflexivity|]. cbn [negb]. f_equal. apply IH. intros H. apply Hn. right. exact H.
  Qed.

  (* blocks: the node the sibling search descends to lies inside the sibling *)
  Lemma act_down : forall k s k' s', k' <= k -> s' * 2 ^ k' = s * 2 ^ k -> act k' s' -> act k s.
  Proof.
    intros k s k' s' Hk E (p & Hp & [A B]). exists p. split; [exact Hp|]. pose proof (pow2_mono k' k Hk). pose proof (pow2N_pos k').
    split; nia.
  Qed.

  Definition Q (L Lr : list N) : Prop :=
    match Lr with i :: _ => N.odd i = true -> ~ In (i - 1) L | [] => True end.

  Lemma Q_next_nomerge : forall pre i rest, asc (pre ++ i :: rest) ->
    (match rest with j :: _ => is_pair i j = false | [] => True end) ->
    Q (pre ++ i :: rest) rest.
  Proof.
    intros pre i rest Ha Hnp. destruct rest as [|j rest']; [exact I|]. cbn [Q]. intros Hodd Hin.
    apply asc_app in Ha. destruct Ha as (_ & [Hi [Hj _]] & Hpre).
    pose proof (Hi j (or_introl eq_refl)) as Hij.
    apply in_app_or in Hin. destruct Hin as [Hin|[E|[E|Hin]]].
    - pose proof (Hpre (j - 1) i Hin (or_introl eq_refl)). lia.
    - unfold is_pair in Hnp. rewrite odd_mod2 in Hodd. rewrite even_mod2 in Hnp.
      assert (Ej : j = i + 1) by lia. rewrite Ej in Hnp, Hodd. rewrite N.eqb_refl, andb_true_r in Hnp.
      destruct (N.eqb_spec (i mod 2) 0); [discriminate|].
      destruct (N.eqb_spec ((i + 1) mod 2) 0); cbn in Hodd; [discriminate|lia].
    - lia.
    - pose proof (Hj (j - 1) Hin). lia.
  Qed.

  Lemma Q_next_merge : forall pre i j rest', asc (pre ++ i :: j :: rest') -> is_pair i j = true ->
    Q (pre ++ i :: j :: rest') rest'.
  Proof.
    intros pre i j rest' Ha Hp. destruct rest' as [|j2 r]; [exact I|]. cbn [Q]. intros Hodd Hin.
    unfold is_pair in Hp. apply andb_true_iff in Hp. destruct Hp as [Ev Ej]. apply N.eqb_eq in Ej. subst j.
    rewrite even_mod2 in Ev. apply N.eqb_eq in Ev. rewrite odd_mod2 in Hodd.
    apply asc_app in Ha. destruct Ha as (_ & [Hi [Hj [Hj2 _]]] & Hpre).
    pose proof (Hj j2 (or_introl eq_refl)) as H1.
    apply in_app_or in Hin. destruct Hin as [Hin|[E|[E|[E|Hin]]]].
    - pose proof (Hpre (j2 - 1) i Hin (or_introl eq_refl)). lia.
    - lia.
    - assert (j2 = i + 2) by lia. subst j2. destruct (N.eqb_spec ((i + 2) mod 2) 0); cbn in Hodd; [discriminate|lia].
    - lia.
    - pose proof (Hj2 (j2 - 1) Hin). lia.
  Qed.

  Lemma E_nonpair : forall k i rest, (match rest with j :: _ => is_pair i j = false | [] => True end) ->
    E n (nval k) (2 ^ k) (i :: rest) = emit1 n (nval k) (2 ^ k) i ++ E n (nval k) (2 ^ k) rest.
  Proof. intros k i [|j r] H; [cbn [E]; rewrite app_nil_r; reflexivity|rewrite E_cons2, H; reflexivity]. Qed.
  Lemma F_nonpair : forall i rest P, (match rest with j :: _ => is_pair i j = false | [] => True end) ->
    F P (i :: rest) = F (addp (i / 2) P) rest.
  Proof. intros i [|j r] P H; [reflexivity|rewrite F_cons2, H; reflexivity]. Qed.

  (* the sibling of the node at the head is not active unless it is its merge partner *)
  Lemma sib_inactive : forall k L pre i rest, L = pre ++ i :: rest -> asc L -> (forall x, In x L <-> act k x) ->
    Q L (i :: rest) -> (match rest with j :: _ => is_pair i j = false | [] => True end) ->
    ~ act k (sib_of i).
  Proof.
    intros k L pre i rest -> Ha Hact HQ Hnp Hs. apply Hact in Hs.
    unfold sib_of in *. cbn [Q] in HQ. rewrite odd_mod2 in HQ.
    destruct (N.eqb_spec (i mod 2) 0) as [Ev|Eo]; cbn [negb] in HQ.
    - replace (i / 2 * 2 + (i + 1) mod 2) with (i + 1) in Hs by lia.
      apply asc_app in Ha. destruct Ha as (_ & [Hi Hr] & Hpre).
      apply in_app_or in Hs. destruct Hs as [Hs|[E|Hs]].
      + pose proof (Hpre (i + 1) i Hs (or_introl eq_refl)). lia.
      + lia.
      + destruct rest as [|j r]; [destruct Hs|]. destruct Hr as [Hj _].
        assert (j = i + 1).
        { destruct Hs as [E|Hs]; [exact E|]. pose proof (Hj (i + 1) Hs). pose proof (Hi j (or_introl eq_refl)). lia. }
        subst j. unfold is_pair in Hnp. rewrite even_mod2, N.eqb_refl in Hnp. destruct (N.eqb_spec (i mod 2) 0); [discriminate|contradiction].
    - replace (i / 2 * 2 + (i + 1) mod 2) with (i - 1) in Hs by lia. apply HQ; [reflexivity|exact Hs].
  Qed.

  (* ---- one level of getSiblingHashes ---- *)
  Lemma gsh_level : forall m k, k + 1 < Hh -> forall L pre Lr P acc fuel extra,
    (length Lr <= m)%nat -> L = pre ++ Lr -> asc L -> (forall x, In x L <-> act k x) -> Q L Lr ->
    asc P -> (forall z, In z P -> vnode n (k + 1) z) -> (forall z i, In z P -> In i Lr -> z <= i / 2) ->
    (length Lr + extra <= fuel)%nat ->
    exists fuel', (extra <= fuel')%nat /\
      gsh node_at fuel n Hh orig (map (X k) Lr ++ map (X (k + 1)) P) acc =
      gsh node_at fuel' n Hh orig (map (X (k + 1)) (F P Lr)) (acc ++ E n (nval k) (2 ^ k) Lr).
  Proof.
    induction m; intros k Hk L pre Lr P acc fuel extra Hm HL Ha Hact HQ HP HPv HPle Hfuel.
    - destruct Lr; [|cbn in Hm; lia]. exists fuel. cbn [map app F E]. rewrite app_nil_r. split; [cbn in Hfuel; lia|reflexivity].
    - destruct Lr as [|i rest]; [exists fuel; cbn [map app F E]; rewrite app_nil_r; split; [cbn in Hfuel; lia|reflexivity]|].
      destruct fuel as [|f]; [cbn in Hfuel; lia|].
      assert (HvL : forall x, In x L -> vnode n k x) by (intros x Hx; apply act_vnode; [lia|apply Hact; exact Hx]).
      assert (Hvi : vnode n k i) by (apply HvL; rewrite HL; apply in_or_app; right; left; reflexivity).
      assert (Hvrest : forall x, In x rest -> vnode n k x) by (intros x Hx; apply HvL; rewrite HL; apply in_or_app; right; right; exact Hx).
      pose proof (vnode_parent n k i Hvi Hk) as Hvy.
      assert (HLasc : asc (i :: rest)) by (rewrite HL in Ha; apply asc_app in Ha; tauto).
      destruct HLasc as [Hi_lt Hrest_asc].
      assert (Hparent : X k i / 2 = X (k + 1) (i / 2)) by (apply nidx_parent; exact Hk).
      assert (Hins : forall Lr', (forall x, In x Lr' -> In x rest) ->
                ins_idx (X k i / 2) (map (X k) Lr' ++ map (X (k + 1)) P) = map (X k) Lr' ++ map (X (k + 1)) (addp (i / 2) P)).
      { intros Lr' Hsub. rewrite Hparent. apply ins_parent; auto.
        intros z Hz. apply (HPle z i Hz). left; reflexivity. }
      assert (HPnext : asc (addp (i / 2) P) /\ (forall z, In z (addp (i / 2) P) -> vnode n (k + 1) z)).
      { split; [apply addp_asc; [exact HP|intros z Hz; apply (HPle z i Hz); left; reflexivity]|].
        intros z Hz. apply in_addp in Hz. destruct Hz as [->|Hz]; [exact Hvy|apply HPv; exact Hz]. }
      destruct HPnext as [HPasc' HPv'].
      assert (HPle' : forall Lr', (forall x, In x Lr' -> In x rest) -> forall z x, In z (addp (i / 2) P) -> In x Lr' -> z <= x / 2).
      { intros Lr' Hsub z x Hz Hx. apply in_addp in Hz. destruct Hz as [->|Hz].
        - pose proof (Hi_lt x (Hsub x Hx)). lia.
        - apply HPle; [exact Hz|right; apply Hsub; exact Hx]. }
      (* merge flag *)
      assert (Hflag : (match map (X k) rest ++ map (X (k + 1)) P with
                       | nxt :: _ => is_left (X k i) && same_layer (X k i) nxt && are_siblings (X k i) nxt
                       | [] => false end) = match rest with j :: _ => is_pair i j | [] => false end).
      { destruct rest as [|j r]; cbn [map app].
        - destruct P as [|z P']; cbn [map]; [reflexivity|].
          unfold same_layer, X. rewrite (blen_nidx n Hok k i Hvi). rewrite (blen_nidx n Hok (k + 1) z (HPv z (or_introl eq_refl))).
          assert (E0 : (Hh - k + 1 =? Hh - (k + 1) + 1) = false) by lia. rewrite E0, andb_false_r. reflexivity.
        - apply merge_flag; [exact Hvi|apply Hvrest; left; reflexivity|apply Hi_lt; left; reflexivity]. }
      cbn [map app gsh]. rewrite Hflag.
      destruct rest as [|j rest'] eqn:Erest.
      + (* last node of the level *)
        assert (HX2 : (X k i =? 2) = false).
        { apply N.eqb_neq. unfold X, nidx. assert (2 ^ 2 <= 2 ^ (Hh - k)) by (apply pow2_mono; lia). change (2 ^ 2) with 4 in *. lia. }
        rewrite HX2. unfold X at 1. rewrite (new_loc_nidx n Hok k i Hvi). fold (X k i).
        rewrite remove_head.
        2:{ cbn [map app]. intros Hin. apply in_map_iff in Hin. destruct Hin as (z & Ez & Hz).
            apply (f_equal blen) in Ez. unfold X in Ez. rewrite (blen_nidx n Hok (k + 1) z (HPv z Hz)), (blen_nidx n Hok k i Hvi) in Ez. lia. }
        pose proof (Hins [] ltac:(intros x [])) as Hins0. cbn [map app] in Hins0. cbn [map app]. rewrite Hins0.
        assert (Hnp : match @nil N with j :: _ => is_pair i j = false | [] => True end) by exact I.
        pose proof (sib_inactive k L pre i [] HL Ha Hact HQ Hnp) as Hinact.
        rewrite (F_nonpair i [] P Hnp), (E_nonpair k i [] Hnp). cbn [F E]. rewrite app_nil_r.
        destruct (N.ltb_spec (sib_of i * 2 ^ k) n) as [Hsib|Hemp].
        * destruct (right_sibling_some n hempty hleaf hbranch lv Hlen k i (proj1 Hvi) Hsib) as (s' & k' & Ers & Hvs & Eval & _ & Hk'k & Hs').
          rewrite Ers. rewrite (loc_index_nidx n Hok k' s' Hvs).
          assert (Hnact' : ~ act k' s') by (intros A; apply Hinact; apply (act_down k (sib_of i) k' s' Hk'k Hs' A)).
          assert (Eo : existsb (N.eqb (nidx Hh k' s')) orig = false).
          { destruct (existsb (N.eqb (nidx Hh k' s')) orig) eqn:Ee; [|reflexivity]. exfalso.
            apply existsb_exists in Ee. destruct Ee as (x & Hx & Ex). apply N.eqb_eq in Ex. unfold orig in Hx.
            apply in_map_iff in Hx. destruct Hx as (p & Ep & Hp). rewrite <- Ep in Ex. unfold X in Ex.
            assert (Hvp : vnode n 0 p) by (destruct (height_facts n Hok); split; [lia|rewrite N.pow_0_r; pose proof (Hps p Hp); lia]).
            destruct (nidx_inj n Hok k' s' 0 p Hvs Hvp Ex) as [-> ->].
            apply Hnact'. exists p. split; [exact Hp|]. unfold cov. rewrite N.pow_0_r. lia. }
          rewrite Eo. rewrite (Hna k' s' Hvs Hnact').
          exists f. split; [cbn in Hfuel; lia|]. unfold emit1. destruct (N.ltb_spec (sib_of i * 2 ^ k) n); [|lia].
          rewrite Eval. reflexivity.
        * rewrite (right_sibling_none n hempty hleaf hbranch lv Hlen k i (proj1 Hvi) Hemp).
          exists f. split; [cbn in Hfuel; lia|]. unfold emit1. destruct (N.ltb_spec (sib_of i * 2 ^ k) n); [lia|]. rewrite app_nil_r. reflexivity.
      + destruct (is_pair i j) eqn:Epair.
        * (* merged pair *)
          cbn [skipn map app]. rewrite (Hins rest' ltac:(intros x Hx; right; exact Hx)).
          rewrite F_cons2, E_cons2, Epair.
          apply (IHm k Hk L (pre ++ [i; j]) rest' (addp (i / 2) P) acc f extra); auto.
          -- cbn in Hm. lia.
          -- rewrite HL, <- app_assoc. reflexivity.
          -- rewrite HL in Ha |- *. apply Q_next_merge; assumption.
          -- apply HPle'. intros x Hx. right. exact Hx.
          -- cbn in Hfuel. lia.
        * assert (HX2 : (X k i =? 2) = false).
          { apply N.eqb_neq. unfold X, nidx. assert (2 ^ 2 <= 2 ^ (Hh - k)) by (apply pow2_mono; lia). change (2 ^ 2) with 4 in *. lia. }
          rewrite HX2. unfold X at 1. rewrite (new_loc_nidx n Hok k i Hvi). fold (X k i).
          change (X k j :: map (X k) rest' ++ map (X (k + 1)) P) with (map (X k) (j :: rest') ++ map (X (k + 1)) P).
          rewrite remove_head.
          2:{ intros Hin. apply in_app_or in Hin. destruct Hin as [Hin|Hin]; apply in_map_iff in Hin; destruct Hin as (z & Ez & Hz).
              - assert (z <> i) by (pose proof (Hi_lt z Hz); lia).
                apply (X_neq k z i (Hvrest z Hz) Hvi H). exact Ez.
              - apply (f_equal blen) in Ez. unfold X in Ez. rewrite (blen_nidx n Hok (k + 1) z (HPv z Hz)), (blen_nidx n Hok k i Hvi) in Ez. lia. }
          rewrite (Hins (j :: rest') ltac:(auto)).
          assert (Hnp : match j :: rest' with j0 :: _ => is_pair i j0 = false | [] => True end) by exact Epair.
          pose proof (sib_inactive k L pre i (j :: rest') HL Ha Hact HQ Hnp) as Hinact.
          rewrite (F_nonpair i (j :: rest') P Hnp), (E_nonpair k i (j :: rest') Hnp).
          assert (Hrec : forall acc', exists fuel', (extra <= fuel')%nat /\
                    gsh node_at f n Hh orig (map (X k) (j :: rest') ++ map (X (k + 1)) (addp (i / 2) P)) acc' =
                    gsh node_at fuel' n Hh orig (map (X (k + 1)) (F (addp (i / 2) P) (j :: rest'))) (acc' ++ E n (nval k) (2 ^ k) (j :: rest'))).
          { intros acc'. apply (IHm k Hk L (pre ++ [i]) (j :: rest') (addp (i / 2) P) acc' f extra); auto.
            - cbn in Hm |- *. lia.
            - rewrite HL, <- app_assoc. reflexivity.
            - rewrite HL in Ha |- *. apply Q_next_nomerge; [exact Ha|exact Epair].
            - apply HPle'. auto.
            - cbn in Hfuel |- *. lia. }
          destruct (N.ltb_spec (sib_of i * 2 ^ k) n) as [Hsib|Hemp].
          -- destruct (right_sibling_some n hempty hleaf hbranch lv Hlen k i (proj1 Hvi) Hsib) as (s' & k' & Ers & Hvs & Eval & _ & Hk'k & Hs').
             rewrite Ers. rewrite (loc_index_nidx n Hok k' s' Hvs).
             assert (Hnact' : ~ act k' s') by (intros A; apply Hinact; apply (act_down k (sib_of i) k' s' Hk'k Hs' A)).
             assert (Eo : existsb (N.eqb (nidx Hh k' s')) orig = false).
             { destruct (existsb (N.eqb (nidx Hh k' s')) orig) eqn:Ee; [|reflexivity]. exfalso.
               apply existsb_exists in Ee. destruct Ee as (x & Hx & Ex). apply N.eqb_eq in Ex. unfold orig in Hx.
               apply in_map_iff in Hx. destruct Hx as (p & Ep & Hp). rewrite <- Ep in Ex. unfold X in Ex.
               assert (Hvp : vnode n 0 p) by (destruct (height_facts n Hok); split; [lia|rewrite N.pow_0_r; pose proof (Hps p Hp); lia]).
               destruct (nidx_inj n Hok k' s' 0 p Hvs Hvp Ex) as [-> ->].
               apply Hnact'. exists p. split; [exact Hp|]. unfold cov. rewrite N.pow_0_r. lia. }
             rewrite Eo. rewrite (Hna k' s' Hvs Hnact').
             destruct (Hrec (acc ++ [nval k' s'])) as (fuel' & Hf' & Hrun). exists fuel'. split; [exact Hf'|].
             rewrite Hrun. unfold emit1. destruct (N.ltb_spec (sib_of i * 2 ^ k) n); [|lia]. rewrite Eval, <- app_assoc. reflexivity.
          -- rewrite (right_sibling_none n hempty hleaf hbranch lv Hlen k i (proj1 Hvi) Hemp).
             destruct (Hrec acc) as (fuel' & Hf' & Hrun). exists fuel'. split; [exact Hf'|].
             rewrite Hrun. unfold emit1. destruct (N.ltb_spec (sib_of i * 2 ^ k) n); [lia|]. reflexivity.
  Qed.
End Level.
