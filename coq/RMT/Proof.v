(* C11 — inclusion proofs, update through a proof, right witnesses: executable transcription of
   pkg/trie/rmt/util.go (getHeight, getLayerStructure, newNodeLocation, nodeLocation.index, getRightSiblingInfo,
   indexes.sort/insert/remove, calculatePathNodes), rmt.go (getSiblingHashes, GenerateProof, Update,
   GenerateRightWitness), verify.go (VerifyProof), root.go (CalculateRootFromRightWitness, getRootFromPath,
   CalculateRootFromUpdateData).

   Conventions: indexes are N (uint64).  A node index "with leading 1" is 2^w + nodeIndex where w = number of path
   digits.  Go errors are [Err]; loops run on fuel with an explicit [OutOfFuel]; Go maps (result, parentCache) are
   association lists with newest-first lookup.  The store lookup d.getHash(loc) is the function [node_at layer index].
   Where the Go code parses with strconv.ParseInt(_, 2, 32) values >= 2^31 are errors.
   Not modelled: float rounding of math.Log2 for sizes >= 2^53; int64 wrap of indexes >= 2^63 (treated as error,
   as FormatInt prints a '-'); structure[layer] out of range (layer < height always holds for locations produced by
   newNodeLocation; the model reads 0 there).
   indexes.insert is a binary search over a list that is sorted by construction; it is modelled as sorted insertion
   without duplicates, which is what the binary search computes on sorted input. *)
From Coq Require Import List NArith Bool.
Import ListNotations.
Local Open Scope N_scope.

Inductive outcome (A : Type) : Type := Ok (a : A) | Err | OutOfFuel.
Arguments Ok {A}. Arguments Err {A}. Arguments OutOfFuel {A}.

Definition get_height (size : N) : N := N.log2_up size + 1.

(* getLayerStructure: number of nodes per layer *)
Fixpoint layer_max (j : nat) (mx r : N) : N :=
  match j with
  | O => mx
  | S j' => let mx' := if N.even r then mx / 2 else (mx + 1) / 2 in
            layer_max j' mx' (r + mx mod 2)
  end.
Definition layer_structure (size : N) : list N :=
  map (fun layer => layer_max layer size 0) (seq 0 (N.to_nat (get_height size))).

(* len(strconv.FormatInt(idx, 2)) *)
Definition blen (idx : N) : N := if idx =? 0 then 1 else N.size idx.
Definition same_layer (a b : N) : bool := blen a =? blen b.
Definition are_siblings (a b : N) : bool := N.lxor a b =? 1.
Definition is_left (a : N) : bool := N.even a.

(* order of indexes.sort / findInsertIndex: longer (deeper) first, then ascending *)
Definition idx_lt (a b : N) : bool := if blen a =? blen b then a <? b else blen b <? blen a.
Fixpoint sort_ins (x : N) (l : list N) : list N :=
  match l with [] => [x] | y :: t => if idx_lt y x then y :: sort_ins x t else x :: l end.
Definition sort_idx (l : list N) : list N := fold_right sort_ins [] l.
(* indexes.insert: no-op if present *)
Fixpoint ins_idx (x : N) (l : list N) : list N :=
  match l with
  | [] => [x]
  | y :: t => if x =? y then l else if idx_lt x y then x :: l else y :: ins_idx x t
  end.
Definition remove_idx (x : N) (l : list N) : list N := filter (fun y => negb (y =? x)) l.

(* newNodeLocation(index, height) -> (nodeIndex, layerIndex) *)
Definition new_loc (index height : N) : option (N * N) :=
  if (index <? 2) || (2 ^ 63 <=? index) then None
  else let k := N.size index - 1 in
       let ni := index - 2 ^ k in
       if 2 ^ 31 <=? ni then None
       else if height <? k then None else Some (ni, height - k).

(* an index names a node of a tree of [size] leaves: newNodeLocation succeeds and nodeIndex <= (size-1) >> layerIndex *)
Definition valid_idx (size idx : N) : bool :=
  match new_loc idx (get_height size) with
  | Some (ni, li) => ni <=? (size - 1) / 2 ^ li
  | None => false
  end.

(* nodeLocation.index(height) *)
Definition loc_index (ni li height : N) : option N :=
  if height <=? li then None
  else let w := N.max (height - li) (N.size ni) in
       let r := 2 ^ w + ni in
       if 2 ^ 31 <=? r then None else Some r.

(* getRightSiblingInfo *)
Fixpoint sib_descend (fuel : nat) (st : list N) (sib layer : N) : N * N :=
  match fuel with
  | O => (sib, layer)
  | S f => if (nth (N.to_nat layer) st 0 <=? sib) && (0 <? layer)
           then sib_descend f st (sib * 2) (layer - 1) else (sib, layer)
  end.
Definition right_sibling (ni li size : N) : option (N * N) :=
  let st := layer_structure size in
  let sib := (ni / 2) * 2 + (ni + 1) mod 2 in
  let '(s, l) := sib_descend (S (N.to_nat li)) st sib li in
  if size <=? s then None else Some (s, l).

Definition lookup {A : Type} (m : list (N * A)) (k : N) : option A :=
  match find (fun p => fst p =? k) m with Some p => Some (snd p) | None => None end.

Section ProofModel.
  Context {Hsh : Type}.
  Variable hempty : Hsh.
  Variable hbranch : Hsh -> Hsh -> Hsh.
  Variable heqb : Hsh -> Hsh -> bool.
  Variable node_at : N -> N -> option Hsh.     (* layer, node index *)

  (* getSiblingHashes loop *)
  Fixpoint gsh (fuel : nat) (size height : N) (orig sorted : list N) (acc : list Hsh) : outcome (list Hsh) :=
    match fuel with
    | O => OutOfFuel
    | S f =>
      match sorted with
      | [] => Ok acc
      | cur :: rest =>
        let merge := match rest with
                     | nxt :: _ => is_left cur && same_layer cur nxt && are_siblings cur nxt
                     | [] => false
                     end in
        if merge then gsh f size height orig (ins_idx (cur / 2) (skipn 1 rest)) acc
        else if cur =? 2 then Ok acc
        else match new_loc cur height with
             | None => Err
             | Some (ni, li) =>
               let next := ins_idx (cur / 2) (remove_idx cur sorted) in
               match right_sibling ni li size with
               | None => gsh f size height orig next acc
               | Some (sn, sl) =>
                 match loc_index sn sl height with
                 | None => Err
                 | Some sidx =>
                   if existsb (N.eqb sidx) orig then gsh f size height orig next acc
                   else match node_at sl sn with
                        | None => Err
                        | Some h => gsh f size height orig next (acc ++ [h])
                        end
                 end
               end
             end
      end
    end.

  Definition loop_fuel (n : nat) (height : N) : nat := S ((S n) * (N.to_nat height + 3)).

  Definition sibling_hashes (size : N) (idxs : list N) : outcome (list Hsh) :=
    let sorted := sort_idx (filter (fun i => negb (i =? 0)) idxs) in
    gsh (loop_fuel (length idxs) (get_height size)) size (get_height size) idxs sorted [].

  (* calculatePathNodes loop *)
  Fixpoint cpn (fuel : nat) (size height : N) (sorted : list N) (result cache : list (N * Hsh)) (sibs : list Hsh)
    : outcome (list (N * Hsh)) :=
    match fuel with
    | O => OutOfFuel
    | S f =>
      match sorted with
      | [] => Ok result
      | idx :: rest =>
        if idx =? 2 then Ok result
        else
          match (match lookup result idx with Some h => Some h | None => lookup cache idx end) with
          | None => Err
          | Some cur =>
            let parent := idx / 2 in
            match new_loc idx height with
            | None => Err
            | Some (ni, li) =>
              match right_sibling ni li size with
              | None =>
                (* no sibling: a hash claimed for the parent index must be the hash carried up (as repaired) *)
                let clash := match lookup result parent with Some e => negb (heqb e cur) | None => false end in
                if clash then Err
                else cpn f size height (ins_idx parent rest) result ((parent, cur) :: cache) sibs
              | Some (sn, sl) =>
                match loc_index sn sl height with
                | None => Err
                | Some sidx =>
                  let pick := match lookup result sidx with
                              | Some sh => Some (sh, sibs)
                              | None => match sibs with [] => None | sh :: sibs' => Some (sh, sibs') end
                              end in
                  match pick with
                  | None => Err
                  | Some (sh, sibs') =>
                    let ph := if is_left idx then hbranch cur sh else hbranch sh cur in
                    let clash := match lookup result parent with Some e => negb (heqb e ph) | None => false end in
                    if clash then Err
                    else cpn f size height (ins_idx parent rest) ((parent, ph) :: result) cache sibs'
                  end
                end
              end
            end
          end
      end
    end.

  (* initial result map; None = two different claims for the same index (rejected by the repaired code) *)
  Fixpoint init_result (qs : list Hsh) (idxs : list N) (acc : list (N * Hsh)) : option (list (N * Hsh)) :=
    match qs, idxs with
    | q :: qs', i :: idxs' =>
      if i =? 0 then init_result qs' idxs' acc
      else match lookup acc i with
           | Some e => if heqb e q then init_result qs' idxs' ((i, q) :: acc) else None
           | None => init_result qs' idxs' ((i, q) :: acc)
           end
    | _, _ => Some acc
    end.

  Definition calc_path_nodes (qs : list Hsh) (size : N) (idxs : list N) (sibs : list Hsh)
    : outcome (list (N * Hsh)) :=
    if negb (Nat.eqb (length qs) (length idxs)) then Err
    else if Nat.eqb (length qs) 0 then Err
    else
      match init_result qs idxs [] with
      | None => Err
      | Some res0 =>
        (* a repeated index (with the same hash) is put on the work list once *)
        let sorted := sort_idx (nodup N.eq_dec (filter (fun i => negb (i =? 0)) idxs)) in
        cpn (loop_fuel (length idxs) (get_height size)) size (get_height size) sorted res0 [] sibs
      end.

  Definition root_of (r : outcome (list (N * Hsh))) : outcome Hsh :=
    match r with
    | Ok res => match lookup res 2 with Some h => Ok h | None => Err end
    | Err => Err
    | OutOfFuel => OutOfFuel
    end.

  (* VerifyProof(queryHashes, {size, idxs, siblingHashes}, root); as repaired it first rejects every index that is
     neither 0 (absent query) nor the index of a node of a tree of [size] leaves *)
  Definition verify_proof (qs : list Hsh) (size : N) (idxs : list N) (sibs : list Hsh) (root : Hsh) : bool :=
    if size =? 0 then false
    else if negb (forallb (fun i => (i =? 0) || valid_idx size i) idxs) then false
    else match root_of (calc_path_nodes qs size idxs sibs) with Ok r => heqb r root | _ => false end.

  (* GenerateProof: queries resolved to store locations (layer, index) or absent (idx 0) *)
  Fixpoint query_idxs (height : N) (qs : list (option (N * N))) : outcome (list N) :=
    match qs with
    | [] => Ok []
    | None :: t => match query_idxs height t with Ok r => Ok (0 :: r) | e => e end
    | Some (li, ni) :: t =>
      match loc_index ni li height with
      | None => Err
      | Some i => match query_idxs height t with Ok r => Ok (i :: r) | e => e end
      end
    end.

  Definition generate_proof (size : N) (qs : list (option (N * N))) : outcome (N * list N * list Hsh) :=
    if size =? 0 then Ok (0, [], [])
    else match query_idxs (get_height size) qs with
         | Ok idxs => match sibling_hashes size idxs with
                      | Ok sh => Ok (size, idxs, sh)
                      | Err => Err | OutOfFuel => OutOfFuel
                      end
         | Err => Err | OutOfFuel => OutOfFuel
         end.

  (* Update(idxs, data): new root (the store/leaves update is described by the caller) *)
  Definition update_root (size : N) (idxs : list N) (new_leaf_hashes : list Hsh) : outcome Hsh :=
    let height := get_height size in
    if negb (forallb (fun i => blen i =? height + 1) idxs) then Err
    else match sibling_hashes size idxs with
         | Ok sh => root_of (calc_path_nodes new_leaf_hashes size idxs sh)
         | Err => Err | OutOfFuel => OutOfFuel
         end.

  (* CalculateRootFromUpdateData(updateData, proof) *)
  Definition root_from_update (new_leaf_hashes : list Hsh) (size : N) (idxs : list N) (sibs : list Hsh) : outcome Hsh :=
    if (size =? 0) || Nat.eqb (length idxs) 0 then Err
    else if negb (Nat.eqb (length new_leaf_hashes) (length idxs)) then Err
    else root_of (calc_path_nodes new_leaf_hashes size idxs sibs).

  (* ---- right witness ---- *)
  Fixpoint grw (layers : list N) (size last inc : N) (acc : list Hsh) : outcome (list Hsh) :=
    match layers with
    | [] => Ok acc
    | L :: t =>
      if N.testbit inc L then
        match right_sibling (last / 2 ^ L) L size with
        | None => Ok acc
        | Some (sn, sl) => match node_at sl sn with
                           | None => Err
                           | Some h => grw t size last (inc + 2 ^ L) (acc ++ [h])
                           end
        end
      else grw t size last inc acc
    end.

  Definition gen_right_witness (path : list Hsh) (size idx : N) : outcome (list Hsh) :=
    if size <? idx then Err
    else if size =? 0 then Ok []
    else if idx =? 0 then Ok path
    else grw (map N.of_nat (seq 0 (N.to_nat (get_height size)))) size (idx - 1) idx [].

  (* getRootFromPath (as repaired: the empty list gives the empty hash instead of panicking on paths[0]) *)
  Definition root_from_path (paths : list Hsh) : Hsh :=
    match paths with [] => hempty | p :: t => fold_left (fun c h => hbranch h c) t p end.

  Definition shl1 (layer : N) : N := if layer <? 64 then 2 ^ layer else 0.
  Definition bit_at (x layer : N) : bool := if layer <? 64 then N.testbit x layer else false.

  Fixpoint crw (fuel : nat) (idx layer inc : N) (init : bool) (ap rw : list Hsh) (cur : Hsh) : outcome Hsh :=
    match fuel with
    | O => OutOfFuel
    | S f =>
      match ap, rw with
      | [], [] => Ok cur
      | _, _ =>
        if 64 <=? layer then Err      (* repaired: inconsistent arguments, the Go code returns nil *)
        else
        let d := bit_at idx layer in
        let '(inc1, init1, ap1, cur1) :=
          match ap with
          | h :: ap' => if d then (if init then (inc, init, ap', hbranch h cur)
                                   else ((inc + shl1 layer) mod 2 ^ 64, true, ap, cur))
                        else (inc, init, ap, cur)
          | [] => (inc, init, ap, cur)
          end in
        let '(inc2, rw2, cur2) :=
          match rw with
          | h :: rw' => if bit_at inc1 layer then ((inc1 + shl1 layer) mod 2 ^ 64, rw', hbranch cur1 h)
                        else (inc1, rw, cur1)
          | [] => (inc1, rw, cur1)
          end in
        crw f idx (layer + 1) inc2 init1 ap1 rw2 cur2
      end
    end.

  (* CalculateRootFromRightWitness; Err = nil result (more hashes than the 64 index digits can place) *)
  Definition root_from_right_witness (idx : N) (ap rw : list Hsh) : outcome Hsh :=
    match ap, rw with
    | [], _ => Ok (root_from_path rw)
    | _, [] => Ok (root_from_path ap)
    | a :: ap', r :: rw' => crw 300 idx 0 idx false ap' rw' (hbranch a r)
    end.

  (* Update (as repaired) re-reads the append path from the updated nodes: the sub-tree of binary digit h of size is
     the node (size >> h) - 1 of layer h; entries whose node is missing keep the old hash *)
  Fixpoint refresh_path (hs : list N) (size : N) (old : list Hsh) : list Hsh :=
    match hs with
    | [] => old
    | h :: t =>
      if N.testbit size h then
        match old with
        | [] => []
        | o :: old' => (match node_at h (size / 2 ^ h - 1) with Some x => x | None => o end) :: refresh_path t size old'
        end
      else refresh_path t size old
    end.
  Definition update_path (size : N) (old : list Hsh) : list Hsh :=
    refresh_path (map N.of_nat (seq 0 (N.to_nat (get_height size)))) size old.
End ProofModel.
