(* C11 — multi-query completeness, part A: pure lemmas on index lists.
   A level is a strictly ascending list of node indexes.  [E] = sibling values emitted while processing a level the way
   getSiblingHashes does (an even index directly followed by its successor is a merged pair and emits nothing), [F] = the
   parent level accumulated on the way. *)
From Coq Require Import List Arith NArith ZArith Lia Bool ZifyBool ZifyN ZifyNat.
From LE Require Import RMT.Proof RMT.NodeProofs RMT.IndexProofs RMT.ProofSound.
Import ListNotations.
Local Open Scope N_scope.
Ltac Zify.zify_post_hook ::= Z.div_mod_to_equations.

Fixpoint asc (l : list N) : Prop :=
  match l with [] => True | a :: t => (forall z, In z t -> a < z) /\ asc t end.

Lemma asc_app : forall l1 l2, asc (l1 ++ l2) <-> asc l1 /\ asc l2 /\ (forall a b, In a l1 -> In b l2 -> a < b).
Proof.
  induction l1 as [|x l1 IH]; intros l2; cbn [app asc].
  - split; [intros H; repeat split; auto; intros a b []|tauto].
  - rewrite IH. split.
    + intros (Hx & A & B & C). repeat split; auto.
      * intros z Hz. apply Hx. apply in_or_app. left. exact Hz.
      * intros a b [<-|Ha] Hb; [apply Hx; apply in_or_app; right; exact Hb|apply C; assumption].
    + intros ((Hx & A) & B & C). repeat split; auto.
      * intros z Hz. apply in_app_or in Hz. destruct Hz as [Hz|Hz]; [apply Hx; exact Hz|apply C; [left; reflexivity|exact Hz]].
      * intros a b Ha Hb. apply C; [right; exact Ha|exact Hb].
Qed.

(* are_siblings on the "leading 1" encoding *)
Lemma lxor_one : forall a b : N, N.lxor a b = 1 <-> a / 2 = b / 2 /\ N.odd a <> N.odd b.
Proof.
  intros a b. split.
  - intros H. split.
    + assert (E : N.lxor (N.shiftr a 1) (N.shiftr b 1) = 0) by (rewrite <- N.shiftr_lxor, H; reflexivity).
      apply N.lxor_eq in E. rewrite !N.shiftr_div_pow2 in E. change (2 ^ 1) with 2 in E. exact E.
    + pose proof (N.lxor_spec a b 0) as S0. rewrite H in S0. rewrite !N.bit0_odd in S0. cbn in S0.
      destruct (N.odd a), (N.odd b); cbn in S0; congruence.
  - intros [Hd Ho]. apply N.bits_inj. intros m. rewrite N.lxor_spec.
    destruct (N.eq_dec m 0) as [->|Hm].
    + rewrite !N.bit0_odd. destruct (N.odd a), (N.odd b); cbn; congruence.
    + replace m with (N.succ (N.pred m)) by lia. rewrite !N.testbit_succ_r_div2 by lia. rewrite !N.div2_div, Hd.
      rewrite xorb_nilpotent. change (N.div2 1) with 0. rewrite N.bits_0. reflexivity.
Qed.

Lemma odd_mod2 : forall a : N, N.odd a = negb (a mod 2 =? 0).
Proof. intros a. rewrite <- N.negb_even, even_mod2. reflexivity. Qed.

Definition is_pair (i j : N) : bool := N.even i && (j =? i + 1).

Definition addp (y : N) (P : list N) : list N := if existsb (N.eqb y) P then P else P ++ [y].
Fixpoint F (P L : list N) : list N :=
  match L with
  | [] => P
  | i :: rest =>
    match rest with
    | j :: rest' => if is_pair i j then F (addp (i / 2) P) rest' else F (addp (i / 2) P) rest
    | [] => addp (i / 2) P
    end
  end.

Lemma F_cons2 : forall P i j r, F P (i :: j :: r) = if is_pair i j then F (addp (i / 2) P) r else F (addp (i / 2) P) (j :: r).
Proof. reflexivity. Qed.

Lemma in_addp : forall y P z, In z (addp y P) <-> z = y \/ In z P.
Proof.
  intros y P z. unfold addp. destruct (existsb (N.eqb y) P) eqn:E1.
  - apply existsb_exists in E1. destruct E1 as (x & Hx & Ex). apply N.eqb_eq in Ex. subst x. intuition. subst; auto.
  - rewrite in_app_iff. cbn. intuition.
Qed.
Lemma addp_length : forall y P, (length (addp y P) <= S (length P))%nat.
Proof. intros. unfold addp. destruct (existsb _ _); [lia|rewrite app_length; cbn; lia]. Qed.
Lemma addp_asc : forall y P, asc P -> (forall z, In z P -> z <= y) -> asc (addp y P).
Proof.
  intros y P HP Hle. unfold addp. destruct (existsb (N.eqb y) P) eqn:E1; [exact HP|].
  apply asc_app. split; [exact HP|]. split; [split; [intros z []|exact I]|].
  intros a b Ha [Eb|[]]. subst b. pose proof (Hle a Ha).
  assert (a <> y); [|lia]. intros ->. assert (existsb (N.eqb y) P = true); [|congruence].
  apply existsb_exists. exists y. split; [exact Ha|apply N.eqb_refl].
Qed.

Lemma in_F : forall m L P, (length L <= m)%nat -> forall y, In y (F P L) <-> In y P \/ exists i, In i L /\ y = i / 2.
Proof.
  induction m; intros L P Hl y.
  - destruct L; [|cbn in Hl; lia]. cbn. split; [auto|intros [?|(i & [] & _)]; auto].
  - destruct L as [|i [|j rest']]; [cbn [F]|cbn [F]|rewrite F_cons2].
    + split; [auto|intros [?|(i & [] & _)]; auto].
    + rewrite in_addp. split.
      * intros [->|H]; [right; exists i; split; [left; reflexivity|reflexivity]|left; exact H].
      * intros [H|(i0 & [<-|[]] & ->)]; auto.
    + destruct (is_pair i j) eqn:Ep.
      * rewrite (IHm rest') by (cbn in Hl; lia). rewrite in_addp.
        unfold is_pair in Ep. apply andb_true_iff in Ep. destruct Ep as [Ev Ej]. apply N.eqb_eq in Ej. rewrite even_mod2 in Ev. apply N.eqb_eq in Ev.
        split.
        -- intros [[->|H]|(i0 & Hi0 & ->)]; [right; exists i; cbn; auto|left; exact H|right; exists i0; cbn; auto].
        -- intros [H|(i0 & [<-|[<-|Hi0]] & ->)]; [left; right; exact H|left; left; reflexivity| |right; exists i0; auto].
           left. left. subst j. lia.
      * rewrite (IHm (j :: rest')) by (cbn in Hl |- *; lia). rewrite in_addp. split.
        -- intros [[->|H]|(i0 & Hi0 & ->)]; [right; exists i; cbn; auto|left; exact H|right; exists i0; split; [right; exact Hi0|reflexivity]].
        -- intros [H|(i0 & [<-|Hi0] & ->)]; [left; right; exact H|left; left; reflexivity|right; exists i0; auto].
Qed.

Lemma F_asc : forall m L P, (length L <= m)%nat -> asc L -> asc P -> (forall z i, In z P -> In i L -> z <= i / 2) -> asc (F P L).
Proof.
  induction m; intros L P Hl HL HP Hle.
  - destruct L; [exact HP|cbn in Hl; lia].
  - destruct L as [|i [|j rest']]; [cbn [F]; exact HP|cbn [F]|rewrite F_cons2].
    + apply addp_asc; [exact HP|]. intros z Hz. apply Hle; [exact Hz|left; reflexivity].
    + assert (Hadd : asc (addp (i / 2) P)) by (apply addp_asc; [exact HP|intros z Hz; apply Hle; [exact Hz|left; reflexivity]]).
      destruct HL as [Hi [Hj Hr]].
      assert (Hnext : forall z i0, In z (addp (i / 2) P) -> In i0 (j :: rest') -> z <= i0 / 2).
      { intros z i0 Hz Hi0. apply in_addp in Hz. destruct Hz as [->|Hz].
        - pose proof (Hi i0 Hi0). lia.
        - apply Hle; [exact Hz|right; exact Hi0]. }
      destruct (is_pair i j).
      * apply IHm; [cbn in Hl; lia|exact Hr|exact Hadd|]. intros z i0 Hz Hi0. apply Hnext; [exact Hz|right; exact Hi0].
      * apply IHm; [cbn in Hl |- *; lia|split; assumption|exact Hadd|exact Hnext].
Qed.

Lemma F_length : forall m L P, (length L <= m)%nat -> (length (F P L) <= length P + length L)%nat.
Proof.
  induction m; intros L P Hl.
  - destruct L; [cbn; lia|cbn in Hl; lia].
  - destruct L as [|i [|j rest']]; [cbn [F length]; lia|cbn [F length]; pose proof (addp_length (i / 2) P); lia|rewrite F_cons2; cbn [length]].
    pose proof (addp_length (i / 2) P).
    destruct (is_pair i j).
    + pose proof (IHm rest' (addp (i / 2) P) ltac:(cbn in Hl; lia)). lia.
    + pose proof (IHm (j :: rest') (addp (i / 2) P) ltac:(cbn in Hl |- *; lia)). cbn [length] in *. lia.
Qed.

Section Lists.
  Context {Hsh : Type}.
  Variable n : N.
  Variable nv : N -> Hsh.                    (* value of node (k, i) for the fixed level k *)
  Variable p2k : N.                          (* 2^k *)

  Definition emit1 (i : N) : list Hsh := if sib_of i * p2k <? n then [nv (sib_of i)] else [].


  Fixpoint E (L : list N) : list Hsh :=
    match L with
    | [] => []
    | i :: rest =>
      match rest with
      | j :: rest' => if is_pair i j then E rest' else emit1 i ++ E rest
      | [] => emit1 i
      end
    end.

  Lemma E_cons2 : forall i j r, E (i :: j :: r) = if is_pair i j then E r else emit1 i ++ E (j :: r).
  Proof. reflexivity. Qed.

End Lists.
