(* C11 — completeness for ONE queried leaf, every tree size: GenerateProof (getSiblingHashes) emits, level by level,
   exactly the sibling values that VerifyProof (calculatePathNodes) consumes, and the recomputed root is the LIP-0031
   root.  Stated for a store [node_at] that is only required to be right OFF the path of the queried leaf, so that the
   same lemma gives Update through a proof: the sibling hashes read from the old tree verify the NEW leaf against the
   root of the modified list. *)
From Coq Require Import List Arith NArith ZArith Lia Bool ZifyBool ZifyN ZifyNat.
From LE Require Import RMT.Root RMT.Append RMT.AppendProofs RMT.Proof RMT.NodeProofs RMT.IndexProofs RMT.ProofSound.
Import ListNotations.
Local Open Scope N_scope.
Ltac Zify.zify_post_hook ::= Z.div_mod_to_equations.

Section Complete.
  Variable n : N.
  Hypothesis Hok : size_ok n.
  Notation Hh := (get_height n).
  Context {D Hsh : Type}.
  Variable hempty : Hsh.
  Variable hleaf : D -> Hsh.
  Variable hbranch : Hsh -> Hsh -> Hsh.
  Variable heqb : Hsh -> Hsh -> bool.
  Hypothesis heqb_refl : forall a, heqb a a = true.
  Variable lv : list D.                       (* the list whose root is recomputed *)
  Hypothesis Hlen : len lv = n.
  Notation nval := (nval hempty hleaf hbranch lv).
  Variable pos : N.
  Hypothesis Hpos : pos < n.
  Variable node_at : N -> N -> option Hsh.
  (* node (k, i) contains leaf [pos] *)
  Definition cov (k i : N) : Prop := i * 2 ^ k <= pos < (i + 1) * 2 ^ k.
  Hypothesis Hna : forall k i, vnode n k i -> ~ cov k i -> node_at k i = Some (nval k i).

  Definition pn (k : N) : N := pos / 2 ^ k.
  Definition px (k : N) : N := nidx Hh k (pn k).

  Lemma cov_pn : forall k, cov k (pn k).
  Proof. intros k. unfold cov, pn. pose proof (pow2N_pos k). set (p := 2 ^ k) in *. nia. Qed.
  Lemma cov_unique : forall k i, cov k i -> i = pn k.
  Proof. intros k i [A B]. unfold pn. pose proof (pow2N_pos k). set (p := 2 ^ k) in *. apply N.div_unique with (pos - i * p); lia. Qed.
  Lemma pn_vnode : forall k, k < Hh -> vnode n k (pn k).
  Proof. intros k Hk. split; [exact Hk|]. destruct (cov_pn k). lia. Qed.
  Lemma pn_succ : forall k, pn k / 2 = pn (k + 1).
  Proof. intros k. unfold pn. rewrite pow2_succ, N.div_div by (try apply N.pow_nonzero; lia). f_equal. lia. Qed.
  Lemma px_parent : forall k, k + 1 < Hh -> px k / 2 = px (k + 1).
  Proof. intros k Hk. unfold px. rewrite nidx_parent by exact Hk. rewrite pn_succ. reflexivity. Qed.

  Lemma sib_not_cov : forall k s' k', k' <= k -> s' * 2 ^ k' = sib_of (pn k) * 2 ^ k -> ~ cov k' s'.
  Proof.
    intros k s' k' Hk E [A B]. destruct (cov_pn k) as [C1 C2]. pose proof (pow2_mono k' k Hk). pose proof (pow2N_pos k').
    assert (Hs : sib_of (pn k) <> pn k) by (unfold sib_of; lia).
    set (i := pn k) in *. set (s := sib_of i) in *. set (p := 2 ^ k) in *. set (p' := 2 ^ k') in *.
    assert (s * p <= pos < (s + 1) * p) by nia. apply Hs. nia.
  Qed.

  (* result keys are nodes of the path, strictly below level k *)
  Definition keys_below (res : list (N * Hsh)) (k : N) : Prop :=
    forall Z h, lookup res Z = Some h -> exists k0, k0 < k /\ Z = px k0.

  Lemma px_inj : forall k1 k2, k1 < Hh -> k2 < Hh -> px k1 = px k2 -> k1 = k2.
  Proof. intros k1 k2 H1 H2 E. destruct (nidx_inj n Hok _ _ _ _ (pn_vnode k1 H1) (pn_vnode k2 H2) E). assumption. Qed.

  Lemma root_real : 2 <= Hh -> 2 ^ (Hh - 2) < n.
  Proof.
    intros H2. unfold get_height in *. destruct Hok as [H1 _].
    assert (Hn : 1 < n). { destruct (N.eq_dec n 1) as [->|]; [cbn in H2; lia|lia]. }
    pose proof (N.log2_up_spec n Hn) as [A _]. replace (N.log2_up n + 1 - 2) with (N.pred (N.log2_up n)) by lia. exact A.
  Qed.

  (* joint run of prover and verifier from level k up to the root; d = number of levels still to climb *)
  Lemma climb : forall d k, k + 1 + N.of_nat d = Hh ->
    forall fg acc, (d < fg)%nat ->
    exists E, gsh node_at fg n Hh [px 0] [px k] acc = Ok (acc ++ E) /\
      forall fc res cache, (d < fc)%nat ->
        fv res cache (px k) = Some (nval k (pn k)) ->
        (k + 1 = Hh -> lookup res (px k) = Some (nval k (pn k))) ->
        keys_below res k \/ (keys_below res (k + 1) /\ lookup res (px k) = Some (nval k (pn k))) ->
        exists resF, cpn hbranch heqb fc n Hh [px k] res cache E = Ok resF /\
                     lookup resF 2 = Some (mroot hempty hleaf hbranch lv).
  Proof.
    induction d; intros k Hk fg acc Hfg.
    - (* at the root *)
      assert (Hr : px k = 2) by (apply (top_is_root n Hok); [apply pn_vnode|]; lia).
      assert (Hpn : pn k = 0).
      { pose proof (vnode_bound n k (pn k) Hok (pn_vnode k ltac:(lia))) as B. replace (Hh - k - 1) with 0 in B by lia. change (2 ^ 0) with 1 in B. lia. }
      destruct fg; [lia|]. exists []. split.
      + cbn [gsh]. rewrite Hr. cbn. rewrite app_nil_r. reflexivity.
      + intros fc res cache Hfc Hfv Htop _. destruct fc; [lia|]. exists res. split.
        * cbn [cpn]. rewrite Hr. reflexivity.
        * rewrite <- Hr, Htop by lia. rewrite Hpn. replace k with (Hh - 1) by lia.
          rewrite (root_value n Hok hempty hleaf hbranch lv Hlen). reflexivity.
    - assert (Hk1 : k + 1 < Hh) by lia.
      pose proof (pn_vnode k ltac:(lia)) as Hv.
      assert (HX2 : (px k =? 2) = false).
      { apply N.eqb_neq. unfold px, nidx. assert (2 ^ 2 <= 2 ^ (Hh - k)) by (apply pow2_mono; lia). change (2 ^ 2) with 4 in *. lia. }
      assert (Enl : new_loc (px k) Hh = Some (pn k, k)) by (apply (new_loc_nidx n Hok); exact Hv).
      assert (Hrem : remove_idx (px k) [px k] = []) by (unfold remove_idx; cbn; rewrite N.eqb_refl; reflexivity).
      destruct fg; [lia|].
      destruct (N.ltb_spec (sib_of (pn k) * 2 ^ k) n) as [Hsib|Hemp].
      + (* sibling exists *)
        destruct (right_sibling_some n hempty hleaf hbranch lv Hlen k (pn k) (proj1 Hv) Hsib) as (s' & k' & Ers & Hvs & Eval & _ & Hk'k & Hs').
        pose proof (sib_not_cov k s' k' Hk'k Hs') as Hnc.
        assert (Hsidx : forall k0, k0 < Hh -> nidx Hh k' s' <> px k0).
        { intros k0 Hk0 E. destruct (nidx_inj n Hok _ _ _ _ Hvs (pn_vnode k0 Hk0) E) as [-> ->]. apply Hnc. apply cov_pn. }
        destruct (IHd (k + 1) ltac:(lia) fg (acc ++ [nval k' s']) ltac:(lia)) as (E' & Hg & Hc).
        exists (nval k' s' :: E'). split.
        * cbn [gsh]. rewrite HX2. rewrite Enl. rewrite Ers.
          rewrite (loc_index_nidx n Hok k' s' Hvs).
          assert (Eo : existsb (N.eqb (nidx Hh k' s')) [px 0] = false).
          { cbn. destruct (N.eqb_spec (nidx Hh k' s') (px 0)) as [E|]; [|reflexivity]. exfalso. apply (Hsidx 0); [lia|exact E]. }
          rewrite Eo. rewrite (Hna k' s' Hvs Hnc). rewrite Hrem. cbn [ins_idx]. rewrite px_parent by exact Hk1.
          rewrite Hg. rewrite <- app_assoc. reflexivity.
        * intros fc res cache Hfc Hfv Htop Hkeys. destruct fc; [lia|].
          assert (HresS : lookup res (nidx Hh k' s') = None).
          { destruct (lookup res (nidx Hh k' s')) eqn:El; [|reflexivity]. exfalso.
            destruct Hkeys as [Kb|[Kb _]]; destruct (Kb _ _ El) as (k0 & Hk0 & E0); apply (Hsidx k0); try lia; exact E0. }
          assert (HresY : lookup res (px (k + 1)) = None).
          { destruct (lookup res (px (k + 1))) eqn:El; [|reflexivity]. exfalso.
            destruct Hkeys as [Kb|[Kb _]]; destruct (Kb _ _ El) as (k0 & Hk0 & E0); apply px_inj in E0; lia. }
          set (ph := nval (k + 1) (pn (k + 1))).
          assert (Hph : (if is_left (px k) then hbranch (nval k (pn k)) (nval k' s') else hbranch (nval k' s') (nval k (pn k))) = ph).
          { unfold ph, is_left, px. rewrite (nidx_even n k (pn k) Hv). rewrite <- pn_succ.
            rewrite (parent_value n hempty hleaf hbranch lv Hlen k (pn k) Hv Hk1).
            destruct (N.ltb_spec (sib_of (pn k) * 2 ^ k) n); [|lia]. rewrite Eval. reflexivity. }
          destruct (Hc fc ((px (k + 1), ph) :: res) cache ltac:(lia)) as (resF & Hrun & Hroot).
          { unfold fv. rewrite lookup_cons, N.eqb_refl. reflexivity. }
          { intros _. rewrite lookup_cons, N.eqb_refl. reflexivity. }
          { right. split; [|rewrite lookup_cons, N.eqb_refl; reflexivity].
            intros Z h El. rewrite lookup_cons in El. destruct (N.eqb_spec (px (k + 1)) Z) as [<-|].
            - exists (k + 1). split; [lia|reflexivity].
            - destruct Hkeys as [Kb|[Kb _]]; destruct (Kb _ _ El) as (k0 & Hk0 & E0); exists k0; split; [lia|exact E0|lia|exact E0]. }
          exists resF. split; [|exact Hroot].
          cbn [cpn]. rewrite HX2. fold (fv res cache (px k)). rewrite Hfv.
          rewrite Enl. rewrite Ers. rewrite (loc_index_nidx n Hok k' s' Hvs).
          rewrite HresS. rewrite Hph. rewrite px_parent by exact Hk1. rewrite HresY. cbn [ins_idx]. exact Hrun.
      + (* sibling slot empty: pass-through *)
        pose proof (right_sibling_none n hempty hleaf hbranch lv Hlen k (pn k) (proj1 Hv) Hemp) as Ers.
        destruct (IHd (k + 1) ltac:(lia) fg acc ltac:(lia)) as (E' & Hg & Hc).
        exists E'. split.
        * cbn [gsh]. rewrite HX2. rewrite Enl. rewrite Ers.
          rewrite Hrem. cbn [ins_idx]. rewrite px_parent by exact Hk1. exact Hg.
        * intros fc res cache Hfc Hfv Htop Hkeys. destruct fc; [lia|].
          assert (HresY : lookup res (px (k + 1)) = None).
          { destruct (lookup res (px (k + 1))) eqn:El; [|reflexivity]. exfalso.
            destruct Hkeys as [Kb|[Kb _]]; destruct (Kb _ _ El) as (k0 & Hk0 & E0); apply px_inj in E0; lia. }
          assert (Hval : nval (k + 1) (pn (k + 1)) = nval k (pn k)).
          { rewrite <- pn_succ. rewrite (parent_value n hempty hleaf hbranch lv Hlen k (pn k) Hv Hk1).
            destruct (N.ltb_spec (sib_of (pn k) * 2 ^ k) n); [lia|reflexivity]. }
          assert (Hnotroot : k + 1 + 1 <> Hh).
          { intros Etop. assert (H2 : 2 <= Hh) by lia. pose proof (root_real H2) as R.
            assert (k = Hh - 2) by lia. subst k.
            pose proof (vnode_bound n _ _ Hok Hv) as B. replace (Hh - (Hh - 2) - 1) with 1 in B by lia. change (2 ^ 1) with 2 in B.
            unfold sib_of in Hemp. assert (pn (Hh - 2) <= 1) by lia.
            destruct (N.eq_dec (pn (Hh - 2)) 0) as [E0|E0].
            - rewrite E0 in Hemp. change (0 / 2 * 2 + (0 + 1) mod 2) with 1 in Hemp. lia.
            - replace (pn (Hh - 2)) with 1 in Hemp by lia. change (1 / 2 * 2 + (1 + 1) mod 2) with 0 in Hemp. destruct Hok. lia. }
          destruct (Hc fc res ((px (k + 1), nval k (pn k)) :: cache) ltac:(lia)) as (resF & Hrun & Hroot).
          { unfold fv. rewrite HresY, lookup_cons, N.eqb_refl. rewrite Hval. reflexivity. }
          { intros Etop. exfalso. apply Hnotroot. exact Etop. }
          { left. intros Z h El. destruct Hkeys as [Kb|[Kb _]]; destruct (Kb _ _ El) as (k0 & Hk0 & E0); exists k0; split; [lia|exact E0|lia|exact E0]. }
          exists resF. split; [|exact Hroot].
          cbn [cpn]. rewrite HX2. fold (fv res cache (px k)). rewrite Hfv.
          rewrite Enl. rewrite Ers.
          rewrite px_parent by exact Hk1. cbv zeta. rewrite HresY. cbn [ins_idx]. exact Hrun.
  Qed.
End Complete.
