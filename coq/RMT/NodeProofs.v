(* C11 — the (layer, index) addressing used by pkg/trie/rmt: node (k, i) of a list l is the LIP-0031 root of the slice
   l[i*2^k, (i+1)*2^k); a node whose right half is empty has the value of its left child ("pass-through"), otherwise
   it is the branch hash of its two children.  Closed form of getLayerStructure and specification of
   getRightSiblingInfo against this addressing. *)
From Coq Require Import List Arith NArith ZArith Lia Bool ZifyBool ZifyN ZifyNat.
From LE Require Import RMT.Root RMT.Append RMT.AppendProofs RMT.Proof.
Import ListNotations.
Local Open Scope N_scope.
Ltac Zify.zify_post_hook ::= Z.div_mod_to_equations.

Lemma pow2_nat : forall k : N, N.to_nat (2 ^ k) = pow2 (N.to_nat k).
Proof.
  intros k. induction k using N.peano_ind.
  - reflexivity.
  - rewrite N.pow_succ_r', N2Nat.inj_succ, pow2_S, N2Nat.inj_mul, IHk. reflexivity.
Qed.
Lemma pow2N_pos : forall k : N, 0 < 2 ^ k.
Proof. intros. apply N.neq_0_lt_0. apply N.pow_nonzero. discriminate. Qed.

Lemma skipn_skipn' : forall (A : Type) (b a : nat) (l : list A), skipn a (skipn b l) = skipn (b + a) l.
Proof.
  induction b; intros a l; cbn [Nat.add skipn]; auto.
  destruct l; [destruct a; reflexivity|]. apply IHb.
Qed.

Lemma even_mod2 : forall r : N, N.even r = (r mod 2 =? 0).
Proof.
  intros r. destruct (N.even r) eqn:E.
  - apply N.even_spec in E. destruct E as [m ->]. symmetry. apply N.eqb_eq. rewrite N.mul_comm. apply N.mod_mul. lia.
  - assert (O : N.odd r = true) by (rewrite <- N.negb_even, E; reflexivity).
    apply N.odd_spec in O. destruct O as [m ->]. symmetry. apply N.eqb_neq. lia.
Qed.

Section Nodes.
  Context {D Hsh : Type}.
  Variable hempty : Hsh.
  Variable hleaf : D -> Hsh.
  Variable hbranch : Hsh -> Hsh -> Hsh.
  Notation mroot := (mroot hempty hleaf hbranch).

  Definition slice (l : list D) (start len : N) : list D := firstn (N.to_nat len) (skipn (N.to_nat start) l).
  (* value of node (layer k, index i) *)
  Definition nval (l : list D) (k i : N) : Hsh := mroot (slice l (i * 2 ^ k) (2 ^ k)).
  Definition len (l : list D) : N := N.of_nat (length l).

  Lemma slice_length : forall l s n, length (slice l s n) = Nat.min (N.to_nat n) (length l - N.to_nat s).
  Proof. intros. unfold slice. rewrite firstn_length, skipn_length. reflexivity. Qed.

  Lemma nval_leaf : forall l i x, nth_error l (N.to_nat i) = Some x -> nval l 0 i = hleaf x.
  Proof.
    intros l i x Hn. unfold nval, slice. rewrite N.pow_0_r, N.mul_1_r. change (N.to_nat 1) with 1%nat.
    revert l Hn. generalize (N.to_nat i) as j. induction j; intros l Hn; destruct l as [|y t]; cbn in Hn; try discriminate.
    - inversion Hn; subst. reflexivity.
    - cbn [skipn]. apply IHj. exact Hn.
  Qed.

  (* the recursion equation of node values *)
  Lemma nval_step : forall l k i, i * 2 ^ (k + 1) < len l ->
    nval l (k + 1) i =
    if (2 * i + 1) * 2 ^ k <? len l then hbranch (nval l k (2 * i)) (nval l k (2 * i + 1)) else nval l k (2 * i).
  Proof.
    intros l k i Hne. unfold nval, len in *.
    assert (Hp : 2 ^ (k + 1) = 2 * 2 ^ k) by (rewrite N.add_1_r, N.pow_succ_r'; reflexivity).
    pose proof (pow2N_pos k) as Hpos. set (p := 2 ^ k) in *. rewrite Hp in *.
    assert (Hp2 : N.to_nat p = pow2 (N.to_nat k)) by (apply pow2_nat).
    destruct (N.ltb_spec ((2 * i + 1) * p) (N.of_nat (length l))) as [Hr|Hr].
    - (* both halves non-empty *)
      set (X := slice l (i * (2 * p)) (2 * p)).
      assert (HX : (pow2 (N.to_nat k) < length X <= pow2 (S (N.to_nat k)))%nat).
      { unfold X. rewrite slice_length, pow2_S, <- Hp2. lia. }
      rewrite (mroot_split hempty hleaf hbranch (N.to_nat k) X) by lia.
      f_equal; f_equal; unfold X, slice; rewrite <- Hp2.
      + rewrite firstn_firstn. replace (i * (2 * p)) with (2 * i * p) by lia. f_equal. lia.
      + rewrite skipn_firstn_comm, skipn_skipn'. f_equal; [lia|]. f_equal. lia.
    - (* right half empty *)
      f_equal. unfold slice. replace (2 * i * p) with (i * (2 * p)) by lia.
      rewrite !firstn_all2; auto; rewrite skipn_length; lia.
  Qed.

End Nodes.

  (* ---- getLayerStructure ---- *)
(* number of non-empty nodes of layer j: ceil(n / 2^j) *)
Fixpoint qs (j : nat) (n : N) : N := match j with O => n | S j' => (qs j' n + 1) / 2 end.
Lemma qs_spec : forall j n s, s < qs j n <-> s * 2 ^ (N.of_nat j) < n.
Proof.
  induction j; intros n s; cbn [qs].
  - cbn. rewrite N.mul_1_r. tauto.
  - rewrite Nat2N.inj_succ, N.pow_succ_r'. specialize (IHj n (2 * s)).
    assert (H : s < (qs j n + 1) / 2 <-> 2 * s < qs j n) by lia.
    rewrite H, IHj. split; intro; lia.
Qed.

Lemma qs_shift : forall j a, qs (S j) a = qs j ((a + 1) / 2).
Proof. induction j; intros a; cbn [qs] in *; auto. rewrite <- IHj. reflexivity. Qed.

Lemma layer_max_closed : forall j mx r, layer_max (S j) mx r = qs j (mx + r mod 2) / 2.
Proof.
  induction j; intros mx r.
  - cbn [layer_max qs]. rewrite even_mod2. destruct (N.eqb_spec (r mod 2) 0); lia.
  - change (layer_max (S (S j)) mx r) with
      (layer_max (S j) (if N.even r then mx / 2 else (mx + 1) / 2) (r + mx mod 2)).
    rewrite IHj, qs_shift. f_equal. f_equal.
    rewrite even_mod2. destruct (N.eqb_spec (r mod 2) 0); lia.
Qed.
