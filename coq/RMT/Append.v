(* C11 — incremental state of pkg/trie/rmt/rmt.go: (root, appendPath, size); Append; and
   root.go CalculateRootFromAppendPath (as repaired by the `fix:` commit: the new first append-path entry folds the
   BOTTOM part appendPath[:subTreeIndex] only; size 0 no longer panics).  The buggy original is kept as
   [predict_buggy] for the refutation example.

   Loops `for h := 0; h < height; h++ { dir := (size >> h) & 1 ... }` are modelled as recursion over the binary
   digits of [size], low to high ([nbits]); height = ceil(log2 size)+1 >= bit length, and the extra iterations
   see digit 0, which both loops skip.  Slice accesses appendPath[count] / appendPath[:k] that would panic in Go
   yield [None]. *)
From Coq Require Import List NArith Bool.
From LE Require Import RMT.Root.
Import ListNotations.

Fixpoint pbits (p : positive) : list bool :=
  match p with xH => [true] | xO q => false :: pbits q | xI q => true :: pbits q end.
Definition nbits (n : N) : list bool := match n with N0 => [] | Npos p => pbits p end.

Fixpoint trailing_ones (bs : list bool) : nat :=
  match bs with true :: t => S (trailing_ones t) | _ => O end.

Section Append.
  Context {D Hsh : Type}.
  Variable hempty : Hsh.
  Variable hleaf : D -> Hsh.
  Variable hbranch : Hsh -> Hsh -> Hsh.

  Record rstate := RS { r_root : Hsh; r_path : list Hsh; r_size : N }.
  (* NewRegularMerkleTree *)
  Definition rinit : rstate := RS hempty [] 0.

  (* for h < height: if (size>>h)&1 == 1 { cur = branchHash(appendPath[count] ++ cur); count++ } *)
  Fixpoint fold_root (bs : list bool) (path : list Hsh) (cur : Hsh) : option Hsh :=
    match bs with
    | [] => Some cur
    | false :: bs' => fold_root bs' path cur
    | true :: bs' => match path with
                     | [] => None
                     | p :: path' => fold_root bs' path' (hbranch p cur)
                     end
    end.

  (* for _, h := range bottomPath { cur = branchHash(h ++ cur) } *)
  Definition fold_bottom (bottom : list Hsh) (cur : Hsh) : Hsh :=
    fold_left (fun c h => hbranch h c) bottom cur.

  (* the tail shared by Append and the repaired CalculateRootFromAppendPath *)
  Definition next_path (bs : list bool) (path : list Hsh) (leaf : Hsh) : option (list Hsh) :=
    let k := trailing_ones bs in
    if Nat.ltb (length path) k then None
    else Some (fold_bottom (firstn k path) leaf :: skipn k path).

  Definition append (v : D) (s : rstate) : option rstate :=
    let leaf := hleaf v in
    if N.eqb (r_size s) 0 then Some (RS leaf (r_path s ++ [leaf]) 1)
    else
      let bs := nbits (r_size s) in
      match fold_root bs (r_path s) leaf with
      | None => None
      | Some root =>
        match next_path bs (r_path s) leaf with
        | None => None
        | Some p => Some (RS root p (r_size s + 1))
        end
      end.

  (* CalculateRootFromAppendPath(value, appendPath, size), repaired *)
  Definition predict (v : D) (path : list Hsh) (size : N) : option rstate :=
    let leaf := hleaf v in
    let bs := nbits size in
    match fold_root bs path leaf with
    | None => None
    | Some root =>
      match next_path bs path leaf with
      | None => None
      | Some p => Some (RS root p (size + 1))
      end
    end.

  (* the original: `for _, sibling := range appendPath` folds the whole path (and size 0 panics in intToBinary) *)
  Definition predict_buggy (v : D) (path : list Hsh) (size : N) : option rstate :=
    let leaf := hleaf v in
    let bs := nbits size in
    if N.eqb size 0 then None else
    match fold_root bs path leaf with
    | None => None
    | Some root =>
      let k := trailing_ones bs in
      if Nat.ltb (length path) k then None
      else Some (RS root (fold_bottom path leaf :: skipn k path) (size + 1))
    end.

  Fixpoint append_all (l : list D) (s : rstate) : option rstate :=
    match l with
    | [] => Some s
    | x :: t => match append x s with None => None | Some s' => append_all t s' end
    end.

  (* roots of the perfect sub-trees of the binary expansion of |l|, smallest sub-tree first:
     digit i set  <->  the last 2^i leaves not yet consumed form a perfect sub-tree *)
  Fixpoint chunk_roots (bs : list bool) (i : nat) (l : list D) : list Hsh :=
    match bs with
    | [] => []
    | false :: t => chunk_roots t (S i) l
    | true :: t => let k := length l - pow2 i in
                   mroot hempty hleaf hbranch (skipn k l) :: chunk_roots t (S i) (firstn k l)
    end.
  Definition subtree_roots (l : list D) : list Hsh := chunk_roots (nbits (N.of_nat (length l))) 0 l.
End Append.

Arguments RS {Hsh}.
Arguments r_root {Hsh}.
Arguments r_path {Hsh}.
Arguments r_size {Hsh}.
