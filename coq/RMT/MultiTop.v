(* C11 — multi-query completeness and multi-index update, top level: induction over the levels of the tree with the
   level lemmas for the prover (MultiGsh) and the verifier (MultiCpn). *)
From Coq Require Import List Arith NArith ZArith Lia Bool ZifyBool ZifyN ZifyNat.
From LE Require Import RMT.Root RMT.Append RMT.AppendProofs RMT.Proof RMT.NodeProofs RMT.IndexProofs RMT.ProofSound
                       RMT.ProofSoundTop RMT.ProofComplete RMT.ProofCompleteTop RMT.MultiLists RMT.MultiGsh RMT.MultiCpn.
Import ListNotations.
Local Open Scope N_scope.
Ltac Zify.zify_post_hook ::= Z.div_mod_to_equations.

Section Top.
  Variable n : N.
  Hypothesis Hok : size_ok n.
  Notation Hh := (get_height n).
  Context {D Hsh : Type}.
  Variable hempty : Hsh.
  Variable hleaf : D -> Hsh.
  Variable hbranch : Hsh -> Hsh -> Hsh.
  Variable heqb : Hsh -> Hsh -> bool.
  Hypothesis heqb_refl : forall a, heqb a a = true.
  Hypothesis heqb_eq : forall a b, heqb a b = true -> a = b.
  Variable lv : list D.
  Hypothesis Hlen : len lv = n.
  Notation nval := (nval hempty hleaf hbranch lv).
  Variable ps : list N.
  Hypothesis Hps : forall p, In p ps -> p < n.
  Hypothesis Hasc : asc ps.
  Hypothesis Hne : ps <> [].
  Variable node_at : N -> N -> option Hsh.
  Hypothesis Hna : forall k i, vnode n k i -> ~ act ps k i -> node_at k i = Some (nval k i).
  Notation act := (act ps).
  Notation X := (X n).
  Notation E := (fun k => E n (nval k) (2 ^ k)).
  Notation INV := (INV n hempty hleaf hbranch lv ps).

  Definition complete (k : N) (L : list N) : Prop := asc L /\ forall x, In x L <-> act k x.

  Fixpoint needs (d : nat) (k : N) (L : list N) : list Hsh :=
    match d with O => [] | S d' => E k L ++ needs d' (k + 1) (F [] L) end.

  Lemma Q_init : forall L, asc L -> Q L L.
  Proof.
    intros [|i r] Ha; [exact I|]. cbn [Q]. intros Hodd Hin. rewrite odd_mod2 in Hodd.
    assert (i <> 0) by (intros ->; cbn in Hodd; discriminate).
    destruct Hin as [E0|Hin]; [lia|]. destruct Ha as [Hi _]. pose proof (Hi _ Hin). lia.
  Qed.

  Lemma complete_next : forall k L, k + 1 < Hh -> complete k L -> complete (k + 1) (F [] L).
  Proof.
    intros k L Hk [Ha Hm]. split.
    - apply (F_asc (length L)); [lia|exact Ha|exact I|intros z i []].
    - intros y. rewrite (in_F (length L)) by lia. split.
      + intros [[]|(i & Hi & ->)]. apply (act_up n hempty hleaf hbranch heqb heqb_refl lv Hlen ps Hps node_at Hna). apply Hm. exact Hi.
      + intros (p & Hp & [A B]). right. exists (p / 2 ^ k). pose proof (pow2N_pos k) as Hpos. rewrite pow2_succ in A, B. split.
        * apply Hm. exists p. split; [exact Hp|]. unfold cov. set (q := 2 ^ k) in *. split; nia.
        * rewrite N.div_div by lia. apply (N.div_unique p (2 ^ k * 2) y (p - y * (2 * 2 ^ k))); lia.
  Qed.

  Lemma complete_vnode : forall k L, k < Hh -> complete k L -> forall x, In x L -> vnode n k x.
  Proof. intros k L Hk [_ Hm] x Hx. apply (act_vnode n hempty hleaf hbranch lv Hlen ps Hps node_at Hna); [exact Hk|apply Hm; exact Hx]. Qed.

  Lemma top_level : forall L, complete (Hh - 1) L -> L = [0].
  Proof.
    intros L HC. destruct (height_facts n Hok) as [Hh1 Hn].
    assert (H0 : forall x, In x L -> x = 0).
    { intros x Hx. pose proof (vnode_bound n _ _ Hok (complete_vnode (Hh - 1) L ltac:(lia) HC x Hx)) as B.
      replace (Hh - (Hh - 1) - 1) with 0 in B by lia. change (2 ^ 0) with 1 in B. lia. }
    assert (Hin : In 0 L).
    { destruct HC as [_ Hm]. apply Hm. destruct ps as [|p r]; [contradiction|]. exists p. split; [left; reflexivity|].
      unfold cov. pose proof (Hps p (or_introl eq_refl)). lia. }
    destruct HC as [Ha _]. destruct L as [|a [|b t]]; [destruct Hin|rewrite (H0 a (or_introl eq_refl)); reflexivity|].
    destruct Ha as [Hab _]. pose proof (Hab b (or_introl eq_refl)). rewrite (H0 a), (H0 b) in H; [lia|right; left; reflexivity|left; reflexivity].
  Qed.

  Lemma X_root : X (Hh - 1) 0 = 2.
  Proof. destruct (height_facts n Hok). unfold MultiGsh.X, nidx. replace (Hh - (Hh - 1)) with 1 by lia. reflexivity. Qed.

  (* ---- the prover over all levels ---- *)
  Lemma gsh_levels : forall d k L acc fuel m, k + 1 + N.of_nat d = Hh -> complete k L -> (length L <= m)%nat ->
    (S d * m + 1 <= fuel)%nat ->
    gsh node_at fuel n Hh (orig n ps) (map (X k) L) acc = Ok (acc ++ needs d k L).
  Proof.
    induction d; intros k L acc fuel m Hk HC Hl Hf.
    - replace k with (Hh - 1) in * by lia. rewrite (top_level L HC). cbn [map]. rewrite X_root.
      destruct fuel; [lia|]. cbn [gsh needs]. rewrite app_nil_r. reflexivity.
    - assert (Hk1 : k + 1 < Hh) by lia. destruct HC as [Ha Hm].
      assert (Hfu : (length L + (S d * m + 1) <= fuel)%nat) by (cbn in Hf |- *; nia).
      destruct (gsh_level n Hok hempty hleaf hbranch lv Hlen ps Hps node_at Hna (length L) k Hk1 L [] L [] acc fuel (S d * m + 1)%nat
                  (Nat.le_refl _) eq_refl Ha Hm (Q_init L Ha) I (fun z (H : In z []) => match H with end)
                  (fun z i (H : In z []) => match H with end) Hfu) as (fuel' & Hf' & Hrun).
      cbn [map] in Hrun. rewrite app_nil_r in Hrun. rewrite Hrun.
        rewrite (IHd (k + 1) (F [] L) (acc ++ E k L) fuel' m); [cbn [needs]; rewrite app_assoc; reflexivity|lia|apply complete_next; [exact Hk1|split; assumption]| |exact Hf'].
        pose proof (F_length (length L) L [] ltac:(lia)). cbn [length] in H. lia.
  Qed.

  Lemma root_real' : 2 <= Hh -> 2 ^ (Hh - 2) < n.
  Proof.
    intros H2. unfold get_height in *. destruct Hok as [H1 _].
    assert (Hn : 1 < n). { destruct (N.eq_dec n 1) as [->|]; [cbn in H2; lia|lia]. }
    pose proof (N.log2_up_spec n Hn) as [A _]. replace (N.log2_up n + 1 - 2) with (N.pred (N.log2_up n)) by lia. exact A.
  Qed.

  (* ---- the verifier over all levels ---- *)
  Lemma didx_root : didx n (Hh - 1) 0 = 2.
  Proof.
    destruct (height_facts n Hok) as [Hh1 _]. unfold didx.
    destruct (N.eq_dec Hh 1) as [E1|Hn1].
    - rewrite E1. change (1 - 1) with 0. rewrite dnode_0. unfold nidx. reflexivity.
    - replace (Hh - 1) with ((Hh - 2) + 1) by lia.
      rewrite (dnode_step n hempty hleaf hbranch heqb heqb_refl lv Hlen ps Hps node_at Hna (Hh - 2) 0) by lia.
      pose proof (root_real' ltac:(lia)) as R. destruct (N.ltb_spec ((2 * 0 + 1) * 2 ^ (Hh - 2)) n); [|lia].
      unfold nidx. replace (Hh - (Hh - 2 + 1)) with 1 by lia. reflexivity.
  Qed.

  Lemma cpn_levels : forall d k L res cache xs fuel m, k + 1 + N.of_nat d = Hh -> complete k L -> (length L <= m)%nat ->
    (S d * m + 1 <= fuel)%nat -> INV k L [] res cache ->
    exists resF, cpn hbranch heqb fuel n Hh (map (X k) L) res cache (needs d k L ++ xs) = Ok resF /\
                 lookup resF 2 = Some (mroot hempty hleaf hbranch lv).
  Proof.
    induction d; intros k L res cache xs fuel m Hk HC Hl Hf HI.
    - replace k with (Hh - 1) in * by lia. rewrite (top_level L HC) in *. cbn [map]. rewrite X_root.
      destruct fuel; [lia|]. cbn [cpn needs app]. exists res. split; [reflexivity|].
      destruct HI as (T1 & _ & _ & _ & V1 & _). destruct (V1 0 (or_introl eq_refl)) as [_ Hd]. rewrite didx_root in Hd.
      destruct (lookup res 2) as [r|] eqn:Er; [|contradiction]. f_equal.
      rewrite (T1 _ _ Er (Hh - 1) 0).
      + apply (root_value n Hok hempty hleaf hbranch lv Hlen).
      + destruct (height_facts n Hok). split; [split; [lia|destruct Hok; lia]|]. unfold nidx. replace (Hh - (Hh - 1)) with 1 by lia. reflexivity.
    - assert (Hk1 : k + 1 < Hh) by lia. destruct HC as [Ha Hm].
      assert (Hfu : (length L + (S d * m + 1) <= fuel)%nat) by (cbn in Hf |- *; nia).
      destruct (cpn_level n Hok hempty hleaf hbranch heqb heqb_refl lv Hlen ps Hps node_at Hna (length L) k Hk1 L [] L [] res cache
                  (needs d (k + 1) (F [] L) ++ xs) fuel (S d * m + 1)%nat
                  (Nat.le_refl _) eq_refl Ha Hm (Q_init L Ha) I (fun z (H : In z []) => match H with end)
                  (fun z i (H : In z []) => match H with end) HI Hfu) as (fuel' & res' & cache' & Hf' & Hrun & HI').
      cbn [map] in Hrun. rewrite app_nil_r in Hrun. cbn [needs]. rewrite <- app_assoc. rewrite Hrun.
        apply (IHd (k + 1) (F [] L) res' cache' xs fuel' m); [lia|apply complete_next; [exact Hk1|split; assumption]| |exact Hf'|exact HI'].
        pose proof (F_length (length L) L [] ltac:(lia)). cbn [length] in H. lia.
  Qed.

  (* ---- initial state of both loops ---- *)
  Notation idxs := (map (X 0) ps).
  Notation qs := (map (nval 0) ps).

  Lemma leaf_v : forall p, In p ps -> vnode n 0 p.
  Proof. intros p Hp. destruct (height_facts n Hok). split; [lia|]. rewrite N.pow_0_r. pose proof (Hps p Hp). lia. Qed.

  Lemma X0_lt : forall p q, vnode n 0 p -> vnode n 0 q -> p < q -> X 0 p < X 0 q /\ blen (X 0 p) = blen (X 0 q).
  Proof.
    intros p q Hp Hq Hlt. unfold MultiGsh.X. rewrite (blen_nidx n Hok 0 p Hp), (blen_nidx n Hok 0 q Hq). split; [unfold nidx; lia|reflexivity].
  Qed.

  Lemma sort_idx_X : forall r, asc r -> (forall p, In p r -> vnode n 0 p) -> sort_idx (map (X 0) r) = map (X 0) r.
  Proof.
    induction r as [|p r IH]; intros Ha Hv; [reflexivity|]. destruct Ha as [Hp Hr].
    cbn [map sort_idx fold_right]. fold (sort_idx (map (X 0) r)). rewrite IH; [|exact Hr|intros; apply Hv; right; assumption].
    destruct r as [|q r']; [reflexivity|]. cbn [map Proof.sort_ins].
    destruct (X0_lt p q (Hv p (or_introl eq_refl)) (Hv q (or_intror (or_introl eq_refl))) (Hp q (or_introl eq_refl))) as [Hlt Hb].
    unfold idx_lt. rewrite <- Hb, N.eqb_refl. assert (E0 : (X 0 q <? X 0 p) = false) by lia. rewrite E0. reflexivity.
  Qed.

  Lemma filter_X : forall r, (forall p, In p r -> vnode n 0 p) -> filter (fun i => negb (i =? 0)) (map (X 0) r) = map (X 0) r.
  Proof.
    induction r as [|p r IH]; intros Hv; [reflexivity|]. cbn [map filter].
    pose proof (nidx_ge2 n 0 p (Hv p (or_introl eq_refl))) as H2. unfold MultiGsh.X. assert (E0 : (nidx Hh 0 p =? 0) = false) by lia.
    rewrite E0. cbn [negb]. f_equal. apply IH. intros; apply Hv; right; assumption.
  Qed.

  Lemma nodup_X : forall r, asc r -> (forall p, In p r -> vnode n 0 p) -> NoDup (map (X 0) r).
  Proof.
    induction r as [|p r IH]; intros Ha Hv; [constructor|]. destruct Ha as [Hp Hr]. cbn [map]. constructor.
    - intros Hin. apply in_map_iff in Hin. destruct Hin as (q & E0 & Hq).
      destruct (X0_lt p q (Hv p (or_introl eq_refl)) (Hv q (or_intror Hq)) (Hp q Hq)). lia.
    - apply IH; [exact Hr|intros; apply Hv; right; assumption].
  Qed.

  Lemma init_ok : forall r acc, asc r -> (forall p, In p r -> vnode n 0 p) -> (forall p, In p r -> lookup acc (X 0 p) = None) ->
    exists res, init_result heqb (map (nval 0) r) (map (X 0) r) acc = Some res.
  Proof.
    induction r as [|p r IH]; intros acc Ha Hv Hn; [exists acc; reflexivity|]. destruct Ha as [Hp Hr].
    cbn [map init_result]. pose proof (nidx_ge2 n 0 p (Hv p (or_introl eq_refl))) as H2.
    assert (E0 : (X 0 p =? 0) = false) by (unfold MultiGsh.X; lia). rewrite E0. rewrite (Hn p (or_introl eq_refl)).
    apply IH; [exact Hr|intros; apply Hv; right; assumption|].
    intros q Hq. rewrite lookup_cons.
    destruct (X0_lt p q (Hv p (or_introl eq_refl)) (Hv q (or_intror Hq)) (Hp q Hq)).
    assert (E1 : (X 0 p =? X 0 q) = false) by lia. rewrite E1. apply Hn. right. exact Hq.
  Qed.

  Lemma complete0 : complete 0 ps.
  Proof.
    split; [exact Hasc|]. intros x. split.
    - intros Hx. exists x. split; [exact Hx|]. unfold cov. rewrite N.pow_0_r. lia.
    - intros (p & Hp & [A B]). rewrite N.pow_0_r in A, B. replace x with p by lia. exact Hp.
  Qed.

  Lemma INV0 : forall res0, init_result heqb qs idxs [] = Some res0 -> INV 0 ps [] res0 [].
  Proof.
    intros res0 Hi. destruct (init_result_spec n Hok heqb heqb_eq lv Hlen _ _ _ _ Hi) as (_ & B & C).
    assert (Hval : forall p, In p ps -> lookup res0 (X 0 p) = Some (nval 0 p)).
    { intros p Hp. apply In_nth_error in Hp. destruct Hp as [j Hj].
      apply (B j (X 0 p) (nval 0 p)); [apply map_nth_error; exact Hj|apply map_nth_error; exact Hj|].
      apply nth_error_In in Hj. pose proof (nidx_ge2 n 0 p (leaf_v p Hj)). unfold MultiGsh.X. lia. }
    assert (Hkey : forall Z h, lookup res0 Z = Some h -> exists p, In p ps /\ Z = X 0 p).
    { intros Z h Hl. destruct (C Z h Hl) as [[h' Hh']|[Hin _]]; [cbn in Hh'; discriminate|].
      apply in_map_iff in Hin. destruct Hin as (p & <- & Hp). exists p. auto. }
    split; [|split; [|split; [|split; [|split]]]].
    - intros Z h Hl k i N0. destruct (Hkey Z h Hl) as (p & Hp & ->). rewrite (Hval p Hp) in Hl. inversion Hl; subst h.
      destruct (isnode_inj n Hok _ _ _ _ _ N0 (conj (leaf_v p Hp) eq_refl)) as [-> ->]. reflexivity.
    - intros Z h Hl. cbn in Hl. discriminate.
    - intros Z h Hl. destruct (Hkey Z h Hl) as (p & Hp & ->). exists 0, p. split; [split; [apply leaf_v; exact Hp|reflexivity]|].
      split; [|left; reflexivity]. exists p. split; [exact Hp|]. unfold cov. rewrite N.pow_0_r. lia.
    - intros Z h Hl. cbn in Hl. discriminate.
    - intros p Hp. split.
      + unfold fv. rewrite (Hval p Hp). reflexivity.
      + unfold didx. rewrite dnode_0. fold (X 0 p). rewrite (Hval p Hp). discriminate.
    - intros z [].
  Qed.

  (* the sibling hashes read from [node_at] recompute, with the leaf values of lv at the positions ps, the root of lv *)
  Theorem multi_core :
    exists sibs, sibling_hashes node_at n idxs = Ok sibs /\
                 root_of (calc_path_nodes hbranch heqb qs n idxs sibs) = Ok (mroot hempty hleaf hbranch lv).
  Proof.
    destruct (height_facts n Hok) as [Hh1 _].
    set (d := N.to_nat (Hh - 1)). set (m := length ps).
    assert (Hfuel : (S d * m + 1 <= loop_fuel (length idxs) Hh)%nat).
    { unfold loop_fuel. rewrite map_length. fold m. unfold d. nia. }
    assert (Hv : forall p, In p ps -> vnode n 0 p) by exact leaf_v.
    exists (needs d 0 ps). split.
    - unfold sibling_hashes. rewrite (filter_X ps Hv), (sort_idx_X ps Hasc Hv).
      pose proof (gsh_levels d 0 ps [] (loop_fuel (length idxs) Hh) m ltac:(unfold d; lia) complete0 (Nat.le_refl _) Hfuel) as G.
      exact G.
    - unfold calc_path_nodes. rewrite !map_length, Nat.eqb_refl. cbn [negb].
      assert (E0 : Nat.eqb (length ps) 0 = false) by (destruct ps; [contradiction|reflexivity]). rewrite E0.
      destruct (init_ok ps [] Hasc Hv ltac:(intros; reflexivity)) as [res0 Hi]. rewrite Hi.
      rewrite (filter_X ps Hv). rewrite (nodup_fixed_point N.eq_dec (nodup_X ps Hasc Hv)). rewrite (sort_idx_X ps Hasc Hv).
      destruct (cpn_levels d 0 ps res0 [] [] (loop_fuel (length ps) Hh) m ltac:(unfold d; lia) complete0 (Nat.le_refl _)
                  ltac:(rewrite map_length in Hfuel; exact Hfuel) (INV0 res0 Hi)) as (resF & Hrun & Hroot).
      rewrite app_nil_r in Hrun. rewrite Hrun. unfold root_of. rewrite Hroot. reflexivity.
  Qed.
End Top.
