(* C17 — attempts per call as a count: attempt numbers are unique within a call (chain invariant), hence at most
   max_retries + 1 distinct attempts per call in every reachable state. *)
From Coq Require Import List NArith Bool Lia.
From LE Require Import P2P.ReqResp P2P.ReqRespProofs.
Import ListNotations.
Local Open Scope N_scope.

(* ---- attempts per call, as a count *)
Definition meta (s : state) (id : N) : option (N * N * bool) :=
  match get (reqs s) id with Some q => Some (call q, attempt q, retried q) | None => None end.

Definition creating (e : ev) : bool := match e with NewCall _ | Retry _ _ => true | _ => false end.

Lemma step_frame c s e s' : creating e = false -> step c s e = Some s' -> forall id, meta s' id = meta s id.
Proof.
  intros NC H id. unfold meta. destruct e; try discriminate NC; step_cases H; unf.
  all: try (destruct (get (reqs s) id) eqn:G;
            [destruct (note_arrival_fwd s (rid (tmsg t0)) _ _ G) as [q' [G' [_ [_ [_ [E1 [E2 E3]]]]]]] |
             assert (G' : get (note_arrival s (rid (tmsg t0))) id = None) by (rewrite note_arrival_get, G; reflexivity)]).
  all: gs; try reflexivity; try congruence.
  all: repeat match goal with Ha : get ?m ?k = Some _, Hb : get ?m ?k = Some _ |- _ =>
        tryif constr_eq Ha Hb then fail else (rewrite Ha in Hb; injection Hb; intros; subst; clear Hb) end.
  all: try (rewrite G' in *; gs).
  all: try solve [cbn; congruence | rewrite ?G'; cbn; congruence].
  all: try solve [repeat match goal with Hg : get _ _ = _ |- _ => rewrite Hg end; cbn; congruence].
Qed.

Ltac inv_somes := repeat match goal with H : Some _ = Some _ |- _ => inversion H; clear H end; subst.

Record chain_inv (s : state) : Prop := {
  (* an attempt number is used at most once per call *)
  ci_uniq : forall i1 i2 c a r1 r2, meta s i1 = Some (c, a, r1) -> meta s i2 = Some (c, a, r2) -> i1 = i2;
  (* the attempt request() is currently working on (not yet retried) is the latest of its call *)
  ci_last : forall i c a, meta s i = Some (c, a, false) -> forall i' a' r', meta s i' = Some (c, a', r') -> a' <= a;
  (* the first attempt of every call exists (the call is named after it) *)
  ci_root : forall i c a r, meta s i = Some (c, a, r) -> meta s c <> None
}.

Lemma chain_inv_ext s s' : (forall id, meta s' id = meta s id) -> chain_inv s -> chain_inv s'.
Proof.
  intros E [U L R]. split.
  - intros i1 i2 c a r1 r2. rewrite !E. apply U.
  - intros i c a H i' a' r'. rewrite E in H. rewrite E. eapply L; eauto.
  - intros i c a r. rewrite !E. apply R.
Qed.

Lemma meta_newcall s id : get (reqs s) id = None ->
  forall k, meta (s_req s id (new_req id 0)) k = if id =? k then Some (id, 0, false) else meta s k.
Proof. intros G k. unfold meta, s_req, s_reqs. cbn. destruct (id =? k); reflexivity. Qed.

Lemma chain_inv_reachable c s : reachable c s -> chain_inv s.
Proof.
  intros R. pattern s. eapply reachable_ind'; eauto; clear s R.
  - split; unfold meta; cbn; intros; discriminate.
  - intros s e s' R IH H. destruct (creating e) eqn:CR.
    2: { apply (chain_inv_ext s s'); auto. eapply step_frame; eauto. }
    destruct IH as [U L RT]. destruct e; try discriminate CR; clear CR.
    + (* NewCall *)
      cbn [step] in H. destruct (get (reqs s) id) eqn:G; try discriminate. injection H as <-.
      assert (NM : meta s id = None) by (unfold meta; rewrite G; reflexivity).
      assert (NC : forall i a r, meta s i <> Some (id, a, r)).
      { intros i a r M. apply RT in M. congruence. }
      split.
      * intros i1 i2 c0 a r1 r2. rewrite !meta_newcall by auto.
        destruct (id =? i1) eqn:E1, (id =? i2) eqn:E2; intros M1 M2.
        -- apply N.eqb_eq in E1, E2. congruence.
        -- inv_somes. exfalso. eapply NC; eauto.
        -- inv_somes. exfalso. eapply NC; eauto.
        -- eapply U; eauto.
      * intros i c0 a. rewrite meta_newcall by auto. intros M i' a' r'. rewrite meta_newcall by auto.
        destruct (id =? i) eqn:E1, (id =? i') eqn:E2; intros M'; inv_somes.
        -- lia.
        -- exfalso. eapply NC; eauto.
        -- exfalso. eapply NC; eauto.
        -- eapply L; eauto.
      * intros i c0 a r. rewrite !meta_newcall by auto. destruct (id =? i) eqn:E1, (id =? c0) eqn:E2; intros M; try discriminate.
        -- inv_somes. rewrite N.eqb_refl in E2. discriminate.
        -- eapply RT; eauto.
    + (* Retry *)
      cbn [step] in H. destruct (get (reqs s) old) as [q|] eqn:GO; try discriminate.
      destruct (get (reqs s) id) eqn:GI; try discriminate.
      destruct (is_timed_out (st q) && negb (retried q) && (attempt q <? max_retries c)) eqn:B; try discriminate.
      injection H as <-.
      apply andb_true_iff in B. destruct B as [B _]. apply andb_true_iff in B. destruct B as [_ B].
      apply negb_true_iff in B.
      assert (MO : meta s old = Some (call q, attempt q, false)) by (unfold meta; rewrite GO, B; reflexivity).
      assert (NE : old <> id) by congruence.
      assert (MM : forall k, meta (s_reqs s (set id (new_req (call q) (attempt q + 1)) (set old (w_retried q) (reqs s)))) k =
                   if id =? k then Some (call q, attempt q + 1, false)
                   else if old =? k then Some (call q, attempt q, true) else meta s k).
      { intros k. unfold meta, s_reqs. cbn. destruct (id =? k); auto. destruct (old =? k); auto. }
      assert (OI : (id =? old) = false) by (apply N.eqb_neq; auto).
      split.
      * intros i1 i2 c0 a r1 r2. rewrite !MM.
        destruct (id =? i1) eqn:E1, (id =? i2) eqn:E2, (old =? i1) eqn:E3, (old =? i2) eqn:E4; intros M1 M2;
          repeat match goal with E : (_ =? _) = true |- _ => apply N.eqb_eq in E end; try congruence; inv_somes; try lia.
        all: try solve [eapply U; eauto].
        all: try solve [match goal with M : meta _ _ = Some (call _, _, _) |- _ => pose proof (L _ _ _ MO _ _ _ M); lia end].
      * intros i c0 a. rewrite MM. intros M i' a' r'. rewrite MM.
        destruct (id =? i) eqn:E1, (old =? i) eqn:E3, (id =? i') eqn:E2, (old =? i') eqn:E4; intros M';
          try discriminate; inv_somes; try lia.
        all: try solve [match goal with M : meta _ _ = Some (call _, _, _) |- _ => pose proof (L _ _ _ MO _ _ _ M); lia end].
        all: try solve [eapply L; eauto].
        (* another unretried attempt i in old's call would be old itself *)
        all: exfalso; pose proof (L _ _ _ M _ _ _ MO); pose proof (L _ _ _ MO _ _ _ M);
             assert (a = attempt q) by lia; subst a; pose proof (U _ _ _ _ _ _ M MO); apply N.eqb_neq in E3; congruence.
      * intros i c0 a r. rewrite !MM.
        destruct (id =? i) eqn:E1, (old =? i) eqn:E3; intros M; inv_somes.
        all: repeat match goal with |- (if ?b then _ else _) <> None => destruct b; [discriminate|] end.
        all: eapply RT; eauto.
Qed.

Lemma nodup_map_inj {A B} (f : A -> B) (l : list A) :
  NoDup l -> (forall x y, In x l -> In y l -> f x = f y -> x = y) -> NoDup (map f l).
Proof.
  induction 1; intros Inj; cbn; constructor.
  - intros I. apply in_map_iff in I. destruct I as [y [E Iy]].
    assert (y = x) by (apply Inj; cbn; auto). subst. contradiction.
  - apply IHNoDup. intros a b Ia Ib. apply Inj; cbn; auto.
Qed.

(* bounded completion, counting form: in every reachable state, any set of distinct attempt IDs that belong to one call
   has at most max_retries + 1 elements *)
Lemma attempts_per_call_bounded c s : reachable c s -> forall cl l, NoDup l ->
  (forall id, In id l -> exists q, get (reqs s) id = Some q /\ call q = cl) ->
  (length l <= N.to_nat (max_retries c) + 1)%nat.
Proof.
  intros R cl l ND H. pose proof (chain_inv_reachable _ _ R) as [U _ _].
  set (f := fun id => match get (reqs s) id with Some q => N.to_nat (attempt q) | None => O end).
  assert (NDf : NoDup (map f l)).
  { apply nodup_map_inj; auto. intros x y Ix Iy E. destruct (H _ Ix) as [qx [Gx Cx]]. destruct (H _ Iy) as [qy [Gy Cy]].
    unfold f in E. rewrite Gx, Gy in E. apply N2Nat.inj in E.
    apply (U x y cl (attempt qx) (retried qx) (retried qy)); unfold meta; [rewrite Gx | rewrite Gy]; congruence. }
  assert (INC : incl (map f l) (seq 0 (N.to_nat (max_retries c) + 1))).
  { intros n I. apply in_map_iff in I. destruct I as [x [E Ix]]. destruct (H _ Ix) as [qx [Gx _]].
    unfold f in E. rewrite Gx in E. pose proof (inv_att _ _ R _ _ Gx). apply in_seq. lia. }
  pose proof (NoDup_incl_length NDf INC) as LE. rewrite map_length, seq_length in LE. exact LE.
Qed.
