(* C18 — RPC message rate limiting (pkg/p2p/ratelimit.go) and its use in onRequest/onResponse.
   rpcMessageCounters[proc].counters[peer] are Go ints keyed by procedure and peer ID: modelled as a total function with
   default 0 (a missing map entry reads as 0 in Go).  Events: a message of a registered procedure from a peer
   (increaseCounter followed by checkLimit), and the reset of all counters by rateLimiterHandler every interval. *)
From Coq Require Import List ZArith NArith Bool.
From LE Require Import P2P.Gater.
Import ListNotations.
Local Open Scope Z_scope.

Record limiter := mkRL {
  cnt : N -> N -> Z;       (* procedure -> peer -> messages counted in the current interval *)
  limit : N -> Z;          (* rpcMessageCounter.limit per procedure (default 100) *)
  penalty : N -> Z         (* rpcMessageCounter.penalty per procedure (default 10) *)
}.

Definition new_limiter (lim pen : N -> Z) : limiter := mkRL (fun _ _ => 0) lim pen.

(* increaseCounter; checkLimit: above the limit a penalty is applied and the counter of that peer restarts from 0.
   Returns the new limiter and the penalty amount, if any. *)
Definition on_msg (r : limiter) (proc peer : N) : limiter * option Z :=
  let c := cnt r proc peer + 1 in
  if limit r proc <? c
  then (mkRL (fun p q => if (p =? proc)%N && (q =? peer)%N then 0 else cnt r p q) (limit r) (penalty r), Some (penalty r proc))
  else (mkRL (fun p q => if (p =? proc)%N && (q =? peer)%N then c else cnt r p q) (limit r) (penalty r), None).

(* rateLimiterHandler tick *)
Definition reset (r : limiter) : limiter := mkRL (fun _ _ => 0) (limit r) (penalty r).

Inductive rev := RMsg (proc peer : N) | RReset.

(* run a sequence; collect the penalties (procedure, peer, amount) in order *)
Fixpoint rrun (r : limiter) (es : list rev) : limiter * list (N * N * Z) :=
  match es with
  | [] => (r, [])
  | RMsg proc peer :: es' =>
      let '(r', p) := on_msg r proc peer in
      let '(r'', ps) := rrun r' es' in
      (r'', match p with Some a => (proc, peer, a) :: ps | None => ps end)
  | RReset :: es' => rrun (reset r) es'
  end.

(* declarative side: number of messages of (proc, peer) since the last reset, reading the trace backwards from its end *)
Fixpoint since_reset (proc peer : N) (rev_es : list rev) : Z :=
  match rev_es with
  | [] => 0
  | RReset :: _ => 0
  | RMsg p q :: es' => (if (p =? proc)%N && (q =? peer)%N then 1 else 0) + since_reset proc peer es'
  end.

(* legal traffic: at every moment, no (procedure, peer) has sent more than the limit within the current interval *)
Definition legal (lim : N -> Z) (es : list rev) : Prop :=
  forall pre post, es = pre ++ post -> forall proc peer, since_reset proc peer (List.rev pre) <= lim proc.

(* ---- the message path of onRequest / onResponse on top of a node (Gater.v) *)
Record mnode := mkMN { nd : node; rl : limiter }.

(* a message of class [cls] from peer [pid] at IP [ip]; [known proc] = a handler is registered *)
Definition on_message (addr_has_pid : bool) (known : N -> bool) (m : mnode) (pid ip : N) (cls : msg_class) (now : Z) : mnode :=
  match cls with
  | Malformed | UnknownProcedure => mkMN (on_bad_message addr_has_pid (nd m) pid ip now) (rl m)
  | WellFormed proc =>
      if known proc then
        let '(r', p) := on_msg (rl m) proc pid in
        match p with
        | Some a => mkMN (peer_add_penalty (nd m) (ip, Some pid) a now) r'   (* checkLimit appends /p2p/<pid> itself *)
        | None => mkMN (nd m) r'
        end
      else mkMN (on_bad_message addr_has_pid (nd m) pid ip now) (rl m)
  end.

(* ---- finer granularity: increaseCounter and checkLimit are TWO critical sections of rpcMessageCounter.mu; goroutines handling
   different messages interleave between them *)
Definition inc (r : limiter) (proc peer : N) : limiter :=
  mkRL (fun p q => if (p =? proc)%N && (q =? peer)%N then cnt r proc peer + 1 else cnt r p q) (limit r) (penalty r).
Definition check (r : limiter) (proc peer : N) : limiter * option Z :=
  if limit r proc <? cnt r proc peer
  then (mkRL (fun p q => if (p =? proc)%N && (q =? peer)%N then 0 else cnt r p q) (limit r) (penalty r), Some (penalty r proc))
  else (r, None).

Inductive iev := IInc (proc peer : N) | ICheck (proc peer : N) | IReset.

Fixpoint irun (r : limiter) (es : list iev) : limiter * list (N * N * Z) :=
  match es with
  | [] => (r, [])
  | IInc p q :: es' => irun (inc r p q) es'
  | ICheck p q :: es' =>
      let '(r', pen) := check r p q in
      let '(r'', ps) := irun r' es' in
      (r'', match pen with Some a => (p, q, a) :: ps | None => ps end)
  | IReset :: es' => irun (reset r) es'
  end.

(* increments of (proc, peer) since the last reset, reading the trace backwards *)
Fixpoint incs_since_reset (proc peer : N) (rev_es : list iev) : Z :=
  match rev_es with
  | [] => 0
  | IReset :: _ => 0
  | IInc p q :: es' => (if (p =? proc)%N && (q =? peer)%N then 1 else 0) + incs_since_reset proc peer es'
  | ICheck _ _ :: es' => incs_since_reset proc peer es'
  end.

Definition ilegal (lim : N -> Z) (es : list iev) : Prop :=
  forall pre post, es = pre ++ post -> forall proc peer, incs_since_reset proc peer (List.rev pre) <= lim proc.
