(* C18 — connection gater and peer penalties (pkg/p2p/conngater.go, peer.go addPenalty/banPeer, p2p.go ApplyPenalty/BanPeer,
   message_protocol.go ban sites).

   connectionGater.peerScore and blockedAddrs are Go maps keyed by ip.String(); they are modelled as finite partial
   functions from an opaque IP key (N: IPv4 and IPv6 addresses alike, canonicalised by net.IP.String()) — a computable
   function, so the model runs under vm_compute.  Time (time.Now().Unix()) and the periodic sweep of the ticker goroutine
   are explicit event parameters.  Scores are Go ints (64 bit); the model uses Z and assumes no overflow (penalties are
   small constants).  Every method body runs under cg.mutex, so each event is atomic. *)
From Coq Require Import List ZArith NArith Bool.
Import ListNotations.
Local Open Scope Z_scope.

Definition max_penalty : Z := 100.   (* MaxPenaltyScore *)

Record pinfo := mkInfo { score : Z; expiration : Z }.   (* expiration = -1: not banned *)

Record gater := mkG {
  sc : N -> option pinfo;    (* peerScore *)
  blk : N -> bool;           (* blockedAddrs *)
  exp_secs : Z;              (* int64(cg.expiration.Seconds()) *)
  started : bool
}.

Definition empty_gater (e : Z) : gater := mkG (fun _ => None) (fun _ => false) e true.

Definition score_of (g : gater) (ip : N) : Z := match sc g ip with Some i => score i | None => 0 end.
Definition banned (g : gater) (ip : N) : bool :=
  match sc g ip with Some i => negb (expiration i =? -1) | None => false end.
Definition expiry_of (g : gater) (ip : N) : Z := match sc g ip with Some i => expiration i | None => -1 end.

(* connectionGater.addPenalty for an address whose IP is [ip]; returns the new state and the new score.
   (When the gater is not started or the address has no IP the Go code returns an error and changes nothing:
   see [add_penalty_addr].) *)
Definition add_penalty (g : gater) (ip : N) (amt now : Z) : gater * Z :=
  let newScore := match sc g ip with Some i => score i + amt | None => amt end in
  let exp0 := match sc g ip with Some i => expiration i | None => -1 end in
  let exp1 := if max_penalty <=? newScore then now + exp_secs g else exp0 in
  (mkG (fun k => if (k =? ip)%N then Some (mkInfo newScore exp1) else sc g k) (blk g) (exp_secs g) (started g), newScore).

Definition add_penalty_addr (g : gater) (a : option N) (amt now : Z) : gater * option Z :=
  if started g then
    match a with
    | Some ip => let '(g', n) := add_penalty g ip amt now in (g', Some n)
    | None => (g, None)
    end
  else (g, None).

(* one pass of the ticker goroutine at time [now] *)
Definition sweep (g : gater) (now : Z) : gater :=
  mkG (fun k => match sc g k with
                | Some i => if negb (expiration i =? -1) && (expiration i <? now) then None else Some i
                | None => None
                end) (blk g) (exp_secs g) (started g).

Definition block (g : gater) (ip : N) : gater :=
  mkG (sc g) (fun k => if (k =? ip)%N then true else blk g k) (exp_secs g) (started g).
Definition unblock (g : gater) (ip : N) : gater :=
  mkG (sc g) (fun k => if (k =? ip)%N then false else blk g k) (exp_secs g) (started g).

(* isPeerConnectionAllowed: an address without an IP component is always allowed *)
Definition allowed (g : gater) (a : option N) : bool :=
  match a with
  | None => true
  | Some ip => negb (blk g ip) && negb (banned g ip)
  end.

Inductive direction := Inbound | Outbound.

(* the ConnectionGater interface of libp2p *)
Definition intercept_peer_dial (g : gater) : bool := true.
Definition intercept_addr_dial (g : gater) (a : option N) : bool := allowed g a.
Definition intercept_accept (g : gater) (a : option N) : bool := allowed g a.
Definition intercept_secured (g : gater) (d : direction) (a : option N) : bool :=
  match d with Outbound => true | Inbound => allowed g a end.
Definition intercept_upgraded (g : gater) : bool := true.

(* a connection is established only if every gate on its path lets it through (libp2p swarm/upgrader) *)
Definition outbound_ok (g : gater) (a : option N) : bool :=
  intercept_peer_dial g && intercept_addr_dial g a && intercept_secured g Outbound a && intercept_upgraded g.
Definition inbound_ok (g : gater) (a : option N) : bool :=
  intercept_accept g a && intercept_secured g Inbound a && intercept_upgraded g.

Inductive gev :=
| EPenalty (ip : N) (amt now : Z)
| ESweep (now : Z)
| EBlock (ip : N)
| EUnblock (ip : N).

Definition gstep (g : gater) (e : gev) : gater :=
  match e with
  | EPenalty ip amt now => fst (add_penalty g ip amt now)
  | ESweep now => sweep g now
  | EBlock ip => block g ip
  | EUnblock ip => unblock g ip
  end.

Definition grun (g : gater) (es : list gev) : gater := fold_left gstep es g.

Fixpoint pen_sum (ip : N) (es : list gev) : Z :=
  match es with
  | [] => 0
  | EPenalty ip' amt _ :: es' => (if (ip' =? ip)%N then amt else 0) + pen_sum ip es'
  | _ :: es' => pen_sum ip es'
  end.

Definition no_sweep (es : list gev) : Prop := forall now, ~ In (ESweep now) es.
Definition nonneg (es : list gev) : Prop := forall ip amt now, In (EPenalty ip amt now) es -> 0 <= amt.

(* events that cannot end a ban that lasts at least until T *)
Definition respects (ip : N) (T : Z) (g : gater) (e : gev) : Prop :=
  match e with
  | ESweep now => now <= T
  | EPenalty ip' _ now => ip' = ip -> T <= now + exp_secs g
  | _ => True
  end.

Definition banned_until (g : gater) (ip : N) (T : Z) : Prop :=
  exists i, sc g ip = Some i /\ expiration i <> -1 /\ T <= expiration i.

(* ---------------- node level: Peer.addPenalty / Peer.banPeer / Connection.ApplyPenalty / BanPeer and the message protocol *)

Record node := mkNode { gt : gater; conns : list (N * N) (* (peer ID, IP) of open connections *) }.

Definition disconnect (cs : list (N * N)) (pid : N) : list (N * N) := filter (fun c => negb (fst c =? pid)%N) cs.
Definition connected (n : node) (pid : N) : bool := existsb (fun c => (fst c =? pid)%N) (conns n).

(* an address handed to addPenalty/banPeer: its IP and, if it has a /p2p/ component, the peer ID *)
Definition maddr : Type := (N * option N)%type.

(* Peer.addPenalty(addr, score): Disconnect only when the threshold is reached and the address names the peer *)
Definition peer_add_penalty (n : node) (a : maddr) (amt now : Z) : node :=
  let '(g', ns) := add_penalty (gt n) (fst a) amt now in
  if max_penalty <=? ns then
    match snd a with
    | Some pid => mkNode g' (disconnect (conns n) pid)
    | None => mkNode g' (conns n)            (* AddrInfoFromMultiAddr fails: error, no Disconnect *)
    end
  else mkNode g' (conns n).

(* Peer.banPeer(addr) *)
Definition peer_ban (n : node) (a : maddr) (now : Z) : node :=
  let '(g', _) := add_penalty (gt n) (fst a) max_penalty now in
  match snd a with
  | Some pid => mkNode g' (disconnect (conns n) pid)
  | None => mkNode g' (conns n)
  end.

(* Connection.ApplyPenalty(pid, score) / BanPeer(pid): for every connection of pid (snapshot), addr = remote + /p2p/pid *)
Definition apply_penalty (n : node) (pid : N) (amt now : Z) : node :=
  fold_left (fun n' c => peer_add_penalty n' (snd c, Some pid) amt now)
            (filter (fun c => (fst c =? pid)%N) (conns n)) n.
Definition ban_peer_id (n : node) (pid : N) (now : Z) : node :=
  fold_left (fun n' c => peer_ban n' (snd c, Some pid) now)
            (filter (fun c => (fst c =? pid)%N) (conns n)) n.

(* classes of a received request/response envelope *)
Inductive msg_class := Malformed | UnknownProcedure | WellFormed (proc : N).

(* [addr_has_pid]: the address handed to banPeer by onRequest/onResponse carries the /p2p/ component
   (false = code before the fix commit: bare RemoteMultiaddr) *)
Definition on_bad_message (addr_has_pid : bool) (n : node) (pid ip : N) (now : Z) : node :=
  peer_ban n (ip, if addr_has_pid then Some pid else None) now.

(* a connection attempt passes the gates and is recorded *)
Definition connect_in (n : node) (pid ip : N) : node :=
  if inbound_ok (gt n) (Some ip) then mkNode (gt n) ((pid, ip) :: conns n) else n.
Definition connect_out (n : node) (pid ip : N) : node :=
  if outbound_ok (gt n) (Some ip) then mkNode (gt n) ((pid, ip) :: conns n) else n.
