(* C18 — proofs about the rate limiter model (P2P/RateLimit.v). *)
From Coq Require Import List ZArith NArith Bool Lia.
From LE Require Import P2P.Gater P2P.GaterProofs P2P.RateLimit.
Import ListNotations.
Local Open Scope Z_scope.

Lemma on_msg_params r proc peer : limit (fst (on_msg r proc peer)) = limit r /\ penalty (fst (on_msg r proc peer)) = penalty r.
Proof. unfold on_msg. destruct (limit r proc <? cnt r proc peer + 1); cbn; auto. Qed.

Definition tracks (r : limiter) (pre : list rev) : Prop := forall p q, cnt r p q = since_reset p q (List.rev pre).

Lemma legal_prefix lim pre e es : legal lim (pre ++ e :: es) -> forall proc peer, since_reset proc peer (List.rev (pre ++ [e])) <= lim proc.
Proof. intros L proc peer. apply (L (pre ++ [e]) es). rewrite <- app_assoc. reflexivity. Qed.

Lemma legal_no_penalty_gen es : forall pre r, tracks r pre -> legal (limit r) (pre ++ es) ->
  snd (rrun r es) = [] /\ tracks (fst (rrun r es)) (pre ++ es).
Proof.
  induction es as [|e es IH]; intros pre r T L.
  - cbn. rewrite app_nil_r. auto.
  - replace (pre ++ e :: es) with ((pre ++ [e]) ++ es) in * by (rewrite <- app_assoc; reflexivity).
    destruct e as [proc peer|].
    + cbn [rrun]. destruct (on_msg r proc peer) as [r' p] eqn:O.
      assert (LP := legal_prefix (limit r) pre (RMsg proc peer) es).
      rewrite <- app_assoc in L. specialize (LP L proc peer). rewrite rev_app_distr in LP. cbn [List.rev app since_reset] in LP.
      rewrite !N.eqb_refl in LP. cbn [andb] in LP. rewrite <- (T proc peer) in LP.
      unfold on_msg in O. assert (limit r proc <? cnt r proc peer + 1 = false) as E by (apply Z.ltb_ge; lia).
      rewrite E in O. injection O as <- <-.
      match goal with |- context [rrun ?rr es] => destruct (IH (pre ++ [RMsg proc peer]) rr) as [P1 P2] end.
      * intros p q. rewrite rev_app_distr. cbn [List.rev app since_reset cnt]. destruct ((p =? proc)%N && (q =? peer)%N) eqn:B.
        -- apply andb_true_iff in B. destruct B as [B1 B2]. apply N.eqb_eq in B1, B2. subst.
           rewrite !N.eqb_refl. cbn [andb]. rewrite (T proc peer). lia.
        -- rewrite (T p q). replace ((proc =? p)%N && (peer =? q)%N) with false; [lia|].
           rewrite (N.eqb_sym proc p), (N.eqb_sym peer q). auto.
      * cbn [limit]. rewrite <- app_assoc. exact L.
      * match goal with |- context [rrun ?rr es] => destruct (rrun rr es) as [r'' ps] end. auto.
    + cbn [rrun]. destruct (IH (pre ++ [RReset]) (reset r)) as [P1 P2].
      * intros p q. rewrite rev_app_distr. cbn. reflexivity.
      * exact L.
      * auto.
Qed.

(* well-formed traffic within the limits (per procedure, peer and interval) is never penalised *)
Lemma legal_traffic_never_penalised lim pen es : legal lim es -> snd (rrun (new_limiter lim pen) es) = [].
Proof.
  intros L. destruct (legal_no_penalty_gen es [] (new_limiter lim pen)) as [P _]; auto.
  intros p q. reflexivity.
Qed.

Lemma rrun_app es1 : forall r es2,
  rrun r (es1 ++ es2) = let '(r1, p1) := rrun r es1 in let '(r2, p2) := rrun r1 es2 in (r2, p1 ++ p2).
Proof.
  induction es1 as [|e es1 IH]; intros r es2; cbn [app rrun].
  - destruct (rrun r es2). reflexivity.
  - destruct e.
    + destruct (on_msg r proc peer) as [r' p]. rewrite IH. destruct (rrun r' es1) as [r1 p1].
      destruct (rrun r1 es2) as [r2 p2]. destruct p; reflexivity.
    + rewrite IH. reflexivity.
Qed.

Lemma rrun_params es : forall r, limit (fst (rrun r es)) = limit r /\ penalty (fst (rrun r es)) = penalty r.
Proof.
  induction es as [|e es IH]; intros r; cbn [rrun]; auto. destruct e.
  - pose proof (on_msg_params r proc peer) as [C D]. destruct (on_msg r proc peer) as [ra p]. cbn in C, D.
    specialize (IH ra). destruct (rrun ra es) as [rb ps]. cbn in *. split; destruct IH; congruence.
  - destruct (IH (reset r)) as [A B]. auto.
Qed.

(* the message after [limit] messages of the same procedure and peer within one interval is penalised *)
Lemma excess_leads_to_penalty lim pen pre proc peer : legal lim pre -> since_reset proc peer (List.rev pre) = lim proc ->
  snd (rrun (new_limiter lim pen) (pre ++ [RMsg proc peer])) = [(proc, peer, pen proc)].
Proof.
  intros L S. rewrite rrun_app.
  destruct (legal_no_penalty_gen pre [] (new_limiter lim pen)) as [P T]; auto. { intros p q; reflexivity. }
  cbn [app] in T. destruct (rrun (new_limiter lim pen) pre) as [r1 p1] eqn:R. cbn in P, T. subst p1.
  assert (LP : limit r1 = lim /\ penalty r1 = pen).
  { pose proof (rrun_params pre (new_limiter lim pen)) as X. rewrite R in X. exact X. }
  destruct LP as [L1 L2]. cbn [rrun]. unfold on_msg. rewrite (T proc peer), S, L1, L2.
  assert (lim proc <? lim proc + 1 = true) as -> by (apply Z.ltb_lt; lia). cbn. reflexivity.
Qed.

(* ---- message path *)

(* a well-formed message of a known procedure within the limit changes neither scores nor connections *)
Lemma legal_message_no_penalty ahp known m pid ip proc now : known proc = true ->
  cnt (rl m) proc pid + 1 <= limit (rl m) proc -> nd (on_message ahp known m pid ip (WellFormed proc) now) = nd m.
Proof.
  intros K H. unfold on_message. rewrite K. unfold on_msg.
  assert (limit (rl m) proc <? cnt (rl m) proc pid + 1 = false) as -> by (apply Z.ltb_ge; lia). reflexivity.
Qed.

(* malformed envelope, unknown procedure: ban of the IP and disconnect of the peer (repaired code) *)
Lemma malformed_leads_to_penalty known m pid ip cls now :
  (cls = Malformed \/ cls = UnknownProcedure \/ exists proc, cls = WellFormed proc /\ known proc = false) ->
  0 <= score_of (gt (nd m)) ip -> now + exp_secs (gt (nd m)) <> -1 ->
  let m' := on_message true known m pid ip cls now in
  banned (gt (nd m')) ip = true /\ connected (nd m') pid = false /\
  score_of (gt (nd m')) ip = score_of (gt (nd m)) ip + max_penalty.
Proof.
  intros C S NE. cbn zeta.
  assert (E : on_message true known m pid ip cls now = mkMN (on_bad_message true (nd m) pid ip now) (rl m)).
  { destruct C as [->|[->|[proc [-> K]]]]; cbn; auto. rewrite K. auto. }
  rewrite E. cbn [nd]. apply bad_message_bans_and_disconnects; auto.
Qed.

(* a request rate above the limit: the configured penalty is added to the sender's IP *)
Lemma rate_excess_leads_to_penalty ahp known m pid ip proc now : known proc = true ->
  limit (rl m) proc < cnt (rl m) proc pid + 1 ->
  score_of (gt (nd (on_message ahp known m pid ip (WellFormed proc) now))) ip = score_of (gt (nd m)) ip + penalty (rl m) proc.
Proof.
  intros K H. unfold on_message. rewrite K. unfold on_msg.
  assert (limit (rl m) proc <? cnt (rl m) proc pid + 1 = true) as -> by (apply Z.ltb_lt; lia). cbn [nd].
  unfold peer_add_penalty. cbn [fst snd].
  pose proof (add_penalty_score (gt (nd m)) ip (penalty (rl m) proc) now) as [_ [S _]].
  destruct (add_penalty (gt (nd m)) ip (penalty (rl m) proc) now) as [g' ns]. cbn in S.
  destruct (max_penalty <=? ns); cbn; auto.
Qed.

(* ---- interleaved traffic: the penalties of a (procedure, peer) pair depend only on that pair's own messages and the resets *)
Definition is_pair (proc peer : N) (e : rev) : bool :=
  match e with RMsg p q => (p =? proc)%N && (q =? peer)%N | RReset => true end.
Definition project (proc peer : N) (es : list rev) : list rev := filter (is_pair proc peer) es.
Definition pen_of (proc peer : N) (x : N * N * Z) : bool := let '(p, q, _) := x in (p =? proc)%N && (q =? peer)%N.

Lemma on_msg_other r p q proc peer : (p =? proc)%N && (q =? peer)%N = false ->
  cnt (fst (on_msg r p q)) proc peer = cnt r proc peer.
Proof.
  intros H. unfold on_msg. rewrite (N.eqb_sym p proc), (N.eqb_sym q peer) in H.
  destruct (limit r p <? cnt r p q + 1); cbn; rewrite H; reflexivity.
Qed.

Lemma pairwise_independent es : forall proc peer r r',
  cnt r proc peer = cnt r' proc peer -> limit r = limit r' -> penalty r = penalty r' ->
  filter (pen_of proc peer) (snd (rrun r es)) = snd (rrun r' (project proc peer es)).
Proof.
  induction es as [|e es IH]; intros proc peer r r' C L P; cbn [rrun project filter]; auto.
  destruct e as [p q|]; cbn [is_pair].
  - destruct ((p =? proc)%N && (q =? peer)%N) eqn:B.
    + apply andb_true_iff in B. destruct B as [B1 B2]. apply N.eqb_eq in B1, B2. subst p q. cbn [rrun].
      unfold on_msg. rewrite <- C, <- L, <- P.
      destruct (limit r proc <? cnt r proc peer + 1).
      * match goal with |- context [rrun ?a es] => match goal with |- context [rrun ?b (filter _ es)] =>
          specialize (IH proc peer a b) end end.
        cbn in IH. rewrite !N.eqb_refl in IH. cbn in IH. specialize (IH eq_refl eq_refl eq_refl).
        destruct (rrun _ es) as [ra pa]. unfold project in IH. destruct (rrun _ (filter _ es)) as [rb pb].
        cbn in *. rewrite !N.eqb_refl. cbn. f_equal. exact IH.
      * match goal with |- context [rrun ?a es] => match goal with |- context [rrun ?b (filter _ es)] =>
          specialize (IH proc peer a b) end end.
        cbn in IH. rewrite !N.eqb_refl in IH. cbn in IH. specialize (IH eq_refl eq_refl eq_refl).
        destruct (rrun _ es) as [ra pa]. unfold project in IH. destruct (rrun _ (filter _ es)) as [rb pb].
        cbn in *. exact IH.
    + pose proof (on_msg_other r p q proc peer B) as O. pose proof (on_msg_params r p q) as [L' P'].
      destruct (on_msg r p q) as [ra pe]. cbn in O, L', P'.
      specialize (IH proc peer ra r'). rewrite O in IH. specialize (IH C (eq_trans L' L) (eq_trans P' P)).
      destruct (rrun ra es) as [rb ps]. cbn in *. destruct pe; cbn; [rewrite B|]; exact IH.
  - apply IH; cbn; auto.
Qed.

(* one pair, no reset: n messages starting from counter c0 give exactly (c0 + n) / (limit + 1) penalties *)
Lemma single_pair_count n : forall r proc peer, 0 <= cnt r proc peer <= limit r proc ->
  let '(r', ps) := rrun r (repeat (RMsg proc peer) n) in
  exists c, cnt r' proc peer = c /\ 0 <= c <= limit r proc /\
            cnt r proc peer + Z.of_nat n = Z.of_nat (length ps) * (limit r proc + 1) + c /\
            Forall (fun x => x = (proc, peer, penalty r proc)) ps.
Proof.
  induction n; intros r proc peer H.
  - cbn. exists (cnt r proc peer). repeat split; try lia. constructor.
  - cbn [repeat rrun]. pose proof (on_msg_params r proc peer) as [LP PP]. unfold on_msg in *.
    destruct (limit r proc <? cnt r proc peer + 1) eqn:E.
    + apply Z.ltb_lt in E. cbn in LP, PP.
      match goal with |- context [rrun ?a _] => specialize (IHn a proc peer) end.
      cbn [cnt limit] in IHn. rewrite !N.eqb_refl in IHn. cbn in IHn.
      destruct (rrun _ (repeat (RMsg proc peer) n)) as [r' ps]. destruct IHn as [c [C1 [C2 [C3 C4]]]]; try lia.
      exists c. cbn [length]. repeat split; auto; try lia.
    + apply Z.ltb_ge in E. cbn in LP, PP.
      match goal with |- context [rrun ?a _] => specialize (IHn a proc peer) end.
      cbn [cnt limit] in IHn. rewrite !N.eqb_refl in IHn. cbn in IHn.
      destruct (rrun _ (repeat (RMsg proc peer) n)) as [r' ps]. destruct IHn as [c [C1 [C2 [C3 C4]]]]; try lia.
      exists c. repeat split; auto; try lia.
Qed.

(* ---- two critical sections per message, all interleavings *)
Lemma on_msg_penalty_split r proc peer : snd (on_msg r proc peer) = snd (check (inc r proc peer) proc peer).
Proof. unfold on_msg, check, inc; cbn. rewrite !N.eqb_refl; cbn. destruct (limit r proc <? cnt r proc peer + 1); auto. Qed.

Lemma on_msg_cnt_split r proc peer p q : cnt (fst (on_msg r proc peer)) p q = cnt (fst (check (inc r proc peer) proc peer)) p q.
Proof.
  unfold on_msg, check, inc; cbn. rewrite !N.eqb_refl; cbn.
  destruct (limit r proc <? cnt r proc peer + 1); cbn; auto. destruct ((p =? proc)%N && (q =? peer)%N); auto.
Qed.

Definition below (r : limiter) (pre : list iev) : Prop := forall p q, cnt r p q <= incs_since_reset p q (List.rev pre).

Lemma ilegal_no_penalty_gen es : forall pre r, below r pre -> ilegal (limit r) (pre ++ es) ->
  snd (irun r es) = [].
Proof.
  induction es as [|e es IH]; intros pre r B L; cbn [irun]; auto.
  assert (L' : ilegal (limit r) ((pre ++ [e]) ++ es)) by (rewrite <- app_assoc; exact L).
  destruct e as [p q|p q|].
  - apply (IH (pre ++ [IInc p q])); auto.
    intros a b. rewrite rev_app_distr. cbn [List.rev app incs_since_reset inc cnt].
    destruct ((a =? p)%N && (b =? q)%N) eqn:E.
    + apply andb_true_iff in E. destruct E as [E1 E2]. apply N.eqb_eq in E1, E2. subst. rewrite !N.eqb_refl. cbn [andb].
      specialize (B p q). lia.
    + rewrite (N.eqb_sym p a), (N.eqb_sym q b), E. specialize (B a b). lia.
  - unfold check.
    assert (NP : limit r p <? cnt r p q = false).
    { apply Z.ltb_ge. specialize (B p q). pose proof (L pre (ICheck p q :: es) eq_refl p q). lia. }
    rewrite NP. specialize (IH (pre ++ [ICheck p q]) r).
    destruct (irun r es) as [r'' ps]. cbn in *. apply IH; auto.
    intros a b. rewrite rev_app_distr. cbn. apply B.
  - apply (IH (pre ++ [IReset])); auto.
    intros a b. rewrite rev_app_distr. cbn. lia.
Qed.

(* well-formed traffic within the limits is never penalised, whatever the interleaving of the goroutines between increaseCounter
   and checkLimit (the checks may come in any order, late, doubled or not at all) *)
Lemma legal_traffic_never_penalised_interleaved lim pen es : ilegal lim es -> snd (irun (new_limiter lim pen) es) = [].
Proof. intros L. apply (ilegal_no_penalty_gen es []); auto. intros p q. cbn. lia. Qed.
