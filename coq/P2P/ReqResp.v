(* C17 — P2P request/response layer (pkg/p2p/message_protocol.go: request, sendRequestMessage, onResponse).

   A labelled transition system over an unbounded set of request IDs (one fresh ID per attempt, as
   newRequestMessage draws a fresh UUID for every sendRequestMessage call), the shared table resCh, the
   mutex resMu, and one goroutine per received response message (libp2p stream handler onResponse).

   The model is parametrised by the *skeleton facts* of the code (record [cfg]): whether the channel is
   registered before the request is sent, whether the channel is buffered, whether onResponse delivers with a
   non-blocking send, whether the timeout branch drains the channel after deregistration, and the retry
   budget.  [orig] is the code before the fix commit, [fixed] the repaired code; coq/Gen/ReqResp.v
   (regenerated from the Go source by translate/reqresp) must compute to [fixed].

   Granularity.  The requester's critical sections (Lock; one map write; Unlock) contain no blocking
   operation (checked by the translator), so each is one atomic event that needs resMu free.  onResponse's
   critical section contains a channel send, so it is split: [Lock t] acquires resMu, [Deliver t] does
   lookup + send + (deferred) Unlock and is *not enabled* while the send would block.  Environment events
   (a response message arrives, a timer fires, a context is cancelled, a send fails) are unconstrained. *)
From Coq Require Import List NArith Bool String.
Import ListNotations.
Local Open Scope N_scope.

Record cfg := mkCfg {
  reg_first : bool;      (* resCh[id] = ch is executed before mp.send *)
  cap1 : bool;           (* make(chan *Response, 1); false = unbuffered *)
  nb_send : bool;        (* onResponse: select { case ch <- r: default: } *)
  drain : bool;          (* timeout branch: after delete, non-blocking receive from ch *)
  max_retries : N        (* messageMaxRetries *)
}.

Definition fixed : cfg := mkCfg true true true true 3.
Definition orig : cfg := mkCfg false false false false 3.

(* a response message as seen by onResponse: the echoed request ID and an abstract payload *)
Record resp := mkResp { rid : N; payload : N }.

Definition resp_eqb (a b : resp) : bool := (rid a =? rid b) && (payload a =? payload b).

Inductive rst :=
| RInit                 (* reqMsg created *)
| RSent                 (* request sent, channel not yet registered (only when reg_first = false) *)
| RRegistered           (* channel registered, request not yet sent (only when reg_first = true) *)
| RWaiting              (* sent and registered: blocked in select *)
| RGot (r : resp)       (* select took the response branch; entry not yet deleted *)
| RTimedSel             (* select took the time.After branch; entry not yet deleted *)
| RCancelSel            (* select took the ctx.Done branch; entry not yet deleted *)
| RDone (r : resp)      (* returned (resMsg, nil) *)
| RTimedOut             (* returned errTimeout *)
| RCancelled            (* returned ctx.Err() *)
| RSendErr.             (* returned the error of mp.send *)

Definition ended (x : rst) : bool :=
  match x with RDone _ | RTimedOut | RCancelled | RSendErr => true | _ => false end.

(* the request has left the node: a response to it is causally possible *)
Definition was_sent (x : rst) : bool :=
  match x with RInit | RRegistered | RSendErr => false | _ => true end.

Record req := mkReq {
  st : rst;
  buf : option resp;     (* content of the (capacity 1) channel buffer *)
  fired : bool;          (* the time.After timer of this attempt has fired *)
  call : N;              (* the request() invocation this attempt belongs to (= ID of its first attempt) *)
  attempt : N;           (* loop index i in request() *)
  retried : bool;        (* request() has already started the next attempt after this one *)
  arrived : bool         (* ghost: a response for this ID reached onResponse's lookup after the request was sent,
                            before its timer fired, before it ended and while its context was not cancelled *)
}.

(* TBad: the handler goroutine of a message that the part of onResponse BEFORE resMu.Lock() will drop (stream read error, malformed
   envelope, procedure without registered handler, rate limiter error): it never reaches the lookup *)
Inductive tst := TStart | THold | TEnd | TBad.
Record thr := mkThr { tmsg : resp; tpc : tst }.

Record state := mkSt {
  reqs : list (N * req);
  chans : list N;               (* key set of resCh *)
  mu : option N;                (* holder of resMu: an onResponse goroutine, or nobody *)
  thrs : list (N * thr);        (* onResponse goroutines *)
  cancelled : list N;           (* calls whose context is done *)
  emitted : list resp           (* every response message that ever arrived *)
}.

Definition init : state := mkSt [] [] None [] [] [].

(* maps: newest binding first *)
Fixpoint get {A} (m : list (N * A)) (k : N) : option A :=
  match m with
  | [] => None
  | (k', v) :: m' => if k' =? k then Some v else get m' k
  end.
Definition set {A} (k : N) (v : A) (m : list (N * A)) : list (N * A) := (k, v) :: m.

Fixpoint mem (k : N) (l : list N) : bool :=
  match l with [] => false | x :: l' => (x =? k) || mem k l' end.
Fixpoint del (k : N) (l : list N) : list N :=
  match l with [] => [] | x :: l' => if x =? k then del k l' else x :: del k l' end.

Definition w_st (q : req) (x : rst) : req := mkReq x (buf q) (fired q) (call q) (attempt q) (retried q) (arrived q).
Definition w_st_buf (q : req) (x : rst) (b : option resp) : req :=
  mkReq x b (fired q) (call q) (attempt q) (retried q) (arrived q).
Definition w_fired (q : req) : req := mkReq (st q) (buf q) true (call q) (attempt q) (retried q) (arrived q).
Definition w_retried (q : req) : req := mkReq (st q) (buf q) (fired q) (call q) (attempt q) true (arrived q).
Definition w_arrived (q : req) (a : bool) : req := mkReq (st q) (buf q) (fired q) (call q) (attempt q) (retried q) a.
Definition new_req (c k : N) : req := mkReq RInit None false c k false false.

Definition s_reqs (s : state) (m : list (N * req)) : state := mkSt m (chans s) (mu s) (thrs s) (cancelled s) (emitted s).
Definition s_req (s : state) (id : N) (q : req) : state := s_reqs s (set id q (reqs s)).
Definition s_req_chans (s : state) (id : N) (q : req) (ch : list N) : state :=
  mkSt (set id q (reqs s)) ch (mu s) (thrs s) (cancelled s) (emitted s).

Inductive ev :=
| NewCall (id : N)            (* request(): first attempt, fresh id *)
| Retry (old id : N)          (* request(): next loop iteration after errTimeout of attempt [old] *)
| Register (id : N)           (* Lock; resCh[id] = ch; Unlock *)
| Send (id : N)               (* mp.send succeeded *)
| SendFail (id : N)           (* mp.send failed (and, when registered first, Lock; delete; Unlock) *)
| Fire (id : N)               (* the timer of the select fires *)
| Cancel (c : N)              (* the context of call c is cancelled *)
| SelRecv (id : N)            (* select: case resMsg := <-ch (buffered channel) *)
| SelTimeout (id : N)         (* select: case <-time.After *)
| SelCancel (id : N)          (* select: case <-ctx.Done() *)
| Dereg (id : N)              (* Lock; delete(resCh, id); Unlock; (drain); return *)
| Respond (t : N) (r : resp)  (* a response message arrives: handler goroutine t starts *)
| Lock (t : N)                (* onResponse: mp.resMu.Lock() *)
| Deliver (t : N)             (* onResponse: lookup; send (may block = not enabled); deferred Unlock *)
| RespondBad (t : N) (r : resp) (* a message arrives that is not a well-formed response within the limits: goroutine t starts *)
| Drop (t : N).               (* onResponse returns early (one of the four pinned early returns): nothing else happens *)

Definition is_timed_out (x : rst) : bool := match x with RTimedOut => true | _ => false end.

(* ghost update performed when a response with ID [id] reaches the lookup *)
Definition note_arrival (s : state) (id : N) : list (N * req) :=
  match get (reqs s) id with
  | Some q =>
      if was_sent (st q) && negb (ended (st q)) && negb (fired q) && negb (mem (call q) (cancelled s))
      then set id (w_arrived q true) (reqs s) else reqs s
  | None => reqs s
  end.

Definition unlock_end (s : state) (t : N) (th : thr) (m : list (N * req)) : state :=
  mkSt m (chans s) None (set t (mkThr (tmsg th) TEnd) (thrs s)) (cancelled s) (emitted s).

Definition step (c : cfg) (s : state) (e : ev) : option state :=
  match e with
  | NewCall id =>
      match get (reqs s) id with
      | Some _ => None
      | None => Some (s_req s id (new_req id 0))
      end
  | Retry old id =>
      match get (reqs s) old, get (reqs s) id with
      | Some q, None =>
          if is_timed_out (st q) && negb (retried q) && (attempt q <? max_retries c)
          then Some (s_reqs s (set id (new_req (call q) (attempt q + 1)) (set old (w_retried q) (reqs s))))
          else None
      | _, _ => None
      end
  | Register id =>
      match mu s, get (reqs s) id with
      | None, Some q =>
          match st q with
          | RInit => if reg_first c then Some (s_req_chans s id (w_st q RRegistered) (id :: chans s)) else None
          | RSent => if reg_first c then None else Some (s_req_chans s id (w_st q RWaiting) (id :: chans s))
          | _ => None
          end
      | _, _ => None
      end
  | Send id =>
      match get (reqs s) id with
      | Some q =>
          match st q with
          | RInit => if reg_first c then None else Some (s_req s id (w_st q RSent))
          | RRegistered => if reg_first c then Some (s_req s id (w_st q RWaiting)) else None
          | _ => None
          end
      | None => None
      end
  | SendFail id =>
      match get (reqs s) id with
      | Some q =>
          match st q with
          | RInit => if reg_first c then None else Some (s_req s id (w_st q RSendErr))
          | RRegistered =>
              match mu s with
              | None => if reg_first c then Some (s_req_chans s id (w_st q RSendErr) (del id (chans s))) else None
              | Some _ => None
              end
          | _ => None
          end
      | None => None
      end
  | Fire id =>
      match get (reqs s) id with
      | Some q => match st q with RWaiting => Some (s_req s id (w_fired q)) | _ => None end
      | None => None
      end
  | Cancel cl => Some (mkSt (reqs s) (chans s) (mu s) (thrs s) (cl :: cancelled s) (emitted s))
  | SelRecv id =>
      match get (reqs s) id with
      | Some q =>
          match st q, buf q with
          | RWaiting, Some r => Some (s_req s id (w_st_buf q (RGot r) None))
          | _, _ => None
          end
      | None => None
      end
  | SelTimeout id =>
      match get (reqs s) id with
      | Some q => match st q with RWaiting => if fired q then Some (s_req s id (w_st q RTimedSel)) else None | _ => None end
      | None => None
      end
  | SelCancel id =>
      match get (reqs s) id with
      | Some q =>
          match st q with
          | RWaiting => if mem (call q) (cancelled s) then Some (s_req s id (w_st q RCancelSel)) else None
          | _ => None
          end
      | None => None
      end
  | Dereg id =>
      match mu s, get (reqs s) id with
      | None, Some q =>
          match st q with
          | RGot r => Some (s_req_chans s id (w_st q (RDone r)) (del id (chans s)))
          | RTimedSel =>
              match (if drain c then buf q else None) with
              | Some r => Some (s_req_chans s id (w_st_buf q (RDone r) None) (del id (chans s)))
              | None => Some (s_req_chans s id (w_st q RTimedOut) (del id (chans s)))
              end
          | RCancelSel => Some (s_req_chans s id (w_st q RCancelled) (del id (chans s)))
          | _ => None
          end
      | _, _ => None
      end
  | Respond t r =>
      match get (thrs s) t with
      | Some _ => None
      | None => Some (mkSt (reqs s) (chans s) (mu s) (set t (mkThr r TStart) (thrs s)) (cancelled s) (r :: emitted s))
      end
  | Lock t =>
      match mu s, get (thrs s) t with
      | None, Some th =>
          match tpc th with
          | TStart => Some (mkSt (reqs s) (chans s) (Some t) (set t (mkThr (tmsg th) THold) (thrs s)) (cancelled s) (emitted s))
          | _ => None
          end
      | _, _ => None
      end
  | RespondBad t r =>
      match get (thrs s) t with
      | Some _ => None
      | None => Some (mkSt (reqs s) (chans s) (mu s) (set t (mkThr r TBad) (thrs s)) (cancelled s) (r :: emitted s))
      end
  | Drop t =>
      match get (thrs s) t with
      | Some th =>
          match tpc th with
          | TBad => Some (mkSt (reqs s) (chans s) (mu s) (set t (mkThr (tmsg th) TEnd) (thrs s)) (cancelled s) (emitted s))
          | _ => None
          end
      | None => None
      end
  | Deliver t =>
      match get (thrs s) t with
      | Some th =>
          match tpc th with
          | THold =>
              let id := rid (tmsg th) in
              let m := note_arrival s id in
              if mem id (chans s) then
                match get m id with
                | Some q =>
                    if cap1 c then
                      match buf q with
                      | None => Some (unlock_end s t th (set id (w_st_buf q (st q) (Some (tmsg th))) m))
                      | Some _ => if nb_send c then Some (unlock_end s t th m) (* default: dropped *) else None (* blocks *)
                      end
                    else
                      match st q with
                      | RWaiting => Some (unlock_end s t th (set id (w_st q (RGot (tmsg th))) m)) (* rendezvous *)
                      | _ => if nb_send c then Some (unlock_end s t th m) else None (* nobody receives: blocks *)
                      end
                | None => None
                end
              else Some (unlock_end s t th m) (* unknown request ID: warning *)
          | _ => None
          end
      | None => None
      end
  end.

Fixpoint run (c : cfg) (s : state) (es : list ev) : option state :=
  match es with
  | [] => Some s
  | e :: es' => match step c s e with Some s' => run c s' es' | None => None end
  end.

Definition reachable (c : cfg) (s : state) : Prop := exists es, run c init es = Some s.

Definition req_st (s : state) (id : N) : option rst :=
  match get (reqs s) id with Some q => Some (st q) | None => None end.

Definition all_ended (s : state) : Prop := forall id q, get (reqs s) id = Some q -> ended (st q) = true.

(* the configuration facts under which the full theorems are proved *)
Definition good (c : cfg) : bool := reg_first c && cap1 c && nb_send c && drain c.

(* Skeleton of the two functions as a token list (what translate/reqresp regenerates).  The step function above
   implements exactly these tokens; [cfg_of_skel] reads the configuration facts off a skeleton. *)
Inductive tok :=
| KNewMsg | KMakeChan (capacity : N) | KLock | KUnlock | KDeferUnlock | KRegister | KDelete
| KSend | KOnSendErr | KEndOnSendErr | KSelect | KCaseRecv | KCaseTimeout | KCaseCtx | KEndSelect
| KDrain | KReturnRes | KReturnTimeout | KReturnCtxErr | KReturnErr
| KLookup | KSendChanBlocking | KSendChanNonBlocking | KWarnUnknown.

Definition tok_code (t : tok) : N :=
  match t with
  | KNewMsg => 1 | KMakeChan c => 100 + c | KLock => 2 | KUnlock => 3 | KDeferUnlock => 4 | KRegister => 5 | KDelete => 6
  | KSend => 7 | KOnSendErr => 8 | KEndOnSendErr => 9 | KSelect => 10 | KCaseRecv => 11 | KCaseTimeout => 12
  | KCaseCtx => 13 | KEndSelect => 14 | KDrain => 15 | KReturnRes => 16 | KReturnTimeout => 17 | KReturnCtxErr => 18
  | KReturnErr => 19 | KLookup => 20 | KSendChanBlocking => 21 | KSendChanNonBlocking => 22 | KWarnUnknown => 23
  end.
Definition tok_eqb (a b : tok) : bool := tok_code a =? tok_code b.

Fixpoint index_of (t : tok) (l : list tok) : option nat :=
  match l with
  | [] => None
  | x :: l' => if tok_eqb x t then Some O else match index_of t l' with Some n => Some (S n) | None => None end
  end.
Fixpoint has (t : tok) (l : list tok) : bool :=
  match l with [] => false | x :: l' => tok_eqb x t || has t l' end.
(* tokens strictly after the first occurrence of [t] *)
Fixpoint after (t : tok) (l : list tok) : list tok :=
  match l with [] => [] | x :: l' => if tok_eqb x t then l' else after t l' end.
Fixpoint chan_cap (l : list tok) : option N :=
  match l with [] => None | KMakeChan c :: _ => Some c | _ :: l' => chan_cap l' end.

Definition skel_send_fixed : list tok :=
  [KNewMsg; KMakeChan 1; KLock; KRegister; KUnlock;
   KSend; KOnSendErr; KLock; KDelete; KUnlock; KReturnErr; KEndOnSendErr;
   KSelect;
     KCaseRecv; KLock; KDelete; KUnlock; KReturnRes;
     KCaseTimeout; KLock; KDelete; KUnlock; KDrain; KReturnTimeout;
     KCaseCtx; KLock; KDelete; KUnlock; KReturnCtxErr;
   KEndSelect].
Definition skel_onresp_fixed : list tok := [KLock; KDeferUnlock; KLookup; KSendChanNonBlocking; KWarnUnknown].

Definition skel_send_orig : list tok :=
  [KNewMsg; KSend; KOnSendErr; KReturnErr; KEndOnSendErr; KMakeChan 0; KLock; KRegister; KUnlock;
   KSelect;
     KCaseRecv; KLock; KDelete; KUnlock; KReturnRes;
     KCaseTimeout; KLock; KDelete; KUnlock; KReturnTimeout;
     KCaseCtx; KLock; KDelete; KUnlock; KReturnCtxErr;
   KEndSelect].
Definition skel_onresp_orig : list tok := [KLock; KDeferUnlock; KLookup; KSendChanBlocking; KWarnUnknown].

Definition cfg_of_skel (send onresp : list tok) (retries : N) : option cfg :=
  match index_of KRegister send, index_of KSend send, chan_cap send with
  | Some ir, Some isend, Some cp =>
      Some (mkCfg (Nat.ltb ir isend) (cp =? 1) (has KSendChanNonBlocking onresp && negb (has KSendChanBlocking onresp))
                  (has KDrain (after KCaseTimeout send)) retries)
  | _, _, _ => None
  end.

(* The early returns of onResponse before the lock, as regenerated by translate/reqresp (statement before the if | condition): a
   message is dropped there exactly when the stream cannot be read, the envelope does not decode, no handler is registered for
   its procedure, or the rate limiter returns an error. These are the [RespondBad]/[Drop] messages of the model; everything else
   is a [Respond] and reaches the lookup. *)
Definition onresp_drops_modelled : list String.string :=
  ["buf, err := io.ReadAll(s) | err != nil";
   " | err := newMsg.Decode(buf); err != nil";
   "_, exist := mp.rpcHandlers[newMsg.Procedure] | !exist";
   "err = mp.rateLimit.checkLimit(newMsg.Procedure, remoteID, remoteAddr) | err != nil"]%string.
Definition onreq_drops_modelled : list String.string :=
  ["buf, err := io.ReadAll(s) | err != nil";
   " | err := newMsg.Decode(buf); err != nil";
   "handler, exist := mp.rpcHandlers[newMsg.Procedure] | !exist";
   "err = mp.rateLimit.checkLimit(newMsg.Procedure, remoteID, remoteAddr) | err != nil"]%string.

(* Exact statement lists (as regenerated by translate/reqresp) of the functions around the skeleton: the public entry points
   RequestFrom / Broadcast, the retry loop request() with its post-loop return, respond(), the constructors (fresh UUID per request
   message, response timeout set from the constant in newMessageProtocol and nowhere else), the part of onResponse under resMu
   and its non-returning statements before the lock. The model's events are read off these bodies. *)
Definition pinned_bodies_modelled : list (String.string * list String.string) :=
  [("RequestFrom"%string,
    ["response, err := mp.request(ctx, peerID, procedure, data)";
   "if err != nil { return Response{err: err} }";
   "return *response"]%string);
   ("Broadcast"%string,
    ["peers := mp.peer.ConnectedPeers()";
   "for _, peerID := range peers { if _, err := mp.request(ctx, peerID, procedure, data); err != nil { return err } }";
   "return nil"]%string);
   ("request"%string,
    ["var ( err error res *Response )";
   "for i := 0; i <= messageMaxRetries; i++ { if i > 0 { mp.logger.Debugf(""Retrying request message to %v. Retry count: %d"", id, i) } res, err = mp.sendRequestMessage(ctx, id, procedure, data) if err != nil { if errors.Is(err, errTimeout) { continue } return nil, err } return res, nil }";
   "return nil, err"]%string);
   ("respond"%string,
    ["resMsg := newResponseMessage(reqMsgID, procedure, data, err)";
   "return mp.send(ctx, id, messageProtocolResID(mp.chainID, mp.version), resMsg)"]%string);
   ("newMessageProtocol"%string,
    ["mp := &MessageProtocol{ resCh: make(map[string]chan<- *Response), timeout: messageResponseTimeout, rpcHandlers: make(map[string]RPCHandler), rateLimit: newRateLimit(), chainID: chainID, version: version, }";
   "return mp"]%string);
   ("newRequestMessage"%string,
    ["return &Request{ ID: uuid.New().String(), Timestamp: time.Now().Unix(), PeerID: peerID, Procedure: procedure, Data: data, }"]%string);
   ("newResponseMessage"%string,
    ["errString := """"";
   "if err != nil { errString = err.Error() }";
   "return &responseMsg{ ID: reqMsgID, Procedure: procedure, Timestamp: time.Now().Unix(), Data: data, Error: errString, }"]%string);
   ("onResponse/locked"%string,
    ["mp.resMu.Lock()";
   "defer mp.resMu.Unlock()";
   "if ch, ok := mp.resCh[newMsg.ID]; ok { var resError error if newMsg.Error != """" { resError = errors.New(newMsg.Error) } select { case ch <- NewResponse( newMsg.Timestamp, s.Conn().RemotePeer(), newMsg.Data, resError, ): default: mp.logger.Warningf(""Duplicate response message received for request ID: %v"", newMsg.ID) } } else { mp.logger.Warningf(""Response message received for unknown request ID: %v"", newMsg.ID) }"]%string);
   ("onResponse/before-lock (without the early returns)"%string,
    ["buf, err := io.ReadAll(s)";
   "s.Close()";
   "mp.logger.Debugf(""Data from %v received: %s"", s.Conn().RemotePeer().String(), string(buf))";
   "remoteAddr := s.Conn().RemoteMultiaddr()";
   "newMsg := newResponseMessage("""", """", nil, nil)";
   "mp.logger.Debugf(""Response message received: %+v"", newMsg)";
   "_, exist := mp.rpcHandlers[newMsg.Procedure]";
   "remoteID := s.Conn().RemotePeer()";
   "mp.rateLimit.increaseCounter(newMsg.Procedure, remoteID)";
   "err = mp.rateLimit.checkLimit(newMsg.Procedure, remoteID, remoteAddr)"]%string)].


(* ---- observation-level helpers used by the correspondence (Corr/C17.v) *)

(* result class of a whole request() call as seen by the caller *)
Inductive outcome := OOk (r : resp) | OTimeout | OCancelled | OSendErr | OPending.

Definition outcome_of (x : rst) : outcome :=
  match x with
  | RDone r => OOk r | RTimedOut => OTimeout | RCancelled => OCancelled | RSendErr => OSendErr | _ => OPending
  end.
