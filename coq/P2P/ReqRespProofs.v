(* C17 — proofs about the request/response transition system of P2P/ReqResp.v: invariants over all interleavings,
   the property lemmas on every configuration with [good c] (the repaired code), and refutation witnesses with a
   permanence proof for the configuration of the code before the fix. *)
From Coq Require Import List NArith Bool Lia.
From LE Require Import P2P.ReqResp.
Import ListNotations.
Local Open Scope N_scope.

Lemma get_set {A} k (v : A) m k' : get (set k v m) k' = if k =? k' then Some v else get m k'.
Proof. reflexivity. Qed.

Lemma run_app c es1 : forall s es2, run c s (es1 ++ es2) = match run c s es1 with Some s' => run c s' es2 | None => None end.
Proof. induction es1; intros; cbn; auto. destruct (step c s a); auto. Qed.

Lemma reachable_ind' c (P : state -> Prop) :
  P init -> (forall s e s', reachable c s -> P s -> step c s e = Some s' -> P s') -> forall s, reachable c s -> P s.
Proof.
  intros H0 Hs s [es H]. revert s H. induction es using rev_ind; intros s H.
  - cbn in H. inversion H. auto.
  - rewrite run_app in H. destruct (run c init es) eqn:E; try discriminate.
    cbn in H. destruct (step c s0 x) eqn:E2; inversion H; subst.
    apply (Hs s0 x s); [exists es; auto | apply IHes; auto | auto].
Qed.

Lemma reachable_step c s e s' : reachable c s -> step c s e = Some s' -> reachable c s'.
Proof. intros [es H] H2. exists (es ++ [e]). rewrite run_app, H. cbn. rewrite H2. auto. Qed.

Lemma reachable_init c : reachable c init.
Proof. exists []. reflexivity. Qed.

Lemma mem_del k k' l : mem k (del k' l) = mem k l && negb (k' =? k).
Proof.
  induction l; cbn; auto. destruct (a =? k') eqn:E.
  - apply N.eqb_eq in E. subst. rewrite IHl. destruct (k' =? k); cbn; auto. rewrite andb_false_r; auto.
  - cbn. rewrite IHl. destruct (a =? k) eqn:E2; cbn; auto. apply N.eqb_eq in E2. subst.
    rewrite N.eqb_sym, E. auto.
Qed.

Lemma mem_In k l : mem k l = true <-> In k l.
Proof.
  induction l; cbn; split; intros; try discriminate; try tauto.
  - apply orb_true_iff in H. destruct H. apply N.eqb_eq in H; auto. right; apply IHl; auto.
  - apply orb_true_iff. destruct H. left; apply N.eqb_eq; auto. right; apply IHl; auto.
Qed.

Definition cond_arr (s : state) (q : req) : bool :=
  was_sent (st q) && negb (ended (st q)) && negb (fired q) && negb (mem (call q) (cancelled s)).

Lemma note_arrival_get s id k :
  get (note_arrival s id) k =
  match get (reqs s) k with
  | Some q => Some (if (id =? k) && cond_arr s q then w_arrived q true else q)
  | None => None
  end.
Proof.
  unfold note_arrival, cond_arr. destruct (id =? k) eqn:E.
  - apply N.eqb_eq in E. subst k. destruct (get (reqs s) id) eqn:G; auto.
    destruct (was_sent (st r) && negb (ended (st r)) && negb (fired r) && negb (mem (call r) (cancelled s))) eqn:C; cbn.
    + rewrite N.eqb_refl. auto.
    + rewrite G. auto.
  - destruct (get (reqs s) id) eqn:G; cbn.
    + destruct (was_sent (st r) && negb (ended (st r)) && negb (fired r) && negb (mem (call r) (cancelled s))); cbn.
      * rewrite E. destruct (get (reqs s) k); auto.
      * destruct (get (reqs s) k); auto.
    + destruct (get (reqs s) k); auto.
Qed.

(* every request found in note_arrival is an old request, possibly with the ghost flag set *)
Lemma note_arrival_inv s id k q' :
  get (note_arrival s id) k = Some q' ->
  exists q, get (reqs s) k = Some q /\ (q' = q \/ (q' = w_arrived q true /\ id = k /\ cond_arr s q = true)).
Proof.
  rewrite note_arrival_get. destruct (get (reqs s) k) eqn:G; intros H; inversion H; subst.
  exists r. split; auto. destruct (id =? k) eqn:E; cbn; auto. destruct (cond_arr s r) eqn:C; auto.
  right. apply N.eqb_eq in E. auto.
Qed.

Global Opaque note_arrival.

Ltac step_cases H :=
  cbn [step] in H;
  repeat match type of H with
         | context [match ?x with _ => _ end] => destruct x eqn:?; try discriminate H
         end;
  try (injection H as H; subst).

(* normalise lookups in updated maps *)
Ltac gs :=
  repeat match goal with
  | H : context [get (set _ _ _) _] |- _ => rewrite get_set in H
  | |- context [get (set _ _ _) _] => rewrite get_set
  | H : context [if ?a =? ?b then _ else _] |- _ =>
      let E := fresh "E" in destruct (a =? b) eqn:E; [apply N.eqb_eq in E; subst | apply N.eqb_neq in E]
  | |- context [if ?a =? ?b then _ else _] =>
      let E := fresh "E" in destruct (a =? b) eqn:E; [apply N.eqb_eq in E; subst | apply N.eqb_neq in E]
  | H : Some _ = Some _ |- _ => injection H as H; subst
  | H : Some _ = None |- _ => discriminate H
  | H : None = Some _ |- _ => discriminate H
  end.

(* ---- resMu holder is an onResponse goroutine inside its critical section *)
Lemma inv_mu c s : reachable c s -> forall t, mu s = Some t -> exists th, get (thrs s) t = Some th /\ tpc th = THold.
Proof.
  intros R. pattern s. eapply reachable_ind'; eauto; clear s R.
  - cbn. discriminate.
  - intros s e s' R IH H t. destruct e; step_cases H; cbn; intros M; try congruence; auto.
    + (* Respond *) destruct (IH _ M) as [th [G P]]. exists th. gs; auto. congruence.
    + injection M as M; subst. gs. eexists; split; eauto. congruence.
    + (* RespondBad *) destruct (IH _ M) as [th [G P]]. exists th. gs; auto. congruence.
    + (* Drop *) destruct (IH _ M) as [th [G P]]. gs; [congruence | eauto].
Qed.

Definition registered_st (x : rst) : bool :=
  match x with RRegistered | RWaiting | RGot _ | RTimedSel | RCancelSel => true | _ => false end.

Lemma inv_thr c s : reachable c s -> forall t th, get (thrs s) t = Some th -> In (tmsg th) (emitted s).
Proof.
  intros R. pattern s. eapply reachable_ind'; eauto; clear s R.
  - cbn. discriminate.
  - intros s e s' R IH H t th. destruct e; step_cases H; cbn; intros G; gs; cbn; eauto.
Qed.
Ltac unf := unfold s_req, s_reqs, s_req_chans, unlock_end, w_st, w_st_buf, w_fired, w_retried, w_arrived, new_req in *;
            cbn [reqs chans mu thrs cancelled emitted st buf fired call attempt retried arrived] in *.
Ltac na :=
  repeat match goal with
  | H : get (note_arrival _ _) _ = Some _ |- _ =>
      apply note_arrival_inv in H; destruct H as [? [? [?|[? [? ?]]]]]; subst
  end.
Lemma note_arrival_fwd s id k q :
  get (reqs s) k = Some q ->
  exists q', get (note_arrival s id) k = Some q' /\ st q' = st q /\ buf q' = buf q /\ fired q' = fired q /\
             call q' = call q /\ attempt q' = attempt q /\ retried q' = retried q.
Proof.
  intros G. rewrite note_arrival_get, G. eexists; split; [reflexivity|].
  destruct ((id =? k) && cond_arr s q); cbn; auto 10.
Qed.

Ltac dreq := repeat match goal with r : req |- _ => destruct r end; cbn in *; subst.

Ltac fin_chan IH1 IH2 :=
  dreq; rewrite ?andb_true_r, ?andb_false_r in *;
  try match goal with M : mem ?k (chans _) = true |- _ =>
        let q0 := fresh "q0" in let G0 := fresh "G0" in let R0 := fresh "R0" in
        destruct (IH1 _ M) as [q0 [G0 R0]];
        try match goal with G : get (reqs _) k = Some _ |- _ =>
              tryif constr_eq G G0 then fail else (rewrite G in G0; injection G0 as G0; subst q0; cbn in R0) end
      end;
  try solve [eauto | discriminate | congruence | eexists; split; [reflexivity | cbn; auto; congruence]];
  try solve [eapply IH2; eauto; cbn; auto];
  try solve [match goal with G0 : get (reqs ?s) ?k = Some ?q0 |- exists _, get (note_arrival ?s ?id) ?k = Some _ /\ _ =>
        let q' := fresh "q'" in let G' := fresh "G'" in let E1 := fresh "E1" in
        destruct (note_arrival_fwd s id k q0 G0) as [q' [G' [E1 _]]]; exists q'; split; auto; cbn in *; congruence end].

Lemma inv_chan c s : reachable c s ->
  (forall id, mem id (chans s) = true -> exists q, get (reqs s) id = Some q /\ registered_st (st q) = true) /\
  (forall id q, get (reqs s) id = Some q -> registered_st (st q) = true -> mem id (chans s) = true).
Proof.
  intros R. pattern s. eapply reachable_ind'; eauto; clear s R.
  - cbn. split; intros; discriminate.
  - intros s e s' R [IH1 IH2] H.
    destruct e; step_cases H; unf; (split; [intros k M | intros k q' G Rg]).
    all: try rewrite mem_del in *; cbn [mem] in *.
    all: gs; na; unf.
    all: fin_chan IH1 IH2.
Qed.

Lemma mem_cons_mono k x l : mem k l = true -> mem k (x :: l) = true.
Proof. cbn. intros ->. apply orb_true_r. Qed.

Ltac fin_req IH :=
  dreq; rewrite ?andb_true_r, ?andb_false_r in *;
  try solve [eauto | discriminate | congruence | eapply IH; eauto; cbn; eauto];
  try solve [match goal with G : get (reqs _) _ = Some _ |- _ => generalize (IH _ _ G); cbn; solve [auto | tauto | intuition congruence] end].

(* select took the timeout branch only after the timer had fired *)
Lemma inv_fired c s : reachable c s -> forall id q, get (reqs s) id = Some q -> st q = RTimedSel -> fired q = true.
Proof.
  intros R. pattern s. eapply reachable_ind'; eauto; clear s R.
  - cbn. discriminate.
  - intros s e s' R IH H k q' G.
    destruct e; step_cases H; unf; gs; na; unf; intros S; fin_req IH.
Qed.

Lemma inv_cancel c s : reachable c s -> forall id q, get (reqs s) id = Some q ->
  (st q = RCancelSel \/ st q = RCancelled) -> mem (call q) (cancelled s) = true.
Proof.
  intros R. pattern s. eapply reachable_ind'; eauto; clear s R.
  - cbn. discriminate.
  - intros s e s' R IH H k q' G.
    destruct e; step_cases H; unf; gs; na; unf; intros S; try (apply mem_cons_mono); fin_req IH.
    all: try solve [destruct S; discriminate].
    all: try solve [eapply (IH _ _ Heqo); cbn; auto].
Qed.

(* the loop index of request() never exceeds the retry budget *)
Lemma inv_att c s : reachable c s -> forall id q, get (reqs s) id = Some q -> attempt q <= max_retries c.
Proof.
  intros R. pattern s. eapply reachable_ind'; eauto; clear s R.
  - cbn. discriminate.
  - intros s e s' R IH H k q' G.
    destruct e; step_cases H; unf; gs; na; unf; fin_req IH.
    all: try lia.
    all: match goal with Hb : _ && (_ <? _) = true |- _ => apply andb_true_iff in Hb; destruct Hb as [_ Hb]; apply N.ltb_lt in Hb; lia end.
Qed.

(* correlation core: whatever sits in the channel of request id, or was taken from it, is a response message that
   really arrived and carries that very id *)
Lemma inv_buf c s : reachable c s -> forall id q r, get (reqs s) id = Some q ->
  (buf q = Some r \/ st q = RGot r \/ st q = RDone r) -> rid r = id /\ In r (emitted s).
Proof.
  intros R. pattern s. eapply reachable_ind'; eauto; clear s R.
  - cbn. discriminate.
  - intros s e s' R IH H k q' r0 G.
    destruct e; step_cases H; unf; gs; na; unf; intros S; fin_req IH.
    all: destruct S as [S|[S|S]]; try discriminate S; try (injection S as S; subst).
    all: try solve [match goal with G : get (reqs _) _ = Some _ |- _ =>
                      generalize (IH _ _ r0 G); cbn; intuition eauto end].
    all: try solve [split; auto; eapply inv_thr; eauto].
    destruct (drain c); try discriminate. subst. apply (IH _ _ r0 Heqo0). cbn. auto.
Qed.

Lemma inv_nosent c s : reg_first c = true -> reachable c s -> forall id q, get (reqs s) id = Some q -> st q <> RSent.
Proof.
  intros RF R. pattern s. eapply reachable_ind'; eauto; clear s R.
  - cbn. discriminate.
  - intros s e s' R IH H k q' G.
    destruct e; step_cases H; unf; gs; na; unf; fin_req IH; try congruence.
Qed.

Lemma good_inv c : good c = true -> reg_first c = true /\ cap1 c = true /\ nb_send c = true /\ drain c = true.
Proof. unfold good. intros H. repeat (apply andb_true_iff in H; destruct H as [H ?]). auto. Qed.

(* where a request whose response arrived in time can be *)
Definition arr_ok (s : state) (q : req) : Prop :=
  match st q with
  | RWaiting | RTimedSel => buf q <> None
  | RGot _ | RDone _ => True
  | RCancelSel | RCancelled => mem (call q) (cancelled s) = true
  | _ => False
  end.

Lemma inv_arr c s : good c = true -> reachable c s ->
  forall id q, get (reqs s) id = Some q -> arrived q = true -> arr_ok s q.
Proof.
  intros GC R. destruct (good_inv _ GC) as [RF [CP [NB DR]]].
  pattern s. eapply reachable_ind'; eauto; clear s R.
  - cbn. discriminate.
  - intros s e s' R IH H k q' G.
    pose proof (inv_chan _ _ R) as [CH1 CH2].
    pose proof (inv_fired _ _ R) as FI. pose proof (inv_cancel _ _ R) as CA. pose proof (inv_nosent _ _ RF R) as NS.
    destruct e; step_cases H; unf; gs; na; unf; intros A; unfold arr_ok in *; fin_req IH.
    all: try solve [match goal with G : get (reqs _) _ = Some _ |- _ =>
           generalize (IH _ _ G eq_refl); cbn; destruct st; auto; try congruence; intros ->; apply orb_true_r end].
    { rewrite DR in Heqo1; subst. generalize (IH _ _ Heqo0 eq_refl); cbn; congruence. }
    all: repeat match goal with Ha : get (reqs ?s) ?k = Some _, Hb : get (reqs ?s) ?k = Some _ |- _ =>
        tryif constr_eq Ha Hb then fail else (rewrite Ha in Hb; injection Hb; intros; subst; clear Hb) end.
    all: unfold cond_arr in *; cbn in *.
    all: match goal with Hg : get (reqs _) _ = Some _ |- _ =>
           pose proof (NS _ _ Hg) as NS'; pose proof (FI _ _ Hg) as FI'; pose proof (CA _ _ Hg) as CA';
           pose proof (CH2 _ _ Hg) as CH2'; cbn in NS', FI', CA', CH2' end.
    all: destruct st; cbn in *; try discriminate; try congruence; auto.
    all: try solve [rewrite FI' in *; auto; cbn in *; rewrite ?andb_false_r in *; discriminate].
    all: try solve [rewrite CA' in *; auto; cbn in *; rewrite ?andb_false_r in *; discriminate].
    all: try solve [rewrite CH2' in *; auto; discriminate].
Qed.

(* ================= main lemmas ================= *)

Lemma correlation c s : reachable c s -> forall id q r, get (reqs s) id = Some q -> st q = RDone r ->
  rid r = id /\ In r (emitted s).
Proof. intros R id q r G S. eapply inv_buf; eauto. Qed.

Lemma correlation_honest c s (h : N -> N) : reachable c s ->
  (forall r, In r (emitted s) -> payload r = h (rid r)) ->
  forall id q r, get (reqs s) id = Some q -> st q = RDone r -> payload r = h id.
Proof. intros R Hh id q r G S. destruct (correlation _ _ R _ _ _ G S) as [<- I]. auto. Qed.

Lemma no_lost_reply c s : good c = true -> reachable c s -> forall id q, get (reqs s) id = Some q ->
  arrived q = true -> ended (st q) = true ->
  (exists r, st q = RDone r /\ rid r = id) \/ (st q = RCancelled /\ mem (call q) (cancelled s) = true).
Proof.
  intros GC R id q G A E. pose proof (inv_arr _ _ GC R _ _ G A) as OK. unfold arr_ok in OK.
  destruct (st q) eqn:S; cbn in E; try discriminate; try contradiction; auto.
  left. exists r. split; auto. eapply correlation; eauto.
Qed.

Lemma registered_not_ended x : registered_st x = true -> ended x = false.
Proof. destruct x; cbn; auto; discriminate. Qed.

Lemma no_leak c s : reachable c s -> all_ended s -> chans s = [].
Proof.
  intros R A. destruct (inv_chan _ _ R) as [CH1 _]. destruct (chans s) eqn:E; auto.
  assert (M : mem n (chans s) = true) by (rewrite E; cbn; rewrite N.eqb_refl; auto).
  rewrite <- E in CH1. destruct (CH1 _ M) as [q [G Rg]]. apply registered_not_ended in Rg.
  rewrite (A _ _ G) in Rg. discriminate.
Qed.

(* resCh holds exactly the attempts between registration and deregistration, at every moment *)
Lemma pending_exact c s : reachable c s -> forall id,
  mem id (chans s) = true <-> exists q, get (reqs s) id = Some q /\ registered_st (st q) = true.
Proof.
  intros R id. destruct (inv_chan _ _ R) as [CH1 CH2]. split; auto. intros [q [G Rg]]. eauto.
Qed.

Lemma nodup_del k l : NoDup l -> NoDup (del k l).
Proof.
  induction 1; cbn; [constructor|]. destruct (x =? k); auto. constructor; auto.
  intros I. apply mem_In in I. rewrite mem_del in I. apply andb_true_iff in I. destruct I as [I _].
  apply mem_In in I. auto.
Qed.

Lemma inv_nodup c s : reachable c s -> NoDup (chans s).
Proof.
  intros R. pattern s. eapply reachable_ind'; eauto; clear s R.
  - cbn. constructor.
  - intros s e s' R IH H. pose proof (inv_chan _ _ R) as [CH1 CH2].
    assert (ND : forall k, NoDup (del k (chans s))) by (intros; apply nodup_del; auto).
    destruct e; step_cases H; unf; auto.
    all: constructor; auto; intros I; apply mem_In in I; destruct (CH1 _ I) as [q0 [G0 R0]];
      rewrite G0 in *; gs; rewrite Heqr0 in R0; discriminate.
Qed.

(* the goroutine that holds resMu is never blocked *)
Lemma progress_holder c s : good c = true -> reachable c s -> forall t, mu s = Some t -> step c s (Deliver t) <> None.
Proof.
  intros GC R t M. destruct (good_inv _ GC) as [RF [CP [NB DR]]].
  destruct (inv_mu _ _ R _ M) as [th [G P]]. destruct (inv_chan _ _ R) as [CH1 _].
  cbn [step]. rewrite G, P, CP, NB.
  destruct (mem (rid (tmsg th)) (chans s)) eqn:ME; try discriminate.
  destruct (CH1 _ ME) as [q0 [G0 _]].
  destruct (note_arrival_fwd s (rid (tmsg th)) _ _ G0) as [q' [G' _]]. rewrite G'.
  destruct (buf q'); discriminate.
Qed.

(* ---- no reachable state is stuck: every unfinished attempt can be driven to its end in at most six steps, using only
   the step of the goroutine that holds resMu (if any), the attempt's own steps and its own timer *)
Definition unlock_evs (s : state) : list ev := match mu s with Some t => [Deliver t] | None => [] end.
Definition own_evs (x : rst) (id : N) : list ev :=
  match x with
  | RInit => [Register id; Send id; Fire id; SelTimeout id; Dereg id]
  | RRegistered => [Send id; Fire id; SelTimeout id; Dereg id]
  | RWaiting => [Fire id; SelTimeout id; Dereg id]
  | RGot _ | RTimedSel | RCancelSel => [Dereg id]
  | _ => []
  end.
Definition finish_evs (s : state) (id : N) : list ev :=
  match get (reqs s) id with Some q => unlock_evs s ++ own_evs (st q) id | None => [] end.

Definition ended_in (s : state) (id : N) : Prop := exists q, get (reqs s) id = Some q /\ ended (st q) = true.

Lemma own_finish c s id q : good c = true -> mu s = None -> get (reqs s) id = Some q -> ended (st q) = false ->
  st q <> RSent -> exists s', run c s (own_evs (st q) id) = Some s' /\ ended_in s' id.
Proof.
  intros GC M G E NS. destruct (good_inv _ GC) as [RF [CP [NB DR]]].
  destruct s as [rq ch m th ca em]. destruct q as [x b f cl at_ rt ar]. cbn in *. subst m.
  unfold ended_in.
  destruct x; cbn in E; try discriminate; try congruence; clear E NS.
  all: cbn [own_evs run step]; unf; cbn [mu reqs]; rewrite ?G, ?RF, ?DR; cbn [st buf fired];
       repeat (unf; cbn [mu reqs run step get set st buf fired]; rewrite ?N.eqb_refl, ?RF, ?DR).
  all: try solve [eexists; split; [reflexivity|]; cbn; rewrite N.eqb_refl; eexists; split; [reflexivity|]; auto].
  all: try solve [destruct b; eexists; (split; [reflexivity|]); cbn; rewrite N.eqb_refl; eexists; (split; [reflexivity|]); auto].
Qed.

Lemma deliver_effect c s t s1 : cap1 c = true -> step c s (Deliver t) = Some s1 ->
  mu s1 = None /\ forall id q, get (reqs s) id = Some q -> exists q1, get (reqs s1) id = Some q1 /\ st q1 = st q.
Proof.
  intros CP H. step_cases H; unf; (split; [reflexivity|]); intros k q G; try congruence.
  all: destruct (note_arrival_fwd s (rid (tmsg t0)) _ _ G) as [q' [G' [E1 _]]].
  all: gs; try solve [exists q'; split; auto].
  all: try solve [rewrite G' in *; gs; eexists; split; [reflexivity|]; cbn; auto].
Qed.

Lemma own_evs_len x id : (length (own_evs x id) <= 5)%nat.
Proof. destruct x; cbn; lia. Qed.

Lemma can_finish c s : good c = true -> reachable c s -> forall id q, get (reqs s) id = Some q -> ended (st q) = false ->
  exists s', run c s (finish_evs s id) = Some s' /\ ended_in s' id /\ (length (finish_evs s id) <= 6)%nat.
Proof.
  intros GC R id q G E. destruct (good_inv _ GC) as [RF [CP [NB DR]]].
  unfold finish_evs, unlock_evs. rewrite G. destruct (mu s) eqn:M.
  - destruct (step c s (Deliver n)) as [s1|] eqn:D; [|exfalso; eapply progress_holder; eauto].
    destruct (deliver_effect _ _ _ _ CP D) as [M1 K]. destruct (K _ _ G) as [q1 [G1 S1]].
    assert (R1 : reachable c s1) by (eapply reachable_step; eauto).
    destruct (own_finish c s1 id q1 GC M1 G1) as [s' [Rn En]]; try congruence.
    { eapply inv_nosent; eauto. }
    exists s'. cbn [app run]. rewrite D. rewrite <- S1. split; auto. split; auto.
    cbn. pose proof (own_evs_len (st q1) id). lia.
  - destruct (own_finish c s id q GC M G E) as [s' [Rn En]].
    { eapply inv_nosent; eauto. }
    exists s'. cbn [app]. split; auto. split; auto. pose proof (own_evs_len (st q) id). lia.
Qed.

(* rank of the requester's program counter: every own step strictly increases it, so an attempt takes at most five own steps *)
Definition rank (x : rst) : nat :=
  match x with
  | RInit => 0 | RSent | RRegistered => 1 | RWaiting => 2 | RGot _ | RTimedSel | RCancelSel => 3
  | RDone _ | RTimedOut | RCancelled | RSendErr => 4
  end.
Definition own_event (e : ev) (id : N) : bool :=
  match e with
  | Register i | Send i | SendFail i | SelRecv i | SelTimeout i | SelCancel i | Dereg i => i =? id
  | _ => false
  end.

Lemma rank_monotone c s e s' id q : step c s e = Some s' -> get (reqs s) id = Some q ->
  exists q', get (reqs s') id = Some q' /\ (rank (st q) <= rank (st q'))%nat /\
             (own_event e id = true -> rank (st q) < rank (st q'))%nat.
Proof.
  intros H G. destruct e; step_cases H; unf; cbn [own_event].
  all: try (destruct (note_arrival_fwd s (rid (tmsg t0)) _ _ G) as [q' [G' [E1 _]]]).
  all: gs; try congruence.
  all: repeat match goal with Ha : get (reqs ?s) ?k = Some _, Hb : get (reqs ?s) ?k = Some _ |- _ =>
        tryif constr_eq Ha Hb then fail else (rewrite Ha in Hb; injection Hb; intros; subst; clear Hb) end.
  all: repeat match goal with Ha : get ?m ?k = Some _, Hb : get ?m ?k = Some _ |- _ =>
        tryif constr_eq Ha Hb then fail else (rewrite Ha in Hb; injection Hb; intros; subst; clear Hb) end.
  all: dreq.
  all: try solve [eexists; split; [reflexivity|]; cbn; split; [lia | intros; try discriminate; try lia]].
  all: try solve [eexists; split; [eassumption|]; cbn; split; [lia | intros HH; try discriminate; try lia; try (apply N.eqb_eq in HH; congruence)]].
Qed.

Fixpoint count_own (es : list ev) (id : N) : nat :=
  match es with [] => 0 | e :: es' => (if own_event e id then 1 else 0) + count_own es' id end.

Lemma own_steps_bounded c es : forall s s' id q, run c s es = Some s' -> get (reqs s) id = Some q ->
  exists q', get (reqs s') id = Some q' /\ (rank (st q) + count_own es id <= rank (st q'))%nat.
Proof.
  induction es; intros s s' id q H G; cbn in *.
  - injection H as <-. exists q. split; auto. lia.
  - destruct (step c s a) as [s1|] eqn:S; try discriminate.
    destruct (rank_monotone _ _ _ _ _ _ S G) as [q1 [G1 [L1 L2]]].
    destruct (IHes _ _ _ _ H G1) as [q' [G' L']]. exists q'. split; auto.
    destruct (own_event a id); [specialize (L2 eq_refl)|]; lia.
Qed.

Lemma rank_le4 x : (rank x <= 4)%nat.
Proof. destruct x; cbn; lia. Qed.

Lemma attempt_own_steps_le4 c es s s' id q : run c s es = Some s' -> get (reqs s) id = Some q -> (count_own es id <= 4)%nat.
Proof.
  intros H G. destruct (own_steps_bounded _ _ _ _ _ _ H G) as [q' [_ L]]. pose proof (rank_le4 (st q')). lia.
Qed.

(* ================= the code before the fix: refutation witnesses ================= *)

Definition r1 : resp := mkResp 1 42.

(* response handled between send and registration: dropped as unknown, the attempt then times out *)
Definition lost_reply_schedule : list ev :=
  [NewCall 1; Send 1; Respond 7 r1; Lock 7; Deliver 7; Register 1; Fire 1; SelTimeout 1; Dereg 1].

Lemma orig_loses_early_reply :
  exists s q, run orig init lost_reply_schedule = Some s /\ get (reqs s) 1 = Some q /\
              arrived q = true /\ st q = RTimedOut /\ In r1 (emitted s).
Proof. eexists. eexists. vm_compute. repeat split; auto. Qed.

(* the same schedule on the repaired code is not even possible (registration precedes the send), and the
   corresponding schedule delivers the response *)
Definition early_reply_schedule_fixed : list ev :=
  [NewCall 1; Register 1; Send 1; Respond 7 r1; Lock 7; Deliver 7; Fire 1; SelTimeout 1; Dereg 1].
Lemma fixed_keeps_early_reply :
  exists s q, run fixed init early_reply_schedule_fixed = Some s /\ get (reqs s) 1 = Some q /\ st q = RDone r1 /\ chans s = [].
Proof. eexists. eexists. vm_compute. repeat split; auto. Qed.

(* response racing the timeout: onResponse holds resMu and blocks on the unbuffered channel, the requester has taken
   the timeout branch and waits for resMu *)
Definition deadlock_schedule : list ev :=
  [NewCall 1; Send 1; Register 1; Respond 7 r1; Lock 7; Fire 1; SelTimeout 1].

Definition deadlock_state : state :=
  Eval vm_compute in match run orig init deadlock_schedule with Some s => s | None => init end.

Lemma deadlock_reachable : run orig init deadlock_schedule = Some deadlock_state.
Proof. vm_compute. reflexivity. Qed.

Definition dead (s : state) : Prop :=
  mu s = Some 7 /\
  (exists th, get (thrs s) 7 = Some th /\ tpc th = THold /\ rid (tmsg th) = 1) /\
  (forall t th, get (thrs s) t = Some th -> tpc th = THold -> t = 7) /\
  mem 1 (chans s) = true /\
  (exists q, get (reqs s) 1 = Some q /\ st q = RTimedSel).

Lemma dead_deadlock_state : dead deadlock_state.
Proof.
  unfold dead, deadlock_state. cbn [mu thrs chans reqs]. split; auto.
  split. { eexists. cbn. repeat split. }
  split. { intros t th. cbn [get]. destruct (7 =? t) eqn:E; [apply N.eqb_eq in E; auto | discriminate]. }
  split; auto. eexists; split; reflexivity.
Qed.

Lemma dead_blocked s : dead s -> step orig s (Deliver 7) = None /\ step orig s (Dereg 1) = None.
Proof.
  intros [M [[th [G [P Rd]]] [U [C [q [Gq S]]]]]]. split; cbn [step].
  - rewrite G, P, Rd, C. destruct (note_arrival_fwd s 1 _ _ Gq) as [q' [G' [E1 _]]]. rewrite G'. cbn.
    rewrite E1, S. reflexivity.
  - rewrite M. reflexivity.
Qed.

Lemma dead_forever_step s e s' : dead s -> step orig s e = Some s' -> dead s'.
Proof.
  intros D H. pose proof (dead_blocked _ D) as [B1 B2].
  destruct D as [M [[th [G [P Rd]]] [U [C [q [Gq S]]]]]].
  destruct e; try (step_cases H; unf; try congruence; fail).
  11: { assert (t = 7); [|subst; congruence]. cbn [step] in H. destruct (get (thrs s) t) eqn:Gt; try discriminate.
        destruct (tpc t0) eqn:Pt; try discriminate. eapply U; eauto. }
  all: step_cases H; unf; unfold dead; cbn [mu thrs chans reqs].
  all: try (split; [auto|]; split; [eauto|]; split; [auto|]; split; [auto|]).
  all: try solve [rewrite ?get_set;
         repeat match goal with |- context [?a =? 1] => let E := fresh "E" in destruct (a =? 1) eqn:E;
                  [apply N.eqb_eq in E; subst; congruence|] end; eauto].
  { rewrite !get_set. destruct (id =? 1) eqn:E1; [apply N.eqb_eq in E1; subst; congruence|].
    destruct (old =? 1) eqn:E2; [apply N.eqb_eq in E2; subst|eauto].
    rewrite Gq in Heqo. injection Heqo as <-. rewrite S in Heqb. discriminate. }
  all: split; auto; rewrite get_set; (destruct (t =? 7) eqn:E; [apply N.eqb_eq in E; subst; congruence|]);
       (split; [eauto|]); (split; [|eauto]);
       intros t1 th1; rewrite get_set; (destruct (t =? t1) eqn:E1; [intros X; injection X as <-; cbn; discriminate | apply U]).
Qed.

Theorem deadlock_permanent : forall es s', run orig deadlock_state es = Some s' -> dead s'.
Proof.
  induction es using rev_ind; intros s' H.
  - cbn in H. injection H as <-. apply dead_deadlock_state.
  - rewrite run_app in H. destruct (run orig deadlock_state es) eqn:E; try discriminate.
    cbn in H. destruct (step orig s x) eqn:E2; try discriminate. injection H as <-.
    eapply dead_forever_step; eauto.
Qed.

(* a buffered channel alone (blocking send kept) does not remove the deadlock: a duplicate response blocks *)
Definition buffered_blocking : cfg := mkCfg true true false false 3.
Definition duplicate_schedule : list ev :=
  [NewCall 1; Register 1; Send 1; Respond 7 r1; Respond 8 r1; Lock 7; Deliver 7; Fire 1; SelTimeout 1; Lock 8].
Lemma buffer_alone_insufficient :
  exists s, run buffered_blocking init duplicate_schedule = Some s /\ mu s = Some 8 /\
            step buffered_blocking s (Deliver 8) = None /\ step buffered_blocking s (Dereg 1) = None.
Proof. eexists. vm_compute. repeat split. Qed.

Lemma fixed_survives_duplicate :
  exists s q, run fixed init (duplicate_schedule ++ [Deliver 8; Dereg 1]) = Some s /\ get (reqs s) 1 = Some q /\
              st q = RDone r1 /\ chans s = [] /\ mu s = None.
Proof. eexists. eexists. vm_compute. repeat split. Qed.

(* the generated skeletons determine the configurations *)
Lemma skel_fixed_cfg : cfg_of_skel skel_send_fixed skel_onresp_fixed 3 = Some fixed.
Proof. vm_compute. reflexivity. Qed.
Lemma skel_orig_cfg : cfg_of_skel skel_send_orig skel_onresp_orig 3 = Some orig.
Proof. vm_compute. reflexivity. Qed.
Lemma fixed_good : good fixed = true.
Proof. reflexivity. Qed.


Lemma progress_refuted :
  run orig init deadlock_schedule = Some deadlock_state /\
  mu deadlock_state = Some 7 /\ step orig deadlock_state (Deliver 7) = None /\ step orig deadlock_state (Dereg 1) = None /\
  forall es s', run orig deadlock_state es = Some s' ->
    mu s' = Some 7 /\ (exists q, get (reqs s') 1 = Some q /\ st q = RTimedSel) /\ mem 1 (chans s') = true.
Proof.
  split. exact deadlock_reachable.
  pose proof (dead_blocked _ dead_deadlock_state) as [B1 B2].
  split. reflexivity. split. exact B1. split. exact B2.
  intros es s' H. pose proof (deadlock_permanent es s' H) as [M [_ [_ [C Q]]]]. auto.
Qed.

(* ---- messages dropped before the lock *)
Lemma drop_only_bad c s t s' : step c s (Drop t) = Some s' ->
  (exists th, get (thrs s) t = Some th /\ tpc th = TBad) /\ reqs s' = reqs s /\ chans s' = chans s /\ mu s' = mu s.
Proof.
  intros H. cbn [step] in H. destruct (get (thrs s) t) as [th|] eqn:G; try discriminate.
  destruct (tpc th) eqn:P; try discriminate. injection H as <-. cbn. repeat split; eauto.
Qed.

Lemma bad_thread_inert c s t th : get (thrs s) t = Some th -> tpc th = TBad ->
  step c s (Lock t) = None /\ step c s (Deliver t) = None.
Proof.
  intros G P. cbn [step]. rewrite G, P. destruct (mu s); auto.
Qed.

(* a message that reaches the lookup (the only place where [arrived] is set) was not one of the dropped kind *)
Lemma deliver_only_wellformed c s t s' : step c s (Deliver t) = Some s' ->
  exists th, get (thrs s) t = Some th /\ tpc th = THold.
Proof.
  intros H. cbn [step] in H. destruct (get (thrs s) t) as [th|] eqn:G; try discriminate.
  destruct (tpc th) eqn:P; try discriminate. eauto.
Qed.
