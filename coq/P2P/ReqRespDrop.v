(* C17 — messages dropped before the lock, over arbitrary continuations. *)
From Coq Require Import List NArith Bool Lia.
From LE Require Import P2P.ReqResp P2P.ReqRespProofs.
Import ListNotations.
Local Open Scope N_scope.

Definition inert (x : tst) : Prop := x = TBad \/ x = TEnd.

Lemma bad_stays_inert_step c s e s' t th : step c s e = Some s' -> get (thrs s) t = Some th -> inert (tpc th) ->
  exists th', get (thrs s') t = Some th' /\ inert (tpc th') /\ tmsg th' = tmsg th.
Proof.
  intros H G I. destruct e; step_cases H; cbn [thrs]; unfold unlock_end; cbn [thrs]; eauto.
  all: gs; try congruence; eauto.
  all: try solve [destruct I; congruence].
  all: try solve [eexists; split; [reflexivity|]; cbn; split; [right; auto | auto]].
  rewrite Heqo in G. injection G as <-. eexists; split; [reflexivity|]. cbn. split; [right; auto | auto].
Qed.

(* over ANY continuation from ANY state: the goroutine of a message that will be dropped before the lock never takes resMu and never
   delivers; all it ever does is end *)
Lemma bad_message_never_delivered c es : forall s s' t th, run c s es = Some s' -> get (thrs s) t = Some th -> inert (tpc th) ->
  (exists th', get (thrs s') t = Some th' /\ inert (tpc th')) /\
  forall pre e post, es = pre ++ e :: post -> e <> Lock t /\ e <> Deliver t.
Proof.
  induction es as [|e es IH]; intros s s' t th R G I.
  - cbn in R. injection R as <-. split; eauto. intros [|? ?] ? ? E; discriminate.
  - cbn in R. destruct (step c s e) as [s1|] eqn:S; try discriminate.
    destruct (bad_stays_inert_step _ _ _ _ _ _ S G I) as [th1 [G1 [I1 _]]].
    destruct (IH _ _ _ _ R G1 I1) as [P Q]. split; auto.
    intros pre e0 post E. destruct pre as [|x pre]; cbn in E; injection E as <- E.
    + split; intros ->; cbn [step] in S; rewrite G in S; destruct I as [I|I]; rewrite I in S;
        try discriminate; destruct (mu s); discriminate.
    + eapply Q; eauto.
Qed.
