(* C18 — proofs about the gater / node model (P2P/Gater.v). *)
From Coq Require Import List ZArith NArith Bool Lia.
From LE Require Import P2P.Gater.
Import ListNotations.
Local Open Scope Z_scope.

Ltac deq :=
  repeat match goal with
  | |- context [(?a =? ?b)%N] => let E := fresh "E" in destruct (a =? b)%N eqn:E; [apply N.eqb_eq in E; subst | apply N.eqb_neq in E]
  | H : context [(?a =? ?b)%N] |- _ => let E := fresh "E" in destruct (a =? b)%N eqn:E; [apply N.eqb_eq in E; subst | apply N.eqb_neq in E]
  end.

Lemma add_penalty_score g ip amt now :
  snd (add_penalty g ip amt now) = score_of g ip + amt /\
  score_of (fst (add_penalty g ip amt now)) ip = score_of g ip + amt /\
  (forall k, k <> ip -> sc (fst (add_penalty g ip amt now)) k = sc g k) /\
  blk (fst (add_penalty g ip amt now)) = blk g /\ exp_secs (fst (add_penalty g ip amt now)) = exp_secs g.
Proof.
  unfold add_penalty, score_of; cbn. rewrite N.eqb_refl. repeat split; auto.
  - destruct (sc g ip); cbn; lia.
  - destruct (sc g ip); cbn; lia.
  - intros k Hk. apply N.eqb_neq in Hk. rewrite Hk. auto.
Qed.

Lemma exp_secs_gstep g e : exp_secs (gstep g e) = exp_secs g.
Proof. destruct e; cbn; auto. Qed.

Lemma score_other g ip ip' amt now : ip' <> ip -> score_of (fst (add_penalty g ip' amt now)) ip = score_of g ip.
Proof. intros H. unfold score_of. destruct (add_penalty_score g ip' amt now) as [_ [_ [O _]]]. rewrite O; auto. Qed.

(* penalties accumulate per IP *)
Lemma penalties_accumulate es : forall g ip, no_sweep es -> score_of (grun g es) ip = score_of g ip + pen_sum ip es.
Proof.
  induction es; intros g ip NS; cbn. lia.
  assert (NS' : no_sweep es) by (intros now I; apply (NS now); right; auto).
  unfold grun in *. cbn [fold_left]. rewrite IHes; auto.
  destruct a; cbn [gstep pen_sum].
  - destruct (N.eq_dec ip0 ip) as [->|D].
    + rewrite N.eqb_refl. destruct (add_penalty_score g ip amt now) as [_ [S _]]. rewrite S. lia.
    + rewrite score_other; auto. apply N.eqb_neq in D. rewrite D. lia.
  - exfalso. apply (NS now). left; auto.
  - reflexivity.
  - reflexivity.
Qed.

(* reaching the threshold bans, until now + expiry *)
Lemma threshold_bans g ip amt now : max_penalty <= score_of g ip + amt -> now + exp_secs g <> -1 ->
  banned (fst (add_penalty g ip amt now)) ip = true /\ expiry_of (fst (add_penalty g ip amt now)) ip = now + exp_secs g.
Proof.
  intros H NE. unfold banned, expiry_of, add_penalty, score_of in *; cbn. rewrite N.eqb_refl. cbn.
  assert (max_penalty <=? match sc g ip with Some i => score i + amt | None => amt end = true) as ->.
  { apply Z.leb_le. destruct (sc g ip); lia. }
  split; auto. apply negb_true_iff. apply Z.eqb_neq. auto.
Qed.

(* below the threshold a penalty never creates a ban *)
Lemma below_threshold_no_new_ban g ip amt now : score_of g ip + amt < max_penalty ->
  banned (fst (add_penalty g ip amt now)) ip = banned g ip.
Proof.
  intros H. unfold banned, add_penalty, score_of in *; cbn. rewrite N.eqb_refl. cbn.
  assert (max_penalty <=? match sc g ip with Some i => score i + amt | None => amt end = false) as ->.
  { apply Z.leb_gt. destruct (sc g ip); lia. }
  destruct (sc g ip); auto.
Qed.

Definition consistent (g : gater) : Prop := forall ip, banned g ip = true <-> max_penalty <= score_of g ip.
Definition timed (es : list gev) : Prop := forall ip amt now, In (EPenalty ip amt now) es -> 0 <= now.

Lemma consistent_step g e : 0 <= exp_secs g -> consistent g ->
  (forall ip amt now, e = EPenalty ip amt now -> 0 <= amt /\ 0 <= now) -> consistent (gstep g e).
Proof.
  intros EX C H ip. destruct e; cbn [gstep].
  - destruct (H _ _ _ eq_refl) as [A T]. destruct (N.eq_dec ip0 ip) as [->|D].
    + destruct (add_penalty_score g ip amt now) as [_ [S _]]. rewrite S.
      destruct (Z_le_gt_dec max_penalty (score_of g ip + amt)).
      * destruct (threshold_bans g ip amt now l) as [B _]. lia. rewrite B. tauto.
      * rewrite below_threshold_no_new_ban by lia. specialize (C ip). split; intros; try lia.
        apply C in H0. lia.
    + rewrite score_other; auto. unfold banned. destruct (add_penalty_score g ip0 amt now) as [_ [_ [O _]]].
      rewrite O; auto. apply C.
  - specialize (C ip). unfold banned, score_of, sweep in *; cbn. unfold max_penalty in *. destruct (sc g ip) as [p|]; cbn.
    + destruct (negb (expiration p =? -1)) eqn:B; cbn.
      * destruct (expiration p <? now); cbn; [split; [discriminate | lia] | rewrite B; auto].
      * rewrite B. auto.
    + split; [discriminate | lia].
  - apply C.
  - apply C.
Qed.

(* ban <-> threshold, for every event sequence with non-negative penalties *)
Lemma ban_iff_threshold es : forall g, 0 <= exp_secs g -> consistent g -> nonneg es -> timed es -> consistent (grun g es).
Proof.
  induction es; intros g EX C NN TM; cbn; auto. apply IHes.
  - rewrite exp_secs_gstep; auto.
  - apply consistent_step; auto. intros ip amt now ->. split; [eapply NN | eapply TM]; left; eauto.
  - intros ip amt now I. eapply NN; right; eauto.
  - intros ip amt now I. eapply TM; right; eauto.
Qed.

Lemma consistent_empty e : consistent (empty_gater e).
Proof. intros ip. cbn. unfold max_penalty. split; [discriminate | lia]. Qed.

(* a ban appears only through a penalty that reaches the threshold (any amounts, also negative) *)
Lemma ban_only_via_threshold g e ip : banned g ip = false -> banned (gstep g e) ip = true ->
  exists amt now, e = EPenalty ip amt now /\ max_penalty <= score_of g ip + amt.
Proof.
  intros B0 B1. destruct e; cbn [gstep] in B1.
  - destruct (N.eq_dec ip0 ip) as [->|D].
    + exists amt, now. split; auto. destruct (Z_le_gt_dec max_penalty (score_of g ip + amt)); auto.
      rewrite below_threshold_no_new_ban in B1 by lia. congruence.
    + unfold banned in *. destruct (add_penalty_score g ip0 amt now) as [_ [_ [O _]]]. rewrite O in B1; auto. congruence.
  - unfold banned, sweep in *; cbn in *. destruct (sc g ip); try discriminate.
    rewrite B0 in B1. cbn in B1. rewrite B0 in B1. discriminate.
  - unfold banned in *; cbn in *; congruence.
  - unfold banned in *; cbn in *; congruence.
Qed.

(* ---- the gates *)
Lemma refused_everywhere g ip :
  (banned g ip || blk g ip = true) <->
  (intercept_addr_dial g (Some ip) = false /\ intercept_accept g (Some ip) = false /\
   intercept_secured g Inbound (Some ip) = false /\ outbound_ok g (Some ip) = false /\ inbound_ok g (Some ip) = false).
Proof.
  unfold outbound_ok, inbound_ok, intercept_addr_dial, intercept_accept, intercept_secured, intercept_peer_dial,
    intercept_upgraded, allowed. destruct (banned g ip), (blk g ip); cbn; intuition discriminate.
Qed.

Lemma accepted_everywhere g ip :
  (banned g ip = false /\ blk g ip = false) <-> (outbound_ok g (Some ip) = true /\ inbound_ok g (Some ip) = true).
Proof.
  unfold outbound_ok, inbound_ok, intercept_addr_dial, intercept_accept, intercept_secured, intercept_peer_dial,
    intercept_upgraded, allowed. destruct (banned g ip), (blk g ip); cbn; intuition discriminate.
Qed.

Lemma banned_until_banned g ip T : banned_until g ip T -> banned g ip = true.
Proof. intros [i [S [NE _]]]. unfold banned. rewrite S. apply negb_true_iff. apply Z.eqb_neq. auto. Qed.

Lemma ban_persists_step g e ip T : 0 <= T -> banned_until g ip T -> respects ip T g e -> banned_until (gstep g e) ip T.
Proof.
  intros T0 [i [S [NE LE]]] R. destruct e; cbn [gstep].
  - destruct (N.eq_dec ip0 ip) as [->|D].
    + unfold banned_until, add_penalty; cbn. rewrite N.eqb_refl, S. cbn in R. specialize (R eq_refl).
      eexists; split; [reflexivity|]. cbn. destruct (max_penalty <=? score i + amt); split; auto; lia.
    + exists i. destruct (add_penalty_score g ip0 amt now) as [_ [_ [O _]]]. rewrite O; auto.
  - exists i. cbn in R. cbn. rewrite S.
    assert (expiration i <? now = false) as -> by (apply Z.ltb_ge; lia). rewrite andb_false_r. auto.
  - exists i. auto.
  - exists i. auto.
Qed.

(* a ban lasts: no sequence of events whose sweeps happen no later than T (and whose further penalties on the IP are
   applied at non-decreasing times) ends a ban that runs until T; the IP stays refused at every gate *)
Lemma ban_persists es : forall g ip T, 0 <= T -> banned_until g ip T -> Forall (respects ip T g) es ->
  banned_until (grun g es) ip T.
Proof.
  induction es; intros g ip T T0 B F; cbn; auto. inversion F; subst. apply IHes; auto.
  - apply ban_persists_step; auto.
  - eapply Forall_impl; [|exact H2]. intros e. unfold respects. rewrite exp_secs_gstep. auto.
Qed.

(* expiry: the first sweep after the expiration time removes the entry: accepted again (unless blacklisted), clean score *)
Lemma accepted_again_clean g ip now : banned g ip = true -> expiry_of g ip < now ->
  let g' := sweep g now in
  sc g' ip = None /\ score_of g' ip = 0 /\ banned g' ip = false /\
  outbound_ok g' (Some ip) = negb (blk g ip) /\ inbound_ok g' (Some ip) = negb (blk g ip) /\
  (forall amt t, snd (add_penalty g' ip amt t) = amt).
Proof.
  intros B E. unfold banned, expiry_of in *. destruct (sc g ip) eqn:S; try discriminate.
  assert (X : sc (sweep g now) ip = None).
  { cbn. rewrite S, B. cbn. assert (expiration p <? now = true) as -> by (apply Z.ltb_lt; lia). auto. }
  cbn zeta. repeat split.
  - exact X.
  - unfold score_of. rewrite X. auto.
  - unfold banned. rewrite X. auto.
  - unfold outbound_ok, intercept_addr_dial, allowed, banned. rewrite X. cbn. destruct (blk g ip); auto.
  - unfold inbound_ok, intercept_accept, intercept_secured, allowed, banned. rewrite X. cbn. destruct (blk g ip); auto.
  - intros. unfold add_penalty. rewrite X. auto.
Qed.

(* the sweep touches nothing else: unbanned entries (however old) and unexpired bans stay *)
Lemma sweep_keeps g ip now : (banned g ip = false \/ now <= expiry_of g ip) -> sc (sweep g now) ip = sc g ip.
Proof.
  unfold banned, expiry_of. cbn. destruct (sc g ip); auto. intros [H|H].
  - rewrite H. auto.
  - assert (expiration p <? now = false) as -> by (apply Z.ltb_ge; lia). rewrite andb_false_r. auto.
Qed.

(* ---- node level *)
Lemma disconnect_not_connected cs pid : existsb (fun c => (fst c =? pid)%N) (disconnect cs pid) = false.
Proof.
  induction cs; cbn; auto. destruct (fst a =? pid)%N eqn:E; cbn; auto. rewrite E. auto.
Qed.

Lemma threshold_disconnects n ip pid amt now : max_penalty <= score_of (gt n) ip + amt -> now + exp_secs (gt n) <> -1 ->
  let n' := peer_add_penalty n (ip, Some pid) amt now in
  banned (gt n') ip = true /\ connected n' pid = false.
Proof.
  intros H NE. unfold peer_add_penalty. cbn [fst snd].
  destruct (add_penalty (gt n) ip amt now) as [g' ns] eqn:A.
  pose proof (add_penalty_score (gt n) ip amt now) as [S1 _]. pose proof (threshold_bans (gt n) ip amt now H NE) as [B _].
  rewrite A in *. cbn in S1, B. subst ns.
  assert (max_penalty <=? score_of (gt n) ip + amt = true) as -> by (apply Z.leb_le; auto).
  cbn. split; auto. apply disconnect_not_connected.
Qed.

(* malformed envelope / unknown procedure (repaired code): the IP is banned AND the peer is disconnected *)
Lemma bad_message_bans_and_disconnects n pid ip now : 0 <= score_of (gt n) ip -> now + exp_secs (gt n) <> -1 ->
  let n' := on_bad_message true n pid ip now in
  banned (gt n') ip = true /\ connected n' pid = false /\ score_of (gt n') ip = score_of (gt n) ip + max_penalty.
Proof.
  intros H NE. unfold on_bad_message, peer_ban. cbn [fst snd].
  destruct (add_penalty (gt n) ip max_penalty now) as [g' ns] eqn:A.
  pose proof (add_penalty_score (gt n) ip max_penalty now) as [_ [S2 _]].
  assert (H' : max_penalty <= score_of (gt n) ip + max_penalty) by lia.
  pose proof (threshold_bans (gt n) ip max_penalty now H' NE) as [B _].
  rewrite A in *. cbn in *. repeat split; auto. apply disconnect_not_connected.
Qed.

(* the code before the fix: the ban is recorded but the sender stays connected *)
Definition node0 : node := mkNode (empty_gater 86400) [(5%N, 9%N)].
Lemma bad_message_orig_keeps_connection :
  let n' := on_bad_message false node0 5%N 9%N 1000 in
  banned (gt n') 9%N = true /\ connected n' 5%N = true.
Proof. vm_compute. auto. Qed.
Lemma bad_message_fixed_example :
  let n' := on_bad_message true node0 5%N 9%N 1000 in
  banned (gt n') 9%N = true /\ connected n' 5%N = false.
Proof. vm_compute. auto. Qed.

(* a banned or blacklisted IP cannot (re)connect in either direction *)
Lemma no_connection_while_refused n pid ip : banned (gt n) ip || blk (gt n) ip = true ->
  connect_in n pid ip = n /\ connect_out n pid ip = n.
Proof.
  intros H. apply refused_everywhere in H. destruct H as [_ [_ [_ [O I]]]].
  unfold connect_in, connect_out. rewrite O, I. auto.
Qed.

(* ---- a peer connected from several IPs: BanPeer bans every one of them and disconnects the peer *)
Definition nonneg_scores (g : gater) : Prop := forall ip, 0 <= score_of g ip.

Lemma peer_ban_effect n ip pid now : nonneg_scores (gt n) -> 0 <= now -> 0 <= exp_secs (gt n) ->
  let n' := peer_ban n (ip, Some pid) now in
  banned (gt n') ip = true /\ nonneg_scores (gt n') /\ exp_secs (gt n') = exp_secs (gt n) /\
  (forall k, banned (gt n) k = true -> banned (gt n') k = true) /\ connected n' pid = false /\
  (forall q, connected n q = false -> connected n' q = false).
Proof.
  intros NN T E. unfold peer_ban. cbn [fst snd].
  pose proof (add_penalty_score (gt n) ip max_penalty now) as [S1 [S2 [O [_ EX]]]].
  assert (H' : max_penalty <= score_of (gt n) ip + max_penalty) by (specialize (NN ip); lia).
  pose proof (threshold_bans (gt n) ip max_penalty now H') as [B _]. lia.
  destruct (add_penalty (gt n) ip max_penalty now) as [g' ns]. cbn in *.
  split; auto. split.
  { intros k. destruct (N.eq_dec k ip) as [->|D]. rewrite S2. specialize (NN ip). unfold max_penalty. lia.
    unfold score_of. rewrite O; auto. apply NN. }
  split; auto. split.
  { intros k Bk. destruct (N.eq_dec k ip) as [->|D]; auto. unfold banned in *. rewrite O; auto. }
  split. apply disconnect_not_connected.
  intros q Cq. unfold connected in *. cbn. induction (conns n) as [|c cs IH]; cbn in *; auto.
  apply orb_false_iff in Cq. destruct Cq as [C1 C2]. destruct (negb (fst c =? pid)%N); cbn; auto. rewrite C1. auto.
Qed.

Lemma ban_fold cs : forall n pid now, nonneg_scores (gt n) -> 0 <= now -> 0 <= exp_secs (gt n) ->
  let n' := fold_left (fun n' (c : N * N) => peer_ban n' (snd c, Some pid) now) cs n in
  (forall c, In c cs -> banned (gt n') (snd c) = true) /\
  (forall k, banned (gt n) k = true -> banned (gt n') k = true) /\
  (cs <> [] \/ connected n pid = false -> connected n' pid = false).
Proof.
  induction cs as [|c cs IH]; intros n pid now NN T E; cbn [fold_left].
  - split. intros c []. split; auto. intros [H|H]; auto. congruence.
  - pose proof (peer_ban_effect n (snd c) pid now NN T E) as [B [NN' [EX [K [D _]]]]].
    specialize (IH (peer_ban n (snd c, Some pid) now) pid now NN' T). rewrite EX in IH. specialize (IH E).
    destruct IH as [I1 [I2 I3]]. split.
    + intros x [<-|Hx]; auto.
    + split; auto.
Qed.

Lemma ban_peer_all_ips n pid now : nonneg_scores (gt n) -> 0 <= now -> 0 <= exp_secs (gt n) -> connected n pid = true ->
  let n' := ban_peer_id n pid now in
  (forall ip, In (pid, ip) (conns n) -> banned (gt n') ip = true /\ inbound_ok (gt n') (Some ip) = false /\
                                        outbound_ok (gt n') (Some ip) = false) /\
  connected n' pid = false.
Proof.
  intros NN T E C. unfold ban_peer_id.
  pose proof (ban_fold (filter (fun c => (fst c =? pid)%N) (conns n)) n pid now NN T E) as [I1 [_ I3]].
  split.
  - intros ip Hin. assert (B : banned (gt (fold_left (fun n' (c : N * N) => peer_ban n' (snd c, Some pid) now)
                                    (filter (fun c => (fst c =? pid)%N) (conns n)) n)) ip = true).
    { apply (I1 (pid, ip)). apply filter_In. split; auto. cbn. apply N.eqb_refl. }
    split; auto. match type of B with banned ?g _ = true =>
      assert (R : banned g ip || blk g ip = true) by (rewrite B; reflexivity); apply refused_everywhere in R; tauto end.
  - apply I3. left. unfold connected in C. intros F.
    assert (X : existsb (fun c => (fst c =? pid)%N) (conns n) = false).
    { clear - F. induction (conns n) as [|c cs IH]; cbn in *; auto. destruct (fst c =? pid)%N; [discriminate | auto]. }
    congruence.
Qed.

(* ---- time: with sweeps that keep coming, a ban that is not renewed ends: entry gone (clean score), accepted again *)
Definition no_pen (ip : N) (es : list gev) : Prop := forall amt t, ~ In (EPenalty ip amt t) es.

Lemma none_stable es : forall g ip, no_pen ip es -> sc g ip = None -> sc (grun g es) ip = None.
Proof.
  induction es as [|e es IH]; intros g ip NP S; cbn; auto. apply IH.
  - intros amt t I. apply (NP amt t). right; auto.
  - destruct e; cbn.
    + destruct (N.eq_dec ip0 ip) as [->|D]. exfalso. apply (NP amt now). left; auto.
      apply N.eqb_neq in D. rewrite N.eqb_sym, D. auto.
    + rewrite S. auto.
    + auto.
    + auto.
Qed.

Lemma expired_ban_is_swept es : forall g ip i, no_pen ip es -> sc g ip = Some i -> expiration i <> -1 ->
  (exists now, In (ESweep now) es /\ expiration i < now) -> sc (grun g es) ip = None.
Proof.
  induction es as [|e es IH]; intros g ip i NP S NE [now [I L]]; cbn. destruct I.
  assert (NP' : no_pen ip es) by (intros amt t I'; apply (NP amt t); right; auto).
  destruct e.
  - destruct (N.eq_dec ip0 ip) as [->|D]. exfalso. apply (NP amt now0). left; auto.
    destruct I as [I|I]; [discriminate|]. apply (IH _ _ i); eauto.
    cbn. apply N.eqb_neq in D. rewrite N.eqb_sym, D. auto.
  - destruct (Z_lt_dec (expiration i) now0) as [Lt|Ge].
    + apply none_stable; auto. cbn. rewrite S.
      assert (negb (expiration i =? -1) = true) as -> by (apply negb_true_iff, Z.eqb_neq; auto).
      assert (expiration i <? now0 = true) as -> by (apply Z.ltb_lt; auto). reflexivity.
    + destruct I as [I|I]; [injection I as ->; lia|]. apply (IH _ _ i); eauto.
      cbn. rewrite S. assert (expiration i <? now0 = false) as -> by (apply Z.ltb_ge; lia). rewrite andb_false_r. auto.
  - destruct I as [I|I]; [discriminate|]. apply (IH _ _ i); eauto.
  - destruct I as [I|I]; [discriminate|]. apply (IH _ _ i); eauto.
Qed.

(* the whole life of a ban in one statement: a penalty that reaches the threshold at time t bans; while every sweep comes no
   later than t + exp the IP is refused on both paths whatever else happens (other IPs, blacklist changes, further penalties on
   it at non-decreasing times); if it is not penalised again, the first sweep after t + exp removes the entry and every later
   state (any events not touching the IP) accepts it again, unless blacklisted, with a clean score *)
Theorem ban_lifecycle g ip amt t es1 es2 :
  0 <= t -> 0 <= exp_secs g -> max_penalty <= score_of g ip + amt ->
  let g1 := fst (add_penalty g ip amt t) in
  let T := t + exp_secs g in
  (Forall (respects ip T g1) es1 ->
     banned (grun g1 es1) ip = true /\ inbound_ok (grun g1 es1) (Some ip) = false /\ outbound_ok (grun g1 es1) (Some ip) = false) /\
  (no_pen ip es2 -> (exists now, In (ESweep now) es2 /\ T < now) ->
     sc (grun g1 es2) ip = None /\ score_of (grun g1 es2) ip = 0 /\ banned (grun g1 es2) ip = false).
Proof.
  intros T0 E0 H. cbn zeta.
  pose proof (threshold_bans g ip amt t H) as [B X]. lia.
  set (g1 := fst (add_penalty g ip amt t)) in *.
  assert (BU : banned_until g1 ip (t + exp_secs g)).
  { unfold banned, expiry_of in *. destruct (sc g1 ip) as [i|] eqn:S; try discriminate. exists i. split; auto.
    split. apply negb_true_iff, Z.eqb_neq in B; auto. lia. }
  split.
  - intros F. assert (BU' : banned_until (grun g1 es1) ip (t + exp_secs g)) by (apply ban_persists; auto; lia).
    pose proof (banned_until_banned _ _ _ BU') as B'. split; auto.
    assert (R : banned (grun g1 es1) ip || blk (grun g1 es1) ip = true) by (rewrite B'; reflexivity).
    apply refused_everywhere in R. tauto.
  - intros NP [now [I L]]. destruct BU as [i [S [NE LE]]].
    assert (Ei : expiration i = t + exp_secs g) by (unfold expiry_of in X; rewrite S in X; auto).
    assert (N0 : sc (grun g1 es2) ip = None).
    { apply (expired_ban_is_swept es2 g1 ip i); auto. exists now. split; auto. lia. }
    unfold score_of, banned. rewrite N0. auto.
Qed.

(* non-vacuity: penalties 60 + 40 on IP 9 at t = 1000, 1001 (ban 5 s); other traffic and sweeps every 2 s *)
Definition timed_schedule : list gev :=
  [EPenalty 9 60 1000; EPenalty 9 40 1001; ESweep 1002; EPenalty 8 30 1003; ESweep 1004; EBlock 7; ESweep 1006; ESweep 1008].
Example timed_schedule_runs :
  let g n := grun (empty_gater 5) (firstn n timed_schedule) in
  (banned (g 2%nat) 9%N, banned (g 7%nat) 9%N, inbound_ok (g 7%nat) (Some 9%N), sc (g 8%nat) 9%N, inbound_ok (g 8%nat) (Some 9%N),
   score_of (g 8%nat) 8%N, inbound_ok (g 8%nat) (Some 7%N)) = (true, true, false, None, true, 30, false).
Proof. vm_compute. reflexivity. Qed.
Example respects_nonvacuous :
  Forall (respects 9%N 1006 (grun (empty_gater 5) (firstn 2 timed_schedule))) [ESweep 1002; EPenalty 8 30 1003; ESweep 1004; EBlock 7; ESweep 1006] /\
  banned_until (grun (empty_gater 5) (firstn 2 timed_schedule)) 9%N 1006.
Proof.
  split. repeat constructor; cbn; try lia; try discriminate.
  eexists. split. vm_compute. reflexivity. cbn. split; [discriminate | lia].
Qed.

(* ---- blacklist permanence and the lifecycle over ONE run *)
Lemma blk_permanent es : forall g ip, ~ In (EUnblock ip) es -> blk g ip = true -> blk (grun g es) ip = true.
Proof.
  induction es as [|e es IH]; intros g ip NU B; cbn; auto. apply IH.
  - intros I. apply NU. right; auto.
  - destruct e; cbn; auto.
    + destruct (ip =? ip0)%N; auto.
    + destruct (ip =? ip0)%N eqn:E; auto. apply N.eqb_eq in E. subst. exfalso. apply NU. left; auto.
Qed.

(* a blacklisted IP stays refused on both paths through every event sequence that does not unblock it *)
Lemma blacklisted_refused_forever es g ip : ~ In (EUnblock ip) es -> blk g ip = true ->
  inbound_ok (grun g es) (Some ip) = false /\ outbound_ok (grun g es) (Some ip) = false.
Proof.
  intros NU B. pose proof (blk_permanent es g ip NU B) as B'.
  assert (R : banned (grun g es) ip || blk (grun g es) ip = true) by (rewrite B'; apply orb_true_r).
  apply refused_everywhere in R. tauto.
Qed.

Lemma grun_app es1 es2 g : grun g (es1 ++ es2) = grun (grun g es1) es2.
Proof. unfold grun. apply fold_left_app. Qed.

(* one run: ban at t; es1 = anything that respects the (possibly renewed) ban; es2 = no further penalty on the IP and a sweep later
   than the expiry the ban has after es1. At the end the IP is accepted on both paths iff it is not blacklisted. *)
Theorem ban_lifecycle_one_run g ip amt t es1 es2 :
  0 <= t -> 0 <= exp_secs g -> max_penalty <= score_of g ip + amt ->
  let g1 := fst (add_penalty g ip amt t) in
  Forall (respects ip (t + exp_secs g) g1) es1 ->
  no_pen ip es2 -> (exists now, In (ESweep now) es2 /\ expiry_of (grun g1 es1) ip < now) ->
  let gf := grun g1 (es1 ++ es2) in
  banned (grun g1 es1) ip = true /\ sc gf ip = None /\
  inbound_ok gf (Some ip) = negb (blk gf ip) /\ outbound_ok gf (Some ip) = negb (blk gf ip).
Proof.
  intros T0 E0 H. cbn zeta. intros F NP [now [I L]].
  destruct (ban_lifecycle g ip amt t es1 [] T0 E0 H) as [P1 _]. destruct (P1 F) as [B _].
  set (g2 := grun (fst (add_penalty g ip amt t)) es1) in *.
  unfold banned, expiry_of in *. destruct (sc g2 ip) as [i|] eqn:S; try discriminate.
  assert (NE : expiration i <> -1) by (apply negb_true_iff, Z.eqb_neq in B; auto).
  rewrite grun_app. fold g2.
  assert (N0 : sc (grun g2 es2) ip = None) by (apply (expired_ban_is_swept es2 g2 ip i); eauto).
  split; auto. split; auto.
  unfold inbound_ok, outbound_ok, intercept_accept, intercept_addr_dial, intercept_secured, intercept_peer_dial, intercept_upgraded,
    allowed, banned. rewrite N0. cbn. destruct (blk (grun g2 es2) ip); auto.
Qed.
