(* C18 — catalogue of the penalty call sites of the code base.  translate/penalties regenerates the list of every call of
   ApplyPenalty / BanPeer / banPeer / addPenalty (file and function of the ENTRY POINT that reaches it - exported function, handler
   closure or function value; calls made inside unexported same-package helpers are attributed to the helper's callers with the
   guard chains concatenated and parameters substituted -, callee, chain of guarding conditions incl. "not(c)" after an
   `if c { ...; return }` other than plain error propagation) into
   Gen/Penalties.v; Properties/C18.v requires it to equal [map fst expected_sites].  Each site is classified by the kind of
   peer behaviour that reaches it; the classes are the ones named in the property text plus the internal plumbing
   (ApplyPenalty/BanPeer -> Peer.addPenalty/banPeer -> connectionGater.addPenalty, modelled in P2P/Gater.v). *)
From Coq Require Import List String Bool.
Import ListNotations.
Local Open Scope string_scope.

Record psite := mkSite { ps_file : string; ps_fn : string; ps_callee : string; ps_guard : string }.

Inductive offence :=
| MalformedEnvelope        (* request/response envelope does not decode *)
| UnknownProc              (* no handler registered for the procedure *)
| InvalidSyncRequest       (* sync RPC handler: request payload missing / undecodable / empty / wrong ID length *)
| InvalidSyncResponse      (* syncing node: the peer's answer is invalid, not better, below finality, or fails processing *)
| RateAboveLimit           (* more than limit messages of a procedure in an interval *)
| Plumbing                 (* forwarding inside pkg/p2p, no decision taken here *)
| SyncPeerNotAhead.        (* block sync: the selected peer's (valid) last block does not have priority over our tip: see docs/C18.md *)

Definition offence_code (o : offence) : nat :=
  match o with MalformedEnvelope => 0 | UnknownProc => 1 | InvalidSyncRequest => 2 | InvalidSyncResponse => 3
             | RateAboveLimit => 4 | Plumbing => 5 | SyncPeerNotAhead => 6 end.

Definition expected_sites : list (psite * offence) :=
  [(mkSite "pkg/consensus/sync/block_sync.go" "blockSyncer.Sync" "s.conn.BanPeer"
      "err := networkLastBlockHeader.Validate(); err != nil", InvalidSyncResponse);
   (mkSite "pkg/consensus/sync/block_sync.go" "blockSyncer.Sync" "s.conn.BanPeer"
      "lastBlockHeader.Version == 2 | !forkchoice.IsDifferentChain(lastBlockHeader.MaxHeightPrevoted, networkLastBlockHeader.MaxHeightPrevoted, lastBlockHeader.Height, networkLastBlockHeader.Height)", SyncPeerNotAhead);
   (mkSite "pkg/consensus/sync/block_sync.go" "blockSyncer.Sync" "s.conn.BanPeer"
      "range downloader.downloaded | not(downloaded.err != nil) | err := downloaded.block.Validate(); err != nil", InvalidSyncResponse);
   (mkSite "pkg/consensus/sync/fast_sync.go" "fastSyncer.Sync" "s.conn.BanPeer"
      "err != nil | errors.Is(err, errCommonBlockNotFound)", InvalidSyncResponse);
   (mkSite "pkg/consensus/sync/fast_sync.go" "fastSyncer.Sync" "s.conn.BanPeer"
      "commonBlockHeader.Height < ctx.FinalizedBlockHeader.Height", InvalidSyncResponse);
   (mkSite "pkg/consensus/sync/fast_sync.go" "fastSyncer.Sync" "s.conn.BanPeer"
      "not(commonBlockHeader.Height < ctx.FinalizedBlockHeader.Height) | not(lastBlockHeader.Height-commonBlockHeader.Height > twoRounds || ctx.Block.Header.Height-commonBlockHeader.Height > twoRounds) | range downloader.downloaded | not(downloaded.err != nil) | err := downloaded.block.Validate(); err != nil", InvalidSyncResponse);
   (mkSite "pkg/consensus/sync/fast_sync.go" "fastSyncer.Sync" "s.conn.BanPeer"
      "not(commonBlockHeader.Height < ctx.FinalizedBlockHeader.Height) | not(lastBlockHeader.Height-commonBlockHeader.Height > twoRounds || ctx.Block.Header.Height-commonBlockHeader.Height > twoRounds) | range downloadedBlocks | err := s.processor(ctx.Ctx, block, publish, false); err != nil", InvalidSyncResponse);
   (mkSite "pkg/consensus/sync/sync.go" "Syncer.HandleRPCEndpointGetHighestCommonBlock/func" "s.conn.BanPeer"
      "r.Data == nil", InvalidSyncRequest);
   (mkSite "pkg/consensus/sync/sync.go" "Syncer.HandleRPCEndpointGetHighestCommonBlock/func" "s.conn.BanPeer"
      "not(r.Data == nil) | err := req.Decode(r.Data); err != nil", InvalidSyncRequest);
   (mkSite "pkg/consensus/sync/sync.go" "Syncer.HandleRPCEndpointGetHighestCommonBlock/func" "s.conn.BanPeer"
      "not(r.Data == nil) | len(req.IDs) == 0", InvalidSyncRequest);
   (mkSite "pkg/consensus/sync/sync.go" "Syncer.HandleRPCEndpointGetHighestCommonBlock/func" "s.conn.BanPeer"
      "not(r.Data == nil) | not(len(req.IDs) == 0) | range req.IDs | len(id) != 32", InvalidSyncRequest);
   (mkSite "pkg/consensus/sync/sync.go" "Syncer.HandleRPCEndpointGetBlocksFromID/func" "s.conn.BanPeer"
      "r.Data == nil", InvalidSyncRequest);
   (mkSite "pkg/consensus/sync/sync.go" "Syncer.HandleRPCEndpointGetBlocksFromID/func" "s.conn.BanPeer"
      "not(r.Data == nil) | err := req.Decode(r.Data); err != nil", InvalidSyncRequest);
   (mkSite "pkg/consensus/sync/sync.go" "Syncer.HandleRPCEndpointGetBlocksFromID/func" "s.conn.BanPeer"
      "not(r.Data == nil) | len(req.ID) != blockchain.IDLength", InvalidSyncRequest);
   (mkSite "pkg/p2p/message_protocol.go" "MessageProtocol.start/func" "mp.peer.banPeer"
      "err := newMsg.Decode(buf); err != nil", MalformedEnvelope);
   (mkSite "pkg/p2p/message_protocol.go" "MessageProtocol.start/func" "mp.peer.banPeer"
      "!exist", UnknownProc);
   (mkSite "pkg/p2p/message_protocol.go" "MessageProtocol.start/func" "mp.rateLimit.peer.addPenalty"
      "not(!exist) | not(mp.rateLimit.peer == nil) | msgCounter.counters[remoteID] > msgCounter.limit", RateAboveLimit);
   (mkSite "pkg/p2p/message_protocol.go" "MessageProtocol.onResponse" "mp.peer.banPeer"
      "err := newMsg.Decode(buf); err != nil", MalformedEnvelope);
   (mkSite "pkg/p2p/message_protocol.go" "MessageProtocol.onResponse" "mp.peer.banPeer"
      "!exist", UnknownProc);
   (mkSite "pkg/p2p/message_protocol.go" "MessageProtocol.onResponse" "mp.rateLimit.peer.addPenalty"
      "not(!exist) | not(mp.rateLimit.peer == nil) | msgCounter.counters[remoteID] > msgCounter.limit", RateAboveLimit);
   (mkSite "pkg/p2p/p2p.go" "Connection.ApplyPenalty" "conn.addPenalty"
      "range conn.Peer.host.Network().ConnsToPeer(pid)", Plumbing);
   (mkSite "pkg/p2p/p2p.go" "Connection.BanPeer" "conn.Peer.banPeer"
      "range conn.Peer.host.Network().ConnsToPeer(pid)", Plumbing);
   (mkSite "pkg/p2p/peer.go" "Peer.addPenalty" "p.connGater.addPenalty"
      "", Plumbing);
   (mkSite "pkg/p2p/peer.go" "Peer.banPeer" "p.connGater.addPenalty"
      "", Plumbing)].

(* functions / interface methods that declare one of the four names *)
Definition expected_decls : list string :=
  ["pkg/p2p/conngater.go:connectionGater.addPenalty";
   "pkg/p2p/p2p.go:Connection.ApplyPenalty";
   "pkg/p2p/p2p.go:Connection.BanPeer";
   "pkg/p2p/peer.go:Peer.addPenalty";
   "pkg/p2p/peer.go:Peer.banPeer";
   "pkg/txpool/txpool.go:interface p2pConnection.ApplyPenalty"].

Definition is_plumbing (o : offence) : bool := match o with Plumbing => true | _ => false end.
Definition count_class (o : offence) : nat :=
  List.length (filter (fun x => Nat.eqb (offence_code (snd x)) (offence_code o)) expected_sites).

(* every deciding site sits under a guard; the plumbing sites are exactly the forwarding chain modelled in Gater.v *)
Definition sites_well_guarded : bool :=
  forallb (fun x => is_plumbing (snd x) || negb (String.eqb (ps_guard (fst x)) "")) expected_sites.
