(* Lexicographic byte-string order = Go's bytes.Compare: keys are [list N]; a proper prefix is smaller.
   Laws (total, transitive, antisymmetric), prefix facts, the successor key [k ++ [0]] and
   pkg/db/db.go upperBound. *)
From Coq Require Import List NArith Bool Lia.
Import ListNotations.
Local Open Scope N_scope.

Definition key := list N.

Fixpoint lex_cmp (a b : key) : comparison :=
  match a, b with
  | [], [] => Eq
  | [], _ :: _ => Lt
  | _ :: _, [] => Gt
  | x :: a', y :: b' => match x ?= y with Eq => lex_cmp a' b' | c => c end
  end.

Definition ltb (a b : key) : bool := match lex_cmp a b with Lt => true | _ => false end.
Definition leb (a b : key) : bool := match lex_cmp a b with Gt => false | _ => true end.
Definition keqb (a b : key) : bool := match lex_cmp a b with Eq => true | _ => false end.

Definition key_eq_dec : forall a b : key, {a = b} + {a <> b} := list_eq_dec N.eq_dec.

Lemma lex_cmp_refl : forall a, lex_cmp a a = Eq.
Proof. induction a as [|x a IH]; simpl; auto. rewrite N.compare_refl. exact IH. Qed.

Lemma lex_cmp_eq : forall a b, lex_cmp a b = Eq -> a = b.
Proof.
  induction a as [|x a IH]; destruct b as [|y b]; simpl; intros H; try discriminate; auto.
  destruct (N.compare_spec x y); try discriminate. subst. f_equal. auto.
Qed.

Lemma lex_cmp_antisym : forall a b, lex_cmp b a = CompOpp (lex_cmp a b).
Proof.
  induction a as [|x a IH]; destruct b as [|y b]; simpl; auto.
  rewrite (N.compare_antisym x y). destruct (x ?= y); simpl; auto.
Qed.

Lemma lex_cmp_lt_trans : forall a b c, lex_cmp a b = Lt -> lex_cmp b c = Lt -> lex_cmp a c = Lt.
Proof.
  induction a as [|x a IH]; destruct b as [|y b]; destruct c as [|z c]; simpl; intros H1 H2; try discriminate; auto.
  destruct (N.compare_spec x y); try discriminate; destruct (N.compare_spec y z); try discriminate; subst.
  - rewrite N.compare_refl. eauto.
  - apply N.compare_lt_iff in H0. rewrite H0. reflexivity.
  - apply N.compare_lt_iff in H. rewrite H. reflexivity.
  - assert (x < z) by lia. apply N.compare_lt_iff in H3. rewrite H3. reflexivity.
Qed.

Lemma keqb_eq : forall a b, keqb a b = true <-> a = b.
Proof.
  unfold keqb. intros a b. split.
  - destruct (lex_cmp a b) eqn:E; try discriminate. intros _. apply lex_cmp_eq; auto.
  - intros ->. rewrite lex_cmp_refl. reflexivity.
Qed.

Lemma keqb_refl : forall a, keqb a a = true.
Proof. intros. apply keqb_eq. reflexivity. Qed.

Lemma keqb_neq : forall a b, keqb a b = false <-> a <> b.
Proof.
  intros a b. split.
  - intros H E. apply keqb_eq in E. congruence.
  - intros H. destruct (keqb a b) eqn:E; auto. apply keqb_eq in E. contradiction.
Qed.

Lemma keqb_sym : forall a b, keqb a b = keqb b a.
Proof.
  intros. destruct (keqb a b) eqn:E.
  - apply keqb_eq in E. subst. symmetry. apply keqb_refl.
  - symmetry. apply keqb_neq. apply keqb_neq in E. congruence.
Qed.

Lemma ltb_irrefl : forall a, ltb a a = false.
Proof. intros. unfold ltb. rewrite lex_cmp_refl. reflexivity. Qed.

Lemma leb_refl : forall a, leb a a = true.
Proof. intros. unfold leb. rewrite lex_cmp_refl. reflexivity. Qed.

Lemma ltb_trans : forall a b c, ltb a b = true -> ltb b c = true -> ltb a c = true.
Proof.
  unfold ltb. intros a b c H1 H2.
  destruct (lex_cmp a b) eqn:E1; try discriminate. destruct (lex_cmp b c) eqn:E2; try discriminate.
  rewrite (lex_cmp_lt_trans _ _ _ E1 E2). reflexivity.
Qed.

Lemma ltb_negb_leb : forall a b, ltb a b = negb (leb b a).
Proof. intros. unfold ltb, leb. rewrite (lex_cmp_antisym a b). destruct (lex_cmp a b); reflexivity. Qed.

Lemma leb_negb_ltb : forall a b, leb a b = negb (ltb b a).
Proof. intros. rewrite ltb_negb_leb. rewrite negb_involutive. reflexivity. Qed.

Lemma ltb_leb : forall a b, ltb a b = true -> leb a b = true.
Proof. unfold ltb, leb. intros a b. destruct (lex_cmp a b); auto. Qed.

Lemma leb_iff : forall a b, leb a b = true <-> ltb a b = true \/ a = b.
Proof.
  intros a b. unfold leb, ltb. destruct (lex_cmp a b) eqn:E; split; intros H; auto; try discriminate.
  - right. apply lex_cmp_eq; auto.
  - destruct H as [H|H]; try discriminate. subst. rewrite lex_cmp_refl in E. discriminate.
Qed.

Lemma leb_ltb_trans : forall a b c, leb a b = true -> ltb b c = true -> ltb a c = true.
Proof. intros a b c H1 H2. apply leb_iff in H1. destruct H1 as [H1| ->]; eauto using ltb_trans. Qed.

Lemma ltb_leb_trans : forall a b c, ltb a b = true -> leb b c = true -> ltb a c = true.
Proof. intros a b c H1 H2. apply leb_iff in H2. destruct H2 as [H2| <-]; eauto using ltb_trans. Qed.

Lemma leb_trans : forall a b c, leb a b = true -> leb b c = true -> leb a c = true.
Proof.
  intros a b c H1 H2. apply leb_iff in H1. destruct H1 as [H1| ->]; auto.
  apply ltb_leb. eapply ltb_leb_trans; eauto.
Qed.

Lemma leb_antisym : forall a b, leb a b = true -> leb b a = true -> a = b.
Proof.
  intros a b H1 H2. apply leb_iff in H1. destruct H1 as [H1|]; auto.
  rewrite ltb_negb_leb in H1. rewrite H2 in H1. discriminate.
Qed.

Lemma leb_total : forall a b, leb a b = true \/ leb b a = true.
Proof. intros. rewrite (leb_negb_ltb a b). destruct (ltb b a) eqn:E; auto using ltb_leb. Qed.

Lemma ltb_asym : forall a b, ltb a b = true -> ltb b a = false.
Proof. intros a b H. rewrite ltb_negb_leb. rewrite (ltb_leb _ _ H). reflexivity. Qed.

Lemma ltb_neq : forall a b, ltb a b = true -> a <> b.
Proof. intros a b H E. subst. rewrite ltb_irrefl in H. discriminate. Qed.

Lemma ltb_total : forall a b, a <> b -> ltb a b = true \/ ltb b a = true.
Proof.
  intros a b N. destruct (ltb a b) eqn:E; auto. right. rewrite ltb_negb_leb in E.
  apply negb_false_iff in E. apply leb_iff in E. destruct E; congruence.
Qed.

Lemma nil_leb : forall a, leb [] a = true.
Proof. destruct a; reflexivity. Qed.

Lemma ltb_nil : forall a, ltb a [] = false.
Proof. destruct a; reflexivity. Qed.

(* ---- prefixes ---- *)
Fixpoint is_prefix (p k : key) : bool :=
  match p, k with
  | [], _ => true
  | _ :: _, [] => false
  | x :: p', y :: k' => (x =? y) && is_prefix p' k'
  end.

Lemma is_prefix_spec : forall p k, is_prefix p k = true <-> exists r, k = p ++ r.
Proof.
  induction p as [|x p IH]; intros k; simpl.
  - split; eauto.
  - destruct k as [|y k].
    + split; [discriminate|]. intros [r H]. discriminate.
    + rewrite andb_true_iff, N.eqb_eq, IH. split.
      * intros [-> [r ->]]. eauto.
      * intros [r H]. inversion H; subst. eauto.
Qed.

Lemma is_prefix_app : forall p r, is_prefix p (p ++ r) = true.
Proof. intros. apply is_prefix_spec. eauto. Qed.

Lemma lex_cmp_app : forall p a b, lex_cmp (p ++ a) (p ++ b) = lex_cmp a b.
Proof. induction p as [|x p IH]; intros; simpl; auto. rewrite N.compare_refl. apply IH. Qed.

Lemma ltb_app : forall p a b, ltb (p ++ a) (p ++ b) = ltb a b.
Proof. intros. unfold ltb. rewrite lex_cmp_app. reflexivity. Qed.

Lemma leb_app : forall p a b, leb (p ++ a) (p ++ b) = leb a b.
Proof. intros. unfold leb. rewrite lex_cmp_app. reflexivity. Qed.

Lemma skipn_app_exact : forall (p r : key), skipn (length p) (p ++ r) = r.
Proof. induction p; simpl; auto. Qed.

(* every key between two keys that carry the prefix p carries the prefix p *)
Lemma between_prefix : forall p s e k,
  leb (p ++ s) k = true -> leb k (p ++ e) = true -> is_prefix p k = true.
Proof.
  induction p as [|x p IH]; intros s e k H1 H2; simpl; auto.
  destruct k as [|y k]; [simpl in H1; discriminate|].
  unfold leb in *. simpl in H1, H2.
  destruct (N.compare_spec x y) as [E|L|G]; subst.
  - rewrite N.compare_refl in H2. rewrite N.eqb_refl, ?N.compare_refl. simpl. eapply IH; eauto.
  - assert (G : (y ?= x) = Gt) by (apply N.compare_gt_iff; lia). rewrite G in H2. discriminate.
  - discriminate.
Qed.

(* the smallest key strictly greater than e is e ++ [0] *)
Lemma ltb_succ : forall k e, ltb k (e ++ [0]) = leb k e.
Proof.
  induction k as [|y k IH]; intros e.
  - destruct e; reflexivity.
  - destruct e as [|x e].
    + unfold ltb, leb. simpl. destruct (N.compare_spec y 0); try reflexivity; try lia; destruct k; reflexivity.
    + unfold ltb, leb in *. simpl. destruct (y ?= x); auto.
Qed.

(* ---- pkg/db/db.go upperBound: increment the last byte that is not 0xff and cut there; nil if none ---- *)
Definition wf_key (k : key) : Prop := Forall (fun b => b < 256) k.
Definition wf_keyb (k : key) : bool := forallb (fun b => b <? 256) k.

Lemma wf_keyb_spec : forall k, wf_keyb k = true <-> wf_key k.
Proof.
  intros. unfold wf_keyb, wf_key. rewrite forallb_forall, Forall_forall.
  split; intros H x Hx; specialize (H x Hx); [apply N.ltb_lt in H|apply N.ltb_lt]; auto.
Qed.

Fixpoint upper_bound (b : key) : option key :=
  match b with
  | [] => None
  | x :: t =>
      match upper_bound t with
      | Some t' => Some (x :: t')
      | None => let y := (x + 1) mod 256 in if y =? 0 then None else Some [y]
      end
  end.

Definition below_ub (k : key) (ub : option key) : bool :=
  match ub with Some u => ltb k u | None => true end.

Lemma upper_bound_spec : forall p k, wf_key p -> wf_key k ->
  is_prefix p k = (leb p k && below_ub k (upper_bound p)).
Proof.
  induction p as [|x p IH]; intros k Hp Hk.
  - simpl. rewrite nil_leb. reflexivity.
  - inversion Hp as [|? ? Hx Hp']; subst.
    destruct k as [|y k]; [reflexivity|].
    inversion Hk as [|? ? Hy Hk']; subst.
    specialize (IH k Hp' Hk'). simpl is_prefix. simpl upper_bound.
    destruct (upper_bound p) as [u|] eqn:Eu.
    + simpl below_ub in *. unfold leb, ltb in *. simpl.
      destruct (N.compare_spec x y) as [E|L|G]; subst.
      * rewrite N.eqb_refl, ?N.compare_refl. simpl. exact IH.
      * assert (Hn : (x =? y) = false) by (apply N.eqb_neq; lia). rewrite Hn. simpl.
        assert (G : (y ?= x) = Gt) by (apply N.compare_gt_iff; lia). rewrite G. reflexivity.
      * assert (Hn : (x =? y) = false) by (apply N.eqb_neq; lia). rewrite Hn. reflexivity.
    + simpl below_ub in IH. rewrite andb_true_r in IH.
      destruct ((x + 1) mod 256 =? 0) eqn:Ez.
      * (* x = 255 *)
        apply N.eqb_eq in Ez. assert (Hx255 : x = 255).
        { destruct (N.eq_dec x 255); auto. rewrite N.mod_small in Ez by lia. lia. }
        simpl below_ub. rewrite andb_true_r. unfold leb in *. cbn [is_prefix lex_cmp].
        destruct (N.compare_spec x y) as [E|L|G].
        -- subst y. rewrite N.eqb_refl. simpl. exact IH.
        -- lia.
        -- assert (Hn : (x =? y) = false) by (apply N.eqb_neq; lia). rewrite Hn. reflexivity.
      * apply N.eqb_neq in Ez. assert (Hx' : x < 255).
        { destruct (N.eq_dec x 255); [subst; exfalso; apply Ez; reflexivity|lia]. }
        rewrite N.mod_small by lia. simpl below_ub. unfold leb, ltb in *. simpl.
        destruct (N.compare_spec x y) as [E|L|G]; subst.
        -- rewrite N.eqb_refl, ?N.compare_refl. simpl.
           assert (L : (y ?= y + 1) = Lt) by (apply N.compare_lt_iff; lia). rewrite L.
           rewrite andb_true_r. exact IH.
        -- assert (Hn : (x =? y) = false) by (apply N.eqb_neq; lia). rewrite Hn. simpl.
           destruct (N.compare_spec y (x + 1)) as [E'|L'|G']; try reflexivity; try lia.
           subst. destruct k; reflexivity.
        -- assert (Hn : (x =? y) = false) by (apply N.eqb_neq; lia). rewrite Hn. reflexivity.
Qed.
