From Coq Require Import List NArith Bool.
Local Open Scope N_scope.
(* shared result code for correspondence evaluators *)
Definition code (agree_model agree_spec : bool) : N :=
  (if agree_model then 0 else 1) + (if agree_spec then 0 else 2).
