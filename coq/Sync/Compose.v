(* Composition: the downloader (Sync.Download) against an HONEST responder (the getBlocksFromID handler of Sync.Handlers)
   delivers exactly the responder's blocks after the start block up to its tip, across as many requests as the 103-block
   cap makes necessary; with Sync.Converge this is "the node ends on the peer's chain".
   Also: the common-block search of block sync (block_sync.go getCommonBlockHeader, three trials, uint32 arithmetic). *)
From Coq Require Import List NArith Bool Arith Lia.
From LE Require Import Sync.Handlers Sync.HandlersProofs Sync.Download.
Import ListNotations.

(* consecutive heights attached to IDs (nat heights, as Download.blk) *)
Fixpoint numb (h : nat) (l : list N) : list blk :=
  match l with [] => [] | x :: t => (h, x) :: numb (S h) t end.

Lemma numb_app : forall a b h, numb h (a ++ b) = numb h a ++ numb (h + length a) b.
Proof.
  induction a as [|x a IH]; intros b h; cbn [app numb length]; [rewrite Nat.add_0_r; reflexivity|].
  rewrite IH. replace (S h + length a) with (h + S (length a)) by lia. reflexivity.
Qed.

(* a chunk that does not contain the target: all of it is accepted, more is needed *)
Lemma consume_chunk : forall l last endh endid acc,
  ~ In endid l -> last + length l <= endh ->
  consume (numb (S last) l) last endh endid acc = (acc ++ numb (S last) l, last + length l, More).
Proof.
  induction l as [|x l IH]; intros last endh endid acc Hn Hle; cbn [numb consume length].
  - rewrite app_nil_r, Nat.add_0_r. reflexivity.
  - cbn [fst snd]. assert (E1 : (S last <=? last) = false) by (apply Nat.leb_gt; lia).
    assert (E2 : (endh <? S last) = false) by (apply Nat.ltb_ge; cbn [length] in Hle; lia). rewrite E1, E2. cbn [orb].
    assert (E3 : N.eqb x endid = false) by (apply N.eqb_neq; intros ->; apply Hn; left; reflexivity). rewrite E3.
    rewrite IH; [|intros H; apply Hn; right; exact H|cbn [length] in Hle; lia].
    rewrite <- app_assoc. cbn [app length]. f_equal. f_equal. lia.
Qed.

(* a chunk whose last element is the target *)
Lemma consume_final : forall l last endh endid acc,
  ~ In endid l -> last + length l + 1 <= endh ->
  consume (numb (S last) (l ++ [endid])) last endh endid acc = (acc ++ numb (S last) (l ++ [endid]), last + length l + 1, Done).
Proof.
  induction l as [|x l IH]; intros last endh endid acc Hn Hle; cbn [app numb consume length].
  - cbn [fst snd]. assert (E1 : (S last <=? last) = false) by (apply Nat.leb_gt; lia).
    assert (E2 : (endh <? S last) = false) by (apply Nat.ltb_ge; cbn in Hle; lia). rewrite E1, E2, N.eqb_refl. cbn [orb].
    f_equal. f_equal. lia.
  - cbn [fst snd]. assert (E1 : (S last <=? last) = false) by (apply Nat.leb_gt; lia).
    assert (E2 : (endh <? S last) = false) by (apply Nat.ltb_ge; cbn [length] in Hle; lia). rewrite E1, E2. cbn [orb].
    assert (E3 : N.eqb x endid = false) by (apply N.eqb_neq; intros ->; apply Hn; left; reflexivity). rewrite E3.
    rewrite IH; [|intros H; apply Hn; right; exact H|cbn [length] in Hle; lia].
    rewrite <- app_assoc. cbn [app length]. f_equal. f_equal. lia.
Qed.

Lemma skipn_add : forall (A : Type) a b (l : list A), skipn (a + b) l = skipn b (skipn a l).
Proof.
  induction a as [|a IH]; intros b l; [reflexivity|]. destruct l as [|x l]; cbn [Nat.add skipn]; [destruct b; reflexivity|apply IH].
Qed.

Section Honest.
  Variable cap : nat.
  Hypothesis cap_pos : 0 < cap.

  (* the k-th answer of a responder that serves, from the block last delivered, the next [cap] blocks of the suffix [r] *)
  Definition serves (resp : nat -> option (list blk)) (k last : nat) (r : list N) : Prop :=
    forall j, cap * j < length r -> resp (k + j) = Some (numb (S (last + cap * j)) (firstn cap (skipn (cap * j) r))).

  Lemma honest_download : forall fuel l resp k last endh endid acc,
    length l < fuel -> ~ In endid l -> last + length l + 1 = endh ->
    serves resp k last (l ++ [endid]) ->
    download resp k fuel last endh endid acc = (acc ++ numb (S last) (l ++ [endid]), DlOk).
  Proof.
    induction fuel as [|f IH]; intros l resp k last endh endid acc Hf Hn He Hs; [lia|].
    cbn [download]. pose proof (Hs 0 ltac:(rewrite app_length; cbn; lia)) as H0. rewrite Nat.add_0_r, Nat.mul_0_r, Nat.add_0_r in H0. cbn [skipn] in H0. rewrite H0.
    destruct (Compare_dec.le_lt_dec (length (l ++ [endid])) cap) as [Hsmall|Hbig].
    - (* the rest fits into one answer *)
      rewrite firstn_all2 by exact Hsmall.
      pose proof (consume_final l last endh endid acc Hn ltac:(lia)) as Hc.
      destruct (numb (S last) (l ++ [endid])) as [|b0 bs] eqn:Eb; [destruct l; discriminate|].
      rewrite Hc. reflexivity.
    - (* a full chunk without the target, then the rest *)
      rewrite app_length in Hbig. cbn [length] in Hbig.
      assert (Hsplit : firstn cap (l ++ [endid]) = firstn cap l) by (rewrite firstn_app; replace (cap - length l) with 0 by lia; rewrite firstn_O, app_nil_r; reflexivity).
      rewrite Hsplit.
      assert (Hlen : length (firstn cap l) = cap) by (rewrite firstn_length; lia).
      assert (Hnc : ~ In endid (firstn cap l)) by (intros H; apply Hn; rewrite <- (firstn_skipn cap l); apply in_or_app; left; exact H).
      pose proof (consume_chunk (firstn cap l) last endh endid acc Hnc ltac:(lia)) as Hc. rewrite Hlen in Hc.
      destruct (numb (S last) (firstn cap l)) as [|b0 bs] eqn:Eb.
      { destruct (firstn cap l); [cbn in Hlen; lia|discriminate]. }
      rewrite Hc.
      rewrite (IH (skipn cap l) resp (S k) (last + cap) endh endid (acc ++ b0 :: bs)).
      + assert (Hd : numb (S last) (l ++ [endid]) = numb (S last) (firstn cap l) ++ numb (S (last + cap)) (skipn cap l ++ [endid])).
        { rewrite <- (firstn_skipn cap l) at 1. rewrite <- app_assoc, numb_app, Hlen.
          replace (S last + cap) with (S (last + cap)) by lia. reflexivity. }
        rewrite Hd, Eb, <- app_assoc. reflexivity.
      + rewrite skipn_length. lia.
      + intros H. apply Hn. rewrite <- (firstn_skipn cap l). apply in_or_app. right. exact H.
      + rewrite skipn_length. lia.
      + intros j Hj. rewrite app_length, skipn_length in Hj. cbn [length] in Hj.
        specialize (Hs (S j) ltac:(rewrite app_length; cbn [length]; lia)). replace (k + S j) with (S k + j) in Hs by lia. rewrite Hs.
        replace (last + cap * S j) with (last + cap + cap * j) by lia.
        replace (cap * S j) with (cap + cap * j) by lia. rewrite skipn_add.
        f_equal. f_equal. f_equal. f_equal.
        rewrite skipn_app. replace (cap - length l) with 0 by lia. reflexivity.
  Qed.
End Honest.

(* ---------------------------------------------------------------- the responder is the getBlocksFromID handler *)
Definition to_nat_blk (b : Handlers.blk) : blk := (N.to_nat (fst b), snd b).

Lemma map_number : forall l h, map to_nat_blk (number h l) = numb (N.to_nat h) l.
Proof.
  induction l as [|x l IH]; intros h; cbn [number map numb]; [reflexivity|]. rewrite IH. unfold to_nat_blk. cbn [fst snd].
  replace (N.to_nat (h + 1)) with (S (N.to_nat h)) by lia. reflexivity.
Qed.

(* the answer to the k-th request of a download that started after index i: the handler's answer for the block at index
   i + 103 k (C19_blocks_from_id_consecutive_capped: bfi c (Some (id, true)) = BBlocks (following c m) for the id at index m) *)
Definition honest_resp (c : chain) (i k : nat) : option (list blk) := Some (map to_nat_blk (following c (i + 103 * k))).

Lemma honest_resp_serves : forall c i,
  serves 103 (honest_resp c i) 0 (N.to_nat (g0 c) + i) (skipn (S i) (ids c)).
Proof.
  intros c i j _. unfold honest_resp, following. rewrite map_number. cbn [Nat.add]. f_equal.
  replace (N.to_nat cap) with 103 by reflexivity.
  replace (S (i + 103 * j)) with (S i + 103 * j) by lia. rewrite skipn_add. f_equal. lia.
Qed.

(* an honest responder with chain c, a requester that shares block index i with it and asks up to the responder's tip:
   whatever the number of requests the cap makes necessary, exactly the responder's blocks after index i are delivered *)
Lemma honest_download_delivers_suffix : forall c i l tipid fuel,
  skipn (S i) (ids c) = l ++ [tipid] -> ~ In tipid l -> length l < fuel ->
  download (honest_resp c i) 0 fuel (N.to_nat (g0 c) + i) (N.to_nat (g0 c) + i + length l + 1) tipid [] =
  (numb (S (N.to_nat (g0 c) + i)) (skipn (S i) (ids c)), DlOk).
Proof.
  intros c i l tipid fuel Hs Hn Hf.
  rewrite (honest_download 103 ltac:(lia) fuel l (honest_resp c i) 0 (N.to_nat (g0 c) + i) _ tipid [] Hf Hn eq_refl).
  - rewrite Hs. reflexivity.
  - rewrite <- Hs. apply honest_resp_serves.
Qed.

(* the IDs delivered are the responder's suffix: with C19_honest_peer_converges_partial (blocks := this list) the node
   ends on the responder's chain pre ++ cid :: suffix *)
Lemma delivered_ids : forall l h, map snd (numb h l) = l.
Proof. induction l as [|x l IH]; intros h; cbn [numb map snd]; [reflexivity|]. rewrite IH. reflexivity. Qed.

(* ---------------------------------------------------------------- end to end: handlers + downloader + sync state machines *)
From LE Require Import Sync.Converge Sync.ConvergeProofs.

Definition ending_of (e : dl_end) : ending := match e with DlOk => EndOk | _ => EndErr end.

(* the peer's chain (genesis at height 0) is pre ++ cid :: suffix, ours is pre ++ cid :: own; the peer is honest: it
   names cid as the common block and serves getBlocksFromID through the handler; every block of its suffix is valid.
   Then, whatever the length of the suffix (any number of 103-block requests), block sync and — within two rounds —
   fast sync end exactly on the peer's chain. *)
Lemma honest_sync_ends_on_peer_chain : forall valid finality rs cs ba n c pre cid own l tipid fuel th r2,
  g0 c = 0%N -> ids c = pre ++ cid :: l ++ [tipid] -> ~ In tipid l ->
  chain n = pre ++ cid :: own -> ~ In cid pre -> finalized n <= length pre -> (forall c', finality c' <= finalized n) ->
  all_valid valid (pre ++ [cid]) (l ++ [tipid]) -> length l < fuel ->
  let '(delivered, e) := download (honest_resp c (length pre)) 0 fuel (length pre) (length pre + length l + 1) tipid [] in
  block_sync valid finality n (Some cid) (map snd delivered) (ending_of e) =
    ({| chain := ids c; temp := []; finalized := finalized n; banned := banned n |}, Synced) /\
  (length own <= r2 -> length pre <= th -> th - length pre <= r2 -> (N.of_nat th < 4294967296)%N ->
   fast_sync valid finality rs cs ba n (Some cid) (map snd delivered) (ending_of e) th r2 =
    ({| chain := ids c; temp := []; finalized := finalized n; banned := banned n |}, Synced)).
Proof.
  intros valid finality rs cs ba n c pre cid own l tipid fuel th r2 Hg Hids Hnt Hc Hn Hf Hq Hv Hfuel.
  assert (Hsk : skipn (S (length pre)) (ids c) = l ++ [tipid]) by (rewrite Hids; apply skipn_mid).
  pose proof (honest_download_delivers_suffix c (length pre) l tipid fuel Hsk Hnt Hfuel) as Hd.
  rewrite Hg in Hd. cbn [N.to_nat Nat.add] in Hd. rewrite Hd. rewrite delivered_ids, Hsk. cbn [ending_of]. rewrite Hids. split.
  - eapply honest_peer_converges_block; eassumption.
  - intros Ho Hle Ht Hth. eapply honest_peer_converges_fast; eassumption.
Qed.

(* ---------------------------------------------------------------- block sync: search for the common block *)
(* blockSyncer.getCommonBlockHeader: up to three trials; each offers the IDs of the own blocks at
   getHeightWithGap(start, finalized, n, 10) (heights that do not exist are silently dropped by
   GetBlockHeadersByHeights); "none" from the peer moves the start to heights[len-1] - uint32(n) (uint32: it WRAPS when
   the last probed height is below n); an ID in the answer is looked up on the own chain. *)
Section Search.
  Local Open Scope N_scope.

  Inductive sresult := SFound (h : N) (id : N) | SErr | SFail.

  Definition ids_at (c : Handlers.chain) (hs : list N) : list N :=
    flat_map (fun h => match id_at c h with Some x => [x] | None => [] end) hs.

  Fixpoint search (c : Handlers.chain) (answer : list N -> option N) (fin n start : N) (trials : nat) : sresult :=
    match trials with
    | O => SFail                                             (* "fail to obtain common block" *)
    | S t =>
        let hs := height_with_gap start fin n 10 in
        match answer (ids_at c hs) with
        | Some id => match height_of_id c id with Some h => SFound h id | None => SErr end
        | None => search c answer fin n (sub32 (last hs 0) n) t
        end
    end.

  Definition common_search (c : Handlers.chain) (answer : list N -> option N) (fin n : N) : sresult :=
    search c answer fin n (start_search_height (tip_height c) n) 3.

  Lemma In_ids_at : forall c hs id, In id (ids_at c hs) -> exists h, In h hs /\ id_at c h = Some id.
  Proof.
    intros c hs id H. unfold ids_at in H. apply in_flat_map in H. destruct H as [h [Hh Hin]].
    destruct (id_at c h) as [x|] eqn:E; [|contradiction]. destruct Hin as [<-|[]]. exists h. split; assumption.
  Qed.

  Lemma id_at_height : forall c h id h', NoDup (ids c) -> id_at c h = Some id -> height_of_id c id = Some h' -> h' = h.
  Proof.
    intros c h id h' Hnd Ha Hh. unfold id_at in Ha. destruct (h <? g0 c) eqn:E; [discriminate|]. apply N.ltb_ge in E.
    unfold height_of_id in Hh. destruct (Handlers.index_of id (ids c)) as [i|] eqn:Ei; simpl in Hh; [|discriminate]. injection Hh as Hh. subst h'.
    apply index_of_Some in Ei. destruct Ei as [Ei _].
    pose proof (NoDup_nth_error_inj _ _ _ _ Hnd Ha Ei) as Hi. lia.
  Qed.

  (* with a peer that answers one of the offered IDs (or none), whatever it is: the common block the search returns lies
     on the own chain at a probed height, hence not below the finalized height (non-wrapping range of the probe bound) *)
  Lemma search_not_below_finalized : forall trials c answer fin n start h id,
    NoDup (ids c) -> (forall offered x, answer offered = Some x -> In x offered) ->
    start < W32 -> fin + 10 * n < W32 ->
    search c answer fin n start trials = SFound h id -> fin <= h /\ height_of_id c id = Some h.
  Proof.
    induction trials as [|t IH]; intros c answer fin n start h id Hnd Hans Hs Hb H; cbn [search] in H; [discriminate|].
    destruct (answer (ids_at c (height_with_gap start fin n 10))) as [x|] eqn:Ea.
    - destruct (height_of_id c x) as [hx|] eqn:Eh; [|discriminate]. injection H as <- <-.
      split; [|exact Eh]. apply Hans in Ea. apply In_ids_at in Ea. destruct Ea as [h' [Hin Hat]].
      rewrite (id_at_height c h' x hx Hnd Hat Eh).
      eapply gap_heights_not_below_minimum; [exact Hs| |exact Hin]. lia.
    - eapply IH; [exact Hnd|exact Hans| |exact Hb|exact H]. unfold sub32. apply u32_lt.
  Qed.

  Lemma common_search_not_below_finalized : forall c answer fin n h id,
    wf_chain c -> 0 < n -> (forall offered x, answer offered = Some x -> In x offered) -> fin + 10 * n < W32 ->
    common_search c answer fin n = SFound h id -> fin <= h /\ height_of_id c id = Some h.
  Proof.
    intros c answer fin n h id (Hne & Hnd & Hb) Hn Hans Hf H. unfold common_search in H.
    eapply search_not_below_finalized; [exact Hnd|exact Hans| |exact Hf|exact H].
    assert (Ht : tip_height c < W32) by (unfold tip_height; lia).
    pose proof (start_search_height_spec (tip_height c) n Hn Ht) as Hs. cbv zeta in Hs. lia.
  Qed.

  (* the uint32 wrap of `heights[len-1] - n`: after a "none" for probes ending below n the next trial starts near 2^32 *)
  Example search_start_wraps : sub32 (last (height_with_gap 4 0 4 10) 0) 4 = 4294967292.
  Proof. vm_compute. reflexivity. Qed.
End Search.

(* [honest_resp] is the getBlocksFromID handler: on a well-formed chain the k-th answer is what [bfi] returns for the block
   at index i + 103 k *)
Lemma honest_resp_is_bfi : forall (c : Handlers.chain) i k x,
  wf_chain c -> Handlers.index_of x (ids c) = Some (i + 103 * k) ->
  match bfi c (Some (x, true)) with
  | BBlocks l => honest_resp c i k = Some (map to_nat_blk l)
  | _ => False
  end.
Proof.
  intros c i k x Hwf Hi. rewrite (blocks_from_id_consecutive_capped c x (i + 103 * k) Hwf Hi). reflexivity.
Qed.
