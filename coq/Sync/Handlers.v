(* Model of the pure logic of the sync RPC handlers (pkg/consensus/sync/sync.go) and of the height helpers of
   block_sync.go / fast_sync.go.

   The responder's chain is [g0; ids]: the block at index i has height g0 + i and ID code (ids !! i); this is
   what blockchain.DataAccess presents through GetBlockHeader(id) / GetBlockByHeight(h) / LastBlock(), whether
   an entry is served from the block cache or from the database (the correspondence runs the real handlers
   over a real Chain with several cache sizes).  IDs are injective integer codes of the 32-byte IDs.
   Heights are uint32: every Go addition / subtraction that can wrap is written with [u32]. *)
From Coq Require Import List NArith Bool.
Import ListNotations.
Local Open Scope N_scope.

Definition W32 : N := 4294967296.
Definition u32 (x : N) : N := x mod W32.
(* uint32 subtraction a - b *)
Definition sub32 (a b : N) : N := u32 (a + W32 - u32 b).

Record chain := { g0 : N; ids : list N }.

Fixpoint index_of (id : N) (l : list N) : option nat :=
  match l with
  | [] => None
  | x :: t => if x =? id then Some O else option_map S (index_of id t)
  end.

(* GetBlockHeader(id): height of the block with this ID on the own chain *)
Definition height_of_id (c : chain) (id : N) : option N :=
  option_map (fun i => g0 c + N.of_nat i) (index_of id (ids c)).
(* GetBlockByHeight(h) *)
Definition id_at (c : chain) (h : N) : option N :=
  if h <? g0 c then None else nth_error (ids c) (N.to_nat (h - g0 c)).
Definition tip_height (c : chain) : N := g0 c + N.of_nat (length (ids c)) - 1.
Definition tip_id (c : chain) : option N := nth_error (ids c) (length (ids c) - 1).

Definition wf_chain (c : chain) : Prop :=
  ids c <> [] /\ NoDup (ids c) /\ g0 c + N.of_nat (length (ids c)) < W32.

Definition blk : Type := N * N.   (* height, id *)

(* ------------------------------------------------------------------ getHighestCommonBlock *)
Inductive hresp := HBan | HNoData | HFound (id : N).

(* request as decoded: None = nil / undecodable data; every ID with the flag "its length is 32" *)
Definition hreq : Type := option (list (N * bool)).

(* headers found for the requested IDs, in request order (the handler collects them from goroutines, i.e. in an
   arbitrary order: the theorems quantify over every permutation of this list) *)
Definition collect (c : chain) (req : list N) : list blk :=
  flat_map (fun id => match height_of_id c id with Some h => [(h, id)] | None => [] end) req.

(* sort.Slice(headers, height desc) as insertion; only the first element is used *)
Fixpoint insert_desc (b : blk) (l : list blk) : list blk :=
  match l with
  | [] => [b]
  | a :: t => if fst a <? fst b then b :: l else a :: insert_desc b t
  end.
Definition sort_desc (l : list blk) : list blk := fold_right insert_desc [] l.

Definition hcb_from (found : list blk) : hresp :=
  match sort_desc found with [] => HNoData | b :: _ => HFound (snd b) end.

Definition hcb (c : chain) (r : hreq) : hresp :=
  match r with
  | None => HBan
  | Some [] => HBan
  | Some l => if forallb snd l then hcb_from (collect c (map fst l)) else HBan
  end.

(* ------------------------------------------------------------------ getBlocksFromID *)
Inductive bresp := BBan | BErr | BPanic | BHang | BBlocks (l : list blk).

Definition cap : N := 103.

(* blocks at heights from, from+1, ... (n of them) through GetBlockByHeight; None if one is missing *)
Fixpoint between (c : chain) (from : N) (n : nat) : option (list blk) :=
  match n with
  | O => Some []
  | S k => match id_at c from with
           | None => None
           | Some x => option_map (cons (from, x)) (between c (from + 1) k)
           end
  end.

Fixpoint insert_asc (b : blk) (l : list blk) : list blk :=
  match l with
  | [] => [b]
  | a :: t => if fst b <? fst a then b :: l else a :: insert_asc b t
  end.
Definition sort_asc (l : list blk) : list blk := fold_right insert_asc [] l.

(* DataAccess.GetBlocksBetweenHeight(from, to): make([]*Block, to-from+1) in uint32 arithmetic, the loop
   `for h := from; h <= to; h++` fills it, then the slice is sorted; with from > to the slice holds nil blocks;
   with to = 2^32-1 the loop variable wraps and the loop never ends *)
Definition get_between (c : chain) (from to : N) : bresp :=
  let k := u32 (sub32 to from + 1) in
  if from <=? to then
    (if to =? W32 - 1 then BHang else if k =? 0 then BPanic
     else match between c from (N.to_nat k) with None => BErr | Some l => BBlocks (sort_asc l) end)
  else if k =? 0 then BBlocks [] else BPanic.

Definition breq : Type := option (N * bool).

(* ORIGINAL handler: from := h+1; to := min(h+103, last) *)
Definition bfi_orig (c : chain) (r : breq) : bresp :=
  match r with
  | None => BBan
  | Some (_, false) => BBan
  | Some (id, true) =>
      match height_of_id c id with
      | None => BErr
      | Some h => get_between c (u32 (h + 1)) (N.min (u32 (h + cap)) (tip_height c))
      end
  end.

(* REPAIRED handler: the upper bound is computed from the distance to the tip; nothing is fetched for the tip *)
Definition bfi (c : chain) (r : breq) : bresp :=
  match r with
  | None => BBan
  | Some (_, false) => BBan
  | Some (id, true) =>
      match height_of_id c id with
      | None => BErr
      | Some h =>
          let lasth := tip_height c in
          if h <? lasth then
            let to := if cap <? sub32 lasth h then u32 (h + cap) else lasth in
            get_between c (u32 (h + 1)) to
          else BBlocks []
      end
  end.

(* heights h, h+1, ... attached to a list of IDs *)
Fixpoint number (h : N) (l : list N) : list blk :=
  match l with [] => [] | x :: t => (h, x) :: number (h + 1) t end.

(* specification: the blocks following index i on the own chain, ascending, at most [cap] *)
Definition following (c : chain) (i : nat) : list blk :=
  number (g0 c + N.of_nat i + 1) (firstn (N.to_nat cap) (skipn (S i) (ids c))).

(* ------------------------------------------------------------------ getLastBlock *)
Definition last_block (c : chain) : option blk := option_map (fun x => (tip_height c, x)) (tip_id c).

(* ------------------------------------------------------------------ height helpers *)
(* getHeightWithGap(start, minimum uint32, gap, num int): `uint32(i*gap)` truncates *)
Fixpoint gap_loop (start minimum gap i : N) (fuel : nat) : list N :=
  match fuel with
  | O => []
  | S k => if start <? u32 (minimum + u32 (i * gap)) then []
           else sub32 start (i * gap) :: gap_loop start minimum gap (i + 1) k
  end.
Definition height_with_gap (start minimum gap num : N) : list N :=
  if start <=? minimum then [minimum] else gap_loop start minimum gap 0 (N.to_nat (num - 1)).

(* getCommonBlockStartSearchHeight(height uint32, roundLength int), roundLength > 0:
   ceil(height/roundLength) in float64 is exact for these magnitudes *)
Definition start_search_height (h r : N) : N :=
  let cr := (h + r - 1) / r in if cr =? 0 then 0 else u32 ((cr - 1) * r).

(* getLastHeights(start uint32, num int) *)
Fixpoint last_loop (start i : N) (fuel : nat) : list N :=
  match fuel with
  | O => []
  | S k => if start <? u32 i then [] else sub32 start i :: last_loop start (i + 1) k
  end.
Definition last_heights (start num : N) : list N := last_loop start 0 (N.to_nat (num - 1)).
