(* Model of pkg/consensus/sync/peer_selection.go : getBestNodeInfo.
   NodeInfo fields are uint32 and only compared, so unbounded N is exact.  Block IDs are compared with
   bytes.Equal / used as map keys: the model uses injective integer codes.  [pid] identifies the peer.

   The code has two sources of nondeterminism that are NOT observable in the model as functions:
   Go map iteration order in getMostFrequesntBlockIDNodeInfo and rand.Intn in getBestNodeInfo.  They are
   explicit inputs here ([order] = the sequence in which the keys of the frequency map are visited,
   [r] = the random index), and [valid_result] quantifies over them. *)
From Coq Require Import List NArith Bool Permutation.
Import ListNotations.
Local Open Scope N_scope.

Record ni := { height : N; mhp : N; bid : N; pid : N }.

Definition ni_eqb (a b : ni) : bool :=
  (height a =? height b) && (mhp a =? mhp b) && (bid a =? bid b) && (pid a =? pid b).

(* the loop shared by getLargestMaxHeightPrevotedNodeInfo and getLargestHeightNodeInfo, verbatim:
   maxValue starts at info[0].f, result starts empty, the loop visits info[0] again *)
Fixpoint largest_loop (f : ni -> N) (l : list ni) (maxv : N) (acc : list ni) : list ni :=
  match l with
  | [] => acc
  | v :: t =>
      if maxv <? f v then largest_loop f t (f v) [v]
      else if f v =? maxv then largest_loop f t maxv (acc ++ [v])
      else largest_loop f t maxv acc
  end.

Definition get_largest (f : ni -> N) (l : list ni) : list ni :=
  match l with [] => [] | v0 :: _ => largest_loop f l (f v0) [] end.

(* frequency map: keys in first-appearance order (the order is irrelevant: only lookups are used) *)
Definition count_id (id : N) (l : list ni) : N := N.of_nat (length (filter (fun v => bid v =? id) l)).

Fixpoint keys_of (l : list ni) (seen : list N) : list N :=
  match l with
  | [] => seen
  | v :: t => if existsb (N.eqb (bid v)) seen then keys_of t seen else keys_of t (seen ++ [bid v])
  end.
Definition freq_keys (l : list ni) : list N := keys_of l [].

(* ORIGINAL code (before the fix): `if count > max { blockID = id }` with max never updated, i.e. the ID
   visited last wins *)
Fixpoint pick_id_orig (order : list N) (group : list ni) (cur : option N) : option N :=
  match order with
  | [] => cur
  | id :: t => if 0 <? count_id id group then pick_id_orig t group (Some id) else pick_id_orig t group cur
  end.

(* REPAIRED code: `if count > max { max = count; blockID = id }` *)
Fixpoint pick_id (order : list N) (group : list ni) (mx : N) (cur : option N) : option N :=
  match order with
  | [] => cur
  | id :: t => if mx <? count_id id group then pick_id t group (count_id id group) (Some id)
               else pick_id t group mx cur
  end.

Definition select_id (id : option N) (group : list ni) : list ni :=
  match id with None => [] | Some x => filter (fun v => bid v =? x) group end.

Definition most_frequent_orig (order : list N) (group : list ni) := select_id (pick_id_orig order group None) group.
Definition most_frequent (order : list N) (group : list ni) := select_id (pick_id order group 0 None) group.

Inductive res := Err | Panic | Ok (x : ni).

(* rand.Intn(n) panics for n = 0; otherwise any index < n *)
Definition get_best_gen (mf : list N -> list ni -> list ni) (order : list N) (r : nat) (infos : list ni) : res :=
  match infos with
  | [] => Err
  | _ =>
      let g1 := get_largest mhp infos in
      let g2 := get_largest height g1 in
      let sel := mf order g2 in
      match sel with
      | [] => Panic
      | _ => match nth_error sel r with Some x => Ok x | None => Panic end
      end
  end.

Definition get_best_orig := get_best_gen most_frequent_orig.
Definition get_best := get_best_gen most_frequent.

(* admissible nondeterminism: the map is visited in some permutation of its keys, the index is in range *)
Definition admissible (order : list N) (infos : list ni) : Prop :=
  Permutation order (freq_keys (get_largest height (get_largest mhp infos))).

Definition valid_result (infos : list ni) (out : res) : Prop :=
  exists order r, admissible order infos /\ get_best order r infos = out /\ out <> Panic.
Definition valid_result_orig (infos : list ni) (out : res) : Prop :=
  exists order r, admissible order infos /\ get_best_orig order r infos = out /\ out <> Panic.

(* ---------------------------------------------------------------- declarative specification *)
Definition top_group (infos : list ni) (out : ni) : list ni :=
  filter (fun p => (mhp p =? mhp out) && (height p =? height out)) infos.

Definition best_spec (infos : list ni) (out : ni) : Prop :=
  In out infos /\
  (forall p, In p infos -> mhp p <= mhp out) /\
  (forall p, In p infos -> mhp p = mhp out -> height p <= height out) /\
  (forall id, count_id id (top_group infos out) <= count_id (bid out) (top_group infos out)).

(* boolean form of the specification, used as the correspondence oracle *)
Definition best_spec_b (infos : list ni) (out : ni) : bool :=
  existsb (ni_eqb out) infos &&
  forallb (fun p => mhp p <=? mhp out) infos &&
  forallb (fun p => negb (mhp p =? mhp out) || (height p <=? height out)) infos &&
  forallb (fun p => count_id (bid p) (top_group infos out) <=? count_id (bid out) (top_group infos out)) infos.

(* boolean membership in the set of results of the repaired model: computed by running the filters and
   then trying every key as the winner of the map walk (a key can win iff no key has a larger count) *)
Definition valid_result_b (infos : list ni) (out : ni) : bool :=
  match infos with
  | [] => false
  | _ =>
      let g2 := get_largest height (get_largest mhp infos) in
      let ks := freq_keys g2 in
      existsb (fun id => forallb (fun k => count_id k g2 <=? count_id id g2) ks &&
                         existsb (ni_eqb out) (select_id (Some id) g2)) ks
  end.
