(* Model of Downloader.Start (pkg/consensus/sync/download.go, repaired): the peer's answers to the successive
   getBlocksFromID requests are an arbitrary function [resp] of the request number (None = request error / undecodable;
   Some l = the decoded blocks as (height, id), already sorted by height as SortBlockByHeightAsc leaves them).
   Every answer must bring at least one block, every block above the last one fetched and not above the target height. *)
From Coq Require Import List NArith Bool Arith Lia.
Import ListNotations.

Definition blk : Type := nat * N.

Inductive step_res := Done | More | Bad.

(* the inner loop over one response *)
Fixpoint consume (bs : list blk) (last endh : nat) (endid : N) (acc : list blk) : list blk * nat * step_res :=
  match bs with
  | [] => (acc, last, More)
  | b :: r =>
      if (fst b <=? last) || (endh <? fst b) then (acc, last, Bad)
      else if N.eqb (snd b) endid then (acc ++ [b], fst b, Done)
      else consume r (fst b) endh endid (acc ++ [b])
  end.

Inductive dl_end := DlOk | DlErr | DlOutOfFuel.

Fixpoint download (resp : nat -> option (list blk)) (k fuel last endh : nat) (endid : N) (acc : list blk) : list blk * dl_end :=
  match fuel with
  | O => (acc, DlOutOfFuel)
  | S f =>
      match resp k with
      | None => (acc, DlErr)
      | Some [] => (acc, DlErr)                       (* "peer returned no blocks" *)
      | Some bs =>
          match consume bs last endh endid acc with
          | (acc', _, Done) => (acc', DlOk)
          | (acc', _, Bad) => (acc', DlErr)           (* "block outside of the requested segment" *)
          | (acc', last', More) => download resp (S k) f last' endh endid acc'
          end
      end
  end.

(* ORIGINAL loop: no progress requirement *)
Fixpoint consume_orig (bs : list blk) (last : nat) (endid : N) (acc : list blk) : list blk * nat * step_res :=
  match bs with
  | [] => (acc, last, More)
  | b :: r => if N.eqb (snd b) endid then (acc ++ [b], fst b, Done) else consume_orig r (fst b) endid (acc ++ [b])
  end.

Fixpoint download_orig (resp : nat -> option (list blk)) (k fuel last : nat) (endid : N) (acc : list blk) : list blk * dl_end :=
  match fuel with
  | O => (acc, DlOutOfFuel)
  | S f =>
      match resp k with
      | None => (acc, DlErr)
      | Some bs =>
          match consume_orig bs last endid acc with
          | (acc', _, Done) => (acc', DlOk)
          | (acc', _, Bad) => (acc', DlErr)
          | (acc', last', More) => download_orig resp (S k) f last' endid acc'
          end
      end
  end.

Lemma consume_spec : forall bs last endh endid acc,
  let '(acc', last', r) := consume bs last endh endid acc in
  last <= last' /\ last' <= Nat.max last endh /\ length acc' + last <= length acc + last' /\
  length acc' <= length acc + (last' - last) /\
  (r = More -> bs <> [] -> last < last').
Proof.
  induction bs as [|b r IH]; intros last endh endid acc; cbn [consume].
  - repeat split; try lia; try (intros; congruence).
  - destruct ((fst b <=? last) || (endh <? fst b)) eqn:E.
    + repeat split; try lia; try (intros; discriminate).
    + apply orb_false_iff in E. destruct E as [E1 E2]. apply Nat.leb_gt in E1. apply Nat.ltb_ge in E2.
      destruct (N.eqb (snd b) endid).
      * rewrite app_length. cbn [length]. repeat split; try lia; try (intros; discriminate).
      * specialize (IH (fst b) endh endid (acc ++ [b])).
        destruct (consume r (fst b) endh endid (acc ++ [b])) as [[acc' last'] res].
        rewrite app_length in IH. cbn [length] in IH. destruct IH as (I1 & I2 & I3 & I4 & I5).
        repeat split; try lia; try (intros Hm _; lia).
Qed.

(* for EVERY peer behaviour the download ends within (target height - start height) + 1 requests and delivers at most
   (target height - start height) blocks: time and memory bounded by the requested segment *)
Lemma download_bounded : forall resp fuel k last endh endid acc,
  endh - last < fuel ->
  let '(acc', e) := download resp k fuel last endh endid acc in
  e <> DlOutOfFuel /\ length acc' <= length acc + (endh - last).
Proof.
  induction fuel as [|f IH]; intros k last endh endid acc Hf; [lia|]. cbn [download].
  destruct (resp k) as [[|b r]|]; [split; [discriminate|lia]| |split; [discriminate|lia]].
  pose proof (consume_spec (b :: r) last endh endid acc) as Hs.
  destruct (consume (b :: r) last endh endid acc) as [[acc' last'] res]. destruct Hs as (S1 & S2 & S3 & S4 & S5).
  destruct res.
  - split; [discriminate|]. lia.
  - assert (Hlt : last < last') by (apply S5; [reflexivity|discriminate]).
    assert (Hle : last' <= endh) by lia.
    specialize (IH (S k) last' endh endid acc' ltac:(lia)).
    destruct (download resp (S k) f last' endh endid acc') as [acc'' e]. destruct IH as [I1 I2]. split; [exact I1|lia].
  - split; [discriminate|]. lia.
Qed.

(* the original loop does not terminate against a peer answering empty lists: whatever the fuel, it runs out *)
Lemma download_orig_unbounded : forall fuel k last endid acc,
  snd (download_orig (fun _ => Some []) k fuel last endid acc) = DlOutOfFuel.
Proof. induction fuel as [|f IH]; intros; cbn; [reflexivity|apply IH]. Qed.

(* ... and against a peer repeating one segment it accumulates without bound *)
Lemma download_orig_grows : forall fuel k last acc,
  length (fst (download_orig (fun _ => Some [(1, 7%N)]) k fuel last 9%N acc)) = length acc + fuel.
Proof.
  induction fuel as [|f IH]; intros k last acc; cbn [download_orig consume_orig]; [cbn; lia|].
  cbn [snd N.eqb Pos.eqb fst]. rewrite IH, app_length. cbn. lia.
Qed.
